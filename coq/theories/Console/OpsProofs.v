(** Proofs about the shared loops of the console models: a span of pixels/cells, a rectangle of
    spans, row copies.  Memory is addressed in two dimensions: index = Y * pitch + b, b < pitch. *)
From Coq Require Import NArith ZArith PArith Arith Bool List Lia.
From Coq Require Import ZifyBool ZifyN ZifyNat.
From FF Require Import Lib.Word Console.Mem Console.MemProofs Console.Loop Console.LoopProofs Console.Ops.
Import ListNotations.
Local Open Scope N_scope.
Ltac Zify.zify_post_hook ::= Z.div_mod_to_equations.

(** ---- 32-bit arithmetic without wrap-around ---- *)
Lemma add32_small a b : a + b < two32 -> add32 a b = a + b.
Proof. intros H. unfold add32. now apply w32_small. Qed.

Lemma sub32_small a b : b <= a -> a < two32 -> sub32 a b = a - b.
Proof. intros H1 H2. unfold sub32, w32, two32 in *. lia. Qed.

Lemma mul32_small a b : a * b < two32 -> mul32 a b = a * b.
Proof. intros H. unfold mul32. now apply w32_small. Qed.

Ltac bdestr :=
  repeat match goal with
  | |- context[?a <=? ?b] => destruct (N.leb_spec a b)
  | |- context[?a <? ?b] => destruct (N.ltb_spec a b)
  | |- context[?a =? ?b] => destruct (N.eqb_spec a b)
  end; cbn [andb orb negb].

(** ---- store_seq ---- *)

Lemma store_seq_ok bytes : forall m off k,
  off + k + N.of_nat (length bytes) <= flen m -> flen m <= two32 ->
  exists m', store_seq m off k bytes = (m', true) /\ flen m' = flen m /\
    forall i, load m' i =
      if (off + k <=? i) && (i <? off + k + N.of_nat (length bytes)) then byte_at bytes (i - off - k) else load m i.
Proof.
  induction bytes as [|b rest IH]; intros m off k Hfit Hlen.
  - exists m. cbn. repeat split; auto. intros i. bdestr; auto; lia.
  - cbn [store_seq length] in *.
    assert (E: (if k =? 0 then off else add32 off k) = off + k).
    { destruct (N.eqb_spec k 0). lia. apply add32_small. lia. }
    rewrite E, store_chk_some by lia.
    destruct (IH (store m (off + k) b) off (k + 1)) as [m' [E1 [E2 E3]]]; rewrite ?flen_store; try lia.
    exists m'. repeat split; auto. intros i. rewrite E3, load_store. unfold byte_at.
    bdestr; try lia.
    + replace (N.to_nat (i - off - k)) with (S (N.to_nat (i - off - (k + 1)))) by lia. reflexivity.
    + subst i. replace (N.to_nat (off + k - off - k)) with O by lia. reflexivity.
Qed.

(** ---- a span of [n] pixels, [s] bytes apart, the first [length bytes] bytes of each stored ---- *)
Definition step_ok (s : N) : Prop := s = 1 \/ s = 2 \/ s = 3 \/ s = 4.

Lemma fill_span s bytes n m ro :
  step_ok s -> N.of_nat (length bytes) <= s ->
  ro + n * s <= flen m -> flen m < two32 ->
  exists m', whileP (fill_px_step (add32 ro (n * s)) s bytes) fuel32 (m, ro) = Done (m', ro + n * s) /\
    flen m' = flen m /\
    forall i, load m' i =
      if (ro <=? i) && (i <? ro + n * s) && ((i - ro) mod s <? N.of_nat (length bytes))
      then byte_at bytes ((i - ro) mod s) else load m i.
Proof.
  intros Hs Hnb Hfit Hlen.
  set (nb := N.of_nat (length bytes)) in *.
  pose (Inv := fun (k : nat) (st : fbuf * N) =>
    snd st = ro + N.of_nat k * s /\ flen (fst st) = flen m /\
    forall i, load (fst st) i =
      if (ro <=? i) && (i <? ro + N.of_nat k * s) && ((i - ro) mod s <? nb)
      then byte_at bytes ((i - ro) mod s) else load m i).
  assert (Hbound: add32 ro (n * s) = ro + n * s) by (apply add32_small; lia).
  destruct (whileP_inv (fill_px_step (add32 ro (n * s)) s bytes) Inv n (m, ro)) as [[m' off'] [E [I1 [I2 I3]]]].
  - unfold step_ok in Hs. unfold two32 in *. nia.
  - unfold Inv. cbn [fst snd]. repeat split; try lia. intros i. bdestr; auto; lia.
  - intros k [mk off] Hk [I1 [I2 I3]]. cbn [fst snd] in *. subst off.
    unfold fill_px_step. rewrite Hbound.
    assert (Hlt: ro + N.of_nat k * s < ro + n * s) by (unfold step_ok in Hs; nia).
    apply N.ltb_lt in Hlt. rewrite Hlt. apply N.ltb_lt in Hlt.
    assert (Hk1: N.of_nat k * s + s <= n * s) by (unfold step_ok in Hs; nia).
    destruct (store_seq_ok bytes mk (ro + N.of_nat k * s) 0) as [m2 [S1 [S2 S3]]]; fold nb; try lia.
    rewrite S1. eexists. split; [reflexivity|].
    unfold Inv. cbn [fst snd]. rewrite add32_small by lia. repeat split; try lia.
    intros i. rewrite S3, I3. fold nb. rewrite Nat2N.inj_succ.
    unfold step_ok in Hs. destruct Hs as [-> | [-> | [-> | ->]]]; bdestr; try lia; try (f_equal; lia).
  - intros [mk off] [I1 [I2 I3]]. cbn [fst snd] in *. unfold fill_px_step. rewrite Hbound.
    rewrite N2Nat.id in I1. subst off. rewrite N.ltb_irrefl. reflexivity.
  - cbn [fst snd] in *. rewrite N2Nat.id in *. subst off'. exists m'. rewrite E. repeat split; auto.
Qed.

(** ---- two-dimensional addressing ---- *)
Lemma span_coord P Y b Y0 a n :
  b < P -> a + n <= P ->
  (Y0 * P + a <= Y * P + b /\ Y * P + b < Y0 * P + a + n) <-> (Y = Y0 /\ a <= b /\ b < a + n).
Proof.
  intros Hb Han. split.
  - intros [H1 H2].
    assert (Y = Y0).
    { destruct (N.lt_trichotomy Y Y0) as [Hlt|[Heq|Hgt]]; auto.
      - assert ((Y + 1) * P <= Y0 * P) by (apply N.mul_le_mono_r; lia). lia.
      - assert ((Y0 + 1) * P <= Y * P) by (apply N.mul_le_mono_r; lia). lia. }
    subst. lia.
  - intros [-> H]. lia.
Qed.

Lemma coord_unique P Y b Y' b' : b < P -> b' < P -> Y * P + b = Y' * P + b' -> Y = Y' /\ b = b'.
Proof.
  intros H1 H2 E.
  destruct (N.div_mod_unique P Y Y' b b' H1 H2) as [A B]; [lia|]. auto.
Qed.

(** ---- a rectangle: [R] rows starting at row [Y0], each the span starting at byte column [a] ---- *)
Lemma fill_rect s bytes P n R m Y0 a :
  step_ok s -> N.of_nat (length bytes) <= s -> 1 <= P ->
  a + n * s <= P -> (Y0 + R) * P <= flen m -> flen m < two32 ->
  exists m' r', whileP (fill_row_step P (n * s) s bytes) fuel32 (m, R, Y0 * P + a) = Done (m', 0, r') /\
    flen m' = flen m /\
    forall Y b, b < P ->
      load m' (Y * P + b) =
        if (Y0 <=? Y) && (Y <? Y0 + R) && (a <=? b) && (b <? a + n * s) && ((b - a) mod s <? N.of_nat (length bytes))
        then byte_at bytes ((b - a) mod s) else load m (Y * P + b).
Proof.
  intros Hs Hnb HP Hfit Hrows Hlen.
  set (nb := N.of_nat (length bytes)) in *.
  pose (Inv := fun (j : nat) (st : fbuf * N * N) =>
    let '(mj, rows, ro) := st in
    rows = R - N.of_nat j /\ (N.of_nat j < R -> ro = (Y0 + N.of_nat j) * P + a) /\ flen mj = flen m /\
    forall Y b, b < P ->
      load mj (Y * P + b) =
        if (Y0 <=? Y) && (Y <? Y0 + N.of_nat j) && (a <=? b) && (b <? a + n * s) && ((b - a) mod s <? nb)
        then byte_at bytes ((b - a) mod s) else load m (Y * P + b)).
  assert (HR: R < two32).
  { assert (R * 1 <= R * P) by (apply N.mul_le_mono_l; lia). lia. }
  destruct (whileP_inv (fill_row_step P (n * s) s bytes) Inv R (m, R, Y0 * P + a)) as [[[m' rows'] r'] [E I]].
  - lia.
  - unfold Inv. repeat split; try lia. intros Y b Hb.
    destruct (Y <? Y0 + N.of_nat 0) eqn:E0; [apply N.ltb_lt in E0|]; bdestr; auto; lia.
  - intros j [[mj rows] ro] Hj [I1 [I2 [I3 I4]]]. subst rows.
    assert (Hj': N.of_nat j < R) by lia. specialize (I2 Hj'). subst ro.
    unfold fill_row_step.
    assert (Hpos: 0 <? R - N.of_nat j = true) by (apply N.ltb_lt; lia). rewrite Hpos.
    assert (Hmono: (Y0 + N.of_nat j + 1) * P <= (Y0 + R) * P) by (apply N.mul_le_mono_r; lia).
    destruct (fill_span s bytes n mj ((Y0 + N.of_nat j) * P + a)) as [m2 [S1 [S2 S3]]]; auto; try lia.
    rewrite S1. eexists. split; [reflexivity|]. unfold Inv.
    rewrite sub32_small by lia. repeat split; try lia.
    + intros Hnext. rewrite add32_small.
      * rewrite Nat2N.inj_succ. lia.
      * assert ((Y0 + N.of_nat j + 2) * P <= (Y0 + R) * P) by (apply N.mul_le_mono_r; lia). lia.
    + intros Y b Hb. rewrite S3, I4 by assumption. fold nb.
      pose proof (span_coord P Y b (Y0 + N.of_nat j) a (n * s) Hb Hfit) as SC.
      rewrite Nat2N.inj_succ.
      destruct (N.eq_dec Y (Y0 + N.of_nat j)) as [Heq|Hne].
      * subst Y. destruct (N.le_gt_cases a b) as [Hab|Hab].
        -- replace ((Y0 + N.of_nat j) * P + b - ((Y0 + N.of_nat j) * P + a)) with (b - a) by lia.
           generalize ((b - a) mod s). intros r.
           destruct (r <? nb); rewrite ?andb_false_r, ?andb_true_r.
           ++ destruct (N.ltb_spec b (a + n * s)); rewrite ?andb_false_r, ?andb_true_r.
              ** replace ((Y0 + N.of_nat j) * P + a <=? (Y0 + N.of_nat j) * P + b) with true by (symmetry; apply N.leb_le; lia).
                 replace ((Y0 + N.of_nat j) * P + b <? (Y0 + N.of_nat j) * P + a + n * s) with true by (symmetry; apply N.ltb_lt; lia).
                 replace (Y0 <=? Y0 + N.of_nat j) with true by (symmetry; apply N.leb_le; lia).
                 replace (Y0 + N.of_nat j <? Y0 + N.succ (N.of_nat j)) with true by (symmetry; apply N.ltb_lt; lia).
                 replace (a <=? b) with true by (symmetry; apply N.leb_le; lia). reflexivity.
              ** replace ((Y0 + N.of_nat j) * P + b <? (Y0 + N.of_nat j) * P + a + n * s) with false by (symmetry; apply N.ltb_ge; lia).
                 rewrite ?andb_false_r. reflexivity.
           ++ reflexivity.
        -- replace ((Y0 + N.of_nat j) * P + a <=? (Y0 + N.of_nat j) * P + b) with false by (symmetry; apply N.leb_gt; lia).
           replace (a <=? b) with false by (symmetry; apply N.leb_gt; lia).
           rewrite ?andb_false_r. reflexivity.
      * assert (F: ((Y0 + N.of_nat j) * P + a <=? Y * P + b) && (Y * P + b <? (Y0 + N.of_nat j) * P + a + n * s) = false).
        { apply andb_false_iff. destruct (N.leb_spec ((Y0 + N.of_nat j) * P + a) (Y * P + b)); auto.
          right. apply N.ltb_ge. destruct (N.le_gt_cases ((Y0 + N.of_nat j) * P + a + n * s) (Y * P + b)); auto.
          exfalso. apply Hne. apply SC. lia. }
        rewrite F. cbn [andb].
        replace (Y <? Y0 + N.succ (N.of_nat j)) with (Y <? Y0 + N.of_nat j); auto.
        destruct (N.ltb_spec Y (Y0 + N.of_nat j)); symmetry; [apply N.ltb_lt|apply N.ltb_ge]; lia.
  - intros [[mj rows] ro] [I1 _]. unfold fill_row_step. subst rows.
    rewrite N2Nat.id, N.sub_diag. reflexivity.
  - unfold Inv in I. destruct I as [I1 [_ [I3 I4]]]. rewrite N2Nat.id in *.
    exists m', r'. rewrite E. replace rows' with 0 by lia. repeat split; auto.
Qed.

(** ---- copying a span: [for i := ro; i < ro+n; i++ { fb[i] = fb[f i] }] where no source has been
    overwritten by an earlier iteration ---- *)
Lemma copy_span (f : N -> N) n m ro :
  ro + n <= flen m -> flen m < two32 ->
  (forall i, ro <= i < ro + n -> f i < flen m /\ (f i < ro \/ i <= f i)) ->
  exists m', whileP (copy_fwd_step (add32 ro n) f) fuel32 (m, ro) = Done (m', ro + n) /\
    flen m' = flen m /\
    forall i, load m' i = if (ro <=? i) && (i <? ro + n) then load m (f i) else load m i.
Proof.
  intros Hfit Hlen Hsrc.
  pose (Inv := fun (k : nat) (st : fbuf * N) =>
    snd st = ro + N.of_nat k /\ flen (fst st) = flen m /\
    forall i, load (fst st) i = if (ro <=? i) && (i <? ro + N.of_nat k) then load m (f i) else load m i).
  assert (Hbound: add32 ro n = ro + n) by (apply add32_small; lia).
  destruct (whileP_inv (copy_fwd_step (add32 ro n) f) Inv n (m, ro)) as [[m' off'] [E [I1 [I2 I3]]]].
  - lia.
  - unfold Inv. cbn [fst snd]. repeat split; try lia. intros i. bdestr; auto; lia.
  - intros k [mk i] Hk [I1 [I2 I3]]. cbn [fst snd] in *. subst i.
    unfold copy_fwd_step. rewrite Hbound.
    assert (Hlt: ro + N.of_nat k <? ro + n = true) by (apply N.ltb_lt; lia). rewrite Hlt.
    destruct (Hsrc (ro + N.of_nat k) ltac:(lia)) as [Hs1 Hs2].
    unfold copy_chk. rewrite load_chk_some, store_chk_some by lia.
    eexists. split; [reflexivity|]. unfold Inv. cbn [fst snd]. rewrite add32_small by lia.
    repeat split; rewrite ?flen_store; try lia. intros i. rewrite load_store, !I3, Nat2N.inj_succ.
    bdestr; try lia; try reflexivity; subst; try reflexivity.
  - intros [mk i] [I1 _]. cbn [fst snd] in *. unfold copy_fwd_step. rewrite Hbound.
    rewrite N2Nat.id in I1. subst i. rewrite N.ltb_irrefl. reflexivity.
  - cbn [fst snd] in *. rewrite N2Nat.id in *. subst off'. exists m'. rewrite E. repeat split; auto.
Qed.

Lemma row_lt P Y b K : b < P -> (Y * P + b < K * P <-> Y < K).
Proof.
  intros Hb. split; intros H.
  - destruct (N.lt_ge_cases Y K) as [|Hge]; auto.
    assert (K * P <= Y * P) by (apply N.mul_le_mono_r; lia). lia.
  - assert ((Y + 1) * P <= K * P) by (apply N.mul_le_mono_r; lia). lia.
Qed.

Lemma row_le P Y b K : b < P -> (K * P <= Y * P + b <-> K <= Y).
Proof. intros Hb. pose proof (row_lt P Y b K Hb). lia. Qed.
