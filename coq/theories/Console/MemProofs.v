(** Facts about the framebuffer memory; everything else relies only on these. *)
From Coq Require Import NArith PArith Bool List Lia FMapPositive.
From FF Require Import Console.Mem.
Local Open Scope N_scope.

Lemma succ_pos_inj i j : N.succ_pos i = N.succ_pos j -> i = j.
Proof.
  intros H. apply (f_equal Npos) in H. rewrite !N.succ_pos_spec in H. lia.
Qed.

Lemma load_store_eq m i v : load (store m i v) i = v.
Proof. unfold load, store. cbn. now rewrite PositiveMap.gss. Qed.

Lemma load_store_neq m i j v : i <> j -> load (store m i v) j = load m j.
Proof.
  intros H. unfold load, store. cbn. rewrite PositiveMap.gso; auto.
  intros E. apply succ_pos_inj in E. congruence.
Qed.

Lemma load_store m i j v : load (store m i v) j = if j =? i then v else load m j.
Proof.
  destruct (N.eqb_spec j i) as [->|H]. apply load_store_eq. apply load_store_neq. congruence.
Qed.

Lemma flen_store m i v : flen (store m i v) = flen m.
Proof. reflexivity. Qed.

Lemma store_chk_some m i v : i < flen m -> store_chk m i v = Some (store m i v).
Proof. intros H. unfold store_chk. apply N.ltb_lt in H. now rewrite H. Qed.

Lemma store_chk_none m i v : flen m <= i -> store_chk m i v = None.
Proof. intros H. unfold store_chk. apply N.ltb_ge in H. now rewrite H. Qed.

Lemma load_chk_some m i : i < flen m -> load_chk m i = Some (load m i).
Proof. intros H. unfold load_chk. apply N.ltb_lt in H. now rewrite H. Qed.

Lemma load_fresh len base i : load (fresh len base) i = base i.
Proof. unfold load, fresh. cbn. now rewrite PositiveMap.gempty. Qed.
