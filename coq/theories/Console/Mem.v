(** Framebuffer memory for the console models (C19): a block of [flen] elements (bytes for the
    framebuffer console, 16-bit cells for the text console) that the Go code overlays with a
    slice.  Every access of the model goes through the bounds-checked [load_chk]/[store_chk]:
    an index [>= flen] is the Go run-time panic "index out of range".

    Representation: initial content [fbase] (a function of the index) + a binary trie of the
    stores made so far (O(log n) in the extracted model).  Everything outside this file uses
    only [flen], [load], [store] and the three lemmas in [Console/MemProofs.v]. *)
From Coq Require Import NArith PArith Bool List FMapPositive.
Import ListNotations.
Local Open Scope N_scope.

Record fbuf := mkFbuf { flen : N; fdata : PositiveMap.t N; fbase : N -> N }.

Definition load (m : fbuf) (i : N) : N :=
  match PositiveMap.find (N.succ_pos i) (fdata m) with
  | Some v => v
  | None => fbase m i
  end.

Definition store (m : fbuf) (i v : N) : fbuf :=
  mkFbuf (flen m) (PositiveMap.add (N.succ_pos i) v (fdata m)) (fbase m).

Definition fresh (len : N) (base : N -> N) : fbuf := mkFbuf len (PositiveMap.empty N) base.

(** Outcome of a driver operation.  [Panic m]: a Go run-time panic happened; [m] is the memory
    at that moment (stores made before the panic stay).  [OutOfFuel]: a loop of the model ran
    out of fuel (excluded by the theorems). *)
Inductive res := Ok (m : fbuf) | Panic (m : fbuf) | OutOfFuel (m : fbuf).

Definition res_mem (r : res) : fbuf := match r with Ok m | Panic m | OutOfFuel m => m end.

Definition store_chk (m : fbuf) (i v : N) : option fbuf :=
  if i <? flen m then Some (store m i v) else None.

Definition load_chk (m : fbuf) (i : N) : option N :=
  if i <? flen m then Some (load m i) else None.

(** the indices [0 .. n-1] as a list, without a data-sized [nat]: used for dumping observations *)
Fixpoint upto_pos (p : positive) (start : N) (k : N -> list N -> list N) (acc : list N) : list N :=
  (* calls [k i] for i = start+2^|p|-ish ... ; see [indices] *)
  match p with
  | xH => k start acc
  | xO q => upto_pos q start k (upto_pos q (start + Npos q) k acc)
  | xI q => upto_pos q start k (upto_pos q (start + Npos q) k (k (start + Npos q + Npos q) acc))
  end.

(** [dump m] = [load m 0; load m 1; ...; load m (flen-1)] *)
Definition dump (m : fbuf) : list N :=
  match flen m with
  | 0 => []
  | Npos p => upto_pos p 0 (fun i acc => load m i :: acc) []
  end.
