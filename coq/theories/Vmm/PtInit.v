(** The boot state of a case satisfies the invariant (non-vacuity of every C04-C06 theorem). *)
From Coq Require Import NArith ZArith Lia List Bool FMapPositive.
From Coq Require Import ZifyBool ZifyN ZifyNat.
From FF Require Import Lib.Word Gen.Consts_mm_vmm Vmm.Region Vmm.Pt Vmm.PtMem Vmm.PtArith Vmm.PtTree Vmm.PtMap.
Import ListNotations.
Local Open Scope N_scope.
Ltac Zify.zify_post_hook ::= Z.div_mod_to_equations.

Definition own_root (root : N) : ownmap := fun f => if f =? root then Some [] else None.

Lemma rec_entry_ok f : f < 2 ^ 40 ->
  usable (N.lor (N.shiftl f 12) 3) = true /\ hw_frame (N.lor (N.shiftl f 12) 3) = f.
Proof.
  intros H.
  assert (H52: f < 2 ^ 52) by (change (2 ^ 40) with 1099511627776 in H; change (2 ^ 52) with 4503599627370496; lia).
  destruct (link_entry f H) as (L1 & L2 & L3).
  rewrite mk_entry_val in * by exact H52. rewrite P_RW_val in *.
  unfold usable. rewrite L1, L2, L3. split; reflexivity.
Qed.

Lemma Inv_init lo0 cnt0 last0 oracle :
  0 < cnt0 -> lo0 + cnt0 <= 2 ^ 40 ->
  NoDup (ofr oracle) -> (forall f, In f oracle -> f <> 0 -> lo0 < f /\ f < lo0 + cnt0) ->
  Inv (init_state lo0 cnt0 last0 oracle) lo0 lo0 (own_root lo0).
Proof.
  intros Hc Har Hnd Hor.
  set (s := init_state lo0 cnt0 last0 oracle).
  assert (Hlo40: lo0 < 2 ^ 40) by lia.
  assert (He: forall f i, ent s f i = if (f =? lo0) && (i =? 511) then N.lor (N.shiftl lo0 12) 3
                                      else if f =? lo0 then 0 else ent s f i).
  { intros f i. unfold ent, s, init_state. cbn [mem]. rewrite rd_wr.
    destruct ((f =? lo0) && (i =? 511)); [reflexivity|]. rewrite rd_zero.
    destruct (f =? lo0); reflexivity. }
  assert (Hbk: forall f, backed s f = (lo0 <=? f) && (f <? lo0 + cnt0)) by reflexivity.
  assert (Hcr: N.shiftr (cr3 s) 12 = lo0).
  { unfold s, init_state. cbn [cr3]. rewrite N.shiftr_shiftl_l by lia. replace (12 - 12) with 0 by lia. apply N.shiftl_0_r. }
  assert (Hb0: backed s lo0 = true) by (rewrite Hbk; lia).
  destruct (rec_entry_ok lo0 Hlo40) as [U1 U2].
  assert (E511: ent s lo0 511 = N.lor (N.shiftl lo0 12) 3).
  { rewrite He, !N.eqb_refl. reflexivity. }
  split.
  - split.
    + exact Har.
    + unfold own_root. rewrite N.eqb_refl. reflexivity.
    + intros t p. unfold own_root. destruct (N.eqb_spec t lo0) as [->|]; [|discriminate].
      intros E; inversion E as [Ep]. split; [exact Hb0|]. split; [cbn; lia|]. split; [constructor | cbn; lia].
    + rewrite E511. split; assumption.
    + intros t p i. unfold own_root at 1. destruct (N.eqb_spec t lo0) as [->|]; [|discriminate].
      intros E Hl Hi Hne; inversion E as [Ep]. rewrite <- Ep in *. cbn [app] in Hne.
      assert (i <> 511) by (intros E2; rewrite E2 in Hne; apply Hne; reflexivity).
      rewrite He, N.eqb_refl. destruct (N.eqb_spec i 511); [congruence|]. cbn [andb].
      split; [reflexivity | discriminate].
  - exact Hcr.
  - unfold Rec. rewrite Hb0, E511, U1, U2. repeat split.
  - left. reflexivity.
  - split.
    + exact Hnd.
    + intros f Hin Hz. destruct (Hor f Hin Hz) as [H1 H2]. rewrite Hbk. split; [lia|]. split; [|lia].
      unfold own_root. destruct (N.eqb_spec f lo0); [lia|reflexivity].
Qed.
