(** Proofs about Vmm/Pt.v (C04, C05, C06). *)
From Coq Require Import NArith ZArith Lia List Bool.
From Coq Require Import ZifyBool ZifyN ZifyNat.
From FF Require Import Lib.Word Gen.Consts_mm_vmm Vmm.Region Vmm.Pt.
Import ListNotations.
Local Open Scope N_scope.
Ltac Zify.zify_post_hook ::= Z.div_mod_to_equations.

(** The Go constants agree with the hardware the [mmu] models. *)
Lemma go_levels_hw : go_levels = [(39, 9); (30, 9); (21, 9); (12, 9)].
Proof. reflexivity. Qed.
