(** The temporary-mapping window; PageDirectoryTable.Init; reserveZeroedFrame. *)
From Coq Require Import NArith ZArith Lia List Bool.
From Coq Require Import ZifyBool ZifyN ZifyNat.
From FF Require Import Lib.Word Gen.Consts_mm_vmm Vmm.Region Vmm.Pt Vmm.PtMem Vmm.PtArith Vmm.PtTree Vmm.PtMap Vmm.PtOps
     Vmm.PtTheorems Vmm.PtInit Vmm.PtPdt Vmm.PtFault Vmm.PtCow Vmm.PtZero.
Import ListNotations.
Local Open Scope N_scope.
Ltac Zify.zify_post_hook ::= Z.div_mod_to_equations.

Lemma temp_last_entry_addr :
  N.land (add64 (frame_addr temp_page) last_entry_off) 7 = 0 /\
  N.shiftr (add64 (frame_addr temp_page) last_entry_off) 12 = N.shiftr (frame_addr temp_page) 12 /\
  N.shiftr (N.land (add64 (frame_addr temp_page) last_entry_off) 4095) 3 = 511.
Proof. vm_compute. repeat split; reflexivity. Qed.

Lemma frame_addr_temp : frame_addr temp_page = vmm_tempMappingAddr.
Proof. reflexivity. Qed.

(** MapTemporary of a frame that is not a page table *)
Lemma temp_map_spec s A own F :
  Inv s A A own -> (prot s && (F =? zf s)) = false -> backed s F = true -> own F = None -> ~ In F (orc s) ->
  exists s1 err pg own1,
    map_temporary F s = Ok (s1, err, pg) /\ (err = 0 \/ err = E_ALLOC) /\ Inv s1 A A own1 /\ same_env s s1 /\
    own1 F = None /\ ~ In F (orc s1) /\
    (forall f i, own1 f = None -> ent s1 f i = ent s f i) /\
    (exists n, orc s1 = skipn n (orc s) /\ forall f, own1 f = own f \/ (own f = None /\ In f (firstn n (orc s)) /\ f <> 0)) /\
    (err = 0 -> pg = temp_page /\ resolve_page s1 (frame_addr temp_page) = Some F /\
                resolve s1 (add64 (frame_addr temp_page) last_entry_off) = Some (F, 511) /\
                (forall q, hw_idx q 0 <> 511 -> ~ same_page q temp_page -> translation s1 A q = translation s A q) /\
                flog s1 = vmm_tempMappingAddr :: flog s) /\
    (err <> 0 -> pg = 0 /\ (forall q, hw_idx q 0 <> 511 -> translation s1 A q = translation s A q) /\ flog s1 = flog s) /\
    (length (orc s) <= length (orc s1) + 3)%nat /\
    ((3 <= length (orc s))%nat -> Forall (fun x => x <> 0) (firstn 3 (orc s)) -> err = 0).
Proof.
  intros HI Hg HbF HoF HnF.
  pose proof (inv_wf _ _ _ _ HI) as W.
  assert (HF40: F < 2 ^ 40) by (eapply backed_lt40; [exact (wf_arena _ _ _ W) | exact HbF]).
  assert (Hzg: zero_guard s F P_RW = false) by (unfold zero_guard; rewrite Hg; reflexivity).
  destruct (map_ok s A A own temp_page F P_RW HI temp_idx0 Hzg) as
      (s1 & err & own1 & Hrun & HI1 & Henv & Herr & Hok & Hfail & Hfr & _ & (n & Hn & Hown) & _ & _ & Hb1 & Hb2).
  assert (Ho1F: own1 F = None).
  { destruct (Hown F) as [E | (_ & Hin & _)]; [rewrite E; exact HoF | exfalso; apply HnF; eapply in_firstn; exact Hin]. }
  assert (Hn1F: ~ In F (orc s1)) by (rewrite Hn; intros Hin; apply HnF; eapply skipn_in; exact Hin).
  unfold map_temporary. rewrite Hg, Hrun.
  destruct (N.eqb_spec err 0) as [E0|E0].
  - subst err. exists s1, 0, temp_page, own1.
    split; [reflexivity|]. split; [left; reflexivity|]. split; [exact HI1|]. split; [exact Henv|].
    split; [exact Ho1F|]. split; [exact Hn1F|]. split; [exact Hfr|]. split; [exists n; split; assumption|].
    split; [|split; [intros H; congruence | split; assumption]]. intros _.
    destruct (Hok eq_refl) as (Hat & Htr & Hfl).
    destruct (link_entry F HF40) as (LP & LPS & LF).
    assert (Hbk1: backed s1 F = true) by (rewrite (same_env_backed s s1 F Henv); exact HbF).
    assert (Hm: mmu s1 (frame_addr temp_page) = Some F).
    { destruct (mmu_aspace s1 A A own1 temp_page _ HI1 eq_refl temp_idx0 Hat LP) as [M _]; [rewrite LF; exact Hbk1|].
      rewrite LF in M. exact M. }
    split; [reflexivity|]. split; [rewrite resolve_page_mmu; exact Hm|].
    split.
    { destruct temp_last_entry_addr as (T1 & T2 & T3). unfold resolve. rewrite T1. cbn [N.eqb].
      rewrite (mmu_page s1 _ (frame_addr temp_page) T2), Hm, T3. reflexivity. }
    split; [exact Htr | exact Hfl].
  - exists s1, err, 0, own1.
    split; [reflexivity|]. split; [exact Herr|]. split; [exact HI1|]. split; [exact Henv|].
    split; [exact Ho1F|]. split; [exact Hn1F|]. split; [exact Hfr|]. split; [exists n; split; assumption|].
    split; [intros H; congruence|]. split; [|split; assumption]. intros _. destruct (Hfail E0) as (Htr & Hfl). split; [reflexivity|]. split; assumption.
Qed.

(** an address space with nothing mapped *)
Lemma empty_space s F :
  (forall i, i <> 511 -> ent s F i = 0) -> forall q, hw_idx q 0 <> 511 -> aspace s F q = None.
Proof.
  intros Hz q Hq. unfold aspace, ixs. rewrite look_cons. rewrite (Hz _ Hq).
  unfold usable. cbn. rewrite andb_false_r. reflexivity.
Qed.

(** * PageDirectoryTable.Init on a frame that is not the active table *)
Theorem pdt_init_spec s A own slot F :
  Inv s A A own -> (prot s && (F =? zf s)) = false -> backed s F = true -> own F = None -> ~ In F (orc s) ->
  exists s' err own1,
    pdt_init slot F s = Ok (s', err) /\ (err = 0 \/ err = E_ALLOC) /\ pdts s' slot = F /\
    (forall k, k <> slot -> pdts s' k = pdts s k) /\
    lo s' = lo s /\ cnt s' = cnt s /\ cr3 s' = cr3 s /\ zf s' = zf s /\ prot s' = prot s /\ last s' = last s /\ slog s' = slog s /\
    (exists n, orc s' = skipn n (orc s) /\ forall f, own1 f = own f \/ (own f = None /\ In f (firstn n (orc s)) /\ f <> 0)) /\
    (err = 0 ->
       Inv2 s' A F own1 (own_root F) /\
       (forall q, hw_idx q 0 <> 511 -> aspace s' F q = None) /\
       (forall q, hw_idx q 0 <> 511 -> ~ same_page q temp_page -> translation s' A q = translation s A q) /\
       translation s' A temp_page = None /\
       (forall f i, own1 f = None -> f <> F -> ent s' f i = ent s f i)) /\
    (err <> 0 -> Inv s' A A own1 /\ (forall q, hw_idx q 0 <> 511 -> translation s' A q = translation s A q) /\
                 (forall f i, own1 f = None -> ent s' f i = ent s f i)) /\
    (length (orc s) <= length (orc s') + 3)%nat /\
    ((3 <= length (orc s))%nat -> Forall (fun x => x <> 0) (firstn 3 (orc s)) -> err = 0).
Proof.
  intros HI Hg HbF HoF HnF.
  pose proof (inv_wf _ _ _ _ HI) as W.
  assert (HF40: F < 2 ^ 40) by (eapply backed_lt40; [exact (wf_arena _ _ _ W) | exact HbF]).
  assert (HFA: F <> A) by (intros E; rewrite E, (wf_root _ _ _ W) in HoF; discriminate).
  set (s0 := set_pdt s slot F).
  assert (HI0: Inv s0 A A own) by (apply (Inv_ent_eq s s0 A A own HI); reflexivity).
  assert (Hact: (frame_addr F =? cr3 s0) = false).
  { apply N.eqb_neq. intros E. apply HFA.
    rewrite <- (inv_cr3 _ _ _ _ HI0), <- E.
    rewrite frame_addr_small by (change (2 ^ 40) with 1099511627776 in HF40; change (2 ^ 52) with 4503599627370496; lia).
    rewrite N.shiftr_shiftl_l by lia. replace (12 - 12) with 0 by lia. symmetry. apply N.shiftl_0_r. }
  destruct (temp_map_spec s0 A own F HI0 Hg HbF HoF HnF) as
      (s1 & err & pg & own1 & Hrun & Herr & HI1 & Henv1 & Ho1F & Hn1F & Hfr1 & (n & Hn & Hown) & Hok & Hfail & Hb1 & Hb2).
  unfold pdt_init. fold s0. rewrite Hact, Hrun.
  destruct Henv1 as (E1 & E2 & E3 & E4 & E5 & Ez & Ep & Epd & Ein).
  destruct (N.eqb_spec err 0) as [E0|E0]; cbn [negb].
  2:{ exists s1, err, own1. split; [reflexivity|]. split; [exact Herr|].
      split; [rewrite Epd; unfold s0; cbn [pdts set_pdt]; rewrite N.eqb_refl; reflexivity|].
      split; [intros k Hk; rewrite Epd; unfold s0; cbn [pdts set_pdt]; destruct (N.eqb_spec k slot); [congruence|reflexivity]|].
      split; [exact E1|]. split; [exact E2|]. split; [exact E3|]. split; [exact Ez|]. split; [exact Ep|]. split; [exact E5|]. split; [exact E4|].
      split; [exists n; split; assumption|].
      split; [intros H; congruence|]. split; [|split; assumption].
      intros _. destruct (Hfail E0) as (_ & Htr & _). split; [exact HI1|]. split; [exact Htr | exact Hfr1]. }
  subst err. destruct (Hok eq_refl) as (Epg & Hrp & Hre & Htr1 & Hfl1). subst pg.
  rewrite Hrp, Hre.
  set (rec := set_frame (set_flags 0 P_RW) F).
  set (s2 := set_mem s1 (zero (mem s1) F)).
  set (s3 := wr_st s2 F 511 rec).
  assert (He3: forall f i, ent s3 f i = if f =? F then (if i =? 511 then rec else 0) else ent s1 f i).
  { intros f i. unfold s3. rewrite ent_wr. unfold s2, ent. cbn [mem set_mem]. rewrite rd_zero.
    destruct (N.eqb_spec f F); cbn [andb]; [|reflexivity]. destruct (i =? 511); reflexivity. }
  assert (Hn3: forall f, f <> F -> forall i, ent s3 f i = ent s1 f i).
  { intros f Hf i. rewrite He3. destruct (N.eqb_spec f F); [congruence|reflexivity]. }
  assert (HI3: Inv s3 A A own1).
  { apply (Inv_ent_eq s1 s3 A A own1 HI1); try reflexivity.
    intros f i [-> | [-> | (p & Hop & _)]]; apply Hn3; congruence. }
  destruct (unmap_ok s3 A A own1 temp_page HI3 temp_idx0) as (s4 & err4 & Hr4 & Herr4 & HI4 & Henv4 & Horc4 & Hinv4 & Hok4).
  rewrite Hr4.
  exists s4, 0, own1. split; [reflexivity|]. split; [left; reflexivity|].
  destruct Henv4 as (G1 & G2 & G3 & G4 & G5 & Gz & Gp & Gpd & Gin).
  split; [rewrite Gpd; change (pdts s3) with (pdts s1); rewrite Epd; unfold s0; cbn [pdts set_pdt]; rewrite N.eqb_refl; reflexivity|].
  split; [intros k Hk; rewrite Gpd; change (pdts s3) with (pdts s1); rewrite Epd; unfold s0; cbn [pdts set_pdt]; destruct (N.eqb_spec k slot); [congruence|reflexivity]|].
  split; [rewrite G1; exact E1|]. split; [rewrite G2; exact E2|]. split; [rewrite G3; exact E3|].
  split; [rewrite Gz; exact Ez|]. split; [rewrite Gp; exact Ep|]. split; [rewrite G5; exact E5|]. split; [rewrite G4; exact E4|].
  split; [exists n; rewrite Horc4; split; assumption|].
  split; [|split; [intros H; congruence | rewrite Horc4; split; [exact Hb1 | intros; reflexivity]]]. intros _.
  (* unmap did not touch F *)
  assert (He4: forall f i, own1 f = None -> ent s4 f i = ent s3 f i).
  { intros f i Hf. destruct Herr4 as [E|E].
    - destruct (Hok4 E) as (e & _ & _ & _ & _ & _ & Hfr4 & _). apply Hfr4. exact Hf.
    - destruct (Hinv4 E) as [Es _]. rewrite Es. reflexivity. }
  assert (He4F: forall i, ent s4 F i = if i =? 511 then rec else 0).
  { intros i. rewrite He4 by exact Ho1F. rewrite He3, N.eqb_refl. reflexivity. }
  assert (Hrec: rec = N.lor (N.shiftl F 12) 3).
  { unfold rec, set_frame, set_flags, andnot. rewrite frame_addr_small by (change (2 ^ 40) with 1099511627776 in HF40; change (2 ^ 52) with 4503599627370496; lia).
    rewrite N.lor_0_l, P_RW_val. change (N.ldiff 3 vmm_ptePhysPageMask) with 3. apply N.lor_comm. }
  destruct (rec_entry_ok F HF40) as [U1 U2]. rewrite <- Hrec in U1, U2.
  assert (Hbk4: forall f, backed s4 f = backed s f).
  { intros f. unfold backed. rewrite G1, G2. change (lo s3) with (lo s1). change (cnt s3) with (cnt s1). rewrite E1, E2. reflexivity. }
  pose proof (inv_wf _ _ _ _ HI4) as W4.
  destruct (inv_fresh _ _ _ _ HI4) as [F41 F42].
  split.
  { split.
    - exact W4.
    - split.
      + exact (wf_arena _ _ _ W4).
      + unfold own_root. rewrite N.eqb_refl. reflexivity.
      + intros t p. unfold own_root. destruct (N.eqb_spec t F) as [->|]; [|discriminate].
        intros E; inversion E as [Ep']. split; [rewrite Hbk4; exact HbF|]. split; [cbn; lia|]. split; [constructor | cbn; lia].
      + rewrite He4F. cbn [N.eqb]. split; assumption.
      + intros t p i. unfold own_root at 1. destruct (N.eqb_spec t F) as [->|]; [|discriminate].
        intros E Hl Hi Hne; inversion E as [Ep']. rewrite <- Ep' in *. cbn [app] in Hne.
        assert (i <> 511) by (intros Ei; rewrite Ei in Hne; apply Hne; reflexivity).
        rewrite He4F. destruct (N.eqb_spec i 511); [congruence|]. split; [reflexivity | discriminate].
    - exact (inv_cr3 _ _ _ _ HI4).
    - intros f Hf. unfold own_root. destruct (N.eqb_spec f F) as [->|]; [congruence | reflexivity].
    - split; [exact F41|]. intros f Hin Hz. destruct (F42 f Hin Hz) as (B1 & B2 & B3). split; [exact B1|]. split; [|exact B3].
      unfold own_root. destruct (N.eqb_spec f F) as [->|]; [|reflexivity].
      exfalso. apply Hn1F. rewrite Horc4 in Hin. exact Hin.
    - intros f Hin Hz. destruct (F42 f Hin Hz) as (_ & B2 & _). exact B2. }
  split.
  { apply empty_space. intros i Hi. rewrite He4F. destruct (N.eqb_spec i 511); [congruence|reflexivity]. }
  pose proof (inv_wf _ _ _ _ HI1) as W1. pose proof (inv_wf _ _ _ _ HI3) as W3.
  assert (A31: forall q, hw_idx q 0 <> 511 -> aspace s3 A q = aspace s1 A q).
  { intros q Hq. apply (aspace_ent_eq s1 s3 A own1 q W1); try reflexivity; [|exact Hq].
    intros f p i Hp. apply Hn3. congruence. }
  split.
  { intros q Hq Hnt. transitivity (translation s0 A q); [|reflexivity]. rewrite <- (Htr1 q Hq Hnt).
    unfold translation. rewrite <- (A31 q Hq).
    destruct Herr4 as [E|E].
    - destruct (Hok4 E) as (e & _ & _ & _ & Hoth & _). rewrite (Hoth q Hq Hnt). reflexivity.
    - destruct (Hinv4 E) as [Es _]. rewrite Es. reflexivity. }
  split.
  { destruct Herr4 as [E|E].
    - destruct (Hok4 E) as (e & _ & _ & Ht & _). exact Ht.
    - destruct (Hinv4 E) as [Es Hnone]. rewrite Es. unfold translation. rewrite Hnone. reflexivity. }
  intros f i Hf HfF. rewrite He4 by exact Hf. rewrite Hn3 by exact HfF. rewrite Hfr1 by exact Hf. reflexivity.
Qed.

(** * reserveZeroedFrame establishes the zero-frame invariant ("once the VMM is initialised") *)
Theorem reserve_zeroed_spec s A own F r :
  Inv s A A own -> prot s = false -> orc s = F :: r -> F <> 0 ->
  (* the allocator hands out frames nobody uses: no page maps F *)
  (forall q fl, hw_idx q 0 <> 511 -> translation s A q <> Some (F, fl)) ->
  exists s' err own1,
    reserve_zeroed s = Ok (s', err) /\ (err = 0 \/ err = E_ALLOC) /\ zf s' = F /\
    (err = 0 -> ZInv s' A own1 /\
                (forall q, hw_idx q 0 <> 511 -> ~ same_page q temp_page -> translation s' A q = translation s A q) /\
                translation s' A temp_page = None).
Proof.
  intros HI Hp Eo Hz Hunm.
  pose proof (inv_wf _ _ _ _ HI) as W.
  destruct (inv_fresh _ _ _ _ HI) as [F1 F2].
  destruct (F2 F) as (HbF & HoF & HFA); [rewrite Eo; left; reflexivity | exact Hz |].
  assert (HnF: ~ In F r).
  { rewrite Eo, ofr_cons in F1. destruct (N.eqb_spec F 0); [congruence|]. inversion F1 as [|? ? Hnin _]; subst.
    intros Hin. apply Hnin. apply in_ofr. split; assumption. }
  set (s2 := set_zf (set_orc s r) F).
  assert (HI2: Inv s2 A A own).
  { apply (Inv_ent_eq (set_orc s r) s2 A A own); try reflexivity. eapply Inv_pop; eassumption. }
  assert (Hg: (prot s2 && (F =? zf s2)) = false) by (unfold s2; cbn [prot set_zf set_orc]; rewrite Hp; reflexivity).
  destruct (temp_map_spec s2 A own F HI2 Hg HbF HoF HnF) as
      (s3 & err & pg & own1 & Hrun & Herr & HI3 & Henv3 & Ho1F & Hn1F & Hfr3 & (n & Hn & Hown) & Hok & Hfail & _ & _).
  unfold reserve_zeroed, alloc. rewrite Eo. destruct (N.eqb_spec F 0); [congruence|].
  fold s2. rewrite Hrun.
  destruct Henv3 as (E1 & E2 & E3 & E4 & E5 & Ez & Ep & Epd & Ein).
  destruct (N.eqb_spec err 0) as [E0|E0]; cbn [negb].
  2:{ exists s3, err, own1. split; [reflexivity|]. split; [exact Herr|]. split; [rewrite Ez; reflexivity|]. intros H; congruence. }
  subst err. destruct (Hok eq_refl) as (Epg & Hrp & _ & Htr3 & Hfl3). subst pg. rewrite Hrp.
  set (s4 := set_mem s3 (zero (mem s3) F)).
  assert (He4: forall f i, ent s4 f i = if f =? F then 0 else ent s3 f i).
  { intros. unfold s4, ent. cbn [mem set_mem]. apply rd_zero. }
  assert (Hn4: forall f, f <> F -> forall i, ent s4 f i = ent s3 f i).
  { intros f Hf i. rewrite He4. destruct (N.eqb_spec f F); [congruence|reflexivity]. }
  assert (HI4: Inv s4 A A own1).
  { apply (Inv_ent_eq s3 s4 A A own1 HI3); try reflexivity.
    intros f i [-> | [-> | (p & Hop & _)]]; apply Hn4; congruence. }
  destruct (unmap_ok s4 A A own1 temp_page HI4 temp_idx0) as (s5 & err5 & Hr5 & Herr5 & HI5 & Henv5 & Horc5 & Hinv5 & Hok5).
  rewrite Hr5.
  exists (set_prot s5 true), 0, own1. split; [reflexivity|]. split; [left; reflexivity|].
  destruct Henv5 as (G1 & G2 & G3 & G4 & G5 & Gz & Gp & Gpd & Gin).
  assert (Hzf: zf (set_prot s5 true) = F).
  { cbn [zf set_prot]. rewrite Gz. change (zf s4) with (zf s3). rewrite Ez. reflexivity. }
  split; [exact Hzf|]. intros _.
  assert (He5: forall f i, own1 f = None -> ent s5 f i = ent s4 f i).
  { intros f i Hf. destruct Herr5 as [E|E].
    - destruct (Hok5 E) as (e & _ & _ & _ & _ & _ & Hfr5 & _). apply Hfr5. exact Hf.
    - destruct (Hinv5 E) as [Es _]. rewrite Es. reflexivity. }
  pose proof (inv_wf _ _ _ _ HI3) as W3.
  assert (A43: forall q, hw_idx q 0 <> 511 -> aspace s4 A q = aspace s3 A q).
  { intros q Hq. apply (aspace_ent_eq s3 s4 A own1 q W3); try reflexivity; [|exact Hq].
    intros f p i Hpp. apply Hn4. congruence. }
  assert (Htr_other: forall q, hw_idx q 0 <> 511 -> ~ same_page q temp_page ->
                               translation (set_prot s5 true) A q = translation s A q).
  { intros q Hq Hnt. transitivity (translation s5 A q); [reflexivity|].
    transitivity (translation s2 A q); [|reflexivity]. rewrite <- (Htr3 q Hq Hnt).
    unfold translation. rewrite <- (A43 q Hq).
    destruct Herr5 as [E|E].
    - destruct (Hok5 E) as (e & _ & _ & _ & Hoth & _). rewrite (Hoth q Hq Hnt). reflexivity.
    - destruct (Hinv5 E) as [Es _]. rewrite Es. reflexivity. }
  assert (Htr_temp: translation (set_prot s5 true) A temp_page = None).
  { transitivity (translation s5 A temp_page); [reflexivity|].
    destruct Herr5 as [E|E].
    - destruct (Hok5 E) as (e & _ & _ & Ht & _). exact Ht.
    - destruct (Hinv5 E) as [Es Hnone]. rewrite Es. unfold translation. rewrite Hnone. reflexivity. }
  split; [|split; assumption].
  split.
  - apply (Inv_ent_eq s5 (set_prot s5 true) A A own1 HI5); reflexivity.
  - reflexivity.
  - rewrite Hzf. exact Ho1F.
  - rewrite Hzf. cbn [orc set_prot]. rewrite Horc5. exact Hn1F.
  - rewrite Hzf. unfold backed. cbn [lo cnt set_prot]. rewrite G1, G2. change (lo s4) with (lo s3). change (cnt s4) with (cnt s3).
    rewrite E1, E2. exact HbF.
  - intros i. rewrite Hzf. transitivity (ent s5 F i); [reflexivity|]. rewrite He5 by exact Ho1F. rewrite He4, N.eqb_refl. reflexivity.
  - intros q fl Hq Htr. rewrite Hzf in Htr. exfalso.
    destruct (list_eq_dec N.eq_dec (ixs q) (ixs temp_page)) as [Et|Hdt].
    + unfold translation, aspace in *. rewrite Et in Htr. rewrite Htr_temp in Htr. discriminate.
    + rewrite (Htr_other q Hq Hdt) in Htr. exact (Hunm q fl Hq Htr).
Qed.
