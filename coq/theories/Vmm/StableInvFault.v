(** [fault_stable] (Vmm/FaultTrans.v) holds on the domain of C06_cow_ok: see Vmm/StableInv.v.  The proof follows
    Vmm/PtCow.v [cow_ok] step by step (allocation, temporary mapping, copy, unmapping) to show that the leaf table of the
    faulting page is still reached by the same path afterwards. *)
From Coq Require Import NArith ZArith Lia List Bool.
From Coq Require Import ZifyBool ZifyN ZifyNat.
From FF Require Import Lib.Word Lib.GoOps Gen.Consts_mm_vmm Vmm.Region Vmm.Pt Vmm.PtMem Vmm.PtArith Vmm.PtTree Vmm.PtMap Vmm.PtOps
     Vmm.PtTheorems Vmm.PtFault Vmm.PtCow Vmm.PtAccess Vmm.StableInv.
From FF Require Vmm.FaultTrans Vmm.PdtTrans Vmm.MapTrans Gen.Trans_vmm_fault.
Module F := FF.Vmm.FaultTrans.
Import ListNotations.
Local Open Scope N_scope.
Ltac Zify.zify_post_hook ::= Z.div_mod_to_equations.

(** the address walk computes for the leaf entry of a page *)
Lemma leaf_item page p :
  In (last_level, p) (walk_items (frame_addr page)) ->
  p = add64 (wwin (firstn 3 (ixs page))) (shl64 (hw_idx page 3) 3).
Proof.
  unfold walk_items. rewrite go_levels_val, last_level_val. cbn [walk_items_from].
  set (va := frame_addr page).
  destruct (entry_index_hw va) as (E0 & E1 & E2 & E3).
  assert (Hva : forall k, k <= 3 -> hw_idx (N.shiftr va 12) k = hw_idx page k) by (apply frame_addr_idx).
  rewrite Hva in E0, E1, E2, E3 by lia.
  intros [E|[E|[E|[E|[]]]]]; try discriminate E. injection E as <-.
  assert (A0 : entry_addr vmm_pdtVirtualAddr va 39 9 = add64 (wwin []) (shl64 (hw_idx page 0) 3))
    by (unfold entry_addr; rewrite pointer_shift_val, E0; reflexivity).
  rewrite A0, (wwin_next [] (hw_idx page 0)) by (try constructor; try apply hw_idx_lt; cbn; lia).
  assert (A1 : entry_addr (wwin ([] ++ [hw_idx page 0])) va 30 9 = add64 (wwin [hw_idx page 0]) (shl64 (hw_idx page 1) 3))
    by (unfold entry_addr; rewrite pointer_shift_val, E1; reflexivity).
  rewrite A1, (wwin_next [hw_idx page 0] (hw_idx page 1)) by (repeat constructor; try apply hw_idx_lt; cbn; lia).
  assert (A2 : entry_addr (wwin ([hw_idx page 0] ++ [hw_idx page 1])) va 21 9 = add64 (wwin [hw_idx page 0; hw_idx page 1]) (shl64 (hw_idx page 2) 3))
    by (unfold entry_addr; rewrite pointer_shift_val, E2; reflexivity).
  rewrite A2, (wwin_next [hw_idx page 0; hw_idx page 1] (hw_idx page 2)) by (repeat constructor; try apply hw_idx_lt; cbn; lia).
  unfold entry_addr. rewrite pointer_shift_val, E3. reflexivity.
Qed.

Theorem fault_stable_inv s A own addr :
  Inv s A A own ->
  let page := page_from_addr addr in
  hw_idx page 0 <> 511 -> ~ same_page page temp_page ->
  (forall e, cow_pre s A page = Some e ->
     backed s (hw_frame e) = true /\ own (hw_frame e) = None /\ ~ In (hw_frame e) (orc s)) ->
  F.fault_stable addr s.
Proof.
  intros HI page H511 Hnt Hdata.
  intros p f i s1 cp s2 pg src dst s4' e4 Hin Hrp Hfw Hcw Hal Hmt Hs Hd Hu.
  fold page in Hin, Hfw, Hs.
  pose proof (inv_wf _ _ _ _ HI) as W.
  (* the walk's result is the leaf entry of the page *)
  rewrite (fault_walk_spec A A page (frame_addr page) (frame_addr_idx page) s own HI H511) in Hfw.
  rewrite (dloc_aspace s A own page HI H511) in Hfw.
  destruct (aspace s A page) as [e|] eqn:Ea; [|discriminate].
  destruct (hw_P e) eqn:HP; [|discriminate].
  set (i3 := hw_idx page 3) in *. set (p3 := firstn 3 (ixs page)) in *.
  destruct (follow s A p3) as [l|] eqn:Hfl; [|discriminate].
  injection Hfw as <- <-.
  destruct (aspace_of_follow s A own page l W Hfl H511) as [Eas Hol0].
  assert (Hel : ent s l i3 = e) by (rewrite Eas in Ea; fold i3 in Ea; congruence).
  assert (Hpre : cow_pre s A page = Some e).
  { unfold cow_pre. rewrite Ea, HP. unfold ent in Hel. rewrite Hel in Hcw. cbn [andb]. rewrite Hcw. reflexivity. }
  destruct (Hdata e Hpre) as (Hbsrc & Hosrc & Hnsrc).
  destruct (mmu_aspace s A A own page e HI eq_refl H511 Ea HP Hbsrc) as (_ & l' & Hfl' & _ & Hol).
  fold p3 in Hfl'. rewrite Hfl in Hfl'. injection Hfl' as <-.
  rewrite (leaf_item page p Hin). fold p3 i3.
  (* the allocation *)
  unfold alloc in Hal. destruct (orc s) as [|x r] eqn:Eo; [discriminate|].
  destruct (N.eqb_spec x 0) as [|Hx0]; cbn iota in Hal; [inversion Hal|]. injection Hal as Es1 Ecp. subst x.
  assert (HI1: Inv s1 A A own) by (rewrite <- Es1; eapply Inv_pop; eassumption).
  assert (He1: forall f i, ent s1 f i = ent s f i) by (intros; rewrite <- Es1; reflexivity).
  destruct (inv_fresh _ _ _ _ HI) as [F1 F2].
  destruct (F2 cp) as (Hbcp & Hocp & HcpA); [rewrite Eo; left; reflexivity | exact Hx0 |].
  assert (Hcp40: cp < 2 ^ 40) by (eapply backed_lt40; [exact (wf_arena _ _ _ W) | exact Hbcp]).
  assert (Hcpr: ~ In cp r).
  { rewrite Eo, ofr_cons in F1. destruct (N.eqb_spec cp 0); [congruence|]. inversion F1 as [|? ? Hnin _]; subst.
    intros Hin'. apply Hnin. apply in_ofr. split; assumption. }
  assert (Horc1: orc s1 = r) by (rewrite <- Es1; reflexivity).
  (* the temporary mapping *)
  unfold map_temporary in Hmt.
  destruct (prot s1 && (cp =? zf s1)) eqn:Hg; [discriminate|].
  destruct (map_page temp_page cp P_RW s1) as [[s2' err]|] eqn:Hmp; [|discriminate].
  destruct (N.eqb_spec err 0) as [->|Hne]; [|exfalso; injection Hmt; intros; congruence]. injection Hmt as E2 Epg. subst s2' pg.
  assert (Hzg: zero_guard s1 cp P_RW = false) by (unfold zero_guard; rewrite Hg; reflexivity).
  destruct (map_ok s1 A A own temp_page cp P_RW HI1 temp_idx0 Hzg) as
      (s2' & err' & own2 & Hr & HI2 & Henv2 & _ & Hok & _ & Hfr2 & _ & (n2 & Hn2 & Hown2) & Qoff & Qpres & _).
  rewrite Hmp in Hr. injection Hr as E2 Ee'. subst s2' err'.
  destruct (Hok eq_refl) as (Hat2 & Htr2 & Hfl2).
  pose proof (inv_wf _ _ _ _ HI2) as W2.
  assert (Hbk2: forall f, backed s2 f = backed s f).
  { intros f0. rewrite (same_env_backed s1 s2 f0 Henv2). rewrite <- Es1. reflexivity. }
  assert (Hown2_none: forall f, own f = None -> ~ In f r -> own2 f = None).
  { intros f0 Hf0 Hnin. destruct (Hown2 f0) as [E | (_ & Hin' & _)]; [rewrite E; exact Hf0|].
    exfalso. apply Hnin. rewrite Horc1 in Hin'. eapply in_firstn; exact Hin'. }
  assert (Ho2cp: own2 cp = None) by (apply Hown2_none; assumption).
  assert (Hext2: forall f p, own f = Some p -> own2 f = Some p).
  { intros f0 p0 Hp. destruct (Hown2 f0) as [E | (E & _)]; [rewrite E; exact Hp | rewrite Hp in E; discriminate]. }
  assert (Hlt3: Forall (fun x => x < 512) p3) by (apply firstn3_lt).
  assert (Hhd3: hd 0 ([] ++ p3) <> 511) by exact H511.
  assert (Hfl2': follow s2 A p3 = Some l).
  { destruct Henv2 as (E1 & E2 & _).
    apply (follow_mono s1 s2 A own A [] p3 l (inv_wf _ _ _ _ HI1) (wf_root _ _ _ W) E1 E2); try assumption.
    - cbn. lia.
    - rewrite <- Es1. exact Hfl. }
  assert (Hel2: ent s2 l i3 = e).
  { rewrite (Qoff l p3 i3 Hol), He1; [exact Hel|].
    unfold p3, i3. rewrite <- ixs_split. intros E. apply Hnt. exact E. }
  assert (Ea2: aspace s2 A page = Some e).
  { destruct (aspace_of_follow s2 A own2 page l W2 Hfl2' H511) as [E _]. rewrite E. fold i3. rewrite Hel2. reflexivity. }
  assert (Hsrc: resolve_page s2 (frame_addr page) = Some (hw_frame e)).
  { rewrite resolve_page_mmu.
    destruct (mmu_aspace s2 A A own2 page e HI2 eq_refl H511 Ea2 HP) as [M0 _]; [rewrite Hbk2; exact Hbsrc | exact M0]. }
  set (tleaf := set_flags (set_frame 0 cp) P_RW) in *.
  destruct (link_entry cp Hcp40) as (LP & LPS & LF). fold tleaf in LP, LPS, LF.
  assert (Hdst: resolve_page s2 (frame_addr temp_page) = Some cp).
  { rewrite resolve_page_mmu.
    destruct (mmu_aspace s2 A A own2 temp_page tleaf HI2 eq_refl temp_idx0 Hat2 LP) as [M0 _]; [rewrite LF, Hbk2; exact Hbcp|].
    rewrite LF in M0. exact M0. }
  rewrite Hsrc in Hs. injection Hs as <-. rewrite Hdst in Hd. injection Hd as <-.
  set (s3 := set_mem s2 (cpy (mem s2) (hw_frame e) cp)) in *.
  assert (He3: forall f i, ent s3 f i = if f =? cp then ent s2 (hw_frame e) i else ent s2 f i).
  { intros. unfold s3, ent. cbn [mem set_mem]. apply rd_cpy. }
  assert (Hn3: forall f, f <> cp -> forall i, ent s3 f i = ent s2 f i).
  { intros f0 Hf0 i0. rewrite He3. destruct (N.eqb_spec f0 cp); [congruence|reflexivity]. }
  assert (HI3: Inv s3 A A own2).
  { apply (Inv_ent_eq s2 s3 A A own2 HI2); try reflexivity.
    intros f0 i0 [-> | [-> | (p0 & Hop & _)]]; apply Hn3; congruence. }
  pose proof (inv_wf _ _ _ _ HI3) as W3.
  destruct (unmap_ok s3 A A own2 temp_page HI3 temp_idx0) as (s4 & err4 & Hr4 & Herr4 & HI4 & Henv4 & Horc4 & Hinv4 & Hok4).
  rewrite Hu in Hr4. injection Hr4 as <- <-.
  assert (Hfl3': follow s3 A p3 = Some l).
  { apply (follow_mono s2 s3 A own2 A [] p3 l W2 (wf_root _ _ _ W2) eq_refl eq_refl); try assumption.
    - intros f0 q i0 Hq _ _. apply Hn3. intros E. rewrite E, Ho2cp in Hq. discriminate.
    - cbn. lia. }
  assert (Hfl4': follow s4' A p3 = Some l).
  { destruct Herr4 as [E0|E0].
    - destruct (Hok4 E0) as (et & _ & _ & _ & _ & _ & _ & Uoff).
      destruct Henv4 as (E1 & E2 & _).
      apply (follow_mono s3 s4' A own2 A [] p3 l W3 (wf_root _ _ _ W3) E1 E2); try assumption.
      + intros f0 q i0 Hq Hlq _. apply (Uoff f0 q i0 Hq). intros E. apply (f_equal (@length N)) in E.
        rewrite app_length, ixs_length in E. cbn [length] in E. lia.
      + cbn. lia.
    - destruct (Hinv4 E0) as [-> _]. exact Hfl3'. }
  assert (Hol4 : own2 l = Some p3) by (apply Hext2; exact Hol).
  assert (Hb4 : backed s4' l = true) by (destruct (wf_owned _ _ _ (inv_wf _ _ _ _ HI4) l p3 Hol4) as (Hb & _); exact Hb).
  assert (Hl3 : (length p3 <= 3)%nat) by (unfold p3; rewrite firstn_length, ixs_length; lia).
  assert (Hhd4 : hd 0 (p3 ++ [i3]) <> 511) by (unfold p3, i3; rewrite <- ixs_split; exact H511).
  split.
  - eapply (resolve_entry s4' A A p3 l i3); try eassumption.
    + exact (inv_cr3 _ _ _ _ HI4).
    + exact (inv_rec _ _ _ _ HI4).
    + apply hw_idx_lt.
  - eapply (entry_stable_inv s4' A A own2 p3 l i3); try eassumption. apply hw_idx_lt.
Qed.

(** the tie on the whole domain *)
Theorem fault_handler_is_translation_inv s A own addr regs tr0 :
  Inv s A A own -> addr < two64 -> PdtTrans.mem_w64 s ->
  let page := page_from_addr addr in
  hw_idx page 0 <> 511 -> ~ same_page page temp_page ->
  (forall e, cow_pre s A page = Some e ->
     backed s (hw_frame e) = true /\ own (hw_frame e) = None /\ ~ In (hw_frame e) (orc s)) ->
  F.fres (Trans_vmm_fault.go_vmm_pageFaultHandler (Trans_vmm_fault.mk_go_vmm_world tr0 s) regs
            PdtTrans.o_flush F.o_memcopy PdtTrans.o_maptemp MapTrans.o_alloc F.o_nonrec (F.o_cr2 addr) PdtTrans.o_unmap)
  = F.fault_res addr regs (page_fault addr s).
Proof.
  intros HI Ha Hw page H511 Hnt Hdata.
  apply F.fault_handler_is_translation; try assumption.
  eapply fault_stable_inv; eassumption.
Qed.
