(** The kernel.Memset seam of the page-table ties is the translated Memset.

    The theorems of Vmm/PdtTrans.v, MapTrans.v, ZeroTrans.v treat kernel.Memset(addr, 0, mm.PageSize) as a seam whose
    effect is given by the oracle [PdtTrans.o_memset]: "the frame the page at [addr] resolves to becomes all zero, nothing
    else changes".  Here that oracle is connected to the code: on ANY byte memory in which the page is the window
    [base, base + 4096), the regenerated Memset (Gen/Trans_kernel_mem.v, tied to kernel/mem_util.go by
    Kernel/MemUtilTrans.v and proved correct in Kernel/MemUtilProofs.v) leaves exactly the bytes of the frame the oracle
    produces in that window - 512 little-endian zero words - and every byte outside the window as it was.  What remains
    assumed is only the view itself: that the bytes the CPU addresses at [addr .. addr+4095] are the bytes of the frame the
    MMU model resolves [addr] to. *)
From Coq Require Import NArith ZArith List Bool Lia.
From FF Require Import Lib.Word Lib.GoOps Gen.Consts_mm_vmm Gen.Trans_kernel_mem Kernel.MemUtil Kernel.MemUtilProofs Kernel.MemUtilTrans.
From FF Require Import Vmm.Pt Vmm.PtMem.
From FF Require Vmm.PdtTrans.
Module P := FF.Vmm.PdtTrans.
Import ListNotations.
Local Open Scope N_scope.

(** the 8 bytes of a 64-bit word, least significant first (x86-64) *)
Definition bytes_of_word (w : N) : list N :=
  map (fun k => (w / 2 ^ (8 * k)) mod 256) [0; 1; 2; 3; 4; 5; 6; 7].

(** the 4096 bytes of frame [f] *)
Definition frame_bytes (m : pmem) (f : N) : list N :=
  flat_map (fun i => bytes_of_word (rd m f (N.of_nat i))) (seq 0 512).

Lemma zero_frame_bytes_gen m pf l :
  flat_map (fun i => bytes_of_word (rd (zero m pf) pf (N.of_nat i))) l = repeat 0 (8 * length l).
Proof.
  induction l as [|i l IH]; [reflexivity|].
  cbn [flat_map length]. rewrite IH, rd_zero, N.eqb_refl.
  replace (8 * S (length l))%nat with (8 + 8 * length l)%nat by lia. reflexivity.
Qed.

Lemma zero_frame_bytes m pf : frame_bytes (zero m pf) pf = repeat 0 4096.
Proof. unfold frame_bytes. rewrite zero_frame_bytes_gen, seq_length. reflexivity. Qed.

Lemma skipn_app_len {A} n (l1 l2 : list A) : length l1 = n -> skipn n (l1 ++ l2) = l2.
Proof. intros <-. induction l1 as [|x l1 IH]; [reflexivity | exact IH]. Qed.

Lemma firstn_app_len {A} n (l1 l2 : list A) : length l1 = n -> firstn n (l1 ++ l2) = l1.
Proof. intros <-. induction l1 as [|x l1 IH]; [reflexivity | cbn; f_equal; exact IH]. Qed.

Theorem memset_seam_is_memset s a pf tr0 bm base trb :
  resolve_page s a = Some pf -> (base + 4096 <= length bm)%nat ->
  exists s' bm',
    P.o_memset (P.ev_memset a :: tr0) s = Some (s', tt) /\
    go_kernel_Memset 64 (mk_go_kernel_world trb bm) (N.of_nat base) 0 mm_PageSize = GOk (mk_go_kernel_world trb bm', tt) /\
    firstn 4096 (skipn base bm') = frame_bytes (mem s') pf /\
    firstn base bm' = firstn base bm /\ skipn (base + 4096) bm' = skipn (base + 4096) bm /\ length bm' = length bm /\
    (forall f i, f <> pf -> rd (mem s') f i = rd (mem s) f i).
Proof.
  intros Hr Hlen.
  exists (set_mem s (zero (mem s) pf)), (firstn base bm ++ repeat 0 4096 ++ skipn (base + 4096) bm).
  assert (Hfl : length (firstn base bm) = base) by (rewrite firstn_length; lia).
  split.
  { unfold P.o_memset, P.ev_memset. change ((0 =? 0) && (mm_PageSize =? mm_PageSize)) with true. cbv iota.
    rewrite Hr. reflexivity. }
  split.
  { assert (E : N.to_nat mm_PageSize = 4096%nat) by (vm_compute; reflexivity).
    rewrite memset_is_translation_64.
    rewrite (memset_spec bm base 0 mm_PageSize); [| discriminate | reflexivity | rewrite E; exact Hlen].
    rewrite E. reflexivity. }
  split.
  { cbn [mem set_mem]. rewrite zero_frame_bytes.
    rewrite (skipn_app_len base _ _ Hfl). apply (firstn_app_len 4096). apply repeat_length. }
  split.
  { apply (firstn_app_len base). exact Hfl. }
  split.
  { rewrite app_assoc. apply (skipn_app_len (base + 4096)). rewrite app_length, repeat_length, Hfl. reflexivity. }
  split.
  { rewrite !app_length, repeat_length, skipn_length, Hfl. lia. }
  intros f i Hf. cbn [mem set_mem]. rewrite rd_zero. destruct (N.eqb_spec f pf); [contradiction | reflexivity].
Qed.
