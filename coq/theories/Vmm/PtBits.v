(** Bits the translation ignores.  The invariant [Inv] and every address space are insensitive to the
    Accessed / Dirty / Global / available / NX / User / cache bits of present upper-level entries and of
    the recursive entries: states in which the CPU or an OS has set such bits are inside the quantifier of
    all C04-C06 theorems (the harness's set-up op [OOrUpper] produces them). *)
From Coq Require Import NArith ZArith Lia List Bool.
From Coq Require Import ZifyBool ZifyN ZifyNat.
From FF Require Import Lib.Word Gen.Consts_mm_vmm Vmm.Region Vmm.Pt Vmm.PtMem Vmm.PtArith Vmm.PtTree Vmm.PtMap Vmm.PtOps Vmm.PtTheorems.
Import ListNotations.
Local Open Scope N_scope.

Lemma safe_disjoint : N.land safe_bits (N.lor vmm_ptePhysPageMask 0x81) = 0.
Proof. reflexivity. Qed.

Lemma safe_mask_bits x n :
  N.testbit (N.lor vmm_ptePhysPageMask 0x81) n = true -> N.testbit (N.land x safe_bits) n = false.
Proof.
  intros H. pose proof safe_disjoint as D. apply (f_equal (fun v => N.testbit v n)) in D.
  rewrite N.land_spec, H, andb_true_r, N.bits_0 in D. rewrite N.land_spec, D. apply andb_false_r.
Qed.

Lemma or_safe_bits e x :
  hw_P (N.lor e (N.land x safe_bits)) = hw_P e /\ hw_PS (N.lor e (N.land x safe_bits)) = hw_PS e /\
  hw_frame (N.lor e (N.land x safe_bits)) = hw_frame e.
Proof.
  set (m := N.land x safe_bits).
  assert (Hb: forall n, N.testbit (N.lor vmm_ptePhysPageMask 0x81) n = true -> N.testbit (N.lor e m) n = N.testbit e n).
  { intros n Hn. rewrite N.lor_spec. unfold m. rewrite (safe_mask_bits x n Hn). apply orb_false_r. }
  split; [apply Hb; reflexivity|]. split; [apply Hb; reflexivity|].
  unfold hw_frame. change 0xFFFFFFFFFF with (N.ones 40).
  apply N.bits_inj. intros n. rewrite !N.land_spec, !N.shiftr_spec'.
  destruct (N.ltb_spec n 40) as [Hn|Hn].
  - rewrite Hb; [reflexivity|]. rewrite N.lor_spec, mask_bit.
    replace (12 <=? n + 12) with true by (symmetry; apply N.leb_le; lia).
    replace (n + 12 <? 52) with true by (symmetry; apply N.ltb_lt; lia). reflexivity.
  - rewrite N.ones_spec_high by exact Hn. rewrite !andb_false_r. reflexivity.
Qed.

(** two states whose entries agree on what the walk looks at *)
Definition walk_eq (s s' : st) : Prop :=
  lo s' = lo s /\ cnt s' = cnt s /\
  forall f i, hw_P (ent s' f i) = hw_P (ent s f i) /\ hw_PS (ent s' f i) = hw_PS (ent s f i) /\
              hw_frame (ent s' f i) = hw_frame (ent s f i).

Lemma follow_walk_eq s s' t is : walk_eq s s' -> follow s' t is = follow s t is.
Proof.
  intros (Hlo & Hcnt & He). revert t. induction is as [|i r IH]; intros t; [reflexivity|]. cbn [follow].
  destruct (He t i) as (E1 & E2 & E3). unfold usable, backed. rewrite Hlo, Hcnt, E1, E2, E3.
  destruct ((lo s <=? t) && (t <? lo s + cnt s) && (hw_P (ent s t i) && negb (hw_PS (ent s t i)))); [apply IH | reflexivity].
Qed.

(** or-ing ignored bits into a present entry of an upper-level table (or of a root) *)
Theorem or_upper_neutral s A T own t p i x :
  Inv s A T own -> (own t = Some p /\ (length p < 3)%nat) \/ t = A ->
  let s' := wr_st s t i (N.lor (ent s t i) (N.land x safe_bits)) in
  Inv s' A T own /\ (forall q, hw_idx q 0 <> 511 -> aspace s' T q = aspace s T q).
Proof.
  intros HI Ht s'.
  pose proof (inv_wf _ _ _ _ HI) as W.
  assert (He: forall f j, ent s' f j = if (f =? t) && (j =? i) then N.lor (ent s t i) (N.land x safe_bits) else ent s f j).
  { intros. unfold s'. apply ent_wr. }
  assert (HW: walk_eq s s').
  { split; [reflexivity|]. split; [reflexivity|]. intros f j. rewrite He.
    destruct (N.eqb_spec f t) as [->|]; destruct (N.eqb_spec j i) as [->|]; cbn [andb]; try (repeat split; reflexivity).
    apply or_safe_bits. }
  destruct HW as (Hlo & Hcnt & Hb).
  assert (Hbk: forall f, backed s' f = backed s f) by reflexivity.
  assert (Hus: forall f j, usable (ent s' f j) = usable (ent s f j)).
  { intros f j. destruct (Hb f j) as (E1 & E2 & _). unfold usable. rewrite E1, E2. reflexivity. }
  split.
  - destruct HI as [[W1 W2 W3 W4 W5] Hcr HR HA HF]. split.
    + split; try assumption.
      * destruct (Hb T 511) as (_ & _ & E3). rewrite Hus, E3. exact W4.
      * intros f q j Ho Hl Hj Hne. destruct (Hb f j) as (E1 & E2 & E3). rewrite E1, E2, E3. exact (W5 f q j Ho Hl Hj Hne).
    + exact Hcr.
    + destruct HR as (R1 & R2 & R3 & R4 & R5 & R6). unfold Rec. rewrite !Hbk, !Hus.
      destruct (Hb A 511) as (_ & _ & EA). destruct (Hb T 511) as (_ & _ & ET). rewrite EA, ET. repeat split; assumption.
    + exact HA.
    + destruct HF as [F1 F2]. split; [exact F1 | exact F2].
  - intros q Hq. unfold aspace. rewrite (ixs_split q), !look_follow.
    rewrite (follow_walk_eq s s' T _ (conj Hlo (conj Hcnt Hb))).
    destruct (follow s T (firstn 3 (ixs q))) as [l|] eqn:Ef; [|reflexivity].
    rewrite Hbk. destruct (backed s l); [|reflexivity].
    assert (Ho: own l = Some (firstn 3 (ixs q))).
    { change (firstn 3 (ixs q)) with ([] ++ firstn 3 (ixs q)). eapply follow_own; try eassumption.
      - exact (wf_root _ _ _ W).
      - apply firstn3_lt.
      - cbn. lia. }
    rewrite He. destruct (N.eqb_spec l t) as [E|]; [|reflexivity]. exfalso.
    destruct Ht as [(Hp & Hl)|Hta].
    + rewrite E, Hp in Ho. inversion Ho as [E2]. rewrite E2 in Hl. cbn in Hl. lia.
    + destruct (inv_A _ _ _ _ HI) as [HA|HA].
      * rewrite E, Hta, HA, (wf_root _ _ _ W) in Ho. discriminate.
      * rewrite E, Hta, HA in Ho. discriminate.
Qed.
