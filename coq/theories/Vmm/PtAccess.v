(** What a dereference of a raw pointer means in the page-table model (Vmm/Pt.v), as used by the code that
    gen/gotrans regenerates in "memory as state" mode (Gen/Trans_vmm_*.v): the translated functions thread the
    model's machine state [st] and call these operations for [*p] (load) and [*p = e] (store).

    - class "virt" ([vload] / [vstore]): the address is a VIRTUAL address, resolved by the model of the x86-64
      4-level MMU from [cr3] in the state at the time of the access ([resolve]): 8-byte aligned, every level
      present; the word read / written is word [i] of the frame the walk ends in.
    - class "phys" ([pload] / [pstore]): the address is a PHYSICAL address that the kernel dereferences through its
      identity mapping ([phys]): 8-byte aligned, the frame backed.
    [None] = the access cannot be resolved (the model's [Stray]).  Definitions only. *)
From Coq Require Import NArith.
From FF Require Import Vmm.Pt.
Local Open Scope N_scope.

Definition vload (s : st) (a : N) : option N :=
  match resolve s a with Some (f, i) => Some (rd (mem s) f i) | None => None end.
Definition vstore (s : st) (a x : N) : option st :=
  match resolve s a with Some (f, i) => Some (wr_st s f i x) | None => None end.

Definition pload (s : st) (a : N) : option N :=
  match phys s a with Some (f, i) => Some (rd (mem s) f i) | None => None end.
Definition pstore (s : st) (a x : N) : option st :=
  match phys s a with Some (f, i) => Some (wr_st s f i x) | None => None end.

(** The sequence of (level, virtual address of the level's entry) that [walk] (kernel/mm/vmm/pdt.go) presents to its
    closure for the virtual address [va]: the address arithmetic of the model's walks ([map_walk], [unmap_walk], ...),
    which depends on [va] only.  That the translation of [walk] calls its closure on exactly these items, in order, until
    the closure returns false is Vmm/MapTrans.v [walk_is_translation]. *)
From Coq Require Import List.
Import ListNotations.
Fixpoint walk_items_from (lv : list (N * N)) (level tableAddr va : N) : list (N * N) :=
  match lv with
  | [] => []
  | (sh, bits) :: rest =>
      let ea := entry_addr tableAddr va sh bits in
      (level, ea) :: walk_items_from rest (level + 1) (Lib.Word.shl64 ea bits) va
  end.
Definition walk_items (va : N) : list (N * N) := walk_items_from go_levels 0 Gen.Consts_mm_vmm.vmm_pdtVirtualAddr va.

(** an error value passed to a seam (config mem.errarg): nil is the empty byte string, an error its tag *)
From Coq Require Import String Ascii.
From FF Require Import Lib.GoOps.
Definition err_arg (e : option string) : garg :=
  match e with
  | None => GBytes []
  | Some t => GBytes (map (fun c => N.of_nat (nat_of_ascii c)) (list_ascii_of_string t))
  end.
