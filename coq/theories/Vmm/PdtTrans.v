(** The hand-written models of PageDirectoryTable.{Init,Map,Unmap,Activate} (Vmm/Pt.v: [pdt_init], [pdt_map],
    [pdt_unmap], [pdt_activate]) against the Gallina translation that gen/gotrans ("memory as state" mode,
    gen/gotrans/ext_mem.go, config vmm_pdt.json) regenerates from kernel/mm/vmm/pdt.go on every run
    (Gen/Trans_vmm_pdt.v).

    The translation threads a record [world] = (trace of the calls through the function-variable seams, the model's
    machine state [st] as the MEMORY).  A raw pointer is an address; [*p], [*p = e], [p.SetFrame(f)], [p.SetFlags(f)]
    are loads and stores by Vmm/PtAccess.v (Init: virtual accesses resolved by the MMU model from cr3 at the time of
    each access; Map / Unmap: physical accesses through the identity window).  A call through a seam is recorded on the
    trace and its effect on the state and its results come from a stateful oracle; the oracles below are the model's
    environment: activePDTFn reads cr3, flushTLBEntryFn / switchPDTFn log, mapFn / unmapFn / mapTemporaryFn are the
    model's [map_page] / [unmap_page] / [map_temporary], kernel.Memset of one page is the model's page-zeroing step
    (kernel.Memset itself: Props/C06_mem.v).  A stray access of the model ([Stray]) is [GPanic] of the translation. *)
From Coq Require Import NArith ZArith String List Bool Lia.
From Coq Require Import ZifyBool ZifyN ZifyNat.
From FF Require Import Lib.Word Lib.GoOps Lib.GoOpsProofs Gen.Consts_mm_vmm Gen.Trans_vmm_pdt.
From FF Require Import Vmm.Pt Vmm.PtMem Vmm.PtAccess.
Import ListNotations.
Local Open Scope N_scope.
Ltac Zify.zify_post_hook ::= Z.div_mod_to_equations.

Notation W := mk_go_vmm_world (only parsing).

(** error values: the model's codes <-> the translation's tags (nil = None) *)
Definition err_name (e : N) : string :=
  if e =? E_INVALID then "ErrInvalidMapping"
  else if e =? E_HUGE then "errNoHugePageSupport"
  else if e =? E_ZERO_RW then "errAttemptToRWMapReservedFrame"
  else if e =? E_ALLOC then "errAllocFrame"
  else if e =? E_NOSPACE then "errEarlyReserveNoSpace"
  else if e =? E_FAULT then "errUnrecoverableFault"
  else "errOther".
Definition err_of (e : N) : option string := if e =? 0 then None else Some (err_name e).

(** ---- the oracles of the model's environment ---- *)
Definition lift_op (r : R (st * N)) : option (st * option string) :=
  match r with Stray => None | Ok (s', e) => Some (s', err_of e) end.

Definition o_active (_ : list gcall) (s : st) : option (st * N) := Some (s, cr3 s).
Definition o_flush (tr : list gcall) (s : st) : option (st * unit) :=
  match tr with GCall _ [GNum a] :: _ => Some (flush s a, tt) | _ => None end.
Definition o_switch (tr : list gcall) (s : st) : option (st * unit) :=
  match tr with GCall _ [GNum a] :: _ => Some (set_slog (set_cr3 s a) (a :: slog s), tt) | _ => None end.
Definition o_map (tr : list gcall) (s : st) : option (st * option string) :=
  match tr with GCall _ [GNum p; GNum f; GNum fl] :: _ => lift_op (map_page p f fl s) | _ => None end.
Definition o_unmap (tr : list gcall) (s : st) : option (st * option string) :=
  match tr with GCall _ [GNum p] :: _ => lift_op (unmap_page p s) | _ => None end.
Definition o_maptemp (tr : list gcall) (s : st) : option (st * (N * option string)) :=
  match tr with
  | GCall _ [GNum f] :: _ =>
      match map_temporary f s with Stray => None | Ok (s', e, p) => Some (s', (p, err_of e)) end
  | _ => None
  end.
(** kernel.Memset(addr, 0, mm.PageSize) of a mapped page: the model's page-zeroing step; anything else is outside the model *)
Definition o_memset (tr : list gcall) (s : st) : option (st * unit) :=
  match tr with
  | GCall _ [GNum a; GNum x; GNum n] :: _ =>
      if (x =? 0) && (n =? mm_PageSize) then
        match resolve_page s a with Some pf => Some (set_mem s (zero (mem s) pf), tt) | None => None end
      else None
  | _ => None
  end.

Definition ev_active : gcall := GCall "activePDTFn" [].
Definition ev_flush (a : N) : gcall := GCall "flushTLBEntryFn" [GNum a].
Definition ev_switch (a : N) : gcall := GCall "switchPDTFn" [GNum a].
Definition ev_map (p f fl : N) : gcall := GCall "mapFn" [GNum p; GNum f; GNum fl].
Definition ev_unmap (p : N) : gcall := GCall "unmapFn" [GNum p].
Definition ev_maptemp (f : N) : gcall := GCall "mapTemporaryFn" [GNum f].
Definition ev_memset (a : N) : gcall := GCall "kernel.Memset" [GNum a; GNum 0; GNum mm_PageSize].

(** every word of the memory is a 64-bit word *)
Definition mem_w64 (s : st) : Prop := forall f i, rd (mem s) f i < two64.

(** ---- what the mapping operations keep: the arena and the width of the words ---- *)
Definition keeps (s s' : st) : Prop := lo s' = lo s /\ cnt s' = cnt s /\ (mem_w64 s -> mem_w64 s').

Lemma keeps_refl s : keeps s s.
Proof. repeat split; auto. Qed.

Lemma keeps_trans s1 s2 s3 : keeps s1 s2 -> keeps s2 s3 -> keeps s1 s3.
Proof. intros (A1 & A2 & A3) (B1 & B2 & B3). repeat split; try congruence. auto. Qed.

Lemma keeps_wr s f i x : x < two64 -> keeps s (wr_st s f i x).
Proof.
  intros Hx. repeat split. intros H f' i'. unfold wr_st, set_mem. cbn [mem]. rewrite rd_wr.
  destruct ((f' =? f) && (i' =? i)); [exact Hx | apply H].
Qed.

Lemma keeps_zero s f : keeps s (set_mem s (zero (mem s) f)).
Proof.
  repeat split. intros H f' i'. unfold set_mem. cbn [mem]. rewrite rd_zero.
  destruct (f' =? f); [reflexivity | apply H].
Qed.

Lemma keeps_flush s a : keeps s (flush s a).
Proof. repeat split. intros H. exact H. Qed.

Lemma keeps_alloc s s1 r : alloc s = (s1, r) -> keeps s s1.
Proof.
  unfold alloc. destruct (orc s) as [|x rest]; intros E; injection E as <- _; [apply keeps_refl|].
  repeat split. intros H. exact H.
Qed.

From FF Require Vmm.PtTrans Gen.Trans_mm_vmm.

Lemma set_frame_lt e f : e < two64 -> set_frame e f < two64.
Proof.
  intros He. unfold set_frame, andnot, frame_addr, shl64.
  apply PtTrans.lor_lt; [apply PtTrans.ldiff_lt; exact He | apply w64_lt].
Qed.

Lemma set_flags_lt e fl : e < two64 -> fl < two64 -> set_flags e fl < two64.
Proof. intros He Hf. unfold set_flags. apply PtTrans.lor_lt; assumption. Qed.

Lemma clear_flags_lt e fl : e < two64 -> clear_flags e fl < two64.
Proof. intros He. unfold clear_flags, andnot. apply PtTrans.ldiff_lt; exact He. Qed.

Lemma zero_lt : 0 < two64.
Proof. reflexivity. Qed.

Lemma P_RW_lt : P_RW < two64.
Proof. reflexivity. Qed.

Lemma map_walk_keeps lv : forall level ta va fr fl s s' e, fl < two64 ->
  map_walk lv level ta va fr fl s = Ok (s', e) -> keeps s s'.
Proof.
  induction lv as [|[sh bits] rest IH]; intros level ta va fr fl s s' e Hfl; cbn [map_walk].
  - intros E; injection E as <- _. apply keeps_refl.
  - destruct (resolve s _) as [[f i]|]; [|discriminate].
    destruct (level =? last_level).
    { intros E; injection E as <- _.
      eapply keeps_trans; [apply keeps_wr | apply keeps_flush].
      apply set_flags_lt; [apply set_frame_lt; apply zero_lt | exact Hfl]. }
    destruct (has_flags _ vmm_FlagHugePage). { intros E; injection E as <- _. apply keeps_refl. }
    destruct (negb _).
    + destruct (alloc s) as [s1 [nf|]] eqn:Ea.
      2:{ intros E; injection E as <- _. eapply keeps_alloc; exact Ea. }
      destruct (resolve_page _ _) as [pf|]; [|discriminate].
      intros E. apply IH in E; [|exact Hfl].
      eapply keeps_trans; [eapply keeps_alloc; exact Ea|].
      eapply keeps_trans; [apply (keeps_wr s1 f i); apply set_flags_lt; [apply set_frame_lt; apply zero_lt | apply P_RW_lt]|].
      eapply keeps_trans; [apply keeps_zero | exact E].
    + intros E. eapply IH; eassumption.
Qed.

Lemma map_page_keeps p f fl s s' e : fl < two64 -> map_page p f fl s = Ok (s', e) -> keeps s s'.
Proof.
  intros Hfl. unfold map_page. destruct (_ && _ && _).
  - intros E; injection E as <- _. apply keeps_refl.
  - apply map_walk_keeps. exact Hfl.
Qed.

Lemma unmap_walk_keeps lv : forall level ta va s s' e,
  unmap_walk lv level ta va s = Ok (s', e) -> keeps s s'.
Proof.
  induction lv as [|[sh bits] rest IH]; intros level ta va s s' e; cbn [unmap_walk].
  - intros E; injection E as <- _. apply keeps_refl.
  - destruct (resolve s _) as [[f i]|]; [|discriminate].
    destruct (level =? last_level).
    { intros E; injection E as <- _. repeat split. intros H f' i'.
      unfold flush, set_flog, wr_st, set_mem. cbn [mem]. rewrite rd_wr.
      destruct ((f' =? f) && (i' =? i)); [apply clear_flags_lt; apply H | apply H]. }
    destruct (negb _). { intros E; injection E as <- _. apply keeps_refl. }
    destruct (has_flags _ _). { intros E; injection E as <- _. apply keeps_refl. }
    apply IH.
Qed.

Lemma unmap_page_keeps p s s' e : unmap_page p s = Ok (s', e) -> keeps s s'.
Proof. apply unmap_walk_keeps. Qed.

Lemma map_temporary_keeps f s s' e p : map_temporary f s = Ok (s', e, p) -> keeps s s'.
Proof.
  unfold map_temporary. destruct (_ && _). { intros E; injection E as <- _ _. apply keeps_refl. }
  destruct (map_page _ _ _ _) as [[s1 err]|] eqn:Em; [|discriminate].
  apply map_page_keeps in Em; [|apply P_RW_lt].
  destruct (err =? 0); intros E; injection E as <- _ _; exact Em.
Qed.

Lemma phys_keeps s s' a : lo s' = lo s -> cnt s' = cnt s -> phys s' a = phys s a.
Proof. intros H1 H2. unfold phys, backed. rewrite H1, H2. reflexivity. Qed.

(** the helpers of this translation unit are those of Gen/Trans_mm_vmm.v (same source, same term) *)
Lemma set_frame_trans e f : e < two64 -> f < two64 -> go_vmm_pageTableEntry_SetFrame e f = set_frame e f.
Proof.
  intros He Hf. change (Trans_mm_vmm.go_vmm_pageTableEntry_SetFrame e f = set_frame e f).
  apply (PtTrans.pte_helpers_are_translation e 0 f He zero_lt Hf).
Qed.

Lemma set_flags_trans e fl : e < two64 -> fl < two64 -> go_vmm_pageTableEntry_SetFlags e fl = set_flags e fl.
Proof.
  intros He Hf. change (Trans_mm_vmm.go_vmm_pageTableEntry_SetFlags e fl = set_flags e fl).
  apply (PtTrans.pte_helpers_are_translation e fl 0 He Hf zero_lt).
Qed.

Lemma frame_address_trans f : f < two64 -> go_mm_Frame_Address f = frame_addr f.
Proof.
  intros Hf. change (Trans_mm_vmm.go_mm_Frame_Address f = frame_addr f).
  apply (PtTrans.pte_helpers_are_translation 0 0 f zero_lt zero_lt Hf).
Qed.

Lemma page_address_trans f : f < two64 -> go_mm_Page_Address f = frame_addr f.
Proof.
  intros Hf. change (Trans_mm_vmm.go_mm_Page_Address f = frame_addr f).
  apply (PtTrans.pte_helpers_are_translation 0 0 f zero_lt zero_lt Hf).
Qed.

(** ---- PageDirectoryTable.Map / Unmap ---- *)
Definition pdt_res (tr0 : list gcall) (active : bool) (lea : N) (ev : gcall) (r : R (st * N)) : gres (go_vmm_world * option string) :=
  match r with
  | Stray => GPanic
  | Ok (s', e) => GOk (W ((if active then [ev] else [ev_flush lea; ev; ev_flush lea]) ++ ev_active :: tr0) s', err_of e)
  end.

Lemma last_entry_off_val : last_entry_off = 4088.
Proof. reflexivity. Qed.

Lemma lea_trans af : af < two64 ->
  gw 64 (go_mm_Frame_Address af + N.shiftl (N.shiftl 1 9 - 1) mm_PointerShift) = add64 (frame_addr af) last_entry_off.
Proof. intros H. rewrite frame_address_trans by exact H. rewrite gw64. reflexivity. Qed.

Theorem pdt_map_is_translation slot page frame flags s tr0 :
  mem_w64 s -> cr3 s < two64 -> pdts s slot < two64 -> flags < two64 ->
  go_vmm_PageDirectoryTable_Map (W tr0 s) (pdts s slot) page frame flags o_active o_flush o_map =
  pdt_res tr0 (N.shiftr (cr3 s) mm_PageShift =? pdts s slot)
          (add64 (frame_addr (N.shiftr (cr3 s) mm_PageShift)) last_entry_off)
          (ev_map page frame flags) (pdt_map slot page frame flags s).
Proof.
  intros Hw Hcr Hpf Hfl.
  assert (Haf : N.shiftr (cr3 s) mm_PageShift < two64) by (apply PtTrans.shiftr_lt; exact Hcr).
  unfold go_vmm_PageDirectoryTable_Map, pdt_map, with_pdt.
  unfold go_vmm_world_seam at 1. cbn [f_world_trace f_world_mem set_f_world_trace set_f_world_mem o_active].
  rewrite (gw64_small _ Haf).
  set (af := N.shiftr (cr3 s) mm_PageShift) in *. set (pf := pdts s slot) in *.
  destruct (af =? pf) eqn:Eact; cbn [negb].
  - (* active *)
    unfold go_vmm_world_seam. cbn [f_world_trace f_world_mem set_f_world_trace set_f_world_mem o_map].
    unfold pdt_res. destruct (map_page page frame flags s) as [[s' e]|]; cbn [lift_op]; reflexivity.
  - (* inactive *)
    change (gidx vmm_pageLevelBits 0) with (Some 9). cbv iota beta.
    rewrite (lea_trans af Haf). set (lea := add64 (frame_addr af) last_entry_off).
    unfold go_vmm_world_load_phys, go_vmm_world_store_phys, pload, pstore.
    cbn [f_world_trace f_world_mem set_f_world_trace set_f_world_mem].
    destruct (phys s lea) as [[f i]|] eqn:Eph; [|reflexivity].
    rewrite (set_frame_trans _ _ (Hw f i) Hpf).
    cbn [f_world_trace f_world_mem set_f_world_trace set_f_world_mem].
    unfold go_vmm_world_seam at 1. cbn [f_world_trace f_world_mem set_f_world_trace set_f_world_mem o_flush].
    unfold go_vmm_world_seam at 1. cbn [f_world_trace f_world_mem set_f_world_trace set_f_world_mem o_map].
    set (s1 := flush (wr_st s f i (set_frame (rd (mem s) f i) pf)) lea).
    destruct (map_page page frame flags s1) as [[s2 e]|] eqn:Em; cbn [lift_op]; [|reflexivity].
    cbn [f_world_trace f_world_mem set_f_world_trace set_f_world_mem].
    assert (K : keeps s s2).
    { eapply keeps_trans; [|eapply map_page_keeps; [exact Hfl | exact Em]].
      eapply keeps_trans; [apply keeps_wr; apply set_frame_lt; apply Hw | apply keeps_flush]. }
    destruct K as (K1 & K2 & K3).
    rewrite (phys_keeps s s2 lea K1 K2), Eph.
    rewrite (set_frame_trans _ _ (K3 Hw f i) Haf).
    cbn [f_world_trace f_world_mem set_f_world_trace set_f_world_mem].
    unfold go_vmm_world_seam. cbn [f_world_trace f_world_mem set_f_world_trace set_f_world_mem o_flush].
    reflexivity.
Qed.

Theorem pdt_unmap_is_translation slot page s tr0 :
  mem_w64 s -> cr3 s < two64 -> pdts s slot < two64 ->
  go_vmm_PageDirectoryTable_Unmap (W tr0 s) (pdts s slot) page o_active o_flush o_unmap =
  pdt_res tr0 (N.shiftr (cr3 s) mm_PageShift =? pdts s slot)
          (add64 (frame_addr (N.shiftr (cr3 s) mm_PageShift)) last_entry_off)
          (ev_unmap page) (pdt_unmap slot page s).
Proof.
  intros Hw Hcr Hpf.
  assert (Haf : N.shiftr (cr3 s) mm_PageShift < two64) by (apply PtTrans.shiftr_lt; exact Hcr).
  unfold go_vmm_PageDirectoryTable_Unmap, pdt_unmap, with_pdt.
  unfold go_vmm_world_seam at 1. cbn [f_world_trace f_world_mem set_f_world_trace set_f_world_mem o_active].
  rewrite (gw64_small _ Haf).
  set (af := N.shiftr (cr3 s) mm_PageShift) in *. set (pf := pdts s slot) in *.
  destruct (af =? pf) eqn:Eact; cbn [negb].
  - (* active *)
    unfold go_vmm_world_seam. cbn [f_world_trace f_world_mem set_f_world_trace set_f_world_mem o_unmap].
    unfold pdt_res. destruct (unmap_page page s) as [[s' e]|]; cbn [lift_op]; reflexivity.
  - (* inactive *)
    change (gidx vmm_pageLevelBits 0) with (Some 9). cbv iota beta.
    rewrite (lea_trans af Haf). set (lea := add64 (frame_addr af) last_entry_off).
    unfold go_vmm_world_load_phys, go_vmm_world_store_phys, pload, pstore.
    cbn [f_world_trace f_world_mem set_f_world_trace set_f_world_mem].
    destruct (phys s lea) as [[f i]|] eqn:Eph; [|reflexivity].
    rewrite (set_frame_trans _ _ (Hw f i) Hpf).
    cbn [f_world_trace f_world_mem set_f_world_trace set_f_world_mem].
    unfold go_vmm_world_seam at 1. cbn [f_world_trace f_world_mem set_f_world_trace set_f_world_mem o_flush].
    unfold go_vmm_world_seam at 1. cbn [f_world_trace f_world_mem set_f_world_trace set_f_world_mem o_unmap].
    set (s1 := flush (wr_st s f i (set_frame (rd (mem s) f i) pf)) lea).
    destruct (unmap_page page s1) as [[s2 e]|] eqn:Em; cbn [lift_op]; [|reflexivity].
    cbn [f_world_trace f_world_mem set_f_world_trace set_f_world_mem].
    assert (K : keeps s s2).
    { eapply keeps_trans; [|eapply unmap_page_keeps; exact Em].
      eapply keeps_trans; [apply keeps_wr; apply set_frame_lt; apply Hw | apply keeps_flush]. }
    destruct K as (K1 & K2 & K3).
    rewrite (phys_keeps s s2 lea K1 K2), Eph.
    rewrite (set_frame_trans _ _ (K3 Hw f i) Haf).
    cbn [f_world_trace f_world_mem set_f_world_trace set_f_world_mem].
    unfold go_vmm_world_seam. cbn [f_world_trace f_world_mem set_f_world_trace set_f_world_mem o_flush].
    reflexivity.
Qed.

From Coq Require Import FMapPositive.

(** ---- PageDirectoryTable.Activate ---- *)
Theorem pdt_activate_is_translation slot s tr0 :
  pdts s slot < two64 ->
  go_vmm_PageDirectoryTable_Activate (W tr0 s) (pdts s slot) o_switch =
  GOk (W (ev_switch (frame_addr (pdts s slot)) :: tr0) (pdt_activate slot s), tt).
Proof.
  intros Hpf. unfold go_vmm_PageDirectoryTable_Activate, go_vmm_world_seam, pdt_activate.
  cbn [f_world_trace f_world_mem set_f_world_trace set_f_world_mem o_switch].
  rewrite (frame_address_trans _ Hpf). reflexivity.
Qed.

(** ---- PageDirectoryTable.Init ---- *)

(** overwriting a word *)
Lemma padd_add {A} i (x y : A) m : PositiveMap.add i x (PositiveMap.add i y m) = PositiveMap.add i x m.
Proof. revert m. induction i; intros [|l o r]; cbn; f_equal; auto. Qed.

Local Transparent wr.
Lemma wr_wr m f i x y : wr (wr m f i x) f i y = wr m f i y.
Proof.
  unfold wr. rewrite get_tbl_add_same. cbn [fst snd]. rewrite !padd_add. reflexivity.
Qed.
Local Opaque wr.

Lemma wr_st_wr_st s f i x y : wr_st (wr_st s f i x) f i y = wr_st s f i y.
Proof. unfold wr_st, set_mem. cbn [mem lo cnt cr3 orc flog slog last zf prot pdts inited]. rewrite wr_wr. reflexivity. Qed.

(** the walk that translates [page] from table [t] does not go through frame [x] *)
Fixpoint walk_avoids (s : st) (levels : list N) (t page x : N) : bool :=
  match levels with
  | [] => true
  | k :: rest =>
      negb (t =? x) &&
      (if backed s t then
         let e := rd (mem s) t (hw_idx page k) in
         if hw_P e && negb (hw_PS e && (k <? 3)) then walk_avoids s rest (hw_frame e) page x else true
       else true)
  end.
Definition path_avoids (s : st) (va x : N) : bool :=
  walk_avoids s hw_levels (N.shiftr (cr3 s) 12) (N.shiftr va 12) x.

(** [s'] differs from [s] at most in the contents of frame [x] *)
Definition only_at (x : N) (s s' : st) : Prop :=
  lo s' = lo s /\ cnt s' = cnt s /\ cr3 s' = cr3 s /\ forall t i, t <> x -> rd (mem s') t i = rd (mem s) t i.

Lemma only_at_trans x s1 s2 s3 : only_at x s1 s2 -> only_at x s2 s3 -> only_at x s1 s3.
Proof.
  intros (A1 & A2 & A3 & A4) (B1 & B2 & B3 & B4). repeat split; try congruence.
  intros t i Ht. rewrite B4, A4 by exact Ht. reflexivity.
Qed.

Lemma only_at_zero x s : only_at x s (set_mem s (zero (mem s) x)).
Proof.
  repeat split. intros t i Ht. unfold set_mem. cbn [mem]. rewrite rd_zero.
  destruct (N.eqb_spec t x); [contradiction | reflexivity].
Qed.

Lemma only_at_wr x s i v : only_at x s (wr_st s x i v).
Proof.
  repeat split. intros t j Ht. unfold wr_st, set_mem. cbn [mem]. rewrite rd_wr.
  destruct (N.eqb_spec t x); [contradiction | reflexivity].
Qed.

Lemma hw_walk_stable x s s' page : only_at x s s' ->
  forall levels t, walk_avoids s levels t page x = true ->
    hw_walk s' levels t page = hw_walk s levels t page /\ walk_avoids s' levels t page x = true.
Proof.
  intros (H1 & H2 & H3 & H4).
  assert (Hbk : forall f, backed s' f = backed s f) by (intros; unfold backed; rewrite H1, H2; reflexivity).
  induction levels as [|k rest IH]; intros t; cbn [hw_walk walk_avoids].
  - intros _. rewrite Hbk. split; reflexivity.
  - rewrite Hbk. destruct (N.eqb_spec t x) as [->|Ht]; cbn [negb andb]; [discriminate|].
    rewrite (H4 t _ Ht).
    destruct (backed s t); [|split; reflexivity].
    destruct (hw_P _ && negb _); [|split; reflexivity].
    apply IH.
Qed.

Lemma resolve_stable x s s' va : only_at x s s' -> path_avoids s va x = true ->
  resolve s' va = resolve s va /\ resolve_page s' va = resolve_page s va /\ path_avoids s' va x = true.
Proof.
  intros Ho Hp. pose proof Ho as (H1 & H2 & H3 & H4).
  unfold path_avoids in *.
  destruct (hw_walk_stable x s s' (N.shiftr va 12) Ho hw_levels _ Hp) as [E1 E2].
  unfold resolve, resolve_page, mmu. rewrite H3, E1. repeat split. exact E2.
Qed.

Lemma path_avoids_page s va va' x : N.shiftr va 12 = N.shiftr va' 12 -> path_avoids s va x = path_avoids s va' x.
Proof. unfold path_avoids. intros ->. reflexivity. Qed.

Definition init_events (active : bool) (frame e : N) : list gcall :=
  if active then [ev_active]
  else if e =? 0 then [ev_unmap temp_page; ev_memset (frame_addr temp_page); ev_maptemp frame; ev_active]
  else [ev_maptemp frame; ev_active].

Definition pdt_init_res (tr0 : list gcall) (frame : N) (active : bool) (r : R (st * N))
  : gres (go_vmm_world * (option string * N)) :=
  match r with
  | Stray => GPanic
  | Ok (s', e) => GOk (W (init_events active frame e ++ tr0) s', (err_of e, frame))
  end.

(** the frame the temporary page is mapped to is not one of the tables that translate the temporary page *)
Definition init_stable (frame : N) (s0 : st) : Prop :=
  forall s1 pf, map_temporary frame s0 = Ok (s1, 0, temp_page) ->
    resolve_page s1 (frame_addr temp_page) = Some pf ->
    path_avoids s1 (frame_addr temp_page) pf = true.

Lemma err_of_nil e : negb (gerr_eqb (err_of e) None) = negb (e =? 0).
Proof. unfold err_of. destruct (e =? 0); reflexivity. Qed.

Lemma map_temporary_page f s s1 e p : map_temporary f s = Ok (s1, e, p) -> p = if e =? 0 then temp_page else 0.
Proof.
  unfold map_temporary. destruct (_ && _). { intros E; injection E as _ <- <-. reflexivity. }
  destruct (map_page _ _ _ _) as [[s2 err]|]; [|discriminate].
  destruct (err =? 0) eqn:Ee; intros E; injection E as _ <- <-; [reflexivity | rewrite Ee; reflexivity].
Qed.

Definition last_entry_va : N := add64 (frame_addr temp_page) last_entry_off.

Lemma resolve_last s pf : resolve_page s (frame_addr temp_page) = Some pf -> resolve s last_entry_va = Some (pf, 511).
Proof.
  unfold resolve_page, resolve, mmu.
  change (N.land (frame_addr temp_page) 4095 =? 0) with true.
  change (N.land last_entry_va 7 =? 0) with true.
  change (N.shiftr last_entry_va 12) with (N.shiftr (frame_addr temp_page) 12).
  cbv iota. intros ->. reflexivity.
Qed.

Theorem pdt_init_is_translation slot frame s tr0 pdt0 :
  frame < two64 ->
  init_stable frame (set_pdt s slot frame) ->
  go_vmm_PageDirectoryTable_Init (W tr0 (set_pdt s slot frame)) pdt0 frame o_active o_memset o_maptemp o_unmap =
  pdt_init_res tr0 frame (frame_addr frame =? cr3 s) (pdt_init slot frame s).
Proof.
  intros Hfr Hst. unfold pdt_init. set (s0 := set_pdt s slot frame) in *.
  unfold go_vmm_PageDirectoryTable_Init.
  unfold go_vmm_world_seam at 1. cbn [f_world_trace f_world_mem set_f_world_trace set_f_world_mem o_active].
  rewrite (frame_address_trans _ Hfr).
  change (cr3 s0) with (cr3 s).
  destruct (frame_addr frame =? cr3 s) eqn:Eact.
  { reflexivity. }
  unfold go_vmm_world_seam at 1. cbn [f_world_trace f_world_mem set_f_world_trace set_f_world_mem o_maptemp].
  destruct (map_temporary frame s0) as [[[s1 err] page]|] eqn:Emt; [|reflexivity].
  rewrite err_of_nil.
  destruct (err =? 0) eqn:Eerr; cbn [negb].
  2:{ unfold pdt_init_res, init_events. rewrite Eerr. reflexivity. }
  apply N.eqb_eq in Eerr. subst err.
  pose proof (map_temporary_page _ _ _ _ _ Emt) as Ep. change (page = temp_page) in Ep. subst page.
  assert (Htp : temp_page < two64) by reflexivity.
  rewrite (page_address_trans _ Htp).
  unfold go_vmm_world_seam at 1. cbn [f_world_trace f_world_mem set_f_world_trace set_f_world_mem o_memset].
  change ((0 =? 0) && (mm_PageSize =? mm_PageSize)) with true. cbv iota.
  destruct (resolve_page s1 (frame_addr temp_page)) as [pf|] eqn:Erp; [|reflexivity].
  cbn [f_world_trace f_world_mem set_f_world_trace set_f_world_mem].
  change (gidx vmm_pageLevelBits 0) with (Some 9). cbv iota beta.
  replace (gw 64 (frame_addr temp_page + N.shiftl (N.shiftl 1 9 - 1) mm_PointerShift)) with last_entry_va by reflexivity.
  fold last_entry_va.
  pose proof (resolve_last s1 pf Erp) as Erl. rewrite Erl.
  pose proof (Hst s1 pf Emt Erp) as Hav.
  rewrite (path_avoids_page s1 _ last_entry_va pf) in Hav by reflexivity.
  set (s2 := set_mem s1 (zero (mem s1) pf)).
  destruct (resolve_stable pf s1 s2 last_entry_va (only_at_zero pf s1) Hav) as (R2 & _ & A2).
  rewrite Erl in R2.
  unfold go_vmm_world_store_virt at 1, vstore. cbn [f_world_trace f_world_mem set_f_world_trace set_f_world_mem].
  rewrite R2. cbn [f_world_trace f_world_mem set_f_world_trace set_f_world_mem].
  set (s2a := wr_st s2 pf 511 (gw 64 0)).
  destruct (resolve_stable pf s2 s2a last_entry_va (only_at_wr pf s2 511 _) A2) as (R3 & _ & A3).
  rewrite R2 in R3.
  unfold go_vmm_world_load_virt at 1, vload. cbn [f_world_trace f_world_mem set_f_world_trace set_f_world_mem].
  rewrite R3.
  assert (E0 : rd (mem s2a) pf 511 = 0).
  { unfold s2a, wr_st, set_mem. cbn [mem]. rewrite rd_wr, !N.eqb_refl. reflexivity. }
  rewrite E0.
  change (N.lor vmm_FlagPresent vmm_FlagRW) with P_RW.
  rewrite (set_flags_trans 0 P_RW zero_lt P_RW_lt).
  unfold go_vmm_world_store_virt at 1, vstore. cbn [f_world_trace f_world_mem set_f_world_trace set_f_world_mem].
  rewrite R3. cbn [f_world_trace f_world_mem set_f_world_trace set_f_world_mem].
  unfold s2a. rewrite wr_st_wr_st.
  set (s2b := wr_st s2 pf 511 (set_flags 0 P_RW)).
  destruct (resolve_stable pf s2 s2b last_entry_va (only_at_wr pf s2 511 _) A2) as (R4 & _ & A4).
  rewrite R2 in R4.
  unfold go_vmm_world_load_virt at 1, vload. cbn [f_world_trace f_world_mem set_f_world_trace set_f_world_mem].
  rewrite R4.
  assert (E1 : rd (mem s2b) pf 511 = set_flags 0 P_RW).
  { unfold s2b, wr_st, set_mem. cbn [mem]. rewrite rd_wr, !N.eqb_refl. reflexivity. }
  rewrite E1.
  rewrite (set_frame_trans _ _ (set_flags_lt 0 P_RW zero_lt P_RW_lt) Hfr).
  unfold go_vmm_world_store_virt at 1, vstore. cbn [f_world_trace f_world_mem set_f_world_trace set_f_world_mem].
  rewrite R4. cbn [f_world_trace f_world_mem set_f_world_trace set_f_world_mem].
  unfold s2b. rewrite wr_st_wr_st.
  unfold go_vmm_world_seam. cbn [f_world_trace f_world_mem set_f_world_trace set_f_world_mem o_unmap].
  fold s2.
  destruct (unmap_page temp_page _) as [[s4 e4]|]; cbn [lift_op]; reflexivity.
Qed.

Theorem trans_keeps_w64 (s s' : st) (e : N) :
  mem_w64 s ->
  (forall p f fl, fl < two64 -> map_page p f fl s = Ok (s', e) -> mem_w64 s') /\
  (forall p, unmap_page p s = Ok (s', e) -> mem_w64 s').
Proof.
  intros Hw. split.
  - intros p f fl Hfl E. apply (map_page_keeps _ _ _ _ _ _ Hfl E). exact Hw.
  - intros p E. apply (unmap_page_keeps _ _ _ _ E). exact Hw.
Qed.

(** Init keeps the arena and the width of the memory words *)
Lemma pdt_init_keeps slot frame s s' e : pdt_init slot frame s = Ok (s', e) -> keeps s s'.
Proof.
  unfold pdt_init. set (s0 := set_pdt s slot frame).
  assert (K0 : keeps s s0) by (repeat split; intros H; exact H).
  destruct (_ =? _). { intros E; injection E as <- _. exact K0. }
  destruct (map_temporary frame s0) as [[[s1 err] page]|] eqn:Emt; [|discriminate].
  apply map_temporary_keeps in Emt.
  destruct (negb _). { intros E; injection E as <- _. exact (keeps_trans _ _ _ K0 Emt). }
  destruct (resolve_page s1 _) as [pf|]; [|discriminate].
  destruct (resolve s1 _) as [[ef ei]|]; [|discriminate].
  destruct (unmap_page _ _) as [[s4 e4]|] eqn:Eu; [|discriminate].
  intros E; injection E as <- _.
  apply unmap_page_keeps in Eu.
  eapply keeps_trans; [exact K0|]. eapply keeps_trans; [exact Emt|].
  eapply keeps_trans; [apply keeps_zero|]. eapply keeps_trans; [|exact Eu].
  apply keeps_wr. apply set_frame_lt. apply set_flags_lt; [apply zero_lt | apply P_RW_lt].
Qed.

(** the boot state of a case has 64-bit words *)
Local Transparent rd.
Lemma rd_empty f i : rd (PositiveMap.empty table) f i = POISON.
Proof. unfold rd, get_tbl. rewrite PositiveMap.gempty. unfold tbl_get. cbn [fst snd base_get]. rewrite PositiveMap.gempty. reflexivity. Qed.
Local Opaque rd.

Lemma init_state_w64 lo0 cnt0 last0 oracle : lo0 < 2 ^ 50 -> mem_w64 (init_state lo0 cnt0 last0 oracle).
Proof.
  intros Hlo f i. unfold init_state. cbn [mem]. rewrite rd_wr.
  destruct ((f =? lo0) && (i =? 511)).
  - apply PtTrans.lor_lt; [|reflexivity].
    rewrite N.shiftl_mul_pow2. change (2 ^ 12) with 4096. change (2 ^ 50) with 1125899906842624 in Hlo. unfold two64. lia.
  - rewrite rd_zero. destruct (f =? lo0); [reflexivity|]. rewrite rd_empty. reflexivity.
Qed.

Lemma keeps_wr_w s f i x : (mem_w64 s -> x < two64) -> keeps s (wr_st s f i x).
Proof.
  intros Hx. repeat split. intros H f' i'. unfold wr_st, set_mem. cbn [mem]. rewrite rd_wr.
  destruct ((f' =? f) && (i' =? i)); [exact (Hx H) | apply H].
Qed.

Lemma with_pdt_keeps slot op s s' e :
  (forall a b c, op a = Ok (b, c) -> keeps a b) -> with_pdt slot op s = Ok (s', e) -> keeps s s'.
Proof.
  intros Hop. unfold with_pdt. destruct (_ =? _); [apply Hop|].
  destruct (phys s _) as [[f i]|]; [|discriminate].
  match goal with |- context [op ?a] => destruct (op a) as [[s2 err]|] eqn:Eo; [|discriminate] end.
  intros E; injection E as <- _. apply Hop in Eo.
  eapply keeps_trans; [apply keeps_wr_w; intros Hw; apply set_frame_lt; apply Hw|].
  eapply keeps_trans; [apply keeps_flush|]. eapply keeps_trans; [exact Eo|].
  eapply keeps_trans; [apply keeps_wr_w; intros Hw; apply set_frame_lt; apply Hw | apply keeps_flush].
Qed.

Lemma pdt_map_keeps slot p f fl s s' e : fl < two64 -> pdt_map slot p f fl s = Ok (s', e) -> keeps s s'.
Proof. intros Hfl. apply with_pdt_keeps. intros a b c. apply map_page_keeps. exact Hfl. Qed.

Lemma pdt_unmap_keeps slot p s s' e : pdt_unmap slot p s = Ok (s', e) -> keeps s s'.
Proof. apply with_pdt_keeps. intros a b c. apply unmap_page_keeps. Qed.
