(** Many address spaces at once: one ghost ownership map frame -> (root, path) for all page-table trees. *)
From Coq Require Import NArith ZArith Lia List Bool.
From Coq Require Import ZifyBool ZifyN ZifyNat.
From FF Require Import Lib.Word Gen.Consts_mm_vmm Vmm.Region Vmm.Pt Vmm.PtMem Vmm.PtArith Vmm.PtTree Vmm.PtMap Vmm.PtOps
     Vmm.PtTheorems Vmm.PtInit Vmm.PtPdt.
Import ListNotations.
Local Open Scope N_scope.

Definition gmap : Type := N -> option (N * list N).
Definition proj (g : gmap) (R : N) : ownmap :=
  fun f => match g f with Some (R', p) => if R' =? R then Some p else None | None => None end.

Record GInv (s : st) (roots : list N) (g : gmap) : Prop := {
  gi_wf : forall R, In R roots -> WF s R (proj g R);
  gi_in : forall f R p, g f = Some (R, p) -> In R roots;
  gi_nodup : NoDup (ofr (orc s));
  gi_fresh : forall f, In f (orc s) -> f <> 0 -> backed s f = true /\ g f = None;
  gi_act : In (N.shiftr (cr3 s) 12) roots
}.

Lemma WF_ext s R own1 own2 : (forall f, own1 f = own2 f) -> WF s R own1 -> WF s R own2.
Proof.
  intros E [W1 W2 W3 W4 W5]. split.
  - exact W1.
  - rewrite <- E. exact W2.
  - intros t p Ho. rewrite <- E in Ho. exact (W3 t p Ho).
  - exact W4.
  - intros t p i Ho Hl Hi Hne. rewrite <- E in Ho. destruct (W5 t p i Ho Hl Hi Hne) as [P1 P2]. split; [exact P1|].
    intros HP. rewrite <- E. exact (P2 HP).
Qed.

Lemma proj_some g R f p : proj g R f = Some p <-> g f = Some (R, p).
Proof.
  unfold proj. destruct (g f) as [[R' q]|].
  - destruct (N.eqb_spec R' R) as [->|Hne]; split; intros H; inversion H; subst; try reflexivity. congruence.
  - split; discriminate.
Qed.

Lemma proj_other g R T f p : g f = Some (T, p) -> R <> T -> proj g R f = None.
Proof. intros H Hne. unfold proj. rewrite H. destruct (N.eqb_spec T R); [congruence | reflexivity]. Qed.

Lemma proj_none g R f : g f = None -> proj g R f = None.
Proof. intros H. unfold proj. rewrite H. reflexivity. Qed.

Lemma root_owned s roots g R : GInv s roots g -> In R roots -> g R = Some (R, []).
Proof. intros G HR. apply proj_some. exact (wf_root _ _ _ (gi_wf _ _ _ G R HR)). Qed.

Lemma GInv_Inv s roots g : GInv s roots g -> Inv s (N.shiftr (cr3 s) 12) (N.shiftr (cr3 s) 12) (proj g (N.shiftr (cr3 s) 12)).
Proof.
  intros G. set (A := N.shiftr (cr3 s) 12).
  pose proof (gi_wf _ _ _ G A (gi_act _ _ _ G)) as W.
  destruct (wf_owned _ _ _ W A [] (wf_root _ _ _ W)) as (Hb & _). destruct (wf_rec _ _ _ W) as [U1 U2].
  split; [exact W | reflexivity | | left; reflexivity |].
  - unfold Rec. repeat split; assumption.
  - split; [exact (gi_nodup _ _ _ G)|]. intros f Hin Hz. destruct (gi_fresh _ _ _ G f Hin Hz) as [B1 B2].
    split; [exact B1|]. split; [apply proj_none; exact B2|].
    intros E. rewrite E, (root_owned s roots g A G (gi_act _ _ _ G)) in B2. discriminate.
Qed.

Lemma GInv_Inv2 s roots g T :
  GInv s roots g -> In T roots -> T <> N.shiftr (cr3 s) 12 ->
  Inv2 s (N.shiftr (cr3 s) 12) T (proj g (N.shiftr (cr3 s) 12)) (proj g T).
Proof.
  intros G HT Hne. set (A := N.shiftr (cr3 s) 12) in *.
  split.
  - exact (gi_wf _ _ _ G A (gi_act _ _ _ G)).
  - exact (gi_wf _ _ _ G T HT).
  - reflexivity.
  - intros f Hf. destruct (proj g A f) as [p|] eqn:E; [|congruence]. apply proj_some in E. eapply proj_other; [exact E | exact Hne].
  - split; [exact (gi_nodup _ _ _ G)|]. intros f Hin Hz. destruct (gi_fresh _ _ _ G f Hin Hz) as [B1 B2].
    split; [exact B1|]. split; [apply proj_none; exact B2|].
    intros E. rewrite E, (root_owned s roots g A G (gi_act _ _ _ G)) in B2. discriminate.
  - intros f Hin Hz. destruct (gi_fresh _ _ _ G f Hin Hz) as [_ B2]. apply proj_none. exact B2.
Qed.

Lemma in_skipn {X} (x : X) n l : In x (skipn n l) -> In x l.
Proof. intros H. rewrite <- (firstn_skipn n l). apply in_or_app. right. exact H. Qed.

Lemma nodup_ofr_skipn n : forall l, NoDup (ofr l) -> NoDup (ofr (skipn n l)).
Proof.
  induction n as [|n IH]; intros l H; [exact H|]. destruct l as [|x l]; [exact H|]. cbn [skipn].
  apply IH. rewrite ofr_cons in H. destruct (x =? 0); [exact H | inversion H; assumption].
Qed.

Lemma nodup_ofr_split n : forall l f, NoDup (ofr l) -> f <> 0 -> In f (firstn n l) -> In f (skipn n l) -> False.
Proof.
  induction n as [|n IH]; intros l f H Hz H1 H2; [destruct H1|]. destruct l as [|x l]; [destruct H1|].
  cbn [firstn skipn] in *. rewrite ofr_cons in H.
  destruct H1 as [->|H1].
  - destruct (N.eqb_spec f 0); [congruence|]. inversion H as [|? ? Hnin _]; subst. apply Hnin. apply in_ofr. split; [|exact Hz].
    eapply in_skipn. exact H2.
  - apply (IH l f); try assumption. destruct (x =? 0); [exact H | inversion H; assumption].
Qed.

(** an operation on the tree of root [T] that takes its new tables from the head of the oracle and leaves
    every frame that is not a table of [T] alone (except the unowned frames in [exc]) *)
Lemma ginv_update s s' roots g T own' n exc :
  GInv s roots g -> In T roots -> WF s' T own' ->
  lo s' = lo s -> cnt s' = cnt s -> cr3 s' = cr3 s -> orc s' = skipn n (orc s) ->
  (forall f, own' f = proj g T f \/ (proj g T f = None /\ In f (firstn n (orc s)) /\ f <> 0)) ->
  (forall f i, own' f = None -> ~ In f exc -> ent s' f i = ent s f i) ->
  (forall f, In f exc -> g f = None) ->
  let g' : gmap := fun f => match own' f with Some p => Some (T, p) | None => g f end in
  GInv s' roots g' /\ (forall f, proj g' T f = own' f) /\ (forall R f, R <> T -> proj g' R f = proj g R f) /\
  (forall f, g f = None -> own' f = None -> g' f = None).
Proof.
  intros G HT W' Hlo Hcnt Hcr Horc Hown Hfr Hexc g'.
  assert (Hbk: forall f, backed s' f = backed s f) by (intros; unfold backed; rewrite Hlo, Hcnt; reflexivity).
  assert (Hnone: forall f R p, g f = Some (R, p) -> R <> T -> own' f = None).
  { intros f R p Hg Hne. destruct (Hown f) as [E | (_ & Hin & Hz)].
    - rewrite E. apply (proj_other g T R f p Hg). congruence.
    - destruct (gi_fresh _ _ _ G f (in_firstn f n _ Hin) Hz) as [_ B]. congruence. }
  assert (PT: forall f, proj g' T f = own' f).
  { intros f. unfold proj, g'. destruct (own' f) as [p|] eqn:E; [rewrite N.eqb_refl; reflexivity|].
    destruct (g f) as [[R q]|] eqn:Eg; [|reflexivity]. destruct (N.eqb_spec R T) as [->|]; [|reflexivity].
    assert (Hp: proj g T f = Some q) by (apply proj_some; exact Eg).
    destruct (Hown f) as [E2 | (E2 & _)]; congruence. }
  assert (PR: forall R f, R <> T -> proj g' R f = proj g R f).
  { intros R f Hne. unfold proj at 1. unfold g'. destruct (own' f) as [p|] eqn:E.
    - destruct (N.eqb_spec T R); [congruence|].
      destruct (proj g R f) as [q|] eqn:E2; [|reflexivity]. apply proj_some in E2.
      rewrite (Hnone f R q E2 Hne) in E. discriminate.
    - reflexivity. }
  split; [|split; [exact PT|]; split; [exact PR|]].
  - split.
    + intros R HR. destruct (N.eq_dec R T) as [->|Hne].
      * apply (WF_ext s' T own'); [intros f; symmetry; apply PT | exact W'].
      * apply (WF_ext s' R (proj g R)); [intros f; symmetry; apply PR; exact Hne|].
        apply (WF_ent_eq s s' R (proj g R) (gi_wf _ _ _ G R HR) Hlo Hcnt).
        intros f p i Hp. apply proj_some in Hp. apply Hfr; [eapply Hnone; eassumption|].
        intros Hin. rewrite (Hexc f Hin) in Hp. discriminate.
    + intros f R p. unfold g'. destruct (own' f) as [q|]; intros E; [inversion E; subst; exact HT | exact (gi_in _ _ _ G f R p E)].
    + rewrite Horc. apply nodup_ofr_skipn. exact (gi_nodup _ _ _ G).
    + intros f Hin Hz. rewrite Horc in Hin. rewrite Hbk.
      destruct (gi_fresh _ _ _ G f (in_skipn f n _ Hin) Hz) as [B1 B2]. split; [exact B1|].
      unfold g'. destruct (own' f) as [q|] eqn:E; [|exact B2]. exfalso.
      destruct (Hown f) as [E2 | (_ & Hin2 & _)].
      * rewrite E in E2. symmetry in E2. apply proj_some in E2. congruence.
      * exact (nodup_ofr_split n _ f (gi_nodup _ _ _ G) Hz Hin2 Hin).
    + rewrite Hcr. exact (gi_act _ _ _ G).
  - intros f Hg Ho. unfold g'. rewrite Ho. exact Hg.
Qed.

(** a new, empty address space rooted at an unowned frame *)
Lemma ginv_add_root s roots g F :
  GInv s roots g -> g F = None -> WF s F (own_root F) -> ~ In F (orc s) ->
  let g' : gmap := fun f => if f =? F then Some (F, []) else g f in
  GInv s (F :: roots) g' /\ (forall R f, In R roots -> proj g' R f = proj g R f) /\ (forall f, f <> F -> g' f = g f).
Proof.
  intros G HgF WFF HnF g'.
  assert (HFr: ~ In F roots) by (intros H; rewrite (root_owned s roots g F G H) in HgF; discriminate).
  assert (PR: forall R f, In R roots -> proj g' R f = proj g R f).
  { intros R f HR. unfold proj, g'. destruct (N.eqb_spec f F) as [->|]; [|reflexivity].
    rewrite HgF. destruct (N.eqb_spec F R) as [->|]; [contradiction | reflexivity]. }
  split; [|split; [exact PR|]].
  - split.
    + intros R [<-|HR].
      * apply (WF_ext s F (own_root F)); [|exact WFF]. intros f. unfold own_root, proj, g'.
        destruct (N.eqb_spec f F) as [->|Hf]; [rewrite N.eqb_refl; reflexivity|].
        destruct (g f) as [[R' p]|] eqn:E; [|reflexivity]. destruct (N.eqb_spec R' F) as [->|]; [|reflexivity].
        exfalso. apply HFr. exact (gi_in _ _ _ G f F p E).
      * apply (WF_ext s R (proj g R)); [intros f; symmetry; apply PR; exact HR | exact (gi_wf _ _ _ G R HR)].
    + intros f R p. unfold g'. destruct (N.eqb_spec f F); intros E; [inversion E; left; reflexivity | right; exact (gi_in _ _ _ G f R p E)].
    + exact (gi_nodup _ _ _ G).
    + intros f Hin Hz. destruct (gi_fresh _ _ _ G f Hin Hz) as [B1 B2]. split; [exact B1|].
      unfold g'. destruct (N.eqb_spec f F) as [->|]; [contradiction | exact B2].
    + right. exact (gi_act _ _ _ G).
  - intros f Hf. unfold g'. destruct (N.eqb_spec f F); [congruence | reflexivity].
Qed.
