(** The hand-written model of pageFaultHandler (Vmm/Pt.v: [page_fault]) against the Gallina translation that gen/gotrans
    ("memory as state" mode, config vmm_fault.json) regenerates from kernel/mm/vmm/fault_amd64.go on every run
    (Gen/Trans_vmm_fault.v).  The closure passed to walk is the body of [gvisit .. (walk_items ..)]; readCR2Fn,
    mm.AllocFrame, mapTemporaryFn, kernel.Memcopy, unmapFn, flushTLBEntryFn are seams with the model's environment as
    oracles; nonRecoverablePageFault never returns (it panics): its call is recorded and ENDS the translated function, so
    the result shows the state at the moment of the panic and, as the most recent event, the call with its error. *)
From Coq Require Import NArith ZArith String List Bool Lia FMapPositive.
From Coq Require Import ZifyBool ZifyN ZifyNat.
From FF Require Import Lib.Word Lib.GoOps Lib.GoOpsProofs Lib.GoVisit Gen.Consts_mm_vmm Gen.Trans_vmm_fault.
From FF Require Import Vmm.Pt Vmm.PtMem Vmm.PtAccess Vmm.PtArith.
From FF Require Vmm.PdtTrans Vmm.MapTrans Vmm.PtTrans Gen.Trans_mm_vmm.
Module P := FF.Vmm.PdtTrans.
Module M := FF.Vmm.MapTrans.
Import ListNotations.
Local Open Scope N_scope.
Ltac Zify.zify_post_hook ::= Z.div_mod_to_equations.

Notation W := mk_go_vmm_world (only parsing).

(** ---- the entry addresses of the recursive window are never 0 (nil) ---- *)
Lemma entry_index_lt va sh : entry_index va sh 9 < 512.
Proof.
  unfold entry_index. change (N.shiftl 1 9 - 1) with (N.ones 9). rewrite N.land_ones.
  change (2 ^ 9) with 512. apply N.mod_lt. discriminate.
Qed.

(** one level of the recursive-window arithmetic: the entry address stays in the top 2^k bytes *)
Lemma entry_addr_high ta va sh k :
  k <= 39 -> 12 <= k -> two64 - 2 ^ k <= ta -> ta < two64 -> ta mod 4096 = 0 ->
  let ea := entry_addr ta va sh 9 in
  two64 - 2 ^ k <= ea /\ ea < two64 /\ ea <> 0 /\
  two64 - 2 ^ (k + 9) <= shl64 ea 9 /\ shl64 ea 9 < two64 /\ shl64 ea 9 mod 4096 = 0.
Proof.
  intros Hk Hk12 Hlo Hhi Hal ea.
  pose proof (entry_index_lt va sh) as Hi.
  assert (Hea : ea = ta + entry_index va sh 9 * 8).
  { unfold ea, entry_addr, add64, shl64, w64. rewrite pointer_shift_val, N.shiftl_mul_pow2. change (2 ^ 3) with 8.
    rewrite (N.mod_small (entry_index va sh 9 * 8)) by (unfold two64; lia).
    apply N.mod_small. unfold two64 in *. lia. }
  assert (Hp : 2 ^ 12 <= 2 ^ k) by (apply N.pow_le_mono_r; lia).
  assert (Hp2 : 2 ^ k <= 2 ^ 39) by (apply N.pow_le_mono_r; lia).
  change (2 ^ 12) with 4096 in Hp. change (2 ^ 39) with 549755813888 in Hp2.
  set (P := 2 ^ k) in *.
  assert (HP9 : 2 ^ (k + 9) = P * 512) by (rewrite N.pow_add_r; reflexivity).
  rewrite HP9.
  assert (Hs : shl64 ea 9 = (ea - (two64 - P)) * 512 + (two64 - P * 512)).
  { unfold shl64, w64. rewrite N.shiftl_mul_pow2. change (2 ^ 9) with 512.
    unfold two64 in *. 
    assert (E : ea * 512 = (ea - (18446744073709551616 - P)) * 512 + (18446744073709551616 - P * 512) + 511 * 18446744073709551616) by lia.
    rewrite E. rewrite N.mod_add by discriminate. apply N.mod_small. lia. }
  rewrite Hs. unfold two64 in *. repeat split; try lia.
Qed.

Lemma walk_items_nonzero va l p : In (l, p) (walk_items va) -> p <> 0.
Proof.
  unfold walk_items. rewrite go_levels_val. cbn [walk_items_from].
  assert (H0 : two64 - 2 ^ 12 <= vmm_pdtVirtualAddr /\ vmm_pdtVirtualAddr < two64 /\ vmm_pdtVirtualAddr mod 4096 = 0)
    by (repeat split; vm_compute; congruence).
  destruct H0 as (A0 & B0 & C0).
  destruct (entry_addr_high vmm_pdtVirtualAddr va 39 12 ltac:(lia) ltac:(lia) A0 B0 C0) as (_ & _ & N0 & A1 & B1 & C1).
  change (12 + 9) with 21 in A1.
  destruct (entry_addr_high _ va 30 21 ltac:(lia) ltac:(lia) A1 B1 C1) as (_ & _ & N1 & A2 & B2 & C2).
  change (21 + 9) with 30 in A2.
  destruct (entry_addr_high _ va 21 30 ltac:(lia) ltac:(lia) A2 B2 C2) as (_ & _ & N2 & A3 & B3 & C3).
  change (30 + 9) with 39 in A3.
  destruct (entry_addr_high _ va 12 39 ltac:(lia) ltac:(lia) A3 B3 C3) as (_ & _ & N3 & _).
  cbn [In]. intros [E|[E|[E|[E|[]]]]]; injection E as _ <-; assumption.
Qed.

(** ---- pageFaultHandler ---- *)
(** helpers of this translation unit *)
Lemma page_addr_any f : go_mm_Page_Address f = frame_addr f.
Proof. unfold go_mm_Page_Address, frame_addr, shl64. rewrite !gw64. apply w64_small. apply w64_lt. Qed.
Lemma frame_addr_any f : go_mm_Frame_Address f = frame_addr f.
Proof. unfold go_mm_Frame_Address, frame_addr, shl64. rewrite !gw64. apply w64_small. apply w64_lt. Qed.
Lemma set_frame_any e f : e < two64 -> go_vmm_pageTableEntry_SetFrame e f = set_frame e f.
Proof.
  intros He. unfold go_vmm_pageTableEntry_SetFrame, set_frame, andnot. rewrite frame_addr_any.
  rewrite (gw64_small e He). apply gw64_small. apply P.set_frame_lt. exact He.
Qed.
Lemma set_flags_any e fl : e < two64 -> fl < two64 -> go_vmm_pageTableEntry_SetFlags e fl = set_flags e fl.
Proof.
  intros He Hf. change (Trans_mm_vmm.go_vmm_pageTableEntry_SetFlags e fl = set_flags e fl).
  apply (PtTrans.pte_helpers_are_translation e fl 0 He Hf P.zero_lt).
Qed.
Lemma clear_flags_any e fl : e < two64 -> fl < two64 -> go_vmm_pageTableEntry_ClearFlags e fl = clear_flags e fl.
Proof.
  intros He Hf. change (Trans_mm_vmm.go_vmm_pageTableEntry_ClearFlags e fl = clear_flags e fl).
  apply (PtTrans.pte_helpers_are_translation e fl 0 He Hf P.zero_lt).
Qed.
Lemma has_flags_any e fl : e < two64 -> fl < two64 -> go_vmm_pageTableEntry_HasFlags e fl = has_flags e fl.
Proof.
  intros He Hf. change (Trans_mm_vmm.go_vmm_pageTableEntry_HasFlags e fl = has_flags e fl).
  apply (PtTrans.pte_helpers_are_translation e fl 0 He Hf P.zero_lt).
Qed.
Lemma page_from_addr_any a : a < two64 -> go_mm_PageFromAddress a = page_from_addr a.
Proof.
  intros Ha. unfold go_mm_PageFromAddress, page_from_addr, andnot.
  assert (E : gw 64 (gsub 64 mm_PageSize 1) = mm_PageSize - 1) by reflexivity.
  rewrite E, land_gnot64 by (try exact Ha; reflexivity).
  apply gw64_small. apply PtTrans.shiftr_lt. apply PtTrans.ldiff_lt. exact Ha.
Qed.

(** ---- the oracles of the model's environment that are particular to the fault handler ---- *)
Definition o_cr2 (addr : N) (_ : list gcall) (s : st) : option (st * N) := Some (s, addr).
Definition o_nonrec (_ : list gcall) (s : st) : option (st * unit) := Some (s, tt).
(** kernel.Memcopy(src, dst, mm.PageSize) between two mapped pages: the model's page-copy step *)
Definition o_memcopy (tr : list gcall) (s : st) : option (st * unit) :=
  match tr with
  | GCall _ [GNum a; GNum b; GNum n] :: _ =>
      if n =? mm_PageSize then
        match resolve_page s a, resolve_page s b with
        | Some src, Some dst => Some (set_mem s (cpy (mem s) src dst), tt)
        | _, _ => None
        end
      else None
  | _ => None
  end.

(** what the theorem observes of a run: the final machine state and the kernel panic (the arguments of the call of
    nonRecoverablePageFault that ended the run), if any *)
Definition panic_of (tr : list gcall) : option (list garg) :=
  match tr with
  | GCall name args :: _ => if String.eqb name "nonRecoverablePageFault" then Some args else None
  | [] => None
  end.
Definition fres (r : gres (go_vmm_world * unit)) : gres (st * option (list garg)) :=
  match r with
  | GOk (w, _) => GOk (f_world_mem w, panic_of (f_world_trace w))
  | GPanic => GPanic
  | GFuel => GFuel
  end.
Definition fault_res (addr regs : N) (r : R (st * N)) : gres (st * option (list garg)) :=
  match r with
  | Stray => GPanic
  | Ok (s', out) =>
      GOk (s', if out =? 0 then None else Some [GNum addr; GNum regs; err_arg (P.err_of (out - PANIC))])
  end.

Lemma keeps_cpy s src dst : P.keeps s (set_mem s (cpy (mem s) src dst)).
Proof.
  repeat split. intros H f' i'. unfold set_mem. cbn [mem]. rewrite rd_cpy.
  destruct (f' =? dst); apply H.
Qed.

(** the condition under which the model (the leaf entry resolved once, before the copy) and the code (the pointer
    dereferenced again after the temporary mapping has come and gone) agree *)
Definition fault_stable (addr : N) (s : st) : Prop :=
  let fva := frame_addr (page_from_addr addr) in
  forall p f i s1 cp s2 page src dst s3 e3,
    In (last_level, p) (walk_items fva) -> resolve s p = Some (f, i) ->
    fault_walk go_levels 0 vmm_pdtVirtualAddr fva s None = Ok (Some (f, i)) ->
    negb (has_flags (rd (mem s) f i) vmm_FlagRW) && has_flags (rd (mem s) f i) vmm_FlagCopyOnWrite = true ->
    alloc s = (s1, Some cp) -> map_temporary cp s1 = Ok (s2, 0, page) ->
    resolve_page s2 fva = Some src -> resolve_page s2 (frame_addr page) = Some dst ->
    unmap_page page (set_mem s2 (cpy (mem s2) src dst)) = Ok (s3, e3) ->
    resolve s3 p = Some (f, i) /\ M.entry_stable s3 p f i.

Ltac wsimp := cbn [f_world_trace f_world_mem set_f_world_trace set_f_world_mem].

Definition fw_rel (s : st) (tr : list gcall) (all : list (N * N)) (g : gres (go_vmm_world * N)) (r : R (option (N * N))) : Prop :=
  match g, r with
  | GPanic, Stray => True
  | GOk (w, p), Ok None => w = W tr s /\ p = 0
  | GOk (w, p), Ok (Some fi) => w = W tr s /\ p <> 0 /\ resolve s p = Some fi /\ In (last_level, p) all
  | _, _ => False
  end.

Theorem fault_handler_is_translation addr regs s tr0 :
  addr < two64 -> P.mem_w64 s -> fault_stable addr s ->
  fres (go_vmm_pageFaultHandler (W tr0 s) regs P.o_flush o_memcopy P.o_maptemp M.o_alloc o_nonrec (o_cr2 addr) P.o_unmap)
  = fault_res addr regs (page_fault addr s).
Proof.
  intros Ha Hw Hst. unfold go_vmm_pageFaultHandler, page_fault.
  unfold go_vmm_world_seam at 1. wsimp. cbn [o_cr2]. wsimp.
  rewrite (gw64_small addr Ha), (page_from_addr_any addr Ha), page_addr_any.
  set (fva := frame_addr (page_from_addr addr)) in *.
  set (tr1 := GCall "readCR2Fn" [] :: tr0).
  cbv zeta.
  match goal with |- context [gvisit ?f _ _] => set (clo := f) end.
  assert (HI : forall lv level ta p pe,
             level + N.of_nat (length lv) = 4 ->
             (forall x, In x (walk_items_from lv level ta fva) -> In x (walk_items fva)) ->
             match pe with None => p = 0 | Some fi => p <> 0 /\ resolve s p = Some fi /\ In (last_level, p) (walk_items fva) end ->
             fw_rel s tr1 (walk_items fva) (gvisit clo (walk_items_from lv level ta fva) (W tr1 s, p))
                    (fault_walk lv level ta fva s pe)).
  { induction lv as [|[sh bits] rest IH]; intros level ta p pe Hlen Hin Hp.
    { cbn [walk_items_from gvisit fault_walk]. unfold fw_rel. destruct pe as [fi|]; [|split; [reflexivity|exact Hp]].
      destruct Hp as (H1 & H2 & H3). repeat split; assumption. }
    cbn [walk_items_from gvisit fault_walk].
    set (ea := entry_addr ta fva sh bits) in *.
    unfold clo at 1. cbv beta iota.
    change (gsub 8 vmm_pageLevels 1) with last_level.
    unfold go_vmm_world_load_virt, vload. wsimp.
    destruct (resolve s ea) as [[f i]|] eqn:Er; [|exact I].
    assert (HP : vmm_FlagPresent < two64) by reflexivity.
    rewrite (has_flags_any _ _ (Hw f i) HP). cbv zeta.
    assert (Hea : In (level, ea) (walk_items fva)) by (apply Hin; cbn [walk_items_from In]; left; reflexivity).
    assert (Hin' : forall x, In x (walk_items_from rest (level + 1) (shl64 ea bits) fva) -> In x (walk_items fva))
      by (intros x Hx; apply Hin; cbn [walk_items_from In]; right; exact Hx).
    destruct (has_flags (rd (mem s) f i) vmm_FlagPresent) eqn:Epr.
    - rewrite andb_true_r.
      destruct (level =? last_level) eqn:Elv.
      + apply IH; [cbn [length] in Hlen; lia | exact Hin' |].
        split; [eapply walk_items_nonzero; exact Hea|]. split; [exact Er|].
        apply N.eqb_eq in Elv. rewrite <- Elv. exact Hea.
      + apply IH; [cbn [length] in Hlen; lia | exact Hin' | exact Hp].
    - rewrite andb_false_r. cbn. destruct pe as [fi|]; [|split; [reflexivity|exact Hp]].
      destruct Hp as (H1 & H2 & H3). repeat split; assumption. }
  specialize (HI go_levels 0 vmm_pdtVirtualAddr 0 None eq_refl (fun x H => H) eq_refl).
  fold (walk_items fva) in HI.
  unfold fw_rel in HI.
  change (set_f_world_mem (set_f_world_trace (W tr0 s) tr1) s) with (W tr1 s).
  destruct (gvisit clo (walk_items fva) (W tr1 s, 0)) as [[w p]| |];
    destruct (fault_walk go_levels 0 vmm_pdtVirtualAddr fva s None) as [[[f i]|]|] eqn:Efw; try contradiction; try reflexivity.
  2:{ destruct HI as [-> ->]. cbn [N.eqb negb]. unfold go_vmm_world_seam. wsimp. reflexivity. }
  destruct HI as (-> & Hp0 & Hr & Hin).
  apply N.eqb_neq in Hp0. rewrite Hp0. cbn [negb].
  unfold go_vmm_world_load_virt at 1 2, vload. wsimp. rewrite Hr.
  assert (HRW : vmm_FlagRW < two64) by reflexivity.
  assert (HCW : vmm_FlagCopyOnWrite < two64) by reflexivity.
  rewrite (has_flags_any _ _ (Hw f i) HRW), (has_flags_any _ _ (Hw f i) HCW).
  set (e := rd (mem s) f i) in *.
  destruct (negb (has_flags e vmm_FlagRW)) eqn:Enrw; cbn [andb].
  2:{ unfold go_vmm_world_seam. wsimp. reflexivity. }
  destruct (has_flags e vmm_FlagCopyOnWrite) eqn:Ecow.
  2:{ unfold go_vmm_world_seam. wsimp. reflexivity. }
  assert (Hcw : negb (has_flags (rd (mem s) f i) vmm_FlagRW) && has_flags (rd (mem s) f i) vmm_FlagCopyOnWrite = true)
    by (fold e; rewrite Enrw, Ecow; reflexivity).
  unfold go_vmm_world_seam at 1. wsimp. unfold M.o_alloc.
  destruct (alloc s) as [s1 [cp|]] eqn:Ea.
  2:{ cbn [gerr_eqb negb P.err_of]. unfold go_vmm_world_seam. wsimp. reflexivity. }
  cbn [gerr_eqb negb]. wsimp.
  unfold go_vmm_world_seam at 1. wsimp. cbn [P.o_maptemp].
  destruct (map_temporary cp s1) as [[[s2 err] page]|] eqn:Emt; [|reflexivity].
  rewrite M.err_of_nil.
  destruct (err =? 0) eqn:Eerr; cbn [negb].
  2:{ unfold go_vmm_world_seam. wsimp. cbn [o_nonrec fres fault_res panic_of String.eqb Ascii.eqb Bool.eqb].
      apply N.eqb_neq in Eerr.
      assert (E1 : (PANIC + err =? 0) = false) by (apply N.eqb_neq; unfold PANIC; lia).
      rewrite E1. replace (PANIC + err - PANIC) with err by lia. reflexivity. }
  apply N.eqb_eq in Eerr. subst err.
  rewrite page_addr_any.
  unfold go_vmm_world_seam at 1. wsimp. cbn [o_memcopy]. rewrite N.eqb_refl.
  destruct (resolve_page s2 fva) as [src|] eqn:Es; [|reflexivity].
  destruct (resolve_page s2 (frame_addr page)) as [dst|] eqn:Ed; [|reflexivity].
  wsimp.
  unfold go_vmm_world_seam at 1. wsimp. cbn [P.o_unmap].
  destruct (unmap_page page (set_mem s2 (cpy (mem s2) src dst))) as [[s3 e3]|] eqn:Eu; cbn [P.lift_op]; [|reflexivity].
  wsimp.
  destruct (Hst p f i s1 cp s2 page src dst s3 e3 Hin Hr Efw Hcw Ea Emt Es Ed Eu) as [Hr3 Hes].
  assert (Hw3 : P.mem_w64 s3).
  { apply (P.unmap_page_keeps _ _ _ _ Eu). apply keeps_cpy. apply (P.map_temporary_keeps _ _ _ _ _ Emt).
    apply (P.keeps_alloc _ _ _ Ea). exact Hw. }
  unfold go_vmm_world_load_virt, go_vmm_world_store_virt, vload, vstore. wsimp.
  rewrite Hr3. wsimp.
  rewrite (clear_flags_any _ _ (Hw3 f i) HCW).
  rewrite (Hes _), M.rd_wr_st. wsimp.
  change (N.lor vmm_FlagPresent vmm_FlagRW) with P_RW.
  rewrite (set_flags_any _ P_RW (P.clear_flags_lt _ _ (Hw3 f i)) P.P_RW_lt).
  rewrite P.wr_st_wr_st, (Hes _), M.rd_wr_st. wsimp.
  rewrite (set_frame_any _ cp (P.set_flags_lt _ _ (P.clear_flags_lt _ _ (Hw3 f i)) P.P_RW_lt)).
  rewrite P.wr_st_wr_st.
  unfold go_vmm_world_seam. wsimp. cbn [P.o_flush]. wsimp.
  reflexivity.
Qed.
