(** C04: the per-operation theorems over the address space the software MMU sees. *)
From Coq Require Import NArith ZArith Lia List Bool.
From Coq Require Import ZifyBool ZifyN ZifyNat.
From FF Require Import Lib.Word Gen.Consts_mm_vmm Vmm.Region Vmm.Pt Vmm.PtMem Vmm.PtArith Vmm.PtTree Vmm.PtMap Vmm.PtOps.
Import ListNotations.
Local Open Scope N_scope.
Ltac Zify.zify_post_hook ::= Z.div_mod_to_equations.

Lemma translation_lookP s T q :
  translation s T q = match lookP s T (ixs q) with
                      | Some e => Some (hw_frame e, N.ldiff e vmm_ptePhysPageMask)
                      | None => None
                      end.
Proof.
  unfold translation, aspace, lookP. destruct (look s T (ixs q)) as [e|]; [|reflexivity].
  destruct (hw_P e); reflexivity.
Qed.

(** same page (modulo the bits the walk ignores) *)
Definition same_page (p q : N) : Prop := ixs p = ixs q.

(** * The Go walk's entry addresses, as the code computes them *)
Fixpoint go_entry_addr (lv : list (N * N)) (tableAddr va : N) (k : nat) : N :=
  match lv with
  | [] => 0
  | (sh, bits) :: rest =>
      let ea := entry_addr tableAddr va sh bits in
      match k with O => ea | S k' => go_entry_addr rest (shl64 ea bits) va k' end
  end.

(** [walk]'s level-k entry address for [va] *)
Definition walk_entry_addr (va : N) (k : nat) : N := go_entry_addr go_levels vmm_pdtVirtualAddr va k.

Lemma walk_entry_addr_win va k :
  (k <= 3)%nat ->
  walk_entry_addr va k = add64 (wwin (firstn k (ixs (N.shiftr va 12)))) (shl64 (nth k (ixs (N.shiftr va 12)) 0) 3).
Proof.
  intros Hk. unfold walk_entry_addr. rewrite go_levels_val, <- wwin_nil.
  destruct (entry_index_hw va) as (E0 & E1 & E2 & E3).
  set (pg := N.shiftr va 12) in *.
  assert (L: forall i, i < 512 -> True) by auto.
  pose proof (hw_idx_lt pg 0) as H0. pose proof (hw_idx_lt pg 1) as H1. pose proof (hw_idx_lt pg 2) as H2.
  assert (N0: shl64 (entry_addr (wwin []) va 39 9) 9 = wwin [hw_idx pg 0]).
  { unfold entry_addr. rewrite pointer_shift_val, E0. apply (wwin_next [] (hw_idx pg 0)); [cbn; lia | constructor | exact H0]. }
  assert (N1: shl64 (entry_addr (wwin [hw_idx pg 0]) va 30 9) 9 = wwin [hw_idx pg 0; hw_idx pg 1]).
  { unfold entry_addr. rewrite pointer_shift_val, E1. apply (wwin_next [hw_idx pg 0] (hw_idx pg 1)); [cbn; lia | repeat constructor; assumption | exact H1]. }
  assert (N2: shl64 (entry_addr (wwin [hw_idx pg 0; hw_idx pg 1]) va 21 9) 9 = wwin [hw_idx pg 0; hw_idx pg 1; hw_idx pg 2]).
  { unfold entry_addr. rewrite pointer_shift_val, E2. apply (wwin_next [hw_idx pg 0; hw_idx pg 1] (hw_idx pg 2)); [cbn; lia | repeat constructor; assumption | exact H2]. }
  destruct k as [|[|[|[|k]]]]; try lia; cbn [go_entry_addr firstn nth ixs].
  - unfold entry_addr. rewrite pointer_shift_val, E0. reflexivity.
  - rewrite N0. unfold entry_addr. rewrite pointer_shift_val, E1. reflexivity.
  - rewrite N0, N1. unfold entry_addr. rewrite pointer_shift_val, E2. reflexivity.
  - rewrite N0, N1, N2. unfold entry_addr. rewrite pointer_shift_val, E3. reflexivity.
Qed.

(** [recursive_entry]: with the recursive slot of the active root [A] pointing at root [T] (whose own
    slot 511 points at itself), the level-k entry address the walk computes for [va] resolves, through
    the MMU, to entry index_k(va) of the level-k table on [va]'s path in [T]'s tree. *)
Theorem recursive_entry s A T va k t :
  N.shiftr (cr3 s) 12 = A -> Rec s A T -> (k <= 3)%nat ->
  follow s T (firstn k (ixs (N.shiftr va 12))) = Some t -> backed s t = true ->
  resolve s (walk_entry_addr va k) = Some (t, nth k (ixs (N.shiftr va 12)) 0).
Proof.
  intros Hcr HR Hk Hf Hb. rewrite walk_entry_addr_win by exact Hk.
  eapply resolve_entry; try eassumption.
  - rewrite firstn_length, ixs_length. lia.
  - apply Forall_forall. intros x Hx. apply in_firstn in Hx.
    apply (proj1 (Forall_forall _ _) (ixs_lt (N.shiftr va 12))). exact Hx.
  - apply (proj1 (Forall_forall _ _) (ixs_lt (N.shiftr va 12))). apply nth_In. rewrite ixs_length. lia.
Qed.

(** * Map *)
Lemma lookP_ixs_other s s' T pre_unused q page :
  (forall is', length is' = 4%nat -> Forall (fun x => x < 512) is' -> hd 0 is' <> 511 ->
               (pre_unused = true -> is' <> ixs page) -> lookP s' T is' = lookP s T is') ->
  hw_idx q 0 <> 511 -> (pre_unused = true -> ixs q <> ixs page) -> lookP s' T (ixs q) = lookP s T (ixs q).
Proof.
  intros H H511 Hne. apply H; [reflexivity | apply ixs_lt | exact H511 | exact Hne].
Qed.

Theorem map_ok s A T own page frame flags :
  Inv s A T own -> hw_idx page 0 <> 511 -> zero_guard s frame flags = false ->
  exists s' err own',
    map_page page frame flags s = Ok (s', err) /\ Inv s' A T own' /\ same_env s s' /\
    (err = 0 \/ err = E_ALLOC) /\
    (err = 0 ->
       aspace s' T page = Some (set_flags (set_frame 0 frame) flags) /\
       (forall q, hw_idx q 0 <> 511 -> ~ same_page q page -> translation s' T q = translation s T q) /\
       flog s' = frame_addr page :: flog s) /\
    (err <> 0 ->
       (forall q, hw_idx q 0 <> 511 -> translation s' T q = translation s T q) /\ flog s' = flog s) /\
    (* frames that are not page tables of this space are untouched *)
    (forall f i, own' f = None -> ent s' f i = ent s f i) /\
    (* every newly created table is empty except for the entry on the page's path *)
    (forall f q i, own f = None -> own' f = Some q -> ent s' f i <> 0 -> exists j, q ++ [i] = firstn j (ixs page)) /\
    (* new tables come from the allocator, in order *)
    (exists n, orc s' = skipn n (orc s) /\
               forall f, own' f = own f \/ (own f = None /\ In f (firstn n (orc s)) /\ f <> 0)) /\
    (* entries of existing tables off the page's path are untouched, so are present upper-level entries *)
    (forall f p i, own f = Some p -> p ++ [i] <> firstn (S (length p)) (ixs page) -> ent s' f i = ent s f i) /\
    (forall f p i, own f = Some p -> (length p < 3)%nat -> hw_P (ent s f i) = true -> ent s' f i = ent s f i) /\
    (* at most three frames are taken; with three usable frames at the head of the oracle Map succeeds *)
    (length (orc s) <= length (orc s') + 3)%nat /\
    ((3 <= length (orc s))%nat -> Forall (fun x => x <> 0) (firstn 3 (orc s)) -> err = 0).
Proof.
  intros HI H511 Hg.
  destruct (map_page_spec A T page frame flags s own HI H511 Hg) as (s' & err & own' & Hrun & HQ).
  destruct HQ as (QI & Qenv & Qerr & (n & Qn & Qnb & Qown) & Qfr & Qt & Qlook & Qoth & Qf1 & Qf2 & Qnew & Qoff & Qpres & Qen).
  exists s', err, own'. split; [exact Hrun|]. split; [exact QI|]. split; [exact Qenv|]. split; [exact Qerr|].
  split.
  { intros He0. split; [exact (Qlook He0)|]. split; [|exact (Qf1 He0)].
    intros q Hq Hne. rewrite !translation_lookP.
    rewrite (Qoth (ixs q)); [reflexivity | reflexivity | apply ixs_lt | exact Hq |].
    intros _ E. apply Hne. exact E. }
  split.
  { intros Hne0. split; [|exact (Qf2 Hne0)].
    intros q Hq. rewrite !translation_lookP.
    rewrite (Qoth (ixs q)); [reflexivity | reflexivity | apply ixs_lt | exact Hq |].
    intros E0. congruence. }
  split.
  { intros f i Hn. apply Qfr. rewrite Hn. cbn. tauto. }
  split; [exact Qnew|].
  split.
  { exists n. split; [exact Qn|]. intros f. destruct (Qown f) as [E | (E1 & E2 & E3 & _)]; [left; exact E | right; repeat split; assumption]. }
  split; [exact Qoff|]. split; [exact Qpres|].
  split; [rewrite Qn, skipn_length; cbn [length] in Qnb; lia | exact Qen].
Qed.

(** the leaf entry is exactly frame<<12 | flags, and reads back as (frame, flags) *)
Lemma leaf_exact frame flags :
  frame < 2 ^ 40 -> N.land flags vmm_ptePhysPageMask = 0 ->
  set_flags (set_frame 0 frame) flags = N.lor (N.shiftl frame 12) flags /\
  hw_frame (set_flags (set_frame 0 frame) flags) = frame /\
  N.ldiff (set_flags (set_frame 0 frame) flags) vmm_ptePhysPageMask = flags /\
  hw_P (set_flags (set_frame 0 frame) flags) = N.testbit flags 0.
Proof.
  intros Hf Hfl.
  assert (H52: frame < 2 ^ 52) by (change (2 ^ 40) with 1099511627776 in Hf; change (2 ^ 52) with 4503599627370496; lia).
  split; [apply mk_entry_val; exact H52|]. split; [apply mk_entry_frame; assumption|]. split; [|apply mk_entry_P; exact H52].
  rewrite mk_entry_val by exact H52.
  apply N.bits_inj. intros n. rewrite N.ldiff_spec, N.lor_spec.
  assert (Hm: N.testbit vmm_ptePhysPageMask n = (12 <=? n) && (n <? 52)).
  { rewrite phys_mask_val. destruct (N.leb_spec 12 n) as [H|H].
    - rewrite N.shiftl_spec_high' by exact H. cbn [andb].
      destruct (N.ltb_spec n 52) as [H2|H2]; [rewrite N.ones_spec_low by lia | rewrite N.ones_spec_high by lia]; reflexivity.
    - rewrite N.shiftl_spec_low by exact H. reflexivity. }
  assert (Hfb: N.testbit flags n && N.testbit vmm_ptePhysPageMask n = false).
  { apply (f_equal (fun x => N.testbit x n)) in Hfl. rewrite N.land_spec, N.bits_0 in Hfl. exact Hfl. }
  rewrite Hm in *.
  destruct (N.leb_spec 12 n) as [H|H]; cbn [andb] in *.
  - destruct (N.ltb_spec n 52) as [H2|H2]; cbn [negb andb] in *.
    + rewrite andb_false_r. rewrite andb_true_r in Hfb. rewrite Hfb. reflexivity.
    + rewrite andb_true_r. rewrite N.shiftl_spec_high' by exact H.
      replace (N.testbit frame (n - 12)) with false; [reflexivity|].
      symmetry. apply N.bits_above_log2.
      destruct (N.eq_dec frame 0) as [->|Hz]; [cbn; lia|].
      apply N.log2_lt_pow2; [lia|]. eapply N.lt_le_trans; [exact Hf|]. apply N.pow_le_mono_r; lia.
  - rewrite N.shiftl_spec_low by exact H. rewrite andb_true_r. reflexivity.
Qed.

(** * Unmap *)
Lemma clear_present_P e : hw_P (clear_flags e vmm_FlagPresent) = false.
Proof.
  unfold hw_P, clear_flags, andnot. rewrite flag_present_val, N.ldiff_spec. cbn. apply andb_false_r.
Qed.

Lemma aspace_follow s T page :
  aspace s T page = match follow s T (firstn 3 (ixs page)) with
                    | Some l => if backed s l then Some (ent s l (hw_idx page 3)) else None
                    | None => None
                    end.
Proof. unfold aspace. rewrite ixs_split at 1. apply look_follow. Qed.

Lemma ixs_eq_split p q : ixs p <> ixs q -> firstn 3 (ixs p) ++ [hw_idx p 3] <> firstn 3 (ixs q) ++ [hw_idx q 3].
Proof. intros H. rewrite <- !ixs_split. exact H. Qed.

Theorem unmap_ok s A T own page :
  Inv s A T own -> hw_idx page 0 <> 511 ->
  exists s' err,
    unmap_page page s = Ok (s', err) /\ (err = 0 \/ err = E_INVALID) /\ Inv s' A T own /\ same_env s s' /\ orc s' = orc s /\
    (err = E_INVALID -> s' = s /\ aspace s T page = None) /\
    (err = 0 ->
       exists e, aspace s T page = Some e /\ aspace s' T page = Some (clear_flags e vmm_FlagPresent) /\
                 translation s' T page = None /\
                 (forall q, hw_idx q 0 <> 511 -> ~ same_page q page -> aspace s' T q = aspace s T q) /\
                 flog s' = frame_addr page :: flog s /\
                 (forall f i, own f = None -> ent s' f i = ent s f i) /\
                 (forall f p i, own f = Some p -> p ++ [i] <> ixs page -> ent s' f i = ent s f i)).
Proof.
  intros HI H511. unfold unmap_page.
  rewrite (unmap_walk_spec A T page (frame_addr page) (frame_addr_idx page) s own HI H511).
  rewrite (unmap_res_top (frame_addr page) s A T own page HI H511).
  pose proof (inv_wf _ _ _ _ HI) as W.
  destruct (follow s T (firstn 3 (ixs page))) as [l|] eqn:Ef.
  - set (e := ent s l (hw_idx page 3)).
    assert (Hhd: hd 0 (firstn 3 (ixs page)) <> 511) by exact H511.
    destruct (leaf_write s A T own l (firstn 3 (ixs page)) (hw_idx page 3) (clear_flags e vmm_FlagPresent) (frame_addr page)
                HI Ef eq_refl (firstn3_lt page) Hhd) as (L1 & L2 & L3 & L4 & L5 & L6 & L7 & L8 & L9).
    eexists _, E_OK. split; [reflexivity|]. split; [left; reflexivity|]. split; [exact L1|]. split; [exact L2|]. split; [exact L3|].
    split; [intros H; discriminate|]. intros _.
    destruct (wf_owned _ _ _ W l _ L7) as (Hb & _).
    exists e. split; [rewrite aspace_follow, Ef, Hb; reflexivity|].
    split; [unfold aspace; rewrite ixs_split at 1; exact L8|].
    split.
    { unfold translation, aspace. rewrite ixs_split at 1. rewrite L8, clear_present_P. reflexivity. }
    split.
    { intros q Hq Hne. unfold aspace. rewrite (ixs_split q). apply L9; try reflexivity.
      - apply firstn3_lt.
      - exact Hq.
      - apply ixs_eq_split. exact Hne. }
    split; [exact L4|].
    split.
    { intros f i Hn. apply L5. left. intros E. rewrite E, L7 in Hn. discriminate. }
    intros f p i Hp Hne. apply L5.
    destruct (N.eq_dec f l) as [Efl|]; [|left; assumption]. right. intros Ei. apply Hne.
    rewrite Efl, L7 in Hp. inversion Hp as [Ep]. rewrite Ei. symmetry. apply ixs_split.
  - exists s, E_INVALID. split; [reflexivity|]. split; [right; reflexivity|]. split; [exact HI|].
    split; [apply same_env_refl|]. split; [reflexivity|].
    split; [|intros H; discriminate].
    intros _. split; [reflexivity|]. rewrite aspace_follow, Ef. reflexivity.
Qed.

(** * Translate *)
Lemma page_offset_val va : page_offset va = va mod 4096.
Proof.
  unfold page_offset. change (N.shiftl 1 (nth (N.to_nat (vmm_pageLevels - 1)) vmm_pageLevelShifts 0) - 1) with (N.ones 12).
  apply N.land_ones.
Qed.

Theorem translate_ok s A T own va :
  Inv s A T own -> hw_idx (N.shiftr va 12) 0 <> 511 ->
  translate va s = Ok (match translation s T (N.shiftr va 12) with
                       | Some (f, _) => (E_OK, f * 4096 + va mod 4096)
                       | None => (E_INVALID, 0)
                       end).
Proof.
  intros HI H511. unfold translate.
  rewrite (pte_walk_spec A T (N.shiftr va 12) va (fun k _ => eq_refl) s own HI H511).
  rewrite (dloc_top s A T own _ HI H511).
  unfold translation. rewrite aspace_follow.
  pose proof (inv_wf _ _ _ _ HI) as W.
  destruct (follow s T (firstn 3 (ixs (N.shiftr va 12)))) as [l|] eqn:Ef; [|reflexivity].
  assert (Ho: own l = Some (firstn 3 (ixs (N.shiftr va 12)))).
  { change (firstn 3 (ixs (N.shiftr va 12))) with ([] ++ firstn 3 (ixs (N.shiftr va 12))).
    eapply follow_own; try eassumption.
    - exact (wf_root _ _ _ W).
    - apply firstn3_lt.
    - cbn. lia. }
  destruct (wf_owned _ _ _ W l _ Ho) as (Hb & _). rewrite Hb.
  fold (ent s l (hw_idx (N.shiftr va 12) 3)).
  destruct (hw_P (ent s l (hw_idx (N.shiftr va 12) 3))); [|reflexivity].
  fold (ent s l (hw_idx (N.shiftr va 12) 3)). rewrite pte_frame_hw, page_offset_val.
  set (e := ent s l (hw_idx (N.shiftr va 12) 3)).
  pose proof (hw_frame_lt e) as Hlt. change (2 ^ 40) with 1099511627776 in Hlt.
  rewrite frame_addr_small by (change (2 ^ 52) with 4503599627370496; lia).
  rewrite N.shiftl_mul_pow2. change (2 ^ 12) with 4096.
  unfold add64. rewrite w64_small by (unfold two64; lia). reflexivity.
Qed.
