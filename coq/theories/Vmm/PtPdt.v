(** C04 [pdt_inactive_frame]: PageDirectoryTable.Map / Unmap on a table that is not active. *)
From Coq Require Import NArith ZArith Lia List Bool.
From Coq Require Import ZifyBool ZifyN ZifyNat.
From FF Require Import Lib.Word Gen.Consts_mm_vmm Vmm.Region Vmm.Pt Vmm.PtMem Vmm.PtArith Vmm.PtTree Vmm.PtMap Vmm.PtOps Vmm.PtTheorems.
Import ListNotations.
Local Open Scope N_scope.
Ltac Zify.zify_post_hook ::= Z.div_mod_to_equations.

(** [WF] only depends on the entries of the owned tables *)
Lemma WF_ent_eq s s' T own :
  WF s T own -> lo s' = lo s -> cnt s' = cnt s ->
  (forall f p i, own f = Some p -> ent s' f i = ent s f i) -> WF s' T own.
Proof.
  intros [W1 W2 W3 W4 W5] Hlo Hcnt He.
  assert (Hbk: forall f, backed s' f = backed s f) by (intros; unfold backed; rewrite Hlo, Hcnt; reflexivity).
  split.
  - rewrite Hlo, Hcnt. exact W1.
  - exact W2.
  - intros t p Ho. rewrite Hbk. exact (W3 t p Ho).
  - rewrite (He T [] 511 W2). exact W4.
  - intros t p i Ho Hl Hi Hne. rewrite (He t p i Ho). exact (W5 t p i Ho Hl Hi Hne).
Qed.

Lemma aspace_ent_eq s s' T own q :
  WF s T own -> lo s' = lo s -> cnt s' = cnt s ->
  (forall f p i, own f = Some p -> ent s' f i = ent s f i) -> hw_idx q 0 <> 511 ->
  aspace s' T q = aspace s T q.
Proof.
  intros W Hlo Hcnt He H511. unfold aspace.
  eapply (look_frame s s' T own T []); try eassumption.
  - exact (wf_root _ _ _ W).
  - intros f p i Hp _ _. exact (He f p i Hp).
  - apply ixs_lt.
  - cbn. lia.
Qed.

(** two address spaces: [A] active with tree [ownA], [T] not active with tree [own] *)
Record Inv2 (s : st) (A T : N) (ownA own : ownmap) : Prop := {
  i2_wfA : WF s A ownA;
  i2_wfT : WF s T own;
  i2_cr3 : N.shiftr (cr3 s) 12 = A;
  i2_disj : forall f, ownA f <> None -> own f = None;
  i2_fresh : Fresh s own A;
  i2_freshA : forall f, In f (orc s) -> f <> 0 -> ownA f = None
}.

(** the contract of an operation on [T]'s tree through the recursive window *)
Definition TOp (op : st -> R (st * N)) (A T : N) (own : ownmap) (s s' : st) (err : N) (own' : ownmap) : Prop :=
  op s = Ok (s', err) /\ Inv s' A T own' /\ same_env s s' /\
  (forall f i, own' f = None -> ent s' f i = ent s f i) /\
  (exists n, orc s' = skipn n (orc s) /\
             forall f, own' f = own f \/ (own f = None /\ In f (firstn n (orc s)) /\ f <> 0)).

Definition lea_of (A : N) : N := add64 (frame_addr A) last_entry_off.

Lemma phys_lea s A : A < 2 ^ 40 -> backed s A = true -> phys s (lea_of A) = Some (A, 511).
Proof.
  intros HA Hb. unfold lea_of, phys.
  rewrite frame_addr_small by (change (2 ^ 40) with 1099511627776 in HA; change (2 ^ 52) with 4503599627370496; lia).
  rewrite last_entry_off_val, N.shiftl_mul_pow2. change (2 ^ 12) with 4096.
  unfold add64. rewrite w64_small by (unfold two64; change (2 ^ 40) with 1099511627776 in HA; lia).
  assert (E1: N.land (A * 4096 + 4088) 7 = 0).
  { change 7 with (N.ones 3). rewrite N.land_ones. change (2 ^ 3) with 8. lia. }
  assert (E2: N.shiftr (A * 4096 + 4088) 12 = A).
  { rewrite N.shiftr_div_pow2. change (2 ^ 12) with 4096. lia. }
  assert (E3: N.shiftr (N.land (A * 4096 + 4088) 4095) 3 = 511).
  { change 4095 with (N.ones 12). rewrite N.land_ones, N.shiftr_div_pow2. change (2 ^ 12) with 4096. change (2 ^ 3) with 8. lia. }
  rewrite E1, E2, E3, Hb. reflexivity.
Qed.

Theorem with_pdt_inactive s A T ownA own slot op (Q : st -> st -> N -> ownmap -> Prop) :
  Inv2 s A T ownA own -> pdts s slot = T ->
  (forall s1, Inv s1 A T own -> same_env s s1 -> orc s1 = orc s ->
              exists s2 err own', TOp op A T own s1 s2 err own' /\ Q s1 s2 err own') ->
  exists s1 s2 s3 err own',
    with_pdt slot op s = Ok (s3, err) /\ Q s1 s2 err own' /\
    (* the three phases *)
    s1 = flush (wr_st s A 511 (set_frame (ent s A 511) T)) (lea_of A) /\
    TOp op A T own s1 s2 err own' /\
    s3 = flush (wr_st s2 A 511 (ent s A 511)) (lea_of A) /\
    (* the active address space is bit-for-bit what it was *)
    (forall f i, ownA f <> None -> ent s3 f i = ent s f i) /\
    (forall q, hw_idx q 0 <> 511 -> aspace s3 A q = aspace s A q) /\
    (* T's tree is what the operation left *)
    (forall f i, own' f <> None -> ent s3 f i = ent s2 f i) /\
    (forall q, hw_idx q 0 <> 511 -> aspace s3 T q = aspace s2 T q) /\
    (forall q, hw_idx q 0 <> 511 -> aspace s1 T q = aspace s T q) /\
    (* both flushes of the patched slot are logged around the operation's own *)
    flog s3 = lea_of A :: flog s2 /\ flog s1 = lea_of A :: flog s /\
    Inv2 s3 A T ownA own'.
Proof.
  intros [WA WT Hcr Hdisj HF HFA] Hslot Hop.
  assert (HoA: ownA A = Some []) by exact (wf_root _ _ _ WA).
  assert (HownA: own A = None) by (apply Hdisj; rewrite HoA; discriminate).
  assert (HAT: A <> T) by (intros E; rewrite E, (wf_root _ _ _ WT) in HownA; discriminate).
  destruct (wf_owned _ _ _ WA A [] HoA) as (HbA & _).
  assert (HA40: A < 2 ^ 40) by (eapply backed_lt40; [exact (wf_arena _ _ _ WA) | exact HbA]).
  assert (HoT: own T = Some []) by exact (wf_root _ _ _ WT).
  destruct (wf_owned _ _ _ WT T [] HoT) as (HbT & _).
  assert (HT40: T < 2 ^ 40) by (eapply backed_lt40; [exact (wf_arena _ _ _ WT) | exact HbT]).
  destruct (wf_rec _ _ _ WA) as [UA FA].
  set (e := ent s A 511) in *.
  set (lea := lea_of A).
  set (s1 := flush (wr_st s A 511 (set_frame e T)) lea).
  assert (He1: forall f i, ent s1 f i = if (f =? A) && (i =? 511) then set_frame e T else ent s f i).
  { intros. unfold s1. rewrite ent_flush. apply ent_wr. }
  assert (Hn1: forall f, f <> A -> forall i, ent s1 f i = ent s f i).
  { intros f Hf i. rewrite He1. destruct (N.eqb_spec f A); [congruence|reflexivity]. }
  assert (HI1: Inv s1 A T own).
  { split.
    - apply (WF_ent_eq s s1 T own WT); try reflexivity.
      intros f p i Hp. apply Hn1. intros E. rewrite E, HownA in Hp. discriminate.
    - exact Hcr.
    - unfold Rec. replace (backed s1 A) with (backed s A) by reflexivity. replace (backed s1 T) with (backed s T) by reflexivity.
      rewrite HbA, HbT, He1, !N.eqb_refl. cbn [andb].
      rewrite (Hn1 T) by congruence.
      destruct (wf_rec _ _ _ WT) as [UT FT].
      unfold usable in *. rewrite set_frame_P, set_frame_PS, set_frame_frame by exact HT40.
      repeat split; assumption.
    - right. exact HownA.
    - destruct HF as [F1 F2]. split; [exact F1|]. intros f Hin Hz. exact (F2 f Hin Hz). }
  destruct (Hop s1 HI1 ltac:(repeat split) eq_refl) as (s2 & err & own' & (Hrun & HI2 & Henv2 & Hfr2 & (n & Hn & Hown2)) & HQ).
  set (s3 := flush (wr_st s2 A 511 e) lea).
  assert (Hown'A: own' A = None).
  { destruct (Hown2 A) as [E | (_ & Hin & Hz)]; [rewrite E; exact HownA|].
    apply in_firstn in Hin. destruct HF as [_ F2]. destruct (F2 A Hin Hz) as (_ & _ & Hne). congruence. }
  assert (He3: forall f i, ent s3 f i = if (f =? A) && (i =? 511) then e else ent s2 f i).
  { intros. unfold s3. rewrite ent_flush. apply ent_wr. }
  assert (Hn3: forall f, f <> A -> forall i, ent s3 f i = ent s2 f i).
  { intros f Hf i. rewrite He3. destruct (N.eqb_spec f A); [congruence|reflexivity]. }
  assert (E2A: ent s2 A 511 = set_frame e T).
  { rewrite Hfr2 by exact Hown'A. rewrite He1, !N.eqb_refl. reflexivity. }
  assert (Erest: set_frame (ent s2 A 511) A = e).
  { rewrite E2A, set_frame_twice by exact HT40. apply set_frame_same. exact FA. }
  assert (Hrun3: with_pdt slot op s = Ok (s3, err)).
  { unfold with_pdt. rewrite Hslot, page_shift_val, Hcr.
    destruct (N.eqb_spec A T); [congruence|].
    fold (lea_of A). rewrite (phys_lea s A HA40 HbA).
    fold (ent s A 511). fold e. fold lea. fold s1. rewrite Hrun.
    fold (ent s2 A 511). rewrite Erest. reflexivity. }
  (* the active tree is untouched *)
  assert (HtreeA: forall f i, ownA f <> None -> ent s3 f i = ent s f i).
  { intros f i Hf. rewrite He3.
    destruct (N.eqb_spec f A) as [->|HfA]; cbn [andb].
    - destruct (N.eqb_spec i 511) as [->|Hi]; [reflexivity|].
      rewrite Hfr2 by exact Hown'A. rewrite He1, N.eqb_refl. cbn [andb].
      destruct (N.eqb_spec i 511); [congruence|reflexivity].
    - assert (Hof: own' f = None).
      { destruct (Hown2 f) as [E | (_ & Hin & Hz)]; [rewrite E; apply Hdisj; exact Hf|].
        apply in_firstn in Hin. exfalso. apply Hf. apply HFA; assumption. }
      rewrite Hfr2 by exact Hof. apply Hn1. exact HfA. }
  assert (HtreeT: forall f i, own' f <> None -> ent s3 f i = ent s2 f i).
  { intros f i Hf. apply Hn3. intros E. rewrite E in Hf. congruence. }
  exists s1, s2, s3, err, own'.
  split; [exact Hrun3|]. split; [exact HQ|]. split; [reflexivity|].
  split; [unfold TOp; split; [exact Hrun|]; split; [exact HI2|]; split; [exact Henv2|]; split; [exact Hfr2|]; exists n; split; assumption|].
  split; [reflexivity|]. split; [exact HtreeA|].
  split.
  { intros q Hq. apply (aspace_ent_eq s s3 A ownA q WA); try reflexivity.
    - destruct Henv2 as (E1 & E2 & _). exact E1.
    - destruct Henv2 as (E1 & E2 & _). exact E2.
    - intros f p i Hp. apply HtreeA. rewrite Hp. discriminate.
    - exact Hq. }
  split; [exact HtreeT|].
  split.
  { intros q Hq. apply (aspace_ent_eq s2 s3 T own' q (inv_wf _ _ _ _ HI2)); try reflexivity.
    - intros f p i Hp. apply HtreeT. rewrite Hp. discriminate.
    - exact Hq. }
  split.
  { intros q Hq. apply (aspace_ent_eq s s1 T own q WT); try reflexivity.
    - intros f p i Hp. apply Hn1. intros E. rewrite E, HownA in Hp. discriminate.
    - exact Hq. }
  split; [reflexivity|]. split; [reflexivity|].
  destruct Henv2 as (E1 & E2 & E3 & _).
  split.
  - apply (WF_ent_eq s s3 A ownA WA); [exact E1 | exact E2 |].
    intros f p i Hp. apply HtreeA. rewrite Hp. discriminate.
  - apply (WF_ent_eq s2 s3 T own' (inv_wf _ _ _ _ HI2)); try reflexivity.
    intros f p i Hp. apply HtreeT. rewrite Hp. discriminate.
  - change (cr3 s3) with (cr3 s2). rewrite E3. exact Hcr.
  - intros f Hf.
    destruct (Hown2 f) as [E | (_ & Hin & Hz)]; [rewrite E; apply Hdisj; exact Hf|].
    apply in_firstn in Hin. exfalso. apply Hf. apply HFA; assumption.
  - destruct (inv_fresh _ _ _ _ HI2) as [G1 G2]. split; [exact G1|]. intros f Hin Hz. exact (G2 f Hin Hz).
  - intros f Hin Hz. change (orc s3) with (orc s2) in Hin. rewrite Hn in Hin. change (orc s1) with (orc s) in Hin.
    apply HFA; [|exact Hz]. rewrite <- (firstn_skipn n (orc s)). apply in_or_app. right. exact Hin.
Qed.

Lemma translation_of_aspace s s' T T' q q' : aspace s' T' q' = aspace s T q -> translation s' T' q' = translation s T q.
Proof. unfold translation. intros ->. reflexivity. Qed.

(** pdt_inactive_frame for Map *)
Theorem pdt_map_inactive s A T ownA own slot page frame flags :
  Inv2 s A T ownA own -> pdts s slot = T -> hw_idx page 0 <> 511 -> zero_guard s frame flags = false ->
  exists s3 err own',
    pdt_map slot page frame flags s = Ok (s3, err) /\ Inv2 s3 A T ownA own' /\ (err = 0 \/ err = E_ALLOC) /\
    (forall f i, ownA f <> None -> ent s3 f i = ent s f i) /\
    (forall q, hw_idx q 0 <> 511 -> aspace s3 A q = aspace s A q) /\
    (err = 0 ->
       aspace s3 T page = Some (set_flags (set_frame 0 frame) flags) /\
       (forall q, hw_idx q 0 <> 511 -> ~ same_page q page -> translation s3 T q = translation s T q) /\
       flog s3 = lea_of A :: frame_addr page :: lea_of A :: flog s) /\
    (err <> 0 ->
       (forall q, hw_idx q 0 <> 511 -> translation s3 T q = translation s T q) /\
       flog s3 = lea_of A :: lea_of A :: flog s) /\
    same_env s s3 /\
    (exists n, orc s3 = skipn n (orc s) /\ forall f, own' f = own f \/ (own f = None /\ In f (firstn n (orc s)) /\ f <> 0)) /\
    (length (orc s) <= length (orc s3) + 3)%nat /\
    ((3 <= length (orc s))%nat -> Forall (fun x => x <> 0) (firstn 3 (orc s)) -> err = 0).
Proof.
  intros HI2 Hslot H511 Hg.
  set (Q := fun (s1 s2 : st) (err : N) (own' : ownmap) =>
              ((length (orc s1) <= length (orc s2) + 3)%nat /\
               ((3 <= length (orc s1))%nat -> Forall (fun x => x <> 0) (firstn 3 (orc s1)) -> err = 0)) /\
              (err = 0 \/ err = E_ALLOC) /\
              (err = 0 ->
                 aspace s2 T page = Some (set_flags (set_frame 0 frame) flags) /\
                 (forall q, hw_idx q 0 <> 511 -> ~ same_page q page -> translation s2 T q = translation s1 T q) /\
                 flog s2 = frame_addr page :: flog s1) /\
              (err <> 0 -> (forall q, hw_idx q 0 <> 511 -> translation s2 T q = translation s1 T q) /\ flog s2 = flog s1)).
  destruct (with_pdt_inactive s A T ownA own slot (map_page page frame flags) Q HI2 Hslot) as
      (s1 & s2 & s3 & err & own' & Hrun & HQ & Es1 & HT & Es3 & HtreeA & HaspA & HtreeT & HaspT & Hasp1 & Hfl3 & Hfl1 & HI3).
  { intros s1 HI1 Henv Horc.
    assert (Hg1: zero_guard s1 frame flags = false).
    { unfold zero_guard in *. destruct Henv as (_ & _ & _ & _ & _ & Ez & Ep & _). rewrite Ez, Ep. exact Hg. }
    destruct (map_ok s1 A T own page frame flags HI1 H511 Hg1) as (s2 & err & own' & Hr & HI & He & Herr & Hok & Hfail & Hfr & _ & Hn & _ & _ & Hb1 & Hb2).
    exists s2, err, own'. split; [split; [exact Hr|]; split; [exact HI|]; split; [exact He|]; split; [exact Hfr | exact Hn]|].
    split; [split; assumption|]. split; [exact Herr|]. split; assumption. }
  destruct HQ as ((Hb1 & Hb2) & Herr & Hok & Hfail).
  destruct HT as (Hrun2 & HI2' & Henv2 & Hfr2 & Hn2).
  exists s3, err, own'. split; [exact Hrun|]. split; [exact HI3|]. split; [exact Herr|].
  split; [exact HtreeA|]. split; [exact HaspA|].
  assert (Htr1: forall q, hw_idx q 0 <> 511 -> translation s1 T q = translation s T q).
  { intros q Hq. apply translation_of_aspace. apply Hasp1. exact Hq. }
  assert (Htr3: forall q, hw_idx q 0 <> 511 -> translation s3 T q = translation s2 T q).
  { intros q Hq. apply translation_of_aspace. apply HaspT. exact Hq. }
  split.
  { intros He0. destruct (Hok He0) as (O1 & O2 & O3). split; [rewrite HaspT by exact H511; exact O1|].
    split.
    - intros q Hq Hne. rewrite Htr3, O2, Htr1 by assumption. reflexivity.
    - rewrite Hfl3, O3, Hfl1. reflexivity. }
  split.
  { intros Hne0. destruct (Hfail Hne0) as (O1 & O2). split.
    - intros q Hq. rewrite Htr3, O1, Htr1 by assumption. reflexivity.
    - rewrite Hfl3, O2, Hfl1. reflexivity. }
  split.
  { eapply same_env_trans; [|eapply same_env_trans; [exact Henv2|]].
    - rewrite Es1. repeat split.
    - rewrite Es3. repeat split. }
  assert (Eo1: orc s1 = orc s) by (rewrite Es1; reflexivity).
  assert (Eo3: orc s3 = orc s2) by (rewrite Es3; reflexivity).
  split.
  { destruct Hn2 as (n & Hn & Hown). exists n. rewrite Eo1 in *. split; [|exact Hown]. rewrite Eo3. exact Hn. }
  rewrite Eo1 in *. rewrite Eo3. split; assumption.
Qed.

(** pdt_inactive_frame for Unmap *)
Theorem pdt_unmap_inactive s A T ownA own slot page :
  Inv2 s A T ownA own -> pdts s slot = T -> hw_idx page 0 <> 511 ->
  exists s3 err,
    pdt_unmap slot page s = Ok (s3, err) /\ Inv2 s3 A T ownA own /\ (err = 0 \/ err = E_INVALID) /\
    (forall f i, ownA f <> None -> ent s3 f i = ent s f i) /\
    (forall q, hw_idx q 0 <> 511 -> aspace s3 A q = aspace s A q) /\
    (err = 0 -> translation s3 T page = None /\
                (forall q, hw_idx q 0 <> 511 -> ~ same_page q page -> aspace s3 T q = aspace s T q) /\
                flog s3 = lea_of A :: frame_addr page :: lea_of A :: flog s) /\
    (err = E_INVALID -> aspace s T page = None /\ (forall q, hw_idx q 0 <> 511 -> aspace s3 T q = aspace s T q) /\
                        flog s3 = lea_of A :: lea_of A :: flog s).
Proof.
  intros HI2 Hslot H511.
  set (Q := fun (s1 s2 : st) (err : N) (own' : ownmap) =>
              own' = own /\ (err = 0 \/ err = E_INVALID) /\
              (err = E_INVALID -> s2 = s1 /\ aspace s1 T page = None) /\
              (err = 0 -> translation s2 T page = None /\
                          (forall q, hw_idx q 0 <> 511 -> ~ same_page q page -> aspace s2 T q = aspace s1 T q) /\
                          flog s2 = frame_addr page :: flog s1)).
  destruct (with_pdt_inactive s A T ownA own slot (unmap_page page) Q HI2 Hslot) as
      (s1 & s2 & s3 & err & own' & Hrun & HQ & Es1 & HT & Es3 & HtreeA & HaspA & HtreeT & HaspT & Hasp1 & Hfl3 & Hfl1 & HI3).
  { intros s1 HI1 Henv Horc.
    destruct (unmap_ok s1 A T own page HI1 H511) as (s2 & err & Hr & Herr & HI & He & Ho & Hinv & Hok).
    exists s2, err, own. split.
    - split; [exact Hr|]. split; [exact HI|]. split; [exact He|]. split.
      + intros f i Hn. destruct Herr as [E0|E0].
        * destruct (Hok E0) as (e & _ & _ & _ & _ & _ & Hfr & _). apply Hfr. exact Hn.
        * destruct (Hinv E0) as [Es _]. rewrite Es. reflexivity.
      + exists 0%nat. split; [rewrite Ho; reflexivity|]. intros f. left. reflexivity.
    - split; [reflexivity|]. split; [exact Herr|]. split; [exact Hinv|].
      intros E0. destruct (Hok E0) as (e & _ & _ & O1 & O2 & O3 & _ & _). split; [exact O1|]. split; assumption. }
  destruct HQ as (Eown & Herr & Hinv & Hok). subst own'.
  exists s3, err. split; [exact Hrun|]. split; [exact HI3|]. split; [exact Herr|].
  split; [exact HtreeA|]. split; [exact HaspA|].
  split.
  { intros E0. destruct (Hok E0) as (O1 & O2 & O3).
    split; [rewrite (translation_of_aspace s2 s3 T T page page) by (apply HaspT; exact H511); exact O1|].
    split.
    - intros q Hq Hne. rewrite HaspT, O2, Hasp1 by assumption. reflexivity.
    - rewrite Hfl3, O3, Hfl1. reflexivity. }
  intros E0. destruct (Hinv E0) as [Es2 Hnone]. split; [rewrite <- (Hasp1 page H511); exact Hnone|].
  split.
  - intros q Hq. rewrite HaspT, Es2, Hasp1 by assumption. reflexivity.
  - rewrite Hfl3, Es2, Hfl1. reflexivity.
Qed.

(** on the active table the methods are the plain functions *)
Lemma with_pdt_active s slot op :
  N.shiftr (cr3 s) 12 = pdts s slot -> with_pdt slot op s = op s.
Proof. intros H. unfold with_pdt. rewrite page_shift_val, H, N.eqb_refl. reflexivity. Qed.
