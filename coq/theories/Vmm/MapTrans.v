(** The hand-written models of walk / Map / Unmap / pteForAddress / Translate / MapTemporary (Vmm/Pt.v: [map_page],
    [unmap_page], [pte_walk], [translate], [map_temporary]) against the Gallina translation that gen/gotrans ("memory as
    state" mode, gen/gotrans/ext_mem.go, config vmm_map.json) regenerates from kernel/mm/vmm/{pdt.go,map.go} on every run
    (Gen/Trans_vmm_map.v).

    [walk(virtAddr, walkFn)] is translated with its function parameter as a seam: [walk_is_translation] says that it calls
    [ptePtrFn] and then [walkFn] on exactly the items of [PtAccess.walk_items virtAddr] - (level, address of the level's
    entry in the recursive window) - in order, until [walkFn] returns false, for EVERY (stateful) closure.  The closures
    that Map, Unmap, pteForAddress pass to walk are translated as the body of [gvisit .. (walk_items ..)] (Lib/GoVisit.v),
    with every [*pte] access a load / store resolved by the MMU model at the time of the access (Vmm/PtAccess.v). *)
From Coq Require Import NArith ZArith String List Bool Lia FMapPositive.
From Coq Require Import ZifyBool ZifyN ZifyNat.
From FF Require Import Lib.Word Lib.GoOps Lib.GoOpsProofs Lib.GoVisit Gen.Consts_mm_vmm Gen.Trans_vmm_map.
From FF Require Import Vmm.Pt Vmm.PtMem Vmm.PtAccess.
From FF Require Vmm.PdtTrans Vmm.PtTrans Gen.Trans_mm_vmm.
Module P := FF.Vmm.PdtTrans.
Import ListNotations.
Local Open Scope N_scope.
Ltac Zify.zify_post_hook ::= Z.div_mod_to_equations.

Notation W := mk_go_vmm_world (only parsing).

(** ---- walk ---- *)
Definition o_id (tr : list gcall) (s : st) : option (st * N) :=
  match tr with GCall _ [GNum a] :: _ => Some (s, a) | _ => None end.
Definition o_clo (clo : N -> N -> st -> option (st * bool)) (tr : list gcall) (s : st) : option (st * bool) :=
  match tr with GCall _ [GNum l; GNum p] :: _ => clo l p s | _ => None end.
Definition ev_ptr (a : N) : gcall := GCall "ptePtrFn" [GNum a].
Definition ev_walkfn (l p : N) : gcall := GCall "walkFn" [GNum l; GNum p].

Fixpoint walk_model (clo : N -> N -> st -> option (st * bool)) (items : list (N * N)) (tr : list gcall) (s : st)
  : gres (go_vmm_world * unit) :=
  match items with
  | [] => GOk (W tr s, tt)
  | (l, ea) :: rest =>
      match clo l ea s with
      | None => GPanic
      | Some (s', true) => walk_model clo rest (ev_walkfn l ea :: ev_ptr ea :: tr) s'
      | Some (s', false) => GOk (W (ev_walkfn l ea :: ev_ptr ea :: tr) s', tt)
      end
  end.

Lemma go_levels_val : go_levels = [(39, 9); (30, 9); (21, 9); (12, 9)].
Proof. reflexivity. Qed.

Lemma entry_addr_trans ta va sh bits :
  gw 64 (ta + gw 64 (N.shiftl (N.land (N.shiftr va sh) (N.shiftl 1 bits - 1)) mm_PointerShift)) = entry_addr ta va sh bits.
Proof. unfold entry_addr, entry_index, add64, shl64. rewrite !gw64. reflexivity. Qed.

Lemma shl64_trans a k : gw 64 (N.shiftl a k) = shl64 a k.
Proof. unfold shl64. apply gw64. Qed.

Theorem walk_is_translation clo va s tr0 fuel :
  (5 <= fuel)%nat ->
  go_vmm_walk fuel (W tr0 s) va o_id (o_clo clo) = walk_model clo (walk_items va) tr0 s.
Proof.
  intros Hf. do 5 (destruct fuel as [|fuel]; [lia|]). clear Hf.
  unfold go_vmm_walk, walk_items. rewrite go_levels_val.
  cbv zeta.
  match goal with |- context [gloop _ ?f0 _] => set (step := f0) end.
  assert (Hstep : forall tr s ea0 ei0 ok0 ta l sh bits,
             nth_error [(39, 9); (30, 9); (21, 9); (12, 9)] (N.to_nat l) = Some (sh, bits) -> l < 4 ->
             step (W tr s, ea0, ei0, l, ok0, ta) =
             let ea := entry_addr ta va sh bits in
             match clo l ea s with
             | None => GPanic
             | Some (s', true) =>
                 GOk (GNext (W (ev_walkfn l ea :: ev_ptr ea :: tr) s', shl64 ea bits, entry_index va sh bits, gw 8 (l + 1), true, shl64 ea bits))
             | Some (s', false) => GOk (GRet (W (ev_walkfn l ea :: ev_ptr ea :: tr) s', tt))
             end).
  { intros tr s1 ea0 ei0 ok0 ta l sh bits Hn Hl.
    assert (Hc : l = 0 \/ l = 1 \/ l = 2 \/ l = 3) by lia.
    unfold step.
    destruct Hc as [ -> | [ -> | [ -> | -> ] ] ]; cbn in Hn; injection Hn as <- <-;
      (change (_ <? vmm_pageLevels) with true; cbv iota;
       match goal with |- context [gidx vmm_pageLevelShifts ?k] => let r := eval vm_compute in (gidx vmm_pageLevelShifts k) in change (gidx vmm_pageLevelShifts k) with r end;
       change (gidx vmm_pageLevelBits _) with (Some 9); cbv iota beta;
       rewrite entry_addr_trans;
       unfold go_vmm_world_seam; cbn [f_world_trace f_world_mem set_f_world_trace set_f_world_mem o_id o_clo];
       match goal with |- context [clo ?a ?b ?c] => destruct (clo a b c) as [[s' [|]]|] end; cbn [negb];
       try reflexivity; rewrite shl64_trans; reflexivity). }
  assert (Hbrk : forall w a b c d, step (w, a, b, 4, c, d) = GOk (GBreak (w, a, b, 4, c, d))).
  { intros [tr s1] a b c d. reflexivity. }
  change (gw 8 0) with 0.
  cbn [walk_items_from walk_model].
  change (0 + 1) with 1. change (1 + 1) with 2. change (2 + 1) with 3.
  cbn [gloop]. rewrite (Hstep _ _ _ _ _ _ 0 39 9 eq_refl eq_refl). cbv zeta.
  destruct (clo 0 _ s) as [[s1 [|]]|]; [|reflexivity|reflexivity].
  change (gw 8 (0 + 1)) with 1.
  rewrite (Hstep _ _ _ _ _ _ 1 30 9 eq_refl eq_refl). cbv zeta.
  destruct (clo 1 _ s1) as [[s2 [|]]|]; [|reflexivity|reflexivity].
  change (gw 8 (1 + 1)) with 2.
  rewrite (Hstep _ _ _ _ _ _ 2 21 9 eq_refl eq_refl). cbv zeta.
  destruct (clo 2 _ s2) as [[s3 [|]]|]; [|reflexivity|reflexivity].
  change (gw 8 (2 + 1)) with 3.
  rewrite (Hstep _ _ _ _ _ _ 3 12 9 eq_refl eq_refl). cbv zeta.
  destruct (clo 3 _ s3) as [[s4 [|]]|]; [|reflexivity|reflexivity].
  change (gw 8 (3 + 1)) with 4.
  rewrite Hbrk. reflexivity.
Qed.

(** ---- Map ---- *)
(** helpers of this translation unit = those of Gen/Trans_mm_vmm.v; the frame argument needs no bound *)
Lemma frame_addr_any f : go_mm_Frame_Address f = frame_addr f.
Proof. unfold go_mm_Frame_Address, frame_addr, shl64. rewrite !gw64. apply w64_small. apply w64_lt. Qed.

Lemma page_addr_any f : go_mm_Page_Address f = frame_addr f.
Proof. unfold go_mm_Page_Address, frame_addr, shl64. rewrite !gw64. apply w64_small. apply w64_lt. Qed.

Lemma set_frame_any e f : e < two64 -> go_vmm_pageTableEntry_SetFrame e f = set_frame e f.
Proof.
  intros He. unfold go_vmm_pageTableEntry_SetFrame, set_frame, andnot. rewrite frame_addr_any.
  rewrite (gw64_small e He). apply gw64_small. apply P.set_frame_lt. exact He.
Qed.

Lemma set_flags_any e fl : e < two64 -> fl < two64 -> go_vmm_pageTableEntry_SetFlags e fl = set_flags e fl.
Proof.
  intros He Hf. change (Trans_mm_vmm.go_vmm_pageTableEntry_SetFlags e fl = set_flags e fl).
  apply (PtTrans.pte_helpers_are_translation e fl 0 He Hf P.zero_lt).
Qed.

Lemma clear_flags_any e fl : e < two64 -> fl < two64 -> go_vmm_pageTableEntry_ClearFlags e fl = clear_flags e fl.
Proof.
  intros He Hf. change (Trans_mm_vmm.go_vmm_pageTableEntry_ClearFlags e fl = clear_flags e fl).
  apply (PtTrans.pte_helpers_are_translation e fl 0 He Hf P.zero_lt).
Qed.

Lemma has_flags_any e fl : e < two64 -> fl < two64 -> go_vmm_pageTableEntry_HasFlags e fl = has_flags e fl.
Proof.
  intros He Hf. change (Trans_mm_vmm.go_vmm_pageTableEntry_HasFlags e fl = has_flags e fl).
  apply (PtTrans.pte_helpers_are_translation e fl 0 He Hf P.zero_lt).
Qed.

Lemma pte_frame_any e : e < two64 -> go_vmm_pageTableEntry_Frame e = pte_frame e.
Proof.
  intros He. change (Trans_mm_vmm.go_vmm_pageTableEntry_Frame e = pte_frame e).
  apply (PtTrans.pte_helpers_are_translation e 0 0 He P.zero_lt P.zero_lt).
Qed.

(** the entry at virtual address [ea], which resolves to word [i] of frame [f], is still found there after it has been
    overwritten with any value *)
Definition entry_stable (s : st) (ea f i : N) : Prop := forall x, resolve (wr_st s f i x) ea = Some (f, i).

(** the condition under which the model of Map (one resolution per level) and the code (one per dereference) agree *)
Fixpoint map_stable (lv : list (N * N)) (level tableAddr va : N) (s : st) : Prop :=
  match lv with
  | [] => True
  | (sh, bits) :: rest =>
      let ea := entry_addr tableAddr va sh bits in
      match resolve s ea with
      | None => True
      | Some (f, i) =>
          if level =? last_level then entry_stable s ea f i
          else
            let e := rd (mem s) f i in
            if has_flags e vmm_FlagHugePage then True
            else if negb (has_flags e vmm_FlagPresent) then
              match alloc s with
              | (s1, None) => True
              | (s1, Some nf) =>
                  entry_stable s1 ea f i /\
                  let s2 := wr_st s1 f i (set_flags (set_frame 0 nf) P_RW) in
                  match resolve_page s2 (shl64 ea (level_bits (level + 1))) with
                  | None => True
                  | Some pf => map_stable rest (level + 1) (shl64 ea bits) va (set_mem s2 (zero (mem s2) pf))
                  end
              end
            else map_stable rest (level + 1) (shl64 ea bits) va s
      end
  end.

Definition o_alloc (_ : list gcall) (s : st) : option (st * (N * option string)) :=
  match alloc s with
  | (s1, None) => Some (s1, (0, P.err_of E_ALLOC))
  | (s1, Some nf) => Some (s1, (nf, None))
  end.

(** forget the trace *)
Definition wmem {A} (r : gres (go_vmm_world * A)) : gres (st * A) :=
  match r with GOk (w, a) => GOk (f_world_mem w, a) | GPanic => GPanic | GFuel => GFuel end.
Definition op_res (r : R (st * N)) : gres (st * option string) :=
  match r with Stray => GPanic | Ok (s', e) => GOk (s', P.err_of e) end.

Lemma alloc_same s s1 r : alloc s = (s1, r) ->
  mem s1 = mem s /\ (forall a, resolve s1 a = resolve s a) /\ (forall a, resolve_page s1 a = resolve_page s a).
Proof.
  unfold alloc. destruct (orc s) as [|x rest]; intros E; injection E as <- _; repeat split.
Qed.


Lemma err_of_nil e : negb (gerr_eqb (P.err_of e) None) = negb (e =? 0).
Proof. unfold P.err_of. destruct (e =? 0); reflexivity. Qed.

Lemma rd_wr_st s f i x : rd (mem (wr_st s f i x)) f i = x.
Proof. unfold wr_st, set_mem. cbn [mem]. rewrite rd_wr, !N.eqb_refl. reflexivity. Qed.

Ltac wsimp := cbn [f_world_trace f_world_mem set_f_world_trace set_f_world_mem].

Theorem map_is_translation page frame flags s tr0 :
  flags < two64 -> P.mem_w64 s ->
  map_stable go_levels 0 vmm_pdtVirtualAddr (frame_addr page) s ->
  wmem (go_vmm_Map (W tr0 s) page frame flags P.o_flush P.o_memset o_alloc o_id) = op_res (map_page page frame flags s).
Proof.
  intros Hfl Hw Hst. unfold go_vmm_Map, map_page. wsimp.
  destruct (prot s && (frame =? zf s) && negb (N.land flags vmm_FlagRW =? 0)); [reflexivity|].
  rewrite page_addr_any. set (va := frame_addr page) in *.
  cbv zeta.
  match goal with |- context [gvisit ?f _ _] => set (clo := f) end.
  unfold walk_items.
  assert (HI : forall lv level ta s tr,
             level + N.of_nat (length lv) = 4 -> P.mem_w64 s -> map_stable lv level ta va s ->
             wmem (match gvisit clo (walk_items_from lv level ta va) (W tr s, None) with
                   | GOk st => let '(v_world, v_err) := st in GOk (v_world, v_err)
                   | GPanic => GPanic | GFuel => GFuel end) = op_res (map_walk lv level ta va frame flags s)).
  2:{ apply HI; [reflexivity | exact Hw | exact Hst]. }
  clear Hw Hst s tr0.
  induction lv as [|[sh bits] rest IH]; intros level ta s tr Hlen Hw Hst.
  { reflexivity. }
  cbn [walk_items_from gvisit map_walk]. cbn [map_stable] in Hst.
  set (ea := entry_addr ta va sh bits) in *.
  unfold clo at 1. cbv beta iota.
  change (gsub 8 vmm_pageLevels 1) with last_level. change (gw 64 0) with 0.
  unfold go_vmm_world_store_virt, go_vmm_world_load_virt, vstore, vload. wsimp.
  destruct (resolve s ea) as [[f i]|] eqn:Er.
  2:{ destruct (level =? last_level); reflexivity. }
  destruct (level =? last_level) eqn:El.
  - (* the leaf *)
    wsimp. rewrite (Hst 0). wsimp.
    rewrite rd_wr_st.
    rewrite (set_frame_any _ frame P.zero_lt). rewrite P.wr_st_wr_st, (Hst _). wsimp.
    rewrite rd_wr_st, (set_flags_any _ flags (P.set_frame_lt 0 frame P.zero_lt) Hfl), P.wr_st_wr_st.
    unfold go_vmm_world_seam. wsimp. cbn [P.o_flush].
    assert (Hr : rest = []).
    { apply N.eqb_eq in El. destruct rest; [reflexivity|]. cbn [length] in Hlen. unfold last_level in El.
      change (vmm_pageLevels - 1) with 3 in El. lia. }
    subst rest. cbn [walk_items_from gvisit]. reflexivity.
  - (* an upper level *)
    assert (Hl3 : level = 0 \/ level = 1 \/ level = 2).
    { apply N.eqb_neq in El. unfold last_level in El. change (vmm_pageLevels - 1) with 3 in El.
      cbn [length] in Hlen. lia. }
    assert (HH : vmm_FlagHugePage < two64) by reflexivity.
    assert (HP : vmm_FlagPresent < two64) by reflexivity.
    rewrite !(has_flags_any _ _ (Hw f i) HH), !(has_flags_any _ _ (Hw f i) HP).
    set (e := rd (mem s) f i) in *.
    destruct (has_flags e vmm_FlagHugePage). { reflexivity. }
    destruct (negb (has_flags e vmm_FlagPresent)) eqn:Ep.
    + unfold go_vmm_world_seam at 1. wsimp. unfold o_alloc.
      destruct (alloc s) as [s1 [nf|]] eqn:Ea; [|reflexivity].
      cbn [gerr_eqb negb]. wsimp.
      destruct Hst as [Hes Hst'].
      destruct (alloc_same _ _ _ Ea) as (Am & Ar & Arp).
      rewrite (Ar ea), Er. wsimp.
      rewrite (Hes 0). wsimp. rewrite rd_wr_st, (set_frame_any _ nf P.zero_lt), P.wr_st_wr_st, (Hes _). wsimp.
      rewrite rd_wr_st. change (N.lor vmm_FlagPresent vmm_FlagRW) with P_RW.
      rewrite (set_flags_any _ P_RW (P.set_frame_lt 0 nf P.zero_lt) P.P_RW_lt), P.wr_st_wr_st.
      set (s2 := wr_st s1 f i (set_flags (set_frame 0 nf) P_RW)) in *.
      assert (Eb : gidx vmm_pageLevelBits (gw 8 (level + 1)) = Some 9 /\ level_bits (level + 1) = 9).
      { destruct Hl3 as [ -> | [ -> | -> ] ]; split; reflexivity. }
      destruct Eb as [Eb1 Eb2]. rewrite Eb1. rewrite Eb2 in Hst'. rewrite Eb2. cbv iota beta.
      rewrite shl64_trans.
      unfold go_vmm_world_seam. wsimp. cbn [o_id P.o_memset]. wsimp.
      change ((0 =? 0) && (mm_PageSize =? mm_PageSize)) with true. cbv iota.
      destruct (resolve_page s2 (shl64 ea 9)) as [pf|] eqn:Erp; [|reflexivity].
      wsimp.
      apply IH.
      * cbn [length] in Hlen. lia.
      * apply P.keeps_zero. apply (P.keeps_wr s1 f i).
        { apply P.set_flags_lt; [apply P.set_frame_lt; apply P.zero_lt | apply P.P_RW_lt]. }
        apply (P.keeps_alloc _ _ _ Ea). exact Hw.
      * exact Hst'.
    + apply IH; [cbn [length] in Hlen; lia | exact Hw | exact Hst].
Qed.

(** ---- Unmap ---- *)
Theorem unmap_is_translation page s tr0 :
  P.mem_w64 s ->
  wmem (go_vmm_Unmap (W tr0 s) page P.o_flush) = op_res (unmap_page page s).
Proof.
  intros Hw. unfold go_vmm_Unmap, unmap_page.
  rewrite page_addr_any. set (va := frame_addr page) in *.
  cbv zeta.
  match goal with |- context [gvisit ?f _ _] => set (clo := f) end.
  unfold walk_items.
  assert (HI : forall lv level ta s tr,
             level + N.of_nat (length lv) = 4 -> P.mem_w64 s ->
             wmem (match gvisit clo (walk_items_from lv level ta va) (W tr s, None) with
                   | GOk st => let '(v_world, v_err) := st in GOk (v_world, v_err)
                   | GPanic => GPanic | GFuel => GFuel end) = op_res (unmap_walk lv level ta va s)).
  2:{ apply HI; [reflexivity | exact Hw]. }
  clear Hw s tr0.
  induction lv as [|[sh bits] rest IH]; intros level ta s tr Hlen Hw.
  { reflexivity. }
  cbn [walk_items_from gvisit unmap_walk].
  set (ea := entry_addr ta va sh bits) in *.
  unfold clo at 1. cbv beta iota.
  change (gsub 8 vmm_pageLevels 1) with last_level.
  unfold go_vmm_world_store_virt, go_vmm_world_load_virt, vstore, vload. wsimp.
  destruct (resolve s ea) as [[f i]|] eqn:Er.
  2:{ destruct (level =? last_level); reflexivity. }
  assert (HH : vmm_FlagHugePage < two64) by reflexivity.
  assert (HP : vmm_FlagPresent < two64) by reflexivity.
  destruct (level =? last_level) eqn:El.
  - rewrite (clear_flags_any _ _ (Hw f i) HP). wsimp.
    unfold go_vmm_world_seam. wsimp. cbn [P.o_flush].
    assert (Hr : rest = []).
    { apply N.eqb_eq in El. destruct rest; [reflexivity|]. cbn [length] in Hlen. unfold last_level in El.
      change (vmm_pageLevels - 1) with 3 in El. lia. }
    subst rest. cbn [walk_items_from gvisit]. reflexivity.
  - rewrite !(has_flags_any _ _ (Hw f i) HH), !(has_flags_any _ _ (Hw f i) HP).
    destruct (negb (has_flags (rd (mem s) f i) vmm_FlagPresent)). { reflexivity. }
    destruct (has_flags (rd (mem s) f i) vmm_FlagHugePage). { reflexivity. }
    apply IH; [cbn [length] in Hlen; lia | exact Hw].
Qed.

(** ---- pteForAddress / Translate ---- *)
Definition pte_rel (s : st) (tr : list gcall) (g : gres (go_vmm_world * (N * option string))) (r : R (option (N * N))) : Prop :=
  match g, r with
  | GPanic, Stray => True
  | GOk (w, (p, e)), Ok None => w = W tr s /\ p = 0 /\ e = Some "ErrInvalidMapping"%string
  | GOk (w, (p, e)), Ok (Some fi) => w = W tr s /\ e = None /\ resolve s p = Some fi
  | _, _ => False
  end.

Theorem pte_for_address_is_translation va s tr0 :
  P.mem_w64 s ->
  pte_rel s tr0 (go_vmm_pteForAddress (W tr0 s) va) (pte_walk go_levels vmm_pdtVirtualAddr va s None).
Proof.
  intros Hw. unfold go_vmm_pteForAddress.
  cbv zeta.
  match goal with |- context [gvisit ?f _ _] => set (clo := f) end.
  unfold walk_items.
  assert (HI : forall lv level ta p o,
             match o with None => lv <> [] | Some fi => resolve s p = Some fi end ->
             pte_rel s tr0 (match gvisit clo (walk_items_from lv level ta va) (W tr0 s, p, None) with
                            | GOk st => let '(v_world, v_entry, v_err) := st in GOk (v_world, (v_entry, v_err))
                            | GPanic => GPanic | GFuel => GFuel end) (pte_walk lv ta va s o)).
  2:{ apply HI. discriminate. }
  induction lv as [|[sh bits] rest IH]; intros level ta p o Ho.
  { cbn [walk_items_from gvisit pte_walk]. unfold pte_rel. destruct o as [fi|]; [|congruence].
    repeat split. exact Ho. }
  cbn [walk_items_from gvisit pte_walk].
  set (ea := entry_addr ta va sh bits) in *.
  unfold clo at 1. cbv beta iota.
  unfold go_vmm_world_load_virt, vload. wsimp.
  destruct (resolve s ea) as [[f i]|] eqn:Er; [|exact I].
  assert (HP : vmm_FlagPresent < two64) by reflexivity.
  rewrite (has_flags_any _ _ (Hw f i) HP).
  destruct (negb (has_flags (rd (mem s) f i) vmm_FlagPresent)).
  - cbn. repeat split.
  - apply IH. exact Er.
Qed.

Lemma page_offset_trans va tr s :
  go_vmm_PageOffset (W tr s) va = GOk (W tr s, page_offset va).
Proof. reflexivity. Qed.

Theorem translate_is_translation va s tr0 :
  P.mem_w64 s ->
  go_vmm_Translate (W tr0 s) va =
  match translate va s with
  | Stray => GPanic
  | Ok (e, pa) => GOk (W tr0 s, (pa, P.err_of e))
  end.
Proof.
  intros Hw. unfold go_vmm_Translate, translate.
  pose proof (pte_for_address_is_translation va s tr0 Hw) as H. unfold pte_rel in H.
  destruct (go_vmm_pteForAddress (W tr0 s) va) as [[w [p e]]| |];
    destruct (pte_walk go_levels vmm_pdtVirtualAddr va s None) as [[[f i]|]|]; try contradiction; try reflexivity.
  - destruct H as (-> & -> & Hr). cbn [gerr_eqb negb].
    unfold go_vmm_world_load_virt, vload. wsimp. rewrite Hr.
    rewrite page_offset_trans.
    rewrite (pte_frame_any _ (Hw f i)), frame_addr_any, gw64. reflexivity.
  - destruct H as (-> & -> & ->). reflexivity.
Qed.

(** ---- MapTemporary ---- *)
Theorem map_temporary_is_translation frame s tr0 :
  P.mem_w64 s ->
  map_stable go_levels 0 vmm_pdtVirtualAddr (frame_addr temp_page) s ->
  wmem (go_vmm_MapTemporary (W tr0 s) frame P.o_flush P.o_memset o_alloc o_id) =
  match map_temporary frame s with
  | Stray => GPanic
  | Ok (s', e, p) => GOk (s', (p, P.err_of e))
  end.
Proof.
  intros Hw Hst. unfold go_vmm_MapTemporary, map_temporary. wsimp.
  destruct (prot s && (frame =? zf s)); [reflexivity|].
  change (go_mm_PageFromAddress vmm_tempMappingAddr) with temp_page.
  change (N.lor vmm_FlagPresent vmm_FlagRW) with P_RW.
  pose proof (map_is_translation temp_page frame P_RW s tr0 P.P_RW_lt Hw Hst) as H.
  destruct (go_vmm_Map (W tr0 s) temp_page frame P_RW P.o_flush P.o_memset o_alloc o_id) as [[w e]| |];
    destruct (map_page temp_page frame P_RW s) as [[s1 err]|]; cbn [wmem op_res] in H; try discriminate; try reflexivity.
  injection H as H1 ->. rewrite err_of_nil.
  destruct (err =? 0) eqn:Ee; cbn [negb wmem]; rewrite H1.
  - apply N.eqb_eq in Ee. subst err. reflexivity.
  - reflexivity.
Qed.

(** ---- a decidable sufficient condition for [map_stable] ---- *)
(** does the hardware walk that translates [page] from table [t] read word [i] of frame [f]? *)
Fixpoint walk_reads (s : st) (levels : list N) (t page f i : N) : bool :=
  match levels with
  | [] => false
  | k :: rest =>
      ((t =? f) && (hw_idx page k =? i)) ||
      (if backed s t then
         let e := rd (mem s) t (hw_idx page k) in
         if hw_P e && negb (hw_PS e && (k <? 3)) then walk_reads s rest (hw_frame e) page f i else false
       else false)
  end.
Definition entry_reads (s : st) (ea f i : N) : bool :=
  walk_reads s hw_levels (N.shiftr (cr3 s) 12) (N.shiftr ea 12) f i.

Lemma rd_wr_st_gen s f i x t j : rd (mem (wr_st s f i x)) t j = if (t =? f) && (j =? i) then x else rd (mem s) t j.
Proof. unfold wr_st, set_mem. cbn [mem]. apply rd_wr. Qed.

Lemma hw_walk_wr s f i x page : forall levels t,
  walk_reads s levels t page f i = false ->
  hw_walk (wr_st s f i x) levels t page = hw_walk s levels t page.
Proof.
  assert (Hbk : forall t, backed (wr_st s f i x) t = backed s t) by reflexivity.
  induction levels as [|k rest IH]; intros t; cbn [hw_walk walk_reads].
  - intros _. rewrite Hbk. reflexivity.
  - rewrite Hbk. intros H. apply orb_false_elim in H. destruct H as [H1 H2].
    rewrite !rd_wr_st_gen, H1.
    destruct (backed s t); [|reflexivity].
    destruct (hw_P _ && negb _); [|reflexivity].
    apply IH. exact H2.
Qed.

Lemma entry_stable_b s ea f i :
  resolve s ea = Some (f, i) -> entry_reads s ea f i = false -> entry_stable s ea f i.
Proof.
  intros Hr Hn x. unfold resolve, mmu in *.
  change (cr3 (wr_st s f i x)) with (cr3 s).
  rewrite (hw_walk_wr s f i x _ _ _ Hn). exact Hr.
Qed.

Fixpoint map_stable_b (lv : list (N * N)) (level tableAddr va : N) (s : st) : bool :=
  match lv with
  | [] => true
  | (sh, bits) :: rest =>
      let ea := entry_addr tableAddr va sh bits in
      match resolve s ea with
      | None => true
      | Some (f, i) =>
          if level =? last_level then negb (entry_reads s ea f i)
          else
            let e := rd (mem s) f i in
            if has_flags e vmm_FlagHugePage then true
            else if negb (has_flags e vmm_FlagPresent) then
              match alloc s with
              | (s1, None) => true
              | (s1, Some nf) =>
                  negb (entry_reads s1 ea f i) &&
                  (let s2 := wr_st s1 f i (set_flags (set_frame 0 nf) P_RW) in
                   match resolve_page s2 (shl64 ea (level_bits (level + 1))) with
                   | None => true
                   | Some pf => map_stable_b rest (level + 1) (shl64 ea bits) va (set_mem s2 (zero (mem s2) pf))
                   end)
              end
            else map_stable_b rest (level + 1) (shl64 ea bits) va s
      end
  end.

Lemma map_stable_b_ok lv : forall level ta va s, map_stable_b lv level ta va s = true -> map_stable lv level ta va s.
Proof.
  induction lv as [|[sh bits] rest IH]; intros level ta va s; cbn [map_stable_b map_stable]; [trivial|].
  destruct (resolve s _) as [[f i]|] eqn:Er; [|trivial].
  destruct (level =? last_level).
  { intros H. apply entry_stable_b; [exact Er | apply negb_true_iff; exact H]. }
  destruct (has_flags _ vmm_FlagHugePage); [trivial|].
  destruct (negb _); [|apply IH].
  destruct (alloc s) as [s1 [nf|]] eqn:Ea; [|trivial].
  intros H. apply andb_prop in H. destruct H as [H1 H2]. split.
  - apply entry_stable_b; [|apply negb_true_iff; exact H1].
    destruct (alloc_same _ _ _ Ea) as (_ & Ar & _). rewrite Ar. exact Er.
  - destruct (resolve_page _ _) as [pf|]; [|trivial]. apply IH. exact H2.
Qed.

(** the zero-frame guard of Map on its own *)
Theorem map_guard_is_translation page flags s tr0 o1 o2 o3 o4 :
  prot s = true -> N.land flags vmm_FlagRW <> 0 ->
  go_vmm_Map (W tr0 s) page (zf s) flags o1 o2 o3 o4 = GOk (W tr0 s, Some "errAttemptToRWMapReservedFrame"%string).
Proof.
  intros Hp Hf. unfold go_vmm_Map. cbn [f_world_mem]. rewrite Hp, N.eqb_refl.
  apply N.eqb_neq in Hf. rewrite Hf. reflexivity.
Qed.

(** ---- Unmap with the exact sequence of seam calls: one flushTLBEntryFn of the page, exactly when it succeeds ---- *)
Theorem unmap_is_translation_calls page s tr0 :
  P.mem_w64 s ->
  go_vmm_Unmap (W tr0 s) page P.o_flush =
  match unmap_page page s with
  | Stray => GPanic
  | Ok (s', e) => GOk (W (if e =? 0 then P.ev_flush (frame_addr page) :: tr0 else tr0) s', P.err_of e)
  end.
Proof.
  intros Hw. unfold go_vmm_Unmap, unmap_page.
  rewrite page_addr_any. set (va := frame_addr page) in *.
  cbv zeta.
  match goal with |- context [gvisit ?f _ _] => set (clo := f) end.
  unfold walk_items.
  assert (HI : forall lv level ta s,
             lv <> [] -> level + N.of_nat (length lv) = 4 -> P.mem_w64 s ->
             match gvisit clo (walk_items_from lv level ta va) (W tr0 s, None) with
             | GOk st => let '(v_world, v_err) := st in GOk (v_world, v_err)
             | GPanic => GPanic | GFuel => GFuel end =
             match unmap_walk lv level ta va s with
             | Stray => GPanic
             | Ok (s', e) => GOk (W (if e =? 0 then P.ev_flush va :: tr0 else tr0) s', P.err_of e)
             end).
  2:{ apply HI; [rewrite go_levels_val; discriminate | reflexivity | exact Hw]. }
  clear Hw s.
  induction lv as [|[sh bits] rest IH]; intros level ta s Hne Hlen Hw; [congruence|].
  cbn [walk_items_from gvisit unmap_walk].
  set (ea := entry_addr ta va sh bits) in *.
  unfold clo at 1. cbv beta iota.
  change (gsub 8 vmm_pageLevels 1) with last_level.
  unfold go_vmm_world_store_virt, go_vmm_world_load_virt, vstore, vload. wsimp.
  destruct (resolve s ea) as [[f i]|] eqn:Er.
  2:{ destruct (level =? last_level); reflexivity. }
  assert (HH : vmm_FlagHugePage < two64) by reflexivity.
  assert (HP : vmm_FlagPresent < two64) by reflexivity.
  destruct (level =? last_level) eqn:El.
  - rewrite (clear_flags_any _ _ (Hw f i) HP). wsimp.
    unfold go_vmm_world_seam. wsimp. cbn [P.o_flush].
    assert (Hr : rest = []).
    { apply N.eqb_eq in El. destruct rest; [reflexivity|]. cbn [length] in Hlen. unfold last_level in El.
      change (vmm_pageLevels - 1) with 3 in El. lia. }
    subst rest. cbn [walk_items_from gvisit]. reflexivity.
  - rewrite !(has_flags_any _ _ (Hw f i) HH), !(has_flags_any _ _ (Hw f i) HP).
    destruct (negb (has_flags (rd (mem s) f i) vmm_FlagPresent)). { reflexivity. }
    destruct (has_flags (rd (mem s) f i) vmm_FlagHugePage). { reflexivity. }
    apply IH; [|cbn [length] in Hlen; lia | exact Hw].
    apply N.eqb_neq in El. unfold last_level in El. change (vmm_pageLevels - 1) with 3 in El.
    cbn [length] in Hlen. destruct rest; [cbn [length] in Hlen; lia | discriminate].
Qed.

(** ---- Map with the exact sequence of seam calls ----
    [map_walk_tr] is [map_walk] (Vmm/Pt.v) with the seam calls written next to it: mm.AllocFrame, nextAddrFn and kernel.Memset
    for every table it creates, flushTLBEntryFn at the leaf; [map_page_tr_model]: forgetting them gives [map_page]. *)
Definition ev_malloc : gcall := GCall "mm.AllocFrame" [].
Definition ev_next (a : N) : gcall := GCall "nextAddrFn" [GNum a].

Fixpoint map_walk_tr (lv : list (N * N)) (level tableAddr va frame flags : N) (s : st) (tr : list gcall) : option (st * N * list gcall) :=
  match lv with
  | [] => Some (s, E_OK, tr)
  | (sh, bits) :: rest =>
      let ea := entry_addr tableAddr va sh bits in
      match resolve s ea with
      | None => None
      | Some (f, i) =>
          if level =? last_level then
            Some (flush (wr_st s f i (set_flags (set_frame 0 frame) flags)) va, E_OK, P.ev_flush va :: tr)
          else
            let e := rd (mem s) f i in
            if has_flags e vmm_FlagHugePage then Some (s, E_HUGE, tr)
            else if negb (has_flags e vmm_FlagPresent) then
              match alloc s with
              | (s1, None) => Some (s1, E_ALLOC, ev_malloc :: tr)
              | (s1, Some nf) =>
                  let s2 := wr_st s1 f i (set_flags (set_frame 0 nf) P_RW) in
                  let next := shl64 ea (level_bits (level + 1)) in
                  match resolve_page s2 next with
                  | None => None
                  | Some pf => map_walk_tr rest (level + 1) (shl64 ea bits) va frame flags (set_mem s2 (zero (mem s2) pf))
                                           (P.ev_memset next :: ev_next next :: ev_malloc :: tr)
                  end
              end
            else map_walk_tr rest (level + 1) (shl64 ea bits) va frame flags s tr
      end
  end.

Definition map_page_tr (page frame flags : N) (s : st) (tr : list gcall) : option (st * N * list gcall) :=
  if prot s && (frame =? zf s) && negb (N.land flags vmm_FlagRW =? 0) then Some (s, E_ZERO_RW, tr)
  else map_walk_tr go_levels 0 vmm_pdtVirtualAddr (frame_addr page) frame flags s tr.

Definition tr_forget (r : option (st * N * list gcall)) : R (st * N) :=
  match r with None => Stray | Some (s, e, _) => Ok (s, e) end.
Definition tr_res (r : option (st * N * list gcall)) : gres (go_vmm_world * option string) :=
  match r with None => GPanic | Some (s, e, tr) => GOk (W tr s, P.err_of e) end.

Lemma map_walk_tr_model lv : forall level ta va frame flags s tr,
  tr_forget (map_walk_tr lv level ta va frame flags s tr) = map_walk lv level ta va frame flags s.
Proof.
  induction lv as [|[sh bits] rest IH]; intros level ta va frame flags s tr; cbn [map_walk_tr map_walk]; [reflexivity|].
  destruct (resolve s _) as [[f i]|]; [|reflexivity].
  destruct (level =? last_level); [reflexivity|].
  destruct (has_flags _ vmm_FlagHugePage); [reflexivity|].
  destruct (negb _); [|apply IH].
  destruct (alloc s) as [s1 [nf|]]; [|reflexivity]. cbv zeta.
  destruct (resolve_page _ _) as [pf|]; [apply IH | reflexivity].
Qed.

Lemma map_page_tr_model page frame flags s tr : tr_forget (map_page_tr page frame flags s tr) = map_page page frame flags s.
Proof. unfold map_page_tr, map_page. destruct (_ && _ && _); [reflexivity | apply map_walk_tr_model]. Qed.

Theorem map_is_translation_calls page frame flags s tr0 :
  flags < two64 -> P.mem_w64 s ->
  map_stable go_levels 0 vmm_pdtVirtualAddr (frame_addr page) s ->
  go_vmm_Map (W tr0 s) page frame flags P.o_flush P.o_memset o_alloc o_id = tr_res (map_page_tr page frame flags s tr0).
Proof.
  intros Hfl Hw Hst. unfold go_vmm_Map, map_page_tr. wsimp.
  destruct (prot s && (frame =? zf s) && negb (N.land flags vmm_FlagRW =? 0)); [reflexivity|].
  rewrite page_addr_any. set (va := frame_addr page) in *.
  cbv zeta.
  match goal with |- context [gvisit ?f _ _] => set (clo := f) end.
  unfold walk_items.
  assert (HI : forall lv level ta s tr,
             level + N.of_nat (length lv) = 4 -> P.mem_w64 s -> map_stable lv level ta va s ->
             match gvisit clo (walk_items_from lv level ta va) (W tr s, None) with
             | GOk st => let '(v_world, v_err) := st in GOk (v_world, v_err)
             | GPanic => GPanic | GFuel => GFuel end = tr_res (map_walk_tr lv level ta va frame flags s tr)).
  2:{ apply HI; [reflexivity | exact Hw | exact Hst]. }
  clear Hw Hst s tr0.
  induction lv as [|[sh bits] rest IH]; intros level ta s tr Hlen Hw Hst.
  { reflexivity. }
  cbn [walk_items_from gvisit map_walk_tr]. cbn [map_stable] in Hst.
  set (ea := entry_addr ta va sh bits) in *.
  unfold clo at 1. cbv beta iota.
  change (gsub 8 vmm_pageLevels 1) with last_level. change (gw 64 0) with 0.
  unfold go_vmm_world_store_virt, go_vmm_world_load_virt, vstore, vload. wsimp.
  destruct (resolve s ea) as [[f i]|] eqn:Er.
  2:{ destruct (level =? last_level); reflexivity. }
  destruct (level =? last_level) eqn:El.
  - (* the leaf *)
    wsimp. rewrite (Hst 0). wsimp.
    rewrite rd_wr_st.
    rewrite (set_frame_any _ frame P.zero_lt). rewrite P.wr_st_wr_st, (Hst _). wsimp.
    rewrite rd_wr_st, (set_flags_any _ flags (P.set_frame_lt 0 frame P.zero_lt) Hfl), P.wr_st_wr_st.
    unfold go_vmm_world_seam. wsimp. cbn [P.o_flush].
    assert (Hr : rest = []).
    { apply N.eqb_eq in El. destruct rest; [reflexivity|]. cbn [length] in Hlen. unfold last_level in El.
      change (vmm_pageLevels - 1) with 3 in El. lia. }
    subst rest. cbn [walk_items_from gvisit]. reflexivity.
  - (* an upper level *)
    assert (Hl3 : level = 0 \/ level = 1 \/ level = 2).
    { apply N.eqb_neq in El. unfold last_level in El. change (vmm_pageLevels - 1) with 3 in El.
      cbn [length] in Hlen. lia. }
    assert (HH : vmm_FlagHugePage < two64) by reflexivity.
    assert (HP : vmm_FlagPresent < two64) by reflexivity.
    rewrite !(has_flags_any _ _ (Hw f i) HH), !(has_flags_any _ _ (Hw f i) HP).
    set (e := rd (mem s) f i) in *.
    destruct (has_flags e vmm_FlagHugePage). { reflexivity. }
    destruct (negb (has_flags e vmm_FlagPresent)) eqn:Ep.
    + unfold go_vmm_world_seam at 1. wsimp. unfold o_alloc.
      destruct (alloc s) as [s1 [nf|]] eqn:Ea; [|reflexivity].
      cbn [gerr_eqb negb]. wsimp.
      destruct Hst as [Hes Hst'].
      destruct (alloc_same _ _ _ Ea) as (Am & Ar & Arp).
      rewrite (Ar ea), Er. wsimp.
      rewrite (Hes 0). wsimp. rewrite rd_wr_st, (set_frame_any _ nf P.zero_lt), P.wr_st_wr_st, (Hes _). wsimp.
      rewrite rd_wr_st. change (N.lor vmm_FlagPresent vmm_FlagRW) with P_RW.
      rewrite (set_flags_any _ P_RW (P.set_frame_lt 0 nf P.zero_lt) P.P_RW_lt), P.wr_st_wr_st.
      set (s2 := wr_st s1 f i (set_flags (set_frame 0 nf) P_RW)) in *.
      assert (Eb : gidx vmm_pageLevelBits (gw 8 (level + 1)) = Some 9 /\ level_bits (level + 1) = 9).
      { destruct Hl3 as [ -> | [ -> | -> ] ]; split; reflexivity. }
      destruct Eb as [Eb1 Eb2]. rewrite Eb1. rewrite Eb2 in Hst'. rewrite Eb2. cbv iota beta.
      rewrite shl64_trans.
      unfold go_vmm_world_seam. wsimp. cbn [o_id P.o_memset]. wsimp.
      change ((0 =? 0) && (mm_PageSize =? mm_PageSize)) with true. cbv iota.
      destruct (resolve_page s2 (shl64 ea 9)) as [pf|] eqn:Erp; [|reflexivity].
      wsimp.
      apply IH.
      * cbn [length] in Hlen. lia.
      * apply P.keeps_zero. apply (P.keeps_wr s1 f i).
        { apply P.set_flags_lt; [apply P.set_frame_lt; apply P.zero_lt | apply P.P_RW_lt]. }
        apply (P.keeps_alloc _ _ _ Ea). exact Hw.
      * exact Hst'.
    + apply IH; [cbn [length] in Hlen; lia | exact Hw | exact Hst].
Qed.
