(** The Go-side helpers of the page-table model (Vmm/Pt.v) are equal, on 64-bit words, to the Gallina
    terms that gen/gotrans regenerates from kernel/mm/vmm/pdt.go and kernel/mm/page.go on every run. *)
From Coq Require Import NArith Lia Bool.
From Coq Require Import ZifyBool ZifyN ZifyNat.
From FF Require Import Lib.Word Lib.GoOps Lib.GoOpsProofs Gen.Consts_mm_vmm Gen.Trans_mm_vmm Vmm.Pt.
Local Open Scope N_scope.

Lemma lt_two64_bits x : (forall n, 64 <= n -> N.testbit x n = false) -> x < two64.
Proof.
  intros H. destruct (N.lt_ge_cases x two64) as [Hlt|Hge]; [exact Hlt|exfalso].
  assert (Hx: x <> 0) by (unfold two64 in Hge; lia).
  pose proof (N.bit_log2 x Hx) as Hb.
  assert (64 <= N.log2 x). { change 64 with (N.log2 two64). apply N.log2_le_mono. exact Hge. }
  rewrite H in Hb by assumption. discriminate.
Qed.

Lemma land_lt_l a b : a < two64 -> N.land a b < two64.
Proof. intros H. apply lt_two64_bits. intros n Hn. rewrite N.land_spec, (testbit_high a n H Hn). reflexivity. Qed.

Lemma lor_lt a b : a < two64 -> b < two64 -> N.lor a b < two64.
Proof.
  intros Ha Hb. apply lt_two64_bits. intros n Hn.
  rewrite N.lor_spec, (testbit_high a n Ha Hn), (testbit_high b n Hb Hn). reflexivity.
Qed.

Lemma ldiff_lt a b : a < two64 -> N.ldiff a b < two64.
Proof. intros H. apply lt_two64_bits. intros n Hn. rewrite N.ldiff_spec, (testbit_high a n H Hn). reflexivity. Qed.

Lemma shiftr_lt a k : a < two64 -> N.shiftr a k < two64.
Proof.
  intros H. apply lt_two64_bits. intros n Hn. rewrite N.shiftr_spec by lia.
  apply testbit_high; [exact H|lia].
Qed.

Theorem pte_helpers_are_translation e fl frame :
  e < two64 -> fl < two64 -> frame < two64 ->
  go_vmm_pageTableEntry_HasFlags e fl = has_flags e fl /\
  go_vmm_pageTableEntry_SetFlags e fl = set_flags e fl /\
  go_vmm_pageTableEntry_ClearFlags e fl = clear_flags e fl /\
  go_vmm_pageTableEntry_Frame e = pte_frame e /\
  go_vmm_pageTableEntry_SetFrame e frame = set_frame e frame /\
  go_mm_Frame_Address frame = frame_addr frame /\
  go_mm_Page_Address frame = frame_addr frame.
Proof.
  intros He Hf Hfr.
  unfold go_vmm_pageTableEntry_HasFlags, go_vmm_pageTableEntry_SetFlags, go_vmm_pageTableEntry_ClearFlags,
    go_vmm_pageTableEntry_Frame, go_vmm_pageTableEntry_SetFrame, go_mm_Frame_Address, go_mm_Page_Address,
    has_flags, set_flags, clear_flags, pte_frame, set_frame, frame_addr, shl64, andnot.
  rewrite !(gw64_small e He), !(gw64_small fl Hf).
  assert (Hm: vmm_ptePhysPageMask < two64) by reflexivity.
  repeat split.
  - apply gw64_small. apply lor_lt; assumption.
  - apply gw64_small. apply ldiff_lt; assumption.
  - apply gw64_small. apply shiftr_lt. apply land_lt_l. exact He.
  - rewrite !gw64. rewrite (w64_small (w64 _)) by apply w64_lt.
    apply w64_small. apply lor_lt; [apply ldiff_lt; exact He|apply w64_lt].
  - rewrite !gw64. apply w64_small. apply w64_lt.
  - rewrite !gw64. apply w64_small. apply w64_lt.
Qed.
