(** C06 [zero_frame_inv]: over any history of mapping-interface calls and faults the zero frame is never
    mapped writable and its contents stay zero. *)
From Coq Require Import NArith ZArith Lia List Bool.
From Coq Require Import ZifyBool ZifyN ZifyNat.
From FF Require Import Lib.Word Gen.Consts_mm_vmm Vmm.Region Vmm.Pt Vmm.PtMem Vmm.PtArith Vmm.PtTree Vmm.PtMap Vmm.PtOps Vmm.PtTheorems Vmm.PtPdt Vmm.PtFault Vmm.PtCow.
Import ListNotations.
Local Open Scope N_scope.
Ltac Zify.zify_post_hook ::= Z.div_mod_to_equations.

Definition rw_bit (fl : N) : bool := N.testbit fl 1.

Lemma wants_rw_bit flags : wants_rw flags = N.testbit flags 1.
Proof.
  unfold wants_rw. rewrite flag_rw_val. change 2 with (2 ^ 1).
  destruct (N.testbit flags 1) eqn:E.
  - apply negb_true_iff. apply N.eqb_neq. intros H. apply (f_equal (fun x => N.testbit x 1)) in H.
    rewrite N.land_spec, E, N.pow2_bits_true in H. discriminate.
  - apply negb_false_iff. apply N.eqb_eq. apply N.bits_inj. intros n. rewrite N.land_spec, N.bits_0.
    destruct (N.eq_dec n 1) as [->|Hn]; [rewrite E; reflexivity|]. rewrite N.pow2_bits_false by congruence. apply andb_false_r.
Qed.

(** the invariant *)
Record ZInv (s : st) (A : N) (own : ownmap) : Prop := {
  z_inv : Inv s A A own;
  z_prot : prot s = true;
  z_own : own (zf s) = None;
  z_orc : ~ In (zf s) (orc s);
  z_backed : backed s (zf s) = true;
  z_zero : forall i, ent s (zf s) i = 0;
  z_ro : forall q fl, hw_idx q 0 <> 511 -> translation s A q = Some (zf s, fl) -> N.testbit fl 1 = false
}.

Lemma translation_of_entry s A q e :
  aspace s A q = Some e -> translation s A q = if hw_P e then Some (hw_frame e, N.ldiff e vmm_ptePhysPageMask) else None.
Proof. unfold translation. intros ->. reflexivity. Qed.

Lemma skipn_in {X} (x : X) n l : In x (skipn n l) -> In x l.
Proof. intros H. rewrite <- (firstn_skipn n l). apply in_or_app. right. exact H. Qed.

(** Map (any page outside the recursive window, any frame below 2^40, any flag bits) *)
Lemma zinv_map s A own page frame flags :
  ZInv s A own -> hw_idx page 0 <> 511 -> frame < 2 ^ 40 -> N.land flags vmm_ptePhysPageMask = 0 ->
  exists s' err own', map_page page frame flags s = Ok (s', err) /\ ZInv s' A own'.
Proof.
  intros [HI Hp Hoz Hnz Hbz Hzz Hro] H511 Hf Hfl.
  destruct (zero_guard s frame flags) eqn:Hg.
  { exists s, E_ZERO_RW, own. split; [apply map_page_guarded; exact Hg | split; assumption]. }
  destruct (map_ok s A A own page frame flags HI H511 Hg) as
      (s' & err & own' & Hrun & HI' & Henv & Herr & Hok & Hfail & Hfr & _ & (n & Hn & Hown) & _).
  exists s', err, own'. split; [exact Hrun|].
  destruct Henv as (E1 & E2 & E3 & E4 & E5 & Ez & Ep & _).
  assert (Hoz': own' (zf s) = None).
  { destruct (Hown (zf s)) as [E | (_ & Hin & _)]; [rewrite E; exact Hoz | exfalso; apply Hnz; eapply in_firstn; exact Hin]. }
  split.
  - exact HI'.
  - rewrite Ep. exact Hp.
  - rewrite Ez. exact Hoz'.
  - rewrite Ez, Hn. intros Hin. apply Hnz. eapply skipn_in; exact Hin.
  - rewrite Ez. unfold backed in *. rewrite E1, E2. exact Hbz.
  - intros i. rewrite Ez, Hfr by exact Hoz'. apply Hzz.
  - intros q fl Hq Htr. rewrite Ez in Htr.
    destruct (N.eq_dec err 0) as [E0|E0].
    + destruct (Hok E0) as (Ha & Hoth & _).
      destruct (list_eq_dec N.eq_dec (ixs q) (ixs page)) as [Esame|Hdiff].
      * (* the mapped page itself *)
        assert (Ha': aspace s' A q = Some (set_flags (set_frame 0 frame) flags)) by (unfold aspace in *; rewrite Esame; exact Ha).
        rewrite (translation_of_entry _ _ _ _ Ha') in Htr.
        destruct (leaf_exact frame flags Hf Hfl) as (_ & L2 & L3 & L4).
        rewrite L2, L3, L4 in Htr. destruct (N.testbit flags 0); [|discriminate].
        injection Htr as Ef Efl. subst fl frame.
        unfold zero_guard in Hg. rewrite Hp, N.eqb_refl in Hg. cbn [andb] in Hg.
        fold (wants_rw flags) in Hg. rewrite wants_rw_bit in Hg. exact Hg.
      * rewrite (Hoth q Hq Hdiff) in Htr. exact (Hro q fl Hq Htr).
    + destruct (Hfail E0) as (Hoth & _). rewrite (Hoth q Hq) in Htr. exact (Hro q fl Hq Htr).
Qed.

Lemma zinv_unmap s A own page :
  ZInv s A own -> hw_idx page 0 <> 511 ->
  exists s' err, unmap_page page s = Ok (s', err) /\ ZInv s' A own.
Proof.
  intros [HI Hp Hoz Hnz Hbz Hzz Hro] H511.
  destruct (unmap_ok s A A own page HI H511) as (s' & err & Hrun & Herr & HI' & Henv & Horc & Hinv & Hok).
  exists s', err. split; [exact Hrun|].
  destruct Herr as [E0|E0].
  - destruct (Hok E0) as (e & _ & _ & Htp & Hoth & _ & Hfr & _).
    destruct Henv as (E1 & E2 & E3 & E4 & E5 & Ez & Ep & _).
    split.
    + exact HI'.
    + rewrite Ep. exact Hp.
    + rewrite Ez. exact Hoz.
    + rewrite Ez, Horc. exact Hnz.
    + rewrite Ez. unfold backed in *. rewrite E1, E2. exact Hbz.
    + intros i. rewrite Ez, Hfr by exact Hoz. apply Hzz.
    + intros q fl Hq Htr. rewrite Ez in Htr.
      destruct (list_eq_dec N.eq_dec (ixs q) (ixs page)) as [Esame|Hdiff].
      * unfold translation, aspace in *. rewrite Esame in Htr. rewrite Htp in Htr. discriminate.
      * unfold translation in Htr. rewrite (Hoth q Hq Hdiff) in Htr. exact (Hro q fl Hq Htr).
  - destruct (Hinv E0) as [Es _]. rewrite Es. split; assumption.
Qed.

Lemma P_RW_mask : N.land P_RW vmm_ptePhysPageMask = 0.
Proof. reflexivity. Qed.

Lemma zinv_map_temp s A own frame :
  ZInv s A own -> frame < 2 ^ 40 ->
  exists s' err pg own', map_temporary frame s = Ok (s', err, pg) /\ ZInv s' A own'.
Proof.
  intros HZ Hf. unfold map_temporary.
  destruct (prot s && (frame =? zf s)) eqn:Hg.
  { exists s, E_ZERO_RW, 0, own. split; [reflexivity | exact HZ]. }
  destruct (zinv_map s A own temp_page frame P_RW HZ temp_idx0 Hf P_RW_mask) as (s' & err & own' & Hrun & HZ').
  rewrite Hrun. destruct (err =? 0); eexists _, _, _, own'; (split; [reflexivity | exact HZ']).
Qed.

(** a fault on a page that shares the zero frame *)
Lemma zinv_fault s A own addr s' :
  ZInv s A own -> hw_idx (page_from_addr addr) 0 <> 511 -> ~ same_page (page_from_addr addr) temp_page ->
  (forall e, cow_pre s A (page_from_addr addr) = Some e -> hw_frame e = zf s) ->
  page_fault addr s = Ok (s', 0) ->
  exists own', ZInv s' A own'.
Proof.
  intros [HI Hp Hoz Hnz Hbz Hzz Hro] H511 Hnt Hshare Hrun.
  destruct (fault_resume_only_cow s A own addr s' HI H511 Hrun) as (e & s1 & cp & s2 & pg & Hpre & Hal & Hmt).
  pose proof (Hshare e Hpre) as Hez.
  destruct (cow_ok s A own addr e s1 cp s2 pg HI H511 Hnt Hpre) as
      (s5 & own' & Hrun5 & HI5 & Henv & Hasp & Hcont & Hoth & Htemp & Hfr & Hocp & _ & (n & Hn) & Hown); try assumption.
  { rewrite Hez. exact Hbz. } { rewrite Hez. exact Hoz. } { rewrite Hez. exact Hnz. }
  rewrite Hrun in Hrun5. injection Hrun5 as E5. subst s5.
  (* the copy frame is not the zero frame: MapTemporary would have refused *)
  assert (Hcpz: cp <> zf s).
  { intros E. unfold alloc in Hal. destruct (orc s) as [|x r]; [discriminate|].
    destruct (x =? 0); [discriminate|]. injection Hal as Es1 Ecp. subst x.
    unfold map_temporary in Hmt. rewrite <- Es1 in Hmt. cbn [prot zf set_orc] in Hmt.
    rewrite Hp, E, N.eqb_refl in Hmt. discriminate. }
  destruct Henv as (E1 & E2 & E3 & E4 & E5 & Ez & Ep & _).
  assert (Hoz': own' (zf s) = None).
  { destruct (Hown (zf s)) as [E | (_ & Hin & _)]; [rewrite E; exact Hoz | exfalso; exact (Hnz Hin)]. }
  exists own'. split.
  - exact HI5.
  - rewrite Ep. exact Hp.
  - rewrite Ez. exact Hoz'.
  - rewrite Ez, Hn. intros Hin. apply Hnz. eapply skipn_in; exact Hin.
  - rewrite Ez. unfold backed in *. rewrite E1, E2. exact Hbz.
  - intros i. rewrite Ez, Hfr; [apply Hzz | exact Hoz' | congruence].
  - intros q fl Hq Htr. rewrite Ez in Htr.
    destruct (list_eq_dec N.eq_dec (ixs q) (ixs (page_from_addr addr))) as [Esame|Hdiff].
    + (* the faulting page now maps the copy frame *)
      exfalso.
      assert (Ha': aspace s' A q = Some (cow_entry e cp)) by (unfold aspace in *; rewrite Esame; exact Hasp).
      rewrite (translation_of_entry _ _ _ _ Ha') in Htr.
      assert (Hcp40: cp < 2 ^ 40).
      { unfold alloc in Hal. destruct (orc s) as [|x r] eqn:Eo; [discriminate|].
        destruct (N.eqb_spec x 0); [discriminate|]. injection Hal as Es1 Ecp. subst x.
        destruct (inv_fresh _ _ _ _ HI) as [_ F2]. destruct (F2 cp) as (Hb & _); [rewrite Eo; left; reflexivity | assumption |].
        eapply backed_lt40; [exact (wf_arena _ _ _ (inv_wf _ _ _ _ HI)) | exact Hb]. }
      destruct (cow_entry_bits e cp Hcp40) as (B1 & B2 & _). rewrite B1, B2 in Htr. injection Htr as Ecp _. congruence.
    + destruct (list_eq_dec N.eq_dec (ixs q) (ixs temp_page)) as [Et|Hdt].
      * unfold translation, aspace in *. rewrite Et in Htr. rewrite Htemp in Htr. discriminate.
      * rewrite (Hoth q Hq Hdiff Hdt) in Htr. exact (Hro q fl Hq Htr).
Qed.

(** * Histories *)
Inductive zop :=
| ZMap (page frame flags : N)
| ZUnmap (page : N)
| ZMapTemp (frame : N)
| ZFault (addr : N).

(** the quantifier's domain for one request in state [s] *)
Definition zdom1 (A : N) (o : zop) (s : st) : Prop :=
  match o with
  | ZMap page frame flags => hw_idx page 0 <> 511 /\ frame < 2 ^ 40 /\ N.land flags vmm_ptePhysPageMask = 0
  | ZUnmap page => hw_idx page 0 <> 511
  | ZMapTemp frame => frame < 2 ^ 40
  | ZFault addr => hw_idx (page_from_addr addr) 0 <> 511 /\ ~ same_page (page_from_addr addr) temp_page /\
                   (forall e, cow_pre s A (page_from_addr addr) = Some e -> hw_frame e = zf s)
  end.

(** one request; [None] = the kernel panicked (the history ends) or a stray access *)
Definition zstep (o : zop) (s : st) : option st :=
  match o with
  | ZMap page frame flags => match map_page page frame flags s with Ok (s', _) => Some s' | Stray => None end
  | ZUnmap page => match unmap_page page s with Ok (s', _) => Some s' | Stray => None end
  | ZMapTemp frame => match map_temporary frame s with Ok (s', _, _) => Some s' | Stray => None end
  | ZFault addr => match page_fault addr s with Ok (s', out) => if out =? 0 then Some s' else None | Stray => None end
  end.

(** every state a history passes through *)
Fixpoint ztrace (ops : list zop) (s : st) : list st :=
  match ops with
  | [] => [s]
  | o :: r => s :: match zstep o s with Some s' => ztrace r s' | None => [] end
  end.

Fixpoint zdom (A : N) (ops : list zop) (s : st) : Prop :=
  match ops with
  | [] => True
  | o :: r => zdom1 A o s /\ match zstep o s with Some s' => zdom A r s' | None => True end
  end.

Theorem zero_frame_inv A ops : forall s own,
  ZInv s A own -> zdom A ops s -> Forall (fun s' => exists own', ZInv s' A own') (ztrace ops s).
Proof.
  induction ops as [|o r IH]; intros s own HZ Hd; cbn [ztrace].
  - constructor; [exists own; exact HZ | constructor].
  - constructor; [exists own; exact HZ|].
    destruct Hd as [Hd1 Hdr].
    destruct o as [page frame flags | page | frame | addr]; cbn [zstep zdom1] in *.
    + destruct Hd1 as (H1 & H2 & H3).
      destruct (zinv_map s A own page frame flags HZ H1 H2 H3) as (s' & err & own' & Hrun & HZ').
      rewrite Hrun in *. exact (IH s' own' HZ' Hdr).
    + destruct (zinv_unmap s A own page HZ Hd1) as (s' & err & Hrun & HZ').
      rewrite Hrun in *. exact (IH s' own HZ' Hdr).
    + destruct (zinv_map_temp s A own frame HZ Hd1) as (s' & err & pg & own' & Hrun & HZ').
      rewrite Hrun in *. exact (IH s' own' HZ' Hdr).
    + destruct Hd1 as (H1 & H2 & H3).
      destruct (page_fault addr s) as [[s' out]|] eqn:Hrun; [|constructor].
      destruct (N.eqb_spec out 0) as [->|]; [|constructor].
      destruct (zinv_fault s A own addr s' HZ H1 H2 H3 Hrun) as (own' & HZ').
      exact (IH s' own' HZ' Hdr).
Qed.
