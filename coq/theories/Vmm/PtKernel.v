(** C05 [kernel_aspace]: setupPDTForKernel builds exactly the address space its section table and the
    early reservations describe, and activates it. *)
From Coq Require Import NArith ZArith Lia List Bool.
From Coq Require Import ZifyBool ZifyN ZifyNat.
From FF Require Import Lib.Word Gen.Consts_mm_vmm Vmm.Region Vmm.Pt Vmm.PtMem Vmm.PtArith Vmm.PtTree Vmm.PtMap Vmm.PtOps
     Vmm.PtTheorems Vmm.PtInit Vmm.PtPdt Vmm.PtFault Vmm.PtCow Vmm.PtZero Vmm.PtTemp Vmm.PtHist.
Import ListNotations.
Local Open Scope N_scope.
Ltac Zify.zify_post_hook ::= Z.div_mod_to_equations.

(** * The binary loops are plain bounded iteration with early exit *)
Section IterNat.
  Context {S T : Type}.
  Variable f : S -> S + T.
  Fixpoint iter_nat (n : nat) (s : S) : S + T :=
    match n with
    | O => inl s
    | Datatypes.S n' => match f s with inl s' => iter_nat n' s' | inr r => inr r end
    end.

  Lemma iter_nat_add a b s :
    iter_nat (a + b) s = match iter_nat a s with inl s' => iter_nat b s' | inr r => inr r end.
  Proof.
    revert s. induction a as [|a IH]; intros s; cbn [Nat.add iter_nat]; [reflexivity|].
    destruct (f s); [apply IH | reflexivity].
  Qed.

  Lemma iter_pos_nat p s : iter_pos f p s = iter_nat (Pos.to_nat p) s.
  Proof.
    revert s. induction p as [p IH|p IH|]; intros s; cbn [iter_pos].
    - rewrite Pos2Nat.inj_xI. cbn [iter_nat]. destruct (f s) as [s'|r]; [|reflexivity].
      replace (2 * Pos.to_nat p)%nat with (Pos.to_nat p + Pos.to_nat p)%nat by lia.
      rewrite iter_nat_add, <- IH. destruct (iter_pos f p s'); [apply IH | reflexivity].
    - rewrite Pos2Nat.inj_xO. replace (2 * Pos.to_nat p)%nat with (Pos.to_nat p + Pos.to_nat p)%nat by lia.
      rewrite iter_nat_add, <- IH. destruct (iter_pos f p s); [apply IH | reflexivity].
    - change (Pos.to_nat 1) with 1%nat. cbn [iter_nat]. destruct (f s); reflexivity.
  Qed.

  Lemma iter_n_nat n s : iter_n f n s = iter_nat (N.to_nat n) s.
  Proof. destruct n as [|p]; [reflexivity|]. cbn [iter_n N.to_nat]. apply iter_pos_nat. Qed.
End IterNat.

(** * The abstract address space being built *)
(** [n] consecutive pages from [p0] onto consecutive frames from [f0] *)
Fixpoint mrange (m : amap) (p0 f0 flags : N) (n : nat) : amap :=
  match n with
  | O => m
  | S n' => mrange (aupd m (ixs p0) (Some (f0, flags))) (p0 + 1) (f0 + 1) flags n'
  end.

(** * The state of the construction: A active (tree [ownA]), T under construction (tree [own]) *)
Record Kst (s0 s : st) (A T : N) (ownA own : ownmap) (m : amap) : Prop := {
  k_inv2 : Inv2 s A T ownA own;
  k_slot : pdts s kernel_slot = T;
  k_prot : prot s = false;
  k_ref : forall q, hw_idx q 0 <> 511 -> translation s T q = m (ixs q);
  k_A : forall q, hw_idx q 0 <> 511 -> aspace s A q = aspace s0 A q;
  k_cr3 : cr3 s = cr3 s0;
  k_last : last s = last s0;
  k_slog : slog s = slog s0
}.

Lemma Forall_skipn {X} (P : X -> Prop) n l : Forall P l -> Forall P (skipn n l).
Proof.
  revert l. induction n as [|n IH]; intros l H; [exact H|]. destruct l as [|x l]; [constructor|].
  cbn [skipn]. inversion H; subst. apply IH. assumption.
Qed.

Lemma Forall_firstn {X} (P : X -> Prop) n l : Forall P l -> Forall P (firstn n l).
Proof.
  revert l. induction n as [|n IH]; intros l H; [constructor|]. destruct l as [|x l]; [constructor|].
  cbn [firstn]. inversion H; subst. constructor; [assumption | apply IH; assumption].
Qed.

Definition flags_ok (flags : N) : Prop := N.land flags vmm_ptePhysPageMask = 0 /\ N.testbit flags 0 = true.

(** one PageDirectoryTable.Map of the construction *)
Lemma kstep s0 s A T ownA own m page frame flags :
  Kst s0 s A T ownA own m -> hw_idx page 0 <> 511 -> frame < 2 ^ 40 -> flags_ok flags ->
  exists s' err own',
    pdt_map kernel_slot page frame flags s = Ok (s', err) /\ (err = 0 \/ err = E_ALLOC) /\
    (err = 0 -> Kst s0 s' A T ownA own' (aupd m (ixs page) (Some (frame, flags)))) /\
    (err <> 0 -> cr3 s' = cr3 s0 /\ slog s' = slog s0) /\
    (length (orc s) <= length (orc s') + 3)%nat /\
    ((3 <= length (orc s))%nat -> Forall (fun x => x <> 0) (firstn 3 (orc s)) -> err = 0) /\
    (Forall (fun x => x <> 0) (orc s) -> Forall (fun x => x <> 0) (orc s')).
Proof.
  intros [HI2 Hslot Hp Href HA Hcr Hlast Hslog] H511 Hf [Hfl HP].
  assert (Hg: zero_guard s frame flags = false) by (unfold zero_guard; rewrite Hp; reflexivity).
  destruct (pdt_map_inactive s A T ownA own kernel_slot page frame flags HI2 Hslot H511 Hg) as
      (s3 & err & own' & Hrun & HI3 & Herr & _ & HaspA & Hok & Hfail & Henv & (n & Hn & _) & Hb1 & Hb2).
  exists s3, err, own'. split; [exact Hrun|]. split; [exact Herr|].
  destruct Henv as (E1 & E2 & E3 & E4 & E5 & Ez & Ep & Epd & Ein).
  split.
  - intros E0. destruct (Hok E0) as (Ha & Hoth & _).
    split.
    + exact HI3.
    + rewrite Epd. exact Hslot.
    + rewrite Ep. exact Hp.
    + intros q Hq. unfold aupd. destruct (list_eq_dec N.eq_dec (ixs q) (ixs page)) as [Es|Hne].
      * unfold translation, aspace. rewrite Es. unfold aspace in Ha. rewrite Ha.
        destruct (leaf_exact frame flags Hf Hfl) as (_ & L2 & L3 & L4). rewrite L2, L3, L4, HP. reflexivity.
      * rewrite (Hoth q Hq Hne). apply Href. exact Hq.
    + intros q Hq. rewrite (HaspA q Hq). apply HA. exact Hq.
    + rewrite E3. exact Hcr.
    + rewrite E5. exact Hlast.
    + rewrite E4. exact Hslog.
  - split; [intros _; split; [rewrite E3; exact Hcr | rewrite E4; exact Hslog]|]. split; [exact Hb1|]. split; [exact Hb2|].
    intros H0. rewrite Hn. apply Forall_skipn. exact H0.
Qed.

(** * The page loop of a section *)
Definition nz (l : list N) : Prop := Forall (fun x => x <> 0) l.

Lemma page_loop s0 A T ownA flags : forall n s own m p0 f0,
  Kst s0 s A T ownA own m -> flags_ok flags ->
  (forall j, (j < n)%nat -> hw_idx (p0 + N.of_nat j) 0 <> 511) ->
  p0 + N.of_nat n <= 2 ^ 52 -> f0 + N.of_nat n <= 2 ^ 40 ->
  (exists s' own', iter_nat (map_step (fun p f => pdt_map kernel_slot p f flags)) n (s, p0, f0) = inl (s', p0 + N.of_nat n, f0 + N.of_nat n) /\
                   Kst s0 s' A T ownA own' (mrange m p0 f0 flags n) /\
                   (length (orc s) <= length (orc s') + 3 * n)%nat /\ (nz (orc s) -> nz (orc s'))) \/
  (exists s', iter_nat (map_step (fun p f => pdt_map kernel_slot p f flags)) n (s, p0, f0) = inr (Some (s', E_ALLOC)) /\
              cr3 s' = cr3 s0 /\ slog s' = slog s0 /\
              ~ ((3 * n <= length (orc s))%nat /\ nz (orc s))).
Proof.
  induction n as [|n IH]; intros s own m p0 f0 HK Hfl H511 Hp Hf.
  - left. exists s, own. cbn [iter_nat mrange N.of_nat]. rewrite !N.add_0_r. split; [reflexivity|]. split; [exact HK|]. split; [lia | tauto].
  - cbn [iter_nat map_step].
    assert (H0: hw_idx p0 0 <> 511) by (specialize (H511 0%nat ltac:(lia)); rewrite N.add_0_r in H511; exact H511).
    destruct (kstep s0 s A T ownA own m p0 f0 flags HK H0 ltac:(lia) Hfl) as (s1 & err & own1 & Hrun & Herr & Hok & Hfail & Hb1 & Hb2 & Hb3).
    rewrite Hrun.
    destruct (N.eqb_spec err 0) as [E0|E0].
    + specialize (Hok E0).
      assert (Ew1: w64 (p0 + 1) = p0 + 1) by (apply w64_small; unfold two64; change (2 ^ 52) with 4503599627370496 in Hp; lia).
      assert (Ew2: w64 (f0 + 1) = f0 + 1) by (apply w64_small; unfold two64; change (2 ^ 40) with 1099511627776 in Hf; lia).
      rewrite Ew1, Ew2.
      destruct (IH s1 own1 _ (p0 + 1) (f0 + 1) Hok Hfl) as [(s' & own' & Hr & HK' & Hlen & Hnz') | (s' & Hr & Hc & Hsl & Hne)].
      * intros j Hj. replace (p0 + 1 + N.of_nat j) with (p0 + N.of_nat (S j)) by lia. apply H511. lia.
      * lia.
      * lia.
      * left. exists s', own'. rewrite Hr. replace (p0 + 1 + N.of_nat n) with (p0 + N.of_nat (S n)) by lia.
        replace (f0 + 1 + N.of_nat n) with (f0 + N.of_nat (S n)) by lia.
        split; [reflexivity|]. split; [exact HK'|]. split; [lia | tauto].
      * right. exists s'. rewrite Hr. split; [reflexivity|]. split; [exact Hc|]. split; [exact Hsl|].
        intros [Hl Hnz]. apply Hne. split; [lia | exact (Hb3 Hnz)].
    + right. destruct Herr as [E|E]; [congruence|]. subst err. exists s1. split; [reflexivity|].
      destruct (Hfail E0) as [Hc Hsl]. split; [exact Hc|]. split; [exact Hsl|].
      intros [Hl Hnz]. apply E0. apply Hb2; [lia | apply Forall_firstn; exact Hnz].
Qed.

(** * One section *)
Definition sec_flags (sflags : N) : N :=
  let fl1 := if N.land sflags sec_executable =? 0 then N.lor vmm_FlagPresent vmm_FlagNoExecute else vmm_FlagPresent in
  if negb (N.land sflags sec_writable =? 0) then N.lor fl1 vmm_FlagRW else fl1.
Definition sec_cur (addr : N) : N := page_from_addr addr.
Definition sec_last (addr size : N) : N := page_from_addr (w64 (addr + w64 (size + (two64 - 1)))).
Definition sec_n (addr size : N) : N :=
  if sec_cur addr <=? sec_last addr size then sec_last addr size - sec_cur addr + 1 else 0.
Definition sec_frame (off addr : N) : N := N.shiftr (w64 (addr + two64 - off)) mm_PageShift.

Lemma sec_flags_ok sflags : flags_ok (sec_flags sflags).
Proof.
  unfold sec_flags, flags_ok.
  destruct (N.land sflags sec_executable =? 0); destruct (negb (N.land sflags sec_writable =? 0)); split; reflexivity.
Qed.

(** the four possible flag words: present, never user-accessible; NX unless executable; RW iff writable *)
Lemma sec_flags_val sflags :
  sec_flags sflags =
  N.lor (N.lor vmm_FlagPresent (if N.land sflags sec_executable =? 0 then vmm_FlagNoExecute else 0))
        (if N.land sflags sec_writable =? 0 then 0 else vmm_FlagRW) /\
  N.land (sec_flags sflags) vmm_FlagUserAccessible = 0.
Proof.
  unfold sec_flags.
  destruct (N.land sflags sec_executable =? 0); destruct (N.land sflags sec_writable =? 0); split; reflexivity.
Qed.

(** a section inside the quantifier: its pages avoid the recursive window, its frames stay below 2^40 *)
Definition sec_dom (off : N) (sec : section) : Prop :=
  let '(sflags, addr, size) := sec in
  addr < off \/
  ((forall j, j < sec_n addr size -> hw_idx (sec_cur addr + j) 0 <> 511) /\
   sec_cur addr + sec_n addr size <= 2 ^ 52 /\ sec_frame off addr + sec_n addr size <= 2 ^ 40).

Definition asec (off : N) (sec : section) (m : amap) : amap :=
  let '(sflags, addr, size) := sec in
  if addr <? off then m
  else mrange m (sec_cur addr) (sec_frame off addr) (sec_flags sflags) (N.to_nat (sec_n addr size)).

Definition sec_need (off : N) (sec : section) : nat :=
  let '(sflags, addr, size) := sec in if addr <? off then 0%nat else N.to_nat (sec_n addr size).

Lemma visit_section_err off sec s err : err <> 0 -> visit_section off sec (Ok (s, err)) = Ok (s, err).
Proof.
  intros He. unfold visit_section. destruct sec as [[sflags addr] size].
  destruct (N.eqb_spec err 0); [congruence|]. reflexivity.
Qed.

Lemma visit_section_spec s0 A T ownA off sec s own m :
  Kst s0 s A T ownA own m -> sec_dom off sec ->
  (exists s' own', visit_section off sec (Ok (s, 0)) = Ok (s', 0) /\ Kst s0 s' A T ownA own' (asec off sec m) /\
                   (length (orc s) <= length (orc s') + 3 * sec_need off sec)%nat /\ (nz (orc s) -> nz (orc s'))) \/
  (exists s', visit_section off sec (Ok (s, 0)) = Ok (s', E_ALLOC) /\ cr3 s' = cr3 s0 /\ slog s' = slog s0 /\
              ~ ((3 * sec_need off sec <= length (orc s))%nat /\ nz (orc s))).
Proof.
  intros HK Hd. destruct sec as [[sflags addr] size]. unfold visit_section, sec_dom, asec, sec_need in *.
  cbn [N.eqb negb orb].
  destruct (N.ltb_spec addr off) as [Hlt|Hge].
  { left. exists s, own. split; [reflexivity|]. split; [exact HK|]. split; [lia | tauto]. }
  destruct Hd as [Hd|(H511 & Hp & Hf)]; [lia|].
  fold (sec_flags sflags). fold (sec_cur addr). fold (sec_last addr size). fold (sec_frame off addr). fold (sec_n addr size).
  rewrite iter_n_nat.
  destruct (page_loop s0 A T ownA (sec_flags sflags) (N.to_nat (sec_n addr size)) s own m (sec_cur addr) (sec_frame off addr)
              HK (sec_flags_ok sflags)) as [(s' & own' & Hr & HK' & Hlen & Hnz) | (s' & Hr & Hc & Hsl & Hne)].
  - intros j Hj. apply H511. lia.
  - rewrite N2Nat.id. exact Hp.
  - rewrite N2Nat.id. exact Hf.
  - left. exists s', own'. rewrite Hr. split; [reflexivity|]. split; [exact HK'|]. split; assumption.
  - right. exists s'. rewrite Hr. split; [reflexivity|]. split; [exact Hc|]. split; assumption.
Qed.

(** * All sections *)
Definition asecs (off : N) (secs : list section) (m : amap) : amap := fold_left (fun m sec => asec off sec m) secs m.
Definition secs_need (off : N) (secs : list section) : nat := fold_right (fun sec k => (sec_need off sec + k)%nat) 0%nat secs.

Lemma secs_need_cons off sec r : secs_need off (sec :: r) = (sec_need off sec + secs_need off r)%nat.
Proof. reflexivity. Qed.

Lemma fold_visit_err off secs s err :
  err <> 0 -> fold_left (fun acc sec => visit_section off sec acc) secs (Ok (s, err)) = Ok (s, err).
Proof.
  intros He. induction secs as [|sec r IH]; [reflexivity|]. cbn [fold_left]. rewrite visit_section_err by exact He. exact IH.
Qed.

Lemma sections_spec s0 A T ownA off : forall secs s own m,
  Kst s0 s A T ownA own m -> Forall (sec_dom off) secs ->
  (exists s' own', fold_left (fun acc sec => visit_section off sec acc) secs (Ok (s, 0)) = Ok (s', 0) /\
                   Kst s0 s' A T ownA own' (asecs off secs m) /\
                   (length (orc s) <= length (orc s') + 3 * secs_need off secs)%nat /\ (nz (orc s) -> nz (orc s'))) \/
  (exists s', fold_left (fun acc sec => visit_section off sec acc) secs (Ok (s, 0)) = Ok (s', E_ALLOC) /\
              cr3 s' = cr3 s0 /\ slog s' = slog s0 /\
              ~ ((3 * secs_need off secs <= length (orc s))%nat /\ nz (orc s))).
Proof.
  induction secs as [|sec r IH]; intros s own m HK Hd.
  - left. exists s, own. split; [reflexivity|]. split; [exact HK|]. split; [cbn; lia | tauto].
  - inversion Hd as [|? ? Hd1 Hdr]; subst. cbn [fold_left asecs]. rewrite secs_need_cons.
    destruct (visit_section_spec s0 A T ownA off sec s own m HK Hd1) as [(s1 & own1 & Hr & HK1 & Hlen & Hnz) | (s1 & Hr & Hc & Hsl & Hne)].
    + rewrite Hr. destruct (IH s1 own1 _ HK1 Hdr) as [(s' & own' & Hr' & HK' & Hlen' & Hnz') | (s' & Hr' & Hc' & Hsl' & Hne')].
      * left. exists s', own'. split; [exact Hr'|]. split; [exact HK'|]. split; [lia | tauto].
      * right. exists s'. split; [exact Hr'|]. split; [exact Hc'|]. split; [exact Hsl'|].
        intros [Hl Hz]. apply Hne'. split; [lia | tauto].
    + right. exists s1. rewrite Hr, fold_visit_err by discriminate. split; [reflexivity|]. split; [exact Hc|]. split; [exact Hsl|].
      intros [Hl Hz]. apply Hne. split; [lia | exact Hz].
Qed.

(** * The early reservations *)
Lemma Inv2_A s A T ownA own : Inv2 s A T ownA own -> Inv s A A ownA.
Proof.
  intros [WA WT Hcr Hdisj [F1 F2] HFA].
  destruct (wf_owned _ _ _ WA A [] (wf_root _ _ _ WA)) as (HbA & _).
  destruct (wf_rec _ _ _ WA) as [U1 U2].
  split; [exact WA | exact Hcr | | left; reflexivity |].
  - unfold Rec. repeat split; assumption.
  - split; [exact F1|]. intros f Hin Hz. destruct (F2 f Hin Hz) as (B1 & _ & B3). split; [exact B1|]. split; [|exact B3].
    apply HFA; assumption.
Qed.

Definition resv_lo : N := 0xffffff0000000000.

Lemma resv_idx a : resv_lo <= a -> a < vmm_tempMappingAddr -> hw_idx (N.shiftr a 12) 0 <> 511.
Proof.
  intros H1 H2. rewrite hw_idx_spec by lia. rewrite N.shiftr_div_pow2.
  change (2 ^ 12) with 4096. change (2 ^ (9 * (3 - 0))) with 134217728.
  unfold resv_lo, vmm_tempMappingAddr in *. lia.
Qed.

Lemma page_from_addr_shr a : page_from_addr a = N.shiftr a 12.
Proof.
  unfold page_from_addr. change (mm_PageSize - 1) with (2 ^ 12 - 1). rewrite andnot_pow2, page_shift_val, !N.shiftr_div_pow2.
  change (2 ^ 12) with 4096. lia.
Qed.

Lemma translation_frame_lt s A q f fl : translation s A q = Some (f, fl) -> f < 2 ^ 40.
Proof.
  unfold translation. destruct (aspace s A q) as [e|]; [|discriminate]. destruct (hw_P e); [|discriminate].
  intros E. injection E as E1 _. subst f. apply hw_frame_lt.
Qed.

Lemma P_RW_ok : flags_ok P_RW.
Proof. split; reflexivity. Qed.

(** the reserved pages are copied with the frame they translate to in the old space, present + writable *)
Fixpoint mresv (tr : N -> option (N * N)) (m : amap) (a : N) (n : nat) : amap :=
  match n with
  | O => m
  | S n' => match tr (N.shiftr a 12) with
            | Some (f, _) => mresv tr (aupd m (ixs (N.shiftr a 12)) (Some (f, P_RW))) (a + 4096) n'
            | None => m
            end
  end.

Lemma resv_loop s0 A T ownA : forall n s own m a,
  Kst s0 s A T ownA own m -> resv_lo <= a -> a + 4096 * N.of_nat n <= vmm_tempMappingAddr ->
  (forall j, (j < n)%nat -> translation s0 A (N.shiftr (a + 4096 * N.of_nat j) 12) <> None) ->
  (exists s' own', iter_nat resv_step n (s, a) = inl (s', a + 4096 * N.of_nat n) /\
                   Kst s0 s' A T ownA own' (mresv (translation s0 A) m a n) /\
                   (length (orc s) <= length (orc s') + 3 * n)%nat /\ (nz (orc s) -> nz (orc s'))) \/
  (exists s', iter_nat resv_step n (s, a) = inr (Some (s', E_ALLOC)) /\ cr3 s' = cr3 s0 /\ slog s' = slog s0 /\
              ~ ((3 * n <= length (orc s))%nat /\ nz (orc s))).
Proof.
  induction n as [|n IH]; intros s own m a HK Hlo Hhi Hmapped.
  - left. exists s, own. cbn [iter_nat mresv N.of_nat]. rewrite N.mul_0_r, N.add_0_r.
    split; [reflexivity|]. split; [exact HK|]. split; [lia | tauto].
  - cbn [iter_nat resv_step mresv].
    assert (Ha: a < vmm_tempMappingAddr) by lia.
    pose proof (resv_idx a Hlo Ha) as H511.
    pose proof (Inv2_A _ _ _ _ _ (k_inv2 _ _ _ _ _ _ _ HK)) as HIA.
    rewrite (translate_ok s A A ownA a HIA H511).
    assert (Etr: translation s A (N.shiftr a 12) = translation s0 A (N.shiftr a 12)).
    { unfold translation. rewrite (k_A _ _ _ _ _ _ _ HK _ H511). reflexivity. }
    rewrite Etr.
    specialize (Hmapped 0%nat ltac:(lia)) as Hm0. rewrite N.mul_0_r, N.add_0_r in Hm0.
    destruct (translation s0 A (N.shiftr a 12)) as [[f fl]|] eqn:Et; [|congruence].
    pose proof (translation_frame_lt s0 A _ f fl Et) as Hf40.
    cbn [N.eqb negb].
    assert (Epa: N.shiftr (f * 4096 + a mod 4096) mm_PageShift = f).
    { rewrite page_shift_val, N.shiftr_div_pow2. change (2 ^ 12) with 4096. lia. }
    rewrite Epa, page_from_addr_shr.
    destruct (kstep s0 s A T ownA own m (N.shiftr a 12) f P_RW HK H511 Hf40 P_RW_ok) as
        (s1 & err & own1 & Hrun & Herr & Hok & Hfail & Hb1 & Hb2 & Hb3).
    rewrite Hrun.
    destruct (N.eqb_spec err 0) as [E0|E0].
    + specialize (Hok E0).
      assert (Ew: w64 (a + mm_PageSize) = a + 4096).
      { apply w64_small. unfold two64, vmm_tempMappingAddr in *. change mm_PageSize with 4096. lia. }
      rewrite Ew.
      destruct (IH s1 own1 _ (a + 4096) Hok) as [(s' & own' & Hr & HK' & Hlen & Hnz') | (s' & Hr & Hc & Hsl & Hne)].
      * unfold resv_lo in *. lia.
      * lia.
      * intros j Hj. replace (a + 4096 + 4096 * N.of_nat j) with (a + 4096 * N.of_nat (S j)) by lia. apply Hmapped. lia.
      * left. exists s', own'. change (negb (E_OK =? 0)) with false. cbn iota. rewrite Hr. replace (a + 4096 + 4096 * N.of_nat n) with (a + 4096 * N.of_nat (S n)) by lia.
        split; [reflexivity|]. split; [exact HK'|]. split; [lia | tauto].
      * right. exists s'. change (negb (E_OK =? 0)) with false. cbn iota. rewrite Hr. split; [reflexivity|]. split; [exact Hc|]. split; [exact Hsl|].
        intros [Hl Hz]. apply Hne. split; [lia | exact (Hb3 Hz)].
    + right. destruct Herr as [E|E]; [congruence|]. subst err. exists s1. split; [reflexivity|].
      destruct (Hfail E0) as [Hc Hsl]. split; [exact Hc|]. split; [exact Hsl|].
      intros [Hl Hz]. apply E0. apply Hb2; [lia | apply Forall_firstn; exact Hz].
Qed.

Lemma mresv_ext tr1 tr2 : forall n m a,
  (forall j, (j < n)%nat -> tr1 (N.shiftr (a + 4096 * N.of_nat j) 12) = tr2 (N.shiftr (a + 4096 * N.of_nat j) 12)) ->
  mresv tr1 m a n = mresv tr2 m a n.
Proof.
  induction n as [|n IH]; intros m a H; [reflexivity|]. cbn [mresv].
  specialize (H 0%nat ltac:(lia)) as H0. rewrite N.mul_0_r, N.add_0_r in H0. rewrite H0.
  destruct (tr2 (N.shiftr a 12)) as [[f fl]|]; [|reflexivity].
  apply IH. intros j Hj. replace (a + 4096 + 4096 * N.of_nat j) with (a + 4096 * N.of_nat (S j)) by lia. apply H. lia.
Qed.

Lemma mod36_ixs p :
  p mod 2 ^ 36 = hw_idx p 0 * 134217728 + hw_idx p 1 * 262144 + hw_idx p 2 * 512 + hw_idx p 3.
Proof.
  rewrite !hw_idx_spec by lia.
  change (2 ^ (9 * (3 - 0))) with 134217728. change (2 ^ (9 * (3 - 1))) with 262144.
  change (2 ^ (9 * (3 - 2))) with 512. change (2 ^ (9 * (3 - 3))) with 1.
  change (2 ^ 36) with 68719476736.
  assert (H1: p mod 68719476736 = (p / 134217728) mod 512 * 134217728 + p mod 134217728) by lia.
  assert (H2: p mod 134217728 = (p / 262144) mod 512 * 262144 + p mod 262144) by lia.
  assert (H3: p mod 262144 = (p / 512) mod 512 * 512 + p mod 512) by lia.
  rewrite N.div_1_r, H1, H2, H3. ring.
Qed.

Lemma ixs_mod36 p q : ixs p = ixs q -> p mod 2 ^ 36 = q mod 2 ^ 36.
Proof.
  unfold ixs. intros E. injection E as E0 E1 E2 E3. rewrite !mod36_ixs, E0, E1, E2, E3. reflexivity.
Qed.

Lemma resv_not_temp a : resv_lo <= a -> a + 4096 <= vmm_tempMappingAddr -> ~ same_page (N.shiftr a 12) temp_page.
Proof.
  intros H1 H2 E. apply ixs_mod36 in E. rewrite temp_page_val in E. rewrite N.shiftr_div_pow2 in E.
  change (2 ^ 12) with 4096 in E. change (2 ^ 36) with 68719476736 in E.
  unfold resv_lo, vmm_tempMappingAddr in *. lia.
Qed.

(** the number of reserved pages setupPDTForKernel walks *)
Definition resv_count (l : N) : N :=
  if l <? vmm_tempMappingAddr then (vmm_tempMappingAddr - l + (mm_PageSize - 1)) / mm_PageSize else 0.

Definition live_secs (secs : list section) : list section := filter (fun sec => negb (snd sec =? 0)) secs.

(** the address space setupPDTForKernel is to build: sections in table order, then the reservations *)
Definition kspec (s : st) (A off : N) (secs : list section) : amap :=
  mresv (translation s A) (asecs off (live_secs secs) (fun _ => None)) (last s) (N.to_nat (resv_count (last s))).

Theorem kernel_aspace s A ownA off secs kf r :
  Inv s A A ownA -> prot s = false -> orc s = kf :: r -> kf <> 0 ->
  Forall (sec_dom off) (live_secs secs) ->
  resv_lo <= last s -> last s <= vmm_tempMappingAddr -> last s mod 4096 = 0 ->
  (forall a, last s <= a -> a < vmm_tempMappingAddr -> a mod 4096 = 0 -> translation s A (N.shiftr a 12) <> None) ->
  exists s' err,
    setup_kernel off secs s = Ok (s', err) /\ (err = 0 \/ err = E_ALLOC) /\
    (err = 0 ->
       cr3 s' = frame_addr kf /\ slog s' = frame_addr kf :: slog s /\ pdts s' kernel_slot = kf /\
       (exists own' ownA', Inv2 s' kf A own' ownA') /\
       (forall q, hw_idx q 0 <> 511 -> translation s' kf q = kspec s A off secs (ixs q))) /\
    (err <> 0 -> cr3 s' = cr3 s /\ slog s' = slog s) /\
    ((4 + 3 * (secs_need off (live_secs secs) + N.to_nat (resv_count (last s))) <= length (orc s))%nat -> nz (orc s) -> err = 0).
Proof.
  intros HI Hp Eo Hkz Hdom Hlo Hhi Hal Hmapped.
  pose proof (inv_wf _ _ _ _ HI) as W.
  destruct (inv_fresh _ _ _ _ HI) as [F1 F2].
  destruct (F2 kf) as (Hbk & Hok & HkA); [rewrite Eo; left; reflexivity | exact Hkz |].
  assert (Hkr: ~ In kf r).
  { rewrite Eo, ofr_cons in F1. destruct (N.eqb_spec kf 0); [congruence|]. inversion F1 as [|? ? Hnin _]; subst.
    intros Hin. apply Hnin. apply in_ofr. split; assumption. }
  set (s1 := set_orc s r).
  assert (HI1: Inv s1 A A ownA) by (eapply Inv_pop; eassumption).
  assert (Hg1: (prot s1 && (kf =? zf s1)) = false) by (unfold s1; cbn [prot set_orc]; rewrite Hp; reflexivity).
  destruct (pdt_init_spec s1 A ownA kernel_slot kf HI1 Hg1 Hbk Hok Hkr) as
      (s2 & err2 & ownA1 & Hrun2 & Herr2 & Hslot2 & _ & Elo & Ecnt & Ecr & Ezf & Epr & Elast & Eslog & (n2 & Hn2 & _) & Hok2 & Hfail2 & Hb21 & Hb22).
  unfold setup_kernel, alloc. rewrite Eo. destruct (N.eqb_spec kf 0); [congruence|]. fold s1. rewrite Hrun2.
  destruct (N.eqb_spec err2 0) as [E2|E2]; cbn [negb].
  2:{ exists s2, err2. split; [reflexivity|]. split; [exact Herr2|]. split; [intros H; congruence|].
      split; [intros _; split; [rewrite Ecr | rewrite Eslog]; reflexivity|].
      intros Hlen Hz. rewrite <- Eo in Hlen, Hz. exfalso. apply E2. apply Hb22.
      - unfold s1. cbn [orc set_orc]. rewrite Eo in Hlen. cbn [length] in Hlen. lia.
      - unfold s1. cbn [orc set_orc]. apply Forall_firstn. rewrite Eo in Hz. inversion Hz; assumption. }
  subst err2. destruct (Hok2 eq_refl) as (HI2 & Hempty & HtrA & _ & _).
  (* the construction state, relative to s2 *)
  assert (HK2: Kst s2 s2 A kf ownA1 (own_root kf) (fun _ => None)).
  { split; try reflexivity.
    - exact HI2.
    - exact Hslot2.
    - rewrite Epr. exact Hp.
    - intros q Hq. unfold translation. rewrite (Hempty q Hq). reflexivity. }
  fold (live_secs secs). unfold E_OK.
  assert (Ho2: (length (orc s) <= length (orc s2) + 4)%nat).
  { rewrite Eo. cbn [length]. unfold s1 in Hb21. cbn [orc set_orc] in Hb21. lia. }
  assert (Hz2: nz (orc s) -> nz (orc s2)).
  { intros Hz. rewrite Hn2. apply Forall_skipn. unfold s1. cbn [orc set_orc]. rewrite Eo in Hz. inversion Hz; assumption. }
  destruct (sections_spec s2 A kf ownA1 off (live_secs secs) s2 (own_root kf) _ HK2 Hdom) as
      [(s3 & own3 & Hr3 & HK3 & Hlen3 & Hnz3) | (s3 & Hr3 & Hc3 & Hsl3 & Hne3)].
  2:{ rewrite Hr3. cbn [N.eqb negb]. exists s3, E_ALLOC. split; [reflexivity|]. split; [right; reflexivity|].
      split; [intros H; discriminate|]. split; [intros _; split; [rewrite Hc3, Ecr | rewrite Hsl3, Eslog]; reflexivity|].
      intros Hlen Hz. rewrite <- Eo in Hlen, Hz. exfalso. apply Hne3. split; [lia | exact (Hz2 Hz)]. }
  rewrite Hr3. cbn [N.eqb negb].
  assert (El3: last s3 = last s) by (rewrite (k_last _ _ _ _ _ _ _ HK3), Elast; reflexivity).
  rewrite El3. fold (resv_count (last s)). rewrite iter_n_nat.
  set (nr := N.to_nat (resv_count (last s))).
  assert (Hcount: last s + 4096 * N.of_nat nr = vmm_tempMappingAddr).
  { unfold nr, resv_count. rewrite N2Nat.id. change mm_PageSize with 4096.
    destruct (N.ltb_spec (last s) vmm_tempMappingAddr) as [H|H]; unfold vmm_tempMappingAddr in *; lia. }
  assert (Hm2: forall j, (j < nr)%nat -> translation s2 A (N.shiftr (last s + 4096 * N.of_nat j) 12) =
                                        translation s A (N.shiftr (last s + 4096 * N.of_nat j) 12)).
  { intros j Hj.
    assert (Hlt: last s + 4096 * N.of_nat j + 4096 <= vmm_tempMappingAddr) by lia.
    assert (Hge: resv_lo <= last s + 4096 * N.of_nat j) by (unfold resv_lo in *; lia).
    assert (Hlt': last s + 4096 * N.of_nat j < vmm_tempMappingAddr) by lia.
    rewrite (HtrA _ (resv_idx _ Hge Hlt') (resv_not_temp _ Hge Hlt)). reflexivity. }
  destruct (resv_loop s2 A kf ownA1 nr s3 own3 _ (last s) HK3 Hlo ltac:(lia)) as
      [(s4 & own4 & Hr4 & HK4 & Hlen4 & Hnz4) | (s4 & Hr4 & Hc4 & Hsl4 & Hne4)].
  { intros j Hj. rewrite (Hm2 j Hj). apply Hmapped; [lia | lia |].
    rewrite N.add_mod by discriminate. rewrite Hal. rewrite N.mul_comm, N.mod_mul by discriminate. reflexivity. }
  2:{ rewrite Hr4. exists s4, E_ALLOC. split; [reflexivity|]. split; [right; reflexivity|].
      split; [intros H; discriminate|]. split; [intros _; split; [rewrite Hc4, Ecr | rewrite Hsl4, Eslog]; reflexivity|].
      intros Hlen Hz. rewrite <- Eo in Hlen, Hz. exfalso. apply Hne4. split; [lia | exact (Hnz3 (Hz2 Hz))]. }
  rewrite Hr4. exists (pdt_activate kernel_slot s4), 0. split; [reflexivity|]. split; [left; reflexivity|].
  split; [|split; [intros H; congruence | intros; reflexivity]]. intros _.
  destruct HK4 as [KI Kslot Kp Kref KA Kcr Kl Ksl].
  unfold pdt_activate. cbn [cr3 slog pdts set_slog set_cr3]. rewrite Kslot.
  split; [reflexivity|]. split; [rewrite Ksl, Eslog; reflexivity|]. split; [reflexivity|].
  assert (Hk40: kf < 2 ^ 40) by (eapply backed_lt40; [exact (wf_arena _ _ _ W) | exact Hbk]).
  split.
  { exists own4, ownA1. destruct KI as [WA WT Hcr Hdisj [G1 G2] HFA]. split.
    - apply (WF_ent_eq s4 _ kf own4 WT); reflexivity.
    - apply (WF_ent_eq s4 _ A ownA1 WA); reflexivity.
    - cbn [cr3 set_slog set_cr3].
      rewrite frame_addr_small by (change (2 ^ 40) with 1099511627776 in Hk40; change (2 ^ 52) with 4503599627370496; lia).
      rewrite N.shiftr_shiftl_l by lia. replace (12 - 12) with 0 by lia. apply N.shiftl_0_r.
    - intros f Hf. destruct (ownA1 f) as [p|] eqn:E; [|reflexivity].
      exfalso. apply Hf. apply Hdisj. rewrite E. discriminate.
    - split; [exact G1|]. intros f Hin Hz. destruct (G2 f Hin Hz) as (B1 & B2 & B3).
      split; [exact B1|]. split; [exact (HFA f Hin Hz)|].
      intros E. rewrite E, (wf_root _ _ _ WT) in B2. discriminate.
    - intros f Hin Hz. destruct (G2 f Hin Hz) as (_ & B2 & _). exact B2. }
  intros q Hq. transitivity (translation s4 kf q); [reflexivity|]. rewrite (Kref q Hq).
  unfold kspec. fold nr. rewrite (mresv_ext (translation s2 A) (translation s A) nr _ (last s) Hm2). reflexivity.
Qed.

(** * Reading the specification page by page *)
Lemma ixs_add_inj p a b : a < 2 ^ 36 -> b < 2 ^ 36 -> ixs (p + a) = ixs (p + b) -> a = b.
Proof.
  intros Ha Hb E. apply ixs_mod36 in E. change (2 ^ 36) with 68719476736 in *. lia.
Qed.

Lemma aupd_same m k v : aupd m k v k = v.
Proof. unfold aupd. destruct (list_eq_dec N.eq_dec k k); [reflexivity | congruence]. Qed.

Lemma aupd_other m k v k' : k' <> k -> aupd m k v k' = m k'.
Proof. intros H. unfold aupd. destruct (list_eq_dec N.eq_dec k' k); [congruence | reflexivity]. Qed.

Lemma mrange_out : forall n m p0 f0 fl k,
  (forall j, (j < n)%nat -> ixs (p0 + N.of_nat j) <> k) -> mrange m p0 f0 fl n k = m k.
Proof.
  induction n as [|n IH]; intros m p0 f0 fl k H; [reflexivity|]. cbn [mrange].
  rewrite IH.
  - apply aupd_other. specialize (H 0%nat ltac:(lia)). rewrite N.add_0_r in H. congruence.
  - intros j Hj. replace (p0 + 1 + N.of_nat j) with (p0 + N.of_nat (S j)) by lia. apply H. lia.
Qed.

Lemma mrange_in : forall n m p0 f0 fl j,
  N.of_nat n <= 2 ^ 36 -> (j < n)%nat -> mrange m p0 f0 fl n (ixs (p0 + N.of_nat j)) = Some (f0 + N.of_nat j, fl).
Proof.
  induction n as [|n IH]; intros m p0 f0 fl j Hn Hj; [lia|]. cbn [mrange].
  destruct j as [|j].
  - rewrite N.add_0_r. rewrite mrange_out; [rewrite N.add_0_r; apply aupd_same|].
    intros j' Hj' E. replace (p0 + 1 + N.of_nat j') with (p0 + N.of_nat (S j')) in E by lia.
    rewrite <- (N.add_0_r p0) in E at 2. apply ixs_add_inj in E; change (2 ^ 36) with 68719476736 in *; lia.
  - replace (p0 + N.of_nat (S j)) with (p0 + 1 + N.of_nat j) by lia.
    replace (f0 + N.of_nat (S j)) with (f0 + 1 + N.of_nat j) by lia.
    apply IH; lia.
Qed.

(** page [q] is the [j]-th page of section [sec] (which lies in the kernel's range) *)
Definition sec_page (off : N) (sec : section) (q j : N) : Prop :=
  let '(sflags, addr, size) := sec in off <= addr /\ j < sec_n addr size /\ ixs q = ixs (sec_cur addr + j).
Definition in_sec (off : N) (sec : section) (q : N) : Prop := exists j, sec_page off sec q j.

Lemma asec_out off sec m q : ~ in_sec off sec q -> asec off sec m (ixs q) = m (ixs q).
Proof.
  intros H. destruct sec as [[sflags addr] size]. unfold asec.
  destruct (N.ltb_spec addr off) as [Hlt|Hge]; [reflexivity|].
  apply mrange_out. intros j Hj E. apply H. exists (N.of_nat j). cbn. split; [exact Hge|]. split; [lia | symmetry; exact E].
Qed.

Lemma asec_in off sflags addr size m q j :
  sec_n addr size <= 2 ^ 36 -> sec_page off (sflags, addr, size) q j ->
  asec off (sflags, addr, size) m (ixs q) = Some (sec_frame off addr + j, sec_flags sflags).
Proof.
  intros Hn (Hge & Hj & E). unfold asec.
  destruct (N.ltb_spec addr off) as [Hlt|_]; [lia|].
  rewrite E. rewrite <- (N2Nat.id j) at 1 2. apply mrange_in; [rewrite N2Nat.id; exact Hn | lia].
Qed.

Lemma asecs_cons off sec r m : asecs off (sec :: r) m = asecs off r (asec off sec m).
Proof. reflexivity. Qed.

Lemma asecs_app off l1 l2 m : asecs off (l1 ++ l2) m = asecs off l2 (asecs off l1 m).
Proof. unfold asecs. apply fold_left_app. Qed.

Lemma asecs_out off : forall secs m q, (forall sec, In sec secs -> ~ in_sec off sec q) -> asecs off secs m (ixs q) = m (ixs q).
Proof.
  induction secs as [|sec r IH]; intros m q H; [reflexivity|]. rewrite asecs_cons.
  rewrite IH by (intros sec' Hin; apply H; right; exact Hin).
  apply asec_out. apply H. left. reflexivity.
Qed.

Lemma asecs_in off l1 sflags addr size l2 m q j :
  sec_n addr size <= 2 ^ 36 -> sec_page off (sflags, addr, size) q j ->
  (forall sec, In sec l2 -> ~ in_sec off sec q) ->
  asecs off (l1 ++ (sflags, addr, size) :: l2) m (ixs q) = Some (sec_frame off addr + j, sec_flags sflags).
Proof.
  intros Hn Hp Hl2. rewrite asecs_app, asecs_cons.
  rewrite asecs_out by exact Hl2. apply asec_in; assumption.
Qed.

Lemma mresv_out tr : forall n m a k,
  (forall j, (j < n)%nat -> ixs (N.shiftr (a + 4096 * N.of_nat j) 12) <> k) -> mresv tr m a n k = m k.
Proof.
  induction n as [|n IH]; intros m a k H; [reflexivity|]. cbn [mresv].
  destruct (tr (N.shiftr a 12)) as [[f fl]|]; [|reflexivity].
  rewrite IH.
  - apply aupd_other. specialize (H 0%nat ltac:(lia)). rewrite N.mul_0_r, N.add_0_r in H. congruence.
  - intros j Hj. replace (a + 4096 + 4096 * N.of_nat j) with (a + 4096 * N.of_nat (S j)) by lia. apply H. lia.
Qed.

Lemma resv_pages_distinct a i j :
  a mod 4096 = 0 -> a + 4096 * i < two64 -> a + 4096 * j < two64 ->
  ixs (N.shiftr (a + 4096 * i) 12) = ixs (N.shiftr (a + 4096 * j) 12) -> i < 2 ^ 36 -> j < 2 ^ 36 -> i = j.
Proof.
  intros Ha Hi Hj E Hi36 Hj36. rewrite !N.shiftr_div_pow2 in E. change (2 ^ 12) with 4096 in E.
  replace ((a + 4096 * i) / 4096) with (a / 4096 + i) in E by lia.
  replace ((a + 4096 * j) / 4096) with (a / 4096 + j) in E by lia.
  eapply ixs_add_inj; eassumption.
Qed.

Lemma mresv_in tr : forall n m a j f fl,
  a mod 4096 = 0 -> resv_lo <= a -> a + 4096 * N.of_nat n <= vmm_tempMappingAddr ->
  (forall i, (i < n)%nat -> tr (N.shiftr (a + 4096 * N.of_nat i) 12) <> None) ->
  (j < n)%nat -> tr (N.shiftr (a + 4096 * N.of_nat j) 12) = Some (f, fl) ->
  mresv tr m a n (ixs (N.shiftr (a + 4096 * N.of_nat j) 12)) = Some (f, P_RW).
Proof.
  induction n as [|n IH]; intros m a j f fl Ha Hlo Hhi Hall Hj Htr; [lia|]. cbn [mresv].
  assert (H36: N.of_nat (S n) < 2 ^ 36).
  { unfold vmm_tempMappingAddr, resv_lo in *. change (2 ^ 36) with 68719476736. lia. }
  destruct j as [|j].
  - rewrite N.mul_0_r, N.add_0_r in *. rewrite Htr.
    rewrite mresv_out; [apply aupd_same|].
    intros j' Hj' E. replace (a + 4096 + 4096 * N.of_nat j') with (a + 4096 * N.of_nat (S j')) in E by (clear; lia).
    assert (Hb1: a + 4096 * N.of_nat (S j') < two64) by (clear -Hhi Hj'; unfold vmm_tempMappingAddr, two64 in *; lia).
    assert (Hb2: a + 4096 * 0 < two64) by (clear -Hhi; unfold vmm_tempMappingAddr, two64 in *; lia).
    assert (Hb3: N.of_nat (S j') < 2 ^ 36) by (clear -H36 Hj'; change (2 ^ 36) with 68719476736 in *; lia).
    assert (Hb4: 0 < 2 ^ 36) by reflexivity.
    assert (E': ixs (N.shiftr (a + 4096 * N.of_nat (S j')) 12) = ixs (N.shiftr (a + 4096 * 0) 12)).
    { rewrite N.mul_0_r, N.add_0_r. exact E. }
    pose proof (resv_pages_distinct a _ _ Ha Hb1 Hb2 E' Hb3 Hb4) as Hd. clear -Hd. lia.
  - specialize (Hall 0%nat ltac:(lia)) as H0. rewrite N.mul_0_r, N.add_0_r in H0.
    destruct (tr (N.shiftr a 12)) as [[f0 fl0]|]; [|congruence].
    replace (a + 4096 * N.of_nat (S j)) with (a + 4096 + 4096 * N.of_nat j) in * by lia.
    apply (IH _ (a + 4096) j f fl).
    + rewrite N.add_mod by discriminate. rewrite Ha. reflexivity.
    + unfold resv_lo in *. lia.
    + lia.
    + intros i Hi. replace (a + 4096 + 4096 * N.of_nat i) with (a + 4096 * N.of_nat (S i)) by lia. apply Hall. lia.
    + lia.
    + exact Htr.
Qed.

(** page [q] is the [j]-th reserved page *)
Definition resv_page (s : st) (q : N) (j : nat) : Prop :=
  (j < N.to_nat (resv_count (last s)))%nat /\ ixs q = ixs (N.shiftr (last s + 4096 * N.of_nat j) 12).

(** The address space of [kernel_aspace], read page by page: a page of a section in the kernel's range
    maps to (address - offset)/4096 + i with the section's flag word; a reserved page maps to the frame it
    had in the old space, present and writable; every other page is unmapped -- in particular every
    page of a section below the kernel offset that is not also claimed by one of the above. *)
Theorem kspec_pages s A off secs :
  resv_lo <= last s -> last s <= vmm_tempMappingAddr -> last s mod 4096 = 0 ->
  (forall a, last s <= a -> a < vmm_tempMappingAddr -> a mod 4096 = 0 -> translation s A (N.shiftr a 12) <> None) ->
  (forall sflags addr size, In (sflags, addr, size) (live_secs secs) -> sec_n addr size <= 2 ^ 36) ->
  (* a section page, not claimed by a later section nor by a reservation *)
  (forall l1 sflags addr size l2 q j,
     live_secs secs = l1 ++ (sflags, addr, size) :: l2 -> sec_page off (sflags, addr, size) q j ->
     (forall sec, In sec l2 -> ~ in_sec off sec q) -> (forall i, ~ resv_page s q i) ->
     kspec s A off secs (ixs q) = Some (sec_frame off addr + j, sec_flags sflags)) /\
  (* a reserved page *)
  (forall q j f fl, resv_page s q j -> translation s A (N.shiftr (last s + 4096 * N.of_nat j) 12) = Some (f, fl) ->
     kspec s A off secs (ixs q) = Some (f, P_RW)) /\
  (* anything else *)
  (forall q, (forall sec, In sec (live_secs secs) -> ~ in_sec off sec q) -> (forall i, ~ resv_page s q i) ->
     kspec s A off secs (ixs q) = None).
Proof.
  intros Hlo Hhi Hal Hmapped Hsz.
  set (nr := N.to_nat (resv_count (last s))).
  assert (Hcount: last s + 4096 * N.of_nat nr = vmm_tempMappingAddr).
  { unfold nr, resv_count. rewrite N2Nat.id. change mm_PageSize with 4096.
    destruct (N.ltb_spec (last s) vmm_tempMappingAddr) as [H|H]; unfold vmm_tempMappingAddr in *; lia. }
  assert (Hall: forall i, (i < nr)%nat -> translation s A (N.shiftr (last s + 4096 * N.of_nat i) 12) <> None).
  { intros i Hi. apply Hmapped; [lia | lia |].
    rewrite N.add_mod by discriminate. rewrite Hal. rewrite N.mul_comm, N.mod_mul by discriminate. reflexivity. }
  unfold kspec. fold nr.
  split; [|split].
  - intros l1 sflags addr size l2 q j El Hp Hl2 Hnr.
    rewrite mresv_out by (intros i Hi E; apply (Hnr i); split; [exact Hi | symmetry; exact E]).
    rewrite El. apply asecs_in; try assumption.
    apply (Hsz sflags addr size). rewrite El. apply in_or_app. right. left. reflexivity.
  - intros q j f fl [Hj E] Htr. rewrite E. fold nr in Hj.
    apply (mresv_in (translation s A) nr _ (last s) j f fl Hal Hlo); try assumption. lia.
  - intros q Hns Hnr.
    rewrite mresv_out by (intros i Hi E; apply (Hnr i); split; [exact Hi | symmetry; exact E]).
    rewrite asecs_out by exact Hns. reflexivity.
Qed.

Lemma sec_geometry off addr size :
  0 < size -> addr + size <= two64 -> off <= addr ->
  sec_cur addr = addr / 4096 /\ sec_n addr size = (addr + size - 1) / 4096 - addr / 4096 + 1 /\
  sec_frame off addr = (addr - off) / 4096.
Proof.
  intros Hs Hw Ho.
  assert (Ec: sec_cur addr = addr / 4096).
  { unfold sec_cur. rewrite page_from_addr_shr, N.shiftr_div_pow2. reflexivity. }
  assert (El: sec_last addr size = (addr + size - 1) / 4096).
  { unfold sec_last. rewrite page_from_addr_shr, N.shiftr_div_pow2. change (2 ^ 12) with 4096.
    assert (E1: w64 (size + (two64 - 1)) = size - 1) by (unfold w64, two64 in *; lia).
    rewrite E1. assert (E2: w64 (addr + (size - 1)) = addr + size - 1) by (unfold w64, two64 in *; lia).
    rewrite E2. reflexivity. }
  split; [exact Ec|]. split.
  - unfold sec_n. rewrite Ec, El. destruct (N.leb_spec (addr / 4096) ((addr + size - 1) / 4096)) as [H|H]; [reflexivity|].
    exfalso. assert (addr <= addr + size - 1) by lia. pose proof (N.div_le_mono addr (addr + size - 1) 4096 ltac:(lia) H0). lia.
  - unfold sec_frame. rewrite page_shift_val, N.shiftr_div_pow2. change (2 ^ 12) with 4096.
    assert (E: w64 (addr + two64 - off) = addr - off) by (unfold w64, two64 in *; lia). rewrite E. reflexivity.
Qed.

(** PageDirectoryTable.Activate swaps the roles of the two address spaces and touches no memory *)
Theorem pdt_activate_spec s A T ownA own slot :
  Inv2 s A T ownA own -> pdts s slot = T ->
  let s' := pdt_activate slot s in
  Inv2 s' T A own ownA /\ cr3 s' = frame_addr T /\ slog s' = frame_addr T :: slog s /\
  (forall f i, ent s' f i = ent s f i) /\ orc s' = orc s /\ flog s' = flog s.
Proof.
  intros [WA WT Hcr Hdisj [G1 G2] HFA] Hslot s'.
  destruct (wf_owned _ _ _ WT T [] (wf_root _ _ _ WT)) as (HbT & _).
  assert (HT40: T < 2 ^ 40) by (eapply backed_lt40; [exact (wf_arena _ _ _ WT) | exact HbT]).
  unfold s', pdt_activate. rewrite Hslot. cbn [cr3 slog orc flog set_slog set_cr3].
  split; [|repeat split].
  split.
  - apply (WF_ent_eq s _ T own WT); reflexivity.
  - apply (WF_ent_eq s _ A ownA WA); reflexivity.
  - cbn [cr3 set_slog set_cr3].
    rewrite frame_addr_small by (change (2 ^ 40) with 1099511627776 in HT40; change (2 ^ 52) with 4503599627370496; lia).
    rewrite N.shiftr_shiftl_l by lia. replace (12 - 12) with 0 by lia. apply N.shiftl_0_r.
  - intros f Hf. destruct (ownA f) as [p|] eqn:E; [|reflexivity].
    exfalso. apply Hf. apply Hdisj. rewrite E. discriminate.
  - split; [exact G1|]. intros f Hin Hz. destruct (G2 f Hin Hz) as (B1 & B2 & B3).
    split; [exact B1|]. split; [exact (HFA f Hin Hz)|].
    intros E. rewrite E, (wf_root _ _ _ WT) in B2. discriminate.
  - intros f Hin Hz. destruct (G2 f Hin Hz) as (_ & B2 & _). exact B2.
Qed.
