(** Model of the page-table code of kernel/mm/vmm: map.go (Map, Unmap, Translate, MapTemporary,
    MapRegion, IdentityMapRegion), pdt.go (walk, pteForAddress, PageDirectoryTable.{Init,Map,
    Unmap,Activate}, setupPDTForKernel), vmm.go (reserveZeroedFrame), fault_amd64.go
    (pageFaultHandler, nonRecoverablePageFault, generalProtectionFaultHandler).
    Shared by C04, C05 and C06.  Definitions only.

    Every [*pte] access of the Go code is modelled THROUGH the recursive mapping: the Go code
    computes a virtual address (pdtVirtualAddr, entryAddr <<= 9 with 64-bit wrap, ...) and the
    access is resolved by [mmu], a model of the x86-64 4-level translation from [cr3].  The
    constants of the *hardware* ([hw_*] below) are architecture facts and are literals; every
    constant of the *Go source* comes from [Gen.Consts_mm_vmm]. *)
From Coq Require Import NArith List Bool FMapPositive.
From FF Require Import Lib.Word Gen.Consts_mm_vmm Vmm.Region.
Import ListNotations.
Local Open Scope N_scope.

(** * Physical memory: frame -> 512 words.  A table is a base pattern plus overrides. *)
Definition POISON : N := 0x5B5B5B5B5B5B5B5B.
Definition key (n : N) : positive := N.succ_pos n.

Definition fill_word (seed i : N) : N := N.land (seed + i * 0x9E3779B97F4A7C15) 0xFFFFFFFFFFFFFFFF.

(** the contents a frame was last set to as a whole: a constant word or the harness's fill pattern *)
Inductive base := BConst (c : N) | BFill (seed : N).
Definition base_get (b : base) (i : N) : N := match b with BConst c => c | BFill seed => fill_word seed i end.

Definition table : Type := (base * PositiveMap.t N)%type.
Definition pmem : Type := PositiveMap.t table.

Definition tbl_get (t : table) (i : N) : N :=
  match PositiveMap.find (key i) (snd t) with Some v => v | None => base_get (fst t) i end.
Definition get_tbl (m : pmem) (f : N) : table :=
  match PositiveMap.find (key f) m with Some t => t | None => (BConst POISON, PositiveMap.empty N) end.
Definition rd (m : pmem) (f i : N) : N := tbl_get (get_tbl m f) i.
Definition wr (m : pmem) (f i v : N) : pmem :=
  let t := get_tbl m f in PositiveMap.add (key f) (fst t, PositiveMap.add (key i) v (snd t)) m.
Definition zero (m : pmem) (f : N) : pmem := PositiveMap.add (key f) (BConst 0, PositiveMap.empty N) m.
Definition cpy (m : pmem) (src dst : N) : pmem := PositiveMap.add (key dst) (get_tbl m src) m.
Definition fill (m : pmem) (f seed : N) : pmem := PositiveMap.add (key f) (BFill seed, PositiveMap.empty N) m.

(** * Machine state *)
Record st := mkSt {
  mem : pmem;
  lo : N; cnt : N;            (* backed frames: lo <= f < lo + cnt *)
  cr3 : N;                    (* what activePDTFn returns / switchPDTFn sets *)
  orc : list N;               (* frame-allocator oracle, 0 = failure; exhausted = failure *)
  flog : list N;              (* addresses passed to flushTLBEntryFn, most recent first *)
  slog : list N;              (* addresses passed to switchPDTFn, most recent first *)
  last : N;                   (* earlyReserveLastUsed *)
  zf : N; prot : bool;        (* ReservedZeroedFrame, protectReservedZeroedPage *)
  pdts : N -> N;              (* PageDirectoryTable values of the harness: slot -> pdtFrame; slot 7 = kernelPDT *)
  inited : N -> bool
}.

Definition set_mem s m := mkSt m (lo s) (cnt s) (cr3 s) (orc s) (flog s) (slog s) (last s) (zf s) (prot s) (pdts s) (inited s).
Definition set_cr3 s x := mkSt (mem s) (lo s) (cnt s) x (orc s) (flog s) (slog s) (last s) (zf s) (prot s) (pdts s) (inited s).
Definition set_orc s x := mkSt (mem s) (lo s) (cnt s) (cr3 s) x (flog s) (slog s) (last s) (zf s) (prot s) (pdts s) (inited s).
Definition set_flog s x := mkSt (mem s) (lo s) (cnt s) (cr3 s) (orc s) x (slog s) (last s) (zf s) (prot s) (pdts s) (inited s).
Definition set_slog s x := mkSt (mem s) (lo s) (cnt s) (cr3 s) (orc s) (flog s) x (last s) (zf s) (prot s) (pdts s) (inited s).
Definition set_last s x := mkSt (mem s) (lo s) (cnt s) (cr3 s) (orc s) (flog s) (slog s) x (zf s) (prot s) (pdts s) (inited s).
Definition set_zf s x := mkSt (mem s) (lo s) (cnt s) (cr3 s) (orc s) (flog s) (slog s) (last s) x (prot s) (pdts s) (inited s).
Definition set_prot s x := mkSt (mem s) (lo s) (cnt s) (cr3 s) (orc s) (flog s) (slog s) (last s) (zf s) x (pdts s) (inited s).
Definition set_pdt s k x := mkSt (mem s) (lo s) (cnt s) (cr3 s) (orc s) (flog s) (slog s) (last s) (zf s) (prot s)
                                 (fun j => if j =? k then x else pdts s j) (inited s).
Definition set_inited s k := mkSt (mem s) (lo s) (cnt s) (cr3 s) (orc s) (flog s) (slog s) (last s) (zf s) (prot s) (pdts s)
                                  (fun j => if j =? k then true else inited s j).

Definition flush (s : st) (a : N) : st := set_flog s (a :: flog s).
Definition wr_st (s : st) (f i v : N) : st := set_mem s (wr (mem s) f i v).

(** result of an operation: [Stray] = an access the MMU cannot resolve / outside backed memory *)
Inductive R (A : Type) : Type := Ok (a : A) | Stray.
Arguments Ok {A} a.
Arguments Stray {A}.

(** * The hardware: x86-64 4-level translation (architecture constants are literals) *)
Definition hw_idx (page k : N) : N := N.land (N.shiftr page (9 * (3 - k))) 511.
Definition hw_P (e : N) : bool := N.testbit e 0.
Definition hw_PS (e : N) : bool := N.testbit e 7.
Definition hw_frame (e : N) : N := N.land (N.shiftr e 12) 0xFFFFFFFFFF.

Definition backed (s : st) (f : N) : bool := (lo s <=? f) && (f <? lo s + cnt s).

(** walk the levels in [levels] (a suffix of [0;1;2;3]) starting in table [t] *)
Fixpoint hw_walk (s : st) (levels : list N) (t page : N) : option N :=
  match levels with
  | [] => if backed s t then Some t else None
  | k :: rest =>
      if backed s t then
        let e := rd (mem s) t (hw_idx page k) in
        if hw_P e && negb (hw_PS e && (k <? 3)) then hw_walk s rest (hw_frame e) page else None
      else None
  end.

Definition hw_levels : list N := [0; 1; 2; 3].

(** frame a virtual address translates to *)
Definition mmu (s : st) (va : N) : option N :=
  hw_walk s hw_levels (N.shiftr (cr3 s) 12) (N.shiftr va 12).

(** an 8-byte access at virtual address [va] -> (frame, word index) *)
Definition resolve (s : st) (va : N) : option (N * N) :=
  if N.land va 7 =? 0 then
    match mmu s va with Some f => Some (f, N.shiftr (N.land va 4095) 3) | None => None end
  else None.

(** a whole-page access at virtual address [va] *)
Definition resolve_page (s : st) (va : N) : option N :=
  if N.land va 4095 =? 0 then mmu s va else None.

(** an 8-byte access at PHYSICAL address [pa] (the kernel dereferences it as identity-mapped) *)
Definition phys (s : st) (pa : N) : option (N * N) :=
  if (N.land pa 7 =? 0) && backed s (N.shiftr pa 12) then Some (N.shiftr pa 12, N.shiftr (N.land pa 4095) 3) else None.

(** the monitor's direct walk of a page from a root frame: (code, entry)
    code k<3: level-k entry not present; 3: leaf entry reached; 0x10+k: huge entry; 0x40+k: table not backed *)
Fixpoint walk_root (s : st) (levels : list N) (t page : N) : N * N :=
  match levels with
  | [] => (0xff, 0)
  | k :: rest =>
      if backed s t then
        let e := rd (mem s) t (hw_idx page k) in
        if k =? 3 then (3, e)
        else if negb (hw_P e) then (k, e)
        else if hw_PS e then (0x10 + k, e)
        else walk_root s rest (hw_frame e) page
      else (0x40 + k, t)
  end.

(** level-[level] table on [page]'s path from root [t] (through present, non-huge entries) *)
Fixpoint table_on_path (s : st) (levels : list N) (level t page : N) : option N :=
  match levels with
  | [] => None
  | k :: rest =>
      if k =? level then (if backed s t then Some t else None)
      else if backed s t then
        let e := rd (mem s) t (hw_idx page k) in
        if hw_P e && negb (hw_PS e) then table_on_path s rest level (hw_frame e) page else None
      else None
  end.

(** * Go-side helpers (constants from the Go source) *)
Definition pte_frame (e : N) : N := N.shiftr (N.land e vmm_ptePhysPageMask) mm_PageShift.
Definition has_flags (e fl : N) : bool := N.land e fl =? fl.
Definition frame_addr (f : N) : N := shl64 f mm_PageShift.           (* Frame.Address, Page.Address *)
Definition set_frame (e frame : N) : N := N.lor (andnot e vmm_ptePhysPageMask) (frame_addr frame).
Definition set_flags (e fl : N) : N := N.lor e fl.
Definition clear_flags (e fl : N) : N := andnot e fl.
Definition page_from_addr (a : N) : N := N.shiftr (andnot a (mm_PageSize - 1)) mm_PageShift.
Definition page_offset (va : N) : N :=
  N.land va (N.shiftl 1 (nth (N.to_nat (vmm_pageLevels - 1)) vmm_pageLevelShifts 0) - 1).

Definition P_RW : N := N.lor vmm_FlagPresent vmm_FlagRW.

Definition go_levels : list (N * N) := combine vmm_pageLevelShifts vmm_pageLevelBits.
Definition entry_index (va sh bits : N) : N := N.land (N.shiftr va sh) (N.shiftl 1 bits - 1).
Definition entry_addr (tableAddr va sh bits : N) : N :=
  add64 tableAddr (shl64 (entry_index va sh bits) mm_PointerShift).
Definition level_bits (level : N) : N := nth (N.to_nat level) vmm_pageLevelBits 0.
Definition last_level : N := vmm_pageLevels - 1.

(** error codes (shared with the harness) *)
Definition E_OK : N := 0.
Definition E_INVALID : N := 1.      (* ErrInvalidMapping *)
Definition E_HUGE : N := 2.         (* errNoHugePageSupport *)
Definition E_ZERO_RW : N := 3.      (* errAttemptToRWMapReservedFrame *)
Definition E_ALLOC : N := 4.        (* the allocator's error *)
Definition E_NOSPACE : N := 5.      (* errEarlyReserveNoSpace *)
Definition E_FAULT : N := 6.        (* errUnrecoverableFault *)
Definition PANIC : N := 0x100.      (* outcome = PANIC + code of the panic value *)

Definition alloc (s : st) : st * option N :=
  match orc s with
  | [] => (s, None)
  | x :: rest => (set_orc s rest, if x =? 0 then None else Some x)
  end.

(** * Map *)
Fixpoint map_walk (lv : list (N * N)) (level tableAddr va frame flags : N) (s : st) : R (st * N) :=
  match lv with
  | [] => Ok (s, E_OK)
  | (sh, bits) :: rest =>
      let ea := entry_addr tableAddr va sh bits in
      match resolve s ea with
      | None => Stray
      | Some (f, i) =>
          if level =? last_level then
            Ok (flush (wr_st s f i (set_flags (set_frame 0 frame) flags)) va, E_OK)
          else
            let e := rd (mem s) f i in
            if has_flags e vmm_FlagHugePage then Ok (s, E_HUGE)
            else if negb (has_flags e vmm_FlagPresent) then
              match alloc s with
              | (s1, None) => Ok (s1, E_ALLOC)
              | (s1, Some nf) =>
                  let s2 := wr_st s1 f i (set_flags (set_frame 0 nf) P_RW) in
                  match resolve_page s2 (shl64 ea (level_bits (level + 1))) with
                  | None => Stray
                  | Some pf => map_walk rest (level + 1) (shl64 ea bits) va frame flags (set_mem s2 (zero (mem s2) pf))
                  end
              end
            else map_walk rest (level + 1) (shl64 ea bits) va frame flags s
      end
  end.

Definition map_page (page frame flags : N) (s : st) : R (st * N) :=
  if prot s && (frame =? zf s) && negb (N.land flags vmm_FlagRW =? 0) then Ok (s, E_ZERO_RW)
  else map_walk go_levels 0 vmm_pdtVirtualAddr (frame_addr page) frame flags s.

(** * Unmap *)
Fixpoint unmap_walk (lv : list (N * N)) (level tableAddr va : N) (s : st) : R (st * N) :=
  match lv with
  | [] => Ok (s, E_OK)
  | (sh, bits) :: rest =>
      let ea := entry_addr tableAddr va sh bits in
      match resolve s ea with
      | None => Stray
      | Some (f, i) =>
          let e := rd (mem s) f i in
          if level =? last_level then Ok (flush (wr_st s f i (clear_flags e vmm_FlagPresent)) va, E_OK)
          else if negb (has_flags e vmm_FlagPresent) then Ok (s, E_INVALID)
          else if has_flags e vmm_FlagHugePage then Ok (s, E_HUGE)
          else unmap_walk rest (level + 1) (shl64 ea bits) va s
      end
  end.

Definition unmap_page (page : N) (s : st) : R (st * N) :=
  unmap_walk go_levels 0 vmm_pdtVirtualAddr (frame_addr page) s.

(** * pteForAddress / Translate *)
Fixpoint pte_walk (lv : list (N * N)) (tableAddr va : N) (s : st) (entry : option (N * N)) : R (option (N * N)) :=
  match lv with
  | [] => Ok entry
  | (sh, bits) :: rest =>
      let ea := entry_addr tableAddr va sh bits in
      match resolve s ea with
      | None => Stray
      | Some (f, i) =>
          if negb (has_flags (rd (mem s) f i) vmm_FlagPresent) then Ok None
          else pte_walk rest (shl64 ea bits) va s (Some (f, i))
      end
  end.

(** -> (error, physical address) *)
Definition translate (va : N) (s : st) : R (N * N) :=
  match pte_walk go_levels vmm_pdtVirtualAddr va s None with
  | Stray => Stray
  | Ok None => Ok (E_INVALID, 0)
  | Ok (Some (f, i)) => Ok (E_OK, add64 (frame_addr (pte_frame (rd (mem s) f i))) (page_offset va))
  end.

(** * MapTemporary: -> (state, error, page) *)
Definition temp_page : N := page_from_addr vmm_tempMappingAddr.

Definition map_temporary (frame : N) (s : st) : R (st * N * N) :=
  if prot s && (frame =? zf s) then Ok (s, E_ZERO_RW, 0)
  else match map_page temp_page frame P_RW s with
       | Stray => Stray
       | Ok (s1, err) => if err =? 0 then Ok (s1, E_OK, temp_page) else Ok (s1, err, 0)
       end.

(** * PageDirectoryTable *)
Definition last_entry_off : N := shl64 (N.shiftl 1 (level_bits 0) - 1) mm_PointerShift.

Definition pdt_init (slot frame : N) (s : st) : R (st * N) :=
  let s0 := set_pdt s slot frame in
  if frame_addr frame =? cr3 s0 then Ok (s0, E_OK)
  else match map_temporary frame s0 with
       | Stray => Stray
       | Ok (s1, err, page) =>
           if negb (err =? 0) then Ok (s1, err) else
           match resolve_page s1 (frame_addr page), resolve s1 (add64 (frame_addr page) last_entry_off) with
           | Some pf, Some (ef, ei) =>
               let s2 := set_mem s1 (zero (mem s1) pf) in
               let s3 := wr_st s2 ef ei (set_frame (set_flags 0 P_RW) frame) in
               match unmap_page page s3 with
               | Stray => Stray
               | Ok (s4, _) => Ok (s4, E_OK)
               end
           | _, _ => Stray
           end
       end.

(** run [op] with the recursive slot of the active root pointing at the table of [slot] *)
Definition with_pdt (slot : N) (op : st -> R (st * N)) (s : st) : R (st * N) :=
  let pf := pdts s slot in
  let af := N.shiftr (cr3 s) mm_PageShift in
  if af =? pf then op s
  else
    let lea := add64 (frame_addr af) last_entry_off in
    match phys s lea with
    | None => Stray
    | Some (f, i) =>
        let s1 := flush (wr_st s f i (set_frame (rd (mem s) f i) pf)) lea in
        match op s1 with
        | Stray => Stray
        | Ok (s2, err) => Ok (flush (wr_st s2 f i (set_frame (rd (mem s2) f i) af)) lea, err)
        end
    end.

Definition pdt_map (slot page frame flags : N) : st -> R (st * N) := with_pdt slot (map_page page frame flags).
Definition pdt_unmap (slot page : N) : st -> R (st * N) := with_pdt slot (unmap_page page).
Definition pdt_activate (slot : N) (s : st) : st :=
  let a := frame_addr (pdts s slot) in set_slog (set_cr3 s a) (a :: slog s).

(** * bounded loops with early exit, structural on a binary count *)
Section Iter.
  Context {S T : Type}.
  Variable f : S -> S + T.
  Fixpoint iter_pos (p : positive) (s : S) : S + T :=
    match p with
    | xH => f s
    | xO p' => match iter_pos p' s with inl s' => iter_pos p' s' | r => r end
    | xI p' => match f s with
               | inl s' => match iter_pos p' s' with inl s'' => iter_pos p' s'' | r => r end
               | r => r
               end
    end.
  Definition iter_n (n : N) (s : S) : S + T := match n with 0 => inl s | Npos p => iter_pos p s end.
End Iter.

(** the page loop of MapRegion / IdentityMapRegion / setupPDTForKernel:
    state (machine, page, frame); stops with [inr] on Stray or error *)
Definition loop_state : Type := (st * N * N)%type.
Definition loop_exit : Type := option (st * N).   (* None = Stray, Some (s, err) *)

Definition map_step (mapf : N -> N -> st -> R (st * N)) (x : loop_state) : loop_state + loop_exit :=
  let '(s, page, frame) := x in
  match mapf page frame s with
  | Stray => inr None
  | Ok (s1, err) => if err =? 0 then inl (s1, w64 (page + 1), w64 (frame + 1)) else inr (Some (s1, err))
  end.

(** -> (state, error, page) *)
Definition map_region (frame size flags : N) (s : st) : R (st * N * N) :=
  let sz := round_up size in
  if sz <? size then Ok (s, E_NOSPACE, 0) else
  match early_reserve (last s) sz with
  | (_, None) => Ok (s, E_NOSPACE, 0)
  | (l', Some start) =>
      let s0 := set_last s l' in
      match iter_n (map_step (fun p f => map_page p f flags)) (N.shiftr sz mm_PageShift) (s0, page_from_addr start, frame) with
      | inl (s1, _, _) => Ok (s1, E_OK, page_from_addr start)
      | inr None => Stray
      | inr (Some (s1, err)) => Ok (s1, err, 0)
      end
  end.

Definition identity_map_region (frame size flags : N) (s : st) : R (st * N * N) :=
  let sz := round_up size in
  if sz <? size then Ok (s, E_NOSPACE, 0) else
  let count := N.shiftr sz mm_PageShift in
  let stop := w64 (frame + count) in
  let n := if frame <? stop then stop - frame else 0 in
  match iter_n (map_step (fun p f => map_page p f flags)) n (s, frame, frame) with
  | inl (s1, _, _) => Ok (s1, E_OK, frame)
  | inr None => Stray
  | inr (Some (s1, err)) => Ok (s1, err, 0)
  end.

(** * reserveZeroedFrame: -> (state, error) *)
Definition reserve_zeroed (s : st) : R (st * N) :=
  match alloc s with
  | (s1, None) => Ok (set_zf s1 mm_InvalidFrame, E_ALLOC)
  | (s1, Some f) =>
      let s2 := set_zf s1 f in
      match map_temporary f s2 with
      | Stray => Stray
      | Ok (s3, err, page) =>
          if negb (err =? 0) then Ok (s3, err) else
          match resolve_page s3 (frame_addr page) with
          | None => Stray
          | Some pf =>
              match unmap_page page (set_mem s3 (zero (mem s3) pf)) with
              | Stray => Stray
              | Ok (s4, _) => Ok (set_prot s4 true, E_OK)
              end
          end
      end
  end.

(** * page fault handler: -> (state, outcome); outcome 0 = resume, PANIC + code = kernel panic *)
Fixpoint fault_walk (lv : list (N * N)) (level tableAddr va : N) (s : st) (pe : option (N * N)) : R (option (N * N)) :=
  match lv with
  | [] => Ok pe
  | (sh, bits) :: rest =>
      let ea := entry_addr tableAddr va sh bits in
      match resolve s ea with
      | None => Stray
      | Some (f, i) =>
          let present := has_flags (rd (mem s) f i) vmm_FlagPresent in
          let pe' := if (level =? last_level) && present then Some (f, i) else pe in
          if present then fault_walk rest (level + 1) (shl64 ea bits) va s pe' else Ok pe'
      end
  end.

Definition page_fault (addr : N) (s : st) : R (st * N) :=
  let fva := frame_addr (page_from_addr addr) in
  match fault_walk go_levels 0 vmm_pdtVirtualAddr fva s None with
  | Stray => Stray
  | Ok None => Ok (s, PANIC + E_FAULT)
  | Ok (Some (f, i)) =>
      let e := rd (mem s) f i in
      if negb (has_flags e vmm_FlagRW) && has_flags e vmm_FlagCopyOnWrite then
        match alloc s with
        | (s1, None) => Ok (s1, PANIC + E_ALLOC)
        | (s1, Some cp) =>
            match map_temporary cp s1 with
            | Stray => Stray
            | Ok (s2, err, page) =>
                if negb (err =? 0) then Ok (s2, PANIC + err) else
                match resolve_page s2 fva, resolve_page s2 (frame_addr page) with
                | Some src, Some dst =>
                    match unmap_page page (set_mem s2 (cpy (mem s2) src dst)) with
                    | Stray => Stray
                    | Ok (s3, _) =>
                        let e1 := rd (mem s3) f i in
                        let e2 := set_frame (set_flags (clear_flags e1 vmm_FlagCopyOnWrite) P_RW) cp in
                        Ok (flush (wr_st s3 f i e2) fva, 0)
                    end
                | _, _ => Stray
                end
            end
        end
      else Ok (s, PANIC + E_FAULT)
  end.

(** * setupPDTForKernel *)
Definition kernel_slot : N := 7.
Definition sec_writable : N := 1.      (* multiboot.ElfSectionWritable *)
Definition sec_executable : N := 4.    (* multiboot.ElfSectionExecutable *)

Definition section : Type := (N * N * N)%type.   (* flags, address, size *)

(** the visitor closure on one section; [acc] = (state, err) *)
Definition visit_section (off : N) (sec : section) (acc : R (st * N)) : R (st * N) :=
  match acc with
  | Stray => Stray
  | Ok (s, err) =>
      let '(sflags, addr, size) := sec in
      if negb (err =? 0) || (addr <? off) then Ok (s, err) else
      let fl0 := vmm_FlagPresent in
      let fl1 := if N.land sflags sec_executable =? 0 then N.lor fl0 vmm_FlagNoExecute else fl0 in
      let flags := if negb (N.land sflags sec_writable =? 0) then N.lor fl1 vmm_FlagRW else fl1 in
      let cur := page_from_addr addr in
      let lastp := page_from_addr (w64 (addr + w64 (size + (two64 - 1)))) in
      let curFrame := N.shiftr (w64 (addr + two64 - off)) mm_PageShift in
      let n := if cur <=? lastp then lastp - cur + 1 else 0 in
      match iter_n (map_step (fun p f => pdt_map kernel_slot p f flags)) n (s, cur, curFrame) with
      | inl (s1, _, _) => Ok (s1, E_OK)
      | inr None => Stray
      | inr (Some (s1, e)) => Ok (s1, e)
      end
  end.

(** second loop: rsvAddr from earlyReserveLastUsed to tempMappingAddr *)
Definition resv_step (x : st * N) : (st * N) + loop_exit :=
  let '(s, a) := x in
  match translate a s with
  | Stray => inr None
  | Ok (err, pa) =>
      if negb (err =? 0) then inr (Some (s, err)) else
      match pdt_map kernel_slot (page_from_addr a) (N.shiftr pa mm_PageShift) P_RW s with
      | Stray => inr None
      | Ok (s1, e) => if e =? 0 then inl (s1, w64 (a + mm_PageSize)) else inr (Some (s1, e))
      end
  end.

Definition setup_kernel (off : N) (secs : list section) (s : st) : R (st * N) :=
  match alloc s with
  | (s1, None) => Ok (s1, E_ALLOC)
  | (s1, Some kf) =>
      match pdt_init kernel_slot kf s1 with
      | Stray => Stray
      | Ok (s2, err) =>
          if negb (err =? 0) then Ok (s2, err) else
          match fold_left (fun acc sec => visit_section off sec acc)
                          (filter (fun sec => negb (snd sec =? 0)) secs) (Ok (s2, E_OK)) with
          | Stray => Stray
          | Ok (s3, err) =>
              if negb (err =? 0) then Ok (s3, err) else
              let n := if last s3 <? vmm_tempMappingAddr
                       then (vmm_tempMappingAddr - last s3 + (mm_PageSize - 1)) / mm_PageSize else 0 in
              match iter_n resv_step n (s3, last s3) with
              | inl (s4, _) => Ok (pdt_activate kernel_slot s4, E_OK)
              | inr None => Stray
              | inr (Some (s4, e)) => Ok (s4, e)
              end
          end
      end
  end.

(** * Operations and the flat interface for the correspondence driver *)
Inductive op :=
| OMap (page frame flags : N)
| OUnmap (page : N)
| OTranslate (va : N)
| OMapTemp (frame : N)
| OPdtInit (slot frame : N)
| OPdtMap (slot page frame flags : N)
| OPdtUnmap (slot page : N)
| OPdtActivate (slot : N)
| OMapRegion (frame size flags : N)
| OIdMapRegion (frame size flags : N)
| OPoke (frame idx v : N)
| OFill (frame seed : N)
| OReserveZero
| OFault (addr info : N)
| OGpf (addr : N)
| OSetupKernel (off : N) (secs : list section)
| OEarlyReserve (size : N)
| OFlipPath (page level mask : N)
| OOrUpper (page level mask : N).

Definition slot_of (k : N) : N := N.land k 7.
Definition safe_bits : N := 0xFFF0000000000F7E.   (* every bit except P (0), PS (7) and the frame field (12-51) *)
Definition page36 (p : N) : N := N.land p 0xFFFFFFFFF.

(** -> (state, code, value) *)
Definition step (o : op) (s : st) : R (st * N * N) :=
  let lift (r : R (st * N)) : R (st * N * N) :=
      match r with Stray => Stray | Ok (s1, e) => Ok (s1, e, 0) end in
  match o with
  | OMap p f fl => lift (map_page p f fl s)
  | OUnmap p => lift (unmap_page p s)
  | OTranslate va => match translate va s with Stray => Stray | Ok (e, pa) => Ok (s, e, pa) end
  | OMapTemp f => map_temporary f s
  | OPdtInit k f =>
      match pdt_init (slot_of k) f s with
      | Stray => Stray
      | Ok (s1, e) => Ok (if e =? 0 then set_inited s1 (slot_of k) else s1, e, 0)
      end
  | OPdtMap k p f fl => lift (pdt_map (slot_of k) p f fl s)
  | OPdtUnmap k p => lift (pdt_unmap (slot_of k) p s)
  | OPdtActivate k => Ok (pdt_activate (slot_of k) s, 0, 0)
  | OMapRegion f sz fl => map_region f sz fl s
  | OIdMapRegion f sz fl => identity_map_region f sz fl s
  | OPoke f i v => if backed s f then Ok (wr_st s f (N.land i 511) v, 0, 0) else Ok (s, 1, 0)
  | OFill f seed => if backed s f then Ok (set_mem s (fill (mem s) f seed), 0, 0) else Ok (s, 1, 0)
  | OReserveZero => match reserve_zeroed s with Stray => Stray | Ok (s1, e) => Ok (s1, e, zf s1) end
  | OFault a _ => lift (page_fault a s)
  | OGpf _ => Ok (s, PANIC + E_FAULT, 0)
  | OSetupKernel off secs =>
      match setup_kernel off secs s with
      | Stray => Stray
      | Ok (s1, e) => Ok (if e =? 0 then set_inited s1 kernel_slot else s1, e, 0)
      end
  | OEarlyReserve sz =>
      match early_reserve (last s) sz with
      | (l', Some a) => Ok (set_last s l', 0, a)
      | (_, None) => Ok (s, E_NOSPACE, 0)
      end
  | OFlipPath p level mask =>
      (* set-up op of the harness: xor [mask] into the level-[level] entry on [p]'s path in the active space *)
      match table_on_path s hw_levels (N.land level 3) (N.shiftr (cr3 s) 12) (page36 p) with
      | Some t => let i := hw_idx (page36 p) (N.land level 3) in Ok (wr_st s t i (N.lxor (rd (mem s) t i) mask), 0, 0)
      | None => Ok (s, 1, 0)
      end
  | OOrUpper p level mask =>
      (* set-up op of the harness: or bits the MMU's translation ignores (everything but P, PS and the frame
         field) into a PRESENT upper-level entry on [p]'s path in the active space (level 0..2), or into the
         recursive entry 511 of the active root (level 3) -- what the CPU (Accessed) or an OS may have put there *)
      let m := N.land mask safe_bits in
      let root := N.shiftr (cr3 s) 12 in
      if N.land level 3 =? 3 then
        if backed s root && hw_P (rd (mem s) root 511) then Ok (wr_st s root 511 (N.lor (rd (mem s) root 511) m), 0, 0)
        else Ok (s, 1, 0)
      else
        match table_on_path s hw_levels (N.land level 3) root (page36 p) with
        | Some t => let i := hw_idx (page36 p) (N.land level 3) in
                    if hw_P (rd (mem s) t i) then Ok (wr_st s t i (N.lor (rd (mem s) t i) m), 0, 0) else Ok (s, 1, 0)
        | None => Ok (s, 1, 0)
        end
  end.

(** roots probed after every op: the active one, then every initialised slot *)
Definition probe_roots (s : st) : list N :=
  N.shiftr (cr3 s) 12 :: map (pdts s) (filter (inited s) [0; 1; 2; 3; 4; 5; 6; 7]).

Definition probe_obs (s : st) (probes : list N) : list N :=
  flat_map (fun root => flat_map (fun p => let '(c, e) := walk_root s hw_levels root (page36 p) in [c; e]) probes)
           (probe_roots s).

Definition op_obs (s : st) (code val : N) : list N :=
  [code; val; N.of_nat (length (flog s))] ++ rev (flog s) ++ [N.of_nat (length (slog s))] ++ rev (slog s).

(** digest of physical memory (what the harness computes over the host pages):
    per frame sum_{i<512} (i+1) * w_i mod 2^64, combined as h := h*31 + sum.  The sum is computed from the
    base pattern in closed form plus a correction per overridden word. *)
Definition m64 (x : N) : N := N.land x 0xFFFFFFFFFFFFFFFF.
(** sum_{i<512} (i+1) = 131328 ;  sum_{i<512} (i+1)*i = 511*512*513/3 = 44739072 *)
Definition base_sum (b : base) : N :=
  match b with
  | BConst c => m64 (c * 131328)
  | BFill seed => m64 (seed * 131328 + 0x9E3779B97F4A7C15 * 44739072)
  end.
Definition frame_sum (t : table) : N :=
  PositiveMap.fold (fun k v acc =>
                      let i := Pos.pred_N k in
                      m64 (acc + (i + 1) * (v + 0x10000000000000000 - base_get (fst t) i)))
                   (snd t) (base_sum (fst t)).
Definition poison_sum : N := base_sum (BConst POISON).

Definition digest (s : st) : N :=
  fold_left (fun h k =>
               let f := lo s + N.of_nat k in
               let sm := match PositiveMap.find (key f) (mem s) with
                         | None => poison_sum
                         | Some t => frame_sum t
                         end in
               m64 (h * 31 + sm))
            (seq 0 (N.to_nat (cnt s))) 0.

Fixpoint run_ops (ops : list op) (probes : list N) (s : st) : list N :=
  match ops with
  | [] => [digest s]
  | o :: rest =>
      match step o (set_slog (set_flog s []) []) with
      | Stray => [0xEE]
      | Ok (s1, code, val) => op_obs s1 code val ++ probe_obs s1 probes ++ run_ops rest probes s1
      end
  end.

(** case = lo cnt last0 |oracle| oracle.. |probes| probes.. ops..  (see the harness for opcodes) *)
Definition take_list (l : list N) : list N * list N :=
  match l with
  | [] => ([], [])
  | n :: rest => (firstn (N.to_nat n) rest, skipn (N.to_nat n) rest)
  end.

Fixpoint dec_secs (k : nat) (l : list N) : list section * list N :=
  match k with
  | O => ([], l)
  | S k' => match l with
            | fl :: a :: sz :: rest => let '(ss, r) := dec_secs k' rest in ((fl, a, sz) :: ss, r)
            | _ => ([], [])
            end
  end.

Fixpoint dec_ops (fuel : nat) (l : list N) : list op :=
  match fuel with O => [] | S fuel =>
  match l with
  | 0 :: p :: f :: fl :: r => OMap p f fl :: dec_ops fuel r
  | 1 :: p :: r => OUnmap p :: dec_ops fuel r
  | 2 :: a :: r => OTranslate a :: dec_ops fuel r
  | 3 :: f :: r => OMapTemp f :: dec_ops fuel r
  | 4 :: k :: f :: r => OPdtInit k f :: dec_ops fuel r
  | 5 :: k :: p :: f :: fl :: r => OPdtMap k p f fl :: dec_ops fuel r
  | 6 :: k :: p :: r => OPdtUnmap k p :: dec_ops fuel r
  | 7 :: k :: r => OPdtActivate k :: dec_ops fuel r
  | 8 :: f :: sz :: fl :: r => OMapRegion f sz fl :: dec_ops fuel r
  | 9 :: f :: sz :: fl :: r => OIdMapRegion f sz fl :: dec_ops fuel r
  | 10 :: f :: i :: v :: r => OPoke f i v :: dec_ops fuel r
  | 11 :: f :: sd :: r => OFill f sd :: dec_ops fuel r
  | 12 :: r => OReserveZero :: dec_ops fuel r
  | 13 :: a :: info :: r => OFault a info :: dec_ops fuel r
  | 14 :: a :: r => OGpf a :: dec_ops fuel r
  | 15 :: off :: k :: r => let '(ss, r') := dec_secs (N.to_nat k) r in OSetupKernel off ss :: dec_ops fuel r'
  | 16 :: sz :: r => OEarlyReserve sz :: dec_ops fuel r
  | 17 :: p :: k :: m :: r => OFlipPath p k m :: dec_ops fuel r
  | 18 :: p :: k :: m :: r => OOrUpper p k m :: dec_ops fuel r
  (* a fault with the interrupted register context (RSP, RIP): the handler's behaviour does not depend on it *)
  | 19 :: a :: info :: _ :: _ :: r => OFault a info :: dec_ops fuel r
  | _ => []
  end end.

(** boot state: arena poisoned, frame [lo] is the active root: zero except the recursive entry *)
Definition init_state (lo0 cnt0 last0 : N) (oracle : list N) : st :=
  let m := wr (zero (PositiveMap.empty table) lo0) lo0 511 (N.lor (N.shiftl lo0 12) 3) in
  mkSt m lo0 cnt0 (N.shiftl lo0 12) oracle [] [] (if last0 =? 0 then vmm_tempMappingAddr else last0)
       0 false (fun _ => 0) (fun _ => false).

Definition run_case (l : list N) : list N :=
  match l with
  | lo0 :: cnt0 :: last0 :: rest =>
      let '(oracle, rest1) := take_list rest in
      let '(probes, rest2) := take_list rest1 in
      run_ops (dec_ops (length rest2) rest2) probes (init_state lo0 cnt0 last0 oracle)
  | _ => []
  end.
