(** Page-table trees as the software MMU sees them, well-formedness (ghost ownership of table
    frames), and how the recursive window resolves onto them (C04 [recursive_entry]). *)
From Coq Require Import NArith ZArith Lia List Bool.
From Coq Require Import ZifyBool ZifyN ZifyNat.
From FF Require Import Lib.Word Gen.Consts_mm_vmm Vmm.Region Vmm.Pt Vmm.PtMem Vmm.PtArith.
Import ListNotations.
Local Open Scope N_scope.
Ltac Zify.zify_post_hook ::= Z.div_mod_to_equations.

Definition ent (s : st) (t i : N) : N := rd (mem s) t i.
Definition usable (e : N) : bool := hw_P e && negb (hw_PS e).

(** follow present, non-huge entries from table [t] along the indices [is] *)
Fixpoint follow (s : st) (t : N) (is : list N) : option N :=
  match is with
  | [] => Some t
  | i :: r => if backed s t && usable (ent s t i) then follow s (hw_frame (ent s t i)) r else None
  end.

(** the raw leaf entry reached from table [t] along [is] (the last index selects the entry) *)
Fixpoint look (s : st) (t : N) (is : list N) : option N :=
  match is with
  | [] => None
  | [i] => if backed s t then Some (ent s t i) else None
  | i :: r => if backed s t && usable (ent s t i) then look s (hw_frame (ent s t i)) r else None
  end.

Definition ixs (page : N) : list N := [hw_idx page 0; hw_idx page 1; hw_idx page 2; hw_idx page 3].

(** the address space of root [T]: page -> raw leaf entry, if all three upper levels are present *)
Definition aspace (s : st) (T page : N) : option N := look s T (ixs page).

(** what a page translates to: (frame, flag bits) of a present leaf *)
Definition translation (s : st) (T page : N) : option (N * N) :=
  match aspace s T page with
  | Some e => if hw_P e then Some (hw_frame e, N.ldiff e vmm_ptePhysPageMask) else None
  | None => None
  end.

Lemma ixs_lt page : Forall (fun x => x < 512) (ixs page).
Proof. unfold ixs. repeat constructor; apply hw_idx_lt. Qed.

Lemma ixs_length page : length (ixs page) = 4%nat.
Proof. reflexivity. Qed.

(** * The hardware walk follows usable entries *)
Lemma hw_walk_follow s levels t pg f :
  follow s t (map (hw_idx pg) levels) = Some f -> backed s f = true -> hw_walk s levels t pg = Some f.
Proof.
  revert t. induction levels as [|k rest IH]; intros t H Hb; cbn [map follow hw_walk] in *.
  - inversion H; subst. rewrite Hb. reflexivity.
  - destruct (backed s t); [|discriminate]. cbn [andb] in H.
    fold (ent s t (hw_idx pg k)). unfold usable in H.
    destruct (hw_P (ent s t (hw_idx pg k))); [|discriminate].
    destruct (hw_PS (ent s t (hw_idx pg k))); [discriminate|].
    cbn [andb negb] in *. apply IH; assumption.
Qed.

Lemma follow_app s t p q :
  follow s t (p ++ q) = match follow s t p with Some t' => follow s t' q | None => None end.
Proof.
  revert t. induction p as [|i p IH]; intros t; cbn [app follow]; [reflexivity|].
  destruct (backed s t && usable (ent s t i)); [apply IH | reflexivity].
Qed.

(** * The recursive window *)
(** [Rec s A T]: the active root [A]'s slot 511 points at root [T], whose slot 511 points at itself *)
Definition Rec (s : st) (A T : N) : Prop :=
  backed s A = true /\ usable (ent s A 511) = true /\ hw_frame (ent s A 511) = T /\
  backed s T = true /\ usable (ent s T 511) = true /\ hw_frame (ent s T 511) = T.

(** window indices of the level-|pre| table on the path [pre] *)
Definition wpath (pre : list N) : list N :=
  match pre with
  | [] => [511; 511; 511; 511]
  | [a] => [511; 511; 511; a]
  | [a; b] => [511; 511; a; b]
  | [a; b; c] => [511; a; b; c]
  | _ => []
  end.

(** the virtual address the Go walk holds as [tableAddr] at level |pre| *)
Definition wwin (pre : list N) : N :=
  match wpath pre with [a; b; c; d] => win a b c d | _ => 0 end.

Lemma follow_wpath s A T pre t :
  Rec s A T -> (length pre <= 3)%nat -> follow s T pre = Some t -> follow s A (wpath pre) = Some t.
Proof.
  intros (HA & HAu & HAf & HT & HTu & HTf) Hl H.
  assert (StepA: forall r, follow s A (511 :: r) = follow s T r).
  { intros r. cbn [follow]. rewrite HA, HAu, HAf. reflexivity. }
  assert (StepT: forall r, follow s T (511 :: r) = follow s T r).
  { intros r. cbn [follow]. rewrite HT, HTu, HTf. reflexivity. }
  destruct pre as [|a [|b [|c [|d r]]]]; cbn [wpath]; cbn [length] in Hl; try lia;
    rewrite StepA, ?StepT; exact H.
Qed.

Lemma wwin_nil : wwin [] = vmm_pdtVirtualAddr.
Proof. reflexivity. Qed.

Lemma wwin_next pre i :
  (length pre <= 2)%nat -> Forall (fun x => x < 512) pre -> i < 512 ->
  shl64 (add64 (wwin pre) (shl64 i 3)) 9 = wwin (pre ++ [i]).
Proof.
  intros Hl Hp Hi.
  destruct pre as [|a [|b [|c r]]]; cbn [length] in Hl; try lia; cbn [app]; unfold wwin; cbn [wpath];
    repeat match goal with H : Forall _ (_ :: _) |- _ => inversion H; clear H; subst end;
    apply win_next; lia.
Qed.

Lemma wpath_shape pre :
  (length pre <= 3)%nat -> Forall (fun x => x < 512) pre ->
  exists a b c d, wpath pre = [a; b; c; d] /\ a < 512 /\ b < 512 /\ c < 512 /\ d < 512.
Proof.
  intros Hl Hp.
  destruct pre as [|a [|b [|c [|d r]]]]; cbn [length] in Hl; try lia; cbn [wpath];
    repeat match goal with H : Forall _ (_ :: _) |- _ => inversion H; clear H; subst end;
    do 4 eexists; (split; [reflexivity|]); lia.
Qed.

(** an 8-byte access to entry [i] of the window table of [pre] lands on entry [i] of the table
    that [pre] leads to *)
Lemma resolve_entry s A T pre t i :
  N.shiftr (cr3 s) 12 = A -> Rec s A T -> (length pre <= 3)%nat -> Forall (fun x => x < 512) pre ->
  follow s T pre = Some t -> backed s t = true -> i < 512 ->
  resolve s (add64 (wwin pre) (shl64 i 3)) = Some (t, i).
Proof.
  intros Hcr HR Hl Hp Hf Hb Hi.
  destruct (wpath_shape pre Hl Hp) as (a & b & c & d & Hw & Ha & Hbb & Hc & Hd).
  pose proof (follow_wpath s A T pre t HR Hl Hf) as Hfw.
  unfold wwin. rewrite Hw in *. rewrite win_entry by assumption.
  destruct (win_off a b c d i) as [Ho1 Ho2]; try assumption.
  unfold resolve. rewrite Ho1, Ho2. cbn [N.eqb].
  unfold mmu. rewrite Hcr.
  assert (Hio: i * 8 < 4096) by lia.
  destruct (win_idx a b c d (i * 8) Ha Hbb Hc Hd Hio) as (I0 & I1 & I2 & I3).
  rewrite (hw_walk_follow s hw_levels A _ t); [reflexivity| |exact Hb].
  unfold hw_levels. cbn [map]. rewrite I0, I1, I2, I3. exact Hfw.
Qed.

(** a whole-page access at the window address of [pre] lands on the table [pre] leads to *)
Lemma resolve_page_win s A T pre t :
  N.shiftr (cr3 s) 12 = A -> Rec s A T -> (length pre <= 3)%nat -> Forall (fun x => x < 512) pre ->
  follow s T pre = Some t -> backed s t = true ->
  resolve_page s (wwin pre) = Some t.
Proof.
  intros Hcr HR Hl Hp Hf Hb.
  destruct (wpath_shape pre Hl Hp) as (a & b & c & d & Hw & Ha & Hbb & Hc & Hd).
  pose proof (follow_wpath s A T pre t HR Hl Hf) as Hfw.
  unfold wwin. rewrite Hw in *.
  unfold resolve_page. rewrite win_page_aligned by assumption. cbn [N.eqb].
  unfold mmu. rewrite Hcr.
  assert (Hio: 0 < 4096) by lia.
  destruct (win_idx a b c d 0 Ha Hbb Hc Hd Hio) as (I0 & I1 & I2 & I3).
  rewrite N.add_0_r in *.
  rewrite (hw_walk_follow s hw_levels A _ t); [reflexivity| |exact Hb].
  unfold hw_levels. cbn [map]. rewrite I0, I1, I2, I3. exact Hfw.
Qed.

(** * Well-formed trees: ghost ownership of table frames *)
Definition ownmap : Type := N -> option (list N).

Record WF (s : st) (T : N) (own : ownmap) : Prop := {
  wf_arena : lo s + cnt s <= 2 ^ 40;
  wf_root : own T = Some [];
  wf_owned : forall t p, own t = Some p ->
      backed s t = true /\ (length p <= 3)%nat /\ Forall (fun x => x < 512) p /\ hd 0 p <> 511;
  wf_rec : usable (ent s T 511) = true /\ hw_frame (ent s T 511) = T;
  wf_child : forall t p i, own t = Some p -> (length p < 3)%nat -> i < 512 -> p ++ [i] <> [511] ->
      hw_PS (ent s t i) = false /\
      (hw_P (ent s t i) = true -> own (hw_frame (ent s t i)) = Some (p ++ [i]))
}.

Lemma backed_lt40 s f : lo s + cnt s <= 2 ^ 40 -> backed s f = true -> f < 2 ^ 40.
Proof. unfold backed. intros H Hb. apply andb_prop in Hb. destruct Hb as [H1 H2]. lia. Qed.

Lemma follow_own s T own t p is t' :
  WF s T own -> own t = Some p -> follow s t is = Some t' ->
  Forall (fun x => x < 512) is -> (length p + length is <= 3)%nat -> hd 0 (p ++ is) <> 511 ->
  own t' = Some (p ++ is).
Proof.
  intros W. revert t p. induction is as [|i r IH]; intros t p Ho Hf Hlt Hlen Hhd.
  - cbn in Hf. inversion Hf; subst. rewrite app_nil_r. exact Ho.
  - cbn [follow] in Hf. destruct (backed s t); [|discriminate]. cbn [andb] in Hf.
    destruct (usable (ent s t i)) eqn:Hu; [|discriminate].
    inversion Hlt as [|? ? Hi Hr]; subst. cbn [length] in Hlen.
    assert (Hne: p ++ [i] <> [511]).
    { intros E. destruct p as [|x p']; cbn in *.
      - inversion E; subst. apply Hhd. reflexivity.
      - inversion E as [[E1 E2]]. destruct p'; discriminate. }
    destruct (wf_child s T own W t p i Ho ltac:(lia) Hi Hne) as [_ Hc].
    unfold usable in Hu. apply andb_prop in Hu. destruct Hu as [HP _].
    specialize (Hc HP).
    replace (p ++ i :: r) with ((p ++ [i]) ++ r) in * by (rewrite <- app_assoc; reflexivity).
    apply (IH _ _ Hc Hf Hr).
    + rewrite app_length. cbn [length]. lia.
    + exact Hhd.
Qed.

(** tables of a well-formed tree have usable entries only where present *)
Lemma wf_present_usable s T own t p i :
  WF s T own -> own t = Some p -> (length p < 3)%nat -> i < 512 -> p ++ [i] <> [511] ->
  usable (ent s t i) = hw_P (ent s t i).
Proof.
  intros W Ho Hl Hi Hne. destruct (wf_child s T own W t p i Ho Hl Hi Hne) as [HPS _].
  unfold usable. rewrite HPS. apply andb_true_r.
Qed.

(** [under pre o]: the frame is a table whose path extends [pre] *)
Definition under (pre : list N) (o : option (list N)) : Prop :=
  match o with Some q => firstn (length pre) q = pre | None => False end.

Lemma under_app pre i o : under (pre ++ [i]) o -> under pre o.
Proof.
  destruct o as [q|]; cbn; [|tauto]. intros H.
  rewrite app_length in H. cbn [length] in H.
  assert (E: firstn (length pre) (firstn (length pre + 1) q) = firstn (length pre) (pre ++ [i])) by (rewrite H; reflexivity).
  rewrite firstn_firstn in E. replace (Nat.min (length pre) (length pre + 1)) with (length pre) in E by lia.
  rewrite E. rewrite firstn_app, Nat.sub_diag, firstn_all. cbn. apply app_nil_r.
Qed.

Lemma under_self pre : under pre (Some pre).
Proof. cbn. apply firstn_all. Qed.

Lemma under_ext pre r : under pre (Some (pre ++ r)).
Proof. cbn. rewrite firstn_app, Nat.sub_diag, firstn_all. cbn. apply app_nil_r. Qed.

Lemma not_under_shorter pre q : (length q < length pre)%nat -> ~ under pre (Some q).
Proof.
  cbn. intros Hl H. apply (f_equal (@length N)) in H. rewrite firstn_length in H. lia.
Qed.

Lemma not_under_sibling pre i i' r : i <> i' -> ~ under (pre ++ [i]) (Some (pre ++ i' :: r)).
Proof.
  cbn. intros Hne H. rewrite app_length in H. cbn [length] in H.
  replace (pre ++ i' :: r) with ((pre ++ [i']) ++ r) in H by (rewrite <- app_assoc; reflexivity).
  rewrite firstn_app in H. rewrite app_length in H. cbn [length] in H.
  rewrite Nat.sub_diag in H. cbn [firstn] in H. rewrite app_nil_r in H.
  rewrite firstn_all2 in H by (rewrite app_length; cbn; lia).
  apply app_inj_tail in H. destruct H as [_ H]. congruence.
Qed.

(** * Frame lemmas: a walk only depends on the entries of the tables below its start *)
Lemma follow_frame s s' T own t p is :
  WF s T own -> own t = Some p -> lo s' = lo s -> cnt s' = cnt s ->
  (forall f q i, own f = Some q -> under p (Some q) -> (length q < length p + length is)%nat -> ent s' f i = ent s f i) ->
  Forall (fun x => x < 512) is -> (length p + length is <= 3)%nat -> hd 0 (p ++ is) <> 511 ->
  follow s' t is = follow s t is.
Proof.
  intros W. revert t p. induction is as [|i r IH]; intros t p Ho Hlo Hcnt Hfr Hlt Hlen Hhd; [reflexivity|].
  cbn [follow]. assert (Hbk: forall f, backed s' f = backed s f) by (intros; unfold backed; rewrite Hlo, Hcnt; reflexivity).
  rewrite Hbk, (Hfr t p i Ho (under_self p)) by (cbn [length]; lia).
  destruct (backed s t && usable (ent s t i)) eqn:E; [|reflexivity].
  apply andb_prop in E. destruct E as [_ Hu].
  inversion Hlt as [|? ? Hi Hr]; subst. cbn [length] in Hlen.
  assert (Hne: p ++ [i] <> [511]).
  { intros E. destruct p as [|x p']; cbn in *.
    - inversion E; subst. apply Hhd. reflexivity.
    - inversion E as [[E1 E2]]. destruct p'; discriminate. }
  destruct (wf_child s T own W t p i Ho ltac:(lia) Hi Hne) as [_ Hc].
  unfold usable in Hu. apply andb_prop in Hu. destruct Hu as [HP _]. specialize (Hc HP).
  apply (IH _ (p ++ [i]) Hc Hlo Hcnt).
  - intros f q j Hq Hu Hlq. apply (Hfr f q j Hq).
    + apply (under_app p i). exact Hu.
    + rewrite app_length in Hlq. cbn [length] in *. lia.
  - exact Hr.
  - rewrite app_length. cbn [length]. lia.
  - rewrite <- app_assoc. exact Hhd.
Qed.

Lemma look_cons s t i i2 r2 :
  look s t (i :: i2 :: r2) =
  if backed s t && usable (ent s t i) then look s (hw_frame (ent s t i)) (i2 :: r2) else None.
Proof. reflexivity. Qed.

Lemma look_one s t i : look s t [i] = if backed s t then Some (ent s t i) else None.
Proof. reflexivity. Qed.

Lemma look_frame s s' T own t p is :
  WF s T own -> own t = Some p -> lo s' = lo s -> cnt s' = cnt s ->
  (forall f q i, own f = Some q -> under p (Some q) -> (length q < length p + length is)%nat -> ent s' f i = ent s f i) ->
  Forall (fun x => x < 512) is -> (length p + length is <= 4)%nat -> hd 0 (p ++ is) <> 511 ->
  look s' t is = look s t is.
Proof.
  intros W. revert t p. induction is as [|i r IH]; intros t p Ho Hlo Hcnt Hfr Hlt Hlen Hhd; [reflexivity|].
  assert (Hbk: forall f, backed s' f = backed s f) by (intros; unfold backed; rewrite Hlo, Hcnt; reflexivity).
  destruct r as [|i2 r2].
  - rewrite !look_one. rewrite Hbk, (Hfr t p i Ho (under_self p)) by (cbn [length]; lia). reflexivity.
  - rewrite !look_cons.
    rewrite Hbk, (Hfr t p i Ho (under_self p)) by (cbn [length]; lia).
    destruct (backed s t && usable (ent s t i)) eqn:E; [|reflexivity].
    apply andb_prop in E. destruct E as [_ Hu].
    inversion Hlt as [|? ? Hi Hr]; subst. cbn [length] in Hlen.
    assert (Hne: p ++ [i] <> [511]).
    { intros E. destruct p as [|x p']; cbn in *.
      - inversion E; subst. apply Hhd. reflexivity.
      - inversion E as [[E1 E2]]. destruct p'; discriminate. }
    destruct (wf_child s T own W t p i Ho ltac:(lia) Hi Hne) as [_ Hc].
    unfold usable in Hu. apply andb_prop in Hu. destruct Hu as [HP _]. specialize (Hc HP).
    apply (IH _ (p ++ [i]) Hc Hlo Hcnt).
    + intros f q j Hq Hu Hlq. apply (Hfr f q j Hq).
      * apply (under_app p i). exact Hu.
      * rewrite app_length in Hlq. cbn [length] in *. lia.
    + exact Hr.
    + rewrite app_length. cbn [length] in *. lia.
    + rewrite <- app_assoc. exact Hhd.
Qed.

(** a walk that succeeds keeps succeeding, through the same tables, as long as the present entries of
    upper-level tables are not modified *)
Lemma follow_mono s s' T own t p is l :
  WF s T own -> own t = Some p -> lo s' = lo s -> cnt s' = cnt s ->
  (forall f q i, own f = Some q -> (length q < 3)%nat -> hw_P (ent s f i) = true -> ent s' f i = ent s f i) ->
  Forall (fun x => x < 512) is -> (length p + length is <= 3)%nat -> hd 0 (p ++ is) <> 511 ->
  follow s t is = Some l -> follow s' t is = Some l.
Proof.
  intros W. revert t p. induction is as [|i r IH]; intros t p Ho Hlo Hcnt Hfr Hlt Hlen Hhd Hf; [exact Hf|].
  cbn [follow] in *. assert (Hbk: forall f, backed s' f = backed s f) by (intros; unfold backed; rewrite Hlo, Hcnt; reflexivity).
  rewrite Hbk.
  destruct (backed s t) eqn:Hb; [|discriminate]. cbn [andb] in *.
  destruct (usable (ent s t i)) eqn:Hu; [|discriminate].
  pose proof Hu as Hu'. unfold usable in Hu'. apply andb_prop in Hu'. destruct Hu' as [HP _].
  cbn [length] in Hlen.
  rewrite (Hfr t p i Ho ltac:(lia) HP), Hu.
  inversion Hlt as [|? ? Hi Hr]; subst.
  assert (Hne: p ++ [i] <> [511]).
  { intros E. destruct p as [|x p']; cbn in *.
    - inversion E; subst. apply Hhd. reflexivity.
    - inversion E as [[E1 E2]]. destruct p'; discriminate. }
  destruct (wf_child s T own W t p i Ho ltac:(lia) Hi Hne) as [_ Hc]. specialize (Hc HP).
  apply (IH _ (p ++ [i]) Hc Hlo Hcnt Hfr Hr).
  - rewrite app_length. cbn [length]. lia.
  - rewrite <- app_assoc. exact Hhd.
  - exact Hf.
Qed.

(** present leaf entries only: what a page translates to *)
Definition lookP (s : st) (t : N) (is : list N) : option N :=
  match look s t is with Some e => if hw_P e then Some e else None | None => None end.

Lemma look_ext s s' t is :
  lo s' = lo s -> cnt s' = cnt s -> (forall f i, ent s' f i = ent s f i) -> look s' t is = look s t is.
Proof.
  intros Hlo Hcnt He.
  assert (Hbk: forall f, backed s' f = backed s f) by (intros; unfold backed; rewrite Hlo, Hcnt; reflexivity).
  revert t. induction is as [|i r IH]; intros t; [reflexivity|].
  destruct r as [|i2 r2].
  - rewrite !look_one, Hbk, He. reflexivity.
  - rewrite !look_cons, Hbk, He. destruct (backed s t && usable (ent s t i)); [apply IH | reflexivity].
Qed.

Lemma follow_ext s s' t is :
  lo s' = lo s -> cnt s' = cnt s -> (forall f i, ent s' f i = ent s f i) -> follow s' t is = follow s t is.
Proof.
  intros Hlo Hcnt He.
  assert (Hbk: forall f, backed s' f = backed s f) by (intros; unfold backed; rewrite Hlo, Hcnt; reflexivity).
  revert t. induction is as [|i r IH]; intros t; [reflexivity|].
  cbn [follow]. rewrite Hbk, He. destruct (backed s t && usable (ent s t i)); [apply IH | reflexivity].
Qed.

(** a table that is all zero maps nothing *)
Lemma lookP_zero_table s t is : (forall i, ent s t i = 0) -> lookP s t is = None.
Proof.
  intros Hz. unfold lookP. destruct is as [|i [|i2 r2]].
  - reflexivity.
  - rewrite look_one. destruct (backed s t); [|reflexivity]. rewrite Hz. reflexivity.
  - rewrite look_cons. rewrite Hz. unfold usable. cbn. rewrite andb_false_r. reflexivity.
Qed.
