(** The hand-written model of setupPDTForKernel (Vmm/Pt.v [setup_kernel], the subject of Vmm/PtKernel.v and C05) against the
    Gallina translation that gen/gotrans ("memory as state" mode, config vmm_kernel.json) regenerates from
    kernel/mm/vmm/pdt.go on every run (Gen/Trans_vmm_kernel.v).

    The section visitor - a closure stored in a variable and handed to visitElfSectionsFn - is the body of
    [gvisit .. sections ..] (Lib/GoVisit.v): [sections] is the sequence of (flags, address, size) the visitor function
    delivers; that multiboot.VisitElfSections delivers exactly the non-empty ELF sections of the boot information, in
    order, is the contract of that function and the subject of C10, not of this tie.  mm.AllocFrame, kernelPDT.Init /
    Map / Activate and translateFn are seams whose oracles are the model's allocator, [pdt_init] / [pdt_map] /
    [pdt_activate] on the kernel's slot (tied to pdt.go by C04_pdt_*_is_translation) and [translate]. *)
From Coq Require Import NArith ZArith String List Bool Lia.
From Coq Require Import ZifyBool ZifyN ZifyNat.
From FF Require Import Lib.Word Lib.GoOps Lib.GoOpsExt Lib.GoOpsProofs Lib.GoVisit Gen.Consts_mm_vmm Gen.Consts_multiboot Gen.Trans_vmm_kernel.
From FF Require Import Vmm.Pt Vmm.PtMem Vmm.PtAccess.
From FF Require Vmm.PdtTrans Vmm.MapTrans Vmm.PtTrans Vmm.PtKernel.
Module P := FF.Vmm.PdtTrans.
Module M := FF.Vmm.MapTrans.
Module K := FF.Vmm.PtKernel.
Import ListNotations.
Local Open Scope N_scope.
Ltac Zify.zify_post_hook ::= Z.div_mod_to_equations.

Notation W := mk_go_vmm_world (only parsing).

(** ---- the oracles of the model's environment ---- *)
Definition o_kinit (tr : list gcall) (s : st) : option (st * option string) :=
  match tr with GCall _ [GNum f] :: _ => P.lift_op (pdt_init kernel_slot f s) | _ => None end.
Definition o_kmap (tr : list gcall) (s : st) : option (st * option string) :=
  match tr with GCall _ [GNum p; GNum f; GNum fl] :: _ => P.lift_op (pdt_map kernel_slot p f fl s) | _ => None end.
Definition o_kactivate (_ : list gcall) (s : st) : option (st * unit) := Some (pdt_activate kernel_slot s, tt).
Definition o_translate (tr : list gcall) (s : st) : option (st * (N * option string)) :=
  match tr with
  | GCall _ [GNum a] :: _ => match translate a s with Stray => None | Ok (e, pa) => Some (s, (pa, P.err_of e)) end
  | _ => None
  end.

Definition ev_alloc : gcall := GCall "mm.AllocFrame" [].
Definition ev_kinit (f : N) : gcall := GCall "kernelPDT.Init" [GNum f].
Definition ev_kmap (p f fl : N) : gcall := GCall "kernelPDT.Map" [GNum p; GNum f; GNum fl].
Definition ev_translate (a : N) : gcall := GCall "translateFn" [GNum a].
Definition ev_kactivate : gcall := GCall "kernelPDT.Activate" [].

(** ---- the model with the sequence of seam calls written next to it ----
    [setup_kernel] (Vmm/Pt.v) computes state and error; the functions below make the same steps on unary counts and
    in addition push the call each step makes on a trace (most recent first).  [setup_kernel_tr_model] says that
    forgetting the trace gives [setup_kernel]. *)
Inductive lres : Type :=
| LGo (s : st) (page frame : N) (tr : list gcall)
| LStray
| LErr (s : st) (e : N) (tr : list gcall).

Fixpoint pages_tr (n : nat) (flags : N) (s : st) (page frame : N) (tr : list gcall) : lres :=
  match n with
  | O => LGo s page frame tr
  | S n' =>
      let tr1 := ev_kmap page frame flags :: tr in
      match pdt_map kernel_slot page frame flags s with
      | Stray => LStray
      | Ok (s1, e) => if e =? 0 then pages_tr n' flags s1 (w64 (page + 1)) (w64 (frame + 1)) tr1 else LErr s1 e tr1
      end
  end.

Definition lres_forget (r : lres) : loop_state + loop_exit :=
  match r with
  | LGo s p f _ => inl (s, p, f)
  | LStray => inr None
  | LErr s e _ => inr (Some (s, e))
  end.

Lemma pages_tr_model n flags : forall s page frame tr,
  lres_forget (pages_tr n flags s page frame tr) =
  K.iter_nat (map_step (fun p f => pdt_map kernel_slot p f flags)) n (s, page, frame).
Proof.
  induction n as [|n IH]; intros s page frame tr; cbn [pages_tr K.iter_nat]; [reflexivity|].
  unfold map_step at 1. destruct (pdt_map kernel_slot page frame flags s) as [[s1 e]|]; [|reflexivity].
  destruct (e =? 0); [apply IH | reflexivity].
Qed.

(** one section: [acc] = (state, error code, trace); None = Stray *)
Definition sec_flags (sflags : N) : N :=
  let fl0 := vmm_FlagPresent in
  let fl1 := if N.land sflags sec_executable =? 0 then N.lor fl0 vmm_FlagNoExecute else fl0 in
  if negb (N.land sflags sec_writable =? 0) then N.lor fl1 vmm_FlagRW else fl1.
Definition sec_cur (addr : N) : N := page_from_addr addr.
Definition sec_last (addr size : N) : N := page_from_addr (w64 (addr + w64 (size + (two64 - 1)))).
Definition sec_frame (off addr : N) : N := N.shiftr (w64 (addr + two64 - off)) mm_PageShift.
Definition sec_n (addr size : N) : N :=
  if sec_cur addr <=? sec_last addr size then sec_last addr size - sec_cur addr + 1 else 0.

Definition visit_tr (off : N) (sec : section) (acc : option (st * N * list gcall)) : option (st * N * list gcall) :=
  match acc with
  | None => None
  | Some (s, err, tr) =>
      let '(sflags, addr, size) := sec in
      if negb (err =? 0) || (addr <? off) then Some (s, err, tr) else
      match pages_tr (N.to_nat (sec_n addr size)) (sec_flags sflags) s (sec_cur addr) (sec_frame off addr) tr with
      | LGo s1 _ _ tr1 => Some (s1, E_OK, tr1)
      | LStray => None
      | LErr s1 e tr1 => Some (s1, e, tr1)
      end
  end.

Definition acc_forget (a : option (st * N * list gcall)) : R (st * N) :=
  match a with None => Stray | Some (s, e, _) => Ok (s, e) end.

Lemma visit_tr_model off sec acc :
  acc_forget (visit_tr off sec acc) = visit_section off sec (acc_forget acc).
Proof.
  destruct acc as [[[s err] tr]|]; [|reflexivity]. destruct sec as [[sflags addr] size].
  cbn [visit_tr visit_section acc_forget].
  destruct (negb (err =? 0) || (addr <? off)); [reflexivity|].
  fold (sec_flags sflags). cbv zeta.
  change (page_from_addr addr) with (sec_cur addr).
  change (page_from_addr (w64 (addr + w64 (size + (two64 - 1))))) with (sec_last addr size).
  change (N.shiftr (w64 (addr + two64 - off)) mm_PageShift) with (sec_frame off addr).
  fold (sec_n addr size).
  rewrite K.iter_n_nat, <- (pages_tr_model _ _ s (sec_cur addr) (sec_frame off addr) tr).
  destruct (pages_tr _ _ _ _ _ _); reflexivity.
Qed.

(** the reserved-range loop *)
Fixpoint resv_tr (n : nat) (s : st) (a : N) (tr : list gcall) : lres :=
  match n with
  | O => LGo s a 0 tr
  | S n' =>
      let tr1 := ev_translate a :: tr in
      match translate a s with
      | Stray => LStray
      | Ok (err, pa) =>
          if negb (err =? 0) then LErr s err tr1 else
          let tr2 := ev_kmap (page_from_addr a) (N.shiftr pa mm_PageShift) P_RW :: tr1 in
          match pdt_map kernel_slot (page_from_addr a) (N.shiftr pa mm_PageShift) P_RW s with
          | Stray => LStray
          | Ok (s1, e) => if e =? 0 then resv_tr n' s1 (w64 (a + mm_PageSize)) tr2 else LErr s1 e tr2
          end
      end
  end.

Definition rres_forget (r : lres) : (st * N) + loop_exit :=
  match r with
  | LGo s a _ _ => inl (s, a)
  | LStray => inr None
  | LErr s e _ => inr (Some (s, e))
  end.

Lemma resv_tr_model n : forall s a tr, rres_forget (resv_tr n s a tr) = K.iter_nat resv_step n (s, a).
Proof.
  induction n as [|n IH]; intros s a tr; cbn [resv_tr K.iter_nat]; [reflexivity|].
  unfold resv_step at 1. destruct (translate a s) as [[err pa]|]; [|reflexivity].
  destruct (negb (err =? 0)); [reflexivity|].
  destruct (pdt_map kernel_slot _ _ P_RW s) as [[s1 e]|]; [|reflexivity].
  destruct (e =? 0); [apply IH | reflexivity].
Qed.

Definition resv_n (l : N) : N :=
  if l <? vmm_tempMappingAddr then (vmm_tempMappingAddr - l + (mm_PageSize - 1)) / mm_PageSize else 0.

Definition nonempty (secs : list section) : list section := filter (fun sec => negb (snd sec =? 0)) secs.

Definition setup_kernel_tr (off : N) (secs : list section) (s : st) (tr0 : list gcall) : option (st * N * list gcall) :=
  let tr1 := ev_alloc :: tr0 in
  match alloc s with
  | (s1, None) => Some (s1, E_ALLOC, tr1)
  | (s1, Some kf) =>
      let tr2 := ev_kinit kf :: tr1 in
      match pdt_init kernel_slot kf s1 with
      | Stray => None
      | Ok (s2, err) =>
          if negb (err =? 0) then Some (s2, err, tr2) else
          match fold_left (fun acc sec => visit_tr off sec acc) (nonempty secs) (Some (s2, E_OK, tr2)) with
          | None => None
          | Some (s3, err3, tr3) =>
              if negb (err3 =? 0) then Some (s3, err3, tr3) else
              match resv_tr (N.to_nat (resv_n (last s3))) s3 (last s3) tr3 with
              | LGo s4 _ _ tr4 => Some (pdt_activate kernel_slot s4, E_OK, ev_kactivate :: tr4)
              | LStray => None
              | LErr s4 e tr4 => Some (s4, e, tr4)
              end
          end
      end
  end.

Lemma fold_visit_model off secs : forall acc,
  acc_forget (fold_left (fun acc sec => visit_tr off sec acc) secs acc) =
  fold_left (fun acc sec => visit_section off sec acc) secs (acc_forget acc).
Proof.
  induction secs as [|sec secs IH]; intros acc; cbn [fold_left]; [reflexivity|].
  rewrite IH, visit_tr_model. reflexivity.
Qed.

Theorem setup_kernel_tr_model off secs s tr0 :
  acc_forget (setup_kernel_tr off secs s tr0) = setup_kernel off secs s.
Proof.
  unfold setup_kernel_tr, setup_kernel.
  destruct (alloc s) as [s1 [kf|]]; [|reflexivity].
  destruct (pdt_init kernel_slot kf s1) as [[s2 err]|]; [|reflexivity].
  destruct (negb (err =? 0)); [reflexivity|].
  fold (nonempty secs).
  pose proof (fold_visit_model off (nonempty secs) (Some (s2, E_OK, ev_kinit kf :: ev_alloc :: tr0))) as H.
  change (acc_forget (Some (s2, E_OK, ev_kinit kf :: ev_alloc :: tr0))) with (Ok (s2, E_OK)) in H. rewrite <- H.
  destruct (fold_left _ (nonempty secs) _) as [[[s3 err3] tr3]|]; cbn [acc_forget]; [|reflexivity].
  destruct (negb (err3 =? 0)); [reflexivity|].
  fold (resv_n (last s3)). rewrite K.iter_n_nat, <- (resv_tr_model _ s3 (last s3) tr3).
  destruct (resv_tr _ _ _ _); reflexivity.
Qed.

(** ---- the two loops: gloop of the translation = the unary loops of the traced model ---- *)
Lemma page_loop_trans
      (step : go_vmm_world * N * N * option string -> gres (gctl (go_vmm_world * N * N * option string) ((go_vmm_world * option string) * bool)))
      fl lastp :
  lastp + 1 < two64 ->
  (forall tr s cf cp, step (W tr s, cf, cp, None) =
     if cp <=? lastp then
       match pdt_map kernel_slot cp cf fl s with
       | Stray => GPanic
       | Ok (s1, e) =>
           if e =? 0 then GOk (GNext (W (ev_kmap cp cf fl :: tr) s1, gw 64 (cf + 1), gw 64 (cp + 1), None))
           else GOk (GRet ((W (ev_kmap cp cf fl :: tr) s1, P.err_of e), true))
       end
     else GOk (GBreak (W tr s, cf, cp, None))) ->
  forall n fuel tr s cf cp, (n < fuel)%nat ->
    N.of_nat n = (if cp <=? lastp then lastp - cp + 1 else 0) ->
    gloop fuel step (W tr s, cf, cp, None) =
    match pages_tr n fl s cp cf tr with
    | LGo s1 p1 f1 tr1 => GOk (inl (W tr1 s1, f1, p1, None))
    | LStray => GPanic
    | LErr s1 e tr1 => GOk (inr ((W tr1 s1, P.err_of e), true))
    end.
Proof.
  intros Hl Hstep. induction n as [|n IH]; intros fuel tr s cf cp Hf Hn; (destruct fuel as [|fuel]; [lia|]).
  - cbn [pages_tr]. apply gloop_break. rewrite Hstep.
    destruct (N.leb_spec cp lastp); [lia | reflexivity].
  - cbn [pages_tr]. rewrite gloop_S, Hstep.
    destruct (N.leb_spec cp lastp) as [Hle|]; [|lia].
    destruct (pdt_map kernel_slot cp cf fl s) as [[s1 e]|]; [|reflexivity].
    destruct (e =? 0); [|reflexivity].
    assert (E1 : gw 64 (cp + 1) = cp + 1) by (rewrite gw64; apply w64_small; unfold two64 in *; lia).
    assert (E2 : w64 (cp + 1) = cp + 1) by (apply w64_small; unfold two64 in *; lia).
    rewrite E1, E2, (gw64 (cf + 1)).
    apply IH; [lia|].
    destruct (N.leb_spec (cp + 1) lastp); lia.
Qed.

Lemma resv_n_step a : a < vmm_tempMappingAddr ->
  w64 (a + mm_PageSize) = a + mm_PageSize /\ resv_n a = resv_n (a + mm_PageSize) + 1.
Proof.
  intros Ha. unfold resv_n, w64, two64 in *.
  change vmm_tempMappingAddr with 18446743523953733632 in *. change mm_PageSize with 4096 in *.
  change (4096 - 1) with 4095.
  split; [apply N.mod_small; lia|].
  destruct (N.ltb_spec a 18446743523953733632); [|lia].
  destruct (N.ltb_spec (a + 4096) 18446743523953733632); lia.
Qed.

Lemma resv_loop_trans
      (step : go_vmm_world * N -> gres (gctl (go_vmm_world * N) (go_vmm_world * option string))) :
  (forall tr s a, a < two64 -> step (W tr s, a) =
     if a <? vmm_tempMappingAddr then
       match translate a s with
       | Stray => GPanic
       | Ok (err, pa) =>
           if negb (err =? 0) then GOk (GRet (W (ev_translate a :: tr) s, P.err_of err)) else
           let tr2 := ev_kmap (page_from_addr a) (N.shiftr pa mm_PageShift) P_RW :: ev_translate a :: tr in
           match pdt_map kernel_slot (page_from_addr a) (N.shiftr pa mm_PageShift) P_RW s with
           | Stray => GPanic
           | Ok (s1, e) => if e =? 0 then GOk (GNext (W tr2 s1, gw 64 (a + mm_PageSize))) else GOk (GRet (W tr2 s1, P.err_of e))
           end
       end
     else GOk (GBreak (W tr s, a))) ->
  forall n fuel tr s a, (n < fuel)%nat -> a < two64 -> N.of_nat n = resv_n a ->
    gloop fuel step (W tr s, a) =
    match resv_tr n s a tr with
    | LGo s1 a1 _ tr1 => GOk (inl (W tr1 s1, a1))
    | LStray => GPanic
    | LErr s1 e tr1 => GOk (inr (W tr1 s1, P.err_of e))
    end.
Proof.
  intros Hstep. induction n as [|n IH]; intros fuel tr s a Hf Ha Hn; (destruct fuel as [|fuel]; [lia|]).
  - cbn [resv_tr]. apply gloop_break. rewrite Hstep by exact Ha.
    destruct (N.ltb_spec a vmm_tempMappingAddr) as [Hlt|]; [|reflexivity].
    destruct (resv_n_step a Hlt) as [_ E]. lia.
  - cbn [resv_tr]. rewrite gloop_S, Hstep by exact Ha.
    destruct (N.ltb_spec a vmm_tempMappingAddr) as [Hlt|Hge].
    2:{ unfold resv_n in Hn. destruct (N.ltb_spec a vmm_tempMappingAddr); lia. }
    destruct (translate a s) as [[err pa]|]; [|reflexivity].
    destruct (negb (err =? 0)); [reflexivity|]. cbv zeta.
    destruct (pdt_map kernel_slot _ _ P_RW s) as [[s1 e]|]; [|reflexivity].
    destruct (e =? 0); [|reflexivity].
    destruct (resv_n_step a Hlt) as [E1 E2].
    rewrite gw64, E1.
    apply IH; [lia | | lia].
    unfold two64. change vmm_tempMappingAddr with 18446743523953733632 in Hlt. change mm_PageSize with 4096. lia.
Qed.

From FF Require Vmm.PtTrans.

(** ---- arithmetic of this translation unit ---- *)
Lemma page_from_addr_any a : a < two64 -> go_mm_PageFromAddress a = page_from_addr a.
Proof.
  intros Ha. unfold go_mm_PageFromAddress, page_from_addr, andnot.
  assert (E : gw 64 (gsub 64 mm_PageSize 1) = mm_PageSize - 1) by reflexivity.
  rewrite E, land_gnot64 by (try exact Ha; reflexivity).
  apply gw64_small. apply PtTrans.shiftr_lt. apply PtTrans.ldiff_lt. exact Ha.
Qed.

Lemma page_from_addr_lt a : a < two64 -> page_from_addr a + 1 < two64.
Proof.
  intros Ha. unfold page_from_addr, andnot. rewrite N.shiftr_div_pow2.
  assert (H : N.ldiff a (mm_PageSize - 1) <= a).
  { change (mm_PageSize - 1) with (2 ^ 12 - 1). fold (andnot a (2 ^ 12 - 1)). rewrite andnot_pow2. lia. }
  change (2 ^ mm_PageShift) with 4096. unfold two64 in *. lia.
Qed.

Lemma sec_last_trans addr size :
  go_mm_PageFromAddress (gw 64 (addr + gw 64 (gsub 64 size 1))) = sec_last addr size.
Proof.
  unfold sec_last. rewrite <- page_from_addr_any by apply w64_lt. f_equal.
  assert (E : gw 64 (gsub 64 size 1) = w64 (size + (two64 - 1))).
  { unfold gsub. change (gw 64 1) with 1. rewrite !gw64. rewrite (w64_small (w64 _)) by apply w64_lt.
    f_equal. change (2 ^ 64) with two64. unfold two64. lia. }
  rewrite E, gw64. reflexivity.
Qed.

Lemma sec_frame_trans off addr : off < two64 ->
  gw 64 (N.shiftr (gsub 64 addr off) mm_PageShift) = sec_frame off addr.
Proof.
  intros Ho. unfold sec_frame, gsub. rewrite (gw64 off), (w64_small off Ho), gw64.
  change (2 ^ 64) with two64. apply gw64_small. apply PtTrans.shiftr_lt. apply w64_lt.
Qed.

Lemma sec_flags_trans sflags :
  (let v_flags := vmm_FlagPresent in
   let v_flags0 := if N.land sflags mb_ElfSectionExecutable =? 0 then let v_flags0 := N.lor v_flags vmm_FlagNoExecute in v_flags0 else v_flags in
   if negb (N.land sflags mb_ElfSectionWritable =? 0) then let v_flags1 := N.lor v_flags0 vmm_FlagRW in v_flags1 else v_flags0)
  = sec_flags sflags.
Proof. reflexivity. Qed.

Lemma translate_lt a s e pa : translate a s = Ok (e, pa) -> pa < two64.
Proof.
  unfold translate. destruct (pte_walk _ _ _ _ _) as [[[f i]|]|]; intros E; try discriminate; injection E as _ <-.
  - apply w64_lt.
  - reflexivity.
Qed.

(** ---- the mapping operations do not move the reservation cursor ---- *)
Lemma alloc_last s s1 r : alloc s = (s1, r) -> last s1 = last s.
Proof. unfold alloc. destruct (orc s); intros E; inversion E; reflexivity. Qed.

Lemma map_walk_last lv : forall level ta va fr fl s s' e,
  map_walk lv level ta va fr fl s = Ok (s', e) -> last s' = last s.
Proof.
  induction lv as [|[sh bits] rest IH]; intros level ta va fr fl s s' e; cbn [map_walk].
  - intros E; injection E as <- _. reflexivity.
  - destruct (resolve s _) as [[f i]|]; [|discriminate].
    destruct (level =? last_level). { intros E; injection E as <- _. reflexivity. }
    destruct (has_flags _ vmm_FlagHugePage). { intros E; injection E as <- _. reflexivity. }
    destruct (negb _); [|apply IH].
    destruct (alloc s) as [s1 [nf|]] eqn:Ea.
    2:{ intros E; injection E as <- _. eapply alloc_last; exact Ea. }
    assert (L1 : last s1 = last s) by (eapply alloc_last; exact Ea).
    destruct (resolve_page _ _) as [pf|]; [|discriminate].
    intros E. apply IH in E. rewrite E. exact L1.
Qed.

Lemma map_page_last p f fl s s' e : map_page p f fl s = Ok (s', e) -> last s' = last s.
Proof.
  unfold map_page. destruct (_ && _ && _); [intros E; injection E as <- _; reflexivity | apply map_walk_last].
Qed.

Lemma unmap_walk_last lv : forall level ta va s s' e, unmap_walk lv level ta va s = Ok (s', e) -> last s' = last s.
Proof.
  induction lv as [|[sh bits] rest IH]; intros level ta va s s' e; cbn [unmap_walk].
  - intros E; injection E as <- _. reflexivity.
  - destruct (resolve s _) as [[f i]|]; [|discriminate].
    destruct (level =? last_level). { intros E; injection E as <- _. reflexivity. }
    destruct (negb _). { intros E; injection E as <- _. reflexivity. }
    destruct (has_flags _ _). { intros E; injection E as <- _. reflexivity. }
    apply IH.
Qed.

Lemma pdt_map_last slot p f fl s s' e : pdt_map slot p f fl s = Ok (s', e) -> last s' = last s.
Proof.
  unfold pdt_map, with_pdt. destruct (_ =? _); [apply map_page_last|].
  destruct (phys s _) as [[ff ii]|]; [|discriminate].
  destruct (map_page _ _ _ _) as [[s2 err]|] eqn:Em; [|discriminate].
  intros E; injection E as <- _. apply map_page_last in Em. exact Em.
Qed.

Lemma map_temporary_last f s s' e p : map_temporary f s = Ok (s', e, p) -> last s' = last s.
Proof.
  unfold map_temporary. destruct (_ && _). { intros E; injection E as <- _ _. reflexivity. }
  destruct (map_page _ _ _ _) as [[s1 err]|] eqn:Em; [|discriminate]. apply map_page_last in Em.
  destruct (err =? 0); intros E; injection E as <- _ _; exact Em.
Qed.

Lemma pdt_init_last slot frame s s' e : pdt_init slot frame s = Ok (s', e) -> last s' = last s.
Proof.
  unfold pdt_init. cbv zeta. destruct (_ =? _). { intros E; injection E as <- _. reflexivity. }
  destruct (map_temporary frame _) as [[[s1 err] page]|] eqn:Emt; [|discriminate]. apply map_temporary_last in Emt.
  destruct (negb (err =? 0)). { intros E; injection E as <- _. exact Emt. }
  destruct (resolve_page s1 _) as [pf|]; [|discriminate].
  destruct (resolve s1 _) as [[ef ei]|]; [|discriminate].
  destruct (unmap_page _ _) as [[s4 e4]|] eqn:Eu; [|discriminate].
  intros E; injection E as <- _. apply unmap_walk_last in Eu. rewrite Eu. exact Emt.
Qed.

Lemma pages_tr_last n fl : forall s p f tr,
  match pages_tr n fl s p f tr with LGo s1 _ _ _ => last s1 = last s | LStray => True | LErr s1 _ _ => last s1 = last s end.
Proof.
  induction n as [|n IH]; intros s p f tr; cbn [pages_tr]; [reflexivity|].
  destruct (pdt_map kernel_slot p f fl s) as [[s1 e]|] eqn:Em; [|exact I]. apply pdt_map_last in Em.
  destruct (e =? 0); [|exact Em].
  specialize (IH s1 (w64 (p + 1)) (w64 (f + 1)) (ev_kmap p f fl :: tr)).
  destruct (pages_tr _ _ _ _ _ _); try rewrite IH; auto.
Qed.

Lemma fold_visit_last off secs : forall s e tr s3 e3 tr3,
  fold_left (fun acc sec => visit_tr off sec acc) secs (Some (s, e, tr)) = Some (s3, e3, tr3) -> last s3 = last s.
Proof.
  induction secs as [|[[sfl addr] size] secs IH]; intros s e tr s3 e3 tr3; cbn [fold_left].
  - intros E; injection E as <- _ _. reflexivity.
  - cbn [visit_tr]. destruct (negb (e =? 0) || (addr <? off)); [apply IH|].
    pose proof (pages_tr_last (N.to_nat (sec_n addr size)) (sec_flags sfl) s (sec_cur addr) (sec_frame off addr) tr) as HL.
    destruct (pages_tr _ _ _ _ _ _) as [s1 p1 f1 tr1| |s1 e1 tr1].
    + intros E. apply IH in E. congruence.
    + intros E. exfalso. clear -E. induction secs as [|x xs IHx]; cbn in E; [discriminate | exact (IHx E)].
    + intros E. apply IH in E. congruence.
Qed.

(** ---- setupPDTForKernel ---- *)
Definition sec_ok (sec : section) : Prop := let '(_, addr, size) := sec in addr < two64 /\ size < two64.
Definition sec_fuel (fuel : nat) (sec : section) : Prop :=
  let '(_, addr, size) := sec in (N.to_nat (sec_n addr size) < fuel)%nat.
(** fuel: only the sections whose pages are MAPPED need it - non-empty (an empty section, e.g. the all-zero null section
    every ELF table starts with, whose page count `size - 1` wraps, is never delivered by the visitor) and at or above the
    kernel offset (the closure returns at once for `secAddress < kernelPageOffset`, e.g. for the large non-alloc .symtab /
    .debug sections at address 0) *)
Definition mapped (off : N) (secs : list section) : list section :=
  filter (fun sec : section => let '(_, addr, _) := sec in negb (addr <? off)) (nonempty secs).
Definition fuel_ok (fuel : nat) (off : N) (secs : list section) (s : st) : Prop :=
  Forall (sec_fuel fuel) (mapped off secs) /\ (N.to_nat (resv_n (last s)) < fuel)%nat.

Lemma Forall_filter {A} (P : A -> Prop) f l : Forall P l -> Forall P (filter f l).
Proof. induction 1 as [|x l Hx Hl IH]; cbn [filter]; [constructor|]. destruct (f x); [constructor|]; assumption. Qed.

Lemma fold_visit_none off secs : fold_left (fun acc sec => visit_tr off sec acc) secs None = None.
Proof. induction secs as [|x xs IH]; [reflexivity | exact IH]. Qed.

Ltac wsimp := cbn [f_world_trace f_world_mem set_f_world_trace set_f_world_mem].

Theorem setup_kernel_is_translation off secs s tr0 fuel :
  off < two64 -> last s < two64 -> Forall sec_ok secs -> fuel_ok fuel off secs s ->
  go_vmm_setupPDTForKernel fuel (W tr0 s) off o_kactivate o_kinit o_kmap M.o_alloc o_translate (nonempty secs) =
  match setup_kernel_tr off secs s tr0 with
  | None => GPanic
  | Some (s', e, tr') => GOk (W tr' s', P.err_of e)
  end.
Proof.
  intros Hoff Hlast Hok [Hfs Hfr].
  apply (Forall_filter _ (fun sec => negb (snd sec =? 0))) in Hok.
  fold (nonempty secs) in Hok.
  unfold go_vmm_setupPDTForKernel, setup_kernel_tr.
  unfold go_vmm_world_seam at 1. wsimp. unfold M.o_alloc.
  destruct (alloc s) as [s1 [kf|]] eqn:Ea; [|reflexivity].
  cbn [gerr_eqb negb]. wsimp.
  unfold go_vmm_world_seam at 1. wsimp. cbn [o_kinit].
  destruct (pdt_init kernel_slot kf s1) as [[s2 err]|] eqn:Ei; cbn [P.lift_op]; [|reflexivity].
  rewrite M.err_of_nil.
  destruct (err =? 0) eqn:Eerr; cbn [negb]; [|reflexivity].
  apply N.eqb_eq in Eerr. subst err. wsimp.
  set (tr2 := ev_kinit kf :: ev_alloc :: tr0).
  change (GCall "kernelPDT.Init" [GNum kf] :: GCall "mm.AllocFrame" [] :: tr0) with tr2.
  match goal with |- context [gvisit ?f _ _] => set (vstep := f) end.
  assert (HV : forall l tr s e, Forall sec_ok l ->
             Forall (sec_fuel fuel) (filter (fun sec : section => let '(_, addr, _) := sec in negb (addr <? off)) l) ->
             gvisit vstep l (W tr s, P.err_of e) =
             match fold_left (fun acc sec => visit_tr off sec acc) l (Some (s, e, tr)) with
             | None => GPanic
             | Some (s', e', tr') => GOk (W tr' s', P.err_of e')
             end).
  { intros l. induction l as [|[[sfl addr] size] l IH]; intros tr sa e Hl1 Hl2; [reflexivity|].
    inversion Hl1 as [|? ? Hso Hl1']; subst.
    unfold sec_ok in Hso. destruct Hso as [Haddr Hsize].
    cbn [filter] in Hl2.
    assert (Hl2' : Forall (sec_fuel fuel) (filter (fun sec : section => let '(_, addr, _) := sec in negb (addr <? off)) l))
      by (destruct (addr <? off); cbn [negb] in Hl2; [exact Hl2 | inversion Hl2; assumption]).
    cbn [gvisit fold_left visit_tr].
    unfold vstep at 1. cbv beta iota. rewrite M.err_of_nil.
    destruct (negb (e =? 0) || (addr <? off)) eqn:Eskip.
    { apply IH; assumption. }
    apply orb_false_elim in Eskip. destruct Eskip as [Ee Eao].
    assert (Hfu : (N.to_nat (sec_n addr size) < fuel)%nat)
      by (rewrite Eao in Hl2; cbn [negb] in Hl2; inversion Hl2 as [|? ? Hfu0 _]; exact Hfu0).
    apply negb_false_iff in Ee. apply N.eqb_eq in Ee. subst e.
    rewrite sec_flags_trans. cbv zeta.
    rewrite (page_from_addr_any addr Haddr), sec_last_trans, (sec_frame_trans off addr Hoff).
    fold (sec_cur addr).
    match goal with |- context [gloop fuel ?f _] => set (pstep := f) end.
    assert (Hps : forall tr s cf cp, pstep (W tr s, cf, cp, None) =
               if cp <=? sec_last addr size then
                 match pdt_map kernel_slot cp cf (sec_flags sfl) s with
                 | Stray => GPanic
                 | Ok (s1, e) =>
                     if e =? 0 then GOk (GNext (W (ev_kmap cp cf (sec_flags sfl) :: tr) s1, gw 64 (cf + 1), gw 64 (cp + 1), None))
                     else GOk (GRet ((W (ev_kmap cp cf (sec_flags sfl) :: tr) s1, P.err_of e), true))
                 end
               else GOk (GBreak (W tr s, cf, cp, None))).
    { intros tr' s' cf cp. unfold pstep. cbv beta iota.
      destruct (cp <=? sec_last addr size); [|reflexivity].
      unfold go_vmm_world_seam. wsimp. cbn [o_kmap].
      destruct (pdt_map kernel_slot cp cf (sec_flags sfl) s') as [[s1' e']|]; cbn [P.lift_op]; [|reflexivity].
      rewrite M.err_of_nil. destruct (e' =? 0) eqn:E0; cbn [negb]; [|reflexivity].
      apply N.eqb_eq in E0. subst e'. reflexivity. }
    change (P.err_of 0) with (@None string).
    rewrite (page_loop_trans pstep (sec_flags sfl) (sec_last addr size) (page_from_addr_lt _ (w64_lt _)) Hps
               (N.to_nat (sec_n addr size)) fuel tr sa (sec_frame off addr) (sec_cur addr) Hfu)
      by (rewrite N2Nat.id; reflexivity).
    destruct (pages_tr _ _ _ _ _ _) as [s1' p1 f1 tr1| |s1' e1 tr1].
    - cbn [gvisit]. apply (IH tr1 s1' E_OK); assumption.
    - rewrite fold_visit_none. reflexivity.
    - apply (IH tr1 s1' e1); assumption. }
  change (set_f_world_mem (set_f_world_trace (set_f_world_mem (set_f_world_trace (W tr0 s) (GCall "mm.AllocFrame" [] :: tr0)) s1) tr2) s2) with (W tr2 s2).
  change (P.err_of 0) with (P.err_of E_OK).
  rewrite (HV (nonempty secs) tr2 s2 E_OK Hok Hfs).
  destruct (fold_left _ (nonempty secs) (Some (s2, E_OK, tr2))) as [[[s3 err3] tr3]|] eqn:Efold; [|reflexivity].
  rewrite M.err_of_nil.
  destruct (err3 =? 0) eqn:E3; cbn [negb]; [|reflexivity].
  apply N.eqb_eq in E3. subst err3. wsimp.
  assert (HL3 : last s3 = last s).
  { rewrite (fold_visit_last off _ _ _ _ _ _ _ Efold), (pdt_init_last _ _ _ _ _ Ei). eapply alloc_last; exact Ea. }
  match goal with |- context [gloop fuel ?f _] => set (rstep := f) end.
  assert (Hrs : forall tr s a, a < two64 -> rstep (W tr s, a) =
     if a <? vmm_tempMappingAddr then
       match translate a s with
       | Stray => GPanic
       | Ok (err, pa) =>
           if negb (err =? 0) then GOk (GRet (W (ev_translate a :: tr) s, P.err_of err)) else
           let tr2 := ev_kmap (page_from_addr a) (N.shiftr pa mm_PageShift) P_RW :: ev_translate a :: tr in
           match pdt_map kernel_slot (page_from_addr a) (N.shiftr pa mm_PageShift) P_RW s with
           | Stray => GPanic
           | Ok (s1, e) => if e =? 0 then GOk (GNext (W tr2 s1, gw 64 (a + mm_PageSize))) else GOk (GRet (W tr2 s1, P.err_of e))
           end
       end
     else GOk (GBreak (W tr s, a))).
  { intros tr' s' a Ha. unfold rstep. cbv beta iota.
    destruct (a <? vmm_tempMappingAddr); [|reflexivity]. cbv zeta.
    unfold go_vmm_world_seam at 1. wsimp. cbn [o_translate].
    destruct (translate a s') as [[err pa]|] eqn:Et; [|reflexivity]. wsimp.
    rewrite M.err_of_nil. destruct (negb (err =? 0)); [reflexivity|].
    rewrite (page_from_addr_any a Ha).
    rewrite (gw64_small (N.shiftr pa mm_PageShift)) by (apply PtTrans.shiftr_lt; eapply translate_lt; exact Et).
    change (N.lor vmm_FlagPresent vmm_FlagRW) with P_RW.
    unfold go_vmm_world_seam. wsimp. cbn [o_kmap].
    destruct (pdt_map kernel_slot (page_from_addr a) (N.shiftr pa mm_PageShift) P_RW s') as [[s1' e']|]; cbn [P.lift_op]; [|reflexivity].
    rewrite M.err_of_nil. destruct (e' =? 0); reflexivity. }
  rewrite (resv_loop_trans rstep Hrs (N.to_nat (resv_n (last s3))) fuel tr3 s3 (last s3))
    by (rewrite ?HL3, ?N2Nat.id; auto).
  destruct (resv_tr _ s3 (last s3) tr3) as [s4 a4 f4 tr4| |s4 e4 tr4]; try reflexivity.
Qed.

Theorem setup_kernel_is_translation_state off secs s tr0 fuel :
  off < two64 -> last s < two64 -> Forall sec_ok secs -> fuel_ok fuel off secs s ->
  match go_vmm_setupPDTForKernel fuel (W tr0 s) off o_kactivate o_kinit o_kmap M.o_alloc o_translate (nonempty secs) with
  | GOk (w, e) => GOk (f_world_mem w, e)
  | GPanic => GPanic
  | GFuel => GFuel
  end =
  match setup_kernel off secs s with
  | Stray => GPanic
  | Ok (s', e) => GOk (s', P.err_of e)
  end.
Proof.
  intros H1 H2 H3 H4. rewrite (setup_kernel_is_translation off secs s tr0 fuel H1 H2 H3 H4).
  rewrite <- (setup_kernel_tr_model off secs s tr0).
  destruct (setup_kernel_tr off secs s tr0) as [[[s' e] tr']|]; reflexivity.
Qed.
