(** Pure 64-bit arithmetic of the recursive page-table window (C04 [recursive_entry]). *)
From Coq Require Import NArith ZArith Lia List Bool.
From Coq Require Import ZifyBool ZifyN ZifyNat.
From FF Require Import Lib.Word Gen.Consts_mm_vmm Vmm.Region Vmm.Pt.
Import ListNotations.
Local Open Scope N_scope.
Ltac Zify.zify_post_hook ::= Z.div_mod_to_equations.

(** Obligations on the regenerated constants: the Go constants describe the hardware [mmu] models. *)
Lemma go_levels_val : go_levels = [(39, 9); (30, 9); (21, 9); (12, 9)].
Proof. reflexivity. Qed.
Lemma last_level_val : last_level = 3.
Proof. reflexivity. Qed.
Lemma pointer_shift_val : mm_PointerShift = 3.
Proof. reflexivity. Qed.
Lemma page_shift_val : mm_PageShift = 12.
Proof. reflexivity. Qed.
Lemma phys_mask_val : vmm_ptePhysPageMask = N.shiftl (N.ones 40) 12.
Proof. reflexivity. Qed.
Lemma flag_present_val : vmm_FlagPresent = 1.
Proof. reflexivity. Qed.
Lemma flag_rw_val : vmm_FlagRW = 2.
Proof. reflexivity. Qed.
Lemma flag_huge_val : vmm_FlagHugePage = 128.
Proof. reflexivity. Qed.
Lemma temp_page_val : temp_page = 0xffffff7ffffff.
Proof. reflexivity. Qed.
Lemma level_bits_val : level_bits 0 = 9 /\ level_bits 1 = 9 /\ level_bits 2 = 9 /\ level_bits 3 = 9.
Proof. repeat split; reflexivity. Qed.
Lemma last_entry_off_val : last_entry_off = 4088.
Proof. reflexivity. Qed.

(** A virtual address of the canonical upper half by its four table indices. *)
Definition win (a b c d : N) : N :=
  0xFFFF000000000000 + a * 0x8000000000 + b * 0x40000000 + c * 0x200000 + d * 0x1000.

Lemma pdt_virtual_addr_win : vmm_pdtVirtualAddr = win 511 511 511 511.
Proof. reflexivity. Qed.

Lemma hw_idx_spec page k : k <= 3 -> hw_idx page k = (page / 2 ^ (9 * (3 - k))) mod 512.
Proof.
  intros _. unfold hw_idx. rewrite N.shiftr_div_pow2.
  change 511 with (N.ones 9). rewrite N.land_ones. reflexivity.
Qed.

Lemma hw_idx_lt page k : hw_idx page k < 512.
Proof.
  unfold hw_idx. change 511 with (N.ones 9). rewrite N.land_ones.
  apply N.mod_lt. discriminate.
Qed.

(** the index the Go code extracts at level k is the hardware's index *)
Lemma entry_index_hw va :
  entry_index va 39 9 = hw_idx (N.shiftr va 12) 0 /\
  entry_index va 30 9 = hw_idx (N.shiftr va 12) 1 /\
  entry_index va 21 9 = hw_idx (N.shiftr va 12) 2 /\
  entry_index va 12 9 = hw_idx (N.shiftr va 12) 3.
Proof.
  unfold entry_index, hw_idx. rewrite !N.shiftr_shiftr.
  repeat split; reflexivity.
Qed.

(** indices of a page depend on its low 36 bits only *)
Lemma shl_page_shr page : N.shiftr (shl64 page 12) 12 = page mod 4503599627370496.
Proof.
  unfold shl64, w64, two64. rewrite N.shiftl_mul_pow2, N.shiftr_div_pow2. change (2 ^ 12) with 4096. lia.
Qed.

Lemma hw_idx_mod52 page k : k <= 3 -> hw_idx (page mod 4503599627370496) k = hw_idx page k.
Proof.
  intros Hk. rewrite !hw_idx_spec by exact Hk.
  assert (k = 0 \/ k = 1 \/ k = 2 \/ k = 3) as [-> | [-> | [-> | ->]]] by lia.
  - change (2 ^ (9 * (3 - 0))) with 134217728. lia.
  - change (2 ^ (9 * (3 - 1))) with 262144. lia.
  - change (2 ^ (9 * (3 - 2))) with 512. lia.
  - change (2 ^ (9 * (3 - 3))) with 1. lia.
Qed.

Lemma hw_idx_shl_page page k : k <= 3 -> hw_idx (N.shiftr (shl64 page 12) 12) k = hw_idx page k.
Proof. intros Hk. rewrite shl_page_shr. apply hw_idx_mod52; exact Hk. Qed.

(** one step of the Go walk inside the window: [entryAddr <<= 9] drops the top index *)
Lemma win_next b c d i :
  b < 512 -> c < 512 -> d < 512 -> i < 512 ->
  shl64 (add64 (win 511 b c d) (shl64 i 3)) 9 = win b c d i.
Proof.
  intros Hb Hc Hd Hi. unfold shl64, add64, w64, win, two64. rewrite !N.shiftl_mul_pow2.
  change (2 ^ 3) with 8. change (2 ^ 9) with 512. lia.
Qed.

(** the address of entry [i] of the table addressed by [win a b c d] *)
Lemma win_entry a b c d i :
  a < 512 -> b < 512 -> c < 512 -> d < 512 -> i < 512 ->
  add64 (win a b c d) (shl64 i 3) = win a b c d + i * 8.
Proof.
  intros. unfold shl64, add64, w64, win, two64. rewrite !N.shiftl_mul_pow2. change (2 ^ 3) with 8. lia.
Qed.

Lemma win_idx a b c d o :
  a < 512 -> b < 512 -> c < 512 -> d < 512 -> o < 4096 ->
  hw_idx (N.shiftr (win a b c d + o) 12) 0 = a /\
  hw_idx (N.shiftr (win a b c d + o) 12) 1 = b /\
  hw_idx (N.shiftr (win a b c d + o) 12) 2 = c /\
  hw_idx (N.shiftr (win a b c d + o) 12) 3 = d.
Proof.
  intros Ha Hb Hc Hd Ho. rewrite !hw_idx_spec by lia. rewrite N.shiftr_div_pow2.
  change (2 ^ 12) with 4096.
  change (2 ^ (9 * (3 - 0))) with 134217728. change (2 ^ (9 * (3 - 1))) with 262144.
  change (2 ^ (9 * (3 - 2))) with 512. change (2 ^ (9 * (3 - 3))) with 1.
  unfold win. repeat split; lia.
Qed.

Lemma win_off a b c d i :
  a < 512 -> b < 512 -> c < 512 -> d < 512 -> i < 512 ->
  N.land (win a b c d + i * 8) 7 = 0 /\ N.shiftr (N.land (win a b c d + i * 8) 4095) 3 = i.
Proof.
  intros. change 7 with (N.ones 3). change 4095 with (N.ones 12).
  rewrite !N.land_ones, N.shiftr_div_pow2. change (2 ^ 3) with 8. change (2 ^ 12) with 4096.
  unfold win. split; lia.
Qed.

Lemma win_page_aligned a b c d :
  a < 512 -> b < 512 -> c < 512 -> d < 512 -> N.land (win a b c d) 4095 = 0.
Proof.
  intros. change 4095 with (N.ones 12). rewrite N.land_ones. change (2 ^ 12) with 4096. unfold win. lia.
Qed.

(** the temp-mapping address by its indices *)
Lemma temp_addr_win : vmm_tempMappingAddr = win 510 511 511 511.
Proof. reflexivity. Qed.

(** entry bit fields: what the Go accessors compute is what the hardware reads *)
Lemma has_present_hw e : has_flags e vmm_FlagPresent = hw_P e.
Proof.
  unfold has_flags, hw_P. rewrite flag_present_val.
  change 1 with (N.ones 1) at 1. rewrite N.land_ones. change (2 ^ 1) with 2.
  rewrite N.bit0_eqb. reflexivity.
Qed.

Lemma has_huge_hw e : has_flags e vmm_FlagHugePage = hw_PS e.
Proof.
  unfold has_flags, hw_PS. rewrite flag_huge_val.
  change 128 with (N.shiftl 1 7).
  destruct (N.testbit e 7) eqn:E.
  - apply N.eqb_eq. apply N.bits_inj. intros n. rewrite N.land_spec.
    destruct (N.eq_dec n 7) as [->|Hn].
    + rewrite E. reflexivity.
    + rewrite N.shiftl_1_l, N.pow2_bits_false by congruence. apply andb_false_r.
  - apply N.eqb_neq. intros H. apply (f_equal (fun x => N.testbit x 7)) in H.
    rewrite N.land_spec, E in H. rewrite N.shiftl_1_l, N.pow2_bits_true in H. discriminate.
Qed.

(** Frame(): (e & mask) >> 12 is the hardware's frame field *)
Lemma pte_frame_hw e : pte_frame e = hw_frame e.
Proof.
  unfold pte_frame, hw_frame. rewrite phys_mask_val, page_shift_val.
  change 0xFFFFFFFFFF with (N.ones 40).
  apply N.bits_inj. intros n.
  rewrite N.shiftr_spec', N.land_spec, N.land_spec, N.shiftr_spec'.
  f_equal.
  rewrite N.shiftl_spec_high' by lia. replace (n + 12 - 12) with n by lia. reflexivity.
Qed.

Lemma hw_frame_lt e : hw_frame e < 2 ^ 40.
Proof.
  unfold hw_frame. change 0xFFFFFFFFFF with (N.ones 40). rewrite N.land_ones. apply N.mod_lt. discriminate.
Qed.

(** entries as the Go code builds them: [*pte = 0; SetFrame(f); SetFlags(fl)] *)
Lemma shl64_small f k : N.shiftl f k < two64 -> shl64 f k = N.shiftl f k.
Proof. intros H. unfold shl64. apply w64_small. exact H. Qed.

Lemma frame_addr_small f : f < 2 ^ 52 -> frame_addr f = N.shiftl f 12.
Proof.
  intros H. unfold frame_addr. rewrite page_shift_val. apply shl64_small.
  rewrite N.shiftl_mul_pow2. unfold two64. change (2 ^ 12) with 4096. change (2 ^ 52) with 4503599627370496 in H. lia.
Qed.

Lemma mk_entry_val f fl : f < 2 ^ 52 -> set_flags (set_frame 0 f) fl = N.lor (N.shiftl f 12) fl.
Proof.
  intros H. unfold set_flags, set_frame, andnot. rewrite frame_addr_small by exact H.
  rewrite N.ldiff_0_l, N.lor_0_l. reflexivity.
Qed.

Lemma mk_entry_bit_low f fl n : f < 2 ^ 52 -> n < 12 -> N.testbit (set_flags (set_frame 0 f) fl) n = N.testbit fl n.
Proof.
  intros H Hn. rewrite mk_entry_val by exact H. rewrite N.lor_spec, N.shiftl_spec_low by exact Hn. reflexivity.
Qed.

Lemma mk_entry_P f fl : f < 2 ^ 52 -> hw_P (set_flags (set_frame 0 f) fl) = N.testbit fl 0.
Proof. intros H. apply mk_entry_bit_low; [exact H | lia]. Qed.

Lemma mk_entry_PS f fl : f < 2 ^ 52 -> hw_PS (set_flags (set_frame 0 f) fl) = N.testbit fl 7.
Proof. intros H. apply mk_entry_bit_low; [exact H | lia]. Qed.

Lemma mk_entry_frame f fl :
  f < 2 ^ 40 -> N.land fl vmm_ptePhysPageMask = 0 -> hw_frame (set_flags (set_frame 0 f) fl) = f.
Proof.
  intros H Hfl.
  assert (H52: f < 2 ^ 52) by (change (2 ^ 40) with 1099511627776 in H; change (2 ^ 52) with 4503599627370496; lia).
  rewrite mk_entry_val by exact H52. unfold hw_frame. change 0xFFFFFFFFFF with (N.ones 40).
  apply N.bits_inj. intros n. rewrite N.land_spec, N.shiftr_spec', N.lor_spec.
  rewrite N.shiftl_spec_high' by lia. replace (n + 12 - 12) with n by lia.
  destruct (N.ltb_spec n 40) as [Hn|Hn].
  - rewrite N.ones_spec_low by exact Hn. rewrite andb_true_r.
    assert (Hb: N.testbit fl (n + 12) = false).
    { apply (f_equal (fun x => N.testbit x (n + 12))) in Hfl.
      rewrite N.land_spec, phys_mask_val, N.shiftl_spec_high', N.bits_0 in Hfl by lia.
      replace (n + 12 - 12) with n in Hfl by lia. rewrite N.ones_spec_low in Hfl by exact Hn.
      rewrite andb_true_r in Hfl. exact Hfl. }
    rewrite Hb. apply orb_false_r.
  - rewrite N.ones_spec_high by exact Hn. rewrite andb_false_r.
    symmetry. apply N.bits_above_log2.
    destruct (N.eq_dec f 0) as [->|Hz]; [cbn; lia|].
    apply N.log2_lt_pow2; [lia|]. eapply N.lt_le_trans; [exact H|]. apply N.pow_le_mono_r; lia.
Qed.

Lemma P_RW_val : P_RW = 3.
Proof. reflexivity. Qed.

(** the entry Map writes for a new intermediate table *)
Lemma link_entry nf :
  nf < 2 ^ 40 ->
  hw_P (set_flags (set_frame 0 nf) P_RW) = true /\ hw_PS (set_flags (set_frame 0 nf) P_RW) = false /\
  hw_frame (set_flags (set_frame 0 nf) P_RW) = nf.
Proof.
  intros H.
  assert (H52: nf < 2 ^ 52) by (change (2 ^ 40) with 1099511627776 in H; change (2 ^ 52) with 4503599627370496; lia).
  rewrite mk_entry_P, mk_entry_PS, mk_entry_frame by (assumption || reflexivity).
  repeat split; reflexivity.
Qed.

(** SetFrame on an existing entry touches bits 12-51 only *)
Lemma mask_bit n : N.testbit vmm_ptePhysPageMask n = (12 <=? n) && (n <? 52).
Proof.
  rewrite phys_mask_val. destruct (N.leb_spec 12 n) as [H|H].
  - rewrite N.shiftl_spec_high' by exact H. cbn [andb].
    destruct (N.ltb_spec n 52) as [H2|H2]; [rewrite N.ones_spec_low by lia | rewrite N.ones_spec_high by lia]; reflexivity.
  - rewrite N.shiftl_spec_low by exact H. reflexivity.
Qed.

Lemma set_frame_bit_low e f n : n < 12 -> N.testbit (set_frame e f) n = N.testbit e n.
Proof.
  intros Hn. unfold set_frame, andnot, frame_addr, shl64, w64. rewrite page_shift_val.
  rewrite N.lor_spec, N.ldiff_spec, mask_bit.
  replace (12 <=? n) with false by (symmetry; apply N.leb_gt; exact Hn). cbn [andb negb]. rewrite andb_true_r.
  replace (N.testbit (N.shiftl f 12 mod two64) n) with false; [apply orb_false_r|].
  symmetry. unfold two64. change 0x10000000000000000 with (2 ^ 64). rewrite N.mod_pow2_bits_low by lia.
  apply N.shiftl_spec_low. exact Hn.
Qed.

Lemma set_frame_P e f : hw_P (set_frame e f) = hw_P e.
Proof. apply set_frame_bit_low. lia. Qed.
Lemma set_frame_PS e f : hw_PS (set_frame e f) = hw_PS e.
Proof. apply set_frame_bit_low. lia. Qed.

Lemma set_frame_frame e f : f < 2 ^ 40 -> hw_frame (set_frame e f) = f.
Proof.
  intros H.
  assert (H52: f < 2 ^ 52) by (change (2 ^ 40) with 1099511627776 in H; change (2 ^ 52) with 4503599627370496; lia).
  unfold set_frame, andnot. rewrite frame_addr_small by exact H52.
  unfold hw_frame. change 0xFFFFFFFFFF with (N.ones 40).
  apply N.bits_inj. intros n. rewrite N.land_spec, N.shiftr_spec', N.lor_spec, N.ldiff_spec, mask_bit.
  rewrite N.shiftl_spec_high' by lia. replace (n + 12 - 12) with n by lia.
  replace (12 <=? n + 12) with true by (symmetry; apply N.leb_le; lia). cbn [andb].
  destruct (N.ltb_spec n 40) as [Hn|Hn].
  - rewrite N.ones_spec_low by exact Hn. replace (n + 12 <? 52) with true by (symmetry; apply N.ltb_lt; lia).
    cbn [negb]. rewrite andb_false_r, andb_true_r. reflexivity.
  - rewrite N.ones_spec_high by exact Hn. rewrite andb_false_r.
    symmetry. apply N.bits_above_log2.
    destruct (N.eq_dec f 0) as [->|Hz]; [cbn; lia|].
    apply N.log2_lt_pow2; [lia|]. eapply N.lt_le_trans; [exact H|]. apply N.pow_le_mono_r; lia.
Qed.

Lemma set_frame_twice e f g : f < 2 ^ 40 -> set_frame (set_frame e f) g = set_frame e g.
Proof.
  intros Hf.
  assert (H52: f < 2 ^ 52) by (change (2 ^ 40) with 1099511627776 in Hf; change (2 ^ 52) with 4503599627370496; lia).
  unfold set_frame, andnot. f_equal.
  apply N.bits_inj. intros n. rewrite !N.ldiff_spec, N.lor_spec, N.ldiff_spec.
  destruct (N.testbit vmm_ptePhysPageMask n) eqn:E; cbn [negb]; rewrite ?andb_false_r, ?andb_true_r; [reflexivity|].
  (* outside the mask the frame address has no bits *)
  replace (N.testbit (frame_addr f) n) with false; [apply orb_false_r|].
  symmetry. rewrite mask_bit in E. rewrite frame_addr_small by exact H52.
  destruct (N.leb_spec 12 n) as [H12|H12]; cbn [andb] in E.
  - apply N.ltb_ge in E. rewrite N.shiftl_spec_high' by exact H12.
    apply N.bits_above_log2.
    destruct (N.eq_dec f 0) as [->|Hz]; [cbn; lia|].
    apply N.log2_lt_pow2; [lia|]. eapply N.lt_le_trans; [exact Hf|]. apply N.pow_le_mono_r; lia.
  - apply N.shiftl_spec_low. exact H12.
Qed.

Lemma set_frame_same e f : hw_frame e = f -> set_frame e f = e.
Proof.
  intros Hf. subst f. unfold set_frame, andnot.
  assert (E: frame_addr (hw_frame e) = N.land e vmm_ptePhysPageMask).
  { pose proof (hw_frame_lt e) as Hl.
    rewrite frame_addr_small by (change (2 ^ 40) with 1099511627776 in Hl; change (2 ^ 52) with 4503599627370496; lia).
    unfold hw_frame. change 0xFFFFFFFFFF with (N.ones 40).
    apply N.bits_inj. intros n. rewrite N.land_spec, mask_bit.
    destruct (N.leb_spec 12 n) as [H12|H12].
    - rewrite N.shiftl_spec_high' by exact H12. rewrite N.land_spec, N.shiftr_spec'. replace (n - 12 + 12) with n by lia.
      cbn [andb]. destruct (N.ltb_spec n 52) as [H2|H2].
      + rewrite N.ones_spec_low by lia. reflexivity.
      + rewrite N.ones_spec_high by lia. reflexivity.
    - rewrite N.shiftl_spec_low by exact H12. cbn [andb]. rewrite andb_false_r. reflexivity. }
  rewrite E. apply N.lor_ldiff_and.
Qed.
