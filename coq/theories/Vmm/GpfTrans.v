(** generalProtectionFaultHandler (kernel/mm/vmm/fault_amd64.go) against its Gallina translation (gen/gotrans, "memory
    as state" mode, config vmm_gpf.json -> Gen/Trans_vmm_gpf.v): the handler prints (kfmt.Printf with its format strings
    as byte lists, regs.DumpTo on the output sink) and ends in panic(errUnrecoverableFault).  [panic] is a recorded
    seam that ends the run, so the result shows the state at the panic: for seams that do not touch the machine state
    (printing, reading CR2) it is the initial state - the model's outcome [PANIC + E_FAULT] with nothing changed. *)
From Coq Require Import NArith String Ascii List Bool.
From FF Require Import Lib.Word Lib.GoOps Gen.Consts_mm_vmm Gen.Trans_vmm_gpf.
From FF Require Import Vmm.Pt Vmm.PtAccess.
From FF Require Vmm.PdtTrans.
Module P := FF.Vmm.PdtTrans.
Import ListNotations.
Local Open Scope N_scope.

Notation W := mk_go_vmm_world (only parsing).

(** a seam that leaves the machine state alone and answers [r] *)
Definition o_pure {A} (r : A) (_ : list gcall) (s : st) : option (st * A) := Some (s, r).

Definition bytes_of (t : string) : list N := map (fun c => N.of_nat (nat_of_ascii c)) (list_ascii_of_string t).

Definition gpf_fmt1 : string := "
General protection fault while accessing address: 0x%x
".
Definition gpf_fmt2 : string := "Registers:
".

Definition gpf_trace (addr regs sink : N) (tr0 : list gcall) : list gcall :=
  [GCall "panic" [err_arg (P.err_of E_FAULT)];
   GCall "regs.DumpTo" [GNum sink];
   GCall "kfmt.GetOutputSink" [];
   GCall "kfmt.Printf" [GBytes (bytes_of gpf_fmt2)];
   GCall "kfmt.Printf" [GBytes (bytes_of gpf_fmt1); GNum addr];
   GCall "readCR2Fn" []] ++ tr0.

Theorem gpf_is_translation addr regs sink s tr0 :
  go_vmm_generalProtectionFaultHandler (W tr0 s) regs (o_pure sink) (o_pure tt) (o_pure tt) (o_pure addr) (o_pure tt)
  = GOk (W (gpf_trace addr regs sink tr0) s, tt)
  /\ step (OGpf addr) s = Ok (s, PANIC + E_FAULT, 0).
Proof. split; reflexivity. Qed.
