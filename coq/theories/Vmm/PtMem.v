(** The physical-memory interface of Vmm/Pt.v: read-after-write lemmas. Everything else in the
    proofs uses [rd]/[wr]/[zero]/[cpy]/[fill] only through these. *)
From Coq Require Import NArith List Bool FMapPositive Lia.
From FF Require Import Lib.Word Vmm.Pt.
Import ListNotations.
Local Open Scope N_scope.

Lemma key_inj a b : key a = key b -> a = b.
Proof.
  unfold key. intros H. apply (f_equal N.pos) in H. rewrite !N.succ_pos_spec in H. lia.
Qed.

Lemma get_tbl_add_same m f t : get_tbl (PositiveMap.add (key f) t m) f = t.
Proof. unfold get_tbl. rewrite PositiveMap.gss. reflexivity. Qed.

Lemma get_tbl_add_other m f f' t : f' <> f -> get_tbl (PositiveMap.add (key f) t m) f' = get_tbl m f'.
Proof.
  intros H. unfold get_tbl. rewrite PositiveMap.gso; [reflexivity|]. intros E. apply key_inj in E. congruence.
Qed.

Lemma rd_wr m f i v f' i' : rd (wr m f i v) f' i' = if (f' =? f) && (i' =? i) then v else rd m f' i'.
Proof.
  unfold rd, wr. destruct (N.eqb_spec f' f) as [->|Hf]; cbn [andb].
  - rewrite get_tbl_add_same. unfold tbl_get. cbn [fst snd].
    destruct (N.eqb_spec i' i) as [->|Hi].
    + rewrite PositiveMap.gss. reflexivity.
    + rewrite PositiveMap.gso; [reflexivity|]. intros E. apply key_inj in E. congruence.
  - rewrite get_tbl_add_other by exact Hf. reflexivity.
Qed.

Lemma rd_zero m f f' i' : rd (zero m f) f' i' = if f' =? f then 0 else rd m f' i'.
Proof.
  unfold rd, zero. destruct (N.eqb_spec f' f) as [->|Hf].
  - rewrite get_tbl_add_same. unfold tbl_get. cbn [fst snd base_get]. rewrite PositiveMap.gempty. reflexivity.
  - rewrite get_tbl_add_other by exact Hf. reflexivity.
Qed.

Lemma rd_cpy m src dst f' i' : rd (cpy m src dst) f' i' = if f' =? dst then rd m src i' else rd m f' i'.
Proof.
  unfold rd, cpy. destruct (N.eqb_spec f' dst) as [->|Hf].
  - rewrite get_tbl_add_same. reflexivity.
  - rewrite get_tbl_add_other by exact Hf. reflexivity.
Qed.

Lemma rd_fill m f seed f' i' : rd (fill m f seed) f' i' = if f' =? f then fill_word seed i' else rd m f' i'.
Proof.
  unfold rd, fill. destruct (N.eqb_spec f' f) as [->|Hf].
  - rewrite get_tbl_add_same. unfold tbl_get. cbn [fst snd base_get]. rewrite PositiveMap.gempty. reflexivity.
  - rewrite get_tbl_add_other by exact Hf. reflexivity.
Qed.

Global Opaque rd wr zero cpy fill.
