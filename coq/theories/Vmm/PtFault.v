(** C06: the reserved zero frame's guard, the page-fault handler. *)
From Coq Require Import NArith ZArith Lia List Bool.
From Coq Require Import ZifyBool ZifyN ZifyNat.
From FF Require Import Lib.Word Gen.Consts_mm_vmm Vmm.Region Vmm.Pt Vmm.PtMem Vmm.PtArith Vmm.PtTree Vmm.PtMap Vmm.PtOps Vmm.PtTheorems Vmm.PtPdt.
Import ListNotations.
Local Open Scope N_scope.
Ltac Zify.zify_post_hook ::= Z.div_mod_to_equations.

(** * zero_frame_guard *)
Definition wants_rw (flags : N) : bool := negb (N.land flags vmm_FlagRW =? 0).

Theorem zero_frame_guard_map s page flags :
  prot s = true -> wants_rw flags = true -> map_page page (zf s) flags s = Ok (s, E_ZERO_RW).
Proof.
  intros Hp Hf. apply map_page_guarded. unfold zero_guard. unfold wants_rw in Hf. rewrite Hp, N.eqb_refl, Hf. reflexivity.
Qed.

Theorem zero_frame_guard_temp s :
  prot s = true -> map_temporary (zf s) s = Ok (s, E_ZERO_RW, 0).
Proof. intros Hp. unfold map_temporary. rewrite Hp, N.eqb_refl. reflexivity. Qed.

(** PageDirectoryTable.Map on the active table is Map *)
Theorem zero_frame_guard_pdt_active s slot page flags :
  prot s = true -> wants_rw flags = true -> N.shiftr (cr3 s) 12 = pdts s slot ->
  pdt_map slot page (zf s) flags s = Ok (s, E_ZERO_RW).
Proof.
  intros Hp Hf Ha. unfold pdt_map. rewrite with_pdt_active by exact Ha. apply zero_frame_guard_map; assumption.
Qed.

(** ... and on an inactive table it patches and restores slot 511 around the refused Map: no entry of
    any frame changes *)
Theorem zero_frame_guard_pdt_inactive s A T ownA own slot page flags :
  prot s = true -> wants_rw flags = true -> Inv2 s A T ownA own -> pdts s slot = T ->
  exists s3, pdt_map slot page (zf s) flags s = Ok (s3, E_ZERO_RW) /\ Inv2 s3 A T ownA own /\
             (forall q, hw_idx q 0 <> 511 -> aspace s3 A q = aspace s A q /\ aspace s3 T q = aspace s T q) /\
             same_env s s3 /\ orc s3 = orc s.
Proof.
  intros Hp Hf HI2 Hslot.
  set (Q := fun (s1 s2 : st) (err : N) (own' : ownmap) => s2 = s1 /\ err = E_ZERO_RW /\ own' = own).
  destruct (with_pdt_inactive s A T ownA own slot (map_page page (zf s) flags) Q HI2 Hslot) as
      (s1 & s2 & s3 & err & own' & Hrun & HQ & Es1 & HT & Es3 & HtreeA & HaspA & HtreeT & HaspT & Hasp1 & Hfl3 & Hfl1 & HI3).
  { intros s1 HI1 Henv Horc.
    assert (Hz: zf s1 = zf s /\ prot s1 = prot s) by (destruct Henv as (_ & _ & _ & _ & _ & Ez & Ep & _); split; assumption).
    destruct Hz as [Ez Ep].
    exists s1, E_ZERO_RW, own. split.
    - split; [|split; [exact HI1|]; split; [apply same_env_refl|]; split; [reflexivity|]; exists 0%nat; split; [reflexivity | intros; left; reflexivity]].
      rewrite <- Ez. apply zero_frame_guard_map; [rewrite Ep; exact Hp | exact Hf].
    - repeat split. }
  destruct HQ as (E2 & Ee & Eo). subst s2 err own'.
  exists s3. split; [exact Hrun|]. split; [exact HI3|].
  split.
  { intros q Hq. split; [apply HaspA; exact Hq|]. rewrite HaspT, Hasp1 by exact Hq. reflexivity. }
  split; [rewrite Es3, Es1; repeat split | rewrite Es3, Es1; reflexivity].
Qed.

(** MapRegion / IdentityMapRegion whose first frame is the zero frame are refused at the first page *)
Lemma iter_n_first_fail {S T : Type} (f : S -> S + T) n s r : n <> 0 -> f s = inr r -> iter_n f n s = inr r.
Proof.
  intros Hn Hf. destruct n as [|p]; [congruence|]. cbn [iter_n]. clear Hn.
  revert s Hf. induction p as [p IH|p IH|]; intros s Hf; cbn [iter_pos].
  - rewrite Hf. reflexivity.
  - rewrite (IH s Hf). reflexivity.
  - exact Hf.
Qed.

Theorem zero_frame_guard_identity_region s size flags :
  prot s = true -> wants_rw flags = true -> 0 < size -> size + 4095 < two64 -> zf s + (size + 4095) / 4096 < two64 ->
  identity_map_region (zf s) size flags s = Ok (s, E_ZERO_RW, 0).
Proof.
  intros Hp Hf Hs Hsz Hfz. unfold identity_map_region.
  assert (Hr: round_up size = (size + 4095) / 4096 * 4096).
  { unfold round_up, PageSize. change (mm_PageSize - 1) with (2 ^ 12 - 1). rewrite andnot_pow2.
    rewrite w64_small by exact Hsz. change (2 ^ 12) with 4096. lia. }
  rewrite Hr. destruct (N.ltb_spec ((size + 4095) / 4096 * 4096) size) as [H|H]; [lia|].
  rewrite page_shift_val, N.shiftr_div_pow2. change (2 ^ 12) with 4096. rewrite N.div_mul by discriminate.
  rewrite w64_small by exact Hfz.
  destruct (N.ltb_spec (zf s) (zf s + (size + 4095) / 4096)) as [H2|H2]; [|lia].
  rewrite (iter_n_first_fail _ _ _ (Some (s, E_ZERO_RW))); [reflexivity | lia |].
  unfold map_step. rewrite zero_frame_guard_map by assumption. reflexivity.
Qed.

(** * fault_else_panics *)
(** the copy-on-write precondition on the faulting page *)
Definition cow_pre (s : st) (A page : N) : option N :=
  match aspace s A page with
  | Some e => if hw_P e && negb (has_flags e vmm_FlagRW) && has_flags e vmm_FlagCopyOnWrite then Some e else None
  | None => None
  end.

Lemma dloc_aspace s A own page :
  Inv s A A own -> hw_idx page 0 <> 511 ->
  dloc s A (ixs page) = match aspace s A page with
                        | Some e => if hw_P e then
                                      match follow s A (firstn 3 (ixs page)) with
                                      | Some l => Some (l, hw_idx page 3) | None => None end
                                    else None
                        | None => None
                        end.
Proof.
  intros HI H511. rewrite (dloc_top s A A own page HI H511), aspace_follow.
  pose proof (inv_wf _ _ _ _ HI) as W.
  destruct (follow s A (firstn 3 (ixs page))) as [l|] eqn:Ef; [|reflexivity].
  assert (Ho: own l = Some (firstn 3 (ixs page))).
  { change (firstn 3 (ixs page)) with ([] ++ firstn 3 (ixs page)). eapply follow_own; try eassumption.
    - exact (wf_root _ _ _ W).
    - apply firstn3_lt.
    - cbn. lia. }
  destruct (wf_owned _ _ _ W l _ Ho) as (Hb & _). rewrite Hb. reflexivity.
Qed.

Lemma page_from_addr_lt a : a < two64 -> page_from_addr a < 2 ^ 52.
Proof.
  intros Ha. unfold page_from_addr. change (mm_PageSize - 1) with (2 ^ 12 - 1). rewrite andnot_pow2, page_shift_val, N.shiftr_div_pow2.
  change (2 ^ 12) with 4096. change (2 ^ 52) with 4503599627370496. unfold two64 in Ha. lia.
Qed.

(** Every page fault that is not a write to a present, read-only, copy-on-write page panics with
    errUnrecoverableFault and changes nothing; if the frame for the copy cannot be allocated, or the
    temporary mapping fails, it panics with that error.  The handler returns (outcome 0) in no other case. *)
Theorem fault_else_panics s A own addr :
  Inv s A A own -> hw_idx (page_from_addr addr) 0 <> 511 ->
  let page := page_from_addr addr in
  (cow_pre s A page = None -> page_fault addr s = Ok (s, PANIC + E_FAULT)) /\
  (forall e, cow_pre s A page = Some e ->
     (forall s1, alloc s = (s1, None) -> page_fault addr s = Ok (s1, PANIC + E_ALLOC)) /\
     (forall s1 cp s2 err pg, alloc s = (s1, Some cp) -> map_temporary cp s1 = Ok (s2, err, pg) -> err <> 0 ->
                              page_fault addr s = Ok (s2, PANIC + err))).
Proof.
  intros HI H511 page.
  assert (Hw: fault_walk go_levels 0 vmm_pdtVirtualAddr (frame_addr page) s None = Ok (dloc s A (ixs page))).
  { apply (fault_walk_spec A A page (frame_addr page) (frame_addr_idx page) s own HI H511). }
  rewrite (dloc_aspace s A own page HI H511) in Hw.
  unfold cow_pre.
  pose proof (inv_wf _ _ _ _ HI) as W.
  split.
  - intros Hpre. unfold page_fault. fold page. rewrite Hw.
    destruct (aspace s A page) as [e|] eqn:Ea; [|reflexivity].
    destruct (hw_P e) eqn:HP; [|reflexivity]. cbn [andb] in Hpre.
    rewrite aspace_follow in Ea.
    destruct (follow s A (firstn 3 (ixs page))) as [l|] eqn:Ef; [|discriminate].
    destruct (backed s l); [|discriminate]. injection Ea as Ee. unfold ent in Ee. rewrite Ee.
    destruct (negb (has_flags e vmm_FlagRW) && has_flags e vmm_FlagCopyOnWrite); [discriminate|reflexivity].
  - intros e Hpre.
    destruct (aspace s A page) as [e'|] eqn:Ea; [|discriminate].
    destruct (hw_P e') eqn:HP; cbn [andb] in Hpre; [|discriminate].
    destruct (negb (has_flags e' vmm_FlagRW) && has_flags e' vmm_FlagCopyOnWrite) eqn:Hc; [|discriminate].
    rewrite aspace_follow in Ea.
    destruct (follow s A (firstn 3 (ixs page))) as [l|] eqn:Ef; [|discriminate].
    destruct (backed s l); [|discriminate]. injection Ea as Ee.
    split.
    + intros s1 Hal. unfold page_fault. fold page. rewrite Hw. unfold ent in Ee. rewrite Ee, Hc, Hal. reflexivity.
    + intros s1 cp s2 err pg Hal Hmt Herr. unfold page_fault. fold page. rewrite Hw. unfold ent in Ee. rewrite Ee, Hc, Hal, Hmt.
      destruct (N.eqb_spec err 0); [congruence|]. reflexivity.
Qed.

(** the handler resumes only from a copy-on-write fault whose copy frame and temporary mapping succeeded *)
Theorem fault_resume_only_cow s A own addr s' :
  Inv s A A own -> hw_idx (page_from_addr addr) 0 <> 511 ->
  page_fault addr s = Ok (s', 0) ->
  exists e s1 cp s2 pg, cow_pre s A (page_from_addr addr) = Some e /\ alloc s = (s1, Some cp) /\ map_temporary cp s1 = Ok (s2, 0, pg).
Proof.
  intros HI H511 Hrun.
  destruct (fault_else_panics s A own addr HI H511) as [Hno Hyes].
  destruct (cow_pre s A (page_from_addr addr)) as [e|] eqn:Hpre.
  - destruct (Hyes e eq_refl) as [Ha Hm].
    destruct (alloc s) as [s1 [cp|]] eqn:Hal.
    + destruct (map_temporary cp s1) as [[[s2 err] pg]|] eqn:Hmt.
      * destruct (N.eq_dec err 0) as [->|Hne].
        -- exists e, s1, cp, s2, pg. split; [reflexivity|]. split; [reflexivity | exact Hmt].
        -- rewrite (Hm s1 cp s2 err pg eq_refl Hmt Hne) in Hrun.
           assert (E2: PANIC + err = 0) by congruence. unfold PANIC in E2. lia.
      * unfold page_fault in Hrun.
        destruct (fault_walk go_levels 0 vmm_pdtVirtualAddr (frame_addr (page_from_addr addr)) s None) as [[[f i]|]|]; try discriminate.
        destruct (negb (has_flags (rd (mem s) f i) vmm_FlagRW) && has_flags (rd (mem s) f i) vmm_FlagCopyOnWrite); [|discriminate].
        rewrite Hal, Hmt in Hrun. discriminate.
    + rewrite (Ha s1 eq_refl) in Hrun. assert (E2: PANIC + E_ALLOC = 0) by congruence. discriminate E2.
  - rewrite (Hno eq_refl) in Hrun. assert (E2: PANIC + E_FAULT = 0) by congruence. discriminate E2.
Qed.

Theorem gpf_panics s addr : step (OGpf addr) s = Ok (s, PANIC + E_FAULT, 0).
Proof. reflexivity. Qed.
