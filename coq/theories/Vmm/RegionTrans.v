(** The hand-written model of EarlyReserveRegion (Vmm/Region.v) equals the Gallina term that gen/gotrans
    regenerates from kernel/mm/vmm/addr_space.go on every run (Gen/Trans_mm_vmm.v); likewise the page /
    frame conversions of kernel/mm/page.go. A change of the Go function body changes the generated term
    and this file stops checking unless the change is an equivalent rewrite. *)
From Coq Require Import NArith Lia Bool String.
From Coq Require Import ZifyBool ZifyN ZifyNat.
From FF Require Import Lib.Word Lib.GoOps Lib.GoOpsProofs Gen.Consts_mm_vmm Gen.Trans_mm_vmm Vmm.Region Vmm.RegionProofs.
Local Open Scope N_scope.

Lemma round_up_trans size :
  size < two64 ->
  N.land (gw 64 (size + gsub 64 mm_PageSize 1)) (gnot 64 (gsub 64 mm_PageSize 1)) = round_up size.
Proof.
  intros Hs. unfold round_up, PageSize.
  assert (E: gsub 64 mm_PageSize 1 = mm_PageSize - 1) by reflexivity.
  rewrite E, gw64. apply land_gnot64; [apply w64_lt|reflexivity].
Qed.

(** the translated function: (new cursor, returned address, error) *)
Theorem early_reserve_is_translation last size :
  size < two64 -> last < two64 ->
  go_vmm_EarlyReserveRegion last size =
    match early_reserve last size with
    | (l', Some a) => (l', a, None)
    | (l', None) => (l', 0, Some "errEarlyReserveNoSpace"%string)
    end.
Proof.
  intros Hs Hl. unfold go_vmm_EarlyReserveRegion, early_reserve.
  rewrite (round_up_trans size Hs).
  destruct (round_up size <? size) eqn:E1; cbn [orb].
  - reflexivity.
  - destruct (last <? round_up size) eqn:E2.
    + reflexivity.
    + rewrite gsub64_small by lia. reflexivity.
Qed.

Theorem page_of_addr_is_translation a :
  a < two64 -> go_mm_PageFromAddress a = page_of_addr a /\ go_mm_FrameFromAddress a = page_of_addr a.
Proof.
  intros Ha. unfold go_mm_PageFromAddress, go_mm_FrameFromAddress, page_of_addr, PageSize, PageShift.
  assert (E: gw 64 (gsub 64 mm_PageSize 1) = mm_PageSize - 1) by reflexivity.
  rewrite E, land_gnot64 by (try exact Ha; reflexivity).
  assert (H: N.shiftr (N.ldiff a (mm_PageSize - 1)) mm_PageShift < two64).
  { rewrite N.shiftr_div_pow2.
    assert (H1: N.ldiff a (mm_PageSize - 1) <= a).
    { change (mm_PageSize - 1) with (2 ^ 12 - 1). fold (andnot a (2 ^ 12 - 1)). rewrite andnot_pow2. lia. }
    change (2 ^ mm_PageShift) with 4096. lia. }
  rewrite gw64_small by exact H. unfold andnot. auto.
Qed.
