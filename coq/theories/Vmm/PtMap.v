(** The specification of Map's page-table walk, level by level (C04 [map_ok]). *)
From Coq Require Import NArith ZArith Lia List Bool.
From Coq Require Import ZifyBool ZifyN ZifyNat.
From FF Require Import Lib.Word Gen.Consts_mm_vmm Vmm.Region Vmm.Pt Vmm.PtMem Vmm.PtArith Vmm.PtTree.
Import ListNotations.
Local Open Scope N_scope.
Ltac Zify.zify_post_hook ::= Z.div_mod_to_equations.

(** frames the oracle will still hand out *)
Definition ofr (l : list N) : list N := filter (fun x => negb (x =? 0)) l.

Record Fresh (s : st) (own : ownmap) (A : N) : Prop := {
  fr_nodup : NoDup (ofr (orc s));
  fr_ok : forall f, In f (orc s) -> f <> 0 -> backed s f = true /\ own f = None /\ f <> A
}.

(** the invariant of an address space [T] operated on while [A] is the active root *)
Record Inv (s : st) (A T : N) (own : ownmap) : Prop := {
  inv_wf : WF s T own;
  inv_cr3 : N.shiftr (cr3 s) 12 = A;
  inv_rec : Rec s A T;
  inv_A : A = T \/ own A = None;
  inv_fresh : Fresh s own A
}.

Definition same_env (s s' : st) : Prop :=
  lo s' = lo s /\ cnt s' = cnt s /\ cr3 s' = cr3 s /\ slog s' = slog s /\ last s' = last s /\
  zf s' = zf s /\ prot s' = prot s /\ pdts s' = pdts s /\ inited s' = inited s.

Lemma same_env_refl s : same_env s s.
Proof. repeat split. Qed.

Lemma same_env_trans a b c : same_env a b -> same_env b c -> same_env a c.
Proof.
  unfold same_env. intros (A1&A2&A3&A4&A5&A6&A7&A8&A9) (B1&B2&B3&B4&B5&B6&B7&B8&B9).
  repeat split; congruence.
Qed.

Lemma same_env_backed s s' f : same_env s s' -> backed s' f = backed s f.
Proof. intros (H1 & H2 & _). unfold backed. rewrite H1, H2. reflexivity. Qed.

Lemma in_firstn {X} (x : X) n l : In x (firstn n l) -> In x l.
Proof. intros H. rewrite <- (firstn_skipn n l). apply in_or_app. left. exact H. Qed.

Definition upd (own : ownmap) (f : N) (p : list N) : ownmap := fun x => if x =? f then Some p else own x.

(** [Inv] only depends on the entries of the roots and of the intermediate tables *)
Lemma Inv_ent_eq s s' A T own :
  Inv s A T own -> lo s' = lo s -> cnt s' = cnt s -> cr3 s' = cr3 s -> orc s' = orc s ->
  (forall f j, (f = A \/ f = T \/ exists p, own f = Some p /\ (length p < 3)%nat) -> ent s' f j = ent s f j) ->
  Inv s' A T own.
Proof.
  intros [W Hcr HR HA HF] Hlo Hcnt Hc3 Horc He.
  assert (Hbk: forall f, backed s' f = backed s f) by (intros; unfold backed; rewrite Hlo, Hcnt; reflexivity).
  split.
  - destruct W as [W1 W2 W3 W4 W5]. split.
    + rewrite Hlo, Hcnt. exact W1.
    + exact W2.
    + intros t p Ho. rewrite Hbk. exact (W3 t p Ho).
    + rewrite He by (right; left; reflexivity). exact W4.
    + intros t p i Ho Hl Hi Hne. rewrite He by (right; right; exists p; split; assumption).
      exact (W5 t p i Ho Hl Hi Hne).
  - rewrite Hc3. exact Hcr.
  - destruct HR as (R1 & R2 & R3 & R4 & R5 & R6). unfold Rec.
    rewrite !Hbk, (He A) by (left; reflexivity). rewrite (He T) by (right; left; reflexivity). repeat split; assumption.
  - exact HA.
  - destruct HF as [F1 F2]. split.
    + rewrite Horc. exact F1.
    + intros f Hin Hz. rewrite Horc in Hin. rewrite Hbk. exact (F2 f Hin Hz).
Qed.

Lemma ofr_cons x r : ofr (x :: r) = if x =? 0 then ofr r else x :: ofr r.
Proof. unfold ofr. cbn [filter]. destruct (x =? 0); reflexivity. Qed.

Lemma in_ofr x l : In x (ofr l) <-> In x l /\ x <> 0.
Proof.
  unfold ofr. rewrite filter_In. split; intros [H1 H2]; split; try assumption.
  - intros E. subst. discriminate.
  - apply negb_true_iff. apply N.eqb_neq. exact H2.
Qed.

Lemma Inv_pop s A T own x r : Inv s A T own -> orc s = x :: r -> Inv (set_orc s r) A T own.
Proof.
  intros [W Hcr HR HA [F1 F2]] Eo. split; try assumption.
  - destruct W as [W1 W2 W3 W4 W5]. split; assumption.
  - split; cbn [orc set_orc].
    + rewrite Eo, ofr_cons in F1. destruct (x =? 0); [exact F1 | inversion F1; assumption].
    + intros f Hin Hz. apply (F2 f); [rewrite Eo; right; exact Hin | exact Hz].
Qed.

Lemma hd_app_ne (pre : list N) i : hd 0 (pre ++ [i]) <> 511 -> pre ++ [i] <> [511] /\ hd 0 ([] ++ pre) <> 511.
Proof.
  intros H. split.
  - intros E. rewrite E in H. apply H. reflexivity.
  - destruct pre; cbn in *; [discriminate | exact H].
Qed.

(** entries after linking a new table [nf] at entry [i] of [t] (and clearing it when [z]) *)
Definition linked (z : bool) (s s' : st) (t i nf link : N) : Prop :=
  forall f j, ent s' f j = if z && (f =? nf) then 0 else if (f =? t) && (j =? i) then link else ent s f j.

Lemma follow_link z s s' A T own pre t i nf link :
  Inv s A T own -> follow s T pre = Some t -> own t = Some pre -> (length pre <= 2)%nat ->
  Forall (fun x => x < 512) pre -> i < 512 -> hd 0 (pre ++ [i]) <> 511 ->
  lo s' = lo s -> cnt s' = cnt s ->
  linked z s s' t i nf link ->
  hw_P link = true -> hw_PS link = false -> hw_frame link = nf ->
  backed s nf = true -> own nf = None -> nf <> A ->
  Rec s' A T /\ follow s' T (pre ++ [i]) = Some nf.
Proof.
  intros HI Hf Ho Hl Hlt Hi Hhd Hlo Hcnt He LP LPS LF Hbn Hon HnA.
  pose proof (inv_wf _ _ _ _ HI) as W.
  destruct (hd_app_ne pre i Hhd) as [Hne Hhd0].
  assert (Hbk: forall f, backed s' f = backed s f) by (intros; unfold backed; rewrite Hlo, Hcnt; reflexivity).
  assert (HnT: nf <> T) by (intros E; rewrite E, (wf_root _ _ _ W) in Hon; discriminate).
  assert (Hnt: nf <> t) by (intros E; rewrite E, Ho in Hon; discriminate).
  assert (Hroot: forall r, (r = A \/ r = T) -> ent s' r 511 = ent s r 511).
  { intros r Hr. rewrite He.
    assert (r <> nf) by (destruct Hr; congruence).
    destruct (N.eqb_spec r nf); [congruence|]. rewrite andb_false_r.
    destruct (N.eqb_spec r t) as [Ert|]; [|reflexivity].
    destruct (N.eqb_spec 511 i) as [E5|]; [|reflexivity]. exfalso.
    assert (Hpre: pre = []).
    { destruct Hr as [Hr|Hr].
      - destruct (inv_A _ _ _ _ HI) as [HA|HA].
        + rewrite <- Ert, Hr, HA, (wf_root _ _ _ W) in Ho. inversion Ho. reflexivity.
        + rewrite <- Ert, Hr, HA in Ho. discriminate.
      - rewrite <- Ert, Hr, (wf_root _ _ _ W) in Ho. inversion Ho. reflexivity. }
    apply Hne. rewrite Hpre, <- E5. reflexivity. }
  split.
  - destruct (inv_rec _ _ _ _ HI) as (R1 & R2 & R3 & R4 & R5 & R6). unfold Rec.
    rewrite !Hbk, (Hroot A), (Hroot T) by auto. repeat split; assumption.
  - rewrite follow_app.
    assert (E: follow s' T pre = follow s T pre).
    { eapply (follow_frame s s' T own T []); try eassumption.
      - exact (wf_root _ _ _ W).
      - intros f q j Hq _ Hlq. cbn [length] in Hlq. rewrite He.
        assert (f <> nf) by (intros E; rewrite E, Hon in Hq; discriminate).
        destruct (N.eqb_spec f nf); [congruence|]. rewrite andb_false_r.
        destruct (N.eqb_spec f t) as [Eft|]; [|reflexivity].
        rewrite Eft, Ho in Hq. inversion Hq as [E2]. rewrite E2 in Hlq. lia.
      - cbn [length]. lia. }
    rewrite E, Hf. cbn [follow].
    destruct (wf_owned _ _ _ W t pre Ho) as (Hbt & _).
    rewrite Hbk, Hbt, He.
    destruct (N.eqb_spec t nf); [congruence|]. rewrite andb_false_r, !N.eqb_refl. cbn [andb].
    unfold usable. rewrite LP, LPS, LF. reflexivity.
Qed.

Lemma Inv_link s s3 A T own pre t i nf r link :
  Inv s A T own -> follow s T pre = Some t -> own t = Some pre -> (length pre <= 2)%nat ->
  Forall (fun x => x < 512) pre -> i < 512 -> hd 0 (pre ++ [i]) <> 511 ->
  hw_P (ent s t i) = false -> orc s = nf :: r -> nf <> 0 ->
  lo s3 = lo s -> cnt s3 = cnt s -> cr3 s3 = cr3 s -> orc s3 = r ->
  hw_P link = true -> hw_PS link = false -> hw_frame link = nf ->
  linked true s s3 t i nf link ->
  Inv s3 A T (upd own nf (pre ++ [i])).
Proof.
  intros HI Hf Ho Hl Hlt Hi Hhd HnP Eo Hnz Hlo Hcnt Hc3 Ho3 LP LPS LF He.
  pose proof (inv_wf _ _ _ _ HI) as W.
  destruct (inv_fresh _ _ _ _ HI) as [F1 F2].
  destruct (F2 nf) as (Hbn & Hon & HnA); [rewrite Eo; left; reflexivity | exact Hnz |].
  destruct (hd_app_ne pre i Hhd) as [Hne Hhd0].
  assert (Hbk: forall f, backed s3 f = backed s f) by (intros; unfold backed; rewrite Hlo, Hcnt; reflexivity).
  assert (HnT: nf <> T) by (intros E; rewrite E, (wf_root _ _ _ W) in Hon; discriminate).
  assert (Hnt: nf <> t) by (intros E; rewrite E, Ho in Hon; discriminate).
  destruct (follow_link true s s3 A T own pre t i nf link HI Hf Ho Hl Hlt Hi Hhd Hlo Hcnt He LP LPS LF Hbn Hon HnA) as [HR3 _].
  assert (Hup: forall f, f <> nf -> upd own nf (pre ++ [i]) f = own f).
  { intros f Hne'. unfold upd. destruct (N.eqb_spec f nf); [congruence|reflexivity]. }
  assert (Hupn: upd own nf (pre ++ [i]) nf = Some (pre ++ [i])) by (unfold upd; rewrite N.eqb_refl; reflexivity).
  split.
  - destruct W as [W1 W2 W3 W4 W5]. split.
    + rewrite Hlo, Hcnt. exact W1.
    + rewrite Hup by congruence. exact W2.
    + intros f p. unfold upd. destruct (N.eqb_spec f nf) as [->|Hfn]; intros Hp.
      * inversion Hp; subst p. rewrite Hbk. split; [exact Hbn|]. split; [rewrite app_length; cbn; lia|].
        split; [apply Forall_app; split; [exact Hlt | constructor; [exact Hi | constructor]] | exact Hhd].
      * rewrite Hbk. exact (W3 f p Hp).
    + destruct HR3 as (_ & _ & _ & _ & R5 & R6). split; assumption.
    + intros f p j. unfold upd at 1. destruct (N.eqb_spec f nf) as [->|Hfn]; intros Hp Hlp Hj Hnej.
      * rewrite He, N.eqb_refl. cbn [andb]. split; [reflexivity | discriminate].
      * rewrite He. destruct (N.eqb_spec f nf); [congruence|]. rewrite andb_false_r.
        destruct (N.eqb_spec f t) as [Eft|Hft]; cbn [andb].
        -- destruct (N.eqb_spec j i) as [Eji|Hji].
           ++ split; [exact LPS|]. intros _. rewrite LF, Hupn.
              rewrite Eft, Ho in Hp. inversion Hp; subst p. rewrite Eji. reflexivity.
           ++ destruct (W5 f p j Hp Hlp Hj Hnej) as [P1 P2]. split; [exact P1|].
              intros HP. specialize (P2 HP). rewrite Hup; [exact P2|].
              intros E. rewrite E, Hon in P2. discriminate.
        -- destruct (W5 f p j Hp Hlp Hj Hnej) as [P1 P2]. split; [exact P1|].
           intros HP. specialize (P2 HP). rewrite Hup; [exact P2|].
           intros E. rewrite E, Hon in P2. discriminate.
  - rewrite Hc3. exact (inv_cr3 _ _ _ _ HI).
  - exact HR3.
  - destruct (inv_A _ _ _ _ HI) as [HA|HA]; [left; exact HA | right]. rewrite Hup by congruence. exact HA.
  - split.
    + rewrite Ho3. rewrite Eo, ofr_cons in F1. destruct (N.eqb_spec nf 0); [congruence|]. inversion F1; assumption.
    + intros f Hin Hz. rewrite Ho3 in Hin. rewrite Hbk.
      destruct (F2 f) as (B1 & B2 & B3); [rewrite Eo; right; exact Hin | exact Hz |].
      split; [exact B1|]. split; [|exact B3].
      rewrite Hup; [exact B2|]. intros E. subst f.
      rewrite Eo, ofr_cons in F1. destruct (N.eqb_spec nf 0); [congruence|]. inversion F1 as [|? ? Hnin _]; subst.
      apply Hnin. apply in_ofr. split; assumption.
Qed.

Section Level.
  Variables (A T pg va leafv : N).
  Hypothesis Hva : forall k, k <= 3 -> hw_idx (N.shiftr va 12) k = hw_idx pg k.

  Definition ix (k : nat) : N := nth k (ixs pg) 0.

  Definition Pre (pre : list N) (s : st) (own : ownmap) (t : N) : Prop :=
    Inv s A T own /\ follow s T pre = Some t /\ pre = firstn (length pre) (ixs pg) /\ hw_idx pg 0 <> 511.

  Definition Post (pre : list N) (s : st) (own : ownmap) (t : N) (s' : st) (err : N) (own' : ownmap) : Prop :=
    Inv s' A T own' /\ same_env s s' /\
    (err = 0 \/ err = E_ALLOC) /\
    (exists n, orc s' = skipn n (orc s) /\ (n <= 3 - length pre)%nat /\
       forall f, own' f = own f \/ (own f = None /\ In f (firstn n (orc s)) /\ f <> 0 /\ under pre (own' f))) /\
    (forall f i, ~ under pre (own' f) -> ent s' f i = ent s f i) /\
    (forall j, j <> ix (length pre) -> ent s' t j = ent s t j) /\
    (err = 0 -> look s' t (skipn (length pre) (ixs pg)) = Some leafv) /\
    (forall is', length is' = (4 - length pre)%nat -> Forall (fun x => x < 512) is' -> hd 0 (pre ++ is') <> 511 ->
                 (err = 0 -> is' <> skipn (length pre) (ixs pg)) -> lookP s' t is' = lookP s t is') /\
    (err = 0 -> flog s' = va :: flog s) /\ (err <> 0 -> flog s' = flog s) /\
    (forall f q i, own f = None -> own' f = Some q -> ent s' f i <> 0 -> exists j, q ++ [i] = firstn j (ixs pg)) /\
    (* entries of existing tables off the page's path are untouched; so are present upper-level entries *)
    (forall f p i, own f = Some p -> p ++ [i] <> firstn (S (length p)) (ixs pg) -> ent s' f i = ent s f i) /\
    (forall f p i, own f = Some p -> (length p < 3)%nat -> hw_P (ent s f i) = true -> ent s' f i = ent s f i) /\
    (* with enough frames in the oracle the walk succeeds *)
    ((3 - length pre <= length (orc s))%nat -> Forall (fun x => x <> 0) (firstn (3 - length pre) (orc s)) -> err = 0).

  (** what [Pre] gives about the current table *)
  Lemma pre_table pre s own t :
    Pre pre s own t -> (length pre <= 3)%nat ->
    own t = Some pre /\ backed s t = true /\ Forall (fun x => x < 512) pre /\ ix (length pre) < 512 /\
    hd 0 (pre ++ [ix (length pre)]) <> 511 /\ pre ++ [ix (length pre)] = firstn (S (length pre)) (ixs pg).
  Proof. clear Hva.
    intros (HI & Hf & Hp & H511) Hl.
    assert (Hlt: Forall (fun x => x < 512) pre).
    { rewrite Hp. apply Forall_forall. intros x Hx. apply (proj1 (Forall_forall _ _) (ixs_lt pg)).
      eapply in_firstn. exact Hx. }
    assert (Hhd: hd 0 pre <> 511 \/ pre = []).
    { destruct pre as [|a r]; [right; reflexivity|left]. rewrite Hp. cbn. exact H511. }
    assert (Ho: own t = Some pre).
    { change pre with ([] ++ pre). eapply follow_own; try exact Hf.
      - exact (inv_wf _ _ _ _ HI).
      - exact (wf_root _ _ _ (inv_wf _ _ _ _ HI)).
      - exact Hlt.
      - cbn. lia.
      - cbn. destruct Hhd as [H|H]; [exact H| subst; cbn; discriminate]. }
    destruct (wf_owned _ _ _ (inv_wf _ _ _ _ HI) t pre Ho) as (Hb & _ & _ & _).
    assert (Hix: ix (length pre) < 512).
    { unfold ix. destruct (Nat.lt_ge_cases (length pre) 4) as [H4|H4].
      - apply (proj1 (Forall_forall _ _) (ixs_lt pg)). apply nth_In. rewrite ixs_length. exact H4.
      - lia. }
    assert (Hsn: pre ++ [ix (length pre)] = firstn (S (length pre)) (ixs pg)).
    { unfold ix. rewrite Hp at 1. rewrite Hp at 3.
      rewrite firstn_length, ixs_length. replace (Nat.min (length pre) 4) with (length pre) by lia.
      unfold ixs.
      destruct (length pre) as [|[|[|[|n]]]]; cbn [firstn nth app]; try reflexivity. lia. }
    repeat split; try assumption.
    rewrite Hsn. unfold ixs. cbn. exact H511.
  Qed.

  Lemma ent_wr s t i v f j : ent (wr_st s t i v) f j = if (f =? t) && (j =? i) then v else ent s f j.
  Proof. clear Hva. unfold ent, wr_st. cbn [mem set_mem]. apply rd_wr. Qed.

  Lemma ent_flush s a f j : ent (flush s a) f j = ent s f j.
  Proof. clear Hva. reflexivity. Qed.

  (** the last level: write the leaf entry, flush *)
  Lemma map_leaf pre s own t frame flags :
    length pre = 3%nat -> Pre pre s own t -> leafv = set_flags (set_frame 0 frame) flags ->
    exists s', map_walk [(12, 9)] 3 (wwin pre) va frame flags s = Ok (s', 0) /\ Post pre s own t s' 0 own.
  Proof.
    intros Hl HP Hleaf.
    destruct (pre_table pre s own t HP ltac:(lia)) as (Ho & Hb & Hlt & Hix & Hhd & Hsn).
    destruct HP as (HI & Hf & Hp & H511).
    rewrite Hl in Hix, Hhd, Hsn.
    assert (Hne0: pre <> []) by (intros E; rewrite E in Hl; discriminate).
    assert (Hix3: ix 3 = hw_idx pg 3) by reflexivity.
    assert (Hres: resolve s (entry_addr (wwin pre) va 12 9) = Some (t, ix 3)).
    { unfold entry_addr. rewrite pointer_shift_val.
      destruct (entry_index_hw va) as (_ & _ & _ & E3). rewrite E3, Hva by lia. rewrite <- Hix3.
      eapply resolve_entry; try eassumption.
      - exact (inv_cr3 _ _ _ _ HI).
      - exact (inv_rec _ _ _ _ HI).
      - lia. }
    exists (flush (wr_st s t (ix 3) leafv) va). split.
    { cbn [map_walk]. rewrite Hres. change (3 =? last_level) with true. cbn iota. rewrite Hleaf. reflexivity. }
    set (s' := flush (wr_st s t (ix 3) leafv) va).
    assert (He: forall f j, ent s' f j = if (f =? t) && (j =? ix 3) then leafv else ent s f j).
    { intros. unfold s'. rewrite ent_flush. apply ent_wr. }
    assert (Hnt: forall f, f <> t -> forall j, ent s' f j = ent s f j).
    { intros f Hne j. rewrite He. destruct (N.eqb_spec f t); [congruence|reflexivity]. }
    pose proof (inv_wf _ _ _ _ HI) as W.
    unfold Post. rewrite Hl.
    split; [|split; [|split; [|split; [|split; [|split; [|split; [|split; [|split; [|split; [|split; [|split; [|split]]]]]]]]]]]].
    - apply (Inv_ent_eq s s' A T own HI); try reflexivity.
      intros f j [-> | [-> | (p & Hop & Hlp)]]; apply Hnt.
      + destruct (inv_A _ _ _ _ HI) as [HA | HA]; intros E.
        * rewrite HA in E. rewrite <- E, (wf_root _ _ _ W) in Ho. inversion Ho as [E2]. congruence.
        * rewrite E in HA. congruence.
      + intros E. rewrite <- E, (wf_root _ _ _ W) in Ho. inversion Ho as [E2]. congruence.
      + intros E. rewrite E, Ho in Hop. inversion Hop as [E2]. rewrite <- E2 in Hlp. lia.
    - repeat split.
    - left; reflexivity.
    - exists 0%nat. split; [reflexivity|]. split; [lia|]. intros f. left. reflexivity.
    - intros f i Hu. apply Hnt. intros E. apply Hu. rewrite E, Ho. apply under_self.
    - intros j Hj. rewrite He. rewrite N.eqb_refl. cbn [andb]. destruct (N.eqb_spec j (ix 3)); [congruence|reflexivity].
    - intros _. change (skipn 3 (ixs pg)) with [ix 3]. rewrite look_one.
      replace (backed s' t) with (backed s t) by reflexivity. rewrite Hb, He, !N.eqb_refl. reflexivity.
    - intros is' Hlen Hlt' Hhd' Hne. cbn in Hlen.
      destruct is' as [|j [|j2 r]]; try discriminate.
      assert (Hj: j <> ix 3).
      { intros E; subst. apply Hne; reflexivity. }
      unfold lookP. rewrite !look_one. replace (backed s' t) with (backed s t) by reflexivity.
      rewrite He, N.eqb_refl. cbn [andb]. destruct (N.eqb_spec j (ix 3)); [congruence|reflexivity].
    - intros _. reflexivity.
    - intros H. congruence.
    - intros f q i Hn Hs. congruence.
    - intros f p0 i Hp0 Hoff. rewrite He.
      destruct (N.eqb_spec f t) as [Eft|]; [|reflexivity]. destruct (N.eqb_spec i (ix 3)) as [Ei|]; [|reflexivity].
      exfalso. apply Hoff. rewrite Eft, Ho in Hp0. inversion Hp0 as [Ep]. rewrite <- Ep, Ei, Hl. exact Hsn.
    - intros f p0 i Hp0 Hlp _. apply Hnt. intros E. rewrite E, Ho in Hp0. inversion Hp0 as [Ep]. rewrite <- Ep in Hlp. lia.
    - intros _ _. reflexivity.
  Qed.

  Lemma skipn_ix k : (k <= 3)%nat -> skipn k (ixs pg) = ix k :: skipn (S k) (ixs pg).
  Proof. clear Hva.
    intros Hk. unfold ix, ixs. destruct k as [|[|[|[|n]]]]; cbn; try reflexivity. lia.
  Qed.

  Lemma Post_fail pre s own t s1 :
    Inv s1 A T own -> same_env s s1 -> (forall f j, ent s1 f j = ent s f j) ->
    (exists n, orc s1 = skipn n (orc s) /\ (n <= 3 - length pre)%nat) -> flog s1 = flog s ->
    ((3 - length pre <= length (orc s))%nat -> Forall (fun x => x <> 0) (firstn (3 - length pre) (orc s)) -> False) ->
    Post pre s own t s1 E_ALLOC own.
  Proof. clear Hva.
    intros HI Hse He (n & Hn & Hnb) Hfl Hen. unfold Post.
    destruct Hse as (E1 & E2 & Hrest).
    split; [exact HI|]. split; [repeat split; tauto|]. split; [right; reflexivity|].
    split; [exists n; split; [exact Hn | split; [exact Hnb | intros f; left; reflexivity]]|].
    split; [intros; apply He|]. split; [intros; apply He|].
    split; [intros H; discriminate|].
    split; [intros; unfold lookP; rewrite (look_ext s s1) by assumption; reflexivity|].
    split; [intros H; discriminate|]. split; [intros _; exact Hfl|].
    split; [intros f q i H1 H2; congruence|].
    split; [intros; apply He|]. split; [intros; apply He|].
    intros H1 H2. exfalso. exact (Hen H1 H2).
  Qed.

  (** a level above the last: descend, allocating and clearing the next table if it is missing *)
  Lemma map_level pre sh rest frame flags :
    (length pre <= 2)%nat ->
    entry_index va sh 9 = ix (length pre) ->
    level_bits (N.of_nat (length pre) + 1) = 9 ->
    (N.of_nat (length pre) =? last_level) = false ->
    (forall s own t, Pre (pre ++ [ix (length pre)]) s own t ->
       exists s' err own',
         map_walk rest (N.of_nat (length pre) + 1) (wwin (pre ++ [ix (length pre)])) va frame flags s = Ok (s', err) /\
         Post (pre ++ [ix (length pre)]) s own t s' err own') ->
    forall s own t, Pre pre s own t ->
    exists s' err own',
      map_walk ((sh, 9) :: rest) (N.of_nat (length pre)) (wwin pre) va frame flags s = Ok (s', err) /\
      Post pre s own t s' err own'.
  Proof.
    intros Hl Hidx Hbits Hlast IH s own t HP.
    destruct (pre_table pre s own t HP ltac:(lia)) as (Ho & Hb & Hlt & Hix & Hhd & Hsn).
    destruct HP as (HI & Hf & Hp & H511).
    set (i := ix (length pre)) in *.
    pose proof (inv_wf _ _ _ _ HI) as W.
    destruct (hd_app_ne pre i Hhd) as [Hne Hhd0].
    destruct (wf_child _ _ _ W t pre i Ho ltac:(lia) Hix Hne) as [HPS Hchild].
    assert (Hres: resolve s (entry_addr (wwin pre) va sh 9) = Some (t, i)).
    { unfold entry_addr. rewrite pointer_shift_val, Hidx.
      eapply resolve_entry; try eassumption.
      - exact (inv_cr3 _ _ _ _ HI).
      - exact (inv_rec _ _ _ _ HI).
      - lia. }
    assert (Hnext: shl64 (entry_addr (wwin pre) va sh 9) 9 = wwin (pre ++ [i])).
    { unfold entry_addr. rewrite pointer_shift_val, Hidx. apply wwin_next; assumption. }
    assert (Hlen1: length (pre ++ [i]) = S (length pre)) by (rewrite app_length; cbn; lia).
    assert (Hpre1: pre ++ [i] = firstn (length (pre ++ [i])) (ixs pg)) by (rewrite Hlen1; exact Hsn).
    assert (Hskip: skipn (length pre) (ixs pg) = i :: skipn (length (pre ++ [i])) (ixs pg)).
    { rewrite Hlen1. apply skipn_ix. lia. }
    cbn [map_walk]. rewrite Hres, Hlast. fold (ent s t i).
    rewrite has_huge_hw, HPS, has_present_hw. cbn iota.
    destruct (hw_P (ent s t i)) eqn:HPres; cbn [negb].
    - (* the next table exists *)
      specialize (Hchild eq_refl). set (c := hw_frame (ent s t i)) in *.
      assert (Hfc: follow s T (pre ++ [i]) = Some c).
      { rewrite follow_app, Hf. cbn [follow]. rewrite Hb. unfold usable. rewrite HPres, HPS. reflexivity. }
      destruct (IH s own c) as (s' & err & own' & Hrun & HQ).
      { split; [exact HI|]. split; [exact Hfc|]. split; [exact Hpre1 | exact H511]. }
      exists s', err, own'. rewrite Hnext. split; [exact Hrun|].
      destruct HQ as (QI & Qenv & Qerr & (n & Qn & Qnb & Qown) & Qfr & Qt & Qlook & Qoth & Qf1 & Qf2 & Qnew & Qoff & Qpres & Qen).
      assert (Hown't: own' t = Some pre).
      { destruct (Qown t) as [E | (E & _)]; [rewrite E; exact Ho | rewrite Ho in E; discriminate]. }
      assert (Htfix: forall j, ent s' t j = ent s t j).
      { intros j. apply Qfr. rewrite Hown't. apply not_under_shorter. rewrite Hlen1. lia. }
      assert (Hbk: forall f, backed s' f = backed s f) by (intros; apply same_env_backed; exact Qenv).
      unfold Post.
      split; [exact QI|]. split; [exact Qenv|]. split; [exact Qerr|].
      split.
      { exists n. split; [exact Qn|]. split; [rewrite Hlen1 in Qnb; lia|].
        intros f. destruct (Qown f) as [E | (E1 & E2 & E3 & E4)]; [left; exact E | right].
        repeat split; try assumption. eapply under_app; exact E4. }
      split.
      { intros f j Hu. apply Qfr. intros Hu'. apply Hu. eapply under_app; exact Hu'. }
      split; [intros j _; apply Htfix|].
      split.
      { intros He0. rewrite Hskip.
        destruct (skipn (length (pre ++ [i])) (ixs pg)) as [|i2 r2] eqn:Esk.
        - exfalso. apply (f_equal (@length N)) in Esk. rewrite skipn_length, ixs_length, Hlen1 in Esk. cbn [length] in Esk. clear -Esk Hl. lia.
        - rewrite look_cons, Hbk, Hb, Htfix. unfold usable. rewrite HPres, HPS. cbn [andb negb]. exact (Qlook He0). }
      split.
      { intros is' Hlen' Hlt' Hhd' Hne'.
        destruct is' as [|i' r']; [cbn [length] in Hlen'; lia|].
        destruct r' as [|i2 r2]; [cbn [length] in Hlen'; lia|].
        unfold lookP. rewrite !look_cons, Hbk, Htfix.
        destruct (backed s t && usable (ent s t i')) eqn:Eu; [|reflexivity].
        inversion Hlt' as [|? ? Hi' Hr']; subst.
        destruct (N.eq_dec i' i) as [->|Hii].
        + (* same next table *)
          fold c. apply (Qoth (i2 :: r2)).
          * rewrite Hlen1. cbn [length] in *. lia.
          * exact Hr'.
          * rewrite <- app_assoc. exact Hhd'.
          * intros He0 E. apply (Hne' He0). rewrite Hskip, E. reflexivity.
        + (* a sibling subtree: untouched *)
          apply andb_prop in Eu. destruct Eu as [_ Hu]. unfold usable in Hu. apply andb_prop in Hu. destruct Hu as [HP' _].
          assert (Hne2: pre ++ [i'] <> [511]).
          { intros E. apply Hhd'. replace (pre ++ i' :: i2 :: r2) with ((pre ++ [i']) ++ i2 :: r2) by (rewrite <- app_assoc; reflexivity).
            rewrite E. reflexivity. }
          destruct (wf_child _ _ _ W t pre i' Ho ltac:(lia) Hi' Hne2) as [_ Hc'].
          specialize (Hc' HP').
          assert (EQ: look s' (hw_frame (ent s t i')) (i2 :: r2) = look s (hw_frame (ent s t i')) (i2 :: r2)).
          { destruct Qenv as (E1 & E2 & _).
            eapply (look_frame s s' T own _ (pre ++ [i'])); try eassumption.
            * intros f q j Hq Hu _. apply Qfr.
              destruct (Qown f) as [E | (E & _)]; [|rewrite Hq in E; discriminate].
              rewrite E, Hq. cbn in Hu.
              rewrite <- (firstn_skipn (length (pre ++ [i'])) q), Hu. rewrite <- app_assoc. apply not_under_sibling. congruence.
            * rewrite app_length. cbn [length] in *. lia.
            * rewrite <- app_assoc. exact Hhd'. }
          rewrite EQ. reflexivity. }
      split; [exact Qf1|]. split; [exact Qf2|].
      split; [exact Qnew|]. split; [exact Qoff|]. split; [exact Qpres|].
      intros Hlen Hnz. apply Qen.
      + rewrite Hlen1. lia.
      + rewrite Hlen1. replace (3 - length pre)%nat with (S (3 - S (length pre))) in Hnz by lia.
        clear -Hnz. revert Hnz. generalize (3 - S (length pre))%nat as k. generalize (orc s) as l.
        induction l as [|x l IHl]; intros k H; [destruct k; constructor|].
        destruct k as [|k]; [constructor|]. cbn [firstn] in *. inversion H as [|? ? Hx Hr]; subst.
        constructor; [exact Hx|]. apply IHl. exact Hr.
    - (* the next table is missing: allocate *)
      unfold alloc. destruct (orc s) as [|x r] eqn:Eo.
      { (* oracle exhausted *)
        exists s, E_ALLOC, own. split; [reflexivity|].
        apply Post_fail; try assumption; try reflexivity.
        - apply same_env_refl.
        - exists 0%nat. rewrite Eo. split; [reflexivity | lia].
        - rewrite Eo. cbn [length]. intros Hlen _. lia. }
      destruct (N.eqb_spec x 0) as [Hx0|Hx0].
      { exists (set_orc s r), E_ALLOC, own. split; [reflexivity|].
        apply Post_fail; try reflexivity.
        - eapply Inv_pop; eassumption.
        - repeat split.
        - exists 1%nat. rewrite Eo. split; [reflexivity | lia].
        - rewrite Eo. intros _ Hnz. replace (3 - length pre)%nat with (S (2 - length pre)) in Hnz by lia.
          cbn [firstn] in Hnz. inversion Hnz as [|? ? Hx _]. congruence. }
      (* a fresh frame [x] *)
      set (nf := x) in *.
      destruct (inv_fresh _ _ _ _ HI) as [F1 F2].
      destruct (F2 nf) as (Hbn & Hon & HnA); [rewrite Eo; left; reflexivity | exact Hx0 |].
      assert (Hnf40: nf < 2 ^ 40) by (eapply backed_lt40; [exact (wf_arena _ _ _ W) | exact Hbn]).
      destruct (link_entry nf Hnf40) as (LP & LPS & LF).
      set (link := set_flags (set_frame 0 nf) P_RW) in *.
      set (s2 := wr_st (set_orc s r) t i link).
      assert (He2: linked false s s2 t i nf link).
      { intros f j. cbn [andb]. unfold s2. rewrite ent_wr. reflexivity. }
      destruct (follow_link false s s2 A T own pre t i nf link HI Hf Ho Hl Hlt Hix Hhd eq_refl eq_refl He2 LP LPS LF Hbn Hon HnA) as [HR2 Hf2].
      assert (Hrp: resolve_page s2 (shl64 (entry_addr (wwin pre) va sh 9) (level_bits (N.of_nat (length pre) + 1))) = Some nf).
      { rewrite Hbits, Hnext. eapply (resolve_page_win s2 A T); try eassumption.
        - exact (inv_cr3 _ _ _ _ HI).
        - rewrite Hlen1. lia.
        - apply Forall_app; split; [exact Hlt | constructor; [exact Hix | constructor]]. }
      rewrite Hrp.
      set (s3 := set_mem s2 (zero (mem s2) nf)).
      assert (He3: linked true s s3 t i nf link).
      { intros f j. unfold s3, ent. cbn [mem set_mem]. rewrite rd_zero. cbn [andb].
        destruct (N.eqb_spec f nf); [reflexivity|]. apply He2. }
      assert (HI3: Inv s3 A T (upd own nf (pre ++ [i]))).
      { eapply (Inv_link s s3 A T own pre t i nf r link); try eassumption; try reflexivity. }
      destruct (follow_link true s s3 A T own pre t i nf link HI Hf Ho Hl Hlt Hix Hhd eq_refl eq_refl He3 LP LPS LF Hbn Hon HnA) as [HR3 Hf3].
      destruct (IH s3 (upd own nf (pre ++ [i])) nf) as (s' & err & own' & Hrun & HQ).
      { split; [exact HI3|]. split; [exact Hf3|]. split; [exact Hpre1 | exact H511]. }
      exists s', err, own'. rewrite Hnext. split; [exact Hrun|].
      destruct HQ as (QI & Qenv & Qerr & (n & Qn & Qnb & Qown) & Qfr & Qt & Qlook & Qoth & Qf1 & Qf2 & Qnew & Qoff & Qpres & Qen).
      assert (Hnt: nf <> t) by (intros E; rewrite E, Ho in Hon; discriminate).
      assert (Hupo: forall f, f <> nf -> upd own nf (pre ++ [i]) f = own f).
      { intros f Hne'. unfold upd. destruct (N.eqb_spec f nf); [congruence|reflexivity]. }
      assert (Hupn: upd own nf (pre ++ [i]) nf = Some (pre ++ [i])) by (unfold upd; rewrite N.eqb_refl; reflexivity).
      assert (Hown'n: own' nf = Some (pre ++ [i])).
      { destruct (Qown nf) as [E | (E & _)]; [rewrite E; exact Hupn | rewrite Hupn in E; discriminate]. }
      assert (Hown't: own' t = Some pre).
      { destruct (Qown t) as [E | (E & _)]; rewrite Hupo in E by congruence; [rewrite E; exact Ho | rewrite Ho in E; discriminate]. }
      assert (Htfix: forall j, ent s' t j = ent s3 t j).
      { intros j. apply Qfr. rewrite Hown't. apply not_under_shorter. rewrite Hlen1. lia. }
      assert (Henv: same_env s s').
      { eapply same_env_trans; [|exact Qenv]. repeat split. }
      assert (Hbk: forall f, backed s' f = backed s f) by (intros; apply same_env_backed; exact Henv).
      assert (Hz3: forall j, ent s3 nf j = 0).
      { intros j. rewrite He3, N.eqb_refl. reflexivity. }
      assert (Ht3: ent s3 t i = link).
      { rewrite He3. destruct (N.eqb_spec t nf); [congruence|]. rewrite !N.eqb_refl. reflexivity. }
      unfold Post.
      split; [exact QI|]. split; [exact Henv|]. split; [exact Qerr|].
      split.
      { exists (S n). split; [rewrite Eo; cbn [skipn]; exact Qn|]. split; [rewrite Hlen1 in Qnb; lia|].
        intros f. destruct (N.eq_dec f nf) as [->|Hfn].
        - right. rewrite Hown'n, Eo. repeat split; try assumption.
          + left. reflexivity.
          + apply under_ext.
        - destruct (Qown f) as [E | (E1 & E2 & E3 & E4)]; rewrite Hupo in * by exact Hfn; [left; exact E | right].
          repeat split; try assumption.
          + rewrite Eo. cbn [firstn]. right. exact E2.
          + eapply under_app; exact E4. }
      split.
      { intros f j Hu. rewrite Qfr by (intros Hu'; apply Hu; eapply under_app; exact Hu').
        rewrite He3.
        destruct (N.eqb_spec f nf) as [->|Hfn]; [exfalso; apply Hu; rewrite Hown'n; apply under_ext|]. cbn [andb].
        destruct (N.eqb_spec f t) as [->|Hft]; [exfalso; apply Hu; rewrite Hown't; apply under_self|]. reflexivity. }
      split.
      { intros j Hj. rewrite Htfix, He3. destruct (N.eqb_spec t nf); [congruence|]. cbn [andb].
        rewrite N.eqb_refl. destruct (N.eqb_spec j i) as [Eji|]; [exact (False_ind _ (Hj Eji))|reflexivity]. }
      split.
      { intros He0. rewrite Hskip.
        destruct (skipn (length (pre ++ [i])) (ixs pg)) as [|i2 r2] eqn:Esk.
        - exfalso. apply (f_equal (@length N)) in Esk. rewrite skipn_length, ixs_length, Hlen1 in Esk. cbn [length] in Esk. clear -Esk Hl. lia.
        - rewrite look_cons, Hbk, Hb, Htfix, Ht3. unfold usable. rewrite LP, LPS, LF. cbn [andb negb]. exact (Qlook He0). }
      split.
      { intros is' Hlen' Hlt' Hhd' Hne'.
        destruct is' as [|i' r']; [cbn [length] in Hlen'; lia|].
        destruct r' as [|i2 r2]; [cbn [length] in Hlen'; lia|].
        inversion Hlt' as [|? ? Hi' Hr']; subst.
        unfold lookP. rewrite !look_cons, Hbk, Htfix.
        destruct (N.eq_dec i' i) as [->|Hii].
        + (* inside the new table: nothing was mapped there before, nothing else is now *)
          rewrite Ht3. unfold usable at 1. rewrite LP, LPS, LF. unfold usable. rewrite HPres. cbn [andb negb].
          rewrite Hb. cbn [andb].
          assert (EQ: lookP s' nf (i2 :: r2) = lookP s3 nf (i2 :: r2)).
          { apply Qoth.
            - rewrite Hlen1. cbn [length] in *. lia.
            - exact Hr'.
            - rewrite <- app_assoc. exact Hhd'.
            - intros He0 E. apply (Hne' He0). rewrite Hskip, E. reflexivity. }
          unfold lookP in EQ. rewrite EQ.
          pose proof (lookP_zero_table s3 nf (i2 :: r2) Hz3) as Z. unfold lookP in Z. exact Z.
        + (* a sibling subtree: untouched *)
          rewrite He3. destruct (N.eqb_spec t nf); [congruence|]. cbn [andb].
          destruct (N.eqb_spec i' i); [congruence|]. rewrite andb_false_r.
          destruct (backed s t && usable (ent s t i')) eqn:Eu; [|reflexivity].
          apply andb_prop in Eu. destruct Eu as [_ Hu]. unfold usable in Hu. apply andb_prop in Hu. destruct Hu as [HP' _].
          assert (Hne2: pre ++ [i'] <> [511]).
          { intros E. apply Hhd'. replace (pre ++ i' :: i2 :: r2) with ((pre ++ [i']) ++ i2 :: r2) by (rewrite <- app_assoc; reflexivity).
            rewrite E. reflexivity. }
          destruct (wf_child _ _ _ W t pre i' Ho ltac:(lia) Hi' Hne2) as [_ Hc'].
          specialize (Hc' HP').
          assert (EQ: look s' (hw_frame (ent s t i')) (i2 :: r2) = look s (hw_frame (ent s t i')) (i2 :: r2)); [|rewrite EQ; reflexivity].
          destruct Henv as (E1 & E2 & _).
          eapply (look_frame s s' T own _ (pre ++ [i'])); try eassumption.
          * intros f q j Hq Hu _.
            assert (Hfn: f <> nf) by (intros E; rewrite E, Hon in Hq; discriminate).
            assert (Hnu: ~ under (pre ++ [i]) (own' f)).
            { destruct (Qown f) as [E | (E & _)]; rewrite Hupo in E by exact Hfn; [|rewrite Hq in E; discriminate].
              rewrite E, Hq. cbn in Hu.
              rewrite <- (firstn_skipn (length (pre ++ [i'])) q), Hu. rewrite <- app_assoc. apply not_under_sibling. congruence. }
            rewrite (Qfr f j Hnu), He3.
            destruct (N.eqb_spec f nf); [congruence|]. cbn [andb].
            destruct (N.eqb_spec f t) as [Eft|]; [|reflexivity].
            exfalso. rewrite Eft, Ho in Hq. inversion Hq as [Eq]. rewrite <- Eq in Hu. cbn in Hu.
            apply (f_equal (@length N)) in Hu. rewrite firstn_length, app_length in Hu. cbn in Hu. lia.
          * rewrite app_length. cbn [length] in *. lia.
          * rewrite <- app_assoc. exact Hhd'. }
      split; [intros He0; rewrite (Qf1 He0); reflexivity|].
      split; [intros He0; rewrite (Qf2 He0); reflexivity|].
      split.
      { intros f q j Hof Hq Hnz.
        destruct (N.eq_dec f nf) as [->|Hfn].
        + rewrite Hown'n in Hq. inversion Hq; subst q.
          destruct (N.eq_dec j (ix (length (pre ++ [i])))) as [->|Hj].
          * exists (S (length (pre ++ [i]))).
            assert (Hp2: Pre (pre ++ [i]) s3 (upd own nf (pre ++ [i])) nf) by (split; [exact HI3|]; split; [exact Hf3|]; split; [exact Hpre1 | exact H511]).
            destruct (pre_table (pre ++ [i]) s3 _ nf Hp2 ltac:(rewrite Hlen1; lia)) as (_ & _ & _ & _ & _ & E). exact E.
          * exfalso. apply Hnz. rewrite (Qt j Hj). apply Hz3.
        + apply (Qnew f q j); [rewrite Hupo by exact Hfn; exact Hof | exact Hq | exact Hnz]. }
      assert (H3s: forall f p j, own f = Some p -> (f <> t \/ j <> i) -> ent s3 f j = ent s f j).
      { intros f p j Hq0 Hd. rewrite He3.
        destruct (N.eqb_spec f nf) as [E|]; [rewrite E, Hon in Hq0; discriminate|]. cbn [andb].
        destruct (N.eqb_spec f t); destruct (N.eqb_spec j i); cbn [andb]; try reflexivity. destruct Hd; congruence. }
      split.
      { intros f p j Hq0 Hoff.
        assert (Hfn: f <> nf) by (intros E; rewrite E, Hon in Hq0; discriminate).
        rewrite (Qoff f p j); [|rewrite Hupo by exact Hfn; exact Hq0 | exact Hoff].
        apply (H3s f p j Hq0).
        destruct (N.eq_dec f t) as [Eft|]; [|left; assumption]. right. intros Ej. apply Hoff.
        rewrite Eft, Ho in Hq0. inversion Hq0 as [Ep]. rewrite <- Ep, Ej. exact Hsn. }
      split.
      { intros f p j Hq0 Hlp HPj.
        assert (Hfn: f <> nf) by (intros E; rewrite E, Hon in Hq0; discriminate).
        assert (Hd: f <> t \/ j <> i).
        { destruct (N.eq_dec f t) as [Eft|]; [|left; assumption]. right. intros Ej. rewrite Eft, Ej, HPres in HPj. discriminate. }
        rewrite (Qpres f p j); [apply (H3s f p j Hq0 Hd) | rewrite Hupo by exact Hfn; exact Hq0 | exact Hlp |].
        rewrite (H3s f p j Hq0 Hd). exact HPj. }
      intros Hlen Hnz. apply Qen.
      + rewrite Hlen1. change (orc s3) with r. rewrite Eo in Hlen. cbn [length] in Hlen. lia.
      + rewrite Hlen1. change (orc s3) with r. rewrite Eo in Hnz.
        replace (3 - length pre)%nat with (S (3 - S (length pre))) in Hnz by lia.
        cbn [firstn] in Hnz. inversion Hnz; assumption.
  Qed.
End Level.

(** * The whole walk *)
Lemma ix_val pg : ix pg 0 = hw_idx pg 0 /\ ix pg 1 = hw_idx pg 1 /\ ix pg 2 = hw_idx pg 2 /\ ix pg 3 = hw_idx pg 3.
Proof. repeat split; reflexivity. Qed.

Lemma map_walk_spec A T pg va frame flags s own :
  (forall k, k <= 3 -> hw_idx (N.shiftr va 12) k = hw_idx pg k) ->
  Inv s A T own -> hw_idx pg 0 <> 511 ->
  exists s' err own',
    map_walk go_levels 0 vmm_pdtVirtualAddr va frame flags s = Ok (s', err) /\
    Post A T pg va (set_flags (set_frame 0 frame) flags) [] s own T s' err own'.
Proof.
  intros Hva HI H511.
  destruct (entry_index_hw va) as (E0 & E1 & E2 & E3).
  set (leaf := set_flags (set_frame 0 frame) flags).
  assert (L3: forall s0 own0 t0, Pre A T pg [ix pg 0; ix pg 1; ix pg 2] s0 own0 t0 ->
            exists s' err own', map_walk [(12, 9)] 3 (wwin [ix pg 0; ix pg 1; ix pg 2]) va frame flags s0 = Ok (s', err) /\
                                Post A T pg va leaf [ix pg 0; ix pg 1; ix pg 2] s0 own0 t0 s' err own').
  { intros s0 own0 t0 HP0.
    destruct (map_leaf A T pg va leaf Hva [ix pg 0; ix pg 1; ix pg 2] s0 own0 t0 frame flags eq_refl HP0 eq_refl) as (s' & Hrun & HQ).
    exists s', 0, own0. split; assumption. }
  assert (L2: forall s0 own0 t0, Pre A T pg [ix pg 0; ix pg 1] s0 own0 t0 ->
            exists s' err own', map_walk [(21, 9); (12, 9)] 2 (wwin [ix pg 0; ix pg 1]) va frame flags s0 = Ok (s', err) /\
                                Post A T pg va leaf [ix pg 0; ix pg 1] s0 own0 t0 s' err own').
  { apply (map_level A T pg va leaf Hva [ix pg 0; ix pg 1] 21 [(12, 9)] frame flags).
    - cbn [length]. lia.
    - rewrite E2, Hva by lia. reflexivity.
    - reflexivity.
    - reflexivity.
    - exact L3. }
  assert (L1: forall s0 own0 t0, Pre A T pg [ix pg 0] s0 own0 t0 ->
            exists s' err own', map_walk [(30, 9); (21, 9); (12, 9)] 1 (wwin [ix pg 0]) va frame flags s0 = Ok (s', err) /\
                                Post A T pg va leaf [ix pg 0] s0 own0 t0 s' err own').
  { apply (map_level A T pg va leaf Hva [ix pg 0] 30 [(21, 9); (12, 9)] frame flags).
    - cbn [length]. lia.
    - rewrite E1, Hva by lia. reflexivity.
    - reflexivity.
    - reflexivity.
    - exact L2. }
  rewrite go_levels_val, <- wwin_nil.
  apply (map_level A T pg va leaf Hva [] 39 [(30, 9); (21, 9); (12, 9)] frame flags).
  - cbn [length]. lia.
  - rewrite E0, Hva by lia. reflexivity.
  - reflexivity.
  - reflexivity.
  - exact L1.
  - split; [exact HI|]. split; [reflexivity|]. split; [reflexivity | exact H511].
Qed.

Lemma frame_addr_idx page k : k <= 3 -> hw_idx (N.shiftr (frame_addr page) 12) k = hw_idx page k.
Proof. intros Hk. unfold frame_addr. rewrite page_shift_val. apply hw_idx_shl_page. exact Hk. Qed.

(** the reserved-zero-frame guard of Map *)
Definition zero_guard (s : st) (frame flags : N) : bool :=
  prot s && (frame =? zf s) && negb (N.land flags vmm_FlagRW =? 0).

Lemma map_page_guarded page frame flags s :
  zero_guard s frame flags = true -> map_page page frame flags s = Ok (s, E_ZERO_RW).
Proof. unfold map_page, zero_guard. intros ->. reflexivity. Qed.

Lemma map_page_spec A T page frame flags s own :
  Inv s A T own -> hw_idx page 0 <> 511 -> zero_guard s frame flags = false ->
  exists s' err own',
    map_page page frame flags s = Ok (s', err) /\
    Post A T page (frame_addr page) (set_flags (set_frame 0 frame) flags) [] s own T s' err own'.
Proof.
  intros HI H511 Hg. unfold map_page. unfold zero_guard in Hg. rewrite Hg.
  apply map_walk_spec; try assumption. apply frame_addr_idx.
Qed.
