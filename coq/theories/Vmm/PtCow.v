(** C06 [cow_ok]: what a copy-on-write fault does. *)
From Coq Require Import NArith ZArith Lia List Bool.
From Coq Require Import ZifyBool ZifyN ZifyNat.
From FF Require Import Lib.Word Gen.Consts_mm_vmm Vmm.Region Vmm.Pt Vmm.PtMem Vmm.PtArith Vmm.PtTree Vmm.PtMap Vmm.PtOps Vmm.PtTheorems Vmm.PtPdt Vmm.PtFault.
Import ListNotations.
Local Open Scope N_scope.
Ltac Zify.zify_post_hook ::= Z.div_mod_to_equations.

Lemma frame_addr_aligned page : N.land (frame_addr page) 4095 = 0.
Proof.
  unfold frame_addr, shl64, w64, two64. rewrite page_shift_val, N.shiftl_mul_pow2.
  change 4095 with (N.ones 12). rewrite N.land_ones. change (2 ^ 12) with 4096. lia.
Qed.

Lemma resolve_page_mmu s page : resolve_page s (frame_addr page) = mmu s (frame_addr page).
Proof. unfold resolve_page. rewrite frame_addr_aligned. reflexivity. Qed.

Lemma temp_idx0 : hw_idx temp_page 0 <> 511.
Proof. vm_compute. discriminate. Qed.

Lemma aspace_of_follow s A own page l :
  WF s A own -> follow s A (firstn 3 (ixs page)) = Some l -> hw_idx page 0 <> 511 ->
  aspace s A page = Some (ent s l (hw_idx page 3)) /\ own l = Some (firstn 3 (ixs page)).
Proof.
  intros W Hf H511.
  assert (Ho: own l = Some (firstn 3 (ixs page))).
  { change (firstn 3 (ixs page)) with ([] ++ firstn 3 (ixs page)). eapply follow_own; try eassumption.
    - exact (wf_root _ _ _ W).
    - apply firstn3_lt.
    - cbn. lia. }
  split; [|exact Ho]. rewrite aspace_follow, Hf. destruct (wf_owned _ _ _ W l _ Ho) as (Hb & _). rewrite Hb. reflexivity.
Qed.

(** the entry the handler leaves *)
Definition cow_entry (e cp : N) : N := set_frame (set_flags (clear_flags e vmm_FlagCopyOnWrite) P_RW) cp.

Lemma cow_entry_bits e cp :
  cp < 2 ^ 40 ->
  hw_frame (cow_entry e cp) = cp /\ hw_P (cow_entry e cp) = true /\
  has_flags (cow_entry e cp) vmm_FlagRW = true /\ has_flags (cow_entry e cp) vmm_FlagCopyOnWrite = false /\
  (forall n, n <> 0 -> n <> 1 -> n <> 9 -> (n < 12 \/ 52 <= n) -> N.testbit (cow_entry e cp) n = N.testbit e n).
Proof.
  intros Hcp. unfold cow_entry.
  split; [apply set_frame_frame; exact Hcp|].
  assert (Hlow: forall n, n < 12 -> N.testbit (set_frame (set_flags (clear_flags e vmm_FlagCopyOnWrite) P_RW) cp) n =
                                     N.testbit (N.lor (N.ldiff e 512) 3) n).
  { intros n Hn. rewrite set_frame_bit_low by exact Hn. reflexivity. }
  split; [unfold hw_P; rewrite Hlow by lia; rewrite N.lor_spec; cbn; apply orb_true_r|].
  split.
  { unfold has_flags. rewrite flag_rw_val. apply N.eqb_eq. apply N.bits_inj. intros n. rewrite N.land_spec.
    destruct (N.eq_dec n 1) as [->|Hn].
    - rewrite Hlow by lia. rewrite N.lor_spec. cbn. rewrite orb_true_r. reflexivity.
    - change 2 with (2 ^ 1). rewrite N.pow2_bits_false by congruence. apply andb_false_r. }
  split.
  { unfold has_flags. apply N.eqb_neq. intros E. apply (f_equal (fun x => N.testbit x 9)) in E.
    rewrite N.land_spec, Hlow in E by lia. rewrite N.lor_spec, N.ldiff_spec in E. cbn in E.
    rewrite andb_false_r in E. cbn in E. discriminate. }
  intros n H0 H1 H9 Hr.
  destruct Hr as [Hr|Hr].
  - rewrite Hlow by exact Hr. rewrite N.lor_spec, N.ldiff_spec.
    change 512 with (2 ^ 9). rewrite N.pow2_bits_false by congruence.
    replace (N.testbit 3 n) with false; [cbn; rewrite andb_true_r; apply orb_false_r|].
    symmetry. change 3 with (N.ones 2). apply N.ones_spec_high. lia.
  - unfold set_frame, andnot. rewrite N.lor_spec, N.ldiff_spec, mask_bit.
    replace (n <? 52) with false by (symmetry; apply N.ltb_ge; exact Hr). rewrite andb_false_r. cbn [negb]. rewrite andb_true_r.
    assert (Hfa: N.testbit (frame_addr cp) n = false).
    { rewrite frame_addr_small by (change (2 ^ 40) with 1099511627776 in Hcp; change (2 ^ 52) with 4503599627370496; lia).
      rewrite N.shiftl_spec_high' by lia. apply N.bits_above_log2.
      destruct (N.eq_dec cp 0) as [->|Hz]; [cbn; lia|].
      apply N.log2_lt_pow2; [lia|]. eapply N.lt_le_trans; [exact Hcp|]. apply N.pow_le_mono_r; lia. }
    rewrite Hfa, orb_false_r. unfold set_flags, clear_flags, andnot. rewrite N.lor_spec, N.ldiff_spec.
    rewrite P_RW_val. change vmm_FlagCopyOnWrite with (2 ^ 9). rewrite N.pow2_bits_false by lia.
    replace (N.testbit 3 n) with false; [cbn; rewrite andb_true_r; apply orb_false_r|].
    symmetry. change 3 with (N.ones 2). apply N.ones_spec_high. lia.
Qed.

Theorem cow_ok s A own addr e s1 cp s2 pg :
  Inv s A A own ->
  let page := page_from_addr addr in
  hw_idx page 0 <> 511 -> ~ same_page page temp_page ->
  cow_pre s A page = Some e ->
  (* the page shows a data frame: simulated RAM that is neither a page table nor about to be allocated *)
  backed s (hw_frame e) = true -> own (hw_frame e) = None -> ~ In (hw_frame e) (orc s) ->
  alloc s = (s1, Some cp) -> map_temporary cp s1 = Ok (s2, 0, pg) ->
  exists s5 own',
    page_fault addr s = Ok (s5, 0) /\ Inv s5 A A own' /\ same_env s s5 /\
    (* the page now maps the fresh frame writable, CoW cleared, other flag bits as before *)
    aspace s5 A page = Some (cow_entry e cp) /\
    (* whose contents are what the page showed *)
    (forall i, ent s5 cp i = ent s (hw_frame e) i) /\
    (* every other page translates as before, the temporary page is unmapped again *)
    (forall q, hw_idx q 0 <> 511 -> ~ same_page q page -> ~ same_page q temp_page -> translation s5 A q = translation s A q) /\
    translation s5 A temp_page = None /\
    (* frames that are not page tables -- the shared frame, the zero frame, every other data frame -- are untouched *)
    (forall f i, own' f = None -> f <> cp -> ent s5 f i = ent s f i) /\ own' cp = None /\
    flog s5 = frame_addr page :: vmm_tempMappingAddr :: vmm_tempMappingAddr :: flog s /\
    (exists n, orc s5 = skipn n (orc s)) /\
    (forall f, own' f = own f \/ (own f = None /\ In f (orc s) /\ f <> 0)).
Proof.
  intros HI page H511 Hnt Hpre Hbsrc Hosrc Hnsrc Hal Hmt.
  pose proof (inv_wf _ _ _ _ HI) as W.
  (* 0. the precondition *)
  unfold cow_pre in Hpre.
  destruct (aspace s A page) as [e'|] eqn:Ea; [|discriminate].
  destruct (hw_P e') eqn:HP; cbn [andb] in Hpre; [|discriminate].
  destruct (negb (has_flags e' vmm_FlagRW) && has_flags e' vmm_FlagCopyOnWrite) eqn:Hc; [|discriminate].
  injection Hpre as Ee. subst e'.
  destruct (mmu_aspace s A A own page e HI eq_refl H511 Ea HP Hbsrc) as (_ & l & Hfl & Hel & Hol).
  set (i3 := hw_idx page 3) in *. set (p3 := firstn 3 (ixs page)) in *.
  (* 1. the walk *)
  assert (Hw: fault_walk go_levels 0 vmm_pdtVirtualAddr (frame_addr page) s None = Ok (Some (l, i3))).
  { rewrite (fault_walk_spec A A page (frame_addr page) (frame_addr_idx page) s own HI H511).
    rewrite (dloc_aspace s A own page HI H511), Ea, HP. fold p3. rewrite Hfl. reflexivity. }
  (* 2. the allocation *)
  unfold alloc in Hal. destruct (orc s) as [|x r] eqn:Eo; [discriminate|].
  destruct (N.eqb_spec x 0) as [|Hx0]; cbn iota in Hal; [inversion Hal|]. injection Hal as Es1 Ecp. subst x.
  assert (HI1: Inv s1 A A own) by (rewrite <- Es1; eapply Inv_pop; eassumption).
  assert (He1: forall f i, ent s1 f i = ent s f i) by (intros; rewrite <- Es1; reflexivity).
  destruct (inv_fresh _ _ _ _ HI) as [F1 F2].
  destruct (F2 cp) as (Hbcp & Hocp & HcpA); [rewrite Eo; left; reflexivity | exact Hx0 |].
  assert (Hcp40: cp < 2 ^ 40) by (eapply backed_lt40; [exact (wf_arena _ _ _ W) | exact Hbcp]).
  assert (Hcpr: ~ In cp r).
  { rewrite Eo, ofr_cons in F1. destruct (N.eqb_spec cp 0); [congruence|]. inversion F1 as [|? ? Hnin _]; subst.
    intros Hin. apply Hnin. apply in_ofr. split; assumption. }
  assert (Horc1: orc s1 = r) by (rewrite <- Es1; reflexivity).
  (* 3. the temporary mapping *)
  unfold map_temporary in Hmt.
  destruct (prot s1 && (cp =? zf s1)) eqn:Hg; [discriminate|].
  destruct (map_page temp_page cp P_RW s1) as [[s2' err]|] eqn:Hmp; [|discriminate].
  destruct (N.eqb_spec err 0) as [->|Hne]; [|exfalso; injection Hmt; intros; congruence]. injection Hmt as E2 Epg. subst s2' pg.
  assert (Hzg: zero_guard s1 cp P_RW = false).
  { unfold zero_guard. rewrite Hg. reflexivity. }
  destruct (map_ok s1 A A own temp_page cp P_RW HI1 temp_idx0 Hzg) as
      (s2' & err' & own2 & Hr & HI2 & Henv2 & _ & Hok & _ & Hfr2 & _ & (n2 & Hn2 & Hown2) & Qoff & Qpres & _).
  rewrite Hmp in Hr. injection Hr as E2 Ee'. subst s2' err'.
  destruct (Hok eq_refl) as (Hat2 & Htr2 & Hfl2).
  pose proof (inv_wf _ _ _ _ HI2) as W2.
  assert (Hbk2: forall f, backed s2 f = backed s f).
  { intros f. rewrite (same_env_backed s1 s2 f Henv2). rewrite <- Es1. reflexivity. }
  assert (Hown2_none: forall f, own f = None -> ~ In f r -> own2 f = None).
  { intros f Hf Hnin. destruct (Hown2 f) as [E | (_ & Hin & _)]; [rewrite E; exact Hf|].
    exfalso. apply Hnin. rewrite Horc1 in Hin. eapply in_firstn; exact Hin. }
  assert (Ho2cp: own2 cp = None) by (apply Hown2_none; assumption).
  assert (Ho2src: own2 (hw_frame e) = None).
  { apply Hown2_none; [exact Hosrc|]. intros Hin. apply Hnsrc. right. exact Hin. }
  assert (Hext2: forall f p, own f = Some p -> own2 f = Some p).
  { intros f p Hp. destruct (Hown2 f) as [E | (E & _)]; [rewrite E; exact Hp | rewrite Hp in E; discriminate]. }
  (* 4. the faulting page's leaf entry is where it was *)
  assert (Hlt3: Forall (fun x => x < 512) p3) by (apply firstn3_lt).
  assert (Hhd3: hd 0 ([] ++ p3) <> 511) by exact H511.
  assert (Hfl2': follow s2 A p3 = Some l).
  { destruct Henv2 as (E1 & E2 & _).
    apply (follow_mono s1 s2 A own A [] p3 l (inv_wf _ _ _ _ HI1) (wf_root _ _ _ W) E1 E2); try assumption.
    - cbn. lia.
    - rewrite <- Es1. exact Hfl. }
  assert (Hel2: ent s2 l i3 = e).
  { rewrite (Qoff l p3 i3 Hol), He1; [exact Hel|].
    unfold p3, i3. rewrite <- ixs_split. intros E. apply Hnt. exact E. }
  assert (Ea2: aspace s2 A page = Some e).
  { destruct (aspace_of_follow s2 A own2 page l W2 Hfl2' H511) as [E _]. rewrite E. fold i3. rewrite Hel2. reflexivity. }
  (* 6. the copy *)
  assert (Hsrc: resolve_page s2 (frame_addr page) = Some (hw_frame e)).
  { rewrite resolve_page_mmu.
    destruct (mmu_aspace s2 A A own2 page e HI2 eq_refl H511 Ea2 HP) as [M _]; [rewrite Hbk2; exact Hbsrc | exact M]. }
  set (tleaf := set_flags (set_frame 0 cp) P_RW) in *.
  destruct (link_entry cp Hcp40) as (LP & LPS & LF). fold tleaf in LP, LPS, LF.
  assert (Hdst: resolve_page s2 (frame_addr temp_page) = Some cp).
  { rewrite resolve_page_mmu.
    destruct (mmu_aspace s2 A A own2 temp_page tleaf HI2 eq_refl temp_idx0 Hat2 LP) as [M _]; [rewrite LF, Hbk2; exact Hbcp|].
    rewrite LF in M. exact M. }
  set (s3 := set_mem s2 (cpy (mem s2) (hw_frame e) cp)).
  assert (He3: forall f i, ent s3 f i = if f =? cp then ent s2 (hw_frame e) i else ent s2 f i).
  { intros. unfold s3, ent. cbn [mem set_mem]. apply rd_cpy. }
  assert (Hn3: forall f, f <> cp -> forall i, ent s3 f i = ent s2 f i).
  { intros f Hf i. rewrite He3. destruct (N.eqb_spec f cp); [congruence|reflexivity]. }
  assert (HI3: Inv s3 A A own2).
  { apply (Inv_ent_eq s2 s3 A A own2 HI2); try reflexivity.
    intros f i [-> | [-> | (p & Hop & _)]]; apply Hn3; congruence. }
  pose proof (inv_wf _ _ _ _ HI3) as W3.
  (* 8. unmapping the temporary page *)
  destruct (unmap_ok s3 A A own2 temp_page HI3 temp_idx0) as (s4 & err4 & Hr4 & Herr4 & HI4 & Henv4 & Horc4 & Hinv4 & Hok4).
  assert (Hat3: aspace s3 A temp_page = Some tleaf).
  { rewrite <- Hat2. apply (aspace_ent_eq s2 s3 A own2 temp_page W2); try reflexivity; [|exact temp_idx0].
    intros f p i Hp. apply Hn3. intros E. rewrite E, Ho2cp in Hp. discriminate. }
  assert (E4: err4 = 0).
  { destruct Herr4 as [E|E]; [exact E|]. destruct (Hinv4 E) as [_ Hnone]. rewrite Hat3 in Hnone. discriminate. }
  subst err4. destruct (Hok4 eq_refl) as (et & Hat3' & Hat4 & Htr4 & Hoth4 & Hfl4 & Hfr4 & Uoff).
  pose proof (inv_wf _ _ _ _ HI4) as W4.
  (* 9. the faulting page's leaf entry is still where it was *)
  assert (Hlen3: (length (@nil N) + length p3 <= 3)%nat) by (cbn; lia).
  assert (Hfl3': follow s3 A p3 = Some l).
  { apply (follow_mono s2 s3 A own2 A [] p3 l W2 (wf_root _ _ _ W2) eq_refl eq_refl); try assumption.
    intros f q i Hq _ _. apply Hn3. intros E. rewrite E, Ho2cp in Hq. discriminate. }
  assert (Hfl4': follow s4 A p3 = Some l).
  { destruct Henv4 as (E1 & E2 & _).
    apply (follow_mono s3 s4 A own2 A [] p3 l W3 (wf_root _ _ _ W3) E1 E2); try assumption.
    intros f q i Hq Hlq _. apply (Uoff f q i Hq). intros E. apply (f_equal (@length N)) in E.
    rewrite app_length, ixs_length in E. cbn [length] in E. lia. }
  assert (Hlcp: l <> cp) by (intros E; rewrite E, Hocp in Hol; discriminate).
  assert (Hel4: ent s4 l i3 = e).
  { rewrite (Uoff l p3 i3 (Hext2 l p3 Hol)).
    - rewrite Hn3 by exact Hlcp. exact Hel2.
    - unfold p3, i3. rewrite <- ixs_split. intros E. apply Hnt. exact E. }
  (* 10. retargeting the entry *)
  destruct (leaf_write s4 A A own2 l p3 i3 (cow_entry e cp) (frame_addr page) HI4 Hfl4' eq_refl Hlt3 H511)
    as (L1 & L2 & L3 & L4 & L5 & L6 & L7 & L8 & L9).
  set (s5 := flush (wr_st s4 l i3 (cow_entry e cp)) (frame_addr page)) in *.
  assert (Hrun: page_fault addr s = Ok (s5, 0)).
  { unfold page_fault. fold page. rewrite Hw. rewrite <- Hel in Hc. unfold ent in Hc. rewrite Hc.
    unfold alloc. rewrite Eo. destruct (N.eqb_spec cp 0); [congruence|]. rewrite Es1.
    unfold map_temporary. rewrite Hg, Hmp. cbn [N.eqb negb].
    rewrite Hsrc, Hdst. fold s3. rewrite Hr4.
    fold (ent s4 l i3). rewrite Hel4. reflexivity. }
  exists s5, own2. split; [exact Hrun|]. split; [exact L1|].
  split.
  { eapply same_env_trans; [|exact L2]. eapply same_env_trans; [|exact Henv4].
    eapply same_env_trans; [|eapply same_env_trans; [exact Henv2|]]; [rewrite <- Es1 | unfold s3]; repeat split. }
  split; [unfold aspace; rewrite ixs_split; exact L8|].
  split.
  { intros i. rewrite L5 by (left; congruence). rewrite Hfr4 by exact Ho2cp.
    rewrite He3, N.eqb_refl. rewrite Hfr2 by exact Ho2src. apply He1. }
  split.
  { intros q Hq Hnp Hntq.
    assert (E54: aspace s5 A q = aspace s4 A q).
    { unfold aspace. rewrite (ixs_split q). apply L9; try reflexivity; [apply firstn3_lt | exact Hq |].
      rewrite <- !ixs_split. exact Hnp. }
    assert (E43: aspace s4 A q = aspace s3 A q) by (apply Hoth4; assumption).
    assert (E32: aspace s3 A q = aspace s2 A q).
    { apply (aspace_ent_eq s2 s3 A own2 q W2); try reflexivity; [|exact Hq].
      intros f p i Hp. apply Hn3. intros E. rewrite E, Ho2cp in Hp. discriminate. }
    unfold translation. rewrite E54, E43, E32. fold (translation s2 A q). rewrite (Htr2 q Hq Hntq).
    unfold translation, aspace. rewrite (look_ext s s1) by (try (rewrite <- Es1; reflexivity); exact He1). reflexivity. }
  split.
  { assert (E54: aspace s5 A temp_page = aspace s4 A temp_page).
    { unfold aspace. rewrite (ixs_split temp_page). apply L9; try reflexivity; [apply firstn3_lt | exact temp_idx0 |].
      rewrite <- !ixs_split. intros E. apply Hnt. symmetry. exact E. }
    unfold translation. rewrite E54. exact Htr4. }
  split.
  { intros f i Hf Hfc.
    assert (Hfl': f <> l) by (intros E; rewrite E, L7 in Hf; discriminate).
    rewrite L5 by (left; exact Hfl'). rewrite Hfr4 by exact Hf. rewrite Hn3 by exact Hfc. rewrite Hfr2 by exact Hf. apply He1. }
  split; [exact Ho2cp|].
  split.
  { rewrite L4, Hfl4. change (flog s3) with (flog s2). rewrite Hfl2. rewrite <- Es1. reflexivity. }
  split.
  { exists (S n2). rewrite L3, Horc4. change (orc s3) with (orc s2). rewrite Hn2, Horc1. reflexivity. }
  intros f. destruct (Hown2 f) as [E | (E1 & E2 & E3)]; [left; exact E | right].
  split; [exact E1|]. split; [|exact E3]. right. rewrite Horc1 in E2. eapply in_firstn; exact E2.
Qed.
