(** C04: MapRegion / IdentityMapRegion on the active address space. *)
From Coq Require Import NArith ZArith Lia List Bool.
From Coq Require Import ZifyBool ZifyN ZifyNat.
From FF Require Import Lib.Word Gen.Consts_mm_vmm Vmm.Region Vmm.RegionProofs Vmm.Pt Vmm.PtMem Vmm.PtArith Vmm.PtTree Vmm.PtMap Vmm.PtOps
     Vmm.PtTheorems Vmm.PtHist Vmm.PtKernel.
Import ListNotations.
Local Open Scope N_scope.
Ltac Zify.zify_post_hook ::= Z.div_mod_to_equations.

(** the active address space [A] refines the abstract map [m]; the zero-frame guard is not armed *)
Record Hst (s : st) (A : N) (own : ownmap) (m : amap) : Prop := {
  h_inv : Inv s A A own;
  h_prot : prot s = false;
  h_ref : refines s A m
}.

Lemma hstep s A own m page frame flags :
  Hst s A own m -> hw_idx page 0 <> 511 -> frame < 2 ^ 40 -> flags_ok flags ->
  exists s' err own',
    map_page page frame flags s = Ok (s', err) /\ (err = 0 \/ err = E_ALLOC) /\ same_env s s' /\
    Hst s' A own' (if err =? 0 then aupd m (ixs page) (Some (frame, flags)) else m) /\
    (err = 0 -> In (frame_addr page) (flog s')).
Proof.
  intros [HI Hp Href] H511 Hf [Hfl HP].
  assert (Hg: zero_guard s frame flags = false) by (unfold zero_guard; rewrite Hp; reflexivity).
  destruct (map_ok s A A own page frame flags HI H511 Hg) as (s' & err & own' & Hrun & HI' & Henv & Herr & Hok & Hfail & _).
  exists s', err, own'. split; [exact Hrun|]. split; [exact Herr|]. split; [exact Henv|].
  split.
  - split; [exact HI'| destruct Henv as (_ & _ & _ & _ & _ & _ & Ep & _); rewrite Ep; exact Hp |].
    intros q Hq. destruct (N.eqb_spec err 0) as [E0|E0].
    + destruct (Hok E0) as (Ha & Hoth & _). unfold aupd.
      destruct (list_eq_dec N.eq_dec (ixs q) (ixs page)) as [Es|Hne].
      * unfold translation, aspace. rewrite Es. unfold aspace in Ha. rewrite Ha.
        destruct (leaf_exact frame flags Hf Hfl) as (_ & L2 & L3 & L4). rewrite L2, L3, L4, HP. reflexivity.
      * rewrite (Hoth q Hq Hne). apply Href. exact Hq.
    + destruct (Hfail E0) as (Hoth & _). rewrite (Hoth q Hq). apply Href. exact Hq.
  - intros E0. destruct (Hok E0) as (_ & _ & Hfl'). rewrite Hfl'. left. reflexivity.
Qed.

(** the page loop shared by MapRegion and IdentityMapRegion: the first [j] pages get mapped, [j = n] on
    success; no page outside the requested range changes *)
Lemma active_loop A flags : forall n s own m p0 f0,
  Hst s A own m -> flags_ok flags ->
  (forall j, (j < n)%nat -> hw_idx (p0 + N.of_nat j) 0 <> 511) ->
  p0 + N.of_nat n <= 2 ^ 52 -> f0 + N.of_nat n <= 2 ^ 40 ->
  (exists s' own', iter_nat (map_step (fun p f => map_page p f flags)) n (s, p0, f0) = inl (s', p0 + N.of_nat n, f0 + N.of_nat n) /\
                   Hst s' A own' (mrange m p0 f0 flags n) /\ same_env s s') \/
  (exists s' own' j, iter_nat (map_step (fun p f => map_page p f flags)) n (s, p0, f0) = inr (Some (s', E_ALLOC)) /\
                     (j < n)%nat /\ Hst s' A own' (mrange m p0 f0 flags j) /\ same_env s s').
Proof.
  induction n as [|n IH]; intros s own m p0 f0 HH Hfl H511 Hp Hf.
  - left. exists s, own. cbn [iter_nat mrange N.of_nat]. rewrite !N.add_0_r. split; [reflexivity|]. split; [exact HH | apply same_env_refl].
  - cbn [iter_nat map_step].
    assert (H0: hw_idx p0 0 <> 511) by (specialize (H511 0%nat ltac:(lia)); rewrite N.add_0_r in H511; exact H511).
    destruct (hstep s A own m p0 f0 flags HH H0 ltac:(lia) Hfl) as (s1 & err & own1 & Hrun & Herr & Henv & HH1 & _).
    rewrite Hrun.
    destruct (N.eqb_spec err 0) as [E0|E0].
    + assert (Ew1: w64 (p0 + 1) = p0 + 1) by (apply w64_small; unfold two64; change (2 ^ 52) with 4503599627370496 in Hp; lia).
      assert (Ew2: w64 (f0 + 1) = f0 + 1) by (apply w64_small; unfold two64; change (2 ^ 40) with 1099511627776 in Hf; lia).
      rewrite Ew1, Ew2.
      destruct (IH s1 own1 _ (p0 + 1) (f0 + 1) HH1 Hfl) as [(s' & own' & Hr & HH' & He') | (s' & own' & j & Hr & Hj & HH' & He')].
      * intros j Hj. replace (p0 + 1 + N.of_nat j) with (p0 + N.of_nat (S j)) by lia. apply H511. lia.
      * lia.
      * lia.
      * left. exists s', own'. rewrite Hr. replace (p0 + 1 + N.of_nat n) with (p0 + N.of_nat (S n)) by lia.
        replace (f0 + 1 + N.of_nat n) with (f0 + N.of_nat (S n)) by lia.
        split; [reflexivity|]. split; [exact HH' | eapply same_env_trans; eassumption].
      * right. exists s', own', (S j). rewrite Hr. split; [reflexivity|]. split; [lia|]. split; [exact HH' | eapply same_env_trans; eassumption].
    + right. destruct Herr as [E|E]; [congruence|]. subst err. exists s1, own1, 0%nat. split; [reflexivity|]. split; [lia|].
      split; [exact HH1 | exact Henv].
Qed.

(** MapRegion: reserves [ceil(size/4096)] pages below the cursor and maps them, consecutively, onto
    the frames from [frame]; a size that does not fit reserves and maps nothing.  On allocator failure
    some prefix of the pages is mapped and no page outside the region changes. *)
Theorem map_region_ok s A own m frame size flags :
  Hst s A own m -> flags_ok flags -> size < two64 -> WFstart (last s) ->
  match reserve_spec (last s) size with
  | None => map_region frame size flags s = Ok (s, E_NOSPACE, 0)
  | Some (a, len) =>
      let start := a / 4096 in let n := N.to_nat (ceil_pages size) in
      (forall j, (j < n)%nat -> hw_idx (start + N.of_nat j) 0 <> 511) -> frame + N.of_nat n <= 2 ^ 40 ->
      exists s' err page own' j,
        map_region frame size flags s = Ok (s', err, page) /\ last s' = a /\ (j <= n)%nat /\
        Hst s' A own' (mrange m start frame flags j) /\
        ((err = 0 /\ j = n /\ page = start) \/ (err = E_ALLOC /\ (j < n)%nat /\ page = 0))
  end.
Proof.
  intros HH Hfl Hs HW.
  pose proof (map_region_ok (last s) frame size flags Hs HW) as Hspec.
  destruct HW as [Hm Hl].
  unfold Pt.map_region.
  destruct (reserve_spec (last s) size) as [[a len]|] eqn:Ers.
  - destruct Hspec as (Hreg & Ha & Hlen).
    cbv beta iota zeta. intros H511 Hf. set (start := a / 4096) in *. set (n := N.to_nat (ceil_pages size)) in *.
    unfold Region.map_region in Hreg.
    destruct (round_up size <? size) eqn:Eru; [discriminate|].
    destruct (early_reserve (last s) (round_up size)) as [l' [st0|]] eqn:Eer.
    2:{ discriminate. }
    assert (Hl': l' = a /\ page_of_addr st0 = a / 4096 /\ N.shiftr (round_up size) PageShift = ceil_pages size).
    { destruct (map_loop (page_of_addr st0) frame flags (N.shiftr (round_up size) PageShift) None) as [calls ok] eqn:Eml.
      injection Hreg as E1 E2 E3. split; [exact E1|].
      unfold map_loop in Eml. injection Eml as Ec Eok. subst ok.
      injection E3 as E3. split; [exact E3|].
      (* the number of calls *)
      apply (f_equal (@length _)) in E2. unfold consecutive in E2. rewrite <- Ec in E2. rewrite !map_length, !seq_length in E2.
      apply N2Nat.inj. exact E2. }
    destruct Hl' as (El & Ep & Ec).
    assert (Epf: page_from_addr st0 = a / 4096).
    { rewrite <- Ep. unfold page_from_addr, page_of_addr, PageSize, PageShift. reflexivity. }
    change mm_PageShift with PageShift. rewrite Ec, Epf. fold start.
    rewrite iter_n_nat. fold n.
    assert (HH0: Hst (set_last s l') A own m).
    { destruct HH as [HI Hp Href]. split; [apply (Inv_ent_eq s _ A A own HI); reflexivity | exact Hp | exact Href]. }
    assert (Hp52: start + N.of_nat n <= 2 ^ 52).
    { unfold start, n. rewrite N2Nat.id. pose proof temp_lt as Ht. unfold reserve_spec in Ers.
      destruct (ceil_pages size * 4096 <=? last s) eqn:El2; [|discriminate]. injection Ers as Ea _.
      apply N.leb_le in El2. unfold two64, vmm_tempMappingAddr in *. change (2 ^ 52) with 4503599627370496. lia. }
    destruct (active_loop A flags n (set_last s l') own m start frame HH0 Hfl H511 Hp52 Hf) as
        [(s' & own' & Hr & HH' & He') | (s' & own' & j & Hr & Hj & HH' & He')].
    + rewrite Hr. exists s', 0, start, own', n. split; [reflexivity|].
      split; [destruct He' as (_ & _ & _ & _ & E5 & _); rewrite E5; exact El|].
      split; [lia|]. split; [exact HH'|]. left. repeat split.
    + rewrite Hr. exists s', E_ALLOC, 0, own', j. split; [reflexivity|].
      split; [destruct He' as (_ & _ & _ & _ & E5 & _); rewrite E5; exact El|].
      split; [lia|]. split; [exact HH'|]. right. repeat split. exact Hj.
  - unfold Region.map_region in Hspec.
    destruct (round_up size <? size) eqn:Eru; [reflexivity|].
    destruct (early_reserve (last s) (round_up size)) as [l' [st0|]] eqn:Eer; [|reflexivity].
    rewrite map_loop_ok in Hspec. discriminate.
Qed.

(** IdentityMapRegion: pages [frame .. frame+ceil(size/4096)) onto the frames of the same number *)
Theorem identity_map_region_ok s A own m frame size flags :
  Hst s A own m -> flags_ok flags -> size + 4095 < two64 ->
  let n := N.to_nat (ceil_pages size) in
  (forall j, (j < n)%nat -> hw_idx (frame + N.of_nat j) 0 <> 511) -> frame + N.of_nat n <= 2 ^ 40 ->
  exists s' err page own' j,
    identity_map_region frame size flags s = Ok (s', err, page) /\ last s' = last s /\ (j <= n)%nat /\
    Hst s' A own' (mrange m frame frame flags j) /\
    ((err = 0 /\ j = n /\ page = frame) \/ (err = E_ALLOC /\ (j < n)%nat /\ page = 0)).
Proof.
  intros HH Hfl Hs n H511 Hf.
  assert (Hs': size < two64) by lia.
  unfold identity_map_region. rewrite round_up_ltb by exact Hs'.
  destruct (N.leb_spec two64 (size + 4095)) as [H|_]; [lia|].
  assert (Ec: N.shiftr (round_up size) mm_PageShift = ceil_pages size).
  { rewrite page_shift_val, N.shiftr_div_pow2. change (2 ^ 12) with 4096. rewrite (round_up_nowrap size Hs).
    apply N.div_mul. discriminate. }
  rewrite Ec.
  assert (Hcnt: N.of_nat n = ceil_pages size) by (unfold n; apply N2Nat.id).
  assert (Ew: w64 (frame + ceil_pages size) = frame + ceil_pages size).
  { apply w64_small. unfold two64. change (2 ^ 40) with 1099511627776 in Hf. lia. }
  rewrite Ew.
  assert (En: (if frame <? frame + ceil_pages size then frame + ceil_pages size - frame else 0) = ceil_pages size).
  { destruct (N.ltb_spec frame (frame + ceil_pages size)); lia. }
  rewrite En, iter_n_nat. fold n.
  assert (Hp52: frame + N.of_nat n <= 2 ^ 52) by (change (2 ^ 40) with 1099511627776 in Hf; change (2 ^ 52) with 4503599627370496; lia).
  destruct (active_loop A flags n s own m frame frame HH Hfl H511 Hp52 Hf) as
      [(s' & own' & Hr & HH' & He') | (s' & own' & j & Hr & Hj & HH' & He')].
  - rewrite Hr. exists s', 0, frame, own', n. split; [reflexivity|].
    split; [destruct He' as (_ & _ & _ & _ & E5 & _); exact E5|]. split; [lia|]. split; [exact HH'|]. left. repeat split.
  - rewrite Hr. exists s', E_ALLOC, 0, own', j. split; [reflexivity|].
    split; [destruct He' as (_ & _ & _ & _ & E5 & _); exact E5|]. split; [lia|]. split; [exact HH'|]. right. repeat split. exact Hj.
Qed.

(** what [mrange] says page by page *)
Theorem mrange_pages m p0 f0 flags n :
  N.of_nat n <= 2 ^ 36 ->
  (forall j, (j < n)%nat -> mrange m p0 f0 flags n (ixs (p0 + N.of_nat j)) = Some (f0 + N.of_nat j, flags)) /\
  (forall k, (forall j, (j < n)%nat -> ixs (p0 + N.of_nat j) <> k) -> mrange m p0 f0 flags n k = m k).
Proof.
  intros Hn. split.
  - intros j Hj. apply mrange_in; assumption.
  - intros k Hk. apply mrange_out. exact Hk.
Qed.
