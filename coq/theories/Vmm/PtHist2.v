(** C04 [histories_full]: histories over Map / Unmap / Translate / MapTemporary / MapRegion /
    IdentityMapRegion / PageDirectoryTable.{Init, Map, Unmap, Activate} on any number of address spaces,
    with the allocator failing anywhere, refine an abstract machine root -> page -> (frame, flags). *)
From Coq Require Import NArith ZArith Lia List Bool.
From Coq Require Import ZifyBool ZifyN ZifyNat.
From FF Require Import Lib.Word Gen.Consts_mm_vmm Vmm.Region Vmm.RegionProofs Vmm.Pt Vmm.PtMem Vmm.PtArith Vmm.PtTree Vmm.PtMap Vmm.PtOps
     Vmm.PtTheorems Vmm.PtInit Vmm.PtPdt Vmm.PtFault Vmm.PtCow Vmm.PtZero Vmm.PtTemp Vmm.PtHist Vmm.PtKernel.
From FF Require Import Vmm.PtGlobal.
Import ListNotations.
Local Open Scope N_scope.
Ltac Zify.zify_post_hook ::= Z.div_mod_to_equations.

(** * The abstract machine *)
Record ast := mkA {
  am : N -> amap;          (* root frame -> page (its four table indices) -> (frame, flag bits) *)
  aact : N;                (* the active root *)
  atlb : list N;           (* addresses whose TLB entry was invalidated, most recent first *)
  aslot : N -> option N;   (* PageDirectoryTable values held by the client: slot -> initialised root *)
  alast : N;               (* earlyReserveLastUsed *)
  aroots : list N;         (* the address spaces that exist *)
  afree : list N;          (* frames the client may turn into new address spaces *)
  aprot : bool; azf : N;   (* the zero-frame guard: armed?, ReservedZeroedFrame *)
  apool : list N           (* frames that belong to the physical allocator (it hands out only these) *)
}.

Definition set_am (a : ast) (R : N) (m : amap) : ast :=
  mkA (fun R' => if R' =? R then m else am a R') (aact a) (atlb a) (aslot a) (alast a) (aroots a) (afree a) (aprot a) (azf a) (apool a).
Definition set_tlb (a : ast) (l : list N) : ast :=
  mkA (am a) (aact a) l (aslot a) (alast a) (aroots a) (afree a) (aprot a) (azf a) (apool a).
Definition set_alast (a : ast) (l : N) : ast :=
  mkA (am a) (aact a) (atlb a) (aslot a) l (aroots a) (afree a) (aprot a) (azf a) (apool a).
Definition set_aslot (a : ast) (k : N) (r : option N) : ast :=
  mkA (am a) (aact a) (atlb a) (fun k' => if k' =? k then r else aslot a k') (alast a) (aroots a) (afree a) (aprot a) (azf a) (apool a).
Definition set_aact (a : ast) (R : N) : ast :=
  mkA (am a) R (atlb a) (aslot a) (alast a) (aroots a) (afree a) (aprot a) (azf a) (apool a).

(** the concrete state [s] (with ghost ownership [g]) implements the abstract state [a] *)
Record Rel (s : st) (a : ast) (g : gmap) : Prop := {
  r_g : GInv s (aroots a) g;
  r_act : N.shiftr (cr3 s) 12 = aact a;
  r_tr : forall R, In R (aroots a) -> forall q, hw_idx q 0 <> 511 -> translation s R q = am a R (ixs q);
  r_tlb : flog s = atlb a;
  r_last : last s = alast a;
  r_wfl : WFstart (last s);
  r_slot : forall k R, aslot a k = Some R -> pdts s k = R /\ In R (aroots a);
  r_free : forall F, In F (afree a) -> backed s F = true /\ g F = None /\ ~ In F (orc s);
  r_prot : prot s = aprot a;
  r_zf : zf s = azf a;
  r_pool : forall F, In F (orc s) -> F <> 0 -> In F (apool a)
}.

(** the common shape of every operation that works on the tree of one root [T] *)
Lemma rel_update s s' a g T own' n mT' tlb' last' :
  Rel s a g -> In T (aroots a) -> WF s' T own' ->
  lo s' = lo s -> cnt s' = cnt s -> cr3 s' = cr3 s -> orc s' = skipn n (orc s) ->
  (forall k, pdts s' k = pdts s k) -> prot s' = prot s -> zf s' = zf s -> last s' = last' -> WFstart last' ->
  (forall f, own' f = proj g T f \/ (proj g T f = None /\ In f (firstn n (orc s)) /\ f <> 0)) ->
  (forall f i, own' f = None -> ent s' f i = ent s f i) ->
  (forall q, hw_idx q 0 <> 511 -> translation s' T q = mT' (ixs q)) -> flog s' = tlb' ->
  exists g', Rel s' (set_tlb (set_alast (set_am a T mT') last') tlb') g' /\
             (forall F i, In F (afree a) -> ent s' F i = ent s F i).
Proof.
  intros [G Hact Htr Htlb Hlast Hwfl Hslot Hfree Hprot Hzf Hpool] HT W' Hlo Hcnt Hcr Horc Hpd Hpr Hz Hl' Hwl' Hown Hfr HtrT Hfl.
  destruct (ginv_update s s' (aroots a) g T own' n [] G HT W' Hlo Hcnt Hcr Horc Hown) as (G' & PT & PR & Pn).
  { intros f i Ho _. apply Hfr. exact Ho. }
  { intros f []. }
  set (g' := fun f => match own' f with Some p => Some (T, p) | None => g f end) in *.
  assert (HownF: forall F, In F (afree a) -> own' F = None).
  { intros F HF. destruct (Hfree F HF) as (_ & HgF & HnF).
    destruct (Hown F) as [E | (_ & Hin & _)]; [rewrite E; apply proj_none; exact HgF|].
    exfalso. apply HnF. eapply in_firstn; exact Hin. }
  exists g'. split.
  - split; cbn [aroots am aact atlb aslot alast afree aprot azf apool set_tlb set_alast set_am].
    + exact G'.
    + rewrite Hcr. exact Hact.
    + intros R HR q Hq. destruct (N.eqb_spec R T) as [->|Hne]; [apply HtrT; exact Hq|].
      rewrite <- (Htr R HR q Hq). unfold translation.
      rewrite (aspace_ent_eq s s' R (proj g R) q (gi_wf _ _ _ G R HR) Hlo Hcnt); [reflexivity | | exact Hq].
      intros f p i Hp. apply Hfr. apply proj_some in Hp.
      destruct (Hown f) as [E | (_ & Hin & Hz0)].
      * rewrite E. apply (proj_other g T R f p Hp). congruence.
      * destruct (gi_fresh _ _ _ G f (in_firstn f n _ Hin) Hz0) as [_ B]. congruence.
    + exact Hfl.
    + exact Hl'.
    + rewrite Hl'. exact Hwl'.
    + intros k R Hk. rewrite Hpd. exact (Hslot k R Hk).
    + intros F HF. destruct (Hfree F HF) as (B1 & B2 & B3). split; [unfold backed in *; rewrite Hlo, Hcnt; exact B1|].
      split; [apply Pn; [exact B2 | apply HownF; exact HF]|].
      rewrite Horc. intros Hin. apply B3. eapply in_skipn. exact Hin.
    + rewrite Hpr. exact Hprot.
    + rewrite Hz. exact Hzf.
    + intros F HF. rewrite Horc in HF. apply Hpool. eapply in_skipn. exact HF.
  - intros F i HF. apply Hfr. apply HownF. exact HF.
Qed.

(** abstract states are compared field by field, functions pointwise *)
Definition aeq (a1 a2 : ast) : Prop :=
  (forall R k, am a1 R k = am a2 R k) /\ aact a1 = aact a2 /\ atlb a1 = atlb a2 /\ (forall k, aslot a1 k = aslot a2 k) /\
  alast a1 = alast a2 /\ aroots a1 = aroots a2 /\ afree a1 = afree a2 /\ aprot a1 = aprot a2 /\ azf a1 = azf a2 /\ apool a1 = apool a2.

Lemma aeq_refl a : aeq a a.
Proof. repeat split. Qed.

Lemma Rel_aeq s a1 a2 g : aeq a1 a2 -> Rel s a1 g -> Rel s a2 g.
Proof.
  intros (E1 & E2 & E3 & E4 & E5 & E6 & E7 & E8 & E9 & E10) [G Hact Htr Htlb Hlast Hwfl Hslot Hfree Hprot Hzf Hpool].
  split; rewrite <- ?E2, <- ?E3, <- ?E5, <- ?E6, <- ?E7, <- ?E8, <- ?E9, <- ?E10; try assumption.
  - intros R HR q Hq. rewrite <- E1. apply Htr; assumption.
  - intros k R Hk. rewrite <- E4 in Hk. exact (Hslot k R Hk).
Qed.

Definition leafv (f fl : N) : option (N * N) := if N.testbit fl 0 then Some (f, fl) else None.
Definition aguard (a : ast) (f fl : N) : bool := aprot a && (f =? azf a) && wants_rw fl.

Lemma aguard_zero s a g f fl : Rel s a g -> zero_guard s f fl = aguard a f fl.
Proof. intros R. unfold zero_guard, aguard, wants_rw. rewrite (r_prot _ _ _ R), (r_zf _ _ _ R). reflexivity. Qed.

(** translations of a space after one of its pages was (re)mapped *)
Lemma tr_after_map s s' T p f fl (m : amap) :
  aspace s' T p = Some (set_flags (set_frame 0 f) fl) ->
  (forall q, hw_idx q 0 <> 511 -> ~ same_page q p -> translation s' T q = translation s T q) ->
  f < 2 ^ 40 -> N.land fl vmm_ptePhysPageMask = 0 ->
  (forall q, hw_idx q 0 <> 511 -> translation s T q = m (ixs q)) ->
  forall q, hw_idx q 0 <> 511 -> translation s' T q = aupd m (ixs p) (leafv f fl) (ixs q).
Proof.
  intros Ha Hoth Hf Hfl Hm q Hq. unfold aupd.
  destruct (list_eq_dec N.eq_dec (ixs q) (ixs p)) as [Es|Hne].
  - unfold translation, aspace. rewrite Es. unfold aspace in Ha. rewrite Ha.
    destruct (leaf_exact f fl Hf Hfl) as (_ & L2 & L3 & L4). rewrite L2, L3, L4. reflexivity.
  - rewrite (Hoth q Hq Hne). apply Hm. exact Hq.
Qed.

Lemma tr_after_unmap s s' T p (m : amap) :
  translation s' T p = None ->
  (forall q, hw_idx q 0 <> 511 -> ~ same_page q p -> aspace s' T q = aspace s T q) ->
  (forall q, hw_idx q 0 <> 511 -> translation s T q = m (ixs q)) ->
  forall q, hw_idx q 0 <> 511 -> translation s' T q = aupd m (ixs p) None (ixs q).
Proof.
  intros Hn Hoth Hm q Hq. unfold aupd.
  destruct (list_eq_dec N.eq_dec (ixs q) (ixs p)) as [Es|Hne].
  - unfold translation, aspace in *. rewrite Es. exact Hn.
  - unfold translation. rewrite (Hoth q Hq Hne). apply Hm. exact Hq.
Qed.

(** what an abstract Map / Unmap does to the space of root [R] *)
Definition a_map (a : ast) (R p f fl va : N) : ast :=
  set_tlb (set_am a R (aupd (am a R) (ixs p) (leafv f fl))) (va :: atlb a).
Definition a_unmap (a : ast) (R p va : N) : ast :=
  set_tlb (set_am a R (aupd (am a R) (ixs p) None)) (va :: atlb a).

(** * Map on the active space *)
Lemma r_map s a g p f fl :
  Rel s a g -> hw_idx p 0 <> 511 -> f < 2 ^ 40 -> N.land fl vmm_ptePhysPageMask = 0 -> aguard a f fl = false ->
  exists s' err g',
    map_page p f fl s = Ok (s', err) /\
    ((err = 0 /\ Rel s' (a_map a (aact a) p f fl (frame_addr p)) g') \/ (err = E_ALLOC /\ Rel s' a g')) /\
    (forall F i, In F (afree a) -> ent s' F i = ent s F i).
Proof.
  intros HR H511 Hf Hfl Hg.
  pose proof (r_g _ _ _ HR) as G. pose proof (r_act _ _ _ HR) as Hact.
  pose proof (GInv_Inv s _ g G) as HI. rewrite Hact in HI.
  assert (Hzg: zero_guard s f fl = false) by (rewrite (aguard_zero s a g f fl HR); exact Hg).
  assert (HA: In (aact a) (aroots a)) by (rewrite <- Hact; exact (gi_act _ _ _ G)).
  destruct (map_ok s (aact a) (aact a) (proj g (aact a)) p f fl HI H511 Hzg) as
      (s' & err & own' & Hrun & HI' & Henv & Herr & Hok & Hfail & Hfr & _ & (n & Hn & Hown) & _).
  destruct Henv as (E1 & E2 & E3 & E4 & E5 & Ez & Ep & Epd & Ein).
  exists s', err.
  destruct (N.eq_dec err 0) as [E0|E0].
  - destruct (Hok E0) as (Ha & Hoth & Hfl').
    destruct (rel_update s s' a g (aact a) own' n (aupd (am a (aact a)) (ixs p) (leafv f fl)) (frame_addr p :: atlb a) (alast a)
                HR HA (inv_wf _ _ _ _ HI') E1 E2 E3 Hn (fun k0 => f_equal (fun h => h k0) Epd) Ep Ez) as (g' & HR' & Hdata); try assumption.
    + rewrite E5. exact (r_last _ _ _ HR).
    + rewrite <- (r_last _ _ _ HR). exact (r_wfl _ _ _ HR).
    + apply (tr_after_map s s' (aact a) p f fl); try assumption. exact (r_tr _ _ _ HR _ HA).
    + rewrite Hfl', (r_tlb _ _ _ HR). reflexivity.
    + exists g'. split; [exact Hrun|]. split; [|exact Hdata]. left. split; [exact E0|].
      eapply Rel_aeq; [|exact HR']. repeat split.
  - destruct (Hfail E0) as (Hoth & Hfl').
    destruct (rel_update s s' a g (aact a) own' n (am a (aact a)) (atlb a) (alast a)
                HR HA (inv_wf _ _ _ _ HI') E1 E2 E3 Hn (fun k0 => f_equal (fun h => h k0) Epd) Ep Ez) as (g' & HR' & Hdata); try assumption.
    + rewrite E5. exact (r_last _ _ _ HR).
    + rewrite <- (r_last _ _ _ HR). exact (r_wfl _ _ _ HR).
    + intros q Hq. rewrite (Hoth q Hq). exact (r_tr _ _ _ HR _ HA q Hq).
    + rewrite Hfl'. exact (r_tlb _ _ _ HR).
    + exists g'. split; [exact Hrun|]. split; [|exact Hdata]. right. destruct Herr as [E|E]; [congruence|]. split; [exact E|].
      eapply Rel_aeq; [|exact HR']. repeat split. intros R k. cbn. destruct (N.eqb_spec R (aact a)) as [->|]; reflexivity.
Qed.

(** * Unmap on the active space *)
Lemma r_unmap s a g p :
  Rel s a g -> hw_idx p 0 <> 511 ->
  exists s' err g',
    unmap_page p s = Ok (s', err) /\
    ((err = 0 /\ Rel s' (a_unmap a (aact a) p (frame_addr p)) g') \/
     (err = E_INVALID /\ Rel s' a g' /\ am a (aact a) (ixs p) = None)) /\
    (forall F i, In F (afree a) -> ent s' F i = ent s F i).
Proof.
  intros HR H511.
  pose proof (r_g _ _ _ HR) as G. pose proof (r_act _ _ _ HR) as Hact.
  pose proof (GInv_Inv s _ g G) as HI. rewrite Hact in HI.
  assert (HA: In (aact a) (aroots a)) by (rewrite <- Hact; exact (gi_act _ _ _ G)).
  destruct (unmap_ok s (aact a) (aact a) (proj g (aact a)) p HI H511) as (s' & err & Hrun & Herr & HI' & Henv & Horc & Hinv & Hok).
  exists s', err.
  destruct Herr as [E0|E0].
  - destruct (Hok E0) as (e & _ & _ & Htp & Hoth & Hfl' & Hfr & _).
    destruct Henv as (E1 & E2 & E3 & E4 & E5 & Ez & Ep & Epd & Ein).
    destruct (rel_update s s' a g (aact a) (proj g (aact a)) 0%nat (aupd (am a (aact a)) (ixs p) None) (frame_addr p :: atlb a) (alast a)
                HR HA (inv_wf _ _ _ _ HI') E1 E2 E3 Horc (fun k0 => f_equal (fun h => h k0) Epd) Ep Ez) as (g' & HR' & Hdata); try assumption.
    + rewrite E5. exact (r_last _ _ _ HR).
    + rewrite <- (r_last _ _ _ HR). exact (r_wfl _ _ _ HR).
    + intros f. left. reflexivity.
    + apply (tr_after_unmap s s' (aact a) p); try assumption. exact (r_tr _ _ _ HR _ HA).
    + rewrite Hfl', (r_tlb _ _ _ HR). reflexivity.
    + exists g'. split; [exact Hrun|]. split; [|exact Hdata]. left. split; [exact E0|].
      eapply Rel_aeq; [|exact HR']. repeat split.
  - destruct (Hinv E0) as [Es Hnone]. subst s'. exists g. split; [exact Hrun|]. split; [|reflexivity].
    right. split; [exact E0|]. split; [exact HR|].
    rewrite <- (r_tr _ _ _ HR _ HA p H511). unfold translation. rewrite Hnone. reflexivity.
Qed.

(** * Translate *)
Lemma r_translate s a g va :
  Rel s a g -> hw_idx (N.shiftr va 12) 0 <> 511 ->
  translate va s = Ok (atranslate (am a (aact a)) va).
Proof.
  intros HR H511.
  pose proof (r_g _ _ _ HR) as G. pose proof (r_act _ _ _ HR) as Hact.
  pose proof (GInv_Inv s _ g G) as HI. rewrite Hact in HI.
  assert (HA: In (aact a) (aroots a)) by (rewrite <- Hact; exact (gi_act _ _ _ G)).
  rewrite (translate_ok s _ _ _ va HI H511). unfold atranslate. rewrite (r_tr _ _ _ HR _ HA _ H511). reflexivity.
Qed.

(** * PageDirectoryTable.Map / Unmap on a table that is not active *)
Definition a_map_inactive (a : ast) (R p f fl : N) : ast :=
  set_tlb (set_am a R (aupd (am a R) (ixs p) (leafv f fl))) (lea_of (aact a) :: frame_addr p :: lea_of (aact a) :: atlb a).
Definition a_touch_inactive (a : ast) : ast := set_tlb a (lea_of (aact a) :: lea_of (aact a) :: atlb a).
Definition a_unmap_inactive (a : ast) (R p : N) : ast :=
  set_tlb (set_am a R (aupd (am a R) (ixs p) None)) (lea_of (aact a) :: frame_addr p :: lea_of (aact a) :: atlb a).

(** what [with_pdt_inactive] gives, in global terms *)
Lemma with_pdt_frames s A T e (own' : ownmap) s1 s2 s3 :
  s1 = flush (wr_st s A 511 (set_frame e T)) (lea_of A) ->
  s3 = flush (wr_st s2 A 511 e) (lea_of A) -> e = ent s A 511 ->
  (forall f i, own' f = None -> ent s2 f i = ent s1 f i) -> own' A = None ->
  forall f i, own' f = None -> ent s3 f i = ent s f i.
Proof.
  intros E1 E3 Ee Hfr HoA f i Hf. rewrite E3, ent_flush, ent_wr.
  destruct (N.eqb_spec f A) as [->|HfA]; cbn [andb].
  - destruct (N.eqb_spec i 511) as [->|Hi]; [exact Ee|].
    rewrite Hfr by exact Hf. rewrite E1, ent_flush, ent_wr, N.eqb_refl. cbn [andb].
    destruct (N.eqb_spec i 511); [congruence | reflexivity].
  - rewrite Hfr by exact Hf. rewrite E1, ent_flush, ent_wr.
    destruct (N.eqb_spec f A); [congruence | reflexivity].
Qed.

Lemma r_pdt_map_inactive s a g k T p f fl :
  Rel s a g -> aslot a k = Some T -> T <> aact a ->
  hw_idx p 0 <> 511 -> f < 2 ^ 40 -> N.land fl vmm_ptePhysPageMask = 0 ->
  exists s' err g',
    pdt_map k p f fl s = Ok (s', err) /\
    ((err = 0 /\ aguard a f fl = false /\ Rel s' (a_map_inactive a T p f fl) g') \/
     (err = E_ALLOC /\ aguard a f fl = false /\ Rel s' (a_touch_inactive a) g') \/
     (err = E_ZERO_RW /\ aguard a f fl = true /\ Rel s' (a_touch_inactive a) g')) /\
    (forall F i, In F (afree a) -> ent s' F i = ent s F i) /\
    (* the active root table is bit-for-bit what it was *)
    (forall i, ent s' (aact a) i = ent s (aact a) i).
Proof.
  intros HR Hk HTA H511 Hf Hfl.
  pose proof (r_g _ _ _ HR) as G. pose proof (r_act _ _ _ HR) as Hact.
  destruct (r_slot _ _ _ HR k T Hk) as [Hpd HT].
  assert (HA: In (aact a) (aroots a)) by (rewrite <- Hact; exact (gi_act _ _ _ G)).
  pose proof (GInv_Inv2 s _ g T G HT ltac:(rewrite Hact; exact HTA)) as HI2. rewrite Hact in HI2.
  set (A := aact a) in *.
  set (m := am a T).
  set (Q := fun (s1 s2 : st) (err : N) (own' : ownmap) =>
              (err = 0 /\ aguard a f fl = false /\ flog s2 = frame_addr p :: flog s1 /\
               forall q, hw_idx q 0 <> 511 -> (forall q', hw_idx q' 0 <> 511 -> translation s1 T q' = m (ixs q')) ->
                         translation s2 T q = aupd m (ixs p) (leafv f fl) (ixs q)) \/
              ((err = E_ALLOC /\ aguard a f fl = false \/ err = E_ZERO_RW /\ aguard a f fl = true) /\ flog s2 = flog s1 /\
               forall q, hw_idx q 0 <> 511 -> translation s2 T q = translation s1 T q)).
  destruct (with_pdt_inactive s A T (proj g A) (proj g T) k (map_page p f fl) Q HI2 Hpd) as
      (s1 & s2 & s3 & err & own' & Hrun & HQ & Es1 & HTop & Es3 & HtreeA & HaspA & HtreeT & HaspT & Hasp1 & Hfl3 & Hfl1 & HI3).
  { intros s1 HI1 Henv Horc.
    destruct (aguard a f fl) eqn:Hg.
    - exists s1, E_ZERO_RW, (proj g T). split.
      + split; [|split; [exact HI1|]; split; [apply same_env_refl|]; split; [reflexivity|]; exists 0%nat; split; [reflexivity | intros; left; reflexivity]].
        apply map_page_guarded. destruct Henv as (_ & _ & _ & _ & _ & Ez & Ep & _).
        unfold zero_guard. rewrite Ez, Ep. rewrite <- (aguard_zero s a g f fl HR) in Hg. exact Hg.
      + right. split; [right; split; reflexivity|]. split; reflexivity.
    - assert (Hg1: zero_guard s1 f fl = false).
      { destruct Henv as (_ & _ & _ & _ & _ & Ez & Ep & _). unfold zero_guard. rewrite Ez, Ep.
        rewrite <- (aguard_zero s a g f fl HR) in Hg. exact Hg. }
      destruct (map_ok s1 A T (proj g T) p f fl HI1 H511 Hg1) as (s2 & err & own' & Hr & HI & He & Herr & Hok & Hfail & Hfr & _ & Hn & _).
      exists s2, err, own'. split; [split; [exact Hr|]; split; [exact HI|]; split; [exact He|]; split; [exact Hfr | exact Hn]|].
      destruct (N.eq_dec err 0) as [E0|E0].
      + left. destruct (Hok E0) as (Ha & Hoth & Hfl'). split; [exact E0|]. split; [reflexivity|]. split; [exact Hfl'|].
        intros q Hq Hm. apply (tr_after_map s1 s2 T p f fl m Ha Hoth Hf Hfl Hm q Hq).
      + right. destruct (Hfail E0) as (Hoth & Hfl'). destruct Herr as [E|E]; [congruence|].
        split; [left; split; [exact E | reflexivity]|]. split; assumption. }
  destruct HTop as (Hrun2 & HI2' & Henv2 & Hfr2 & (n & Hn & Hown)).
  assert (Hown'A: own' A = None).
  { destruct (i2_disj _ _ _ _ _ HI3 A) as []; [|reflexivity]. rewrite (wf_root _ _ _ (i2_wfA _ _ _ _ _ HI3)). discriminate. }
  pose proof (with_pdt_frames s A T _ own' s1 s2 s3 Es1 Es3 eq_refl Hfr2 Hown'A) as Hfr3.
  assert (Env3: same_env s s3).
  { eapply same_env_trans; [|eapply same_env_trans; [exact Henv2|]]; [rewrite Es1 | rewrite Es3]; repeat split. }
  destruct Env3 as (E1 & E2 & E3 & E4 & E5 & Ez & Ep & Epd & Ein).
  assert (Eo1: orc s1 = orc s) by (rewrite Es1; reflexivity).
  assert (Eo3: orc s3 = skipn n (orc s)) by (rewrite Es3; cbn [orc flush set_flog wr_st set_mem]; rewrite Hn, Eo1; reflexivity).
  rewrite Eo1 in Hown.
  assert (Hm1: forall q', hw_idx q' 0 <> 511 -> translation s1 T q' = m (ixs q')).
  { intros q' Hq'. unfold translation. rewrite (Hasp1 q' Hq'). exact (r_tr _ _ _ HR T HT q' Hq'). }
  assert (Htr32: forall q, hw_idx q 0 <> 511 -> translation s3 T q = translation s2 T q).
  { intros q Hq. unfold translation. rewrite (HaspT q Hq). reflexivity. }
  unfold pdt_map. exists s3, err.
  assert (Hroot: forall i, ent s3 A i = ent s A i) by (intros i; apply Hfr3; exact Hown'A).
  destruct HQ as [(E0 & Hg & Hfl2 & Htr2) | (Hcase & Hfl2 & Htr2)].
  - destruct (rel_update s s3 a g T own' n (aupd m (ixs p) (leafv f fl)) (lea_of A :: frame_addr p :: lea_of A :: atlb a) (alast a)
                HR HT (i2_wfT _ _ _ _ _ HI3) E1 E2 E3 Eo3 (fun k0 => f_equal (fun h => h k0) Epd) Ep Ez) as (g' & HR' & Hdata); try assumption.
    + rewrite E5. exact (r_last _ _ _ HR).
    + rewrite <- (r_last _ _ _ HR). exact (r_wfl _ _ _ HR).
    + intros q Hq. rewrite (Htr32 q Hq). apply Htr2; assumption.
    + rewrite Hfl3, Hfl2, Hfl1, (r_tlb _ _ _ HR). reflexivity.
    + exists g'. split; [exact Hrun|]. split; [|split; [exact Hdata | exact Hroot]]. left. split; [exact E0|]. split; [exact Hg|].
      eapply Rel_aeq; [|exact HR']. repeat split.
  - destruct (rel_update s s3 a g T own' n m (lea_of A :: lea_of A :: atlb a) (alast a)
                HR HT (i2_wfT _ _ _ _ _ HI3) E1 E2 E3 Eo3 (fun k0 => f_equal (fun h => h k0) Epd) Ep Ez) as (g' & HR' & Hdata); try assumption.
    + rewrite E5. exact (r_last _ _ _ HR).
    + rewrite <- (r_last _ _ _ HR). exact (r_wfl _ _ _ HR).
    + intros q Hq. rewrite (Htr32 q Hq), (Htr2 q Hq). apply Hm1. exact Hq.
    + rewrite Hfl3, Hfl2, Hfl1, (r_tlb _ _ _ HR). reflexivity.
    + exists g'. split; [exact Hrun|]. split; [|split; [exact Hdata | exact Hroot]].
      assert (HR'': Rel s3 (a_touch_inactive a) g').
      { eapply Rel_aeq; [|exact HR']. repeat split. intros R kk. cbn. unfold m. destruct (N.eqb_spec R T) as [->|]; reflexivity. }
      right. destruct Hcase as [(E & Hg)|(E & Hg)]; [left | right]; (split; [exact E|]; split; [exact Hg | exact HR'']).
Qed.

Lemma r_pdt_unmap_inactive s a g k T p :
  Rel s a g -> aslot a k = Some T -> T <> aact a -> hw_idx p 0 <> 511 ->
  exists s' err g',
    pdt_unmap k p s = Ok (s', err) /\
    ((err = 0 /\ Rel s' (a_unmap_inactive a T p) g') \/
     (err = E_INVALID /\ am a T (ixs p) = None /\ Rel s' (a_touch_inactive a) g')) /\
    (forall F i, In F (afree a) -> ent s' F i = ent s F i) /\
    (forall i, ent s' (aact a) i = ent s (aact a) i).
Proof.
  intros HR Hk HTA H511.
  pose proof (r_g _ _ _ HR) as G. pose proof (r_act _ _ _ HR) as Hact.
  destruct (r_slot _ _ _ HR k T Hk) as [Hpd HT].
  pose proof (GInv_Inv2 s _ g T G HT ltac:(rewrite Hact; exact HTA)) as HI2. rewrite Hact in HI2.
  set (A := aact a) in *.
  set (m := am a T).
  set (Q := fun (s1 s2 : st) (err : N) (own' : ownmap) =>
              (err = 0 /\ flog s2 = frame_addr p :: flog s1 /\
               forall q, hw_idx q 0 <> 511 -> (forall q', hw_idx q' 0 <> 511 -> translation s1 T q' = m (ixs q')) ->
                         translation s2 T q = aupd m (ixs p) None (ixs q)) \/
              (err = E_INVALID /\ s2 = s1 /\ aspace s1 T p = None)).
  destruct (with_pdt_inactive s A T (proj g A) (proj g T) k (unmap_page p) Q HI2 Hpd) as
      (s1 & s2 & s3 & err & own' & Hrun & HQ & Es1 & HTop & Es3 & HtreeA & HaspA & HtreeT & HaspT & Hasp1 & Hfl3 & Hfl1 & HI3).
  { intros s1 HI1 Henv Horc.
    destruct (unmap_ok s1 A T (proj g T) p HI1 H511) as (s2 & err & Hr & Herr & HI & He & Ho & Hinv & Hok).
    exists s2, err, (proj g T). split.
    - split; [exact Hr|]. split; [exact HI|]. split; [exact He|]. split.
      + intros f i Hn. destruct Herr as [E0|E0].
        * destruct (Hok E0) as (e & _ & _ & _ & _ & _ & Hfr & _). apply Hfr. exact Hn.
        * destruct (Hinv E0) as [Es _]. rewrite Es. reflexivity.
      + exists 0%nat. split; [rewrite Ho; reflexivity|]. intros f. left. reflexivity.
    - destruct Herr as [E0|E0].
      + left. destruct (Hok E0) as (e & _ & _ & Htp & Hoth & Hfl' & _). split; [exact E0|]. split; [exact Hfl'|].
        intros q Hq Hm. apply (tr_after_unmap s1 s2 T p m Htp Hoth Hm q Hq).
      + right. destruct (Hinv E0) as [Es Hn]. repeat split; assumption. }
  destruct HTop as (Hrun2 & HI2' & Henv2 & Hfr2 & (n & Hn & Hown)).
  assert (Hown'A: own' A = None).
  { destruct (i2_disj _ _ _ _ _ HI3 A) as []; [|reflexivity]. rewrite (wf_root _ _ _ (i2_wfA _ _ _ _ _ HI3)). discriminate. }
  pose proof (with_pdt_frames s A T _ own' s1 s2 s3 Es1 Es3 eq_refl Hfr2 Hown'A) as Hfr3.
  assert (Env3: same_env s s3).
  { eapply same_env_trans; [|eapply same_env_trans; [exact Henv2|]]; [rewrite Es1 | rewrite Es3]; repeat split. }
  destruct Env3 as (E1 & E2 & E3 & E4 & E5 & Ez & Ep & Epd & Ein).
  assert (Eo1: orc s1 = orc s) by (rewrite Es1; reflexivity).
  assert (Eo3: orc s3 = skipn n (orc s)) by (rewrite Es3; cbn [orc flush set_flog wr_st set_mem]; rewrite Hn, Eo1; reflexivity).
  rewrite Eo1 in Hown.
  assert (Hm1: forall q', hw_idx q' 0 <> 511 -> translation s1 T q' = m (ixs q')).
  { intros q' Hq'. unfold translation. rewrite (Hasp1 q' Hq'). exact (r_tr _ _ _ HR T HT q' Hq'). }
  assert (Htr32: forall q, hw_idx q 0 <> 511 -> translation s3 T q = translation s2 T q).
  { intros q Hq. unfold translation. rewrite (HaspT q Hq). reflexivity. }
  unfold pdt_unmap. exists s3, err.
  assert (Hroot: forall i, ent s3 A i = ent s A i) by (intros i; apply Hfr3; exact Hown'A).
  destruct HQ as [(E0 & Hfl2 & Htr2) | (E0 & Es2 & Hnone)].
  - destruct (rel_update s s3 a g T own' n (aupd m (ixs p) None) (lea_of A :: frame_addr p :: lea_of A :: atlb a) (alast a)
                HR HT (i2_wfT _ _ _ _ _ HI3) E1 E2 E3 Eo3 (fun k0 => f_equal (fun h => h k0) Epd) Ep Ez) as (g' & HR' & Hdata); try assumption.
    + rewrite E5. exact (r_last _ _ _ HR).
    + rewrite <- (r_last _ _ _ HR). exact (r_wfl _ _ _ HR).
    + intros q Hq. rewrite (Htr32 q Hq). apply Htr2; assumption.
    + rewrite Hfl3, Hfl2, Hfl1, (r_tlb _ _ _ HR). reflexivity.
    + exists g'. split; [exact Hrun|]. split; [|split; [exact Hdata | exact Hroot]]. left. split; [exact E0|].
      eapply Rel_aeq; [|exact HR']. repeat split.
  - destruct (rel_update s s3 a g T own' n m (lea_of A :: lea_of A :: atlb a) (alast a)
                HR HT (i2_wfT _ _ _ _ _ HI3) E1 E2 E3 Eo3 (fun k0 => f_equal (fun h => h k0) Epd) Ep Ez) as (g' & HR' & Hdata); try assumption.
    + rewrite E5. exact (r_last _ _ _ HR).
    + rewrite <- (r_last _ _ _ HR). exact (r_wfl _ _ _ HR).
    + intros q Hq. rewrite (Htr32 q Hq), Es2. apply Hm1. exact Hq.
    + rewrite Hfl3, Es2, Hfl1, (r_tlb _ _ _ HR). reflexivity.
    + exists g'. split; [exact Hrun|]. split; [|split; [exact Hdata | exact Hroot]].
      right. split; [exact E0|]. split.
      * change (am a T (ixs p)) with (m (ixs p)). rewrite <- (Hm1 p H511). unfold translation. rewrite Hnone. reflexivity.
      * eapply Rel_aeq; [|exact HR']. repeat split. intros R kk. cbn. unfold m. destruct (N.eqb_spec R T) as [->|]; reflexivity.
Qed.

(** * Activate *)
Lemma r_activate s a g k T :
  Rel s a g -> aslot a k = Some T ->
  Rel (pdt_activate k s) (set_aact a T) g /\ (forall f i, ent (pdt_activate k s) f i = ent s f i).
Proof.
  intros HR Hk. destruct (r_slot _ _ _ HR k T Hk) as [Hpd HT].
  pose proof (r_g _ _ _ HR) as G.
  pose proof (gi_wf _ _ _ G T HT) as WT.
  destruct (wf_owned _ _ _ WT T [] (wf_root _ _ _ WT)) as (HbT & _).
  assert (HT40: T < 2 ^ 40) by (eapply backed_lt40; [exact (wf_arena _ _ _ WT) | exact HbT]).
  assert (Ecr: N.shiftr (cr3 (pdt_activate k s)) 12 = T).
  { unfold pdt_activate. rewrite Hpd. cbn [cr3 set_slog set_cr3].
    rewrite frame_addr_small by (change (2 ^ 40) with 1099511627776 in HT40; change (2 ^ 52) with 4503599627370496; lia).
    rewrite N.shiftr_shiftl_l by lia. replace (12 - 12) with 0 by lia. apply N.shiftl_0_r. }
  split; [|reflexivity].
  destruct HR as [G0 Hact Htr Htlb Hlast Hwfl Hslot Hfree Hprot Hzf Hpool].
  split; cbn [aroots am aact atlb aslot alast afree aprot azf apool set_aact]; try assumption.
  - destruct G0 as [G1 G2 G3 G4 G5]. split; try assumption.
    + intros R HRr. apply (WF_ent_eq s _ R (proj g R) (G1 R HRr)); reflexivity.
    + rewrite Ecr. exact HT.
Qed.

(** * MapTemporary *)
Lemma P_RW_wants : wants_rw P_RW = true.
Proof. reflexivity. Qed.

Lemma r_map_temp s a g f :
  Rel s a g -> f < 2 ^ 40 ->
  exists s' err pg g',
    map_temporary f s = Ok (s', err, pg) /\
    ((err = E_ZERO_RW /\ pg = 0 /\ aguard a f P_RW = true /\ Rel s' a g') \/
     (err = 0 /\ pg = temp_page /\ aguard a f P_RW = false /\ Rel s' (a_map a (aact a) temp_page f P_RW vmm_tempMappingAddr) g') \/
     (err = E_ALLOC /\ pg = 0 /\ aguard a f P_RW = false /\ Rel s' a g')) /\
    (forall F i, In F (afree a) -> ent s' F i = ent s F i).
Proof.
  intros HR Hf. unfold map_temporary.
  assert (Eg: (prot s && (f =? zf s)) = aguard a f P_RW).
  { unfold aguard. rewrite (r_prot _ _ _ HR), (r_zf _ _ _ HR), P_RW_wants, andb_true_r. reflexivity. }
  rewrite Eg. destruct (aguard a f P_RW) eqn:Hg.
  - exists s, E_ZERO_RW, 0, g. split; [reflexivity|]. split; [|reflexivity]. left. split; [reflexivity|]. split; [reflexivity|]. split; [reflexivity | exact HR].
  - destruct (r_map s a g temp_page f P_RW HR temp_idx0 Hf P_RW_mask Hg) as (s' & err & g' & Hrun & Hcase & Hdata).
    rewrite Hrun. destruct Hcase as [(E0 & HR') | (E0 & HR')]; subst err.
    + exists s', 0, temp_page, g'. split; [reflexivity|]. split; [|exact Hdata]. right. left. split; [reflexivity|]. split; [reflexivity|]. split; [reflexivity | exact HR'].
    + exists s', E_ALLOC, 0, g'. split; [reflexivity|]. split; [|exact Hdata]. right. right. split; [reflexivity|]. split; [reflexivity|]. split; [reflexivity | exact HR'].
Qed.

(** * MapRegion / IdentityMapRegion: [j] consecutive abstract Maps *)
Fixpoint a_range (a : ast) (R p0 f0 fl : N) (j : nat) : ast :=
  match j with
  | O => a
  | S j' => a_range (a_map a R p0 f0 fl (frame_addr p0)) R (p0 + 1) (f0 + 1) fl j'
  end.

Lemma a_range_act a R p0 f0 fl j : aact (a_range a R p0 f0 fl j) = aact a /\ afree (a_range a R p0 f0 fl j) = afree a.
Proof. revert a p0 f0. induction j as [|j IH]; intros a p0 f0; [split; reflexivity|]. cbn [a_range]. rewrite !(proj1 (IH _ _ _)), !(proj2 (IH _ _ _)). split; reflexivity. Qed.

Lemma r_loop fl : forall n s a g p0 f0,
  Rel s a g -> N.land fl vmm_ptePhysPageMask = 0 ->
  (forall j, (j < n)%nat -> hw_idx (p0 + N.of_nat j) 0 <> 511 /\ aguard a (f0 + N.of_nat j) fl = false) ->
  p0 + N.of_nat n <= 2 ^ 52 -> f0 + N.of_nat n <= 2 ^ 40 ->
  exists s' g' j,
    ((j = n /\ iter_nat (map_step (fun p f => map_page p f fl)) n (s, p0, f0) = inl (s', p0 + N.of_nat n, f0 + N.of_nat n)) \/
     ((j < n)%nat /\ iter_nat (map_step (fun p f => map_page p f fl)) n (s, p0, f0) = inr (Some (s', E_ALLOC)))) /\
    Rel s' (a_range a (aact a) p0 f0 fl j) g' /\
    (forall F i, In F (afree a) -> ent s' F i = ent s F i).
Proof.
  induction n as [|n IH]; intros s a g p0 f0 HR Hfl Hdom Hp Hf.
  - exists s, g, 0%nat. cbn [iter_nat a_range N.of_nat]. rewrite !N.add_0_r. split; [left; split; reflexivity|]. split; [exact HR | reflexivity].
  - cbn [iter_nat map_step].
    destruct (Hdom 0%nat ltac:(lia)) as [H0 Hg0]. rewrite N.add_0_r in H0, Hg0.
    destruct (r_map s a g p0 f0 fl HR H0 ltac:(lia) Hfl Hg0) as (s1 & err & g1 & Hrun & Hcase & Hdata).
    rewrite Hrun. destruct Hcase as [(E0 & HR1) | (E0 & HR1)]; subst err.
    + cbn [N.eqb].
      assert (Ew1: w64 (p0 + 1) = p0 + 1) by (apply w64_small; unfold two64; change (2 ^ 52) with 4503599627370496 in Hp; lia).
      assert (Ew2: w64 (f0 + 1) = f0 + 1) by (apply w64_small; unfold two64; change (2 ^ 40) with 1099511627776 in Hf; lia).
      rewrite Ew1, Ew2.
      destruct (IH s1 _ g1 (p0 + 1) (f0 + 1) HR1 Hfl) as (s' & g' & j & Hres & HR' & Hdata').
      * intros j Hj. replace (p0 + 1 + N.of_nat j) with (p0 + N.of_nat (S j)) by lia.
        replace (f0 + 1 + N.of_nat j) with (f0 + N.of_nat (S j)) by lia. exact (Hdom (S j) ltac:(lia)).
      * lia.
      * lia.
      * exists s', g', (S j). split.
        -- destruct Hres as [(Ej & Hr) | (Ej & Hr)]; [left | right]; rewrite Hr; (split; [lia|]).
           ++ replace (p0 + 1 + N.of_nat n) with (p0 + N.of_nat (S n)) by lia.
              replace (f0 + 1 + N.of_nat n) with (f0 + N.of_nat (S n)) by lia. reflexivity.
           ++ reflexivity.
        -- split; [exact HR'|]. intros F i HF. rewrite (Hdata' F i HF). apply Hdata. exact HF.
    + exists s1, g1, 0%nat. split; [right; split; [lia | reflexivity]|]. split; [exact HR1 | exact Hdata].
Qed.

Lemma rel_set_last s a g l :
  Rel s a g -> WFstart l -> Rel (set_last s l) (set_alast a l) g.
Proof.
  intros [G Hact Htr Htlb Hlast Hwfl Hslot Hfree Hprot Hzf Hpool] Hw.
  split; cbn [aroots am aact atlb aslot alast afree aprot azf apool set_alast]; try assumption; try reflexivity.
  - destruct G as [G1 G2 G3 G4 G5]. split; try assumption.
    intros R HR. apply (WF_ent_eq s _ R (proj g R) (G1 R HR)); reflexivity.
Qed.

(** the reservation MapRegion makes, in closed form (C07) *)
Lemma region_reserve l size :
  size < two64 -> WFstart l ->
  match reserve_spec l size with
  | Some (a0, len) =>
      (round_up size <? size) = false /\ early_reserve l (round_up size) = (a0, Some a0) /\
      page_from_addr a0 = a0 / 4096 /\ N.shiftr (round_up size) mm_PageShift = ceil_pages size /\ WFstart a0 /\ a0 + ceil_pages size * 4096 <= vmm_tempMappingAddr
  | None => (round_up size <? size) = true \/ (exists l', early_reserve l (round_up size) = (l', None))
  end.
Proof.
  intros Hs HW. pose proof (RegionProofs.map_region_ok l 0 size 0 Hs HW) as Hspec.
  destruct HW as [Hm Hl]. unfold Region.map_region in Hspec.
  destruct (reserve_spec l size) as [[a0 len]|] eqn:Ers.
  - destruct Hspec as (Hreg & Ha & Hlen).
    destruct (round_up size <? size) eqn:Eru; [discriminate|].
    destruct (early_reserve l (round_up size)) as [l' [st0|]] eqn:Eer; [|discriminate].
    rewrite map_loop_ok in Hreg. injection Hreg as E1 E2 E3.
    assert (Est: st0 = l').
    { unfold early_reserve in Eer. destruct (round_up (round_up size) <? round_up size); [discriminate|].
      destruct (l <? round_up (round_up size)); inversion Eer; reflexivity. }
    subst st0 l'.
    assert (Ec: N.shiftr (round_up size) PageShift = ceil_pages size).
    { apply (f_equal (@length _)) in E2. unfold consecutive in E2. rewrite !map_length, !seq_length in E2. apply N2Nat.inj. exact E2. }
    destruct (reserve_spec_ok l size a0 len Hs Hm Hl Ers) as (Hok & Hsum & Hle).
    split; [reflexivity|]. split; [reflexivity|]. split; [exact E3|]. split; [exact Ec|].
    unfold region_ok in Hok. destruct Hok as (O1 & O2 & O3 & O4 & O5).
    split; [split; [exact O1 | lia]|]. lia.
  - destruct (round_up size <? size) eqn:Eru; [left; reflexivity | right].
    destruct (early_reserve l (round_up size)) as [l' [st0|]] eqn:Eer; [|exists l'; reflexivity].
    rewrite map_loop_ok in Hspec. discriminate.
Qed.

Definition region_dom (a : ast) (start frame fl : N) (n : nat) : Prop :=
  N.land fl vmm_ptePhysPageMask = 0 /\ frame + N.of_nat n <= 2 ^ 40 /\
  forall j, (j < n)%nat -> hw_idx (start + N.of_nat j) 0 <> 511 /\ aguard a (frame + N.of_nat j) fl = false.

Lemma r_map_region s a g frame size fl :
  Rel s a g -> size < two64 ->
  match reserve_spec (alast a) size with
  | None => exists g', Pt.map_region frame size fl s = Ok (s, E_NOSPACE, 0) /\ Rel s a g'
  | Some (a0, _) =>
      let start := a0 / 4096 in let n := N.to_nat (ceil_pages size) in
      region_dom a start frame fl n ->
      exists s' err pg g' j,
        Pt.map_region frame size fl s = Ok (s', err, pg) /\
        Rel s' (a_range (set_alast a a0) (aact a) start frame fl j) g' /\
        ((err = 0 /\ j = n /\ pg = start) \/ (err = E_ALLOC /\ (j < n)%nat /\ pg = 0)) /\
        (forall F i, In F (afree a) -> ent s' F i = ent s F i)
  end.
Proof.
  intros HR Hs. pose proof (region_reserve (last s) size Hs (r_wfl _ _ _ HR)) as Hres.
  rewrite (r_last _ _ _ HR) in Hres. unfold Pt.map_region.
  destruct (reserve_spec (alast a) size) as [[a0 len]|].
  - destruct Hres as (Eru & Eer & Epf & Ec & Hw0 & Hfit). cbv zeta. intros (Hfl & Hf & Hdom).
    rewrite Eru. rewrite (r_last _ _ _ HR), Eer, Ec, Epf, iter_n_nat.
    set (n := N.to_nat (ceil_pages size)) in *.
    pose proof (rel_set_last s a g a0 HR Hw0) as HR0.
    assert (Hp52: a0 / 4096 + N.of_nat n <= 2 ^ 52).
    { unfold n. rewrite N2Nat.id. unfold vmm_tempMappingAddr in Hfit. change (2 ^ 52) with 4503599627370496. lia. }
    destruct (r_loop fl n (set_last s a0) (set_alast a a0) g (a0 / 4096) frame HR0 Hfl Hdom Hp52 Hf) as (s' & g' & j & Hr & HR' & Hdata).
    destruct Hr as [(Ej & Hr) | (Ej & Hr)]; rewrite Hr.
    + exists s', 0, (a0 / 4096), g', j. split; [reflexivity|]. split; [exact HR'|]. split; [left; repeat split; exact Ej | exact Hdata].
    + exists s', E_ALLOC, 0, g', j. split; [reflexivity|]. split; [exact HR'|]. split; [right; repeat split; exact Ej | exact Hdata].
  - exists g. destruct Hres as [Eru | (l' & Eer)].
    + rewrite Eru. split; [reflexivity | exact HR].
    + destruct (round_up size <? size); [split; [reflexivity | exact HR]|].
      rewrite (r_last _ _ _ HR), Eer. split; [reflexivity | exact HR].
Qed.

Lemma r_id_map_region s a g frame size fl :
  Rel s a g -> size + 4095 < two64 ->
  let n := N.to_nat (ceil_pages size) in
  region_dom a frame frame fl n ->
  exists s' err pg g' j,
    Pt.identity_map_region frame size fl s = Ok (s', err, pg) /\
    Rel s' (a_range a (aact a) frame frame fl j) g' /\
    ((err = 0 /\ j = n /\ pg = frame) \/ (err = E_ALLOC /\ (j < n)%nat /\ pg = 0)) /\
    (forall F i, In F (afree a) -> ent s' F i = ent s F i).
Proof.
  intros HR Hs n (Hfl & Hf & Hdom).
  assert (Hs': size < two64) by lia.
  unfold Pt.identity_map_region. rewrite round_up_ltb by exact Hs'.
  destruct (N.leb_spec two64 (size + 4095)) as [H|_]; [lia|].
  assert (Ec: N.shiftr (round_up size) mm_PageShift = ceil_pages size).
  { rewrite page_shift_val, N.shiftr_div_pow2. change (2 ^ 12) with 4096. rewrite (round_up_nowrap size Hs).
    apply N.div_mul. discriminate. }
  rewrite Ec.
  assert (Hcnt: N.of_nat n = ceil_pages size) by (unfold n; apply N2Nat.id).
  assert (Ew: w64 (frame + ceil_pages size) = frame + ceil_pages size).
  { apply w64_small. unfold two64. change (2 ^ 40) with 1099511627776 in Hf. lia. }
  rewrite Ew.
  assert (En: (if frame <? frame + ceil_pages size then frame + ceil_pages size - frame else 0) = ceil_pages size).
  { destruct (N.ltb_spec frame (frame + ceil_pages size)); lia. }
  rewrite En, iter_n_nat. fold n.
  assert (Hp52: frame + N.of_nat n <= 2 ^ 52) by (change (2 ^ 40) with 1099511627776 in Hf; change (2 ^ 52) with 4503599627370496; lia).
  destruct (r_loop fl n s a g frame frame HR Hfl Hdom Hp52 Hf) as (s' & g' & j & Hr & HR' & Hdata).
  destruct Hr as [(Ej & Hr) | (Ej & Hr)]; rewrite Hr.
  - exists s', 0, frame, g', j. split; [reflexivity|]. split; [exact HR'|]. split; [left; repeat split; exact Ej | exact Hdata].
  - exists s', E_ALLOC, 0, g', j. split; [reflexivity|]. split; [exact HR'|]. split; [right; repeat split; exact Ej | exact Hdata].
Qed.

(** a page the MMU resolves has all three upper levels present *)
Lemma hw_walk_follow_inv s ks t pg f :
  Forall (fun k => k < 3) ks -> hw_walk s (ks ++ [3]) t pg = Some f ->
  exists l, follow s t (map (hw_idx pg) ks) = Some l /\ backed s l = true.
Proof.
  revert t. induction ks as [|k r IH]; intros t Hk H; cbn [app hw_walk map follow] in *.
  - destruct (backed s t) eqn:B; [|discriminate]. exists t. split; [reflexivity | exact B].
  - inversion Hk as [|? ? Hk1 Hkr]; subst. destruct (backed s t); [|discriminate]. cbn [andb].
    fold (ent s t (hw_idx pg k)) in H. unfold usable.
    replace (k <? 3) with true in H by (symmetry; apply N.ltb_lt; exact Hk1). rewrite andb_true_r in H.
    destruct (hw_P (ent s t (hw_idx pg k)) && negb (hw_PS (ent s t (hw_idx pg k)))); [|discriminate].
    apply IH; assumption.
Qed.

Lemma mmu_aspace_some s A pg f :
  N.shiftr (cr3 s) 12 = A -> mmu s (frame_addr pg) = Some f -> aspace s A pg <> None.
Proof.
  intros Hcr Hm. unfold mmu, hw_levels in Hm. rewrite Hcr in Hm.
  change [0; 1; 2; 3] with ([0; 1; 2] ++ [3]) in Hm.
  destruct (hw_walk_follow_inv s [0; 1; 2] A _ f ltac:(repeat constructor; lia) Hm) as (l & Hf & Hb).
  cbn [map] in Hf. rewrite !frame_addr_idx in Hf by lia.
  rewrite aspace_follow. unfold ixs. cbn [firstn]. rewrite Hf, Hb. discriminate.
Qed.

(** * PageDirectoryTable.Init of a fresh frame *)
Lemma pdt_init_flog s A own k F :
  Inv s A A own -> (prot s && (F =? zf s)) = false -> backed s F = true -> own F = None -> ~ In F (orc s) ->
  exists s' err, pdt_init k F s = Ok (s', err) /\
    (err = 0 -> flog s' = vmm_tempMappingAddr :: vmm_tempMappingAddr :: flog s) /\ (err <> 0 -> flog s' = flog s).
Proof.
  intros HI Hg HbF HoF HnF.
  pose proof (inv_wf _ _ _ _ HI) as W.
  assert (HF40: F < 2 ^ 40) by (eapply backed_lt40; [exact (wf_arena _ _ _ W) | exact HbF]).
  assert (HFA: F <> A) by (intros E; rewrite E, (wf_root _ _ _ W) in HoF; discriminate).
  set (s0 := set_pdt s k F).
  assert (HI0: Inv s0 A A own) by (apply (Inv_ent_eq s s0 A A own HI); reflexivity).
  assert (Hact: (frame_addr F =? cr3 s0) = false).
  { apply N.eqb_neq. intros E. apply HFA. rewrite <- (inv_cr3 _ _ _ _ HI0), <- E.
    rewrite frame_addr_small by (change (2 ^ 40) with 1099511627776 in HF40; change (2 ^ 52) with 4503599627370496; lia).
    rewrite N.shiftr_shiftl_l by lia. replace (12 - 12) with 0 by lia. symmetry. apply N.shiftl_0_r. }
  destruct (temp_map_spec s0 A own F HI0 Hg HbF HoF HnF) as
      (s1 & err1 & pg & own1 & Hrun & Herr & HI1 & Henv1 & Ho1F & Hn1F & Hfr1 & _ & Hok & Hfail & _ & _).
  unfold pdt_init. fold s0. rewrite Hact, Hrun.
  destruct (N.eqb_spec err1 0) as [E0|E0]; cbn [negb].
  2:{ exists s1, err1. split; [reflexivity|]. split; [congruence|]. intros _. destruct (Hfail E0) as (_ & _ & Hfl). exact Hfl. }
  subst err1. destruct (Hok eq_refl) as (Epg & Hrp & Hre & Htr1 & Hfl1). subst pg. rewrite Hrp, Hre.
  set (rec := set_frame (set_flags 0 P_RW) F).
  set (s3 := wr_st (set_mem s1 (zero (mem s1) F)) F 511 rec).
  assert (Hn3: forall f, f <> F -> forall i, ent s3 f i = ent s1 f i).
  { intros f Hf i. unfold s3. rewrite ent_wr. destruct (N.eqb_spec f F); [congruence|]. cbn [andb].
    unfold ent. cbn [mem set_mem]. rewrite rd_zero. destruct (N.eqb_spec f F); [congruence | reflexivity]. }
  assert (HI3: Inv s3 A A own1).
  { apply (Inv_ent_eq s1 s3 A A own1 HI1); try reflexivity.
    intros f i [-> | [-> | (p & Hop & _)]]; apply Hn3; congruence. }
  destruct (unmap_ok s3 A A own1 temp_page HI3 temp_idx0) as (s4 & err4 & Hr4 & Herr4 & _ & _ & _ & Hinv4 & Hok4).
  rewrite Hr4. exists s4, E_OK. split; [reflexivity|]. split; [|intros H; exfalso; apply H; reflexivity]. intros _.
  destruct Herr4 as [E4|E4].
  - destruct (Hok4 E4) as (e & _ & _ & _ & _ & Hfl4 & _). rewrite Hfl4. change (flog s3) with (flog s1). rewrite Hfl1. reflexivity.
  - exfalso. destruct (Hinv4 E4) as [_ Hnone].
    (* the temp page is mapped in s3: MapTemporary just succeeded *)
    assert (Hm: mmu s1 (frame_addr temp_page) = Some F) by (rewrite <- resolve_page_mmu; exact Hrp).
    assert (E31: aspace s3 A temp_page = aspace s1 A temp_page).
    { apply (aspace_ent_eq s1 s3 A own1 temp_page (inv_wf _ _ _ _ HI1)); try reflexivity; [|exact temp_idx0].
      intros f p i Hp. apply Hn3. congruence. }
    rewrite E31 in Hnone.
    apply (mmu_aspace_some s1 A temp_page F (inv_cr3 _ _ _ _ HI1) Hm). exact Hnone.
Qed.

Definition a_init (a : ast) (k F : N) : ast :=
  mkA (fun R => if R =? F then (fun _ => None)
                else if R =? aact a then aupd (am a (aact a)) (ixs temp_page) None else am a R)
      (aact a) (vmm_tempMappingAddr :: vmm_tempMappingAddr :: atlb a)
      (fun k' => if k' =? k then Some F else aslot a k') (alast a) (F :: aroots a)
      (remove N.eq_dec F (afree a)) (aprot a) (azf a) (apool a).

Lemma rel_set_pdt s a g k F : Rel s a g -> Rel (set_pdt s k F) (set_aslot a k None) g.
Proof.
  intros [G Hact Htr Htlb Hlast Hwfl Hslot Hfree Hprot Hzf Hpool].
  split; cbn [aroots am aact atlb aslot alast afree aprot azf apool set_aslot]; try assumption.
  - destruct G as [G1 G2 G3 G4 G5]. split; try assumption.
    intros R HR. apply (WF_ent_eq s _ R (proj g R) (G1 R HR)); reflexivity.
  - intros k' R. cbn [pdts set_pdt]. destruct (N.eqb_spec k' k); [discriminate|]. apply Hslot.
Qed.

Lemma r_pdt_init s a g k F :
  Rel s a g -> In F (afree a) -> aguard a F P_RW = false ->
  exists s' err g',
    pdt_init k F s = Ok (s', err) /\
    ((err = 0 /\ Rel s' (a_init a k F) g') \/ (err = E_ALLOC /\ Rel s' (set_aslot a k None) g')) /\
    (forall F' i, In F' (afree a) -> F' <> F \/ err <> 0 -> ent s' F' i = ent s F' i).
Proof.
  intros HR HF Hg.
  pose proof (r_g _ _ _ HR) as G. pose proof (r_act _ _ _ HR) as Hact.
  pose proof (GInv_Inv s _ g G) as HI. rewrite Hact in HI. set (A := aact a) in *.
  destruct (r_free _ _ _ HR F HF) as (HbF & HgF & HnF).
  assert (HoF: proj g A F = None) by (apply proj_none; exact HgF).
  assert (Hg0: (prot s && (F =? zf s)) = false).
  { unfold aguard in Hg. rewrite P_RW_wants, andb_true_r in Hg. rewrite (r_prot _ _ _ HR), (r_zf _ _ _ HR). exact Hg. }
  destruct (pdt_init_spec s A (proj g A) k F HI Hg0 HbF HoF HnF) as
      (s' & err & own1 & Hrun & Herr & Hsl & Hosl & Elo & Ecnt & Ecr & Ezf & Epr & Elast & Eslog & (n & Hn & Hown) & Hok & Hfail & _ & _).
  destruct (pdt_init_flog s A (proj g A) k F HI Hg0 HbF HoF HnF) as (s'' & err'' & Hrun'' & Hfl0 & Hfl1).
  rewrite Hrun in Hrun''. injection Hrun'' as Es Ee. subst s'' err''.
  assert (HA: In A (aroots a)) by (rewrite <- Hact; exact (gi_act _ _ _ G)).
  exists s', err.
  destruct (N.eq_dec err 0) as [E0|E0].
  - destruct (Hok E0) as (HI2 & Hempty & HtrA & Htemp & Hfr).
    assert (Ho1F: own1 F = None).
    { destruct (own1 F) eqn:E; [|reflexivity]. exfalso.
      assert (H: own_root F F = None) by (apply (i2_disj _ _ _ _ _ HI2); rewrite E; discriminate).
      unfold own_root in H. rewrite N.eqb_refl in H. discriminate. }
    destruct (ginv_update s s' (aroots a) g A own1 n [F] G HA (i2_wfA _ _ _ _ _ HI2) Elo Ecnt Ecr Hn Hown) as (G1 & PT & PR & Pn).
    { intros f i Ho Hni. apply Hfr; [exact Ho|]. intros E. apply Hni. left. symmetry. exact E. }
    { intros f [<-|[]]. exact HgF. }
    set (g1 := fun f => match own1 f with Some p => Some (A, p) | None => g f end) in *.
    assert (Hg1F: g1 F = None) by (apply Pn; assumption).
    assert (HnF': ~ In F (orc s')) by (rewrite Hn; intros Hin; apply HnF; eapply in_skipn; exact Hin).
    destruct (ginv_add_root s' (aroots a) g1 F G1 Hg1F (i2_wfT _ _ _ _ _ HI2) HnF') as (G2 & PR2 & Pe2).
    set (g2 := fun f => if f =? F then Some (F, []) else g1 f) in *.
    assert (HFr: forall R, In R (aroots a) -> R <> F).
    { intros R HRr E. rewrite E in HRr. rewrite (root_owned s _ g F G HRr) in HgF. discriminate. }
    exists g2. split; [exact Hrun|]. split.
    + left. split; [exact E0|]. split; cbn [aroots am aact atlb aslot alast afree aprot azf apool a_init].
      * exact G2.
      * rewrite Ecr. exact Hact.
      * intros R [<-|HRr] q Hq.
        -- rewrite N.eqb_refl. unfold translation. rewrite (Hempty q Hq). reflexivity.
        -- destruct (N.eqb_spec R F) as [E|_]; [exfalso; exact (HFr R HRr E)|].
           change (aact a) with A.
           destruct (N.eqb_spec R A) as [->|HRA].
           ++ unfold aupd. destruct (list_eq_dec N.eq_dec (ixs q) (ixs temp_page)) as [Es|Hne].
              ** unfold translation, aspace in *. rewrite Es. exact Htemp.
              ** rewrite (HtrA q Hq Hne). exact (r_tr _ _ _ HR A HA q Hq).
           ++ rewrite <- (r_tr _ _ _ HR R HRr q Hq). unfold translation.
              rewrite (aspace_ent_eq s s' R (proj g R) q (gi_wf _ _ _ G R HRr) Elo Ecnt); [reflexivity | | exact Hq].
              intros f p i Hp. apply proj_some in Hp. apply Hfr.
              ** destruct (Hown f) as [E | (_ & Hin & Hz0)].
                 --- rewrite E. apply (proj_other g A R f p Hp). congruence.
                 --- destruct (gi_fresh _ _ _ G f (in_firstn f n _ Hin) Hz0) as [_ B]. congruence.
              ** intros E. rewrite E, HgF in Hp. discriminate.
      * rewrite (Hfl0 E0), (r_tlb _ _ _ HR). reflexivity.
      * rewrite Elast. exact (r_last _ _ _ HR).
      * rewrite Elast. exact (r_wfl _ _ _ HR).
      * intros k' R. destruct (N.eqb_spec k' k) as [->|Hk].
        -- intros E; injection E as <-. split; [exact Hsl | left; reflexivity].
        -- intros Hk'. rewrite (Hosl k' Hk). destruct (r_slot _ _ _ HR k' R Hk') as [P1 P2]. split; [exact P1 | right; exact P2].
      * intros F' HF'. apply in_remove in HF'. destruct HF' as [HF' HneF].
        destruct (r_free _ _ _ HR F' HF') as (B1 & B2 & B3).
        split; [unfold backed in *; rewrite Elo, Ecnt; exact B1|]. split.
        -- unfold g2. rewrite (Pe2 F' HneF). apply Pn; [exact B2|].
           destruct (Hown F') as [E | (_ & Hin & _)]; [rewrite E; apply proj_none; exact B2|].
           exfalso. apply B3. eapply in_firstn; exact Hin.
        -- rewrite Hn. intros Hin. apply B3. eapply in_skipn; exact Hin.
      * rewrite Epr. exact (r_prot _ _ _ HR).
      * rewrite Ezf. exact (r_zf _ _ _ HR).
      * intros F' HF' Hz'. rewrite Hn in HF'. apply (r_pool _ _ _ HR F'); [eapply in_skipn; exact HF' | exact Hz'].
    + intros F' i HF' [Hne|Hne]; [|congruence]. destruct (r_free _ _ _ HR F' HF') as (_ & B2 & B3). apply Hfr; [|exact Hne].
      destruct (Hown F') as [E | (_ & Hin & _)]; [rewrite E; apply proj_none; exact B2|].
      exfalso. apply B3. eapply in_firstn; exact Hin.
  - destruct (Hfail E0) as (HI' & Htr' & Hfr').
    pose proof (rel_set_pdt s a g k F HR) as HR0.
    destruct (rel_update (set_pdt s k F) s' (set_aslot a k None) g A own1 n (am a A) (atlb a) (alast a) HR0 HA (inv_wf _ _ _ _ HI')
                Elo Ecnt Ecr Hn) as (g' & HR' & Hdata); try assumption.
    + intros k'. cbn [pdts set_pdt]. destruct (N.eqb_spec k' k) as [->|Hk]; [exact Hsl | exact (Hosl k' Hk)].
    + rewrite Elast. exact (r_last _ _ _ HR).
    + rewrite <- (r_last _ _ _ HR). exact (r_wfl _ _ _ HR).
    + intros q Hq. rewrite (Htr' q Hq). exact (r_tr _ _ _ HR A HA q Hq).
    + rewrite (Hfl1 E0). exact (r_tlb _ _ _ HR).
    + exists g'. split; [exact Hrun|]. split.
      * right. destruct Herr as [E|E]; [congruence|]. split; [exact E|].
        eapply Rel_aeq; [|exact HR']. repeat split. intros R kk. cbn. fold A. destruct (N.eqb_spec R A) as [->|]; reflexivity.
      * intros F' i HF' _. exact (Hdata F' i HF').
Qed.

(** * reserveZeroedFrame: arming the zero-frame guard *)
Definition set_azf (a : ast) (z : N) : ast :=
  mkA (am a) (aact a) (atlb a) (aslot a) (alast a) (aroots a) (afree a) (aprot a) z (apool a).
Definition set_aprot (a : ast) (b : bool) : ast :=
  mkA (am a) (aact a) (atlb a) (aslot a) (alast a) (aroots a) (afree a) b (azf a) (apool a).
(* the allocator hands frame [F] out: it leaves the pool and becomes a data frame *)
Definition add_free (a : ast) (F : N) : ast :=
  mkA (am a) (aact a) (atlb a) (aslot a) (alast a) (aroots a) (F :: afree a) (aprot a) (azf a) (remove N.eq_dec F (apool a)).

Lemma ginv_pop s roots g x r : GInv s roots g -> orc s = x :: r -> GInv (set_orc s r) roots g.
Proof.
  intros [G1 G2 G3 G4 G5] Eo. split; try assumption.
  - intros R HR. apply (WF_ent_eq s _ R (proj g R) (G1 R HR)); reflexivity.
  - cbn [orc set_orc]. rewrite Eo, ofr_cons in G3. destruct (x =? 0); [exact G3 | inversion G3; assumption].
  - intros f Hin Hz. apply (G4 f); [rewrite Eo; right; exact Hin | exact Hz].
Qed.

Lemma rel_pop s a g x r : Rel s a g -> orc s = x :: r -> Rel (set_orc s r) a g.
Proof.
  intros [G Hact Htr Htlb Hlast Hwfl Hslot Hfree Hprot Hzf Hpool] Eo.
  split; try assumption.
  - eapply ginv_pop; eassumption.
  - intros F HF. destruct (Hfree F HF) as (B1 & B2 & B3). split; [exact B1|]. split; [exact B2|].
    cbn [orc set_orc]. intros Hin. apply B3. rewrite Eo. right. exact Hin.
  - intros F HF. apply Hpool. rewrite Eo. right. exact HF.
Qed.

Lemma rel_pop_free s a g x r : Rel s a g -> orc s = x :: r -> x <> 0 -> Rel (set_orc s r) (add_free a x) g.
Proof.
  intros HR Eo Hx. pose proof (rel_pop s a g x r HR Eo) as [G Hact Htr Htlb Hlast Hwfl Hslot Hfree Hprot Hzf Hpool].
  pose proof (r_g _ _ _ HR) as G0.
  assert (Hxr: ~ In x r).
  { pose proof (gi_nodup _ _ _ G0) as Hnd. rewrite Eo, ofr_cons in Hnd. destruct (N.eqb_spec x 0); [congruence|].
    inversion Hnd as [|? ? Hnin _]; subst. intros Hin. apply Hnin. apply in_ofr. split; assumption. }
  split; cbn [aroots am aact atlb aslot alast afree aprot azf apool add_free]; try assumption.
  - intros F [<-|HF]; [|exact (Hfree F HF)].
    destruct (gi_fresh _ _ _ G0 x) as [B1 B2]; [rewrite Eo; left; reflexivity | exact Hx |].
    split; [exact B1|]. split; [exact B2 | exact Hxr].
  - intros F HF Hz. apply in_in_remove; [|exact (Hpool F HF Hz)]. intros ->. exact (Hxr HF).
Qed.

Lemma rel_set_zf s a g z : Rel s a g -> Rel (set_zf s z) (set_azf a z) g.
Proof.
  intros [G Hact Htr Htlb Hlast Hwfl Hslot Hfree Hprot Hzf Hpool].
  split; cbn [aroots am aact atlb aslot alast afree aprot azf apool set_azf]; try assumption; try reflexivity.
  destruct G as [G1 G2 G3 G4 G5]. split; try assumption.
  intros R HR. apply (WF_ent_eq s _ R (proj g R) (G1 R HR)); reflexivity.
Qed.

Lemma rel_set_prot s a g b : Rel s a g -> Rel (set_prot s b) (set_aprot a b) g.
Proof.
  intros [G Hact Htr Htlb Hlast Hwfl Hslot Hfree Hprot Hzf Hpool].
  split; cbn [aroots am aact atlb aslot alast afree aprot azf apool set_aprot]; try assumption; try reflexivity.
  destruct G as [G1 G2 G3 G4 G5]. split; try assumption.
  intros R HR. apply (WF_ent_eq s _ R (proj g R) (G1 R HR)); reflexivity.
Qed.

(** overwriting a frame that no address space uses as a table changes no translation *)
Lemma rel_zero_free s a g F : Rel s a g -> In F (afree a) -> Rel (set_mem s (zero (mem s) F)) a g.
Proof.
  intros [G Hact Htr Htlb Hlast Hwfl Hslot Hfree Hprot Hzf Hpool] HF.
  destruct (Hfree F HF) as (_ & HgF & _).
  set (s' := set_mem s (zero (mem s) F)).
  assert (He: forall R f p i, proj g R f = Some p -> ent s' f i = ent s f i).
  { intros R f p i Hp. apply proj_some in Hp. unfold s', ent. cbn [mem set_mem]. rewrite rd_zero.
    destruct (N.eqb_spec f F) as [->|]; [congruence | reflexivity]. }
  split; try assumption.
  - destruct G as [G1 G2 G3 G4 G5]. split; try assumption.
    intros R HR. apply (WF_ent_eq s s' R (proj g R) (G1 R HR)); try reflexivity. exact (He R).
  - intros R HR q Hq. rewrite <- (Htr R HR q Hq). unfold translation.
    rewrite (aspace_ent_eq s s' R (proj g R) q (gi_wf _ _ _ G R HR)); try reflexivity; [exact (He R) | exact Hq].
Qed.

(** what reserveZeroedFrame does to the abstract state when the allocator answers with frame [F] *)
Definition a_arm (a : ast) (F : N) : ast :=
  set_aprot (a_unmap (a_map (set_azf (add_free a F) F) (aact a) temp_page F P_RW vmm_tempMappingAddr)
                     (aact a) temp_page (frame_addr temp_page)) true.
Definition a_arm_fail (a : ast) (F : N) : ast := set_azf (add_free a F) F.

Definition AArm (a : ast) (r : N * N) (a' : ast) : Prop :=
  (r = (E_ALLOC, mm_InvalidFrame) /\ a' = set_azf a mm_InvalidFrame) \/
  exists F, F <> 0 /\ In F (apool a) /\ ~ In F (afree a) /\
            ((r = (0, F) /\ a' = a_arm a F) \/ (r = (E_ALLOC, F) /\ a' = a_arm_fail a F)).

Lemma r_arm s a g :
  Rel s a g -> aprot a = false ->
  exists s' err a' g',
    reserve_zeroed s = Ok (s', err) /\ AArm a (err, zf s') a' /\ Rel s' a' g' /\
    (forall F i, In F (afree a) -> ent s' F i = ent s F i) /\
    (err = 0 -> forall i, ent s' (zf s') i = 0).
Proof.
  intros HR Hp. unfold reserve_zeroed, alloc.
  destruct (orc s) as [|x r] eqn:Eo.
  { exists (set_zf s mm_InvalidFrame), E_ALLOC, (set_azf a mm_InvalidFrame), g.
    split; [reflexivity|]. split; [left; split; reflexivity|]. split; [apply rel_set_zf; exact HR|].
    split; [reflexivity | discriminate]. }
  destruct (N.eqb_spec x 0) as [Ex|Ex].
  { exists (set_zf (set_orc s r) mm_InvalidFrame), E_ALLOC, (set_azf a mm_InvalidFrame), g.
    split; [reflexivity|]. split; [left; split; reflexivity|].
    split; [apply rel_set_zf; eapply rel_pop; eassumption|]. split; [reflexivity | discriminate]. }
  assert (Hpl: In x (apool a)) by (apply (r_pool _ _ _ HR); [rewrite Eo; left; reflexivity | exact Ex]).
  assert (Hnf: ~ In x (afree a)).
  { intros Hin. destruct (r_free _ _ _ HR x Hin) as (_ & _ & B3). apply B3. rewrite Eo. left. reflexivity. }
  set (a2 := set_azf (add_free a x) x).
  assert (HR2: Rel (set_zf (set_orc s r) x) a2 g) by (apply rel_set_zf; apply rel_pop_free; assumption).
  assert (Hx40: x < 2 ^ 40).
  { destruct (r_free _ _ _ HR2 x ltac:(left; reflexivity)) as (B1 & _ & _).
    pose proof (GInv_Inv _ _ g (r_g _ _ _ HR2)) as HI. eapply backed_lt40; [exact (wf_arena _ _ _ (inv_wf _ _ _ _ HI)) | exact B1]. }
  destruct (r_map_temp _ a2 g x HR2 Hx40) as (s3 & err & pg & g3 & Hrun & Hcase & Hdata3). rewrite Hrun.
  change (aact a2) with (aact a) in Hcase.
  assert (Hg2: aguard a2 x P_RW = false) by (unfold aguard, a2; cbn [aprot set_azf add_free]; rewrite Hp; reflexivity).
  assert (Hzf3: zf s3 = x).
  { destruct Hcase as [(_ & _ & _ & H) | [(_ & _ & _ & H) | (_ & _ & _ & H)]]; rewrite (r_zf _ _ _ H); reflexivity. }
  destruct Hcase as [(_ & _ & Hg & _) | [(E & Ep & _ & HR3) | (E & Ep & _ & HR3)]]; [congruence | |].
  2:{ subst err pg. change (negb (E_ALLOC =? 0)) with true. cbn iota.
      exists s3, E_ALLOC, a2, g3. split; [reflexivity|]. split.
      - right. exists x. split; [exact Ex|]. split; [exact Hpl|]. split; [exact Hnf|]. right. rewrite Hzf3. split; reflexivity.
      - split; [exact HR3|]. split; [|discriminate]. intros F i HF. apply Hdata3. right. exact HF. }
  subst err pg. change (negb (0 =? 0)) with false. cbn iota.
  set (a3 := a_map a2 (aact a) temp_page x P_RW vmm_tempMappingAddr) in *.
  pose proof (r_g _ _ _ HR3) as G3. pose proof (r_act _ _ _ HR3) as Hact3.
  pose proof (GInv_Inv s3 _ g3 G3) as HI3. rewrite Hact3 in HI3. change (aact a3) with (aact a) in *. set (A := aact a) in *.
  assert (HA3: In A (aroots a3)) by (rewrite <- Hact3; exact (gi_act _ _ _ G3)).
  assert (Hfree3: In x (afree a3)) by (left; reflexivity).
  destruct (r_free _ _ _ HR3 x Hfree3) as (Hb3 & _ & _).
  assert (Htr3: translation s3 A temp_page = Some (x, P_RW)).
  { rewrite (r_tr _ _ _ HR3 A HA3 temp_page temp_idx0). unfold a3, a_map. cbn [am set_tlb set_am].
    fold A. rewrite N.eqb_refl. unfold aupd. destruct (list_eq_dec N.eq_dec (ixs temp_page) (ixs temp_page)); [reflexivity | congruence]. }
  assert (Hrp: resolve_page s3 (frame_addr temp_page) = Some x).
  { rewrite resolve_page_mmu. unfold translation in Htr3. destruct (aspace s3 A temp_page) as [e|] eqn:Ea; [|discriminate].
    destruct (hw_P e) eqn:HP; [|discriminate]. injection Htr3 as Hfe _.
    destruct (mmu_aspace s3 A A (proj g3 A) temp_page e HI3 eq_refl temp_idx0 Ea HP) as [M _]; [rewrite Hfe; exact Hb3|].
    rewrite Hfe in M. exact M. }
  rewrite Hrp.
  set (s4 := set_mem s3 (zero (mem s3) x)).
  pose proof (rel_zero_free s3 a3 g3 x HR3 Hfree3) as HR4. fold s4 in HR4.
  destruct (r_unmap s4 a3 g3 temp_page HR4 temp_idx0) as (s5 & err5 & g5 & Hrun5 & Hcase5 & Hdata5). rewrite Hrun5.
  assert (He4: forall i, ent s4 x i = 0).
  { intros i. unfold s4, ent. cbn [mem set_mem]. rewrite rd_zero, N.eqb_refl. reflexivity. }
  assert (HR5: Rel s5 (a_unmap a3 A temp_page (frame_addr temp_page)) g5).
  { destruct Hcase5 as [(_ & H) | (_ & _ & Hn)]; [exact H|]. exfalso.
    change (am a3 A (ixs temp_page) = None) in Hn.
    rewrite <- (r_tr _ _ _ HR3 A HA3 temp_page temp_idx0), Htr3 in Hn. discriminate. }
  assert (Hzf5: zf s5 = x) by (rewrite (r_zf _ _ _ HR5); reflexivity).
  exists (set_prot s5 true), E_OK, (a_arm a x), g5.
  split; [reflexivity|]. split.
  { right. exists x. split; [exact Ex|]. split; [exact Hpl|]. split; [exact Hnf|]. left.
    change (zf (set_prot s5 true)) with (zf s5). rewrite Hzf5. split; reflexivity. }
  split; [apply rel_set_prot; exact HR5|]. split.
  - intros F i HF. change (ent (set_prot s5 true) F i) with (ent s5 F i).
    rewrite (Hdata5 F i) by (right; exact HF).
    assert (F <> x) by (intros ->; exact (Hnf HF)).
    transitivity (ent s3 F i); [|apply Hdata3; right; exact HF].
    unfold s4, ent. cbn [mem set_mem]. rewrite rd_zero. destruct (N.eqb_spec F x); [congruence | reflexivity].
  - intros _ i. change (zf (set_prot s5 true)) with (zf s5). change (ent (set_prot s5 true) (zf s5) i) with (ent s5 (zf s5) i).
    rewrite Hzf5, (Hdata5 x i Hfree3). apply He4.
Qed.

(** * Histories *)
Inductive qop :=
| QMap (page frame flags : N)
| QUnmap (page : N)
| QTranslate (va : N)
| QMapTemp (frame : N)
| QMapRegion (frame size flags : N)
| QIdMapRegion (frame size flags : N)
| QPdtInit (slot frame : N)
| QPdtMap (slot page frame flags : N)
| QPdtUnmap (slot page : N)
| QActivate (slot : N)
| QArm.                               (* reserveZeroedFrame: allocate, zero and protect the zero frame *)

(** the operation of the executable model (Vmm/Pt.v [step], the function that is extracted and run against the code) *)
Definition to_op (o : qop) : op :=
  match o with
  | QMap p f fl => OMap p f fl
  | QUnmap p => OUnmap p
  | QTranslate va => OTranslate va
  | QMapTemp f => OMapTemp f
  | QMapRegion f sz fl => OMapRegion f sz fl
  | QIdMapRegion f sz fl => OIdMapRegion f sz fl
  | QPdtInit k f => OPdtInit k f
  | QPdtMap k p f fl => OPdtMap k p f fl
  | QPdtUnmap k p => OPdtUnmap k p
  | QActivate k => OPdtActivate k
  | QArm => OReserveZero
  end.

Definition page_ok (p f fl : N) : Prop := hw_idx p 0 <> 511 /\ f < 2 ^ 40 /\ N.land fl vmm_ptePhysPageMask = 0.

(** the quantifier: what a request must satisfy in abstract state [a] *)
Definition qdom (o : qop) (a : ast) : Prop :=
  match o with
  | QMap p f fl => page_ok p f fl
  | QUnmap p => hw_idx p 0 <> 511
  | QTranslate va => hw_idx (N.shiftr va 12) 0 <> 511
  | QMapTemp f => f < 2 ^ 40
  | QMapRegion f sz fl =>
      sz < two64 /\
      match reserve_spec (alast a) sz with
      | Some (a0, _) => region_dom a (a0 / 4096) f fl (N.to_nat (ceil_pages sz))
      | None => True
      end
  | QIdMapRegion f sz fl => sz + 4095 < two64 /\ region_dom a f f fl (N.to_nat (ceil_pages sz))
  | QPdtInit k F => k < 8 /\ In F (afree a) /\ aguard a F P_RW = false
  | QPdtMap k p f fl => k < 8 /\ aslot a k <> None /\ page_ok p f fl
  | QPdtUnmap k p => k < 8 /\ aslot a k <> None /\ hw_idx p 0 <> 511
  | QActivate k => k < 8 /\ aslot a k <> None
  | QArm => aprot a = false
  end.

Definition AMapStep (a : ast) (R p f fl : N) (r : N * N) (a' : ast) : Prop :=
  if R =? aact a then
    if aguard a f fl then r = (E_ZERO_RW, 0) /\ a' = a
    else (r = (0, 0) /\ a' = a_map a R p f fl (frame_addr p)) \/ (r = (E_ALLOC, 0) /\ a' = a)
  else
    (r = (0, 0) /\ aguard a f fl = false /\ a' = a_map_inactive a R p f fl) \/
    (r = (E_ALLOC, 0) /\ aguard a f fl = false /\ a' = a_touch_inactive a) \/
    (r = (E_ZERO_RW, 0) /\ aguard a f fl = true /\ a' = a_touch_inactive a).

Definition AUnmapStep (a : ast) (R p : N) (r : N * N) (a' : ast) : Prop :=
  if R =? aact a then
    (r = (0, 0) /\ a' = a_unmap a R p (frame_addr p)) \/ (r = (E_INVALID, 0) /\ a' = a /\ am a R (ixs p) = None)
  else
    (r = (0, 0) /\ a' = a_unmap_inactive a R p) \/ (r = (E_INVALID, 0) /\ am a R (ixs p) = None /\ a' = a_touch_inactive a).

Lemma amap_act_cases a p f fl r a' :
  AMapStep a (aact a) p f fl r a' ->
  (aguard a f fl = true /\ r = (E_ZERO_RW, 0) /\ a' = a) \/
  (aguard a f fl = false /\ ((r = (0, 0) /\ a' = a_map a (aact a) p f fl (frame_addr p)) \/ (r = (E_ALLOC, 0) /\ a' = a))).
Proof.
  unfold AMapStep. rewrite N.eqb_refl. destruct (aguard a f fl); intros H; [left | right]; (split; [reflexivity | exact H]).
Qed.

Lemma amap_inact_cases a T p f fl r a' :
  T <> aact a -> AMapStep a T p f fl r a' ->
  (r = (0, 0) /\ aguard a f fl = false /\ a' = a_map_inactive a T p f fl) \/
  (r = (E_ALLOC, 0) /\ aguard a f fl = false /\ a' = a_touch_inactive a) \/
  (r = (E_ZERO_RW, 0) /\ aguard a f fl = true /\ a' = a_touch_inactive a).
Proof. intros Hne. unfold AMapStep. destruct (N.eqb_spec T (aact a)); [congruence|]. intros H; exact H. Qed.

(** the abstract machine: what request [o], answered with [r] = (error, value), does to [a].  A failed request
    changes no translation; a refused or failed request on an inactive table still flushes the patched slot twice. *)
Definition AStep (o : qop) (r : N * N) (a a' : ast) : Prop :=
  match o with
  | QMap p f fl => AMapStep a (aact a) p f fl r a'
  | QUnmap p => AUnmapStep a (aact a) p r a'
  | QTranslate va => r = atranslate (am a (aact a)) va /\ a' = a
  | QMapTemp f =>
      (r = (E_ZERO_RW, 0) /\ aguard a f P_RW = true /\ a' = a) \/
      (r = (0, temp_page) /\ aguard a f P_RW = false /\ a' = a_map a (aact a) temp_page f P_RW vmm_tempMappingAddr) \/
      (r = (E_ALLOC, 0) /\ aguard a f P_RW = false /\ a' = a)
  | QMapRegion f sz fl =>
      match reserve_spec (alast a) sz with
      | None => r = (E_NOSPACE, 0) /\ a' = a
      | Some (a0, _) =>
          exists j, a' = a_range (set_alast a a0) (aact a) (a0 / 4096) f fl j /\
                    ((r = (0, a0 / 4096) /\ j = N.to_nat (ceil_pages sz)) \/ (r = (E_ALLOC, 0) /\ (j < N.to_nat (ceil_pages sz))%nat))
      end
  | QIdMapRegion f sz fl =>
      exists j, a' = a_range a (aact a) f f fl j /\
                ((r = (0, f) /\ j = N.to_nat (ceil_pages sz)) \/ (r = (E_ALLOC, 0) /\ (j < N.to_nat (ceil_pages sz))%nat))
  | QPdtInit k F => (r = (0, 0) /\ a' = a_init a k F) \/ (r = (E_ALLOC, 0) /\ a' = set_aslot a k None)
  | QPdtMap k p f fl => match aslot a k with Some T => AMapStep a T p f fl r a' | None => False end
  | QPdtUnmap k p => match aslot a k with Some T => AUnmapStep a T p r a' | None => False end
  | QActivate k => match aslot a k with Some T => r = (0, 0) /\ a' = set_aact a T | None => False end
  | QArm => AArm a r a'
  end.

(** unfolding equations (rewriting with them keeps proof terms about concrete states small) *)
Lemma astep_map p f fl r a a' : AStep (QMap p f fl) r a a' = AMapStep a (aact a) p f fl r a'.
Proof. reflexivity. Qed.
Lemma astep_unmap p r a a' : AStep (QUnmap p) r a a' = AUnmapStep a (aact a) p r a'.
Proof. reflexivity. Qed.
Lemma astep_translate va r a a' : AStep (QTranslate va) r a a' = (r = atranslate (am a (aact a)) va /\ a' = a).
Proof. reflexivity. Qed.
Lemma astep_init k F r a a' : AStep (QPdtInit k F) r a a' = ((r = (0, 0) /\ a' = a_init a k F) \/ (r = (E_ALLOC, 0) /\ a' = set_aslot a k None)).
Proof. reflexivity. Qed.
Lemma astep_pdt_map k T p f fl r a a' : aslot a k = Some T -> AStep (QPdtMap k p f fl) r a a' = AMapStep a T p f fl r a'.
Proof. intros E. cbn [AStep]. rewrite E. reflexivity. Qed.
Lemma astep_pdt_unmap k T p r a a' : aslot a k = Some T -> AStep (QPdtUnmap k p) r a a' = AUnmapStep a T p r a'.
Proof. intros E. cbn [AStep]. rewrite E. reflexivity. Qed.
Lemma astep_activate k T r a a' : aslot a k = Some T -> AStep (QActivate k) r a a' = (r = (0, 0) /\ a' = set_aact a T).
Proof. intros E. cbn [AStep]. rewrite E. reflexivity. Qed.
Lemma astep_arm r a a' : AStep QArm r a a' = AArm a r a'.
Proof. reflexivity. Qed.

(** concrete facts of one step: an operation on a table that is not active leaves the active root table
    bit-for-bit as it was *)
Definition cstep_ok (o : qop) (s s' : st) : Prop :=
  match o with
  | QPdtMap k _ _ _ | QPdtUnmap k _ =>
      pdts s k <> N.shiftr (cr3 s) 12 -> forall i, ent s' (N.shiftr (cr3 s) 12) i = ent s (N.shiftr (cr3 s) 12) i
  | _ => True
  end.

Lemma slot_small k : k < 8 -> slot_of k = k.
Proof. intros H. unfold slot_of. change 7 with (N.ones 3). rewrite N.land_ones. apply N.mod_small. exact H. Qed.

Lemma rel_set_inited s a g k : Rel s a g -> Rel (set_inited s k) a g.
Proof.
  intros [G Hact Htr Htlb Hlast Hwfl Hslot Hfree Hprot Hzf Hpool].
  split; try assumption.
  destruct G as [G1 G2 G3 G4 G5]. split; try assumption.
  intros R HR. apply (WF_ent_eq s _ R (proj g R) (G1 R HR)); reflexivity.
Qed.

Lemma qop_eq_arm o : o = QArm \/ o <> QArm.
Proof. destruct o; (left; reflexivity) || (right; discriminate). Qed.

Ltac fin6 astep cstep rel data :=
  split; [reflexivity|]; split; [astep|]; split; [cstep|]; split; [exact rel|]; split; [exact data | apply incl_refl].

Lemma step_refines o s a g :
  Rel s a g -> qdom o a ->
  exists r s1 a1 g1,
    step (to_op o) s = Ok (s1, fst r, snd r) /\ AStep o r a a1 /\ cstep_ok o s s1 /\ Rel s1 a1 g1 /\
    (forall F i, In F (afree a) -> In F (afree a1) -> ent s1 F i = ent s F i) /\
    (o = QArm -> fst r = 0 -> forall i, ent s1 (zf s1) i = 0).
Proof.
  intros HR Hd.
  assert (Old: o <> QArm ->
    (exists r s1 a1 g1,
      step (to_op o) s = Ok (s1, fst r, snd r) /\ AStep o r a a1 /\ cstep_ok o s s1 /\ Rel s1 a1 g1 /\
      (forall F i, In F (afree a1) -> ent s1 F i = ent s F i) /\ incl (afree a1) (afree a)) ->
    exists r s1 a1 g1,
      step (to_op o) s = Ok (s1, fst r, snd r) /\ AStep o r a a1 /\ cstep_ok o s s1 /\ Rel s1 a1 g1 /\
      (forall F i, In F (afree a) -> In F (afree a1) -> ent s1 F i = ent s F i) /\
      (o = QArm -> fst r = 0 -> forall i, ent s1 (zf s1) i = 0)).
  { intros Hne (r & s1 & a1 & g1 & P1 & P2 & P3 & P4 & P5 & _). exists r, s1, a1, g1.
    split; [exact P1|]. split; [exact P2|]. split; [exact P3|]. split; [exact P4|]. split; [|intros E; congruence].
    intros F i _ HF. exact (P5 F i HF). }
  destruct o as [p f fl | p | va | f | f sz fl | f sz fl | k F | k p f fl | k p | k |]; [apply Old; [discriminate|] .. |];
    cbn [to_op step qdom AStep cstep_ok] in *.
  - (* Map *)
    destruct Hd as (H1 & H2 & H3). unfold AMapStep. rewrite N.eqb_refl.
    destruct (aguard a f fl) eqn:Hg.
    + rewrite (map_page_guarded p f fl s) by (rewrite (aguard_zero s a g f fl HR); exact Hg).
      exists (E_ZERO_RW, 0), s, a, g. fin6 ltac:(split; reflexivity) ltac:(exact I) HR (fun (F i : N) (_ : In F (afree a)) => @eq_refl N (ent s F i)).
    + destruct (r_map s a g p f fl HR H1 H2 H3 Hg) as (s' & err & g' & Hrun & Hcase & Hdata). rewrite Hrun.
      destruct Hcase as [(E & HR') | (E & HR')]; subst err.
      * exists (0, 0), s', (a_map a (aact a) p f fl (frame_addr p)), g'. fin6 ltac:(left; split; reflexivity) ltac:(exact I) HR' Hdata.
      * exists (E_ALLOC, 0), s', a, g'. fin6 ltac:(right; split; reflexivity) ltac:(exact I) HR' Hdata.
  - (* Unmap *)
    unfold AUnmapStep. rewrite N.eqb_refl.
    destruct (r_unmap s a g p HR Hd) as (s' & err & g' & Hrun & Hcase & Hdata). rewrite Hrun.
    destruct Hcase as [(E & HR') | (E & HR' & Hn)]; subst err.
    + exists (0, 0), s', (a_unmap a (aact a) p (frame_addr p)), g'. fin6 ltac:(left; split; reflexivity) ltac:(exact I) HR' Hdata.
    + exists (E_INVALID, 0), s', a, g'. fin6 ltac:(right; split; [reflexivity|]; split; [reflexivity | exact Hn]) ltac:(exact I) HR' Hdata.
  - (* Translate *)
    rewrite (r_translate s a g va HR Hd). destruct (atranslate (am a (aact a)) va) as [e pa] eqn:Et.
    exists (e, pa), s, a, g. fin6 ltac:(split; reflexivity) ltac:(exact I) HR (fun (F i : N) (_ : In F (afree a)) => @eq_refl N (ent s F i)).
  - (* MapTemporary *)
    destruct (r_map_temp s a g f HR Hd) as (s' & err & pg & g' & Hrun & Hcase & Hdata). rewrite Hrun.
    destruct Hcase as [(E & Ep & Hg & HR') | [(E & Ep & Hg & HR') | (E & Ep & Hg & HR')]]; subst err pg.
    + exists (E_ZERO_RW, 0), s', a, g'. fin6 ltac:(left; split; [reflexivity|]; split; [exact Hg | reflexivity]) ltac:(exact I) HR' Hdata.
    + exists (0, temp_page), s', (a_map a (aact a) temp_page f P_RW vmm_tempMappingAddr), g'.
      fin6 ltac:(right; left; split; [reflexivity|]; split; [exact Hg | reflexivity]) ltac:(exact I) HR' Hdata.
    + exists (E_ALLOC, 0), s', a, g'. fin6 ltac:(right; right; split; [reflexivity|]; split; [exact Hg | reflexivity]) ltac:(exact I) HR' Hdata.
  - (* MapRegion *)
    destruct Hd as (Hs & Hdom). pose proof (r_map_region s a g f sz fl HR Hs) as H.
    destruct (reserve_spec (alast a) sz) as [[a0 len]|].
    + destruct (H Hdom) as (s' & err & pg & g' & j & Hrun & HR' & Hcase & Hdata). rewrite Hrun.
      exists (err, pg), s', (a_range (set_alast a a0) (aact a) (a0 / 4096) f fl j), g'.
      split; [reflexivity|]. split.
      { exists j. split; [reflexivity|]. destruct Hcase as [(E1 & E2 & E3) | (E1 & E2 & E3)]; subst err pg; [left | right]; split; try reflexivity; assumption. }
      split; [exact I|]. split; [exact HR'|].
      destruct (a_range_act (set_alast a a0) (aact a) (a0 / 4096) f fl j) as [_ Efree]. rewrite Efree. cbn [afree set_alast].
      split; [exact Hdata | apply incl_refl].
    + destruct H as (g' & Hrun & HR'). rewrite Hrun.
      exists (E_NOSPACE, 0), s, a, g'. fin6 ltac:(split; reflexivity) ltac:(exact I) HR' (fun (F i : N) (_ : In F (afree a)) => @eq_refl N (ent s F i)).
  - (* IdentityMapRegion *)
    destruct Hd as (Hs & Hdom).
    destruct (r_id_map_region s a g f sz fl HR Hs Hdom) as (s' & err & pg & g' & j & Hrun & HR' & Hcase & Hdata). rewrite Hrun.
    exists (err, pg), s', (a_range a (aact a) f f fl j), g'.
    split; [reflexivity|]. split.
    { exists j. split; [reflexivity|]. destruct Hcase as [(E1 & E2 & E3) | (E1 & E2 & E3)]; subst err pg; [left | right]; split; try reflexivity; assumption. }
    split; [exact I|]. split; [exact HR'|].
    destruct (a_range_act a (aact a) f f fl j) as [_ Efree]. rewrite Efree. split; [exact Hdata | apply incl_refl].
  - (* Init *)
    destruct Hd as (Hk & HF & Hg). rewrite (slot_small k Hk).
    destruct (r_pdt_init s a g k F HR HF Hg) as (s' & err & g' & Hrun & Hcase & Hdata). rewrite Hrun.
    destruct Hcase as [(E & HR') | (E & HR')]; subst err.
    + exists (0, 0), (set_inited s' k), (a_init a k F), g'. cbn [N.eqb fst snd].
      split; [reflexivity|]. split; [left; split; reflexivity|]. split; [exact I|]. split; [apply rel_set_inited; exact HR'|].
      cbn [afree a_init]. split.
      * intros F' i HF'. apply in_remove in HF'. destruct HF' as [H1 H2]. change (ent (set_inited s' k) F' i) with (ent s' F' i). apply Hdata; [assumption | left; assumption].
      * intros F' HF'. apply in_remove in HF'. tauto.
    + exists (E_ALLOC, 0), s', (set_aslot a k None), g'. cbn [fst snd].
      split; [reflexivity|]. split; [right; split; reflexivity|]. split; [exact I|]. split; [exact HR'|].
      cbn [afree set_aslot]. split; [|apply incl_refl].
      intros F' i HF'. apply Hdata; [assumption | right; discriminate].
  - (* PageDirectoryTable.Map *)
    destruct Hd as (Hk & Hsl & H1 & H2 & H3). rewrite (slot_small k Hk).
    destruct (aslot a k) as [T|] eqn:Ek; [|congruence]. destruct (r_slot _ _ _ HR k T Ek) as [Hpd HT].
    unfold AMapStep. destruct (N.eqb_spec T (aact a)) as [ETA|HTA].
    + (* the table is the active one *)
      unfold pdt_map. rewrite with_pdt_active by (rewrite Hpd, (r_act _ _ _ HR); symmetry; exact ETA).
      assert (Hact: pdts s k = N.shiftr (cr3 s) 12) by (rewrite Hpd, (r_act _ _ _ HR); exact ETA).
      destruct (aguard a f fl) eqn:Hg.
      * rewrite (map_page_guarded p f fl s) by (rewrite (aguard_zero s a g f fl HR); exact Hg).
        exists (E_ZERO_RW, 0), s, a, g. fin6 ltac:(split; reflexivity) ltac:(intros _ i; reflexivity) HR (fun (F i : N) (_ : In F (afree a)) => @eq_refl N (ent s F i)).
      * destruct (r_map s a g p f fl HR H1 H2 H3 Hg) as (s' & err & g' & Hrun & Hcase & Hdata). rewrite Hrun. rewrite ETA.
        destruct Hcase as [(E & HR') | (E & HR')]; subst err.
        -- exists (0, 0), s', (a_map a (aact a) p f fl (frame_addr p)), g'. fin6 ltac:(left; split; reflexivity) ltac:(intros Hne; exfalso; exact (Hne Hact)) HR' Hdata.
        -- exists (E_ALLOC, 0), s', a, g'. fin6 ltac:(right; split; reflexivity) ltac:(intros Hne; exfalso; exact (Hne Hact)) HR' Hdata.
    + destruct (r_pdt_map_inactive s a g k T p f fl HR Ek HTA H1 H2 H3) as (s' & err & g' & Hrun & Hcase & Hdata & Hroot). rewrite Hrun.
      assert (Hc': pdts s k <> N.shiftr (cr3 s) 12 -> forall i, ent s' (N.shiftr (cr3 s) 12) i = ent s (N.shiftr (cr3 s) 12) i).
      { intros _. rewrite (r_act _ _ _ HR). exact Hroot. }
      destruct Hcase as [(E & Hg & HR') | [(E & Hg & HR') | (E & Hg & HR')]]; subst err.
      * exists (0, 0), s', (a_map_inactive a T p f fl), g'. fin6 ltac:(left; split; [reflexivity|]; split; [exact Hg | reflexivity]) ltac:(exact Hc') HR' Hdata.
      * exists (E_ALLOC, 0), s', (a_touch_inactive a), g'. fin6 ltac:(right; left; split; [reflexivity|]; split; [exact Hg | reflexivity]) ltac:(exact Hc') HR' Hdata.
      * exists (E_ZERO_RW, 0), s', (a_touch_inactive a), g'. fin6 ltac:(right; right; split; [reflexivity|]; split; [exact Hg | reflexivity]) ltac:(exact Hc') HR' Hdata.
  - (* PageDirectoryTable.Unmap *)
    destruct Hd as (Hk & Hsl & H1). rewrite (slot_small k Hk).
    destruct (aslot a k) as [T|] eqn:Ek; [|congruence]. destruct (r_slot _ _ _ HR k T Ek) as [Hpd HT].
    unfold AUnmapStep. destruct (N.eqb_spec T (aact a)) as [ETA|HTA].
    + unfold pdt_unmap. rewrite with_pdt_active by (rewrite Hpd, (r_act _ _ _ HR); symmetry; exact ETA).
      assert (Hact: pdts s k = N.shiftr (cr3 s) 12) by (rewrite Hpd, (r_act _ _ _ HR); exact ETA).
      destruct (r_unmap s a g p HR H1) as (s' & err & g' & Hrun & Hcase & Hdata). rewrite Hrun. rewrite ETA.
      destruct Hcase as [(E & HR') | (E & HR' & Hn)]; subst err.
      * exists (0, 0), s', (a_unmap a (aact a) p (frame_addr p)), g'. fin6 ltac:(left; split; reflexivity) ltac:(intros Hne; exfalso; exact (Hne Hact)) HR' Hdata.
      * exists (E_INVALID, 0), s', a, g'. fin6 ltac:(right; split; [reflexivity|]; split; [reflexivity | exact Hn]) ltac:(intros Hne; exfalso; exact (Hne Hact)) HR' Hdata.
    + destruct (r_pdt_unmap_inactive s a g k T p HR Ek HTA H1) as (s' & err & g' & Hrun & Hcase & Hdata & Hroot). rewrite Hrun.
      assert (Hc': pdts s k <> N.shiftr (cr3 s) 12 -> forall i, ent s' (N.shiftr (cr3 s) 12) i = ent s (N.shiftr (cr3 s) 12) i).
      { intros _. rewrite (r_act _ _ _ HR). exact Hroot. }
      destruct Hcase as [(E & HR') | (E & Hn & HR')]; subst err.
      * exists (0, 0), s', (a_unmap_inactive a T p), g'. fin6 ltac:(left; split; reflexivity) ltac:(exact Hc') HR' Hdata.
      * exists (E_INVALID, 0), s', (a_touch_inactive a), g'. fin6 ltac:(right; split; [reflexivity|]; split; [exact Hn | reflexivity]) ltac:(exact Hc') HR' Hdata.
  - (* Activate *)
    destruct Hd as (Hk & Hsl). rewrite (slot_small k Hk).
    destruct (aslot a k) as [T|] eqn:Ek; [|congruence].
    destruct (r_activate s a g k T HR Ek) as [HR' Hent].
    exists (0, 0), (pdt_activate k s), (set_aact a T), g.
    fin6 ltac:(split; reflexivity) ltac:(exact I) HR' (fun (F i : N) (_ : In F (afree a)) => Hent F i).
  - (* reserveZeroedFrame *)
    destruct (r_arm s a g HR Hd) as (s' & err & a' & g' & Hrun & HA & HR' & Hdata & Hzero). rewrite Hrun.
    exists (err, zf s'), s', a', g'. cbn [fst snd].
    split; [reflexivity|]. split; [exact HA|]. split; [exact I|]. split; [exact HR'|]. split.
    + intros F i HF _. exact (Hdata F i HF).
    + intros _ E. exact (Hzero E).
Qed.

(** what a step of the abstract machine leaves alone *)
Lemma a_range_frame fl R : forall j a p0 f0,
  aroots (a_range a R p0 f0 fl j) = aroots a /\ aprot (a_range a R p0 f0 fl j) = aprot a /\
  azf (a_range a R p0 f0 fl j) = azf a /\ apool (a_range a R p0 f0 fl j) = apool a.
Proof.
  induction j as [|j IH]; intros a p0 f0; [repeat split|]. cbn [a_range].
  destruct (IH (a_map a R p0 f0 fl (frame_addr p0)) (p0 + 1) (f0 + 1)) as (I1 & I2 & I3 & I4).
  rewrite I1, I2, I3, I4. repeat split.
Qed.

Lemma astep_frame o r a a' :
  AStep o r a a' -> o <> QArm ->
  aprot a' = aprot a /\ azf a' = azf a /\ apool a' = apool a /\ incl (aroots a) (aroots a') /\
  (forall F, In F (afree a) -> In F (afree a') \/ In F (aroots a')).
Proof.
  intros HA Hne.
  assert (Same: forall x, aprot x = aprot a -> azf x = azf a -> apool x = apool a -> aroots x = aroots a -> afree x = afree a ->
                aprot x = aprot a /\ azf x = azf a /\ apool x = apool a /\ incl (aroots a) (aroots x) /\
                (forall F, In F (afree a) -> In F (afree x) \/ In F (aroots x))).
  { intros x E1 E2 E3 E4 E5. rewrite E1, E2, E3, E4, E5. repeat split; [apply incl_refl | intros F HF; left; exact HF]. }
  assert (MapS: forall R p f fl x, AMapStep a R p f fl r x ->
                aprot x = aprot a /\ azf x = azf a /\ apool x = apool a /\ incl (aroots a) (aroots x) /\
                (forall F, In F (afree a) -> In F (afree x) \/ In F (aroots x))).
  { intros R p f fl x H. unfold AMapStep in H. destruct (R =? aact a).
    - destruct (aguard a f fl); [destruct H as (_ & ->); apply Same; reflexivity|].
      destruct H as [(_ & ->) | (_ & ->)]; apply Same; reflexivity.
    - destruct H as [(_ & _ & ->) | [(_ & _ & ->) | (_ & _ & ->)]]; apply Same; reflexivity. }
  assert (UnmapS: forall R p x, AUnmapStep a R p r x ->
                aprot x = aprot a /\ azf x = azf a /\ apool x = apool a /\ incl (aroots a) (aroots x) /\
                (forall F, In F (afree a) -> In F (afree x) \/ In F (aroots x))).
  { intros R p x H. unfold AUnmapStep in H. destruct (R =? aact a).
    - destruct H as [(_ & ->) | (_ & -> & _)]; apply Same; reflexivity.
    - destruct H as [(_ & ->) | (_ & _ & ->)]; apply Same; reflexivity. }
  destruct o as [p f fl | p | va | f | f sz fl | f sz fl | k F | k p f fl | k p | k |]; cbn [AStep] in HA; [.. | congruence].
  - exact (MapS _ _ _ _ _ HA).
  - exact (UnmapS _ _ _ HA).
  - destruct HA as (_ & ->). apply Same; reflexivity.
  - destruct HA as [(_ & _ & ->) | [(_ & _ & ->) | (_ & _ & ->)]]; apply Same; reflexivity.
  - destruct (reserve_spec (alast a) sz) as [[a0 len]|]; [|destruct HA as (_ & ->); apply Same; reflexivity].
    destruct HA as (j & -> & _).
    destruct (a_range_frame fl (aact a) j (set_alast a a0) (a0 / 4096) f) as (I1 & I2 & I3 & I4).
    apply Same; try assumption. exact (proj2 (a_range_act _ _ _ _ _ _)).
  - destruct HA as (j & -> & _).
    destruct (a_range_frame fl (aact a) j a f f) as (I1 & I2 & I3 & I4).
    apply Same; try assumption. exact (proj2 (a_range_act _ _ _ _ _ _)).
  - destruct HA as [(_ & ->) | (_ & ->)]; [|apply Same; reflexivity].
    cbn [aprot azf apool aroots afree a_init]. repeat split.
    + intros R HR. right. exact HR.
    + intros F' HF'. destruct (N.eq_dec F' F) as [->|Hn]; [right; left; reflexivity | left; apply in_in_remove; assumption].
  - destruct (aslot a k); [exact (MapS _ _ _ _ _ HA) | contradiction].
  - destruct (aslot a k); [exact (UnmapS _ _ _ HA) | contradiction].
  - destruct (aslot a k); [|contradiction]. destruct HA as (_ & ->). apply Same; reflexivity.
Qed.

Lemma aarm_frame a r a' :
  AArm a r a' -> incl (apool a') (apool a) /\ aroots a' = aroots a /\ incl (afree a) (afree a').
Proof.
  intros [(_ & ->) | (F & _ & _ & _ & [(_ & ->) | (_ & ->)])]; cbn; repeat split; try apply incl_refl;
    try (intros x Hx; right; exact Hx); intros x Hx; apply in_remove in Hx; tauto.
Qed.

Lemma astep_mono o r a a' :
  AStep o r a a' -> incl (aroots a) (aroots a') /\ (forall F, In F (afree a) -> In F (afree a') \/ In F (aroots a')).
Proof.
  intros HA. destruct (qop_eq_arm o) as [->|Hne].
  - destruct (aarm_frame a r a' HA) as (_ & E & Hi). rewrite E. split; [apply incl_refl|]. intros F HF. left. apply Hi. exact HF.
  - destruct (astep_frame o r a a' HA Hne) as (_ & _ & _ & H1 & H2). split; assumption.
Qed.

(** a run of the executable model together with a run of the abstract machine *)
(** histories are adaptive: the client sees the answer (error, value) of a request before choosing the next one -
    a plain list of requests is the special case [of_list] *)
Inductive hist :=
| HDone
| HOp (o : qop) (k : N * N -> hist).

Fixpoint of_list (ops : list qop) : hist :=
  match ops with
  | [] => HDone
  | o :: r => HOp o (fun _ => of_list r)
  end.

(** a run: every request is executed by the model's [step]; the abstract machine takes an [AStep] with the same answer *)
Inductive Steps : hist -> st -> ast -> list (qop * (N * N)) -> st -> ast -> Prop :=
| Steps_nil s a : Steps HDone s a [] s a
| Steps_cons o k s a r s1 a1 rs s' a' :
    step (to_op o) s = Ok (s1, fst r, snd r) -> AStep o r a a1 -> cstep_ok o s s1 ->
    Steps (k r) s1 a1 rs s' a' -> Steps (HOp o k) s a ((o, r) :: rs) s' a'.

(** every request satisfies [P] in whatever abstract state the history has reached *)
Fixpoint hsafe (P : qop -> ast -> Prop) (h : hist) (a : ast) : Prop :=
  match h with
  | HDone => True
  | HOp o k => P o a /\ forall res a', AStep o res a a' -> hsafe P (k res) a'
  end.

Definition qsafe : hist -> ast -> Prop := hsafe qdom.

Lemma hsafe_weaken (P Q : qop -> ast -> Prop) : (forall o a, P o a -> Q o a) -> forall h a, hsafe P h a -> hsafe Q h a.
Proof.
  intros HPQ. induction h as [|o k IH]; intros a H; [exact I|]. destruct H as [H1 H2].
  split; [apply HPQ; exact H1|]. intros res a' HA. apply IH. exact (H2 res a' HA).
Qed.

Lemma free_not_root s a g F : Rel s a g -> In F (afree a) -> ~ In F (aroots a).
Proof.
  intros HR HF Hr. destruct (r_free _ _ _ HR F HF) as (_ & B2 & _).
  rewrite (root_owned s _ g F (r_g _ _ _ HR) Hr) in B2. discriminate.
Qed.

Theorem histories_full h : forall s a g,
  Rel s a g -> qsafe h a ->
  exists rs s' a' g',
    Steps h s a rs s' a' /\ Rel s' a' g' /\
    (forall F i, In F (afree a) -> In F (afree a') -> ent s' F i = ent s F i) /\ incl (aroots a) (aroots a').
Proof.
  induction h as [|o k IH]; intros s a g HR Hs.
  - exists [], s, a, g. split; [constructor|]. split; [exact HR|]. split; [reflexivity | apply incl_refl].
  - destruct Hs as [Hd Hnext].
    destruct (step_refines o s a g HR Hd) as (res & s1 & a1 & g1 & Hrun & HA & Hc & HR1 & Hdata & _).
    destruct (IH res s1 a1 g1 HR1 (Hnext res a1 HA)) as (rs & s' & a' & g' & HS & HR' & Hdata' & Hincl').
    destruct (astep_mono o res a a1 HA) as [Hr1 Hf1].
    exists ((o, res) :: rs), s', a', g'. split; [econstructor; eassumption|]. split; [exact HR'|]. split.
    + intros F i HF HF'. destruct (Hf1 F HF) as [H1|H1].
      * rewrite (Hdata' F i H1 HF'). exact (Hdata F i HF H1).
      * exfalso. exact (free_not_root s' a' g' F HR' HF' (Hincl' F H1)).
    + intros R HRr. apply Hincl'. apply Hr1. exact HRr.
Qed.

(** the model's [step] is a function, so the run is unique: any run of [h] from [s] produces the same answers and
    the same final concrete state *)
Lemma Steps_det h : forall s a rs s' a' b rs2 s2 b2,
  Steps h s a rs s' a' -> Steps h s b rs2 s2 b2 -> rs = rs2 /\ s' = s2.
Proof.
  induction h as [|o k IH]; intros s a rs s' a' b rs2 s2 b2 H1 H2.
  - inversion H1; inversion H2; subst. split; reflexivity.
  - inversion H1 as [|? ? ? ? r1 t1 a1 rs1' ? ? Hr1 _ _ Hs1]; subst.
    inversion H2 as [|? ? ? ? r2 t2 a2 rs2' ? ? Hr2 _ _ Hs2]; subst.
    rewrite Hr1 in Hr2. injection Hr2 as E1 E2 E3. subst t2.
    assert (r1 = r2) by (destruct r1, r2; cbn in *; congruence). subst r2.
    destruct (IH r1 _ _ _ _ _ _ _ _ _ Hs1 Hs2) as [-> ->]. split; reflexivity.
Qed.

(** * The boot state implements the empty abstract machine *)
Definition a_boot (lo0 l0 : N) (free pool : list N) : ast :=
  mkA (fun _ _ => None) lo0 [] (fun _ => None) l0 [lo0] free false 0 pool.

Lemma rel_boot lo0 cnt0 last0 oracle free pool :
  0 < cnt0 -> lo0 + cnt0 <= 2 ^ 40 ->
  NoDup (ofr oracle) -> (forall f, In f oracle -> f <> 0 -> lo0 < f /\ f < lo0 + cnt0) ->
  (forall F, In F free -> lo0 < F /\ F < lo0 + cnt0 /\ ~ In F oracle) ->
  WFstart (if last0 =? 0 then vmm_tempMappingAddr else last0) -> incl oracle pool ->
  Rel (init_state lo0 cnt0 last0 oracle) (a_boot lo0 (if last0 =? 0 then vmm_tempMappingAddr else last0) free pool)
      (fun f => if f =? lo0 then Some (lo0, []) else None).
Proof.
  intros Hc Har Hnd Hor Hfree Hw Hpl.
  pose proof (Inv_init lo0 cnt0 last0 oracle Hc Har Hnd Hor) as HI.
  set (s := init_state lo0 cnt0 last0 oracle) in *.
  set (g0 := fun f => if f =? lo0 then Some (lo0, []) else None).
  assert (Ecr: N.shiftr (cr3 s) 12 = lo0) by exact (inv_cr3 _ _ _ _ HI).
  assert (Hz: forall i, i <> 511 -> ent s lo0 i = 0).
  { intros i Hi. unfold s, init_state, ent. cbn [mem]. rewrite rd_wr, rd_zero, N.eqb_refl.
    destruct (N.eqb_spec i 511); [congruence | reflexivity]. }
  split; cbn [aroots am aact atlb aslot alast afree aprot azf apool a_boot]; try reflexivity.
  - split.
    + intros R [<-|[]]. apply (WF_ext s lo0 (own_root lo0)); [|exact (inv_wf _ _ _ _ HI)].
      intros f. unfold own_root, proj, g0. destruct (N.eqb_spec f lo0); [rewrite N.eqb_refl|]; reflexivity.
    + intros f R p. unfold g0. destruct (N.eqb_spec f lo0); [|discriminate]. intros E; inversion E. left. reflexivity.
    + exact Hnd.
    + intros f Hin Hz0. destruct (Hor f Hin Hz0) as [H1 H2]. split; [unfold backed; cbn [lo cnt s init_state]; lia|].
      unfold g0. destruct (N.eqb_spec f lo0); [lia | reflexivity].
    + rewrite Ecr. left. reflexivity.
  - exact Ecr.
  - intros R [<-|[]] q Hq. unfold translation. rewrite (empty_space s lo0 Hz q Hq). reflexivity.
  - exact Hw.
  - intros k R E. discriminate.
  - intros F HF. destruct (Hfree F HF) as (H1 & H2 & H3). split; [unfold backed; cbn [lo cnt s init_state]; lia|].
    split; [unfold g0; destruct (N.eqb_spec F lo0); [lia | reflexivity] | exact H3].
  - intros F HF _. apply Hpl. exact HF.
Qed.

(** * Corollary: the zero frame over the richer operation set (C06) *)
Definition azero_ok (a : ast) : Prop :=
  forall R k fl, am a R k = Some (azf a, fl) -> N.testbit fl 1 = false.

Lemma leafv_zero a f fl fl' :
  aprot a = true -> aguard a f fl = false -> leafv f fl = Some (azf a, fl') -> N.testbit fl' 1 = false.
Proof.
  intros Hp Hg. unfold leafv. destruct (N.testbit fl 0); [|discriminate]. intros E. injection E as E1 E2. subst f fl'.
  unfold aguard in Hg. rewrite Hp, N.eqb_refl in Hg. cbn [andb] in Hg. rewrite wants_rw_bit in Hg. exact Hg.
Qed.

Lemma azero_map a R p f fl va :
  aprot a = true -> azero_ok a -> aguard a f fl = false -> azero_ok (a_map a R p f fl va).
Proof.
  intros Hp Hz Hg R' k fl'. cbn [am azf a_map set_tlb set_am].
  destruct (R' =? R); [|apply Hz]. unfold aupd. destruct (list_eq_dec N.eq_dec k (ixs p)); [|apply Hz].
  apply (leafv_zero a f fl fl' Hp Hg).
Qed.

Lemma azero_range fl R : forall j a p0 f0,
  aprot a = true -> azero_ok a -> (forall i, (i < j)%nat -> aguard a (f0 + N.of_nat i) fl = false) ->
  azero_ok (a_range a R p0 f0 fl j) /\ aprot (a_range a R p0 f0 fl j) = true /\ azf (a_range a R p0 f0 fl j) = azf a /\
  afree (a_range a R p0 f0 fl j) = afree a.
Proof.
  induction j as [|j IH]; intros a p0 f0 Hp Hz Hg; [repeat split; assumption|]. cbn [a_range].
  pose proof (Hg 0%nat ltac:(lia)) as Hg0. rewrite N.add_0_r in Hg0.
  destruct (IH (a_map a R p0 f0 fl (frame_addr p0)) (p0 + 1) (f0 + 1)) as (I1 & I2 & I3 & I4).
  - exact Hp.
  - apply azero_map; assumption.
  - intros i Hi. replace (f0 + 1 + N.of_nat i) with (f0 + N.of_nat (S i)) by lia. exact (Hg (S i) ltac:(lia)).
  - repeat split; assumption.
Qed.

Lemma astep_zero o r a a' :
  aprot a = true -> azero_ok a -> In (azf a) (afree a) -> qdom o a -> AStep o r a a' ->
  aprot a' = true /\ azero_ok a' /\ azf a' = azf a /\ In (azf a') (afree a').
Proof.
  intros Hp Hz Hin Hd HA.
  assert (Same: forall x, x = a -> aprot x = true /\ azero_ok x /\ azf x = azf a /\ In (azf x) (afree x)) by (intros x ->; repeat split; assumption).
  assert (Touch: aprot (a_touch_inactive a) = true /\ azero_ok (a_touch_inactive a) /\ azf (a_touch_inactive a) = azf a /\ In (azf (a_touch_inactive a)) (afree (a_touch_inactive a))) by (repeat split; assumption).
  assert (MapS: forall R p f fl rr x, AMapStep a R p f fl rr x -> aprot x = true /\ azero_ok x /\ azf x = azf a /\ In (azf x) (afree x)).
  { intros R p f fl rr x H. unfold AMapStep in H. destruct (R =? aact a).
    - destruct (aguard a f fl) eqn:Hg; [apply Same; tauto|]. destruct H as [(_ & ->) | (_ & ->)]; [|apply Same; reflexivity].
      split; [exact Hp|]. split; [apply azero_map; assumption|]. split; [reflexivity | exact Hin].
    - destruct H as [(_ & Hg & ->) | [(_ & _ & ->) | (_ & _ & ->)]]; [|exact Touch | exact Touch].
      split; [exact Hp|]. split; [|split; [reflexivity | exact Hin]].
      intros R' k fl'. cbn [am azf a_map_inactive set_tlb set_am].
      destruct (R' =? R); [|apply Hz]. unfold aupd. destruct (list_eq_dec N.eq_dec k (ixs p)); [|apply Hz].
      apply (leafv_zero a f fl fl' Hp Hg). }
  assert (UnmapS: forall R p rr x, AUnmapStep a R p rr x -> aprot x = true /\ azero_ok x /\ azf x = azf a /\ In (azf x) (afree x)).
  { intros R p rr x H. unfold AUnmapStep in H.
    assert (U: forall tl, azero_ok (set_tlb (set_am a R (aupd (am a R) (ixs p) None)) tl)).
    { intros tl R' k fl'. cbn [am azf set_tlb set_am]. destruct (R' =? R); [|apply Hz]. unfold aupd.
      destruct (list_eq_dec N.eq_dec k (ixs p)); [discriminate | apply Hz]. }
    destruct (R =? aact a).
    - destruct H as [(_ & ->) | (_ & -> & _)]; [|apply Same; reflexivity].
      split; [exact Hp|]. split; [apply U|]. split; [reflexivity | exact Hin].
    - destruct H as [(_ & ->) | (_ & _ & ->)]; [|exact Touch].
      split; [exact Hp|]. split; [apply U|]. split; [reflexivity | exact Hin]. }
  destruct o as [p f fl | p | va | f | f sz fl | f sz fl | k F | k p f fl | k p | k |]; cbn [AStep qdom] in *; [.. | congruence].
  - exact (MapS _ _ _ _ _ _ HA).
  - exact (UnmapS _ _ _ _ HA).
  - apply Same. tauto.
  - destruct HA as [(_ & _ & ->) | [(_ & Hg & ->) | (_ & _ & ->)]]; [apply Same; reflexivity | | apply Same; reflexivity].
    split; [exact Hp|]. split; [apply azero_map; assumption|]. split; [reflexivity | exact Hin].
  - destruct Hd as (_ & Hdom). destruct (reserve_spec (alast a) sz) as [[a0 len]|]; [|apply Same; tauto].
    destruct HA as (j & -> & Hj). destruct Hdom as (_ & _ & Hdom).
    destruct (azero_range fl (aact a) j (set_alast a a0) (a0 / 4096) f Hp Hz) as (I1 & I2 & I3 & I4).
    + intros i Hi. apply (Hdom i). destruct Hj as [(_ & ->) | (_ & Hlt)]; lia.
    + split; [exact I2|]. split; [exact I1|]. split; [exact I3|]. rewrite I3, I4. exact Hin.
  - destruct Hd as (_ & _ & _ & Hdom). destruct HA as (j & -> & Hj).
    destruct (azero_range fl (aact a) j a f f Hp Hz) as (I1 & I2 & I3 & I4).
    + intros i Hi. apply (Hdom i). destruct Hj as [(_ & ->) | (_ & Hlt)]; lia.
    + split; [exact I2|]. split; [exact I1|]. split; [exact I3|]. rewrite I3, I4. exact Hin.
  - destruct Hd as (_ & HF & Hg). destruct HA as [(_ & ->) | (_ & ->)]; [|repeat split; assumption].
    split; [exact Hp|]. split; [|split; [reflexivity|]].
    + intros R k' fl'. cbn [am azf a_init]. destruct (R =? F); [discriminate|].
      destruct (R =? aact a); [|apply Hz]. unfold aupd. destruct (list_eq_dec N.eq_dec k' (ixs temp_page)); [discriminate | apply Hz].
    + cbn [afree azf a_init]. apply in_in_remove; [|exact Hin].
      intros E. unfold aguard in Hg. rewrite Hp, <- E, N.eqb_refl, P_RW_wants in Hg. discriminate.
  - destruct (aslot a k); [exact (MapS _ _ _ _ _ _ HA) | contradiction].
  - destruct (aslot a k); [exact (UnmapS _ _ _ _ HA) | contradiction].
  - destruct (aslot a k); [|contradiction]. destruct HA as (_ & ->). repeat split; assumption.
Qed.

(** frames of the physical allocator are handed out only by the allocator: the client does not ask to map them *)
Definition qavoid (o : qop) (a : ast) : Prop :=
  match o with
  | QMap _ f _ | QMapTemp f | QPdtMap _ _ f _ => ~ In f (apool a)
  | QMapRegion f sz _ | QIdMapRegion f sz _ => forall i, (i < N.to_nat (ceil_pages sz))%nat -> ~ In (f + N.of_nat i) (apool a)
  | _ => True
  end.

(** no address space maps a frame that still belongs to the allocator *)
Definition NP (a : ast) : Prop := forall R k F fl, am a R k = Some (F, fl) -> ~ In F (apool a).

Lemma np_set_am a R k f fl : NP a -> ~ In f (apool a) -> forall tl, NP (set_tlb (set_am a R (aupd (am a R) k (leafv f fl))) tl).
Proof.
  intros Hn Hf tl R' k' F fl'. cbn [am apool set_tlb set_am]. destruct (R' =? R); [|apply Hn].
  unfold aupd. destruct (list_eq_dec N.eq_dec k' k); [|apply Hn].
  unfold leafv. destruct (N.testbit fl 0); [|discriminate]. intros E. injection E as <- _. exact Hf.
Qed.

Lemma np_set_none a R k : NP a -> forall tl, NP (set_tlb (set_am a R (aupd (am a R) k None)) tl).
Proof.
  intros Hn tl R' k' F fl'. cbn [am apool set_tlb set_am]. destruct (R' =? R); [|apply Hn].
  unfold aupd. destruct (list_eq_dec N.eq_dec k' k); [discriminate | apply Hn].
Qed.

Lemma np_range fl R : forall j a p0 f0,
  NP a -> (forall i, (i < j)%nat -> ~ In (f0 + N.of_nat i) (apool a)) -> NP (a_range a R p0 f0 fl j).
Proof.
  induction j as [|j IH]; intros a p0 f0 Hn Hf; [exact Hn|]. cbn [a_range]. apply IH.
  - apply np_set_am; [exact Hn|]. pose proof (Hf 0%nat ltac:(lia)) as H0. rewrite N.add_0_r in H0. exact H0.
  - intros i Hi. replace (f0 + 1 + N.of_nat i) with (f0 + N.of_nat (S i)) by lia. exact (Hf (S i) ltac:(lia)).
Qed.

Lemma astep_np o r a a' : qavoid o a -> NP a -> AStep o r a a' -> NP a'.
Proof.
  intros Hq Hn HA.
  assert (MapS: forall R p f fl x, ~ In f (apool a) -> AMapStep a R p f fl r x -> NP x).
  { intros R p f fl x Hf H. unfold AMapStep in H. destruct (R =? aact a).
    - destruct (aguard a f fl); [destruct H as (_ & ->); exact Hn|].
      destruct H as [(_ & ->) | (_ & ->)]; [apply np_set_am; assumption | exact Hn].
    - destruct H as [(_ & _ & ->) | [(_ & _ & ->) | (_ & _ & ->)]]; [apply np_set_am; assumption | exact Hn | exact Hn]. }
  assert (UnmapS: forall R p x, AUnmapStep a R p r x -> NP x).
  { intros R p x H. unfold AUnmapStep in H. destruct (R =? aact a).
    - destruct H as [(_ & ->) | (_ & -> & _)]; [apply np_set_none; exact Hn | exact Hn].
    - destruct H as [(_ & ->) | (_ & _ & ->)]; [apply np_set_none; exact Hn | exact Hn]. }
  destruct o as [p f fl | p | va | f | f sz fl | f sz fl | k F | k p f fl | k p | k |]; cbn [AStep qavoid] in *.
  - exact (MapS _ _ _ _ _ Hq HA).
  - exact (UnmapS _ _ _ HA).
  - destruct HA as (_ & ->). exact Hn.
  - destruct HA as [(_ & _ & ->) | [(_ & _ & ->) | (_ & _ & ->)]]; [exact Hn | apply np_set_am; assumption | exact Hn].
  - destruct (reserve_spec (alast a) sz) as [[a0 len]|]; [|destruct HA as (_ & ->); exact Hn].
    destruct HA as (j & -> & Hj). apply np_range; [exact Hn|]. intros i Hi. apply Hq. destruct Hj as [(_ & ->) | (_ & Hlt)]; lia.
  - destruct HA as (j & -> & Hj). apply np_range; [exact Hn|]. intros i Hi. apply Hq. destruct Hj as [(_ & ->) | (_ & Hlt)]; lia.
  - destruct HA as [(_ & ->) | (_ & ->)]; [|exact Hn].
    intros R k' F' fl'. cbn [am apool a_init]. destruct (R =? F); [discriminate|].
    destruct (R =? aact a); [|apply Hn]. unfold aupd. destruct (list_eq_dec N.eq_dec k' (ixs temp_page)); [discriminate | apply Hn].
  - destruct (aslot a k); [exact (MapS _ _ _ _ _ Hq HA) | contradiction].
  - destruct (aslot a k); [exact (UnmapS _ _ _ HA) | contradiction].
  - destruct (aslot a k); [|contradiction]. destruct HA as (_ & ->). exact Hn.
  - assert (Hrm: forall F F', ~ In F' (apool a) -> ~ In F' (remove N.eq_dec F (apool a))).
    { intros F F' H Hin. apply in_remove in Hin. tauto. }
    destruct HA as [(_ & ->) | (F & _ & _ & _ & [(_ & ->) | (_ & ->)])]; [exact Hn | | intros R k F' fl' E; apply Hrm; exact (Hn R k F' fl' E)].
    intros R k F' fl'. unfold a_arm, a_unmap, a_map. cbn [am apool set_aprot set_tlb set_am set_azf add_free aact].
    destruct (R =? aact a); [|intros E; apply Hrm; exact (Hn _ _ _ _ E)]. rewrite N.eqb_refl. unfold aupd.
    destruct (list_eq_dec N.eq_dec k (ixs temp_page)); [discriminate | intros E; apply Hrm; exact (Hn _ _ _ _ E)].
Qed.

(** the abstract zero-frame invariant: once armed, no address space maps the zero frame writable, and it is a data frame *)
Definition ZI (a : ast) : Prop := aprot a = true -> azero_ok a /\ In (azf a) (afree a).

Lemma astep_zi o r a a' : qdom o a -> NP a -> ZI a -> AStep o r a a' -> ZI a'.
Proof.
  intros Hd Hn Hz HA. destruct (qop_eq_arm o) as [->|Hne].
  - cbn [AStep qdom] in *. destruct HA as [(_ & ->) | (F & _ & HFp & _ & [(_ & ->) | (_ & ->)])]; intros Hp'; cbn in Hp'; try congruence.
    split; [|left; reflexivity].
    intros R k fl. unfold a_arm, a_unmap, a_map. cbn [am azf set_aprot set_tlb set_am set_azf add_free aact].
    assert (H: forall R' fl', am a R' k <> Some (F, fl')) by (intros R' fl' E; exact (Hn R' k F fl' E HFp)).
    destruct (R =? aact a); [|intros E; exfalso; exact (H _ fl E)].
    rewrite N.eqb_refl. unfold aupd. destruct (list_eq_dec N.eq_dec k (ixs temp_page)); [discriminate | intros E; exfalso; exact (H _ fl E)].
  - destruct (astep_frame o r a a' HA Hne) as (E1 & E2 & _). intros Hp'. rewrite E1 in Hp'.
    destruct (Hz Hp') as [Z1 Z2]. destruct (astep_zero o r a a' Hp' Z1 Z2 Hd HA) as (_ & Z1' & _ & Z2'). split; assumption.
Qed.

(** over any history of the full operation set, the zero frame being reserved anywhere in it: once the guard is armed,
    no address space ever maps the zero frame writable, and the frame stays all zeroes *)
Theorem histories_full_zero h : forall s a g,
  Rel s a g -> hsafe (fun o a => qdom o a /\ qavoid o a) h a -> NP a -> ZI a ->
  (aprot a = true -> forall i, ent s (azf a) i = 0) ->
  exists rs s' a' g',
    Steps h s a rs s' a' /\ Rel s' a' g' /\
    (prot s' = true ->
       (forall i, ent s' (zf s') i = 0) /\
       (forall R q fl, In R (aroots a') -> hw_idx q 0 <> 511 -> translation s' R q = Some (zf s', fl) -> N.testbit fl 1 = false)).
Proof.
  induction h as [|o k IH]; intros s a g HR Hs Hn Hz Hc.
  - exists [], s, a, g. split; [constructor|]. split; [exact HR|].
    rewrite (r_prot _ _ _ HR), (r_zf _ _ _ HR). intros Hp. split; [exact (Hc Hp)|].
    intros R q fl HRr Hq Htr. rewrite (r_tr _ _ _ HR R HRr q Hq) in Htr. exact (proj1 (Hz Hp) R _ fl Htr).
  - destruct Hs as [[Hd Hav] Hnext].
    destruct (step_refines o s a g HR Hd) as (res & s1 & a1 & g1 & Hrun & HA & Hcs & HR1 & Hdata & Hzero).
    pose proof (astep_np o res a a1 Hav Hn HA) as Hn1.
    pose proof (astep_zi o res a a1 Hd Hn Hz HA) as Hz1.
    assert (Hc1: aprot a1 = true -> forall i, ent s1 (azf a1) i = 0).
    { intros Hp1 i. destruct (qop_eq_arm o) as [->|Hne].
      - cbn [AStep qdom] in *. rewrite <- (r_zf _ _ _ HR1). apply Hzero; [reflexivity|].
        destruct HA as [(_ & ->) | (F & _ & _ & _ & [(-> & _) | (_ & ->)])]; cbn in Hp1; try congruence. reflexivity.
      - destruct (astep_frame o res a a1 HA Hne) as (E1 & E2 & _). rewrite E1 in Hp1.
        destruct (Hz Hp1) as [_ Z2]. destruct (Hz1 ltac:(rewrite E1; exact Hp1)) as [_ Z2'].
        rewrite E2 in *. rewrite (Hdata _ i Z2 Z2'). exact (Hc Hp1 i). }
    destruct (IH res s1 a1 g1 HR1 (Hnext res a1 HA) Hn1 Hz1 Hc1) as (rs & s' & a' & g' & HS & HR' & Hfin).
    exists ((o, res) :: rs), s', a', g'. split; [econstructor; eassumption|]. split; [exact HR' | exact Hfin].
Qed.

(** * Running a history with the executable model, from the boot state *)
Fixpoint run_hist (h : hist) (s : st) : R (list (qop * (N * N)) * st) :=
  match h with
  | HDone => Ok ([], s)
  | HOp o k =>
      match step (to_op o) s with
      | Stray => Stray
      | Ok (s1, e, v) =>
          match run_hist (k (e, v)) s1 with
          | Stray => Stray
          | Ok (rs, s') => Ok ((o, (e, v)) :: rs, s')
          end
      end
  end.

Lemma Steps_run h : forall s a rs s' a', Steps h s a rs s' a' -> run_hist h s = Ok (rs, s').
Proof.
  induction h as [|o k IH]; intros s a rs s' a' H.
  - inversion H; subst. reflexivity.
  - inversion H as [|? ? ? ? r s1 a1 rs' ? ? Hr _ _ Hs]; subst. cbn [run_hist]. rewrite Hr.
    destruct r as [e v]. cbn [fst snd] in *. rewrite (IH (e, v) _ _ _ _ _ Hs). reflexivity.
Qed.

Section Boot.
  Variables (lo0 cnt0 last0 : N) (oracle free pool : list N).
  Let l0 := if last0 =? 0 then vmm_tempMappingAddr else last0.
  Hypothesis (Hc : 0 < cnt0) (Har : lo0 + cnt0 <= 2 ^ 40) (Hnd : NoDup (ofr oracle)).
  Hypothesis Hor : forall f, In f oracle -> f <> 0 -> lo0 < f /\ f < lo0 + cnt0.
  Hypothesis Hfree : forall F, In F free -> lo0 < F /\ F < lo0 + cnt0 /\ ~ In F oracle.
  Hypothesis (Hw : WFstart l0) (Hpl : incl oracle pool).

  (** any safe history from boot runs in the model without a stray access and refines the abstract machine *)
  Theorem boot_histories_full h :
    qsafe h (a_boot lo0 l0 free pool) ->
    exists rs s' a' g',
      run_hist h (init_state lo0 cnt0 last0 oracle) = Ok (rs, s') /\
      Steps h (init_state lo0 cnt0 last0 oracle) (a_boot lo0 l0 free pool) rs s' a' /\ Rel s' a' g'.
  Proof.
    intros Hs. pose proof (rel_boot lo0 cnt0 last0 oracle free pool Hc Har Hnd Hor Hfree Hw Hpl) as HR.
    destruct (histories_full h _ _ _ HR Hs) as (rs & s' & a' & g' & HS & HR' & _).
    exists rs, s', a', g'. split; [exact (Steps_run _ _ _ _ _ _ HS)|]. split; assumption.
  Qed.

  (** ... and once reserveZeroedFrame has succeeded somewhere in it, the zero frame is all zeroes and mapped writable nowhere *)
  Theorem boot_histories_zero h :
    hsafe (fun o a => qdom o a /\ qavoid o a) h (a_boot lo0 l0 free pool) ->
    exists rs s' a' g',
      run_hist h (init_state lo0 cnt0 last0 oracle) = Ok (rs, s') /\
      Steps h (init_state lo0 cnt0 last0 oracle) (a_boot lo0 l0 free pool) rs s' a' /\ Rel s' a' g' /\
      (prot s' = true ->
         (forall i, ent s' (zf s') i = 0) /\
         (forall R q fl, In R (aroots a') -> hw_idx q 0 <> 511 -> translation s' R q = Some (zf s', fl) -> N.testbit fl 1 = false)).
  Proof.
    intros Hs. pose proof (rel_boot lo0 cnt0 last0 oracle free pool Hc Har Hnd Hor Hfree Hw Hpl) as HR.
    destruct (histories_full_zero h _ _ _ HR Hs) as (rs & s' & a' & g' & HS & HR' & Hz).
    - intros R k F fl E. discriminate.
    - intros Hp. discriminate.
    - intros Hp. discriminate.
    - exists rs, s', a', g'. split; [exact (Steps_run _ _ _ _ _ _ HS)|]. split; [exact HS|]. split; assumption.
  Qed.
End Boot.


(** * What a failed request may change *)
(** a request that is answered with an error changes no translation of any address space - except the two region
    operations, which keep the pages they mapped before the allocator failed (and MapRegion keeps the reservation);
    the active root, the set of address spaces and the guard never change on failure *)
Lemma astep_failure o r a a' :
  AStep o r a a' -> fst r <> 0 ->
  aact a' = aact a /\ aroots a' = aroots a /\ aprot a' = aprot a /\
  match o with
  | QMapRegion f sz fl =>
      match reserve_spec (alast a) sz with
      | Some (a0, _) => exists j, (j < N.to_nat (ceil_pages sz))%nat /\ a' = a_range (set_alast a a0) (aact a) (a0 / 4096) f fl j
      | None => a' = a
      end
  | QIdMapRegion f sz fl => exists j, (j < N.to_nat (ceil_pages sz))%nat /\ a' = a_range a (aact a) f f fl j
  | _ => forall R k, am a' R k = am a R k
  end.
Proof.
  intros HA Hr.
  assert (MapS: forall R p f fl x, AMapStep a R p f fl r x ->
                aact x = aact a /\ aroots x = aroots a /\ aprot x = aprot a /\ forall R' k, am x R' k = am a R' k).
  { intros R p f fl x H. unfold AMapStep in H. destruct (R =? aact a).
    - destruct (aguard a f fl); [destruct H as (_ & ->); repeat split|].
      destruct H as [(-> & _) | (_ & ->)]; [exfalso; apply Hr; reflexivity | repeat split].
    - destruct H as [(-> & _) | [(_ & _ & ->) | (_ & _ & ->)]]; [exfalso; apply Hr; reflexivity | repeat split | repeat split]. }
  assert (UnmapS: forall R p x, AUnmapStep a R p r x ->
                aact x = aact a /\ aroots x = aroots a /\ aprot x = aprot a /\ forall R' k, am x R' k = am a R' k).
  { intros R p x H. unfold AUnmapStep in H. destruct (R =? aact a).
    - destruct H as [(-> & _) | (_ & -> & _)]; [exfalso; apply Hr; reflexivity | repeat split].
    - destruct H as [(-> & _) | (_ & _ & ->)]; [exfalso; apply Hr; reflexivity | repeat split]. }
  destruct o as [p f fl | p | va | f | f sz fl | f sz fl | k F | k p f fl | k p | k |]; cbn [AStep] in HA.
  - exact (MapS _ _ _ _ _ HA).
  - exact (UnmapS _ _ _ HA).
  - destruct HA as (_ & ->). repeat split.
  - destruct HA as [(_ & _ & ->) | [(-> & _) | (_ & _ & ->)]]; [repeat split | exfalso; apply Hr; reflexivity | repeat split].
  - destruct (reserve_spec (alast a) sz) as [[a0 len]|]; [|destruct HA as (_ & ->); repeat split].
    destruct HA as (j & -> & [(-> & _) | (_ & Hj)]); [exfalso; apply Hr; reflexivity|].
    destruct (a_range_frame fl (aact a) j (set_alast a a0) (a0 / 4096) f) as (I1 & I2 & _).
    split; [exact (proj1 (a_range_act _ _ _ _ _ _))|]. split; [exact I1|]. split; [exact I2|]. exists j. split; [exact Hj | reflexivity].
  - destruct HA as (j & -> & [(-> & _) | (_ & Hj)]); [exfalso; apply Hr; reflexivity|].
    destruct (a_range_frame fl (aact a) j a f f) as (I1 & I2 & _).
    split; [exact (proj1 (a_range_act _ _ _ _ _ _))|]. split; [exact I1|]. split; [exact I2|]. exists j. split; [exact Hj | reflexivity].
  - destruct HA as [(-> & _) | (_ & ->)]; [exfalso; apply Hr; reflexivity | repeat split].
  - destruct (aslot a k); [exact (MapS _ _ _ _ _ HA) | contradiction].
  - destruct (aslot a k); [exact (UnmapS _ _ _ HA) | contradiction].
  - destruct (aslot a k); [|contradiction]. destruct HA as (-> & _). exfalso; apply Hr; reflexivity.
  - destruct HA as [(_ & ->) | (F & _ & _ & _ & [(-> & _) | (_ & ->)])]; [repeat split | exfalso; apply Hr; reflexivity | repeat split].
Qed.

(** the pages a region operation maps, in the vocabulary of [mrange] (page by page: [mrange_pages]) *)
Lemma mrange_ext fl : forall n m1 m2 p f, (forall k, m1 k = m2 k) -> forall k, mrange m1 p f fl n k = mrange m2 p f fl n k.
Proof.
  induction n as [|n IH]; intros m1 m2 p f He k; [exact (He k)|]. cbn [mrange]. apply IH.
  intros k'. unfold aupd. destruct (list_eq_dec N.eq_dec k' (ixs p)); [reflexivity | apply He].
Qed.

Lemma a_range_am fl R : N.testbit fl 0 = true -> forall j a p0 f0 R' k,
  am (a_range a R p0 f0 fl j) R' k = if R' =? R then mrange (am a R) p0 f0 fl j k else am a R' k.
Proof.
  intros HP. induction j as [|j IH]; intros a p0 f0 R' k; cbn [a_range mrange].
  - destruct (N.eqb_spec R' R) as [->|]; reflexivity.
  - rewrite IH. unfold a_map. cbn [am set_tlb set_am]. destruct (N.eqb_spec R' R) as [->|Hne]; [|reflexivity].
    rewrite N.eqb_refl. apply mrange_ext. intros k'. unfold leafv. rewrite HP. reflexivity.
Qed.
