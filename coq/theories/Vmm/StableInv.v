(** The side conditions of the translation ties (Vmm/MapTrans.v [map_stable], Vmm/PdtTrans.v [init_stable],
    Vmm/FaultTrans.v [fault_stable]) hold on the whole domain of the C04 / C06 theorems: a well-formed page-table
    hierarchy ([Inv]: the tables form a tree with ghost ownership, the recursive slot is in place, allocator frames are
    fresh), the page outside the recursive window (top-level index <> 511), Init of a frame no tree uses, a fault on a
    page that shows a data frame.  The reason is always the same: the hardware walk that resolves the window address of
    an entry of table [t] goes through the recursive slot and the tables ABOVE [t] only, never through the entry that
    is being rewritten.  Proofs follow the level-by-level structure of Vmm/PtMap.v / PtCow.v. *)
From Coq Require Import NArith ZArith Lia List Bool.
From Coq Require Import ZifyBool ZifyN ZifyNat.
From FF Require Import Lib.Word Lib.GoOps Gen.Consts_mm_vmm Vmm.Region Vmm.Pt Vmm.PtMem Vmm.PtArith Vmm.PtTree Vmm.PtMap Vmm.PtAccess.
From FF Require Vmm.PtTemp Vmm.PtCow.
From FF Require Vmm.MapTrans Vmm.PdtTrans.
Module M := FF.Vmm.MapTrans.
Module P := FF.Vmm.PdtTrans.
Import ListNotations.
Local Open Scope N_scope.
Ltac Zify.zify_post_hook ::= Z.div_mod_to_equations.

Lemma ent_wr' s t i v f j : ent (wr_st s t i v) f j = if (f =? t) && (j =? i) then v else ent s f j.
Proof. unfold ent, wr_st. cbn [mem set_mem]. apply rd_wr. Qed.

(** in a well-formed hierarchy an entry off the recursive slot is still found at its window address after it has been
    overwritten with anything *)
Lemma entry_stable_inv s A T own pre t i :
  Inv s A T own -> follow s T pre = Some t -> own t = Some pre -> (length pre <= 3)%nat ->
  Forall (fun x => x < 512) pre -> i < 512 -> hd 0 (pre ++ [i]) <> 511 ->
  M.entry_stable s (add64 (wwin pre) (shl64 i 3)) t i.
Proof.
  intros HI Hf Ho Hl Hlt Hi Hhd x.
  pose proof (inv_wf _ _ _ _ HI) as W.
  destruct (hd_app_ne pre i Hhd) as [Hne Hhd0].
  set (s' := wr_st s t i x).
  assert (Hbk : forall f, backed s' f = backed s f) by reflexivity.
  assert (Hroot : forall r, (r = A \/ r = T) -> ent s' r 511 = ent s r 511).
  { intros r Hr. unfold s'. rewrite ent_wr'.
    destruct (N.eqb_spec r t) as [Ert|]; [|reflexivity].
    destruct (N.eqb_spec 511 i) as [E5|]; [|reflexivity]. exfalso.
    assert (Hpre : pre = []).
    { destruct Hr as [Hr|Hr].
      - destruct (inv_A _ _ _ _ HI) as [HA|HA].
        + rewrite <- Ert, Hr, HA, (wf_root _ _ _ W) in Ho. inversion Ho. reflexivity.
        + rewrite <- Ert, Hr, HA in Ho. discriminate.
      - rewrite <- Ert, Hr, (wf_root _ _ _ W) in Ho. inversion Ho. reflexivity. }
    apply Hne. rewrite Hpre, <- E5. reflexivity. }
  assert (HR : Rec s' A T).
  { destruct (inv_rec _ _ _ _ HI) as (R1 & R2 & R3 & R4 & R5 & R6). unfold Rec.
    rewrite !Hbk, (Hroot A) by (left; reflexivity). rewrite (Hroot T) by (right; reflexivity). repeat split; assumption. }
  assert (Hf' : follow s' T pre = Some t).
  { rewrite <- Hf. eapply (follow_frame s s' T own T []); try eassumption; try reflexivity.
    - exact (wf_root _ _ _ W).
    - intros f q j Hq _ Hlq. unfold s'. rewrite ent_wr'.
      destruct (N.eqb_spec f t) as [E|]; [|reflexivity]. rewrite E, Ho in Hq. inversion Hq as [E2]. rewrite <- E2 in Hlq.
      cbn [length] in Hlq. lia. }
  destruct (wf_owned _ _ _ W t pre Ho) as (Hb & _).
  eapply (resolve_entry s' A T pre t i); try eassumption.
  exact (inv_cr3 _ _ _ _ HI).
Qed.

Section Level.
  Variables (A T pg va : N).
  Hypothesis Hva : forall k, k <= 3 -> hw_idx (N.shiftr va 12) k = hw_idx pg k.

  Lemma map_stable_leaf pre s own t :
    length pre = 3%nat -> Pre A T pg pre s own t -> M.map_stable [(12, 9)] 3 (wwin pre) va s.
  Proof.
    intros Hl HP.
    destruct (pre_table A T pg pre s own t HP ltac:(lia)) as (Ho & Hb & Hlt & Hix & Hhd & Hsn).
    destruct HP as (HI & Hf & Hp & H511).
    rewrite Hl in Hix, Hhd, Hsn.
    assert (Hix3: ix pg 3 = hw_idx pg 3) by reflexivity.
    assert (Hea : entry_addr (wwin pre) va 12 9 = add64 (wwin pre) (shl64 (ix pg 3) 3)).
    { unfold entry_addr. rewrite pointer_shift_val.
      destruct (entry_index_hw va) as (_ & _ & _ & E3). rewrite E3, Hva by lia. reflexivity. }
    assert (Hst : M.entry_stable s (entry_addr (wwin pre) va 12 9) t (ix pg 3)).
    { rewrite Hea. eapply entry_stable_inv; try eassumption. lia. }
    cbn [M.map_stable].
    destruct (resolve s (entry_addr (wwin pre) va 12 9)) as [[f i]|] eqn:Er; [|exact I].
    assert (Hres: resolve s (entry_addr (wwin pre) va 12 9) = Some (t, ix pg 3)).
    { rewrite Hea. eapply resolve_entry; try eassumption.
      - exact (inv_cr3 _ _ _ _ HI).
      - exact (inv_rec _ _ _ _ HI).
      - lia. }
    rewrite Hres in Er. injection Er as <- <-.
    change (3 =? last_level) with true. cbv iota. exact Hst.
  Qed.

  Lemma map_stable_level pre sh rest :
    (length pre <= 2)%nat ->
    entry_index va sh 9 = ix pg (length pre) ->
    level_bits (N.of_nat (length pre) + 1) = 9 ->
    (N.of_nat (length pre) =? last_level) = false ->
    (forall s own t, Pre A T pg (pre ++ [ix pg (length pre)]) s own t ->
       M.map_stable rest (N.of_nat (length pre) + 1) (wwin (pre ++ [ix pg (length pre)])) va s) ->
    forall s own t, Pre A T pg pre s own t ->
      M.map_stable ((sh, 9) :: rest) (N.of_nat (length pre)) (wwin pre) va s.
  Proof.
    intros Hl Hidx Hbits Hlast IH s own t HP.
    destruct (pre_table A T pg pre s own t HP ltac:(lia)) as (Ho & Hb & Hlt & Hix & Hhd & Hsn).
    destruct HP as (HI & Hf & Hp & H511).
    set (i := ix pg (length pre)) in *.
    pose proof (inv_wf _ _ _ _ HI) as W.
    destruct (hd_app_ne pre i Hhd) as [Hne Hhd0].
    destruct (wf_child _ _ _ W t pre i Ho ltac:(lia) Hix Hne) as [HPS Hchild].
    assert (Hea : entry_addr (wwin pre) va sh 9 = add64 (wwin pre) (shl64 i 3)).
    { unfold entry_addr. rewrite pointer_shift_val, Hidx. reflexivity. }
    assert (Hres: resolve s (entry_addr (wwin pre) va sh 9) = Some (t, i)).
    { rewrite Hea. eapply resolve_entry; try eassumption.
      - exact (inv_cr3 _ _ _ _ HI).
      - exact (inv_rec _ _ _ _ HI).
      - lia. }
    assert (Hnext: shl64 (entry_addr (wwin pre) va sh 9) 9 = wwin (pre ++ [i])).
    { rewrite Hea. apply wwin_next; assumption. }
    assert (Hlen1: length (pre ++ [i]) = S (length pre)) by (rewrite app_length; cbn; lia).
    assert (Hpre1: pre ++ [i] = firstn (length (pre ++ [i])) (ixs pg)) by (rewrite Hlen1; exact Hsn).
    cbn [M.map_stable]. rewrite Hres, Hlast. fold (ent s t i).
    rewrite has_huge_hw, HPS, has_present_hw. cbv iota.
    destruct (hw_P (ent s t i)) eqn:HPres; cbn [negb].
    - specialize (Hchild eq_refl). set (c := hw_frame (ent s t i)) in *.
      assert (Hfc: follow s T (pre ++ [i]) = Some c).
      { rewrite follow_app, Hf. cbn [follow]. rewrite Hb. unfold usable. rewrite HPres, HPS. reflexivity. }
      rewrite Hnext. apply (IH s own c).
      split; [exact HI|]. split; [exact Hfc|]. split; [exact Hpre1 | exact H511].
    - unfold alloc. destruct (orc s) as [|x r] eqn:Eo; [exact I|].
      destruct (N.eqb_spec x 0) as [Hx0|Hx0]; [exact I|].
      set (nf := x) in *.
      destruct (inv_fresh _ _ _ _ HI) as [F1 F2].
      destruct (F2 nf) as (Hbn & Hon & HnA); [rewrite Eo; left; reflexivity | exact Hx0 |].
      assert (Hnf40: nf < 2 ^ 40) by (eapply backed_lt40; [exact (wf_arena _ _ _ W) | exact Hbn]).
      destruct (link_entry nf Hnf40) as (LP & LPS & LF).
      set (link := set_flags (set_frame 0 nf) P_RW) in *.
      split.
      { rewrite Hea.
        assert (Hl3 : (length pre <= 3)%nat) by lia.
        assert (Hf1 : follow (set_orc s r) T pre = Some t).
        { rewrite <- Hf. apply follow_ext; reflexivity. }
        exact (entry_stable_inv (set_orc s r) A T own pre t i (Inv_pop s A T own x r HI Eo) Hf1 Ho Hl3 Hlt Hix Hhd). }
      set (s2 := wr_st (set_orc s r) t i link).
      assert (He2: linked false s s2 t i nf link).
      { intros f j. cbn [andb]. unfold s2. rewrite ent_wr'. reflexivity. }
      destruct (follow_link false s s2 A T own pre t i nf link HI Hf Ho Hl Hlt Hix Hhd eq_refl eq_refl He2 LP LPS LF Hbn Hon HnA) as [HR2 Hf2].
      assert (Hrp: resolve_page s2 (shl64 (entry_addr (wwin pre) va sh 9) (level_bits (N.of_nat (length pre) + 1))) = Some nf).
      { rewrite Hbits, Hnext. eapply (resolve_page_win s2 A T); try eassumption.
        - exact (inv_cr3 _ _ _ _ HI).
        - rewrite Hlen1. lia.
        - apply Forall_app; split; [exact Hlt | constructor; [exact Hix | constructor]]. }
      rewrite Hrp.
      set (s3 := set_mem s2 (zero (mem s2) nf)).
      assert (He3: linked true s s3 t i nf link).
      { intros f j. unfold s3, ent. cbn [mem set_mem]. rewrite rd_zero. cbn [andb].
        destruct (N.eqb_spec f nf); [reflexivity|]. apply He2. }
      assert (HI3: Inv s3 A T (upd own nf (pre ++ [i]))).
      { eapply (Inv_link s s3 A T own pre t i nf r link); try eassumption; try reflexivity. }
      destruct (follow_link true s s3 A T own pre t i nf link HI Hf Ho Hl Hlt Hix Hhd eq_refl eq_refl He3 LP LPS LF Hbn Hon HnA) as [HR3 Hf3].
      rewrite Hnext. apply (IH s3 (upd own nf (pre ++ [i])) nf).
      split; [exact HI3|]. split; [exact Hf3|]. split; [exact Hpre1 | exact H511].
  Qed.
End Level.

Lemma map_stable_walk A T pg va s own :
  (forall k, k <= 3 -> hw_idx (N.shiftr va 12) k = hw_idx pg k) ->
  Inv s A T own -> hw_idx pg 0 <> 511 ->
  M.map_stable go_levels 0 vmm_pdtVirtualAddr va s.
Proof.
  intros Hva HI H511.
  destruct (entry_index_hw va) as (E0 & E1 & E2 & E3).
  assert (L3: forall s0 own0 t0, Pre A T pg [ix pg 0; ix pg 1; ix pg 2] s0 own0 t0 ->
            M.map_stable [(12, 9)] 3 (wwin [ix pg 0; ix pg 1; ix pg 2]) va s0).
  { intros s0 own0 t0 HP0. eapply (map_stable_leaf A T pg va Hva); [reflexivity | exact HP0]. }
  assert (L2: forall s0 own0 t0, Pre A T pg [ix pg 0; ix pg 1] s0 own0 t0 ->
            M.map_stable [(21, 9); (12, 9)] 2 (wwin [ix pg 0; ix pg 1]) va s0).
  { apply (map_stable_level A T pg va Hva [ix pg 0; ix pg 1] 21 [(12, 9)]).
    - cbn [length]. lia.
    - rewrite E2, Hva by lia. reflexivity.
    - reflexivity.
    - reflexivity.
    - exact L3. }
  assert (L1: forall s0 own0 t0, Pre A T pg [ix pg 0] s0 own0 t0 ->
            M.map_stable [(30, 9); (21, 9); (12, 9)] 1 (wwin [ix pg 0]) va s0).
  { apply (map_stable_level A T pg va Hva [ix pg 0] 30 [(21, 9); (12, 9)]).
    - cbn [length]. lia.
    - rewrite E1, Hva by lia. reflexivity.
    - reflexivity.
    - reflexivity.
    - exact L2. }
  rewrite go_levels_val, <- wwin_nil.
  apply (map_stable_level A T pg va Hva [] 39 [(30, 9); (21, 9); (12, 9)]) with (own := own) (t := T).
  - cbn [length]. lia.
  - rewrite E0, Hva by lia. reflexivity.
  - reflexivity.
  - reflexivity.
  - exact L1.
  - split; [exact HI|]. split; [reflexivity|]. split; [reflexivity | exact H511].
Qed.

Theorem map_stable_inv A T page s own :
  Inv s A T own -> hw_idx page 0 <> 511 ->
  M.map_stable go_levels 0 vmm_pdtVirtualAddr (frame_addr page) s.
Proof. intros HI H. eapply map_stable_walk; try eassumption. apply frame_addr_idx. Qed.

(** ---- Init: the walk of a page of a well-formed hierarchy only goes through owned tables ---- *)
Lemma walk_avoids_wf s T own x page :
  WF s T own -> own x = None ->
  forall levels t p, own t = Some p -> (length p + length levels <= 4)%nat ->
    hd 0 (p ++ map (hw_idx page) levels) <> 511 ->
    P.walk_avoids s levels t page x = true.
Proof.
  intros W Hx. induction levels as [|k rest IH]; intros t p Ho Hlen Hhd; [reflexivity|].
  cbn [P.walk_avoids].
  assert (Htx : (t =? x) = false) by (apply N.eqb_neq; intros E; rewrite E, Hx in Ho; discriminate).
  rewrite Htx. cbn [negb andb].
  destruct (backed s t); [|reflexivity].
  fold (ent s t (hw_idx page k)).
  destruct (hw_P (ent s t (hw_idx page k)) && negb (hw_PS (ent s t (hw_idx page k)) && (k <? 3))) eqn:Ec; [|reflexivity].
  destruct rest as [|k2 rest2]; [reflexivity|].
  apply andb_prop in Ec. destruct Ec as [HP _].
  cbn [length map] in *.
  assert (Hne : p ++ [hw_idx page k] <> [511]).
  { intros E. destruct p as [|a p']; cbn in *.
    - inversion E as [E1]. apply Hhd. exact E1.
    - inversion E as [[E1 E2]]. destruct p'; discriminate. }
  destruct (wf_child s T own W t p (hw_idx page k) Ho ltac:(lia) (hw_idx_lt page k) Hne) as [_ Hc].
  apply (IH _ (p ++ [hw_idx page k]) (Hc HP)).
  - rewrite app_length. cbn [length]. lia.
  - rewrite <- app_assoc. exact Hhd.
Qed.

Lemma path_avoids_wf s A own x va :
  WF s A own -> N.shiftr (cr3 s) 12 = A -> hw_idx (N.shiftr va 12) 0 <> 511 -> own x = None ->
  P.path_avoids s va x = true.
Proof.
  intros W Hcr H511 Hx. unfold P.path_avoids. rewrite Hcr.
  apply (walk_avoids_wf s A own x _ W Hx hw_levels A []).
  - exact (wf_root _ _ _ W).
  - cbn. lia.
  - cbn. exact H511.
Qed.

Theorem init_stable_inv s A own slot F :
  Inv s A A own -> (prot s && (F =? zf s)) = false -> backed s F = true -> own F = None -> ~ In F (orc s) ->
  P.init_stable F (set_pdt s slot F).
Proof.
  intros HI Hg HbF HoF HnF s1' pf Hmt Hrp.
  set (s0 := set_pdt s slot F) in *.
  assert (HI0: Inv s0 A A own) by (apply (Inv_ent_eq s s0 A A own HI); reflexivity).
  destruct (PtTemp.temp_map_spec s0 A own F HI0 Hg HbF HoF HnF) as
      (s1 & err & pg & own1 & Hrun & _ & HI1 & _ & Ho1F & _ & _ & _ & Hok & _).
  rewrite Hmt in Hrun. injection Hrun as <- <- <-.
  destruct (Hok eq_refl) as (_ & Hrp1 & _).
  rewrite Hrp in Hrp1. injection Hrp1 as ->.
  apply (path_avoids_wf s1' A own1 F _ (inv_wf _ _ _ _ HI1) (inv_cr3 _ _ _ _ HI1)); [|exact Ho1F].
  rewrite frame_addr_idx by lia. exact PtCow.temp_idx0.
Qed.

(** ---- the ties on the whole domain ---- *)
From FF Require Gen.Trans_vmm_map Gen.Trans_vmm_pdt.

Theorem map_is_translation_inv s A T own page frame flags tr0 :
  Inv s A T own -> hw_idx page 0 <> 511 -> flags < two64 -> P.mem_w64 s ->
  M.wmem (Trans_vmm_map.go_vmm_Map (Trans_vmm_map.mk_go_vmm_world tr0 s) page frame flags P.o_flush P.o_memset M.o_alloc M.o_id)
  = M.op_res (map_page page frame flags s).
Proof.
  intros HI H511 Hfl Hw. apply M.map_is_translation; try assumption. eapply map_stable_inv; eassumption.
Qed.

Theorem map_temporary_is_translation_inv s A T own frame tr0 :
  Inv s A T own -> P.mem_w64 s ->
  M.wmem (Trans_vmm_map.go_vmm_MapTemporary (Trans_vmm_map.mk_go_vmm_world tr0 s) frame P.o_flush P.o_memset M.o_alloc M.o_id) =
  match map_temporary frame s with
  | Stray => GPanic
  | Ok (s', e, p) => GOk (s', (p, P.err_of e))
  end.
Proof.
  intros HI Hw. apply M.map_temporary_is_translation; try assumption.
  eapply map_stable_inv; [exact HI | exact PtCow.temp_idx0].
Qed.

Theorem pdt_init_is_translation_inv s A own slot F tr0 pdt0 :
  Inv s A A own -> (prot s && (F =? zf s)) = false -> backed s F = true -> own F = None -> ~ In F (orc s) ->
  Trans_vmm_pdt.go_vmm_PageDirectoryTable_Init (Trans_vmm_pdt.mk_go_vmm_world tr0 (set_pdt s slot F)) pdt0 F
    P.o_active P.o_memset P.o_maptemp P.o_unmap =
  P.pdt_init_res tr0 F (frame_addr F =? cr3 s) (pdt_init slot F s).
Proof.
  intros HI Hg HbF HoF HnF.
  apply P.pdt_init_is_translation.
  - assert (H40 : F < 2 ^ 40) by (eapply backed_lt40; [exact (wf_arena _ _ _ (inv_wf _ _ _ _ HI)) | exact HbF]).
    change (2 ^ 40) with 1099511627776 in H40. unfold two64. lia.
  - eapply init_stable_inv; eassumption.
Qed.
