(** C04 [histories]: any sequence of Map / Unmap / Translate requests refines an abstract
    page -> (frame, flags) map. *)
From Coq Require Import NArith ZArith Lia List Bool.
From Coq Require Import ZifyBool ZifyN ZifyNat.
From FF Require Import Lib.Word Gen.Consts_mm_vmm Vmm.Region Vmm.Pt Vmm.PtMem Vmm.PtArith Vmm.PtTree Vmm.PtMap Vmm.PtOps Vmm.PtTheorems.
Import ListNotations.
Local Open Scope N_scope.
Ltac Zify.zify_post_hook ::= Z.div_mod_to_equations.

Inductive hop :=
| HMap (page frame flags : N)
| HUnmap (page : N)
| HTranslate (va : N).

(** the abstract address space: the four table indices of a page -> (frame, flag bits) *)
Definition amap : Type := list N -> option (N * N).
Definition aupd (m : amap) (k : list N) (v : option (N * N)) : amap :=
  fun k' => if list_eq_dec N.eq_dec k' k then v else m k'.

(** the abstract machine: a successful Map records the request, a successful Unmap forgets the page,
    a failed request changes nothing; Translate reads.  (err, value) is what the request returned. *)
Definition astep (o : hop) (res : N * N) (m : amap) : amap :=
  match o with
  | HMap page frame flags =>
      if fst res =? 0 then aupd m (ixs page) (if N.testbit flags 0 then Some (frame, flags) else None) else m
  | HUnmap page => if fst res =? 0 then aupd m (ixs page) None else m
  | HTranslate _ => m
  end.

Fixpoint arun (ops : list hop) (rs : list (N * N)) (m : amap) : amap :=
  match ops, rs with
  | o :: ops', r :: rs' => arun ops' rs' (astep o r m)
  | _, _ => m
  end.

(** what the abstract machine answers to Translate *)
Definition atranslate (m : amap) (va : N) : N * N :=
  match m (ixs (N.shiftr va 12)) with
  | Some (f, _) => (E_OK, f * 4096 + va mod 4096)
  | None => (E_INVALID, 0)
  end.

(** the implementation *)
Definition hstep (o : hop) (s : st) : R (st * (N * N)) :=
  match o with
  | HMap page frame flags => match map_page page frame flags s with Ok (s', e) => Ok (s', (e, 0)) | Stray => Stray end
  | HUnmap page => match unmap_page page s with Ok (s', e) => Ok (s', (e, 0)) | Stray => Stray end
  | HTranslate va => match translate va s with Ok r => Ok (s, r) | Stray => Stray end
  end.

Fixpoint hrun (ops : list hop) (s : st) : R (st * list (N * N)) :=
  match ops with
  | [] => Ok (s, [])
  | o :: r =>
      match hstep o s with
      | Stray => Stray
      | Ok (s1, res) => match hrun r s1 with Stray => Stray | Ok (s2, rs) => Ok (s2, res :: rs) end
      end
  end.

(** the quantifier: pages outside the recursive window, frames below 2^40, flags outside bits 12-51 *)
Definition hdom (o : hop) : Prop :=
  match o with
  | HMap page frame flags => hw_idx page 0 <> 511 /\ frame < 2 ^ 40 /\ N.land flags vmm_ptePhysPageMask = 0
  | HUnmap page => hw_idx page 0 <> 511
  | HTranslate va => hw_idx (N.shiftr va 12) 0 <> 511
  end.

Definition refines (s : st) (A : N) (m : amap) : Prop :=
  forall q, hw_idx q 0 <> 511 -> translation s A q = m (ixs q).

(** the answers Translate gave along a history are the abstract machine's *)
Fixpoint answers_ok (ops : list hop) (rs : list (N * N)) (m : amap) : Prop :=
  match ops, rs with
  | o :: ops', r :: rs' =>
      (match o with
       | HTranslate va => r = atranslate m va
       | HMap _ _ _ => (fst r = 0 \/ fst r = E_ALLOC)
       | HUnmap _ => (fst r = 0 \/ fst r = E_INVALID)
       end) /\ answers_ok ops' rs' (astep o r m)
  | [], [] => True
  | _, _ => False
  end.

Theorem histories A ops : forall s own m,
  Inv s A A own -> prot s = false -> Forall hdom ops -> refines s A m ->
  exists s' rs own',
    hrun ops s = Ok (s', rs) /\ Inv s' A A own' /\ prot s' = false /\
    refines s' A (arun ops rs m) /\ answers_ok ops rs m.
Proof.
  induction ops as [|o r IH]; intros s own m HI Hp Hd Href.
  - exists s, [], own. split; [reflexivity|]. split; [exact HI|]. split; [exact Hp|]. split; [exact Href | exact I].
  - inversion Hd as [|? ? Hd1 Hdr]; subst.
    destruct o as [page frame flags | page | va]; cbn [hdom] in Hd1; cbn [hrun hstep].
    + destruct Hd1 as (H511 & Hf & Hfl).
      assert (Hg: zero_guard s frame flags = false) by (unfold zero_guard; rewrite Hp; reflexivity).
      destruct (map_ok s A A own page frame flags HI H511 Hg) as
          (s1 & err & own1 & Hrun & HI1 & Henv & Herr & Hok & Hfail & _).
      rewrite Hrun.
      assert (Hp1: prot s1 = false) by (destruct Henv as (_ & _ & _ & _ & _ & _ & Ep & _); rewrite Ep; exact Hp).
      assert (Href1: refines s1 A (astep (HMap page frame flags) (err, 0) m)).
      { intros q Hq. cbn [astep fst]. destruct (N.eqb_spec err 0) as [E0|E0].
        - destruct (Hok E0) as (Ha & Hoth & _). unfold aupd.
          destruct (list_eq_dec N.eq_dec (ixs q) (ixs page)) as [Es|Hn].
          + unfold translation, aspace. rewrite Es. unfold aspace in Ha. rewrite Ha.
            destruct (leaf_exact frame flags Hf Hfl) as (_ & L2 & L3 & L4). rewrite L2, L3, L4. reflexivity.
          + rewrite (Hoth q Hq Hn). apply Href. exact Hq.
        - destruct (Hfail E0) as (Hoth & _). rewrite (Hoth q Hq). apply Href. exact Hq. }
      destruct (IH s1 own1 _ HI1 Hp1 Hdr Href1) as (s' & rs & own' & Hr & HI' & Hp' & Href' & Hans).
      rewrite Hr. exists s', ((err, 0) :: rs), own'. split; [reflexivity|]. split; [exact HI'|]. split; [exact Hp'|].
      split; [exact Href'|]. cbn [answers_ok fst]. split; [exact Herr | exact Hans].
    + destruct (unmap_ok s A A own page HI Hd1) as (s1 & err & Hrun & Herr & HI1 & Henv & _ & Hinv & Hok).
      rewrite Hrun.
      assert (Hp1: prot s1 = false) by (destruct Henv as (_ & _ & _ & _ & _ & _ & Ep & _); rewrite Ep; exact Hp).
      assert (Href1: refines s1 A (astep (HUnmap page) (err, 0) m)).
      { intros q Hq. cbn [astep fst]. destruct (N.eqb_spec err 0) as [E0|E0].
        - destruct (Hok E0) as (e & _ & _ & Ht & Hoth & _). unfold aupd.
          destruct (list_eq_dec N.eq_dec (ixs q) (ixs page)) as [Es|Hn].
          + unfold translation, aspace in *. rewrite Es. exact Ht.
          + unfold translation. rewrite (Hoth q Hq Hn). apply Href. exact Hq.
        - destruct Herr as [E|E]; [congruence|]. destruct (Hinv E) as [Es _]. rewrite Es. apply Href. exact Hq. }
      destruct (IH s1 own _ HI1 Hp1 Hdr Href1) as (s' & rs & own' & Hr & HI' & Hp' & Href' & Hans).
      rewrite Hr. exists s', ((err, 0) :: rs), own'. split; [reflexivity|]. split; [exact HI'|]. split; [exact Hp'|].
      split; [exact Href'|]. cbn [answers_ok fst]. split; [exact Herr | exact Hans].
    + rewrite (translate_ok s A A own va HI Hd1).
      destruct (IH s own m HI Hp Hdr Href) as (s' & rs & own' & Hr & HI' & Hp' & Href' & Hans).
      rewrite Hr. eexists s', (_ :: rs), own'. split; [reflexivity|]. split; [exact HI'|]. split; [exact Hp'|].
      split; [exact Href'|]. cbn [answers_ok astep]. split; [|exact Hans].
      unfold atranslate. rewrite <- (Href _ Hd1). reflexivity.
Qed.
