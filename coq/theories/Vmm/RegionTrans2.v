(** The hand-written models of vmm.MapRegion / vmm.IdentityMapRegion (Vmm/Region.v: [map_region],
    [identity_map_region]) ARE the Gallina translation that gen/gotrans (extended mode, "world" functions)
    regenerates from kernel/mm/vmm/map.go on every run (Gen/Trans_mm_vmm2.v).

    The two functions have no receiver; the translation threads a record [world] whose only field is the trace
    of the calls made through the package-level function variables [earlyReserveRegionFn] and [mapFn] (most
    recent first, [GCall name [GNum arg ..]]); what those calls return comes from oracles on the trace.
    The model makes the same calls: it reserves with [early_reserve] from a cursor [last] and lets the mapFn
    seam fail at call number [fail]; [o_reserve] and [o_map] are the oracles of exactly that environment. *)
From Coq Require Import NArith ZArith String List Bool Lia.
From Coq Require Import ZifyBool ZifyN ZifyNat.
From FF Require Import Lib.Word Lib.GoOps Lib.GoOpsExt Lib.GoOpsProofs Gen.Consts_mm_vmm Gen.Trans_mm_vmm2.
From FF Require Import Vmm.Region Vmm.RegionProofs.
Import ListNotations.
Local Open Scope N_scope.
Ltac Zify.zify_post_hook ::= Z.div_mod_to_equations.

Notation W := mk_go_vmm_world (only parsing).

Definition ev_reserve (sz : N) : gcall := GCall "earlyReserveRegionFn" [GNum sz].
Definition ev_map (c : mapcall) : gcall := let '(p, f, fl) := c in GCall "mapFn" [GNum p; GNum f; GNum fl].

(** EarlyReserveRegion with the cursor at [last] *)
Definition o_reserve (last : N) (tr : list gcall) : N * option string :=
  match tr with
  | GCall _ [GNum s] :: _ =>
      match early_reserve last s with
      | (_, Some a) => (a, None)
      | (_, None) => (0, Some "errEarlyReserveNoSpace"%string)
      end
  | _ => (0, None)
  end.

(** a mapFn that fails at its call number [fail] (0-based), counted from a trace of length [base] *)
Definition o_map (fail : option N) (base : nat) (tr : list gcall) : option string :=
  match fail with
  | Some k => if N.of_nat (length tr) =? N.of_nat base + k + 1 then Some "errMap"%string else None
  | None => None
  end.

Lemma round_up_trans' size :
  size < two64 ->
  N.land (gw 64 (size + gsub 64 mm_PageSize 1)) (gnot 64 (gsub 64 mm_PageSize 1)) = round_up size.
Proof.
  intros Hs. unfold round_up, PageSize.
  assert (E: gsub 64 mm_PageSize 1 = mm_PageSize - 1) by reflexivity.
  rewrite E, gw64. apply land_gnot64; [apply w64_lt|reflexivity].
Qed.

Lemma page_of_addr_trans a : a < two64 -> go_mm_PageFromAddress a = page_of_addr a.
Proof.
  intros Ha. unfold go_mm_PageFromAddress, page_of_addr, PageSize, PageShift.
  assert (E: gw 64 (gsub 64 mm_PageSize 1) = mm_PageSize - 1) by reflexivity.
  rewrite E, land_gnot64 by (try exact Ha; reflexivity).
  assert (H: N.shiftr (N.ldiff a (mm_PageSize - 1)) mm_PageShift < two64).
  { rewrite N.shiftr_div_pow2.
    assert (H1: N.ldiff a (mm_PageSize - 1) <= a).
    { change (mm_PageSize - 1) with (2 ^ 12 - 1). fold (andnot a (2 ^ 12 - 1)). rewrite andnot_pow2. lia. }
    change (2 ^ mm_PageShift) with 4096. lia. }
  rewrite gw64_small by exact H. unfold andnot. reflexivity.
Qed.

(** the events of calls number i .. i+n-1 of a page loop, most recent first *)
Definition evs (page frame flags : N) (i n : nat) : list gcall :=
  rev (map (fun j => ev_map (w64 (page + N.of_nat j), w64 (frame + N.of_nat j), flags)) (seq i n)).

Lemma evs_0 page frame flags i : evs page frame flags i 0 = [].
Proof. reflexivity. Qed.

Lemma evs_S page frame flags i n :
  evs page frame flags i (S n) = evs page frame flags (S i) n ++ [ev_map (w64 (page + N.of_nat i), w64 (frame + N.of_nat i), flags)].
Proof. unfold evs. cbn [seq map rev]. reflexivity. Qed.

Lemma map_loop_events page frame flags count fail :
  rev (map ev_map (fst (map_loop page frame flags count fail))) =
  evs page frame flags 0 (N.to_nat (match fail with Some k => if k <? count then k + 1 else count | None => count end)).
Proof. unfold map_loop, evs. cbn [fst]. rewrite map_map. reflexivity. Qed.

(** ---- MapRegion ---- *)
Definition no_space : option string := Some "errEarlyReserveNoSpace"%string.

Definition map_region_res (last size : N) (tr0 : list gcall) (r : N * list mapcall * option N)
  : gres (go_vmm_world * (N * option string)) :=
  let '(_, calls, res) := r in
  let sz := round_up size in
  GOk (W (rev (map ev_map calls) ++ (if sz <? size then [] else [ev_reserve sz]) ++ tr0),
       match res with
       | Some p => (p, None)
       | None => (0, if sz <? size then no_space
                     else match snd (early_reserve last sz) with None => no_space | Some _ => Some "errMap"%string end)
       end).

Theorem map_region_is_translation last frame size flags fail tr0 fuel :
  last < two64 -> frame < two64 -> size < two64 -> flags < two64 ->
  (N.to_nat (N.shiftr (round_up size) PageShift) < fuel)%nat ->
  go_vmm_MapRegion fuel (W tr0) frame size flags (o_reserve last) (o_map fail (S (length tr0))) =
  map_region_res last size tr0 (map_region last frame size flags fail).
Proof.
  intros Hl Hf Hs Hfl Hfuel.
  cbv delta [go_vmm_MapRegion map_region]. cbv beta zeta.
  rewrite (round_up_trans' size Hs).
  set (sz := round_up size) in *.
  destruct (sz <? size) eqn:Ewrap.
  { unfold map_region_res. fold sz. rewrite Ewrap. reflexivity. }
  unfold set_f_world_trace; cbn [f_world_trace].
  unfold o_reserve at 1.
  destruct (early_reserve last sz) as [last' [start|]] eqn:Eres.
  2:{ cbv iota beta. cbn [gerr_eqb negb]. unfold map_region_res. fold sz. rewrite Ewrap, Eres. reflexivity. }
  cbv iota beta. cbn [gerr_eqb negb].
  assert (Hstart : start < two64).
  { unfold early_reserve in Eres. destruct (round_up sz <? sz); [discriminate|].
    destruct (last <? round_up sz); [discriminate|]. injection Eres as _ <-. lia. }
  rewrite (page_of_addr_trans start Hstart).
  set (page := page_of_addr start). set (count := N.shiftr sz mm_PageShift).
  assert (Hpage : page < two64).
  { unfold page, page_of_addr. rewrite N.shiftr_div_pow2.
    assert (H1: andnot start (PageSize - 1) <= start) by (unfold PageSize; change (mm_PageSize - 1) with (2 ^ 12 - 1); rewrite andnot_pow2; lia).
    unfold PageShift. change (2 ^ mm_PageShift) with 4096. lia. }
  match goal with |- context [gloop fuel ?f0 _] => set (step := f0) end.
  set (base := S (length tr0)).
  set (tr1 := ev_reserve sz :: tr0).
  assert (L : forall m i tr fu, (i + m = N.to_nat count)%nat -> length tr = (base + i)%nat -> (m < fu)%nat ->
            gloop fu step (W tr, w64 (frame + N.of_nat i), w64 (page + N.of_nat i), count - N.of_nat i) =
            if match fail with Some k => (N.of_nat i <=? k) && (k <? count) | None => false end
            then GOk (inr (W (evs page frame flags i (N.to_nat (match fail with Some k => k | None => 0 end) + 1 - i) ++ tr),
                           (0, Some "errMap"%string)))
            else GOk (inl (W (evs page frame flags i m ++ tr), w64 (frame + count), w64 (page + count), 0))).
  { induction m as [|m IH]; intros i tr fu Hi Hlen Hfu; (destruct fu as [|fu]; [lia|]).
    - assert (Ec : N.of_nat i = count) by lia.
      replace (match fail with Some k => (N.of_nat i <=? k) && (k <? count) | None => false end) with false
        by (destruct fail as [k|]; [|reflexivity]; destruct (N.leb_spec (N.of_nat i) k); destruct (N.ltb_spec k count); cbn [andb]; try reflexivity; lia).
      rewrite evs_0. cbn [app].
      rewrite gloop_break with (s' := (W tr, w64 (frame + N.of_nat i), w64 (page + N.of_nat i), count - N.of_nat i)).
      + rewrite Ec. replace (count - count) with 0 by lia. reflexivity.
      + unfold step. replace (count - N.of_nat i) with 0 by lia. reflexivity.
    - assert (Hlt : N.of_nat i < count) by lia.
      rewrite gloop_S. unfold step at 1. cbv beta iota zeta. unfold set_f_world_trace; cbn [f_world_trace].
      destruct (N.ltb_spec 0 (count - N.of_nat i)); [|lia].
      set (ev := GCall "mapFn" [GNum (w64 (page + N.of_nat i)); GNum (w64 (frame + N.of_nat i)); GNum flags]).
      assert (Eev : ev = ev_map (w64 (page + N.of_nat i), w64 (frame + N.of_nat i), flags)) by reflexivity.
      assert (Eom : o_map fail (S (length tr0)) (ev :: tr) =
                    match fail with Some k => if N.of_nat i =? k then Some "errMap"%string else None | None => None end).
      { unfold o_map. cbn [length]. rewrite Hlen. fold base. destruct fail as [k|]; [|reflexivity].
        destruct (N.eqb_spec (N.of_nat (S (base + i))) (N.of_nat base + k + 1)); destruct (N.eqb_spec (N.of_nat i) k); try reflexivity; lia. }
      rewrite !Eom. clear Eom.
      assert (Next : gsub 64 (count - N.of_nat i) 1 = count - N.of_nat (S i) /\
                     gw 64 (w64 (page + N.of_nat i) + 1) = w64 (page + N.of_nat (S i)) /\
                     gw 64 (w64 (frame + N.of_nat i) + 1) = w64 (frame + N.of_nat (S i))).
      { assert (Hc : count < two64).
        { unfold count. rewrite N.shiftr_div_pow2. unfold sz, round_up. pose proof (w64_lt (size + (PageSize - 1))).
          assert (andnot (w64 (size + (PageSize - 1))) (PageSize - 1) <= w64 (size + (PageSize - 1)))
            by (unfold PageSize; change (mm_PageSize - 1) with (2 ^ 12 - 1); rewrite andnot_pow2; lia).
          change (2 ^ mm_PageShift) with 4096. lia. }
        split; [rewrite gsub64_small' by (unfold two64 in *; change (2 ^ 64) with 18446744073709551616; lia); lia|].
        change (gw 64) with w64. unfold w64, two64. split.
        - rewrite N.add_mod_idemp_l by discriminate. f_equal. lia.
        - rewrite N.add_mod_idemp_l by discriminate. f_equal. lia. }
      destruct Next as (N1 & N2 & N3).
      destruct fail as [k|].
      + destruct (N.eqb_spec (N.of_nat i) k) as [Ek|Ek].
        * (* this call fails *)
          subst k. cbn [gerr_eqb negb].
          destruct (N.leb_spec (N.of_nat i) (N.of_nat i)); [|lia]. destruct (N.ltb_spec (N.of_nat i) count); [|lia]. cbn [andb].
          replace (N.to_nat (N.of_nat i) + 1 - i)%nat with 1%nat by lia.
          rewrite evs_S, evs_0. cbn [app]. rewrite <- Eev. reflexivity.
        * cbn [gerr_eqb negb]. rewrite N1, N2, N3.
          rewrite (IH (S i) (ev :: tr) fu ltac:(lia) ltac:(cbn [length]; lia) ltac:(lia)).
          replace ((N.of_nat (S i) <=? k) && (k <? count)) with ((N.of_nat i <=? k) && (k <? count))
            by (destruct (N.leb_spec (N.of_nat i) k); destruct (N.leb_spec (N.of_nat (S i)) k); try reflexivity; lia).
          destruct ((N.of_nat i <=? k) && (k <? count)) eqn:Ec.
          -- assert (Hk : (i < N.to_nat k)%nat) by (apply andb_true_iff in Ec; destruct Ec as [E1 _]; apply N.leb_le in E1; lia).
             replace (N.to_nat k + 1 - i)%nat with (S (N.to_nat k + 1 - S i)) by lia.
             rewrite evs_S, <- app_assoc. cbn [app]. rewrite <- Eev. reflexivity.
          -- rewrite evs_S, <- app_assoc. cbn [app]. rewrite <- Eev. reflexivity.
      + cbn [gerr_eqb negb]. rewrite N1, N2, N3.
        rewrite (IH (S i) (ev :: tr) fu ltac:(lia) ltac:(cbn [length]; lia) ltac:(lia)).
        rewrite evs_S, <- app_assoc. cbn [app]. rewrite <- Eev. reflexivity. }
  specialize (L (N.to_nat count) 0%nat tr1 fuel ltac:(lia) ltac:(unfold tr1, base; cbn [length]; lia) Hfuel).
  cbn [N.of_nat] in L. rewrite !N.add_0_r, N.sub_0_r in L.
  rewrite (w64_small frame Hf), (w64_small page Hpage) in L.
  unfold tr1, ev_reserve in L. rewrite L. clear L.
  unfold map_region_res. fold sz. rewrite Ewrap, Eres. cbn [snd].
  fold page. unfold PageShift. fold count.
  pose proof (map_loop_events page frame flags count fail) as ME.
  unfold map_loop in *. cbn [fst] in ME.
  destruct fail as [k|].
  - destruct (N.ltb_spec k count) as [A|A].
    + destruct (N.leb_spec 0 k); [|lia]. cbn [andb negb]. cbv iota beta.
      rewrite ME. replace (N.to_nat k + 1 - 0)%nat with (N.to_nat (k + 1)) by lia. reflexivity.
    + rewrite andb_false_r. cbn [negb]. cbv iota beta. rewrite ME. reflexivity.
  - cbv iota beta. rewrite ME. reflexivity.
Qed.

(** ---- IdentityMapRegion ---- *)
Definition id_region_res (size : N) (tr0 : list gcall) (r : list mapcall * option N)
  : gres (go_vmm_world * (N * option string)) :=
  let '(calls, res) := r in
  GOk (W (rev (map ev_map calls) ++ tr0),
       match res with
       | Some p => (p, None)
       | None => (0, if round_up size <? size then no_space else Some "errMap"%string)
       end).

Theorem identity_map_region_is_translation frame size flags fail tr0 fuel :
  frame < two64 -> size < two64 -> flags < two64 ->
  (N.to_nat (N.shiftr (round_up size) PageShift) < fuel)%nat ->
  go_vmm_IdentityMapRegion fuel (W tr0) frame size flags (o_map fail (length tr0)) =
  id_region_res size tr0 (identity_map_region frame size flags fail).
Proof.
  intros Hf Hs Hfl Hfuel.
  cbv delta [go_vmm_IdentityMapRegion identity_map_region]. cbv beta zeta.
  rewrite (round_up_trans' size Hs).
  set (sz := round_up size) in *.
  destruct (sz <? size) eqn:Ewrap.
  { unfold id_region_res. fold sz. rewrite Ewrap. reflexivity. }
  rewrite (gw64_small frame Hf).
  set (count := N.shiftr sz PageShift) in *.
  assert (Hc : count < two64).
  { unfold count. rewrite N.shiftr_div_pow2. unfold sz, round_up. pose proof (w64_lt (size + (PageSize - 1))).
    assert (andnot (w64 (size + (PageSize - 1))) (PageSize - 1) <= w64 (size + (PageSize - 1)))
      by (unfold PageSize; change (mm_PageSize - 1) with (2 ^ 12 - 1); rewrite andnot_pow2; lia).
    unfold PageShift. change (2 ^ mm_PageShift) with 4096. lia. }
  change mm_PageShift with PageShift. fold count.
  rewrite (gw64_small count Hc). change (gw 64 (frame + count)) with (w64 (frame + count)).
  set (stop := w64 (frame + count)).
  set (n := if frame <? stop then stop - frame else 0).
  assert (Hstop : stop < two64) by apply w64_lt.
  assert (Hn : n <= count).
  { unfold n, stop, w64, two64 in *. destruct (N.ltb_spec frame ((frame + count) mod 18446744073709551616)); lia. }
  match goal with |- context [gloop fuel ?f0 _] => set (step := f0) end.
  set (base := length tr0).
  assert (L : forall m i tr fu, (i + m = N.to_nat n)%nat -> length tr = (base + i)%nat -> (m < fu)%nat ->
            gloop fu step (W tr, frame + N.of_nat i) =
            if match fail with Some k => (N.of_nat i <=? k) && (k <? n) | None => false end
            then GOk (inr (W (evs frame frame flags i (N.to_nat (match fail with Some k => k | None => 0 end) + 1 - i) ++ tr),
                           (0, Some "errMap"%string)))
            else GOk (inl (W (evs frame frame flags i m ++ tr), frame + n))).
  { induction m as [|m IH]; intros i tr fu Hi Hlen Hfu; (destruct fu as [|fu]; [lia|]).
    - assert (Ec : N.of_nat i = n) by lia.
      replace (match fail with Some k => (N.of_nat i <=? k) && (k <? n) | None => false end) with false
        by (destruct fail as [k|]; [|reflexivity]; destruct (N.leb_spec (N.of_nat i) k); destruct (N.ltb_spec k n); cbn [andb]; try reflexivity; lia).
      rewrite evs_0. cbn [app].
      rewrite gloop_break with (s' := (W tr, frame + N.of_nat i)); [rewrite Ec; reflexivity|].
      unfold step. destruct (N.ltb_spec (frame + N.of_nat i) stop) as [A|A]; [|reflexivity].
      exfalso. unfold n in Ec. destruct (N.ltb_spec frame stop); lia.
    - assert (Hlt : N.of_nat i < n) by lia.
      assert (Hfs : frame < stop /\ n = stop - frame) by (unfold n in *; destruct (N.ltb_spec frame stop); [split; [assumption|reflexivity]|lia]).
      destruct Hfs as (Hfs & En).
      rewrite gloop_S. unfold step at 1. cbv beta iota zeta. unfold set_f_world_trace; cbn [f_world_trace].
      destruct (N.ltb_spec (frame + N.of_nat i) stop); [|lia].
      rewrite (gw64_small (frame + N.of_nat i)) by lia.
      set (ev := GCall "mapFn" [GNum (frame + N.of_nat i); GNum (frame + N.of_nat i); GNum flags]).
      assert (Eev : ev = ev_map (w64 (frame + N.of_nat i), w64 (frame + N.of_nat i), flags))
        by (rewrite (w64_small (frame + N.of_nat i)) by lia; reflexivity).
      assert (Eom : o_map fail (length tr0) (ev :: tr) =
                    match fail with Some k => if N.of_nat i =? k then Some "errMap"%string else None | None => None end).
      { unfold o_map. cbn [length]. rewrite Hlen. fold base. destruct fail as [k|]; [|reflexivity].
        destruct (N.eqb_spec (N.of_nat (S (base + i))) (N.of_nat base + k + 1)); destruct (N.eqb_spec (N.of_nat i) k); try reflexivity; lia. }
      rewrite !Eom. clear Eom.
      assert (N1 : gw 64 (frame + N.of_nat i + 1) = frame + N.of_nat (S i))
        by (rewrite gw64_small by lia; lia).
      destruct fail as [k|].
      + destruct (N.eqb_spec (N.of_nat i) k) as [Ek|Ek].
        * subst k. cbn [gerr_eqb negb].
          destruct (N.leb_spec (N.of_nat i) (N.of_nat i)); [|lia]. destruct (N.ltb_spec (N.of_nat i) n); [|lia]. cbn [andb].
          replace (N.to_nat (N.of_nat i) + 1 - i)%nat with 1%nat by lia.
          rewrite evs_S, evs_0. cbn [app]. rewrite <- Eev. reflexivity.
        * cbn [gerr_eqb negb]. rewrite N1.
          rewrite (IH (S i) (ev :: tr) fu ltac:(lia) ltac:(cbn [length]; lia) ltac:(lia)).
          replace ((N.of_nat (S i) <=? k) && (k <? n)) with ((N.of_nat i <=? k) && (k <? n))
            by (destruct (N.leb_spec (N.of_nat i) k); destruct (N.leb_spec (N.of_nat (S i)) k); try reflexivity; lia).
          destruct ((N.of_nat i <=? k) && (k <? n)) eqn:Ec.
          -- assert (Hk : (i < N.to_nat k)%nat) by (apply andb_true_iff in Ec; destruct Ec as [E1 _]; apply N.leb_le in E1; lia).
             replace (N.to_nat k + 1 - i)%nat with (S (N.to_nat k + 1 - S i)) by lia.
             rewrite evs_S, <- app_assoc. cbn [app]. rewrite <- Eev. reflexivity.
          -- rewrite evs_S, <- app_assoc. cbn [app]. rewrite <- Eev. reflexivity.
      + cbn [gerr_eqb negb]. rewrite N1.
        rewrite (IH (S i) (ev :: tr) fu ltac:(lia) ltac:(cbn [length]; lia) ltac:(lia)).
        rewrite evs_S, <- app_assoc. cbn [app]. rewrite <- Eev. reflexivity. }
  specialize (L (N.to_nat n) 0%nat tr0 fuel ltac:(lia) ltac:(unfold base; lia) ltac:(lia)).
  cbn [N.of_nat] in L. rewrite N.add_0_r in L. rewrite L. clear L.
  unfold id_region_res. fold sz. rewrite Ewrap.
  pose proof (map_loop_events frame frame flags n fail) as ME.
  unfold map_loop in *. cbn [fst] in ME.
  destruct fail as [k|].
  - destruct (N.ltb_spec k n) as [A|A].
    + destruct (N.leb_spec 0 k); [|lia]. cbn [andb negb]. cbv iota beta.
      rewrite ME. replace (N.to_nat k + 1 - 0)%nat with (N.to_nat (k + 1)) by lia. reflexivity.
    + rewrite andb_false_r. cbn [negb]. cbv iota beta. rewrite ME. reflexivity.
  - cbv iota beta. rewrite ME. reflexivity.
Qed.
