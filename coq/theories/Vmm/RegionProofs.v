(** Proofs about Vmm/Region.v (C07). *)
From Coq Require Import NArith ZArith Lia List Bool.
From Coq Require Import ZifyBool ZifyN ZifyNat.
From FF Require Import Lib.Word Gen.Consts_mm_vmm Vmm.Region.
Import ListNotations.
Local Open Scope N_scope.
Ltac Zify.zify_post_hook ::= Z.div_mod_to_equations.

(** Obligations on the regenerated constants. *)
Lemma PageSize_pow2 : PageSize = 2 ^ PageShift.
Proof. reflexivity. Qed.
Lemma PageSize_val : PageSize = 4096.
Proof. reflexivity. Qed.
Lemma PageShift_val : PageShift = 12.
Proof. reflexivity. Qed.
Lemma temp_aligned : vmm_tempMappingAddr mod PageSize = 0.
Proof. reflexivity. Qed.
Lemma temp_lt : vmm_tempMappingAddr < two64.
Proof. reflexivity. Qed.
Lemma initial_is_temp : vmm_earlyReserveInitial = vmm_tempMappingAddr.
Proof. reflexivity. Qed.

Definition ceil_pages (s : N) : N := (s + 4095) / 4096.

Lemma round_up_eq s : round_up s = w64 (s + 4095) - w64 (s + 4095) mod 4096.
Proof.
  unfold round_up. rewrite PageSize_pow2, andnot_pow2. reflexivity.
Qed.

Lemma round_up_nowrap s : s + 4095 < two64 -> round_up s = ceil_pages s * 4096.
Proof.
  intros H. rewrite round_up_eq, w64_small by exact H. unfold ceil_pages. lia.
Qed.

Lemma round_up_wrap s : s < two64 -> two64 <= s + 4095 -> round_up s < s.
Proof.
  intros Hs H. rewrite round_up_eq. unfold w64, two64 in *. lia.
Qed.

Lemma round_up_ge s : s + 4095 < two64 -> s <= round_up s /\ round_up s < s + 4096 /\ round_up s mod 4096 = 0.
Proof.
  intros H. rewrite round_up_nowrap by exact H. unfold ceil_pages. lia.
Qed.

Lemma round_up_idem s : s + 4095 < two64 -> round_up (round_up s) = round_up s.
Proof.
  intros H. pose proof (round_up_ge s H) as (H1 & H2 & H3).
  rewrite (round_up_eq (round_up s)). unfold w64, two64 in *. lia.
Qed.

Lemma round_up_ltb s : s < two64 -> (round_up s <? s) = (two64 <=? s + 4095).
Proof.
  intros Hs. destruct (N.leb_spec two64 (s + 4095)) as [H|H].
  - apply N.ltb_lt. apply round_up_wrap; assumption.
  - apply N.ltb_ge. apply round_up_ge; assumption.
Qed.

(** The reservation made by one call: address, length actually reserved. *)
Definition reserve_spec (last s : N) : option (N * N) :=
  if (ceil_pages s * 4096 <=? last) then Some (last - ceil_pages s * 4096, ceil_pages s * 4096) else None.

Lemma early_reserve_spec last s :
  s < two64 -> last <= vmm_tempMappingAddr ->
  early_reserve last s =
    match reserve_spec last s with
    | Some (a, len) => (a, Some a)
    | None => (last, None)
    end.
Proof.
  intros Hs Hl. unfold early_reserve, reserve_spec.
  rewrite round_up_ltb by exact Hs.
  pose proof temp_lt as Ht. unfold two64 in *.
  destruct (N.leb_spec 18446744073709551616 (s + 4095)) as [H|H].
  - destruct (N.leb_spec (ceil_pages s * 4096) last) as [H2|H2]; [|reflexivity].
    exfalso. unfold ceil_pages in H2. unfold vmm_tempMappingAddr in *. lia.
  - rewrite round_up_nowrap by exact H.
    destruct (N.leb_spec (ceil_pages s * 4096) last) as [H2|H2];
      destruct (N.ltb_spec last (ceil_pages s * 4096)) as [H3|H3]; try lia; reflexivity.
Qed.

(** ---- histories ---- *)

(** (address, length, requested size) of the reservation made by op [o] from cursor [last]. *)
Definition op_region (last : N) (o : op) : option (N * N * N) :=
  match o with
  | Reserve s | MapRegion _ s _ _ =>
      match reserve_spec last s with Some (a, len) => Some (a, len, s) | None => None end
  | IdMapRegion _ _ _ _ => None
  end.

Definition op_size (o : op) : N :=
  match o with Reserve s | MapRegion _ s _ _ | IdMapRegion _ s _ _ => s end.

Definition WFop (o : op) : Prop := op_size o < two64.

Fixpoint regions (last : N) (ops : list op) : list (N * N * N) :=
  match ops with
  | [] => []
  | o :: rest =>
      let last' := fst (step last o) in
      match op_region last o with
      | Some r => r :: regions last' rest
      | None => regions last' rest
      end
  end.

Definition WFstart (l0 : N) : Prop := l0 mod PageSize = 0 /\ l0 <= vmm_tempMappingAddr.

Definition region_ok (r : N * N * N) : Prop :=
  let '(a, len, req) := r in
  a mod PageSize = 0 /\ len mod PageSize = 0 /\ req <= len /\ len < req + PageSize /\ a + len <= vmm_tempMappingAddr.

(** every region lies wholly below [bound] *)
Definition below (bound : N) (r : N * N * N) : Prop := let '(a, len, _) := r in a + len <= bound.

Lemma map_region_cursor last f s fl fail :
  s < two64 -> last <= vmm_tempMappingAddr ->
  fst (step last (MapRegion f s fl fail)) = fst (step last (Reserve s)).
Proof.
  intros Hs Hl. cbn [step]. unfold map_region.
  rewrite round_up_ltb by exact Hs.
  destruct (early_reserve last s) as [l r] eqn:E.
  unfold early_reserve in E. rewrite round_up_ltb in E by exact Hs.
  destruct (N.leb_spec two64 (s + 4095)) as [H|H].
  - inversion E; subst. reflexivity.
  - assert (Hr: round_up s + 4095 < two64).
    { pose proof (round_up_ge s H) as (H1 & H2 & H3). unfold two64 in *. lia. }
    unfold early_reserve. rewrite (round_up_idem s H).
    pose proof (round_up_ge s H) as (H1 & H2 & H3).
    replace (round_up s <? round_up s) with false by (symmetry; apply N.ltb_irrefl).
    destruct (last <? round_up s) eqn:E2; inversion E; subst; cbn.
    + reflexivity.
    + reflexivity.
Qed.

Lemma step_cursor last o :
  WFop o -> last <= vmm_tempMappingAddr ->
  fst (step last o) = match op_region last o with Some (a, _, _) => a | None => last end.
Proof.
  intros Hs Hl. destruct o as [s|f s fl fail|f s fl fail]; unfold WFop in Hs; cbn [op_size] in Hs.
  - cbn [step op_region]. rewrite early_reserve_spec by assumption.
    destruct (reserve_spec last s) as [[a len]|]; reflexivity.
  - rewrite map_region_cursor by assumption. cbn [step op_region]. rewrite early_reserve_spec by assumption.
    destruct (reserve_spec last s) as [[a len]|]; reflexivity.
  - cbn [step op_region]. destruct (identity_map_region _ _ _ _). reflexivity.
Qed.

Lemma reserve_spec_ok last s a len :
  s < two64 -> last mod PageSize = 0 -> last <= vmm_tempMappingAddr ->
  reserve_spec last s = Some (a, len) ->
  region_ok (a, len, s) /\ a + len = last /\ a <= last.
Proof.
  intros Hs Hm Hl. unfold reserve_spec.
  destruct (N.leb_spec (ceil_pages s * 4096) last) as [H|H]; [|discriminate].
  intros E; injection E as <- <-. unfold region_ok. rewrite PageSize_val in *.
  unfold ceil_pages in *. lia.
Qed.

Lemma regions_inv ops : forall last,
  Forall WFop ops -> WFstart last ->
  Forall region_ok (regions last ops) /\ Forall (below last) (regions last ops) /\
  ForallOrdPairs (fun r1 r2 => below (fst (fst r1)) r2) (regions last ops).
Proof.
  induction ops as [|o rest IH]; intros last Hwf [Hm Hl]; cbn [regions].
  - repeat split; constructor.
  - inversion Hwf as [|? ? Ho Hrest]; subst.
    rewrite step_cursor by assumption.
    destruct (op_region last o) as [[[a len] req]|] eqn:E.
    + assert (Hr: region_ok (a, len, req) /\ a + len = last /\ a <= last /\ req = op_size o).
      { destruct o as [s|f s fl fail|f s fl fail]; cbn [op_region op_size] in *; try discriminate;
          destruct (reserve_spec last s) as [[a' len']|] eqn:E2; try discriminate;
          inversion E; subst; destruct (reserve_spec_ok last req a len Ho Hm Hl E2) as (?&?&?); auto. }
      destruct Hr as (Hok & Hsum & Hle & _).
      assert (Hs: WFstart a).
      { split; [|lia]. unfold region_ok in Hok. tauto. }
      destruct (IH a Hrest Hs) as (I1 & I2 & I3).
      repeat split.
      * constructor; assumption.
      * constructor; [unfold below; lia|].
        eapply Forall_impl; [|exact I2]. intros [[a' l'] r']; unfold below; lia.
      * constructor; [|exact I3]. exact I2.
    + apply IH; [assumption|split; assumption].
Qed.

(** What the caller sees. *)
Lemma reserve_result last s :
  s < two64 -> last <= vmm_tempMappingAddr ->
  snd (step last (Reserve s)) = RReserve (match op_region last (Reserve s) with Some (a, _, _) => Some a | None => None end).
Proof.
  intros Hs Hl. cbn [step op_region]. rewrite early_reserve_spec by assumption.
  destruct (reserve_spec last s) as [[a len]|]; reflexivity.
Qed.

Lemma reserve_fail_iff last s :
  s < two64 -> last <= vmm_tempMappingAddr ->
  (snd (early_reserve last s) = None <-> last < ceil_pages s * 4096) /\
  (snd (early_reserve last s) = None -> fst (early_reserve last s) = last).
Proof.
  intros Hs Hl. rewrite early_reserve_spec by assumption. unfold reserve_spec.
  destruct (N.leb_spec (ceil_pages s * 4096) last) as [H|H]; cbn; split; try split; try discriminate; try lia; auto.
Qed.

(** ---- region mapping ---- *)
Definition consecutive (page frame flags count : N) : list mapcall :=
  map (fun i => (w64 (page + N.of_nat i), w64 (frame + N.of_nat i), flags)) (seq 0 (N.to_nat count)).

Lemma map_loop_ok page frame flags count :
  map_loop page frame flags count None = (consecutive page frame flags count, true).
Proof. reflexivity. Qed.

Lemma map_loop_fail page frame flags count k :
  k < count -> map_loop page frame flags count (Some k) = (consecutive page frame flags (k + 1), false).
Proof.
  intros H. unfold map_loop. apply N.ltb_lt in H. rewrite H. reflexivity.
Qed.

Lemma page_of_addr_aligned a : a mod 4096 = 0 -> a < two64 -> page_of_addr a = a / 4096 /\ page_of_addr a * 4096 = a.
Proof.
  intros Hm Hl. unfold page_of_addr. rewrite PageSize_pow2, andnot_pow2, N.shiftr_div_pow2.
  change (2 ^ PageShift) with 4096. rewrite Hm. split; [f_equal; lia|].
  replace (a - 0) with a by lia. lia.
Qed.

Lemma map_region_ok last f s fl :
  s < two64 -> WFstart last ->
  match reserve_spec last s with
  | Some (a, len) =>
      map_region last f s fl None = (a, consecutive (a / 4096) f fl (ceil_pages s), Some (a / 4096))
      /\ (a / 4096) * 4096 = a /\ ceil_pages s * 4096 = len
  | None => map_region last f s fl None = (last, [], None)
  end.
Proof.
  intros Hs [Hm Hl]. unfold map_region. rewrite round_up_ltb by exact Hs.
  unfold reserve_spec.
  destruct (N.leb_spec two64 (s + 4095)) as [H|H].
  - destruct (N.leb_spec (ceil_pages s * 4096) last) as [H2|H2]; [|reflexivity].
    exfalso. pose proof temp_lt. unfold ceil_pages, two64 in *. lia.
  - pose proof (round_up_ge s H) as (H1 & H2 & H3).
    assert (Hr: round_up s < two64) by (unfold two64 in *; pose proof temp_lt; unfold two64 in *; lia).
    rewrite early_reserve_spec by assumption. unfold reserve_spec.
    assert (Hc: ceil_pages (round_up s) = ceil_pages s).
    { rewrite (round_up_nowrap s H). unfold ceil_pages. lia. }
    rewrite Hc.
    destruct (N.leb_spec (ceil_pages s * 4096) last) as [H4|H4]; [|reflexivity].
    rewrite PageSize_val in Hm.
    assert (Ha: (last - ceil_pages s * 4096) mod 4096 = 0) by lia.
    assert (Hlt: last - ceil_pages s * 4096 < two64) by (pose proof temp_lt; lia).
    destruct (page_of_addr_aligned _ Ha Hlt) as [P1 P2].
    rewrite P1. rewrite map_loop_ok.
    replace (N.shiftr (round_up s) PageShift) with (ceil_pages s).
    2:{ rewrite N.shiftr_div_pow2. change (2 ^ PageShift) with 4096. rewrite (round_up_nowrap s H). 
        rewrite N.div_mul by discriminate. reflexivity. }
    repeat split; lia.
Qed.

Lemma identity_map_region_ok f s fl :
  s + 4095 < two64 -> f + ceil_pages s < two64 ->
  identity_map_region f s fl None = (consecutive f f fl (ceil_pages s), Some f).
Proof.
  intros Hs Hf. unfold identity_map_region.
  assert (Hs': s < two64) by lia.
  rewrite round_up_ltb by exact Hs'.
  destruct (N.leb_spec two64 (s + 4095)) as [H|H]; [lia|].
  replace (N.shiftr (round_up s) PageShift) with (ceil_pages s).
  2:{ rewrite N.shiftr_div_pow2. change (2 ^ PageShift) with 4096. rewrite (round_up_nowrap s H).
      rewrite N.div_mul by discriminate. reflexivity. }
  rewrite w64_small by exact Hf.
  destruct (N.ltb_spec f (f + ceil_pages s)) as [H2|H2].
  - replace (f + ceil_pages s - f) with (ceil_pages s) by lia. rewrite map_loop_ok. reflexivity.
  - assert (ceil_pages s = 0) by lia. rewrite H0. reflexivity.
Qed.

Lemma region_wrap_rejected last f s fl fail :
  s < two64 -> two64 <= s + 4095 ->
  early_reserve last s = (last, None) /\
  map_region last f s fl fail = (last, [], None) /\
  identity_map_region f s fl fail = ([], None).
Proof.
  intros Hs H. unfold early_reserve, map_region, identity_map_region.
  rewrite round_up_ltb by exact Hs. apply N.leb_le in H. rewrite H. auto.
Qed.
