(** Model of kernel/mm/vmm/addr_space.go (EarlyReserveRegion) and of the page loops of
    MapRegion / IdentityMapRegion in kernel/mm/vmm/map.go.   Definitions only. *)
From Coq Require Import NArith List Bool.
From FF Require Import Lib.Word Gen.Consts_mm_vmm.
Import ListNotations.
Local Open Scope N_scope.

Definition PageSize : N := mm_PageSize.
Definition PageShift : N := mm_PageShift.

(** [(size + (PageSize-1)) & ^(PageSize-1)] on uintptr. *)
Definition round_up (size : N) : N := andnot (w64 (size + (PageSize - 1))) (PageSize - 1).

(** Outcome of a reservation: new cursor and [Some addr] / [None] (= errEarlyReserveNoSpace). *)
Definition early_reserve (last size : N) : N * option N :=
  let sz := round_up size in
  if sz <? size then (last, None)            (* round-up wrapped: request cannot fit *)
  else if last <? sz then (last, None)
  else (last - sz, Some (last - sz)).

(** A call seen by the mapFn seam: (page, frame, flags). *)
Definition mapcall : Type := (N * N * N)%type.

(** [count] iterations of  page+1, frame+1 (uintptr arithmetic); the seam fails at call
    number [fail] (0-based) if [fail < count]. Returns the calls made and whether all succeeded. *)
Definition map_loop (page frame flags count : N) (fail : option N) : list mapcall * bool :=
  let n := match fail with Some k => if k <? count then k + 1 else count | None => count end in
  let calls := map (fun i => (w64 (page + N.of_nat i), w64 (frame + N.of_nat i), flags)) (seq 0 (N.to_nat n)) in
  (calls, match fail with Some k => negb (k <? count) | None => true end).

Definition page_of_addr (a : N) : N := N.shiftr (andnot a (PageSize - 1)) PageShift.

(** MapRegion: -> new cursor, calls, result page *)
Definition map_region (last frame size flags : N) (fail : option N) : N * list mapcall * option N :=
  let sz := round_up size in
  if sz <? size then (last, [], None) else
  match early_reserve last sz with
  | (last', None) => (last', [], None)
  | (last', Some start) =>
      let '(calls, ok) := map_loop (page_of_addr start) frame flags (N.shiftr sz PageShift) fail in
      (last', calls, if ok then Some (page_of_addr start) else None)
  end.

(** IdentityMapRegion: -> calls, result page.  The Go loop is
    [for cur := start; cur < start+count; cur++]: when [start+count] wraps nothing is mapped. *)
Definition identity_map_region (frame size flags : N) (fail : option N) : list mapcall * option N :=
  let sz := round_up size in
  if sz <? size then ([], None) else
  let count := N.shiftr sz PageShift in
  let stop := w64 (frame + count) in
  let n := if frame <? stop then stop - frame else 0 in
  let '(calls, ok) := map_loop frame frame flags n fail in
  (calls, if ok then Some frame else None).

(** ---- histories ---- *)
Inductive op :=
| Reserve (size : N)
| MapRegion (frame size flags : N) (fail : option N)
| IdMapRegion (frame size flags : N) (fail : option N).

Inductive res :=
| RReserve (r : option N)
| RMap (calls : list mapcall) (r : option N).

Definition step (last : N) (o : op) : N * res :=
  match o with
  | Reserve s => let '(l, r) := early_reserve last s in (l, RReserve r)
  | MapRegion f s fl fail => let '(l, c, r) := map_region last f s fl fail in (l, RMap c r)
  | IdMapRegion f s fl fail => let '(c, r) := identity_map_region f s fl fail in (last, RMap c r)
  end.

Fixpoint run (last : N) (ops : list op) : list res :=
  match ops with
  | [] => []
  | o :: rest => let '(l, r) := step last o in r :: run l rest
  end.

(** ---- flat encoding for the correspondence driver ----
    case  = start :: ops ; op = 0 size | 1 frame size flags failcode | 2 frame size flags failcode
    failcode 0 = never, k+1 = fail at call k ; start 0 = the kernel's initial cursor *)
Definition dec_fail (c : N) : option N := if c =? 0 then None else Some (c - 1).

Fixpoint dec_ops (fuel : nat) (l : list N) : list op :=
  match fuel with O => [] | S fuel =>
  match l with
  | 0 :: s :: rest => Reserve s :: dec_ops fuel rest
  | 1 :: f :: s :: fl :: c :: rest => MapRegion f s fl (dec_fail c) :: dec_ops fuel rest
  | 2 :: f :: s :: fl :: c :: rest => IdMapRegion f s fl (dec_fail c) :: dec_ops fuel rest
  | _ => []
  end end.

Definition enc_opt (r : option N) : list N := match r with Some a => [1; a] | None => [0; 0] end.

Definition enc_res (r : res) : list N :=
  match r with
  | RReserve r => enc_opt r
  | RMap calls r => enc_opt r ++ [N.of_nat (length calls)] ++ flat_map (fun c => let '(p, f, fl) := c in [p; f; fl]) calls
  end.

Definition run_case (l : list N) : list N :=
  match l with
  | [] => []
  | start :: rest =>
      let l0 := if start =? 0 then vmm_earlyReserveInitial else start in
      flat_map enc_res (run l0 (dec_ops (length rest) rest))
  end.
