(** The hand-written model of reserveZeroedFrame (Vmm/Pt.v [reserve_zeroed]) against the Gallina translation that
    gen/gotrans ("memory as state" mode, config vmm_zero.json) regenerates from kernel/mm/vmm/vmm.go on every run
    (Gen/Trans_vmm_zero.v).  The package variables ReservedZeroedFrame and protectReservedZeroedPage are the fields [zf]
    and [prot] of the state; assignments to them apply the model's setters.  mm.AllocFrame (which hands back
    mm.InvalidFrame with its error), mapTemporaryFn, kernel.Memset and unmapFn are seams with the model's environment
    as oracles. *)
From Coq Require Import NArith ZArith String List Bool Lia.
From FF Require Import Lib.Word Lib.GoOps Lib.GoOpsProofs Gen.Consts_mm_vmm Gen.Trans_vmm_zero.
From FF Require Import Vmm.Pt Vmm.PtMem Vmm.PtAccess.
From FF Require Vmm.PdtTrans Vmm.MapTrans.
Module P := FF.Vmm.PdtTrans.
Module M := FF.Vmm.MapTrans.
Import ListNotations.
Local Open Scope N_scope.

Notation W := mk_go_vmm_world (only parsing).

(** mm.AllocFrame returns (InvalidFrame, error) when it fails *)
Definition o_alloc_inv (_ : list gcall) (s : st) : option (st * (N * option string)) :=
  match alloc s with
  | (s1, None) => Some (s1, (mm_InvalidFrame, P.err_of E_ALLOC))
  | (s1, Some f) => Some (s1, (f, None))
  end.

Definition ev_alloc : gcall := GCall "mm.AllocFrame" [].

Definition zero_events (s : st) (e : N) (tr0 : list gcall) : list gcall :=
  match alloc s with
  | (_, None) => ev_alloc :: tr0
  | (_, Some f) =>
      if e =? 0 then P.ev_unmap temp_page :: P.ev_memset (frame_addr temp_page) :: P.ev_maptemp f :: ev_alloc :: tr0
      else P.ev_maptemp f :: ev_alloc :: tr0
  end.

Lemma page_addr_any f : go_mm_Page_Address f = frame_addr f.
Proof. unfold go_mm_Page_Address, frame_addr, shl64. rewrite !gw64. apply w64_small. apply w64_lt. Qed.

Ltac wsimp := cbn [f_world_trace f_world_mem set_f_world_trace set_f_world_mem].

Theorem reserve_zeroed_is_translation s tr0 :
  go_vmm_reserveZeroedFrame (W tr0 s) P.o_memset P.o_maptemp o_alloc_inv P.o_unmap =
  match reserve_zeroed s with
  | Stray => GPanic
  | Ok (s', e) => GOk (W (zero_events s e tr0) s', P.err_of e)
  end.
Proof.
  unfold go_vmm_reserveZeroedFrame, reserve_zeroed, zero_events.
  unfold go_vmm_world_seam at 1. wsimp. unfold o_alloc_inv.
  destruct (alloc s) as [s1 [f|]] eqn:Ea; [|reflexivity].
  wsimp. cbn [gerr_eqb negb].
  unfold go_vmm_world_seam at 1. wsimp. cbn [P.o_maptemp zf set_zf].
  destruct (map_temporary f (set_zf s1 f)) as [[[s3 err] page]|] eqn:Emt; [|reflexivity].
  rewrite M.err_of_nil.
  destruct (err =? 0) eqn:Eerr; cbn [negb]; [|cbv iota beta; rewrite Eerr; reflexivity].
  apply N.eqb_eq in Eerr. subst err.
  pose proof (P.map_temporary_page _ _ _ _ _ Emt) as Ep. change (page = temp_page) in Ep. subst page.
  rewrite page_addr_any.
  unfold go_vmm_world_seam at 1. wsimp. cbn [P.o_memset].
  change ((0 =? 0) && (mm_PageSize =? mm_PageSize)) with true. cbv iota.
  destruct (resolve_page s3 (frame_addr temp_page)) as [pf|]; [|reflexivity].
  wsimp.
  unfold go_vmm_world_seam. wsimp. cbn [P.o_unmap].
  destruct (unmap_page temp_page _) as [[s4 e4]|]; cbn [P.lift_op]; reflexivity.
Qed.
