(** Unmap, pteForAddress/Translate and the fault handler's walk on well-formed trees; leaf writes. *)
From Coq Require Import NArith ZArith Lia List Bool.
From Coq Require Import ZifyBool ZifyN ZifyNat.
From FF Require Import Lib.Word Gen.Consts_mm_vmm Vmm.Region Vmm.Pt Vmm.PtMem Vmm.PtArith Vmm.PtTree Vmm.PtMap.
Import ListNotations.
Local Open Scope N_scope.
Ltac Zify.zify_post_hook ::= Z.div_mod_to_equations.

(** * [look] is [follow] plus one raw read *)
Lemma look_follow s t q j :
  look s t (q ++ [j]) = match follow s t q with
                        | Some l => if backed s l then Some (ent s l j) else None
                        | None => None
                        end.
Proof.
  revert t. induction q as [|i r IH]; intros t.
  - cbn [app follow]. apply look_one.
  - cbn [app follow]. destruct (r ++ [j]) as [|i2 r2] eqn:E.
    + destruct r; discriminate.
    + rewrite look_cons. destruct (backed s t && usable (ent s t i)); [|reflexivity].
      apply IH.
Qed.

Lemma ixs_split pg : ixs pg = firstn 3 (ixs pg) ++ [hw_idx pg 3].
Proof. reflexivity. Qed.

Lemma split_last4 (is : list N) : length is = 4%nat -> exists q j, is = q ++ [j] /\ length q = 3%nat.
Proof.
  intros H. destruct is as [|a [|b [|c [|d [|e r]]]]]; try discriminate.
  exists [a; b; c], d. split; reflexivity.
Qed.

(** * Writing one entry of a last-level table *)
Lemma leaf_write s A T own l p3 j v a :
  Inv s A T own -> follow s T p3 = Some l -> length p3 = 3%nat -> Forall (fun x => x < 512) p3 -> hd 0 p3 <> 511 ->
  let s' := flush (wr_st s l j v) a in
  Inv s' A T own /\ same_env s s' /\ orc s' = orc s /\ flog s' = a :: flog s /\
  (forall f i, f <> l \/ i <> j -> ent s' f i = ent s f i) /\ ent s' l j = v /\ own l = Some p3 /\
  look s' T (p3 ++ [j]) = Some v /\
  (forall q j', length q = 3%nat -> Forall (fun x => x < 512) q -> hd 0 q <> 511 -> q ++ [j'] <> p3 ++ [j] ->
       look s' T (q ++ [j']) = look s T (q ++ [j'])).
Proof.
  intros HI Hfl Hl Hlt3 Hhd3 s'.
  pose proof (inv_wf _ _ _ _ HI) as W.
  assert (Ho: own l = Some p3).
  { change p3 with ([] ++ p3). eapply follow_own; try eassumption.
    - exact (wf_root _ _ _ W).
    - cbn [length]. lia. }
  assert (He: forall f i, ent s' f i = if (f =? l) && (i =? j) then v else ent s f i).
  { intros. unfold s'. rewrite ent_flush. apply ent_wr. }
  assert (Hnl: forall f i, f <> l \/ i <> j -> ent s' f i = ent s f i).
  { intros f i Hd. rewrite He. destruct (N.eqb_spec f l); destruct (N.eqb_spec i j); cbn [andb]; try reflexivity.
    destruct Hd; congruence. }
  assert (HlT: l <> T) by (intros E; rewrite E, (wf_root _ _ _ W) in Ho; inversion Ho as [E2]; rewrite <- E2 in Hl; discriminate).
  assert (HlA: l <> A).
  { destruct (inv_A _ _ _ _ HI) as [HA|HA]; [rewrite HA; exact HlT | intros E; rewrite E, HA in Ho; discriminate]. }
  assert (Ef: forall q, length q = 3%nat -> Forall (fun x => x < 512) q -> hd 0 q <> 511 -> follow s' T q = follow s T q).
  { intros q Hlq Hlt Hhd. eapply (follow_frame s s' T own T []); try reflexivity; try eassumption.
    - exact (wf_root _ _ _ W).
    - intros f p i Hp _ Hlp. cbn [length] in Hlp. apply Hnl. left. intros E. rewrite E, Ho in Hp. inversion Hp as [E2]. rewrite <- E2 in Hlp. lia.
    - cbn [length]. lia. }
  destruct (wf_owned _ _ _ W l p3 Ho) as (Hb & _).
  split.
  { apply (Inv_ent_eq s s' A T own HI); try reflexivity.
    intros f i [-> | [-> | (p & Hop & Hlp)]]; apply Hnl; left; try congruence.
    intros E. rewrite E, Ho in Hop. inversion Hop as [E2]. rewrite <- E2 in Hlp. lia. }
  split; [repeat split|]. split; [reflexivity|]. split; [reflexivity|]. split; [exact Hnl|].
  split; [rewrite He, !N.eqb_refl; reflexivity|]. split; [exact Ho|].
  split.
  { rewrite look_follow, Ef, Hfl by assumption. replace (backed s' l) with (backed s l) by reflexivity.
    rewrite Hb, He, !N.eqb_refl. reflexivity. }
  intros q j' Hlq Hlt Hhd Hne.
  rewrite !look_follow, Ef by assumption.
  destruct (follow s T q) as [l'|] eqn:Efq; [|reflexivity].
  replace (backed s' l') with (backed s l') by reflexivity.
  rewrite Hnl; [reflexivity|].
  destruct (N.eq_dec l' l) as [E|E]; [|left; exact E]. right. intros Ej. apply Hne.
  assert (Ho': own l' = Some q).
  { change q with ([] ++ q). eapply follow_own; try eassumption.
    - exact (wf_root _ _ _ W).
    - cbn [length]. lia. }
  rewrite E, Ho in Ho'. inversion Ho'. subst. reflexivity.
Qed.

(** * Descending through present entries *)
Section Descend.
  Variables (A T pg va : N).
  Hypothesis Hva : forall k, k <= 3 -> hw_idx (N.shiftr va 12) k = hw_idx pg k.

  Lemma descend_step pre sh s own t :
    (length pre <= 2)%nat -> entry_index va sh 9 = ix pg (length pre) -> Pre A T pg pre s own t ->
    resolve s (entry_addr (wwin pre) va sh 9) = Some (t, ix pg (length pre)) /\
    shl64 (entry_addr (wwin pre) va sh 9) 9 = wwin (pre ++ [ix pg (length pre)]) /\
    hw_PS (ent s t (ix pg (length pre))) = false /\
    skipn (length pre) (ixs pg) = ix pg (length pre) :: skipn (S (length pre)) (ixs pg) /\
    (hw_P (ent s t (ix pg (length pre))) = true ->
       Pre A T pg (pre ++ [ix pg (length pre)]) s own (hw_frame (ent s t (ix pg (length pre))))).
  Proof.
    intros Hl Hidx HP.
    destruct (pre_table A T pg pre s own t HP ltac:(lia)) as (Ho & Hb & Hlt & Hix & Hhd & Hsn).
    destruct HP as (HI & Hf & Hp & H511).
    set (i := ix pg (length pre)) in *.
    pose proof (inv_wf _ _ _ _ HI) as W.
    destruct (hd_app_ne pre i Hhd) as [Hne Hhd0].
    destruct (wf_child _ _ _ W t pre i Ho ltac:(lia) Hix Hne) as [HPS Hchild].
    split.
    { unfold entry_addr. rewrite pointer_shift_val, Hidx.
      eapply resolve_entry; try eassumption.
      - exact (inv_cr3 _ _ _ _ HI).
      - exact (inv_rec _ _ _ _ HI).
      - lia. }
    split.
    { unfold entry_addr. rewrite pointer_shift_val, Hidx. apply wwin_next; assumption. }
    split; [exact HPS|].
    split; [apply skipn_ix; lia|].
    intros HPres. split; [exact HI|]. split.
    { rewrite follow_app, Hf. cbn [follow]. rewrite Hb. unfold usable. rewrite HPres, HPS. reflexivity. }
    split; [|exact H511].
    rewrite app_length. cbn [length]. replace (length pre + 1)%nat with (S (length pre)) by lia. exact Hsn.
  Qed.

  Lemma descend_leaf pre s own t :
    length pre = 3%nat -> Pre A T pg pre s own t ->
    resolve s (entry_addr (wwin pre) va 12 9) = Some (t, hw_idx pg 3) /\ skipn (length pre) (ixs pg) = [hw_idx pg 3].
  Proof.
    intros Hl HP.
    destruct (pre_table A T pg pre s own t HP ltac:(lia)) as (Ho & Hb & Hlt & Hix & Hhd & Hsn).
    destruct HP as (HI & Hf & Hp & H511).
    split; [|rewrite Hl; reflexivity].
    unfold entry_addr. rewrite pointer_shift_val.
    destruct (entry_index_hw va) as (_ & _ & _ & E3). rewrite E3, Hva by lia.
    eapply resolve_entry; try eassumption.
    - exact (inv_cr3 _ _ _ _ HI).
    - exact (inv_rec _ _ _ _ HI).
    - lia.
    - apply hw_idx_lt.
  Qed.

  (** where the read-only walks end: the location of the leaf entry if all four levels are present *)
  Fixpoint dloc (s : st) (t : N) (is : list N) : option (N * N) :=
    match is with
    | [] => None
    | [i] => if hw_P (ent s t i) then Some (t, i) else None
    | i :: r => if hw_P (ent s t i) then dloc s (hw_frame (ent s t i)) r else None
    end.

  Lemma dloc_cons s t i i2 r2 :
    dloc s t (i :: i2 :: r2) = if hw_P (ent s t i) then dloc s (hw_frame (ent s t i)) (i2 :: r2) else None.
  Proof. reflexivity. Qed.

  Lemma skipn_S_nonempty k : (k <= 2)%nat -> exists i2 r2, skipn (S k) (ixs pg) = i2 :: r2.
  Proof.
    intros Hk. unfold ixs. destruct k as [|[|[|n]]]; cbn; try (do 2 eexists; reflexivity). lia.
  Qed.

  (** pteForAddress *)
  Lemma pte_level pre sh rest s own :
    (length pre <= 2)%nat -> entry_index va sh 9 = ix pg (length pre) ->
    (forall t' acc, Pre A T pg (pre ++ [ix pg (length pre)]) s own t' ->
        pte_walk rest (wwin (pre ++ [ix pg (length pre)])) va s acc = Ok (dloc s t' (skipn (S (length pre)) (ixs pg)))) ->
    forall t acc, Pre A T pg pre s own t ->
        pte_walk ((sh, 9) :: rest) (wwin pre) va s acc = Ok (dloc s t (skipn (length pre) (ixs pg))).
  Proof.
    intros Hl Hidx IH t acc HP.
    destruct (descend_step pre sh s own t Hl Hidx HP) as (Hres & Hnext & HPS & Hskip & Hdown).
    destruct (skipn_S_nonempty (length pre) Hl) as (i2 & r2 & E2).
    cbn [pte_walk]. rewrite Hres. fold (ent s t (ix pg (length pre))). rewrite has_present_hw, Hskip, E2, dloc_cons.
    destruct (hw_P (ent s t (ix pg (length pre)))) eqn:HPres; cbn [negb]; [|reflexivity].
    rewrite Hnext, <- E2. apply IH. apply Hdown. reflexivity.
  Qed.

  Lemma pte_walk_spec s own :
    Inv s A T own -> hw_idx pg 0 <> 511 ->
    pte_walk go_levels vmm_pdtVirtualAddr va s None = Ok (dloc s T (ixs pg)).
  Proof.
    intros HI H511.
    destruct (entry_index_hw va) as (E0 & E1 & E2 & E3).
    assert (L3: forall t' acc, Pre A T pg [ix pg 0; ix pg 1; ix pg 2] s own t' ->
              pte_walk [(12, 9)] (wwin [ix pg 0; ix pg 1; ix pg 2]) va s acc = Ok (dloc s t' (skipn 3 (ixs pg)))).
    { intros t' acc HP. destruct (descend_leaf [ix pg 0; ix pg 1; ix pg 2] s own t' eq_refl HP) as [Hres _].
      cbn [pte_walk]. rewrite Hres. fold (ent s t' (hw_idx pg 3)). rewrite has_present_hw.
      change (skipn 3 (ixs pg)) with [hw_idx pg 3]. cbn [dloc].
      destruct (hw_P (ent s t' (hw_idx pg 3))); reflexivity. }
    assert (L2: forall t' acc, Pre A T pg [ix pg 0; ix pg 1] s own t' ->
              pte_walk [(21, 9); (12, 9)] (wwin [ix pg 0; ix pg 1]) va s acc = Ok (dloc s t' (skipn 2 (ixs pg)))).
    { apply (pte_level [ix pg 0; ix pg 1] 21 [(12, 9)] s own); [cbn [length]; lia | rewrite E2, Hva by lia; reflexivity | exact L3]. }
    assert (L1: forall t' acc, Pre A T pg [ix pg 0] s own t' ->
              pte_walk [(30, 9); (21, 9); (12, 9)] (wwin [ix pg 0]) va s acc = Ok (dloc s t' (skipn 1 (ixs pg)))).
    { apply (pte_level [ix pg 0] 30 [(21, 9); (12, 9)] s own); [cbn [length]; lia | rewrite E1, Hva by lia; reflexivity | exact L2]. }
    rewrite go_levels_val, <- wwin_nil.
    apply (pte_level [] 39 [(30, 9); (21, 9); (12, 9)] s own); [cbn [length]; lia | rewrite E0, Hva by lia; reflexivity | exact L1 |].
    split; [exact HI|]. split; [reflexivity|]. split; [reflexivity | exact H511].
  Qed.

  (** the fault handler's walk *)
  Lemma fault_level pre sh rest s own :
    (length pre <= 2)%nat -> entry_index va sh 9 = ix pg (length pre) ->
    (N.of_nat (length pre) =? last_level) = false ->
    (forall t', Pre A T pg (pre ++ [ix pg (length pre)]) s own t' ->
        fault_walk rest (N.of_nat (length pre) + 1) (wwin (pre ++ [ix pg (length pre)])) va s None =
        Ok (dloc s t' (skipn (S (length pre)) (ixs pg)))) ->
    forall t, Pre A T pg pre s own t ->
        fault_walk ((sh, 9) :: rest) (N.of_nat (length pre)) (wwin pre) va s None = Ok (dloc s t (skipn (length pre) (ixs pg))).
  Proof.
    intros Hl Hidx Hlast IH t HP.
    destruct (descend_step pre sh s own t Hl Hidx HP) as (Hres & Hnext & HPS & Hskip & Hdown).
    destruct (skipn_S_nonempty (length pre) Hl) as (i2 & r2 & E2).
    cbn [fault_walk]. rewrite Hres, Hlast. fold (ent s t (ix pg (length pre))). rewrite has_present_hw, Hskip, E2, dloc_cons.
    cbn [andb].
    destruct (hw_P (ent s t (ix pg (length pre)))) eqn:HPres; [|reflexivity].
    rewrite Hnext, <- E2. apply IH. apply Hdown. reflexivity.
  Qed.

  Lemma fault_walk_spec s own :
    Inv s A T own -> hw_idx pg 0 <> 511 ->
    fault_walk go_levels 0 vmm_pdtVirtualAddr va s None = Ok (dloc s T (ixs pg)).
  Proof.
    intros HI H511.
    destruct (entry_index_hw va) as (E0 & E1 & E2 & E3).
    assert (L3: forall t', Pre A T pg [ix pg 0; ix pg 1; ix pg 2] s own t' ->
              fault_walk [(12, 9)] 3 (wwin [ix pg 0; ix pg 1; ix pg 2]) va s None = Ok (dloc s t' (skipn 3 (ixs pg)))).
    { intros t' HP. destruct (descend_leaf [ix pg 0; ix pg 1; ix pg 2] s own t' eq_refl HP) as [Hres _].
      cbn [fault_walk]. rewrite Hres. fold (ent s t' (hw_idx pg 3)). rewrite has_present_hw.
      change (3 =? last_level) with true. cbn [andb].
      change (skipn 3 (ixs pg)) with [hw_idx pg 3]. cbn [dloc].
      destruct (hw_P (ent s t' (hw_idx pg 3))); reflexivity. }
    assert (L2: forall t', Pre A T pg [ix pg 0; ix pg 1] s own t' ->
              fault_walk [(21, 9); (12, 9)] 2 (wwin [ix pg 0; ix pg 1]) va s None = Ok (dloc s t' (skipn 2 (ixs pg)))).
    { apply (fault_level [ix pg 0; ix pg 1] 21 [(12, 9)] s own); [cbn [length]; lia | rewrite E2, Hva by lia; reflexivity | reflexivity | exact L3]. }
    assert (L1: forall t', Pre A T pg [ix pg 0] s own t' ->
              fault_walk [(30, 9); (21, 9); (12, 9)] 1 (wwin [ix pg 0]) va s None = Ok (dloc s t' (skipn 1 (ixs pg)))).
    { apply (fault_level [ix pg 0] 30 [(21, 9); (12, 9)] s own); [cbn [length]; lia | rewrite E1, Hva by lia; reflexivity | reflexivity | exact L2]. }
    rewrite go_levels_val, <- wwin_nil.
    apply (fault_level [] 39 [(30, 9); (21, 9); (12, 9)] s own); [cbn [length]; lia | rewrite E0, Hva by lia; reflexivity | reflexivity | exact L1 |].
    split; [exact HI|]. split; [reflexivity|]. split; [reflexivity | exact H511].
  Qed.

  (** Unmap: the result is explicit *)
  Fixpoint unmap_res (s : st) (t : N) (is : list N) : st * N :=
    match is with
    | [] => (s, E_OK)
    | [i] => (flush (wr_st s t i (clear_flags (ent s t i) vmm_FlagPresent)) va, E_OK)
    | i :: r => if hw_P (ent s t i) then unmap_res s (hw_frame (ent s t i)) r else (s, E_INVALID)
    end.

  Lemma unmap_res_cons s t i i2 r2 :
    unmap_res s t (i :: i2 :: r2) = if hw_P (ent s t i) then unmap_res s (hw_frame (ent s t i)) (i2 :: r2) else (s, E_INVALID).
  Proof. reflexivity. Qed.

  Lemma unmap_level pre sh rest s own :
    (length pre <= 2)%nat -> entry_index va sh 9 = ix pg (length pre) ->
    (N.of_nat (length pre) =? last_level) = false ->
    (forall t', Pre A T pg (pre ++ [ix pg (length pre)]) s own t' ->
        unmap_walk rest (N.of_nat (length pre) + 1) (wwin (pre ++ [ix pg (length pre)])) va s =
        Ok (unmap_res s t' (skipn (S (length pre)) (ixs pg)))) ->
    forall t, Pre A T pg pre s own t ->
        unmap_walk ((sh, 9) :: rest) (N.of_nat (length pre)) (wwin pre) va s = Ok (unmap_res s t (skipn (length pre) (ixs pg))).
  Proof.
    intros Hl Hidx Hlast IH t HP.
    destruct (descend_step pre sh s own t Hl Hidx HP) as (Hres & Hnext & HPS & Hskip & Hdown).
    destruct (skipn_S_nonempty (length pre) Hl) as (i2 & r2 & E2).
    cbn [unmap_walk]. rewrite Hres, Hlast. fold (ent s t (ix pg (length pre))).
    rewrite has_present_hw, has_huge_hw, HPS, Hskip, E2, unmap_res_cons.
    destruct (hw_P (ent s t (ix pg (length pre)))) eqn:HPres; cbn [negb]; [|reflexivity].
    rewrite Hnext, <- E2. apply IH. apply Hdown. reflexivity.
  Qed.

  Lemma unmap_walk_spec s own :
    Inv s A T own -> hw_idx pg 0 <> 511 ->
    unmap_walk go_levels 0 vmm_pdtVirtualAddr va s = Ok (unmap_res s T (ixs pg)).
  Proof.
    intros HI H511.
    destruct (entry_index_hw va) as (E0 & E1 & E2 & E3).
    assert (L3: forall t', Pre A T pg [ix pg 0; ix pg 1; ix pg 2] s own t' ->
              unmap_walk [(12, 9)] 3 (wwin [ix pg 0; ix pg 1; ix pg 2]) va s = Ok (unmap_res s t' (skipn 3 (ixs pg)))).
    { intros t' HP. destruct (descend_leaf [ix pg 0; ix pg 1; ix pg 2] s own t' eq_refl HP) as [Hres _].
      cbn [unmap_walk]. rewrite Hres. change (3 =? last_level) with true. cbn iota. reflexivity. }
    assert (L2: forall t', Pre A T pg [ix pg 0; ix pg 1] s own t' ->
              unmap_walk [(21, 9); (12, 9)] 2 (wwin [ix pg 0; ix pg 1]) va s = Ok (unmap_res s t' (skipn 2 (ixs pg)))).
    { apply (unmap_level [ix pg 0; ix pg 1] 21 [(12, 9)] s own); [cbn [length]; lia | rewrite E2, Hva by lia; reflexivity | reflexivity | exact L3]. }
    assert (L1: forall t', Pre A T pg [ix pg 0] s own t' ->
              unmap_walk [(30, 9); (21, 9); (12, 9)] 1 (wwin [ix pg 0]) va s = Ok (unmap_res s t' (skipn 1 (ixs pg)))).
    { apply (unmap_level [ix pg 0] 30 [(21, 9); (12, 9)] s own); [cbn [length]; lia | rewrite E1, Hva by lia; reflexivity | reflexivity | exact L2]. }
    rewrite go_levels_val, <- wwin_nil.
    apply (unmap_level [] 39 [(30, 9); (21, 9); (12, 9)] s own); [cbn [length]; lia | rewrite E0, Hva by lia; reflexivity | reflexivity | exact L1 |].
    split; [exact HI|]. split; [reflexivity|]. split; [reflexivity | exact H511].
  Qed.
End Descend.

(** * The explicit results in terms of [follow] *)
Lemma descend_follow {X} s T own (g : N -> N -> X) (d : X) (rec : st -> N -> list N -> X) :
  (forall t i, rec s t [i] = g t i) ->
  (forall t i i2 r2, rec s t (i :: i2 :: r2) = if hw_P (ent s t i) then rec s (hw_frame (ent s t i)) (i2 :: r2) else d) ->
  WF s T own ->
  forall q t p j, own t = Some p -> Forall (fun x => x < 512) q -> (length p + length q <= 3)%nat -> hd 0 (p ++ q ++ [j]) <> 511 ->
  rec s t (q ++ [j]) = match follow s t q with Some l => g l j | None => d end.
Proof.
  intros R1 R2 W. induction q as [|i r IH]; intros t p j Ho Hlt Hlen Hhd.
  - cbn [app follow]. apply R1.
  - cbn [app follow]. destruct (r ++ [j]) as [|i2 r2] eqn:E; [destruct r; discriminate|].
    rewrite R2. inversion Hlt as [|? ? Hi Hr]; subst. cbn [length] in Hlen.
    assert (Hne: p ++ [i] <> [511]).
    { intros E2. destruct p as [|x p']; cbn in *.
      - inversion E2; subst. apply Hhd. reflexivity.
      - inversion E2 as [[E3 E4]]. destruct p'; discriminate. }
    destruct (wf_owned _ _ _ W t p Ho) as (Hb & _).
    rewrite Hb, (wf_present_usable s T own t p i W Ho ltac:(lia) Hi Hne). cbn [andb].
    destruct (hw_P (ent s t i)) eqn:HP; [|reflexivity].
    destruct (wf_child _ _ _ W t p i Ho ltac:(lia) Hi Hne) as [_ Hc]. specialize (Hc HP).
    rewrite <- E. apply (IH _ (p ++ [i])); try assumption.
    + rewrite app_length. cbn [length]. lia.
    + rewrite <- app_assoc. exact Hhd.
Qed.

Lemma ixs_hd pg : hd 0 (ixs pg) = hw_idx pg 0.
Proof. reflexivity. Qed.

Lemma firstn3_lt pg : Forall (fun x => x < 512) (firstn 3 (ixs pg)).
Proof. unfold ixs. cbn [firstn]. repeat constructor; apply hw_idx_lt. Qed.

Lemma dloc_top s A T own pg :
  Inv s A T own -> hw_idx pg 0 <> 511 ->
  dloc s T (ixs pg) = match follow s T (firstn 3 (ixs pg)) with
                      | Some l => if hw_P (ent s l (hw_idx pg 3)) then Some (l, hw_idx pg 3) else None
                      | None => None
                      end.
Proof.
  intros HI H511. rewrite ixs_split at 1.
  apply (descend_follow s T own (fun l j => if hw_P (ent s l j) then Some (l, j) else None) None (fun s => dloc s) (fun _ _ => eq_refl) (dloc_cons s) (inv_wf _ _ _ _ HI) _ T []).
  - exact (wf_root _ _ _ (inv_wf _ _ _ _ HI)).
  - apply firstn3_lt.
  - cbn. lia.
  - cbn. exact H511.
Qed.

Lemma unmap_res_top va s A T own pg :
  Inv s A T own -> hw_idx pg 0 <> 511 ->
  unmap_res va s T (ixs pg) = match follow s T (firstn 3 (ixs pg)) with
                              | Some l => (flush (wr_st s l (hw_idx pg 3) (clear_flags (ent s l (hw_idx pg 3)) vmm_FlagPresent)) va, E_OK)
                              | None => (s, E_INVALID)
                              end.
Proof.
  intros HI H511. rewrite ixs_split at 1.
  apply (descend_follow s T own (fun l j => (flush (wr_st s l j (clear_flags (ent s l j) vmm_FlagPresent)) va, E_OK)) (s, E_INVALID)
           (fun s => unmap_res va s) (fun _ _ => eq_refl) (unmap_res_cons va s) (inv_wf _ _ _ _ HI) _ T []).
  - exact (wf_root _ _ _ (inv_wf _ _ _ _ HI)).
  - apply firstn3_lt.
  - cbn. lia.
  - cbn. exact H511.
Qed.

(** * Data accesses through the MMU *)
Lemma hw_walk_follow_leaf s ks t pg l :
  follow s t (map (hw_idx pg) ks) = Some l -> backed s l = true ->
  hw_P (ent s l (hw_idx pg 3)) = true -> backed s (hw_frame (ent s l (hw_idx pg 3))) = true ->
  hw_walk s (ks ++ [3]) t pg = Some (hw_frame (ent s l (hw_idx pg 3))).
Proof.
  revert t. induction ks as [|k rest IH]; intros t Hf Hb HP Hbf; cbn [map follow app hw_walk] in *.
  - inversion Hf; subst. rewrite Hb. fold (ent s l (hw_idx pg 3)). rewrite HP.
    change (3 <? 3) with false. rewrite andb_false_r. cbn [negb andb]. rewrite Hbf. reflexivity.
  - destruct (backed s t); [|discriminate]. cbn [andb] in Hf.
    fold (ent s t (hw_idx pg k)). unfold usable in Hf.
    destruct (hw_P (ent s t (hw_idx pg k))); [|discriminate].
    destruct (hw_PS (ent s t (hw_idx pg k))); [discriminate|].
    cbn [andb negb] in *. apply IH; assumption.
Qed.

(** a page whose leaf entry is present translates to the entry's frame *)
Lemma mmu_leaf s A va l :
  N.shiftr (cr3 s) 12 = A ->
  follow s A (firstn 3 (ixs (N.shiftr va 12))) = Some l -> backed s l = true ->
  hw_P (ent s l (hw_idx (N.shiftr va 12) 3)) = true ->
  backed s (hw_frame (ent s l (hw_idx (N.shiftr va 12) 3))) = true ->
  mmu s va = Some (hw_frame (ent s l (hw_idx (N.shiftr va 12) 3))).
Proof.
  intros Hcr Hf Hb HP Hbf. unfold mmu, hw_levels. rewrite Hcr.
  change [0; 1; 2; 3] with ([0; 1; 2] ++ [3]). apply hw_walk_follow_leaf; assumption.
Qed.

Lemma mmu_page s va va' : N.shiftr va 12 = N.shiftr va' 12 -> mmu s va = mmu s va'.
Proof. unfold mmu. intros ->. reflexivity. Qed.

(** in terms of the address space *)
Lemma mmu_aspace s A T own page e :
  Inv s A T own -> A = T -> hw_idx page 0 <> 511 ->
  aspace s T page = Some e -> hw_P e = true -> backed s (hw_frame e) = true ->
  mmu s (frame_addr page) = Some (hw_frame e) /\
  exists l, follow s T (firstn 3 (ixs page)) = Some l /\ ent s l (hw_idx page 3) = e /\ own l = Some (firstn 3 (ixs page)).
Proof.
  intros HI EA H511 Ha HP Hb. subst T.
  pose proof (inv_wf _ _ _ _ HI) as W.
  unfold aspace in Ha. rewrite ixs_split, look_follow in Ha.
  destruct (follow s A (firstn 3 (ixs page))) as [l|] eqn:Ef; [|discriminate].
  destruct (backed s l) eqn:Hbl; [|discriminate]. injection Ha as He.
  assert (Ho: own l = Some (firstn 3 (ixs page))).
  { change (firstn 3 (ixs page)) with ([] ++ firstn 3 (ixs page)). eapply follow_own; try eassumption.
    - exact (wf_root _ _ _ W).
    - apply firstn3_lt.
    - cbn. lia. }
  split; [|exists l; repeat split; assumption].
  assert (Ei: forall k, k <= 3 -> hw_idx (N.shiftr (frame_addr page) 12) k = hw_idx page k) by (apply frame_addr_idx).
  assert (Eix: ixs (N.shiftr (frame_addr page) 12) = ixs page).
  { unfold ixs. rewrite !Ei by lia. reflexivity. }
  rewrite <- He.
  rewrite <- (Ei 3) by lia.
  apply (mmu_leaf s A (frame_addr page) l (inv_cr3 _ _ _ _ HI)).
  - rewrite Eix. exact Ef.
  - exact Hbl.
  - rewrite Ei by lia. rewrite He. exact HP.
  - rewrite Ei by lia. rewrite He. exact Hb.
Qed.
