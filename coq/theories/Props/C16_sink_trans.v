(** C16 — kfmt.SetOutputSink / kfmt.GetOutputSink tied by translation (statements only; proofs: Kfmt/SinkTrans.v).
    gen/gotrans (config kfmt_sink.json, gen/gotrans/ext_hal.go) regenerates Gen/Trans_kfmt_sink.v from
    kernel/kfmt/fmt.go on every run.  [outputSink] is a reference (0 = nil, terminal t = t + 1), [a] stands for
    &earlyPrintBuffer, and io.Copy - library code - is the event GCall "io.Copy" [GNum w; GNum a]; its contract (read
    the early ring buffer until EOF, hand every chunk to w.Write: "no boot log lost") is the model's
    [io_copy_contract] = [drain] + [deliver], whose Read is tied by translation (C16_ring_read_is_translation) and whose
    effect C16_ring_boot / C16_bringup prove.  kfmt.Printf (one line: Fprintf(outputSink, format, args...)) is not
    translated; the formatter is C15's subject (C15_fprintf_is_translation).
    (Audit note: the second conjunct of C16_setOutputSink_is_translation holds by unfolding - [io_copy_contract] is DEFINED as
    the rest of the model's [set_output_sink] - so it names the assumption about io.Copy, it does not prove it; the
    content of the theorem is the first conjunct: one store and exactly one io.Copy event.  No hypotheses.) *)
From Coq Require Import NArith String List.
From FF Require Import Lib.Word Lib.GoOps Gen.Trans_kfmt_sink Kfmt.Fmt Hal.Model Kfmt.SinkTrans.
Import ListNotations.
Local Open Scope N_scope.

(** SetOutputSink(t) for a terminal: the regenerated code stores t in outputSink and makes exactly ONE call,
    io.Copy(t, &earlyPrintBuffer), unconditionally (also when the ring has wrapped or is empty); the model's
    [set_output_sink] is exactly: switch the sink, then that call's contract *)
Theorem C16_setOutputSink_is_translation :
  forall tr st t a,
    go_kfmt_SetOutputSink (to_ws tr st) (t + 1) a
      = GOk (to_ws (GCall "io.Copy" [GNum (t + 1); GNum a] :: tr) (set_sink st (STTY t)), tt) /\
    set_output_sink t st = io_copy_contract t (set_sink st (STTY t)).
Proof. exact setOutputSink_is_translation. Qed.
Print Assumptions C16_setOutputSink_is_translation.

Theorem C16_setOutputSink_nil_is_translation :
  forall tr st a, go_kfmt_SetOutputSink (to_ws tr st) 0 a = GOk (to_ws tr (set_sink st SRing), tt).
Proof. exact setOutputSink_nil. Qed.
Print Assumptions C16_setOutputSink_nil_is_translation.

(** whatever the copy delivers, afterwards the sink is the terminal and the devices are untouched *)
Theorem C16_setOutputSink_model :
  forall t st st', set_output_sink t st = Ok st' ->
    h_sink st' = STTY t /\ h_console st' = h_console st /\ h_tty st' = h_tty st /\ h_active st' = h_active st.
Proof. exact setOutputSink_model. Qed.
Print Assumptions C16_setOutputSink_model.

(** GetOutputSink: the early buffer while outputSink is nil, else the sink (what probe() hands to its PrefixWriter) *)
Theorem C16_getOutputSink_is_translation :
  forall tr st a, go_kfmt_GetOutputSink (to_ws tr st) a = GOk (to_ws tr st, sink_ref a (h_sink st)).
Proof. exact getOutputSink_is_translation. Qed.
Print Assumptions C16_getOutputSink_is_translation.

(** concrete runs *)
Example C16_sink_run :
  go_kfmt_SetOutputSink (mk_go_kfmt_world [] 0) 6 99 = GOk (mk_go_kfmt_world [GCall "io.Copy" [GNum 6; GNum 99]] 6, tt) /\
  go_kfmt_GetOutputSink (mk_go_kfmt_world [] 0) 99 = GOk (mk_go_kfmt_world [] 0, 99) /\
  go_kfmt_GetOutputSink (mk_go_kfmt_world [] 6) 99 = GOk (mk_go_kfmt_world [] 6, 6).
Proof. vm_compute. repeat split; reflexivity. Qed.
