(** C03 / C01 - tie of the bitmap frame allocator model to the source BY TRANSLATION.
    Gen/Trans_pmm_bitmap.v is regenerated on every run by gen/gotrans (extended mode: a slice of structs
    with indexed read-modify-write of element fields, a slice of uint64 words, three nested loops with
    continue and return, Go int, the mutex calls as events) from kernel/mm/pmm/bitmap_allocator.go:
    poolForFrame, markFrame, FreeFrame, AllocFrame.  The structs BitmapAllocator / framePool become
    records (the unsafe slice headers poolsHdr / freeBitmapHdr are left out; mutex.Acquire / Release are
    [GEv "Acquire" []] / [GEv "Release" []] on the trace, most recent first).
    The hand-written model Pmm/Bitmap.v ([pool_for_frame], [mark_reserved], [bitmap_free], [bitmap_alloc]),
    about which C01 (no double allocation) and C03 (statistics, contract) are proved, is shown equal to
    that translation for EVERY allocator state (no invariant is needed): new state, returned frame /
    error, run-time panics (index out of range), and the lock is taken once and released once on every
    path.  [B.to_ga mtx a tr] maps the model's state to the translation's record.
    Side conditions: the slices have an int length (< 2^63) and fuel exceeds the number of pools, the
    number of words of every pool's bitmap and 64 (the bits of a word).
    markFrame is covered for flag = markReserved (the model has no markFree operation; FreeFrame inlines it).
    Statements only; proofs are in Pmm/BitmapTrans.v. *)
From Coq Require Import NArith String List.
From FF Require Import Lib.GoOps Gen.Consts_mm_pmm Gen.Trans_pmm_bitmap Pmm.Bitmap.
From FF Require Pmm.BitmapTrans.
Module B := FF.Pmm.BitmapTrans.
Import ListNotations.
Local Open Scope N_scope.

(** poolForFrame: the index of the first pool containing the frame, or -1 *)
Theorem C03_poolForFrame_is_translation :
  forall (mtx : bool) (a : balloc) (tr : list gevent) (f : N) (fuel : nat),
    (length (a_pools a) < fuel)%nat ->
    go_pmm_BitmapAllocator_poolForFrame fuel (B.to_ga mtx a tr) f =
    GOk (B.to_ga mtx a tr, match pool_for_frame a f with Some i => N.of_nat i | None => 2 ^ 64 - 1 end).
Proof. exact B.poolForFrame_is_translation. Qed.
Print Assumptions C03_poolForFrame_is_translation.

(** markFrame(poolIndex, frame, markReserved); poolIndex = -1 is the model's [None] *)
Theorem C03_markFrame_reserved_is_translation :
  forall (mtx : bool) (a : balloc) (tr : list gevent) (pi : option nat) (f : N),
    N.of_nat (length (a_pools a)) < 2 ^ 63 -> (forall i, pi = Some i -> N.of_nat i < 2 ^ 63) ->
    go_pmm_BitmapAllocator_markFrame (B.to_ga mtx a tr)
      (match pi with Some i => N.of_nat i | None => 2 ^ 64 - 1 end) f false =
    match mark_reserved a pi f with
    | Ok a' => GOk (B.to_ga mtx a' tr, tt)
    | Panic => GPanic
    | Hang => GFuel
    end.
Proof. exact B.markFrame_reserved_is_translation. Qed.
Print Assumptions C03_markFrame_reserved_is_translation.

Theorem C03_freeFrame_is_translation :
  forall (mtx : bool) (a : balloc) (tr : list gevent) (f : N) (fuel : nat),
    N.of_nat (length (a_pools a)) < 2 ^ 63 -> (length (a_pools a) < fuel)%nat ->
    go_pmm_BitmapAllocator_FreeFrame fuel (B.to_ga mtx a tr) f =
    match bitmap_free a f with
    | (_, FreePanic) => GPanic
    | (a', r) =>
        GOk (B.to_ga mtx a' (GEv "Release" [] :: GEv "Acquire" [] :: tr),
             match r with
             | FreeNotManaged => Some "errBitmapAllocFrameNotManaged"%string
             | FreeDoubleFree => Some "errBitmapAllocDoubleFree"%string
             | _ => None
             end)
    end.
Proof. exact B.freeFrame_is_translation_explicit. Qed.
Print Assumptions C03_freeFrame_is_translation.

Theorem C03_allocFrame_is_translation :
  forall (mtx : bool) (a : balloc) (tr : list gevent) (fuel : nat),
    N.of_nat (length (a_pools a)) < 2 ^ 63 ->
    (forall p, In p (a_pools a) -> N.of_nat (length (p_bitmap p)) < 2 ^ 63 /\ (length (p_bitmap p) < fuel)%nat) ->
    (length (a_pools a) < fuel)%nat -> (64 < fuel)%nat ->
    go_pmm_BitmapAllocator_AllocFrame fuel (B.to_ga mtx a tr) =
    match bitmap_alloc a with
    | (a', Some f) => GOk (B.to_ga mtx a' (GEv "Release" [] :: GEv "Acquire" [] :: tr), (f, None))
    | (a', None) =>
        GOk (B.to_ga mtx a' (GEv "Release" [] :: GEv "Acquire" [] :: tr),
             (mm_InvalidFrame, Some "errBitmapAllocOutOfMemory"%string))
    end.
Proof. exact B.allocFrame_is_translation_explicit. Qed.
Print Assumptions C03_allocFrame_is_translation.
