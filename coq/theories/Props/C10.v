(** C10 — multiboot information is decoded exactly and never read past its end.
    Statements only; every proof is [exact <lemma>] (lemmas in Multiboot/*Proofs.v).

    Model (Multiboot/Model.v): the decoders of kernel/multiboot/multiboot.go over a memory made of
    accessible segments; every load/store outside them is the outcome [Stray].
    Spec  (Multiboot/Spec.v): [mbinfo] = reserved word + list of tags (memory map with any entry size
    >= 24, framebuffer, command line, ELF sections, opaque others) each followed by its alignment
    padding; [encode] lays it out per the multiboot2 rules; [mem_of l block] places the block at
    [l_info l] (preceded by the accessible rest of its page) and the string table at [l_saddr l];
    everything else is inaccessible.  All theorems quantify over every well-formed [mbinfo] (any tag
    order, duplicates, sizes, padding bytes) and every placement; the results being [Ok] means that
    NO load or store left the block / string table. *)
From Coq Require Import NArith List Bool.
From FF Require Import Lib.Word Gen.Consts_multiboot Multiboot.Model Multiboot.Spec Multiboot.MemLemmas
  Multiboot.FindProofs Multiboot.MemMapProofs Multiboot.FbProofs Multiboot.CmdProofs Multiboot.ElfProofs Multiboot.Corollaries
  Multiboot.AfterVisit Multiboot.AfterVisitProofs.
Import ListNotations.
Local Open Scope N_scope.

(** the tag scan (8-byte stepping, int32(size+7)&^7) returns the payload address and payload size
    of the FIRST tag of the wanted type, or (0,0) when there is none; it terminates and never strays *)
Theorem C10_find_tag :
  forall (l : layout) (mb : mbinfo) (ty : N),
    mbinfo_wf (l_saddr l) (l_strtab l) mb -> layout_wf l (encode mb) -> ty <> 0 ->
    find_tag (mem_of l (encode mb)) (l_info l) ty =
      Ok (match locate ty (mb_tags mb) 8 with
          | Some (o, t) => (l_info l + o + 8, len (payload t))
          | None => (0, 0)
          end).
Proof. exact find_tag_encode. Qed.
Print Assumptions C10_find_tag.

(** memory regions: the visitor sees the entries of the first memory-map tag, in order, with their
    address and length, types outside {1,2,3,4} reported as reserved, until it returns false; the
    only stores are the in-place type normalisations, inside the block (its length is unchanged) *)
Theorem C10_mem_regions :
  forall (l : layout) (mb : mbinfo) (cont : N -> region -> bool) (fuel : nat),
    mbinfo_wf (l_saddr l) (l_strtab l) mb -> layout_wf l (encode mb) ->
    (length (expected_regions mb) < fuel)%nat ->
    exists block',
      len block' = len (encode mb) /\
      visit_mem_regions fuel cont (mem_of l (encode mb)) (l_info l) =
        (mem_of l block', visited cont 0 (expected_regions mb), Ok tt).
Proof. exact visit_mem_regions_encode. Qed.
Print Assumptions C10_mem_regions.

(** framebuffer: address, pitch, width, height, bpp, type of the first framebuffer tag and, for an
    RGB framebuffer, the six colour-layout bytes; None when there is no such tag *)
Theorem C10_framebuffer :
  forall (l : layout) (mb : mbinfo),
    mbinfo_wf (l_saddr l) (l_strtab l) mb -> layout_wf l (encode mb) ->
    framebuffer (mem_of l (encode mb)) (l_info l) = Ok (expected_fb mb).
Proof. exact framebuffer_encode. Qed.
Print Assumptions C10_framebuffer.

(** command line: the map built from the key=value and bare entries of the first command-line tag
    (bare flag f maps f to f; a later entry overrides an earlier one with the same key) *)
Theorem C10_cmdline :
  forall (l : layout) (mb : mbinfo),
    mbinfo_wf (l_saddr l) (l_strtab l) mb -> layout_wf l (encode mb) ->
    get_boot_cmdline (mem_of l (encode mb)) (l_info l) = Ok (expected_cmdline mb).
Proof. exact get_boot_cmdline_encode. Qed.
Print Assumptions C10_cmdline.

(** ELF sections: every section of the first ELF tag whose size is not 0, in order, with its
    NUL-terminated name from the string table, flags (low 32 bits), address and size *)
Theorem C10_elf_sections :
  forall (l : layout) (mb : mbinfo),
    mbinfo_wf (l_saddr l) (l_strtab l) mb -> layout_wf l (encode mb) ->
    visit_elf_sections (mem_of l (encode mb)) (l_info l) = (expected_sections (l_strtab l) mb, Ok tt).
Proof. exact visit_elf_sections_encode. Qed.
Print Assumptions C10_elf_sections.

(** decode ∘ encode: all four decoders at once *)
Theorem C10_decode_encode :
  forall (l : layout) (mb : mbinfo) (cont : N -> region -> bool) (fuel : nat),
    mbinfo_wf (l_saddr l) (l_strtab l) mb -> layout_wf l (encode mb) ->
    (length (expected_regions mb) < fuel)%nat ->
    let m := mem_of l (encode mb) in
    (exists block', len block' = len (encode mb) /\
       visit_mem_regions fuel cont m (l_info l) = (mem_of l block', visited cont 0 (expected_regions mb), Ok tt)) /\
    framebuffer m (l_info l) = Ok (expected_fb mb) /\
    get_boot_cmdline m (l_info l) = Ok (expected_cmdline mb) /\
    visit_elf_sections m (l_info l) = (expected_sections (l_strtab l) mb, Ok tt).
Proof.
  intros l mb cont fuel H1 H2 H3.
  exact (conj (visit_mem_regions_encode l mb cont fuel H1 H2 H3)
        (conj (framebuffer_encode l mb H1 H2)
        (conj (get_boot_cmdline_encode l mb H1 H2) (visit_elf_sections_encode l mb H1 H2)))).
Qed.
Print Assumptions C10_decode_encode.

(** what the region scan leaves in memory: exactly the encoding of [after_visit cont mb] — the same
    block with the type field of every visited entry of the first memory map normalised — ... *)
Theorem C10_mem_regions_memory :
  forall (l : layout) (mb : mbinfo) (cont : N -> region -> bool) (fuel : nat),
    mbinfo_wf (l_saddr l) (l_strtab l) mb -> layout_wf l (encode mb) ->
    (length (expected_regions mb) < fuel)%nat ->
    visit_mem_regions fuel cont (mem_of l (encode mb)) (l_info l) =
      (mem_of l (encode (after_visit cont mb)), visited cont 0 (expected_regions mb), Ok tt).
Proof. intros l mb cont fuel H1 H2 H3. exact (visit_mem_regions_after l mb cont H1 H2 fuel H3). Qed.
Print Assumptions C10_mem_regions_memory.

(** ... which is again a well-formed block at the same place with the same content *)
Theorem C10_after_visit_wellformed :
  forall (l : layout) (mb : mbinfo) (cont : N -> region -> bool),
    mbinfo_wf (l_saddr l) (l_strtab l) mb -> layout_wf l (encode mb) ->
    mbinfo_wf (l_saddr l) (l_strtab l) (after_visit cont mb) /\ layout_wf l (encode (after_visit cont mb)) /\
    expected_regions (after_visit cont mb) = expected_regions mb /\
    expected_fb (after_visit cont mb) = expected_fb mb /\
    expected_cmdline (after_visit cont mb) = expected_cmdline mb /\
    expected_sections (l_strtab l) (after_visit cont mb) = expected_sections (l_strtab l) mb.
Proof.
  intros l mb cont H1 H2.
  exact (conj (proj1 (after_visit_wf l mb cont H1 H2)) (conj (proj2 (after_visit_wf l mb cont H1 H2)) (after_visit_same l mb cont))).
Qed.
Print Assumptions C10_after_visit_wellformed.

(** so every decoder run AFTER a region scan, on the memory it left behind, still reports exactly
    the content of the block (this is the call sequence of the correspondence harness) *)
Theorem C10_decoders_after_visit :
  forall (l : layout) (mb : mbinfo) (cont cont' : N -> region -> bool) (fuel : nat),
    mbinfo_wf (l_saddr l) (l_strtab l) mb -> layout_wf l (encode mb) ->
    (length (expected_regions mb) < fuel)%nat ->
    let m1 := fst (fst (visit_mem_regions fuel cont (mem_of l (encode mb)) (l_info l))) in
    snd (fst (visit_mem_regions fuel cont' m1 (l_info l))) = visited cont' 0 (expected_regions mb) /\
    snd (visit_mem_regions fuel cont' m1 (l_info l)) = Ok tt /\
    framebuffer m1 (l_info l) = Ok (expected_fb mb) /\
    get_boot_cmdline m1 (l_info l) = Ok (expected_cmdline mb) /\
    visit_elf_sections m1 (l_info l) = (expected_sections (l_strtab l) mb, Ok tt).
Proof. exact decoders_after_visit. Qed.
Print Assumptions C10_decoders_after_visit.

(** tag order is irrelevant: two well-formed blocks whose first tag of each decoded kind agree (e.g.
    any reordering that keeps the relative order of tags of the same kind, with any other tags
    added, removed or moved) give the same reports, wherever they are placed *)
Theorem C10_tag_order_irrelevant :
  forall (l l' : layout) (mb mb' : mbinfo) (cont : N -> region -> bool) (fuel : nat),
    mbinfo_wf (l_saddr l) (l_strtab l) mb -> layout_wf l (encode mb) ->
    mbinfo_wf (l_saddr l') (l_strtab l') mb' -> layout_wf l' (encode mb') ->
    l_strtab l = l_strtab l' ->
    first_tag sel_memmap (mb_tags mb) = first_tag sel_memmap (mb_tags mb') ->
    first_tag sel_fb (mb_tags mb) = first_tag sel_fb (mb_tags mb') ->
    first_tag sel_cmd (mb_tags mb) = first_tag sel_cmd (mb_tags mb') ->
    first_tag sel_elf (mb_tags mb) = first_tag sel_elf (mb_tags mb') ->
    (length (expected_regions mb) < fuel)%nat ->
    let m := mem_of l (encode mb) in
    let m' := mem_of l' (encode mb') in
    snd (fst (visit_mem_regions fuel cont m (l_info l))) = snd (fst (visit_mem_regions fuel cont m' (l_info l'))) /\
    snd (visit_mem_regions fuel cont m (l_info l)) = Ok tt /\
    snd (visit_mem_regions fuel cont m' (l_info l')) = Ok tt /\
    framebuffer m (l_info l) = framebuffer m' (l_info l') /\
    get_boot_cmdline m (l_info l) = get_boot_cmdline m' (l_info l') /\
    visit_elf_sections m (l_info l) = visit_elf_sections m' (l_info l').
Proof. exact tag_order_irrelevant. Qed.
Print Assumptions C10_tag_order_irrelevant.

(** an absent tag yields an empty result *)
Theorem C10_absent_tags :
  forall (l : layout) (mb : mbinfo) (cont : N -> region -> bool) (fuel : nat),
    mbinfo_wf (l_saddr l) (l_strtab l) mb -> layout_wf l (encode mb) -> (0 < fuel)%nat ->
    let m := mem_of l (encode mb) in
    (first_tag sel_memmap (mb_tags mb) = None -> visit_mem_regions fuel cont m (l_info l) = (m, [], Ok tt)) /\
    (first_tag sel_fb (mb_tags mb) = None -> framebuffer m (l_info l) = Ok None) /\
    (first_tag sel_cmd (mb_tags mb) = None -> get_boot_cmdline m (l_info l) = Ok []) /\
    (first_tag sel_elf (mb_tags mb) = None -> visit_elf_sections m (l_info l) = ([], Ok tt)).
Proof. exact absent_tags. Qed.
Print Assumptions C10_absent_tags.

(** region types: exactly the defined ones are kept *)
Theorem C10_region_type :
  forall t, norm_type t = (if (1 <=? t) && (t <=? 4) then t else mb_MemReserved).
Proof. exact norm_type_spec. Qed.
Print Assumptions C10_region_type.

(** the command-line tokenizer inverts the layout of a command line *)
Theorem C10_cmdline_text :
  forall c : cmdline, cmdline_wf c ->
    parse_cmdline (cmd_text c) =
      fold_left (fun al e => assign (fst (entry_pair (fst e))) (snd (entry_pair (fst e))) al) (c_entries c) [].
Proof. exact parse_cmd_text. Qed.
Print Assumptions C10_cmdline_text.
