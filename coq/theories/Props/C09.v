(** C09 — concurrent frame allocation and freeing never duplicates or loses a frame.
    Statements only.  The sequential behaviour of AllocFrame/FreeFrame is the subject of C01/C03; this
    file carries the concurrency argument: (1) on every control-flow path of the operations, as
    regenerated from bitmap_allocator.go, every access to mutable allocator state lies between
    mutex.Acquire and mutex.Release and the mutex is released before returning; (2) tasks that obey
    this discipline under a mutual-exclusion lock (C08) are serializable: every interleaving yields the
    results, shared state and local states of the serial execution of the same calls in the order of
    their Acquires. *)
From Coq Require Import NArith List String Bool.
From FF Require Import Sync.Skel Sync.SkelProofs Gen.LockSkel Sync.SkelRun Sync.SkelGenProofs Sync.Serial Sync.SerialProofs.
From FF Require Import Lib.Word Pmm.Boot Pmm.BootProofs Pmm.Bitmap Pmm.BitmapProofs Pmm.HistoryProofs Pmm.InitProofs Pmm.TopProofs Sync.AllocTasks Sync.AllocTasksProofs.
Import ListNotations.

(** the checker accepts the skeletons regenerated from the current source, they do touch shared
    state, and the translator understood every statement *)
Theorem C09_skeletons_ok : skeletons_ok = true.
Proof. exact skeletons_ok_true. Qed.
Print Assumptions C09_skeletons_ok.

(** every path of AllocFrame: no shared access outside the mutex, no double acquire, no stray release,
    mutex released when the call returns *)
Theorem C09_alloc_paths_disciplined :
  forall t o, exec skel_AllocFrame t o -> lkrun false t = Some false /\ (o = ONormal \/ o = OReturn).
Proof. exact alloc_paths. Qed.
Print Assumptions C09_alloc_paths_disciplined.

Theorem C09_free_paths_disciplined :
  forall t o, exec skel_FreeFrame t o -> lkrun false t = Some false /\ (o = ONormal \/ o = OReturn).
Proof. exact free_paths. Qed.
Print Assumptions C09_free_paths_disciplined.

(** the checker is sound for every skeleton, not only today's *)
Theorem C09_checker_sound :
  forall s t o, well_bracketed s = true -> exec s t o ->
    lkrun false t = Some false /\ (o = ONormal \/ o = OReturn).
Proof. exact well_bracketed_sound. Qed.
Print Assumptions C09_checker_sound.

(** Serializability, for any shared state [S], local state [L], result type [R], any disciplined code,
    any number of tasks and any interleaving. *)
Theorem C09_serializable :
  forall (S L R : Type) (code : L -> @action S L R) (holds : L -> bool),
    disciplined code holds ->
    forall g0 g : @st S L R, initial holds g0 -> star (cstep code) g0 g ->
      lockinv holds g /\ exists g', star (sstep code holds) g0 g' /\ sim code g g'.
Proof. exact @serializable. Qed.
Print Assumptions C09_serializable.

(** ... in particular once every caller has stopped: same results in the same order, same allocator
    state (free/reserved totals, bitmaps) as the serial execution *)
Theorem C09_serializable_quiescent :
  forall (S L R : Type) (code : L -> @action S L R) (holds : L -> bool),
    disciplined code holds ->
    forall g0 g : @st S L R, initial holds g0 -> star (cstep code) g0 g -> owner g = None ->
      exists g', star (sstep code holds) g0 g' /\ hist g = hist g' /\ sh g = sh g' /\ same_loc (loc g) (loc g').
Proof. exact @serializable_quiescent. Qed.
Print Assumptions C09_serializable_quiescent.

Theorem C09_one_inside :
  forall (S L R : Type) (code : L -> @action S L R) (holds : L -> bool),
    disciplined code holds ->
    forall (g0 g : @st S L R) t u, initial holds g0 -> star (cstep code) g0 g ->
      holds (loc g t) = true -> holds (loc g u) = true -> t = u.
Proof. exact @one_inside. Qed.
Print Assumptions C09_one_inside.

(** ---- the theorem instantiated with the allocator's sequential model (C01/C03) ----
    [AllocTasks.code]: a caller's call = Acquire; the operation on the allocator state; Release; return.
    [start a0 plan]: allocator [a0], mutex free, task t about to perform the calls [plan t]. *)
Theorem C09_calls_disciplined : disciplined AllocTasks.code AllocTasks.holds.
Proof. exact alloc_disciplined. Qed.
Print Assumptions C09_calls_disciplined.

(** Any number of callers, any plans, any interleaving: whenever nobody is inside the allocator its state
    is the state after SOME sequential history of planned calls and every result handed to a caller is a
    result of that history. *)
Theorem C09_concurrent_alloc_is_serial :
  forall (a0 : balloc) (plan : nat -> list op) g,
    star (cstep AllocTasks.code) (start a0 plan) g -> owner g = None ->
    exists ops, sh g = final a0 ops /\ Forall (planned plan) ops /\
                Forall (fun e => In (snd e) (results a0 ops)) (hist g).
Proof. exact concurrent_alloc_is_serial. Qed.
Print Assumptions C09_concurrent_alloc_is_serial.

(** Composition with C01/C03: after a successful pmm.Init, for any number of concurrent callers, any plans
    (frees of frames reserved at initialisation excluded, as in C01/C03) and any interleaving, at quiescence
    there is a sequential history [ops] of the planned calls with: allocator state = state after [ops];
    along [ops] every frame handed out is usable and held by nobody else - no frame is ever held by two
    callers, a freed frame becomes allocatable again; free/reserved totals = usable minus held at every
    step; every result a caller got is a result of [ops]. *)
Theorem C09_concurrent_frames_exclusive :
  forall (m : memmap) (kstart kend limit mapfail : N) (a0 : balloc) (b0 : bstate) (obs : init_obs) (plan : nat -> list op) g,
    WFmap m -> WFkernel m kstart kend -> small_map m ->
    pmm_init m kstart kend limit mapfail = (InitOk a0 b0, obs) ->
    (forall t, history_ok m kstart kend (early_frames obs) (plan t)) ->
    star (cstep AllocTasks.code) (start a0 plan) g -> owner g = None ->
    exists ops,
      sh g = final a0 ops /\ Forall (planned plan) ops /\
      exclusive (usable m kstart kend (early_frames obs)) [] (combine ops (map fst (run a0 ops))) /\
      stats_ok (total_frames m) (usable_count m kstart kend (early_frames obs)) 0 (run a0 ops) /\
      Forall (fun e => In (snd e) (map fst (run a0 ops))) (hist g).
Proof. exact concurrent_frames_exclusive. Qed.
Print Assumptions C09_concurrent_frames_exclusive.
