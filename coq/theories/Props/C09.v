(** C09 — concurrent frame allocation and freeing never duplicates or loses a frame.
    Statements only.  The sequential behaviour of AllocFrame/FreeFrame is the subject of C01/C03; this
    file carries the concurrency argument: (1) on every control-flow path of the operations, as
    regenerated from bitmap_allocator.go, every access to mutable allocator state lies between
    mutex.Acquire and mutex.Release and the mutex is released before returning; (2) tasks that obey
    this discipline under a mutual-exclusion lock (C08) are serializable: every interleaving yields the
    results, shared state and local states of the serial execution of the same calls in the order of
    their Acquires. *)
From Coq Require Import NArith List String Bool.
From FF Require Import Sync.Skel Sync.SkelProofs Gen.LockSkel Sync.SkelRun Sync.SkelGenProofs Sync.Serial Sync.SerialProofs.
Import ListNotations.

(** the checker accepts the skeletons regenerated from the current source, they do touch shared
    state, and the translator understood every statement *)
Theorem C09_skeletons_ok : skeletons_ok = true.
Proof. exact skeletons_ok_true. Qed.
Print Assumptions C09_skeletons_ok.

(** every path of AllocFrame: no shared access outside the mutex, no double acquire, no stray release,
    mutex released when the call returns *)
Theorem C09_alloc_paths_disciplined :
  forall t o, exec skel_AllocFrame t o -> lkrun false t = Some false /\ (o = ONormal \/ o = OReturn).
Proof. exact alloc_paths. Qed.
Print Assumptions C09_alloc_paths_disciplined.

Theorem C09_free_paths_disciplined :
  forall t o, exec skel_FreeFrame t o -> lkrun false t = Some false /\ (o = ONormal \/ o = OReturn).
Proof. exact free_paths. Qed.
Print Assumptions C09_free_paths_disciplined.

(** the checker is sound for every skeleton, not only today's *)
Theorem C09_checker_sound :
  forall s t o, well_bracketed s = true -> exec s t o ->
    lkrun false t = Some false /\ (o = ONormal \/ o = OReturn).
Proof. exact well_bracketed_sound. Qed.
Print Assumptions C09_checker_sound.

(** Serializability, for any shared state [S], local state [L], result type [R], any disciplined code,
    any number of tasks and any interleaving. *)
Theorem C09_serializable :
  forall (S L R : Type) (code : L -> @action S L R) (holds : L -> bool),
    disciplined code holds ->
    forall g0 g : @st S L R, initial holds g0 -> star (cstep code) g0 g ->
      lockinv holds g /\ exists g', star (sstep code holds) g0 g' /\ sim code g g'.
Proof. exact @serializable. Qed.
Print Assumptions C09_serializable.

(** ... in particular once every caller has stopped: same results in the same order, same allocator
    state (free/reserved totals, bitmaps) as the serial execution *)
Theorem C09_serializable_quiescent :
  forall (S L R : Type) (code : L -> @action S L R) (holds : L -> bool),
    disciplined code holds ->
    forall g0 g : @st S L R, initial holds g0 -> star (cstep code) g0 g -> owner g = None ->
      exists g', star (sstep code holds) g0 g' /\ hist g = hist g' /\ sh g = sh g' /\ same_loc (loc g) (loc g').
Proof. exact @serializable_quiescent. Qed.
Print Assumptions C09_serializable_quiescent.

Theorem C09_one_inside :
  forall (S L R : Type) (code : L -> @action S L R) (holds : L -> bool),
    disciplined code holds ->
    forall (g0 g : @st S L R) t u, initial holds g0 -> star (cstep code) g0 g ->
      holds (loc g t) = true -> holds (loc g u) = true -> t = u.
Proof. exact @one_inside. Qed.
Print Assumptions C09_one_inside.
