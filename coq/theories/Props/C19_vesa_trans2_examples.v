(** Non-vacuity and concrete runs for Props/C19_vesa_trans2.v: the regenerated constructors, SetFont and the DriverInit
    size expressions run by vm_compute on the kernel's usual modes (1024x768x32 with a padded pitch and a 64-row logo,
    the 80x25 text mode) and on the corners (bpp = 255 wraps to 0 bytes per pixel; a font with a zero dimension). *)
From Coq Require Import NArith PArith String List Lia.
From FF Require Import Lib.Word Lib.GoOps Lib.GoOpsFmt Gen.Consts_device_tty Gen.Consts_device_video_console.
From FF Require Import Gen.Trans_console_vesa Gen.Trans_console_vga.
From FF Require Import Console.Mem Console.Loop Console.Vga Console.VgaProofs Console.Vesa Console.VesaProofs.
From FF Require Import Console.VesaTrans2 Props.C19_vesa_trans2.
Import ListNotations.
Local Open Scope N_scope.

Definition k0 : go_console_VesaFbConsole := go_console_NewVesaFbConsole 1024 768 32 4160 true 0xe0000000.

Example C19_vesa_ctor_run :
  f_VesaFbConsole_bpp k0 = 32 /\ f_VesaFbConsole_bytesPerPixel k0 = 4 /\ f_VesaFbConsole_width k0 = 1024 /\
  f_VesaFbConsole_height k0 = 768 /\ f_VesaFbConsole_pitch k0 = 4160 /\ f_VesaFbConsole_offsetY k0 = 0 /\
  f_VesaFbConsole_font k0 = false /\ f_VesaFbConsole_fb k0 = [] /\ f_VesaFbConsole_defaultFg k0 = 7 /\
  f_VesaFbConsole_clearChar k0 = 32.
Proof. vm_compute. repeat split; reflexivity. Qed.

(** bytesPerPixel for the five supported depths, and the uint8 wrap of bpp+1 at 255 *)
Example C19_vesa_ctor_bytespp :
  map (fun b => f_VesaFbConsole_bytesPerPixel (go_console_NewVesaFbConsole 1 1 b 4 true 0)) [8; 15; 16; 24; 32; 255]
  = [1; 2; 2; 3; 4; 0].
Proof. vm_compute. reflexivity. Qed.

(** SetLogo's effect on the geometry (offsetY := 64), then SetFont with a 8x16 font: a 128 x 44 grid *)
Example C19_vesa_setFont_run :
  match go_console_VesaFbConsole_SetFont (set_f_VesaFbConsole_offsetY k0 64) true 16 8 with
  | GOk (k, _) => (f_VesaFbConsole_font k, f_VesaFbConsole_widthInChars k, f_VesaFbConsole_heightInChars k)
  | _ => (false, 0, 0) end = (true, 128, 44).
Proof. vm_compute. reflexivity. Qed.

(** a 10-pixel-wide font on 1024 pixels: 102 columns (rounded down, 4 pixels unused) *)
Example C19_vesa_setFont_rounds_down :
  match go_console_VesaFbConsole_SetFont k0 true 16 10 with
  | GOk (k, _) => f_VesaFbConsole_widthInChars k | _ => 0 end = 102.
Proof. vm_compute. reflexivity. Qed.

Example C19_vesa_setFont_zero_width_panics : go_console_VesaFbConsole_SetFont k0 true 16 0 = GPanic.
Proof. vm_compute. reflexivity. Qed.
Example C19_vesa_setFont_zero_height_panics : go_console_VesaFbConsole_SetFont k0 true 0 8 = GPanic.
Proof. vm_compute. reflexivity. Qed.

(** DriverInit: 768 rows of 4160 bytes (pitch, not 1024*4) *)
Example C19_vesa_driverInit_run :
  go_console_VesaFbConsole_DriverInit_mapSize k0 = 3194880 /\ go_console_VesaFbConsole_DriverInit_fbLen k0 = 3194880 /\
  go_console_VesaFbConsole_DriverInit_fbCap k0 = 3194880.
Proof. vm_compute. repeat split; reflexivity. Qed.

(** the hypotheses of the theorems at this console *)
Example C19_vesa_constructor_is_translation_nonvacuous : 32 < 256.
Proof. reflexivity. Qed.
Example C19_vesa_driverInit_establishes_flen_nonvacuous :
  ph (new_vesa 1024 768 32 4160 (mkColorInfo 16 8 8 8 0 8) 0 (fun _ => (0, 0, 0))) *
  pitch (new_vesa 1024 768 32 4160 (mkColorInfo 16 8 8 8 0 8) 0 (fun _ => (0, 0, 0))) < two32.
Proof. reflexivity. Qed.

(** the 80x25 text console *)
Definition t0 : go_console_VgaTextConsole := go_console_NewVgaTextConsole 80 25 0xb8000.
Example C19_vga_ctor_run :
  f_VgaTextConsole_width t0 = 80 /\ f_VgaTextConsole_height t0 = 25 /\ f_VgaTextConsole_palette t0 = vga_paletteLen /\
  f_VgaTextConsole_defaultFg t0 = vga_defaultFg /\ f_VgaTextConsole_clearChar t0 = vga_clearChar /\
  go_console_VgaTextConsole_DriverInit_mapSize t0 = 4000 /\ go_console_VgaTextConsole_DriverInit_fbLen t0 = 2000.
Proof. vm_compute. repeat split; reflexivity. Qed.
Example C19_vga_driverInit_establishes_wf_nonvacuous :
  1 <= vw (mkVga 80 25) /\ 1 <= vh (mkVga 80 25) /\ vw (mkVga 80 25) * vh (mkVga 80 25) * 2 < two32.
Proof. vm_compute. repeat split; discriminate || reflexivity. Qed.

(** audit: both hypotheses of C19_vesa_driverInit_establishes_flen TOGETHER at the 1024x768x32 console with pitch 4160:
    a framebuffer [m'] of exactly the length DriverInit gives its slice exists, and the theorem's conclusion at it *)
Definition c0 : vesa := new_vesa 1024 768 32 4160 (mkColorInfo 16 8 8 8 0 8) 0 (fun _ => (0, 0, 0)).
Definition m0 : fbuf := fresh 3194880 (fun _ => 0).
Example C19_vesa_driverInit_establishes_flen_real_input :
  ph c0 * pitch c0 < two32 /\
  flen m0 = go_console_VesaFbConsole_DriverInit_fbLen (VesaTrans.to_gs c0 0xe0000000 no_fb) /\
  flen m0 = ph c0 * pitch c0.
Proof.
  assert (H1 : ph c0 * pitch c0 < two32) by reflexivity.
  assert (H2 : flen m0 = go_console_VesaFbConsole_DriverInit_fbLen (VesaTrans.to_gs c0 0xe0000000 no_fb)) by (vm_compute; reflexivity).
  split; [exact H1|]. split; [exact H2|].
  exact (C19_vesa_driverInit_establishes_flen c0 0xe0000000 no_fb m0 H1 H2).
Qed.

(** audit: all four hypotheses of C19_vga_driverInit_establishes_wf TOGETHER at the 80x25 text mode: a 2000-cell
    framebuffer, hence [vga_wf] *)
Example C19_vga_driverInit_establishes_wf_real_input : vga_wf (mkVga 80 25) (fresh 2000 (fun _ => 0)).
Proof.
  apply (C19_vga_driverInit_establishes_wf (mkVga 80 25) 0xb8000 no_fb (fresh 2000 (fun _ => 0))).
  - vm_compute; discriminate.
  - vm_compute; discriminate.
  - reflexivity.
  - vm_compute; reflexivity.
Qed.

(** audit: the hypothesis of C19_vesa_map_size_wraps (height * pitch >= 2^32) is satisfiable only by geometries no video
    mode has - e.g. 65536 rows of 65536 bytes, where the mapped size is 0 *)
Example C19_vesa_map_size_wraps_nonvacuous :
  let c := new_vesa 16384 65536 32 65536 (mkColorInfo 16 8 8 8 0 8) 0 (fun _ => (0, 0, 0)) in
  two32 <= ph c * pitch c /\ vesa_map_size c = 0.
Proof. vm_compute. split; [discriminate|reflexivity]. Qed.
