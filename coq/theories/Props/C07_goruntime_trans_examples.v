(** Non-vacuity and concrete runs for Props/C07_goruntime_trans.v. *)
From Coq Require Import NArith String List Lia.
From FF Require Import Lib.Word Lib.GoOps Gen.Consts_mm_vmm Gen.Trans_goruntime_boot Vmm.Region Goruntime.Boot Goruntime.BootTrans.
Import ListNotations.
Local Open Scope N_scope.

Example C07_rt_trans_hypotheses_nonvacuous :
  vmm_earlyReserveInitial < two64 /\ 0x5000 < two64 /\ (N.to_nat (N.shiftr (rt_round_up 0x1801) PageShift) < 3)%nat.
Proof. repeat split; vm_compute; try reflexivity; lia. Qed.

(** sysReserve(0x1801 bytes): one reservation of 0x2000 bytes, *reserved = true; an oversized request panics *)
Example C07_rt_trans_run_reserve :
  go_goruntime_sysReserve (mk_go_goruntime_world []) 0 0x1801 false (o_reserve vmm_earlyReserveInitial) =
    GOk (mk_go_goruntime_world [GCall "earlyReserveRegionFn" [GNum 0x2000]], (vmm_earlyReserveInitial - 0x2000, true)) /\
  go_goruntime_sysReserve (mk_go_goruntime_world []) 0 (two64 - 1) false (o_reserve vmm_earlyReserveInitial) = GPanic.
Proof. split; vm_compute; reflexivity. Qed.

(** sysMap(0x5001, 0x1801 bytes, reserved): two copy-on-write mappings of the zeroed frame from page 6, then mSysStatInc;
    with reserved = false: panic; with mapFn failing at its second call: two calls, nil *)
Example C07_rt_trans_run_map :
  go_goruntime_sysMap 3 (mk_go_goruntime_world []) 0x5001 0x1801 true 0xabc 9 (o_map None 0) =
    GOk (mk_go_goruntime_world [GCall "mSysStatInc" [GNum 0xabc; GNum 0x2000]; GCall "mapFn" [GNum 7; GNum 9; GNum cow_flags];
                               GCall "mapFn" [GNum 6; GNum 9; GNum cow_flags]], 0x6000) /\
  go_goruntime_sysMap 3 (mk_go_goruntime_world []) 0x5001 0x1801 false 0xabc 9 (o_map None 0) = GPanic /\
  go_goruntime_sysMap 3 (mk_go_goruntime_world []) 0x5001 0x1801 true 0xabc 9 (o_map (Some 1) 0) =
    GOk (mk_go_goruntime_world [GCall "mapFn" [GNum 7; GNum 9; GNum cow_flags]; GCall "mapFn" [GNum 6; GNum 9; GNum cow_flags]], 0) /\
  go_goruntime_sysMap 2 (mk_go_goruntime_world []) 0x5001 0x1801 true 0xabc 9 (o_map None 0) = GFuel.
Proof. repeat split; vm_compute; reflexivity. Qed.

(** sysAlloc(0x1801 bytes) with frames 0x40, 0x41: reserve; per page AllocFrame, mapFn, memsetFn; mSysStatInc.
    With the allocator out of frames after the first: nil after 5 seam calls. *)
Example C07_rt_trans_run_alloc :
  (match go_goruntime_sysAlloc 3 (mk_go_goruntime_world []) 0x1801 0xabc (o_reserve vmm_earlyReserveInitial) (o_map None 0)
           (o_alloc [Some 0x40; Some 0x41] 0) with
   | GOk (w, p) => p = vmm_earlyReserveInitial - 0x2000 /\ length (f_world_trace w) = 8%nat /\
                   hd (GCall "" []) (f_world_trace w) = GCall "mSysStatInc" [GNum 0xabc; GNum 0x2000]
   | _ => False
   end) /\
  (match go_goruntime_sysAlloc 3 (mk_go_goruntime_world []) 0x1801 0xabc (o_reserve vmm_earlyReserveInitial) (o_map None 0)
           (o_alloc [Some 0x40] 0) with
   | GOk (w, p) => p = 0 /\ length (f_world_trace w) = 5%nat
   | _ => False
   end).
Proof. split; vm_compute; repeat split; reflexivity. Qed.
