(** C10 - tie of the multiboot decoder model to the source BY TRANSLATION.

    Gen/Trans_multiboot.v is regenerated on every run by gen/gotrans (config gen/gotrans/multiboot.json, feature
    "memstructs" = typed struct pointers into memory, gen/gotrans/ext_mb.go) from kernel/multiboot/multiboot.go:
    findTagByType, VisitMemRegions, GetFramebufferInfo, FramebufferInfo.RGBColorInfo, VisitElfSections.  In the translation a `*tagHeader`, `*mmapHeader`,
    `*MemoryMapEntry`, `*FramebufferInfo`, `*elfSections`, `*elfSection64` is an ADDRESS, `p.f` is a load of <size of f> bytes at p + <offset of f>
    ([gload], Lib/GoOps.v), `entry.Type = MemReserved` is a store; sizes and offsets are computed by the translator from
    the struct declarations by Go's layout rules and the generated file ends with `Example`s stating that they equal
    unsafe.Offsetof / unsafe.Sizeof as printed by the Go compiler (Gen/Consts_multiboot.v), so a layout change breaks
    the build.  The generated file is a Section over a memory type with a load and a store operation; here they are
    the model's memory (accessible segments, Multiboot/Model.v) with [mld] = the model's [rd] and [mst] = the model's
    [wr_bytes] (Multiboot/DecodeTrans.v): a load or store that touches a byte outside the segments is [None] =
    GPanic in the translation = [Stray] in the model.  infoData (a package variable that is only read) is the
    parameter [info]; `uintptr(int32(size+7) & ^7)` is translated as written (int32 truncation, complement at 32 bits,
    sign extension to 64 bits).

    The visitor passed to VisitMemRegions is a SEAM: each call `visitor(entry)` loads the three fields of the entry
    presented (PhysAddress, Length, Type - after the in-place normalisation of the type) and pushes the event
    [ev_region r] = GCall "visitor" [GNum addr; GNum len; GNum type] on the world's trace (most recent first); the
    boolean it returns is the oracle [o_visitor] applied to the trace that already holds the call.  The theorems
    instantiate the oracle with [vis_oracle cont k] = the model's [cont idx r] (idx = number of the call, counted
    from the k events already on the trace), i.e. with EVERY deterministic visitor that depends on the call number
    and the region presented - which is what the C10 model and theorems quantify over.

    Hypothesis [mem_bytes m] (all theorems): every cell of the memory is a byte (< 256).  The model's [rd] adds up
    whatever numbers the segments hold; Go's loads read bytes.  Every memory the harness builds satisfies it and
    stores preserve it.
    Further side conditions (audit A): C10_visitMemRegions_is_translation and C10_visitElfSections_is_translation speak only
    about runs of the model that END (outcome neither Hang nor Runaway: e.g. a memory-map entry size of 0 or a tag of size
    0 is outside them; only the two findTag theorems also identify Hang with GFuel) and need fuel >= find_fuel m, > the
    visitor call cap n, resp. >= total_len m + 1 and >= 2^16; the visitor is a deterministic function of call number and
    region.  The *_on_block theorems inherit the well-formedness of the WHOLE block (mbinfo_wf: also the command-line and
    framebuffer tags, block < 2 GiB) and the two-segment layout (layout_wf), not only of the tag they decode.

    ASSUMED / trusted: gen/gotrans incl. ext_mb.go; Lib/GoOps.v, Lib/GoOpsFmt.v ([gsext]); the seam's contract (the
    visitor reads the entry it is given and does not write the information block); little-endian loads.
    VisitElfSections builds the section name through a reflect.StringHeader: the string is the pair (Data, Len) of
    locals; handed to the visitor it is PRESENTED as the [Len] bytes at [Data] ([gldbytes], Lib/GoMb.v: no access for
    an empty string, otherwise one load of Len bytes); the call is the event [ev_section s] =
    GCall "visitor" [GBytes name; GNum flags; GNum address; GNum size]; this visitor returns nothing.
    NOT translated: GetBootCmdLine (a []byte over the block through a reflect.SliceHeader literal, then string(),
    strings.Fields, strings.Split and a map: library code; its only integer code is `size - 1`).  It stays tied by
    differential testing and source pins; so do the FIELD READS a caller makes through the pointers returned by
    GetFramebufferInfo / RGBColorInfo (kernel/device/video/console; the model's [read_fb] makes them).
    Statements only; proofs in Multiboot/DecodeTrans.v and Multiboot/DecodeTransBlock.v. *)
From Coq Require Import String NArith List Bool.
From FF Require Import Lib.Word Lib.GoOps Gen.Consts_multiboot Gen.Trans_multiboot Multiboot.Model Multiboot.Spec
  Multiboot.FindProofs Multiboot.AfterVisit.
From FF Require Multiboot.DecodeTrans Multiboot.DecodeTransElf Multiboot.DecodeTransBlock.
Module T := FF.Multiboot.DecodeTrans.
Module TE := FF.Multiboot.DecodeTransElf.
Module TB := FF.Multiboot.DecodeTransBlock.
Import ListNotations.
Local Open Scope N_scope.

(** findTagByType: for EVERY memory of bytes, info pointer and wanted type the regenerated function run with the
    model's fuel is the model's [find_tag] - the function C10_find_tag is about: same (payload address, payload
    size) or (0, 0); [Stray] exactly where the Go code would fault (GPanic); the world is returned unchanged *)
Theorem C10_findTag_is_translation :
  forall (w : @go_multiboot_world mem) (ty info : N),
    T.mem_bytes (f_world_mem w) ->
    go_multiboot_findTagByType T.mld (find_fuel (f_world_mem w)) w ty info =
      match find_tag (f_world_mem w) info ty with
      | Ok r => GOk (w, r)
      | Stray => GPanic
      | Hang => GFuel
      | Runaway => GFuel
      end.
Proof. exact T.findTag_is_translation. Qed.
Print Assumptions C10_findTag_is_translation.

(** ... and for every fuel: the translated loop and the model's walk use fuel in the same way (one unit per tag
    header inspected), so "out of fuel" coincides too *)
Theorem C10_findTag_is_translation_any_fuel :
  forall (fuel : nat) (w : @go_multiboot_world mem) (ty info : N),
    T.mem_bytes (f_world_mem w) ->
    go_multiboot_findTagByType T.mld fuel w ty info =
      match find_tag_loop fuel (f_world_mem w) (padd info mb_sizeof_info) ty with
      | Ok r => GOk (w, r)
      | Stray => GPanic
      | Hang => GFuel
      | Runaway => GFuel
      end.
Proof. exact T.findTag_is_translation_fuel. Qed.
Print Assumptions C10_findTag_is_translation_any_fuel.

(** VisitMemRegions: whenever the model's run (visitor call cap [n]) ends - normally or with a stray access -, the
    regenerated function, given at least the model's fuel for the tag walk and more than [n], ends the same way:
    GPanic for [Stray]; otherwise the memory the model leaves (the in-place type normalisations) and, on the trace,
    exactly the model's list of regions seen by the visitor, in order (most recent first), on top of what was there *)
Theorem C10_visitMemRegions_is_translation :
  forall (fuel n : nat) (cont : N -> region -> bool) (t0 : list gcall) (m : mem) (info : N),
    T.mem_bytes m -> (find_fuel m <= fuel)%nat -> (n < fuel)%nat ->
    snd (visit_mem_regions n cont m info) <> Hang -> snd (visit_mem_regions n cont m info) <> Runaway ->
    go_multiboot_VisitMemRegions T.mld T.mst fuel (T.mkw t0 m) info (T.vis_oracle cont (N.of_nat (length t0))) =
      match visit_mem_regions n cont m info with
      | (m', rs, Ok _) => GOk (T.mkw (rev (map T.ev_region rs) ++ t0) m', tt)
      | _ => GPanic
      end.
Proof. exact T.visit_is_translation. Qed.
Print Assumptions C10_visitMemRegions_is_translation.

(** GetFramebufferInfo: the address of the first framebuffer tag's payload, nil (0) when there is none *)
Theorem C10_getFramebufferInfo_is_translation :
  forall (w : @go_multiboot_world mem) (info : N),
    T.mem_bytes (f_world_mem w) ->
    go_multiboot_GetFramebufferInfo T.mld (find_fuel (f_world_mem w)) w info =
      match get_framebuffer_info (f_world_mem w) info with
      | Ok (Some p) => GOk (w, p)
      | Ok None => GOk (w, 0)
      | Stray => GPanic
      | Hang => GFuel
      | Runaway => GFuel
      end.
Proof. exact T.getFramebufferInfo_is_translation. Qed.
Print Assumptions C10_getFramebufferInfo_is_translation.

(** FramebufferInfo.RGBColorInfo: a fault if the type byte cannot be read, nil unless the type is RGB, else the address
    of the dummy field colorInfo (offset computed from the struct declaration, checked against unsafe.Offsetof) *)
Theorem C10_rgbColorInfo_is_translation :
  forall (w : @go_multiboot_world mem) (p : N),
    T.mem_bytes (f_world_mem w) ->
    go_multiboot_FramebufferInfo_RGBColorInfo T.mld w p =
      match rd (f_world_mem w) (padd p mb_off_FramebufferInfo_Type) 1 with
      | Ok t => GOk (w, if t =? mb_FramebufferTypeRGB then padd p mb_off_FramebufferInfo_colorInfo else 0)
      | _ => GPanic
      end.
Proof. exact T.rgbColorInfo_is_translation. Qed.
Print Assumptions C10_rgbColorInfo_is_translation.

(** ... and the model's [read_fb] - the function C10_framebuffer is about - reads the six colour-layout bytes exactly
    at the pointer the regenerated RGBColorInfo returns, and reports no layout exactly when it returns nil *)
Theorem C10_read_fb_uses_rgbColorInfo :
  forall (t0 : list gcall) (m : mem) (p : N) (f : fbinfo),
    T.mem_bytes m -> read_fb m p = Ok f ->
    match fb_rgb f with
    | Some c => go_multiboot_FramebufferInfo_RGBColorInfo T.mld (T.mkw t0 m) p =
                  GOk (T.mkw t0 m, padd p mb_off_FramebufferInfo_colorInfo) /\
                rd_each m (padd p mb_off_FramebufferInfo_colorInfo) rgb_offsets = Ok c
    | None => go_multiboot_FramebufferInfo_RGBColorInfo T.mld (T.mkw t0 m) p = GOk (T.mkw t0 m, 0)
    end.
Proof. exact T.read_fb_rgb_at. Qed.
Print Assumptions C10_read_fb_uses_rgbColorInfo.

(** VisitElfSections: whenever the model's run ends - normally or with a stray access - the regenerated function,
    given the model's fuel for the tag walk and for the name scans and more than 2^16 (numSections is a uint16),
    ends the same way: GPanic for [Stray], otherwise the memory untouched and on the trace exactly the model's list
    of non-empty sections (name bytes, flags cut to 32 bits, address, size), in order, most recent first.  As in the
    Go code numSections and the string table's address field are re-read on every iteration. *)
Theorem C10_visitElfSections_is_translation :
  forall (fuel : nat) (t0 : list gcall) (m : mem) (info : N),
    T.mem_bytes m -> (find_fuel m <= fuel)%nat -> (S (total_len m) <= fuel)%nat -> 65536 <= N.of_nat fuel ->
    snd (visit_elf_sections m info) <> Hang -> snd (visit_elf_sections m info) <> Runaway ->
    go_multiboot_VisitElfSections T.mld fuel (T.mkw t0 m) info =
      match visit_elf_sections m info with
      | (rs, Ok _) => GOk (T.mkw (rev (map TE.ev_section rs) ++ t0) m, tt)
      | _ => GPanic
      end.
Proof. exact TE.visitElf_is_translation. Qed.
Print Assumptions C10_visitElfSections_is_translation.

(** stores keep the memory a memory of bytes (so the hypothesis of the theorems holds again after a scan) *)
Theorem C10_trans_store_keeps_bytes :
  forall (m : mem) (n a v : N) (m' : mem), T.mem_bytes m -> T.mst m n a v = Some m' -> T.mem_bytes m'.
Proof. exact T.mst_bytes. Qed.
Print Assumptions C10_trans_store_keeps_bytes.

(** a well-formed block, placed, is a memory of bytes: the hypothesis [mem_bytes] of the theorems above holds *)
Theorem C10_trans_block_is_bytes :
  forall (l : layout) (mb : mbinfo),
    mbinfo_wf (l_saddr l) (l_strtab l) mb -> layout_wf l (encode mb) -> T.mem_bytes (mem_of l (encode mb)).
Proof. exact TB.block_mem_bytes. Qed.
Print Assumptions C10_trans_block_is_bytes.

(** Composition with C10_find_tag: on every well-formed block the REGENERATED findTagByType returns the payload
    address and size of the first tag of the wanted type, (0,0) if there is none, and never faults *)
Theorem C10_findTag_translation_on_block :
  forall (l : layout) (mb : mbinfo) (ty : N) (t0 : list gcall),
    mbinfo_wf (l_saddr l) (l_strtab l) mb -> layout_wf l (encode mb) -> ty <> 0 ->
    go_multiboot_findTagByType T.mld (find_fuel (mem_of l (encode mb))) (T.mkw t0 (mem_of l (encode mb))) ty (l_info l) =
      GOk (T.mkw t0 (mem_of l (encode mb)),
           match locate ty (mb_tags mb) 8 with
           | Some (o, t) => (l_info l + o + 8, len (payload t))
           | None => (0, 0)
           end).
Proof. exact TB.findTag_on_block. Qed.
Print Assumptions C10_findTag_translation_on_block.

(** Composition with C10_mem_regions_memory: on every well-formed block the REGENERATED VisitMemRegions calls the
    visitor exactly for the regions of the first memory map, in order, types outside {1,2,3,4} presented as
    reserved, up to and including the first call answered false ([visited]); it never faults, and leaves the
    encoding of [after_visit cont mb] in memory.  This is the contract of multiboot.VisitMemRegions that the C02
    tie (Props/C02_trans.v: BootMemAllocator.AllocFrame over the sequence [regions] the visitor presents) assumes. *)
Theorem C10_visitMemRegions_translation_on_block :
  forall (l : layout) (mb : mbinfo) (cont : N -> region -> bool) (t0 : list gcall) (fuel : nat),
    mbinfo_wf (l_saddr l) (l_strtab l) mb -> layout_wf l (encode mb) ->
    (find_fuel (mem_of l (encode mb)) <= fuel)%nat -> (S (length (expected_regions mb)) < fuel)%nat ->
    go_multiboot_VisitMemRegions T.mld T.mst fuel (T.mkw t0 (mem_of l (encode mb))) (l_info l)
        (T.vis_oracle cont (N.of_nat (length t0))) =
      GOk (T.mkw (rev (map T.ev_region (visited cont 0 (expected_regions mb))) ++ t0)
                 (mem_of l (encode (after_visit cont mb))), tt).
Proof. exact TB.visitMemRegions_on_block. Qed.
Print Assumptions C10_visitMemRegions_translation_on_block.

(** Composition with C10_elf_sections: on every well-formed block the REGENERATED VisitElfSections calls the visitor
    exactly for the non-empty sections of the first ELF tag, in order, with the name read from the string table, and
    never faults *)
Theorem C10_visitElfSections_translation_on_block :
  forall (l : layout) (mb : mbinfo) (t0 : list gcall) (fuel : nat),
    mbinfo_wf (l_saddr l) (l_strtab l) mb -> layout_wf l (encode mb) ->
    (find_fuel (mem_of l (encode mb)) <= fuel)%nat -> (S (total_len (mem_of l (encode mb))) <= fuel)%nat ->
    65536 <= N.of_nat fuel ->
    go_multiboot_VisitElfSections T.mld fuel (T.mkw t0 (mem_of l (encode mb))) (l_info l) =
      GOk (T.mkw (rev (map TE.ev_section (expected_sections (l_strtab l) mb)) ++ t0) (mem_of l (encode mb)), tt).
Proof. exact TB.visitElfSections_on_block. Qed.
Print Assumptions C10_visitElfSections_translation_on_block.
