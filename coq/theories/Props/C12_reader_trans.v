(** C12 (and C11) — the tie of the lexical layer to the source BY TRANSLATION.
    Gen/Trans_aml_reader.v is regenerated on every run by gen/gotrans (go/ast) from
    kernel/device/acpi/aml/stream_reader.go: the struct becomes a record, every method a Gallina
    function returning [None] for a Go run-time panic.  The theorems below say that the hand-written
    reader model (Aml/Stream.v), about which [C12_reader_safe], [C12_readByte_window], the lexical
    round-trip and everything built on them are proved, IS that translation, method by method.
    Statements only; proofs are in Aml/StreamTrans.v.  Not covered: Init and DataPtr (unsafe.Pointer). *)
From Coq Require Import NArith List String.
From FF Require Import Lib.Word Lib.GoOps Gen.Trans_aml_reader Aml.Stream Aml.StreamTrans.
Local Open Scope N_scope.

Theorem C12_reader_model_is_translation :
  forall r : reader, len_ok r -> r_offset r < two32 ->
    go_aml_amlStreamReader_EOF (to_go r) = Some (to_go r, eof r) /\
    go_aml_amlStreamReader_Offset (to_go r) = Some (to_go r, r_offset r) /\
    (forall e, go_aml_amlStreamReader_SetPkgEnd (to_go r) e =
               Some (to_go (fst (setPkgEnd r e)), err (snd (setPkgEnd r e)) "errInvalidPkgEnd")) /\
    (forall o, go_aml_amlStreamReader_SetOffset (to_go r) o = Some (to_go (setOffset r o), tt)) /\
    go_aml_amlStreamReader_UnreadByte (to_go r) =
      Some (to_go (fst (unreadByte r)), err (snd (unreadByte r)) "errInvalidUnreadByte") /\
    match readByte r with
    | Ok (Some b, r') => go_aml_amlStreamReader_ReadByte (to_go r) = Some (to_go r', (b, None))
    | Ok (None, r') => go_aml_amlStreamReader_ReadByte (to_go r) = Some (to_go r', (0, Some "errReadPastPkgEnd"%string))
    | Panic => go_aml_amlStreamReader_ReadByte (to_go r) = None
    | OutOfFuel => False
    end /\
    match peekByte r with
    | Ok (Some b) => go_aml_amlStreamReader_PeekByte (to_go r) = Some (to_go r, (b, None))
    | Ok None => go_aml_amlStreamReader_PeekByte (to_go r) = Some (to_go r, (0, Some "errReadPastPkgEnd"%string))
    | Panic => go_aml_amlStreamReader_PeekByte (to_go r) = None
    | OutOfFuel => False
    end /\
    match lastByte r with
    | Ok (Some b) => go_aml_amlStreamReader_LastByte (to_go r) = Some (to_go r, (b, None))
    | Ok None => go_aml_amlStreamReader_LastByte (to_go r) = Some (to_go r, (0, Some "errReadPastPkgEnd"%string))
    | Panic => go_aml_amlStreamReader_LastByte (to_go r) = None
    | OutOfFuel => False
    end.
Proof.
  intros r Hl Ho.
  exact (conj (eof_is_translation r) (conj (offset_is_translation r)
        (conj (fun e => setPkgEnd_is_translation r e Hl) (conj (fun o => setOffset_is_translation r o Hl)
        (conj (unreadByte_is_translation r Ho) (conj (readByte_is_translation r Ho)
        (conj (peekByte_is_translation r) (lastByte_is_translation r Ho)))))))).
Qed.
Print Assumptions C12_reader_model_is_translation.

(** the hypotheses follow from the reader invariant the C12 theorems maintain *)
Theorem C12_reader_wf_gives_len_ok : forall r, reader_wf r -> len_ok r.
Proof. exact reader_wf_len_ok. Qed.
Print Assumptions C12_reader_wf_gives_len_ok.
