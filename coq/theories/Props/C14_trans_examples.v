(** Non-vacuity and concrete runs for Props/C14_trans.v: the REGENERATED translations of validTable and locateRSDT
    (Gen/Trans_acpi_driver.v) are run by vm_compute on the firmware image of Props/C14_examples.v (a decoy root pointer
    with a bad checksum at 0x1000, a revision-2 root pointer at 0x1020 naming the XSDT at 0x2000, a revision-0 root
    pointer at 0x1050 naming 0x7000; tables at 0x3000 (APIC, valid) and 0x3100 (SSDT, corrupted)), and the hypotheses
    of the theorems are discharged on it. *)
From Coq Require Import NArith List Lia Bool String.
From FF Require Import Lib.Word Lib.GoOps Gen.Consts_device_acpi Gen.Trans_acpi_driver Acpi.Model Acpi.Spec
  Props.C14_examples Props.C14_trans.
Import ListNotations.
Local Open Scope N_scope.

Definition ld : N -> N -> option N := T.ld_of ex_mem.
Definition w0 : go_acpi_world := mk_go_acpi_world [].
Definition mapev (p : N) : gcall := GCall "mapFn" [GNum p; GNum p; GNum 1].
Definition unmapev (p : N) : gcall := GCall "unmapFn" [GNum p].

(** ---- validTable ---- *)
Example C14_trans_validTable_good : go_acpi_validTable 45 w0 0x3000 44 ld = GOk (w0, true).
Proof. vm_compute. reflexivity. Qed.

Example C14_trans_validTable_corrupted : go_acpi_validTable 37 w0 0x3100 36 ld = GOk (w0, false).
Proof. vm_compute. reflexivity. Qed.

(** one unit of fuel below the need: GFuel, not a panic *)
Example C14_trans_validTable_fuel : go_acpi_validTable 44 w0 0x3000 44 ld = GFuel.
Proof. vm_compute. reflexivity. Qed.

(** a length that runs off the image: the load fails, Go would fault *)
Example C14_trans_validTable_stray : go_acpi_validTable 100 w0 0x3000 45 ld = GPanic.
Proof. vm_compute. reflexivity. Qed.

Example C14_validTable_trans_nonvacuous :
  0x3000 < two64 /\ 44 < two32 /\ (N.to_nat 44 < 45)%nat /\
  go_acpi_validTable 45 w0 0x3000 44 ld = match validTable ex_mem 0x3000 44 with Got b => GOk (w0, b) | Fault _ => GPanic end.
Proof.
  assert (H1 : 0x3000 < two64) by (unfold two64; lia).
  assert (H2 : 44 < two32) by (unfold two32; lia).
  assert (H3 : (N.to_nat 44 < 45)%nat) by (vm_compute; lia).
  split; [exact H1|]. split; [exact H2|]. split; [exact H3|].
  exact (C14_validTable_is_translation ex_mem [] 0x3000 44 45 H1 H2 H3).
Qed.

(** ---- locateRSDT ---- *)
(** the whole window: the decoy at 0x1000 is skipped, the revision-2 root pointer at 0x1020 is taken: XSDT, 64-bit pointer;
    one page mapped, then unmapped by the deferred closure *)
Example C14_trans_locate_rev2 :
  go_acpi_locateRSDT 100 w0 ld 16 0x105f 0x1000 (T.o_map None 0) =
  GOk (mk_go_acpi_world [unmapev 1; mapev 1], (0x2000, true, None)).
Proof. vm_compute. reflexivity. Qed.

(** a window that starts behind it: the revision-0 root pointer at 0x1050: RSDT, 32-bit pointer *)
Example C14_trans_locate_rev0 :
  go_acpi_locateRSDT 100 w0 ld 16 0x105f 0x1030 (T.o_map None 0) =
  GOk (mk_go_acpi_world [unmapev 1; mapev 1], (0x7000, false, None)).
Proof. vm_compute. reflexivity. Qed.

(** only the decoy in the window: errMissingRSDP *)
Example C14_trans_locate_missing :
  go_acpi_locateRSDT 100 w0 ld 16 0x1010 0x1000 (T.o_map None 0) =
  GOk (mk_go_acpi_world [unmapev 1; mapev 1], (0, false, Some "errMissingRSDP"%string)).
Proof. vm_compute. reflexivity. Qed.

(** alignment 32 misses the root pointer at 0x1050 from 0x1030 (slots 0x1030, 0x1050 with 16; 0x1030 only with 48) *)
Example C14_trans_locate_alignment_matters :
  go_acpi_locateRSDT 100 w0 ld 48 0x105f 0x1030 (T.o_map None 0) =
  GOk (mk_go_acpi_world [unmapev 1; mapev 1], (0, false, Some "errMissingRSDP"%string)).
Proof. vm_compute. reflexivity. Qed.

(** a window of two pages, mapFn failing at its second call: the error is returned, nothing is scanned, and the
    deferred closure still unmaps BOTH pages *)
Example C14_trans_locate_map_error :
  go_acpi_locateRSDT 100 w0 ld 16 0x2010 0x1000 (T.o_map (Some 1) 0) =
  GOk (mk_go_acpi_world [unmapev 2; unmapev 1; mapev 2; mapev 1], (0, false, Some "errMap"%string)).
Proof. vm_compute. reflexivity. Qed.

(** a window that runs off the image: the signature compare reads an absent byte *)
Example C14_trans_locate_stray :
  go_acpi_locateRSDT 100 w0 ld 16 0x1080 0x1060 (T.o_map None 0) = GPanic.
Proof. vm_compute. reflexivity. Qed.

(** too little fuel is reported as such *)
Example C14_trans_locate_fuel :
  go_acpi_locateRSDT 5 w0 ld 16 0x105f 0x1000 (T.o_map None 0) = GFuel.
Proof. vm_compute. reflexivity. Qed.

(** the hypotheses of C14_locateRSDT_is_translation hold for this image and window (and for the kernel's own window
    constants), and the theorem - not vm_compute - then gives the model's answer *)
Example C14_locateRSDT_trans_nonvacuous :
  bytes_ok ex_mem /\ 0x1000 < two64 /\ 0 < 16 /\ 0x105f + 16 <= two64 /\
  (N.to_nat (T.locate_fuel 0x1000 0x105f 16) < 100)%nat /\
  acpi_rsdpLocationLow < two64 /\ 0 < acpi_rsdpAlignment /\ acpi_rsdpLocationHi + acpi_rsdpAlignment <= two64 /\
  go_acpi_locateRSDT 100 w0 ld 16 0x105f 0x1000 (T.o_map None 0) =
  T.locate_result [] 0x1000 (locateRSDT ex_mem 0x1000 0x105f 16 None).
Proof.
  assert (H1 : 0x1000 < two64) by (unfold two64; lia).
  assert (H2 : 0 < 16) by lia.
  assert (H3 : 0x105f + 16 <= two64) by (unfold two64; lia).
  assert (H4 : (N.to_nat (T.locate_fuel 0x1000 0x105f 16) < 100)%nat) by (vm_compute; lia).
  split; [exact C14_bytes_ok_nonvacuous|]. split; [exact H1|]. split; [exact H2|]. split; [exact H3|]. split; [exact H4|].
  split; [vm_compute; reflexivity|]. split; [vm_compute; reflexivity|]. split; [vm_compute; discriminate|].
  exact (C14_locateRSDT_is_translation ex_mem 0x1000 0x105f 16 None [] 100 C14_bytes_ok_nonvacuous H1 H2 H3 H4).
Qed.

(** ---- mapACPITable ---- *)
Definition idev (f sz : N) : gcall := GCall "identityMapFn" [GNum f; GNum sz; GNum 1].

(** the valid APIC table at 0x3000 (44 bytes): header mapped (36 bytes), then the whole table, checksum fine *)
Example C14_trans_map_good :
  go_acpi_mapACPITable 100 w0 0x3000 ld (T.o_idmap nofail) =
  GOk (mk_go_acpi_world [idev 3 44; idev 3 36], (0x3000, 36, None)).
Proof. vm_compute. reflexivity. Qed.

(** the corrupted SSDT at 0x3100: the header pointer is still returned, with errTableChecksumMismatch *)
Example C14_trans_map_mismatch :
  go_acpi_mapACPITable 100 w0 0x3100 ld (T.o_idmap nofail) =
  GOk (mk_go_acpi_world [idev 3 36; idev 3 36], (0x3100, 36, Some "errTableChecksumMismatch"%string)).
Proof. vm_compute. reflexivity. Qed.

(** identityMapFn failing at its second call: nil header, the seam's error, no checksum *)
Example C14_trans_map_seam_error :
  go_acpi_mapACPITable 100 w0 0x3000 ld (T.o_idmap (fun k => k =? 1)) =
  GOk (mk_go_acpi_world [idev 3 44; idev 3 36], (0, 36, Some "errMap"%string)).
Proof. vm_compute. reflexivity. Qed.

(** a pointer into nowhere: reading header.Length faults *)
Example C14_trans_map_stray : go_acpi_mapACPITable 100 w0 0x9000 ld (T.o_idmap nofail) = GPanic.
Proof. vm_compute. reflexivity. Qed.

Example C14_mapACPITable_trans_nonvacuous :
  bytes_ok ex_mem /\ 0x3000 < two64 /\ sk (mkSeam 0 []) = T.n_idmap [] /\ (N.to_nat two32 <= N.to_nat two32)%nat /\
  go_acpi_mapACPITable (N.to_nat two32) w0 0x3000 ld (T.o_idmap nofail) =
  T.map_result [] (mkSeam 0 []) (mapACPITable ex_mem nofail (mkSeam 0 []) 0x3000).
Proof.
  assert (H1 : 0x3000 < two64) by (unfold two64; lia).
  split; [exact C14_bytes_ok_nonvacuous|]. split; [exact H1|]. split; [reflexivity|]. split; [apply le_n|].
  exact (C14_mapACPITable_is_translation ex_mem nofail (mkSeam 0 []) [] 0x3000 (N.to_nat two32)
           C14_bytes_ok_nonvacuous H1 eq_refl (le_n _)).
Qed.

(** ---- enumerateTables ---- *)
(** result and the model state the final trace stands for *)
Definition run_enum (fuel : nat) (fail : N -> bool) (rsdt : N) (x : bool) : option (option string * state) :=
  match go_acpi_acpiDriver_enumerateTables fuel w0 rsdt x ld (T.o_idmap fail) with
  | GOk (w, e) => Some (e, T.abs (f_world_trace w))
  | _ => None
  end.

(** the XSDT at 0x2000 (8-byte entries: APIC, SSDT - corrupted -, FACP with its DSDT): the translated function makes
    exactly the model's ten identityMapFn calls, reports the SSDT once, registers APIC, FACP and DSDT *)
Example C14_trans_enum_run : run_enum 200 nofail 0x2000 true = Some (None, ex_state).
Proof. vm_compute. reflexivity. Qed.

(** the trace itself, most recent call first (the model keeps the three kinds of events apart; the translation interleaves them) *)
Example C14_trans_enum_trace :
  match go_acpi_acpiDriver_enumerateTables 200 w0 0x2000 true ld (T.o_idmap nofail) with
  | GOk (w, _) => map (fun c => match c with GCall n _ => n end) (f_world_trace w)
  | _ => []
  end =
  ["tableMap.set"; "identityMapFn"; "identityMapFn"; "tableMap.set"; "identityMapFn"; "identityMapFn";
   "Fprintf"; "identityMapFn"; "identityMapFn"; "tableMap.set"; "identityMapFn"; "identityMapFn";
   "tableMap.make"; "identityMapFn"; "identityMapFn"]%string.
Proof. vm_compute. reflexivity. Qed.

(** identityMapFn failing at its 5th call (the header of the SSDT): the seam's error, and the state at the abort is the model's *)
Example C14_trans_enum_seam_failure :
  run_enum 200 (fun k => k =? 4) 0x2000 true =
  Some (Some "errMap"%string, fst (enumerateTables ex_mem (fun k => k =? 4) 0x2000 true)).
Proof. vm_compute. reflexivity. Qed.

(** a corrupted root table (the SSDT taken as root): errTableChecksumMismatch, nothing registered *)
Example C14_trans_enum_bad_root :
  match run_enum 200 nofail 0x3100 true with Some (e, s) => Some (e, st_tmap s) | None => None end =
  Some (Some "errTableChecksumMismatch"%string, []).
Proof. vm_compute. reflexivity. Qed.

(** the same root table read with 4-byte entries: the second entry is the null upper half of the first pointer: a stray read *)
Example C14_trans_enum_wrong_width : run_enum 200 nofail 0x2000 false = None.
Proof. vm_compute. reflexivity. Qed.
Example C14_trans_enum_wrong_width_model : exists a, snd (enumerateTables ex_mem nofail 0x2000 false) = IStray a.
Proof. eexists. vm_compute. reflexivity. Qed.

(** the hypotheses of C14_enumerateTables_is_translation hold here; the theorem gives the model's state for the trace *)
Example C14_enumerateTables_trans_nonvacuous :
  bytes_ok ex_mem /\ 0x2000 < two64 /\ (N.to_nat two32 <= N.to_nat two32)%nat /\
  exists tr, go_acpi_acpiDriver_enumerateTables (N.to_nat two32) w0 0x2000 true ld (T.o_idmap nofail) = GOk (mk_go_acpi_world tr, None) /\
             T.abs tr = ex_state.
Proof.
  assert (H1 : 0x2000 < two64) by (unfold two64; lia).
  split; [exact C14_bytes_ok_nonvacuous|]. split; [exact H1|]. split; [apply le_n|].
  pose proof (C14_enumerateTables_is_translation ex_mem nofail 0x2000 true (N.to_nat two32) C14_bytes_ok_nonvacuous H1 (le_n _)) as H.
  assert (He : enumerateTables ex_mem nofail 0x2000 true = (ex_state, IOk)) by (vm_compute; reflexivity).
  rewrite He in H. exact H.
Qed.

(** ---- probeForACPI, DriverInit, and the two in sequence ---- *)
(** the probe over the whole window returns the driver {rsdtAddr: 0x2000, useXSDT: true} *)
Example C14_trans_probe_run :
  go_acpi_probeForACPI 100 w0 ld 16 0x105f 0x1000 (T.o_map None 0) =
  GOk (mk_go_acpi_world [unmapev 1; mapev 1], (true, 0x2000, true)).
Proof. vm_compute. reflexivity. Qed.

(** no root pointer / mapFn error: nil *)
Example C14_trans_probe_nil :
  go_acpi_probeForACPI 100 w0 ld 16 0x1010 0x1000 (T.o_map None 0) = GOk (mk_go_acpi_world [unmapev 1; mapev 1], (false, 0, false)) /\
  go_acpi_probeForACPI 100 w0 ld 16 0x105f 0x1000 (T.o_map (Some 0) 0) = GOk (mk_go_acpi_world [unmapev 1; mapev 1], (false, 0, false)).
Proof. split; vm_compute; reflexivity. Qed.

(** DriverInit on that driver: nil, printTableInfo called last, the trace before it stands for the model's final state *)
Example C14_trans_init_run :
  match go_acpi_acpiDriver_DriverInit 200 w0 0x2000 true ld (T.o_idmap nofail) with
  | GOk (w, e) => Some (e, hd_error (f_world_trace w), T.abs (f_world_trace w))
  | _ => None
  end = Some (None, Some T.ev_print, ex_state).
Proof. vm_compute. reflexivity. Qed.

(** an enumeration error is returned and printTableInfo is not called *)
Example C14_trans_init_error :
  match go_acpi_acpiDriver_DriverInit 200 w0 0x2000 true ld (T.o_idmap (fun k => k =? 4)) with
  | GOk (w, e) => Some (e, existsb (fun c => match c with GCall n _ => String.eqb n "printTableInfo" end) (f_world_trace w))
  | _ => None
  end = Some (Some "errMap"%string, false).
Proof. vm_compute. reflexivity. Qed.

(** scan, driver, enumeration in one run: the registered tables are the model's *)
Example C14_trans_probe_then_init_run :
  match T.probe_then_init 200 [] ld 16 0x105f 0x1000 (T.o_map None 0) (T.o_idmap nofail) with
  | GOk (w, r) => Some (r, st_tmap (T.abs (f_world_trace w)), st_events (T.abs (f_world_trace w)))
  | _ => None
  end = Some ((true, None), [(DSDT, 0x3400); (FACP, 0x3200); (APIC, 0x3000)], [EvMismatch SSDT 0x3100 36]).
Proof. vm_compute. reflexivity. Qed.

(** the window behind the revision-2 pointer: the revision-0 pointer names 0x7000, where there is no table: the probe
    returns a driver and DriverInit faults on the header (model: PFound, then IStray) *)
Example C14_trans_probe_then_init_stray :
  T.probe_then_init 200 [] ld 16 0x105f 0x1030 (T.o_map None 0) (T.o_idmap nofail) = GPanic.
Proof. vm_compute. reflexivity. Qed.

Example C14_probe_then_init_trans_nonvacuous :
  bytes_ok ex_mem /\ 0x1000 < two64 /\ 0 < 16 /\ 0x105f + 16 <= two64 /\
  (N.to_nat (T.locate_fuel 0x1000 0x105f 16) < N.to_nat two32)%nat /\ (N.to_nat two32 <= N.to_nat two32)%nat /\
  exists tr, T.probe_then_init (N.to_nat two32) [] ld 16 0x105f 0x1000 (T.o_map None 0) (T.o_idmap nofail) =
             GOk (mk_go_acpi_world (T.ev_print :: tr), (true, None)) /\ T.abs tr = ex_state.
Proof.
  assert (H1 : 0x1000 < two64) by (unfold two64; lia).
  assert (H2 : 0 < 16) by lia.
  assert (H3 : 0x105f + 16 <= two64) by (unfold two64; lia).
  assert (H4 : (N.to_nat (T.locate_fuel 0x1000 0x105f 16) < N.to_nat two32)%nat).
  { assert (Hx : T.locate_fuel 0x1000 0x105f 16 < 100) by (vm_compute; reflexivity).
    revert Hx. generalize (T.locate_fuel 0x1000 0x105f 16). intros a Hx. unfold two32. lia. }
  split; [exact C14_bytes_ok_nonvacuous|]. split; [exact H1|]. split; [exact H2|]. split; [exact H3|]. split; [exact H4|]. split; [apply le_n|].
  pose proof (C14_probe_then_init_is_translation ex_mem 0x1000 0x105f 16 None nofail (N.to_nat two32)
                C14_bytes_ok_nonvacuous H1 H2 H3 H4 (le_n _)) as H.
  cbv zeta in H.
  assert (Hl : locateRSDT ex_mem 0x1000 0x105f 16 None = (PFound 0x2000 true, 1, 1)) by (vm_compute; reflexivity).
  rewrite Hl in H.
  assert (Hd : exists info, driverInit ex_mem nofail 0x2000 true = (ex_state, IOk, info)) by (eexists; vm_compute; reflexivity).
  destruct Hd as (info & Hd). rewrite Hd in H. exact H.
Qed.

(** ---- audit B: the theorems that had no example of their own ---- *)
(** C14_validTable_trans_spec: hypotheses as for C14_validTable_is_translation; with the concrete run above the theorem
    yields the specification side for the valid APIC table and for the corrupted SSDT *)
Example C14_validTable_trans_spec_nonvacuous :
  0x3000 < two64 /\ 44 < two32 /\ (N.to_nat 44 < 45)%nat /\ sums_to_zero ex_mem 0x3000 44 /\ sums_to_nonzero ex_mem 0x3100 36.
Proof.
  assert (H1 : 0x3000 < two64) by (unfold two64; lia).
  assert (H2 : 44 < two32) by (unfold two32; lia).
  assert (H3 : (N.to_nat 44 < 45)%nat) by (vm_compute; lia).
  assert (H1' : 0x3100 < two64) by (unfold two64; lia).
  assert (H2' : 36 < two32) by (unfold two32; lia).
  assert (H3' : (N.to_nat 36 < 37)%nat) by (vm_compute; lia).
  split; [exact H1|]. split; [exact H2|]. split; [exact H3|]. split.
  - apply (proj1 (C14_validTable_trans_spec ex_mem [] 0x3000 44 45 H1 H2 H3)). exact C14_trans_validTable_good.
  - apply (proj2 (C14_validTable_trans_spec ex_mem [] 0x3100 36 37 H1' H2' H3')). exact C14_trans_validTable_corrupted.
Qed.

(** C14_probe_is_translation: the hypotheses (those of C14_locateRSDT_is_translation) on the example image, and the theorem's
    answer agrees with the concrete run: a driver carrying (0x2000, XSDT) *)
Example C14_probe_trans_nonvacuous :
  bytes_ok ex_mem /\ 0x1000 < two64 /\ 0 < 16 /\ 0x105f + 16 <= two64 /\
  (N.to_nat (T.locate_fuel 0x1000 0x105f 16) < 100)%nat /\
  T.probe_result [] 0x1000 (locateRSDT ex_mem 0x1000 0x105f 16 None) =
  GOk (mk_go_acpi_world [unmapev 1; mapev 1], (true, 0x2000, true)).
Proof.
  assert (H1 : 0x1000 < two64) by (unfold two64; lia).
  assert (H2 : 0 < 16) by lia.
  assert (H3 : 0x105f + 16 <= two64) by (unfold two64; lia).
  assert (H4 : (N.to_nat (T.locate_fuel 0x1000 0x105f 16) < 100)%nat) by (vm_compute; lia).
  split; [exact C14_bytes_ok_nonvacuous|]. split; [exact H1|]. split; [exact H2|]. split; [exact H3|]. split; [exact H4|].
  rewrite <- (C14_probe_is_translation ex_mem 0x1000 0x105f 16 None [] 100 C14_bytes_ok_nonvacuous H1 H2 H3 H4).
  exact C14_trans_probe_run.
Qed.

(** C14_driverInit_is_translation: hypotheses and the IOk branch at the example image *)
Example C14_driverInit_trans_nonvacuous :
  bytes_ok ex_mem /\ 0x2000 < two64 /\ (N.to_nat two32 <= N.to_nat two32)%nat /\
  exists tr, go_acpi_acpiDriver_DriverInit (N.to_nat two32) w0 0x2000 true ld (T.o_idmap nofail) =
             GOk (mk_go_acpi_world (T.ev_print :: tr), None) /\ T.abs tr = ex_state.
Proof.
  assert (H1 : 0x2000 < two64) by (unfold two64; lia).
  split; [exact C14_bytes_ok_nonvacuous|]. split; [exact H1|]. split; [apply le_n|].
  pose proof (C14_driverInit_is_translation ex_mem nofail 0x2000 true (N.to_nat two32) C14_bytes_ok_nonvacuous H1 (le_n _)) as H.
  cbv zeta in H.
  assert (Hd : exists info, driverInit ex_mem nofail 0x2000 true = (ex_state, IOk, info)) by (eexists; vm_compute; reflexivity).
  destruct Hd as (info & Hd). rewrite Hd in H. exact H.
Qed.

(** the side conditions of the locateRSDT / probe theorems at the KERNEL's own search window (0xe0000 .. 0xfffff, step 16)
    with a fuel a caller can write down: 32 pages + 8191 slots + the per-slot constant, below 10000 *)
Example C14_locateRSDT_trans_real_input :
  acpi_rsdpLocationLow = 0xe0000 /\ acpi_rsdpLocationHi = 0xfffff /\ acpi_rsdpAlignment = 16 /\
  acpi_rsdpLocationLow < two64 /\ 0 < acpi_rsdpAlignment /\ acpi_rsdpLocationHi + acpi_rsdpAlignment <= two64 /\
  T.locate_fuel acpi_rsdpLocationLow acpi_rsdpLocationHi acpi_rsdpAlignment < 10000 /\
  (N.to_nat (T.locate_fuel acpi_rsdpLocationLow acpi_rsdpLocationHi acpi_rsdpAlignment) < N.to_nat 10000)%nat.
Proof.
  assert (Hf : T.locate_fuel acpi_rsdpLocationLow acpi_rsdpLocationHi acpi_rsdpAlignment < 10000) by (vm_compute; reflexivity).
  repeat split; try (vm_compute; reflexivity); try (vm_compute; discriminate).
  revert Hf. generalize (T.locate_fuel acpi_rsdpLocationLow acpi_rsdpLocationHi acpi_rsdpAlignment). intros a Ha. lia.
Qed.
