(** Non-vacuity of C06_fault_handler_is_translation and concrete runs of the regenerated handler (Gen/Trans_vmm_fault.v)
    by [vm_compute]: a copy-on-write fault on a page that shares frame 0x130 (recovered: private copy in the next free
    frame, RW set, CoW cleared, flushed, no panic), the same fault with the allocator exhausted (kernel panic with the
    allocator's error, page untouched), a fault on a page that is not copy-on-write and one on an unmapped page (kernel
    panic with errUnrecoverableFault, nothing changed). *)
From Coq Require Import NArith String List Bool.
From FF Require Import Lib.Word Lib.GoOps Gen.Consts_mm_vmm Gen.Trans_vmm_fault Vmm.Pt Vmm.PtMem Vmm.PtAccess.
From FF Require Vmm.FaultTrans Vmm.MapTrans Vmm.PdtTrans.
Module F := FF.Vmm.FaultTrans.
Module M := FF.Vmm.MapTrans.
Module T := FF.Vmm.PdtTrans.
Import ListNotations.
Local Open Scope N_scope.

Definition boot : st := init_state 0x100 64 0 [0x101; 0x102; 0x103; 0x104; 0x105; 0x106; 0x107; 0x108].
Definition PG : N := 0x7f0000123.
Definition CoW_flags : N := 0x201.   (* Present | CopyOnWrite *)
Definition st_of (r : R (st * N)) : st := match r with Ok (s', _) => s' | Stray => boot end.
(** the page shows frame 0x130 read-only, copy-on-write *)
Definition s1 : st := st_of (map_page PG 0x130 CoW_flags boot).
Definition ADDR : N := frame_addr PG + 0x7ab.
Definition REGS : N := 0xdead000.

Definition run (s : st) (addr : N) :=
  F.fres (go_vmm_pageFaultHandler (mk_go_vmm_world [] s) REGS T.o_flush F.o_memcopy T.o_maptemp M.o_alloc F.o_nonrec (F.o_cr2 addr) T.o_unmap).
Definition obs (r : gres (st * option (list garg))) :=
  match r with GOk (s', p) => Some (digest s', p, walk_root s' hw_levels (N.shiftr (cr3 s') 12) PG) | _ => None end.

Lemma s1_w64 : T.mem_w64 s1.
Proof.
  unfold s1. destruct (map_page PG 0x130 CoW_flags boot) as [[s' e]|] eqn:E; cbn [st_of].
  - refine (proj2 (proj2 (T.map_page_keeps _ _ _ _ _ _ _ E)) _); [reflexivity | apply T.init_state_w64; reflexivity].
  - apply T.init_state_w64. reflexivity.
Qed.

Example C06_fault_handler_is_translation_nonvacuous :
  ADDR < two64 /\ T.mem_w64 s1 /\ F.fault_stable ADDR s1.
Proof.
  split; [reflexivity|]. split; [exact s1_w64|].
  intros p f i sa cp sb page src dst sc e3 Hin Hr Hfw _ Ha Hmt Hs Hd Hu.
  vm_compute in Hfw. injection Hfw as <- <-.
  vm_compute in Ha. injection Ha as <- <-.
  vm_compute in Hmt. injection Hmt as <- <-.
  vm_compute in Hs. injection Hs as <-.
  vm_compute in Hd. injection Hd as <-.
  vm_compute in Hu. injection Hu as <- <-.
  vm_compute in Hin.
  destruct Hin as [E|[E|[E|[E|[]]]]]; try discriminate E; injection E as <-; vm_compute in Hr; try discriminate.
  split; [vm_compute; reflexivity|].
  apply M.entry_stable_b; vm_compute; reflexivity.
Qed.

(** the recovered fault: the page now shows the fresh frame 0x104 (the first three oracle frames became its tables) with
    Present | RW, CoW cleared; no kernel panic; the result is the model's *)
Example cow_fault_run :
  obs (run s1 ADDR) = Some (digest (st_of (page_fault ADDR s1)), None, (3, 0x104003))
  /\ (match page_fault ADDR s1 with Ok (_, out) => Some out | Stray => None end) = Some 0
  /\ walk_root s1 hw_levels (N.shiftr (cr3 s1) 12) PG = (3, 0x130201).
Proof. vm_compute. repeat split. Qed.

(** allocator exhausted: kernel panic with the allocator's error; the page is what it was *)
Example cow_fault_alloc_failure_run :
  obs (run (set_orc s1 []) ADDR)
  = Some (digest s1, Some [GNum ADDR; GNum REGS; err_arg (Some "errAllocFrame"%string)], (3, 0x130201))
  /\ (match page_fault ADDR (set_orc s1 []) with Ok (_, out) => Some out | Stray => None end) = Some (PANIC + E_ALLOC).
Proof. vm_compute. split; reflexivity. Qed.

(** a write fault on a page that is mapped read-only WITHOUT the CoW flag, and a fault on an unmapped page: kernel
    panic with errUnrecoverableFault, nothing touched *)
Example plain_ro_fault_run :
  let s := st_of (map_page PG 0x130 1 boot) in
  obs (run s ADDR) = Some (digest s, Some [GNum ADDR; GNum REGS; err_arg (Some "errUnrecoverableFault"%string)], (3, 0x130001)).
Proof. vm_compute. reflexivity. Qed.

Example unmapped_fault_run :
  obs (run boot ADDR) = Some (digest boot, Some [GNum ADDR; GNum REGS; err_arg (Some "errUnrecoverableFault"%string)], (0, 0))
  /\ (match page_fault ADDR boot with Ok (_, out) => Some out | Stray => None end) = Some (PANIC + E_FAULT).
Proof. vm_compute. split; reflexivity. Qed.

(** a page that is already writable (RW | CoW both set): not recoverable either *)
Example rw_cow_fault_run :
  let s := st_of (map_page PG 0x130 0x203 boot) in
  obs (run s ADDR) = Some (digest s, Some [GNum ADDR; GNum REGS; err_arg (Some "errUnrecoverableFault"%string)], (3, 0x130203)).
Proof. vm_compute. reflexivity. Qed.

(** ---- the general corollary: the boot state satisfies the invariant; a fault on an unmapped page is in its domain ---- *)
From FF Require Vmm.PtInit Vmm.PtMap Vmm.PtFault Vmm.PtTheorems.
Example C06_fault_handler_is_translation_inv_nonvacuous :
  PtMap.Inv boot 0x100 0x100 (PtInit.own_root 0x100) /\ ADDR < two64 /\ T.mem_w64 boot /\
  hw_idx (page_from_addr ADDR) 0 <> 511 /\ ~ PtTheorems.same_page (page_from_addr ADDR) temp_page /\
  (forall e, PtFault.cow_pre boot 0x100 (page_from_addr ADDR) = Some e ->
     backed boot (hw_frame e) = true /\ PtInit.own_root 0x100 (hw_frame e) = None /\ ~ In (hw_frame e) (orc boot)).
Proof.
  split.
  { apply PtInit.Inv_init; [reflexivity | vm_compute; discriminate | |].
    - vm_compute. repeat constructor; cbn; intuition discriminate.
    - intros f Hin Hz. cbn in Hin. repeat (destruct Hin as [<-|Hin]; [vm_compute; split; reflexivity|]). destruct Hin. }
  split; [reflexivity|]. split; [apply T.init_state_w64; reflexivity|].
  split; [vm_compute; discriminate|]. split; [vm_compute; discriminate|].
  intros e He. vm_compute in He. discriminate.
Qed.

(** audit B: the hypotheses of C06_fault_handler_is_translation_inv hold TOGETHER at a state with a live copy-on-write
    page ([s1]: page PG shows the data frame 0x130 read-only + CoW), i.e. on the recoverable path, not only at an
    unmapped page: the invariant holds for [s1] (by C04's map_ok from the boot state), [cow_pre] is [Some _], and the
    frame it shows is backed, is no page table and is not in the allocator's hands. *)
Example C06_fault_handler_is_translation_inv_real_input :
  exists own,
    PtMap.Inv s1 0x100 0x100 own /\ ADDR < two64 /\ T.mem_w64 s1 /\
    hw_idx (page_from_addr ADDR) 0 <> 511 /\ ~ PtTheorems.same_page (page_from_addr ADDR) temp_page /\
    PtFault.cow_pre s1 0x100 (page_from_addr ADDR) = Some 0x130201 /\
    (forall e, PtFault.cow_pre s1 0x100 (page_from_addr ADDR) = Some e ->
       backed s1 (hw_frame e) = true /\ own (hw_frame e) = None /\ ~ In (hw_frame e) (orc s1)).
Proof.
  assert (HI : PtMap.Inv boot 0x100 0x100 (PtInit.own_root 0x100))
    by apply C06_fault_handler_is_translation_inv_nonvacuous.
  assert (H511 : hw_idx PG 0 <> 511) by (vm_compute; discriminate).
  destruct (PtTheorems.map_ok boot 0x100 0x100 (PtInit.own_root 0x100) PG 0x130 CoW_flags HI H511 eq_refl)
    as (s' & err & own' & Hrun & HI' & _ & _ & _ & _ & _ & _ & (n & Horc & Hown) & _).
  assert (Es : s1 = s') by (unfold s1; rewrite Hrun; reflexivity).
  exists own'. rewrite Es. split; [exact HI'|]. rewrite <- Es.
  split; [reflexivity|]. split; [exact s1_w64|].
  split; [vm_compute; discriminate|]. split; [vm_compute; discriminate|].
  assert (Hc : PtFault.cow_pre s1 0x100 (page_from_addr ADDR) = Some 0x130201) by (vm_compute; reflexivity).
  split; [exact Hc|].
  intros e He. rewrite Hc in He. injection He as <-.
  change (hw_frame 0x130201) with 0x130.
  split; [vm_compute; reflexivity|]. split.
  - destruct (Hown 0x130) as [-> | (_ & Hin & _)]; [reflexivity|].
    exfalso. apply PtMap.in_firstn in Hin. cbn in Hin. intuition discriminate.
  - vm_compute. intuition discriminate.
Qed.
