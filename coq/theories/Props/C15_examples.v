(** Non-vacuity and concrete runs for C15. *)
From Coq Require Import NArith ZArith List Lia.
From FF Require Import Lib.Word Gen.Consts_kfmt Kfmt.Fmt Kfmt.FmtSpec Kfmt.FmtProofs Kfmt.FmtScanProofs.
Import ListNotations.
Local Open Scope N_scope.

Definition ex_pieces : list piece :=
  [Lit [118; 61]; Verb [5] Vd; Percent; Verb [0; 4] Vx; Lit [32]; Verb [] Vs; Verb [3; 3] Vo; Verb [] Vt; Verb [] Vd].
Definition ex_args : list arg :=
  [AInt I8 (-128); AInt U16 255; ABytes [104; 105]; AInt I64 (-9223372036854775808); AStr [110; 111]].

Example C15_pieces_nonvacuous : Forall piece_wf ex_pieces.
Proof. repeat constructor; try (intros H; simpl in H; intuition discriminate); vm_compute; reflexivity. Qed.

Example C15_args_nonvacuous : Forall arg_ok ex_args.
Proof. repeat constructor; vm_compute; intuition discriminate. Qed.

Example C15_buf_nonvacuous : length init_buf = N.to_nat kfmt_numFmtBufLen.
Proof. reflexivity. Qed.

(** "v=%5d%%%04x %s%33o%t%d" with (int8(-128), uint16(255), []byte("hi"), int64 min, "no"):
    " -128" , "%" , "00ff" , " hi" , the 22-digit octal min-int with sign, zero padded to 31 (+ sign),
    WRONGTYPE for %t of a string, MISSING for the last verb. *)
Example C15_run_example :
  written (fprintf (encode ex_pieces) ex_args init_buf) = Ok (render ex_pieces ex_args)
  /\ render ex_pieces ex_args =
     [118; 61; 32; 45; 49; 50; 56; 37; 48; 48; 102; 102; 32; 104; 105;
      45; 48; 48; 48; 48; 48; 48; 48; 48; 48; 49; 48; 48; 48; 48; 48; 48; 48; 48; 48; 48; 48; 48; 48; 48; 48; 48; 48; 48; 48; 48; 48]
     ++ kfmt_errWrongArgType ++ kfmt_errMissingArg.
Proof. split; vm_compute; reflexivity. Qed.

(** formats outside the well-formed set: unknown verb characters, digits after them keep
    accumulating, "%5%", a trailing "%12" — all return normally *)
Example C15_run_malformed :
  written (fprintf [37; 122; 53; 100; 37; 53; 37; 97; 37; 49; 50] [AInt Int 7] init_buf)
  = Ok (kfmt_errNoVerb ++ [32; 32; 32; 32; 55; 37; 97]).
Proof. vm_compute. reflexivity. Qed.

(** a width that wraps the 64-bit int (2^64+3 -> 3), and a huge width on an integer (clamped to 31) *)
Example C15_run_wrap :
  written (fprintf ([37] ++ [49;56;52;52;54;55;52;52;48;55;51;55;48;57;53;53;49;54;49;57] ++ [115; 37; 57;57;57;57;57;57; 100])
             [AStr [97]; AInt U8 5] init_buf)
  = Ok ([32; 32; 97] ++ repeat 32 30 ++ [53]).
Proof. vm_compute. reflexivity. Qed.

(** the faithful model does report an out-of-range buffer index when there is one: a 31-byte buffer
    (two short) makes the sign of a fully padded negative hex number fall outside *)
Example C15_panic_is_observable :
  fmt_int (repeat 0 31) (AInt Int (-1)) 16 31 = Panic OOB.
Proof. vm_compute. reflexivity. Qed.
