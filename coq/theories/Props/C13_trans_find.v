(** C13 - tie BY TRANSLATION, the lookup pair (see Props/C13_trans.v for the setting): Find and findRelative of
    obj_tree.go.  In the regenerated Gen/Trans_aml_tree.v they are nested `gloop`s over Go int indices into the []byte
    expression (labelled continues as flags); the model (Aml/Tree.v) recurses on the expression as a list.  They are
    proved equal by simulation (Aml/TreeTransF.v, Aml/TreeTransG.v): the model's remaining list is `skipn index expr`.
    Hypotheses of the theorems, and nothing else:
      - the expression is shorter than 2^62 bytes (Go ints are two's complement in 64 bits; a slice cannot be longer);
      - fuel: the translation hands ONE fuel to all its loops; it must exceed the length of the expression + 5 (the
        loops over the expression and the 4-byte compare) and, for the model's own functions, reach the model's
        [chain_fuel t] = pool length + 1;
      - for the model's own functions: the model's answer is not OutOfFuel (the model walks sibling / parent chains on
        [chain_fuel t]; it says OutOfFuel only on a cyclic chain, which C13_find_total excludes for well-formed trees).
    Then for EVERY tree (well-formed or not), scope index and byte string the translation returns the model's index and the
    unchanged tree, and panics (nil dereference of an ObjectAt result) exactly where the model does.
    The `_fuelled` theorems drop the last hypothesis: against the model with the walk fuel as a parameter
    ([TF.findRelative_go_f], [TG.Find_f]: the text of the model with `chain_fuel t` replaced by the fuel,
    C13_fuelled_model_is_the_model) the translation is equal outright, GFuel exactly where that model says OutOfFuel.
    Statements only. *)
From Coq Require Import NArith List.
From FF Require Import Lib.GoOps Lib.GoPool Gen.Consts_aml_tree Gen.Trans_aml_tree Aml.Stream Aml.Tree.
From FF Require Aml.TreeTrans Aml.TreeTransF Aml.TreeTransG.
Module TT := FF.Aml.TreeTrans.
Module TF := FF.Aml.TreeTransF.
Module TG := FF.Aml.TreeTransG.
Import ListNotations.
Local Open Scope N_scope.

Theorem C13_findRelative_is_translation :
  forall (V : Type) (t : ObjectTree V) (scopeIndex : N) (expr : list N) (fuel : nat),
    N.of_nat (length expr) < 2 ^ 62 -> (length expr + 5 < fuel)%nat -> (chain_fuel t <= fuel)%nat ->
    findRelative t scopeIndex expr <> OutOfFuel ->
    go_aml_ObjectTree_findRelative fuel (TT.tr_tree t) scopeIndex expr =
    TT.lift (fun r => (TT.tr_tree t, r)) (findRelative t scopeIndex expr).
Proof. exact @TF.findRelative_is_translation. Qed.
Print Assumptions C13_findRelative_is_translation.

Theorem C13_find_is_translation :
  forall (V : Type) (t : ObjectTree V) (scopeIndex : N) (expr : list N) (fuel : nat),
    N.of_nat (length expr) < 2 ^ 62 -> (length expr + 5 < fuel)%nat -> (chain_fuel t <= fuel)%nat ->
    Find t scopeIndex expr <> OutOfFuel ->
    go_aml_ObjectTree_Find fuel (TT.tr_tree t) scopeIndex expr =
    TT.lift (fun r => (TT.tr_tree t, r)) (Find t scopeIndex expr).
Proof. exact @TG.Find_is_translation. Qed.
Print Assumptions C13_find_is_translation.

(** the same fuel on both sides: equal outright, GFuel where the fuelled model says OutOfFuel *)
Theorem C13_findRelative_fuelled_is_translation :
  forall (V : Type) (expr : list N), N.of_nat (length expr) < 2 ^ 62 ->
  forall (t : ObjectTree V) (fuel : nat), (length expr + 5 < fuel)%nat ->
  forall scopeIndex : N,
    go_aml_ObjectTree_findRelative fuel (TT.tr_tree t) scopeIndex expr =
    TT.lift (fun r => (TT.tr_tree t, r)) (TF.findRelative_go_f fuel false t scopeIndex expr).
Proof. exact @TF.findRelative_fuelled. Qed.
Print Assumptions C13_findRelative_fuelled_is_translation.

Theorem C13_find_fuelled_is_translation :
  forall (V : Type) (t : ObjectTree V) (scopeIndex : N) (expr : list N) (fuel : nat),
    N.of_nat (length expr) < 2 ^ 62 -> (length expr + 5 < fuel)%nat ->
    go_aml_ObjectTree_Find fuel (TT.tr_tree t) scopeIndex expr =
    TT.lift (fun r => (TT.tr_tree t, r)) (TG.Find_f fuel t scopeIndex expr).
Proof. exact @TG.Find_fuelled. Qed.
Print Assumptions C13_find_fuelled_is_translation.

(** the fuelled models at the model's own fuel ARE the model *)
Theorem C13_fuelled_model_is_the_model :
  forall (V : Type) (t : ObjectTree V) (scopeIndex : N) (expr : list N),
    TF.findRelative_go_f (chain_fuel t) false t scopeIndex expr = findRelative t scopeIndex expr /\
    TG.Find_f (chain_fuel t) t scopeIndex expr = Find t scopeIndex expr.
Proof.
  intros V t s e. split.
  - exact (TF.findRelative_go_f_chain t (length e) e false s (le_n _)).
  - exact (TG.Find_f_chain t s e).
Qed.
Print Assumptions C13_fuelled_model_is_the_model.
