(** Non-vacuity for C09: a concrete disciplined program (a two-step non-atomic increment of a shared
    counter under the mutex, returning the value it wrote), and a concrete interleaving of two tasks. *)
From Coq Require Import List Arith Bool Lia String.
From FF Require Import Sync.Skel Sync.SkelProofs Sync.Serial Sync.SerialProofs.
Import ListNotations.

(* local state: program counter and the value read *)
Inductive pc := P0 | P1 | P2 (v : nat) | P3 (v : nat) | P4 (v : nat) | P5.

Definition code (l : pc) : @action nat pc nat :=
  match l with
  | P0 => AAcq P1
  | P1 => AShared (fun s => (s, P2 s))            (* read the counter *)
  | P2 v => AShared (fun s => (v + 1, P3 (v + 1)))  (* write it back incremented *)
  | P3 v => ARel (P4 v)
  | P4 v => ADone v P5
  | P5 => AStop
  end.

Definition holds (l : pc) : bool := match l with P1 | P2 _ | P3 _ => true | _ => false end.

Example C09_disciplined_nonvacuous : disciplined code holds.
Proof.
  constructor.
  - intros [] l' H; cbn in H; try discriminate. injection H as <-. auto.
  - intros [] l' H; cbn in H; try discriminate. injection H as <-. auto.
  - intros [] f H; cbn in H; try discriminate; injection H as <-; auto.
  - intros [] l' H; cbn in H; discriminate.
  - intros [] r l' H; cbn in H; try discriminate. injection H as <- <-. auto.
Qed.

Definition g0 : @st nat pc nat := {| sh := 0; owner := None; loc := fun _ => P0; hist := [] |}.

Example C09_initial_nonvacuous : initial holds g0.
Proof. split; auto. Qed.

(* task 0 acquires, task 1 cannot; task 0 reads, writes, releases; task 1 acquires *)
Example C09_interleaving_nonvacuous :
  exists g, star (cstep code) g0 g /\ sh g = 1 /\ owner g = Some 1 /\ loc g 0 = P4 1.
Proof.
  eexists. split.
  - eapply star_step. eapply star_step. eapply star_step. eapply star_step. eapply star_step. apply star_refl.
    + apply (CAcq code g0 0 P1); reflexivity.
    + eapply (CShared code _ 0); reflexivity.
    + eapply (CShared code _ 0); reflexivity.
    + eapply (CRel code _ 0); reflexivity.
    + eapply (CAcq code _ 1 P1); reflexivity.
  - cbn. auto.
Qed.

(* a skeleton with a path that returns while holding the mutex is rejected; a correct one is accepted *)
Example C09_checker_rejects_leak :
  well_bracketed (KSeq KAcq (KSeq (KIf (KShared "x") (KReturn KSkip) KSkip) (KSeq KRel (KReturn KSkip)))) = false.
Proof. reflexivity. Qed.

Example C09_checker_rejects_unprotected :
  well_bracketed (KSeq (KShared "x") (KSeq KAcq (KSeq KRel (KReturn KSkip)))) = false.
Proof. reflexivity. Qed.

Example C09_checker_accepts :
  well_bracketed (KSeq KAcq (KSeq (KLoop KSkip (KIf (KShared "x") (KSeq KRel (KReturn KSkip)) KContinue) KSkip) (KSeq KRel (KReturn KSkip)))) = true.
Proof. reflexivity. Qed.

(** ---- non-vacuity of the instantiated theorem: the initialised allocator of Props/C01_examples.v, two
    callers that each allocate one frame, interleaved; both get different frames ---- *)
From Coq Require Import NArith.
From FF Require Import Pmm.Bitmap Pmm.TopProofs Sync.AllocTasks Sync.AllocTasksProofs Props.C01_examples.

Definition plan2 (t : nat) : list op := match t with 0 | 1 => [OpAlloc] | _ => [] end.

Example C09_plan_nonvacuous : forall t, history_ok pm_map pm_kstart pm_kend (early_frames (snd pm_init_result)) (plan2 t).
Proof. intros [|[|t]] f Hf; cbn in Hf; try contradiction; destruct Hf as [Hf|[]]; discriminate. Qed.

Example C09_two_callers_nonvacuous :
  exists g, star (cstep AllocTasks.code) (start pm_a0 plan2) g /\ owner g = None /\
            exists f1 f2, hist g = [(0, RAlloc (Some f1)); (1, RAlloc (Some f2))] /\ f1 <> f2.
Proof.
  eexists. split.
  - eapply star_step. eapply star_step. eapply star_step. eapply star_step.
    eapply star_step. eapply star_step. eapply star_step. eapply star_step. apply star_refl.
    + eapply (CAcq AllocTasks.code _ 0); reflexivity.
    + eapply (CShared AllocTasks.code _ 0); reflexivity.
    + eapply (CRel AllocTasks.code _ 0); reflexivity.
    + eapply (CAcq AllocTasks.code _ 1); reflexivity.
    + eapply (CShared AllocTasks.code _ 1); reflexivity.
    + eapply (CDone AllocTasks.code _ 0); reflexivity.
    + eapply (CRel AllocTasks.code _ 1); reflexivity.
    + eapply (CDone AllocTasks.code _ 1); reflexivity.
  - split; [reflexivity|]. vm_compute. eexists. eexists. split; [reflexivity|]. discriminate.
Qed.
