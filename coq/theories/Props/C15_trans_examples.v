(** C15 translation tie: the functions regenerated from kernel/kfmt/fmt.go (Gen/Trans_kfmt_fmt.v) RUN by vm_compute
    on concrete calls - including [go_kfmt_Fprintf] - and the hypotheses of the
    [*_is_translation] theorems discharged on concrete instances (non-vacuity). *)
From Coq Require Import NArith ZArith String Ascii List Lia.
From FF Require Import Lib.Word Lib.GoOps Lib.GoOpsFmt Gen.Consts_kfmt Gen.Trans_kfmt_fmt Kfmt.Fmt Kfmt.FmtTrans Kfmt.FmtTransScan.
From FF Require Import Props.C15_trans.
Import ListNotations.
Local Open Scope N_scope.

Definition bytes (s : string) : list N := map N_of_ascii (list_ascii_of_string s).
(** the kernel's buffers as the package initialises them: 33 bytes, one byte *)
Definition w0 : go_kfmt_world := mk_go_kfmt_world [] (repeat 0 33) [32].
(** what the writer received, or "PANIC" / "FUEL" *)
Definition out (r : gres (go_kfmt_world * unit)) : string :=
  match r with
  | GOk (w, _) => string_of_list_ascii (map ascii_of_N (trace_bytes (f_world_trace w)))
  | GPanic => "PANIC" | GFuel => "FUEL"
  end.
Definition neg (bits n : N) : N := 2 ^ bits - n.      (* the representative of -n *)

(** Fprintf(w, "%5d|%x|%s|%t|%%|%o", -42, 255, "ab", true, uint8(8)) *)
Example C15_trans_run_fprintf :
  out (go_kfmt_Fprintf 100 w0 true (bytes "%5d|%x|%s|%t|%%|%o")
         [GAInt (neg 64 42); GAInt 255; GAStr (bytes "ab"); GABool true; GAU8 8]) = "  -42|ff|ab|true|%|10"%string.
Proof. vm_compute. reflexivity. Qed.

(** the error paths: missing argument, surplus argument, wrong types, no verb *)
Example C15_trans_run_missing : out (go_kfmt_Fprintf 100 w0 true (bytes "a%d") []) = "a(MISSING)"%string.
Proof. vm_compute. reflexivity. Qed.
Example C15_trans_run_extra : out (go_kfmt_Fprintf 100 w0 true (bytes "a") [GAU8 1]) = "a%!(EXTRA)"%string.
Proof. vm_compute. reflexivity. Qed.
Example C15_trans_run_wrongtype :
  out (go_kfmt_Fprintf 100 w0 true (bytes "%d %s %t") [GAStr []; GAU8 1; GAOther])
  = "%!(WRONGTYPE) %!(WRONGTYPE) %!(WRONGTYPE)"%string.
Proof. vm_compute. reflexivity. Qed.
Example C15_trans_run_noverb : out (go_kfmt_Fprintf 100 w0 true (bytes "%5q") [GAU8 1]) = "%!(NOVERB)%!(EXTRA)"%string.
Proof. vm_compute. reflexivity. Qed.

(** widths beyond the buffer count as 31; minimum values of signed types; sign in the last blank *)
Example C15_trans_run_wide :
  out (go_kfmt_Fprintf 100 w0 true (bytes "%40d|%40x|%3d") [GAI8 (neg 8 128); GAI64 (neg 64 (2 ^ 63)); GAI16 (neg 16 1)])
  = "                           -128|-0000000000000008000000000000000| -1"%string.
Proof. vm_compute. reflexivity. Qed.

(** a nil writer: same events, flagged 0 (doRealWrite then goes to the early ring buffer) *)
Example C15_trans_run_nil_writer :
  f_world_trace (match go_kfmt_fmtBool w0 false (GABool true) with GOk (w, _) => w | _ => w0 end)
  = [GCall "doWrite" [GNum 0; GBytes (bytes "true")]].
Proof. vm_compute. reflexivity. Qed.

(** fuel: one unit below the need is GFuel (never GPanic); base 7 is Go's division-by-zero panic *)
Example C15_trans_run_fuel : go_kfmt_fmtInt 30 w0 true (GAU8 7) 10 31 = GFuel.
Proof. vm_compute. reflexivity. Qed.
Example C15_trans_run_fuel_ok : out (go_kfmt_fmtInt 34 w0 true (GAU8 7) 10 31) = "                              7"%string.
Proof. vm_compute. reflexivity. Qed.
Example C15_trans_run_base7 : go_kfmt_fmtInt 100 w0 true (GAU8 7) 7 0 = GPanic.
Proof. vm_compute. reflexivity. Qed.

(** the hypotheses of the theorems hold at the kernel's initial buffers *)
Example C15_fmtInt_is_translation_nonvacuous :
  length (f_world_numFmtBuf w0) = N.to_nat kfmt_numFmtBufLen /\ gany_wf (GAInt (neg 64 42)) /\
  (10 = 8 \/ 10 = 10 \/ 10 = 16) /\ 5 < 2 ^ 64 /\ (34 <= 34)%nat.
Proof. repeat split; try reflexivity. right; left; reflexivity. Qed.
Example C15_fmtString_is_translation_nonvacuous :
  3 < 2 ^ 64 /\ glen (bytes "ab") < 9223372036854775808 /\ (length (bytes "ab") < 3)%nat /\
  (Z.to_nat (wrap_int (sz 3 - Z.of_nat (length (bytes "ab")))) < 3)%nat.
Proof. vm_compute. repeat split; auto. Qed.
Example C15_fmtRepeat_is_translation_nonvacuous : 3 < 2 ^ 64 /\ (Z.to_nat (sz 3) < 4)%nat.
Proof. vm_compute. repeat split; auto. Qed.
(** ... and the conclusion of the fmtInt theorem computed on that instance: one Write of "  -42" *)
Example C15_fmtInt_is_translation_instance :
  out (go_kfmt_fmtInt 34 w0 true (GAInt (neg 64 42)) 10 5) = "  -42"%string /\
  written (r <- fmt_int (repeat 0 33) (of_gany (GAInt (neg 64 42))) 10 (sz 5) ;; Ok r) = Ok (bytes "  -42").
Proof. vm_compute. split; reflexivity. Qed.

(** C15_fprintf_is_translation at the task's example call: the hypotheses hold, the model's output is the expected
    text, and the stated fuel bound len(format)+len(args)+len(out)+34 (= 18+5+21+34 = 78 < 79) is enough for the
    regenerated Fprintf, which then writes that text *)
Definition ex_fmt : list N := bytes "%5d|%x|%s|%t|%%|%o".
Definition ex_args : list gany := [GAInt (neg 64 42); GAInt 255; GAStr (bytes "ab"); GABool true; GAU8 8].
Example C15_fprintf_is_translation_nonvacuous :
  length (f_world_numFmtBuf w0) = N.to_nat kfmt_numFmtBufLen /\
  N.of_nat (length ex_fmt) < 4611686018427387904 /\ N.of_nat (length ex_args) < 4611686018427387904 /\
  Forall gany_wf ex_args /\ Forall str_ok ex_args /\
  written (fprintf ex_fmt (map of_gany ex_args) (repeat 0 33)) = Ok (bytes "  -42|ff|ab|true|%|10") /\
  (length ex_fmt + length ex_args + length (bytes "  -42|ff|ab|true|%|10") + 34 < 79)%nat /\
  out (go_kfmt_Fprintf 79 w0 true ex_fmt ex_args) = "  -42|ff|ab|true|%|10"%string /\
  (* the strong form: the world is the model's Write calls pushed as doWrite events on that writer, the model's buffer *)
  match fprintf ex_fmt (map of_gany ex_args) (repeat 0 33) with
  | Ok (cs, buf') => go_kfmt_Fprintf 79 w0 true ex_fmt ex_args = GOk (mk_go_kfmt_world (pushed true cs []) buf' [124], tt)
  | _ => False end.
Proof.
  split; [reflexivity|]. split; [vm_compute; reflexivity|]. split; [vm_compute; reflexivity|].
  split; [unfold ex_args; repeat (apply Forall_cons; [vm_compute; first [exact I|reflexivity]|]); apply Forall_nil|].
  split; [unfold ex_args; repeat (apply Forall_cons; [vm_compute; first [exact I|reflexivity]|]); apply Forall_nil|].
  split; [vm_compute; reflexivity|]. split; [vm_compute; lia|]. split; vm_compute; reflexivity.
Qed.

(** audit: C15_fprintf_translation_renders at the same call, the format given as PIECES (the property's quantifier):
    all six hypotheses together, the fuel bound with the specification's [render], and the theorem's conclusion *)
Definition ex_pieces : list FmtSpec.piece :=
  [FmtSpec.Verb [5] FmtSpec.Vd; FmtSpec.Lit [124]; FmtSpec.Verb [] FmtSpec.Vx; FmtSpec.Lit [124];
   FmtSpec.Verb [] FmtSpec.Vs; FmtSpec.Lit [124]; FmtSpec.Verb [] FmtSpec.Vt; FmtSpec.Lit [124];
   FmtSpec.Percent; FmtSpec.Lit [124]; FmtSpec.Verb [] FmtSpec.Vo].
Example C15_fprintf_translation_renders_real_input :
  FmtSpec.encode ex_pieces = ex_fmt /\
  FmtSpec.render ex_pieces (map of_gany ex_args) = bytes "  -42|ff|ab|true|%|10" /\
  exists cs buf' y,
    fprintf (FmtSpec.encode ex_pieces) (map of_gany ex_args) (repeat 0 33) = Ok (cs, buf') /\
    List.concat cs = FmtSpec.render ex_pieces (map of_gany ex_args) /\
    go_kfmt_Fprintf 79 w0 true (FmtSpec.encode ex_pieces) ex_args
      = GOk (mk_go_kfmt_world (pushed true cs []) buf' [y], tt).
Proof.
  split; [vm_compute; reflexivity|]. split; [vm_compute; reflexivity|].
  destruct (C15_fprintf_translation_renders true [] (repeat 0 33) 32 ex_pieces ex_args) as [cs [buf' [E [R T]]]].
  - reflexivity.
  - vm_compute; reflexivity.
  - vm_compute; reflexivity.
  - unfold ex_pieces. repeat (apply Forall_cons; [vm_compute; first [exact I | intuition discriminate | (split; [repeat constructor | reflexivity])]|]). apply Forall_nil.
  - unfold ex_args; repeat (apply Forall_cons; [vm_compute; first [exact I|reflexivity]|]); apply Forall_nil.
  - unfold ex_args; repeat (apply Forall_cons; [vm_compute; first [exact I|reflexivity]|]); apply Forall_nil.
  - destruct (T 79%nat ltac:(vm_compute; lia)) as [y Hy]. exists cs, buf', y. split; [exact E|]. split; [exact R|exact Hy].
Qed.
