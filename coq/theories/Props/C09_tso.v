(** C09 under x86-TSO — "many callers allocate and free at the same time".
    Statements only; proofs are in Sync/SerialTsoProofs.v.

    Sync/SerialTso.v: tasks run deterministic code whose shared accesses are loads and stores of memory
    cells; every task has a FIFO store buffer (stores are buffered and flushed at scheduler-chosen
    points, loads see the task's own buffer on top of memory); Acquire is a locked read-modify-write of
    the mutex word (runs on an empty buffer, needs the word free in memory); Release is a locked store
    ([lr = true], Go's atomic.StoreUint32 on amd64) or a plain buffered store ([lr = false]).
    [tdisciplined] is the lock discipline the skeleton checker establishes for AllocFrame / FreeFrame
    ([C09_alloc_paths_disciplined], [C09_free_paths_disciplined]): loads and stores only between Acquire
    and Release, calls complete outside.  [sc_code] is the same program read over the interleaving
    semantics of Sync/Serial.v (memory as the shared state). *)
From Coq Require Import List Bool.
From FF Require Import Sync.Serial Sync.SerialProofs Sync.SerialTso Sync.SerialTsoProofs.
Import ListNotations.

(** Every TSO run of a disciplined program - any number of tasks, any schedule of program steps and
    buffer flushes, either flavour of Release - is matched by a run of the same program under
    interleaving semantics: same results in the same order, same local states, and the shared state of
    the interleaving run is memory as the current owner of the mutex sees it through its store buffer
    ([tsim]); nobody but the owner (or the last releaser, until its store of "free" lands) has anything
    buffered. *)
Theorem C09_tso_refines_interleaving :
  forall (V L R : Type) (code : L -> @taction V L R) (holds : L -> bool),
    tdisciplined code holds ->
    forall (lr : bool) (g0 g : @tst V L R), tinitial holds g0 -> tstar code lr g0 g ->
      exists c, star (cstep (sc_code code)) (sc_of g0) c /\ lockinv holds c /\ tsim holds g c.
Proof. exact @tso_refines_interleaving. Qed.
Print Assumptions C09_tso_refines_interleaving.

(** ... and therefore ([C09_serializable]) by a SERIAL execution in which every critical section runs
    atomically, in the order of the Acquires. *)
Theorem C09_tso_serializable :
  forall (V L R : Type) (code : L -> @taction V L R) (holds : L -> bool),
    tdisciplined code holds ->
    forall (lr : bool) (g0 g : @tst V L R), tinitial holds g0 -> tstar code lr g0 g ->
      exists c s', star (cstep (sc_code code)) (sc_of g0) c /\ tsim holds g c /\
                   star (sstep (sc_code code) holds) (sc_of g0) s' /\ sim (sc_code code) c s'.
Proof. exact @tso_serializable. Qed.
Print Assumptions C09_tso_serializable.

(** Whenever the mutex word is free in memory every store buffer is empty, and memory, the callers'
    local states and the results in their order are exactly those of the serial execution: no frame is
    duplicated or lost by store buffering. *)
Theorem C09_tso_serializable_quiescent :
  forall (V L R : Type) (code : L -> @taction V L R) (holds : L -> bool),
    tdisciplined code holds ->
    forall (lr : bool) (g0 g : @tst V L R), tinitial holds g0 -> tstar code lr g0 g -> tlock g = None ->
      (forall u, tbuf g u = []) /\
      exists s', star (sstep (sc_code code) holds) (sc_of g0) s' /\ thist g = hist s' /\ tmem g = sh s' /\
                 forall u, tloc g u = loc s' u.
Proof. exact @tso_serializable_quiescent. Qed.
Print Assumptions C09_tso_serializable_quiescent.

(** At most one task is inside a critical section, under TSO too. *)
Theorem C09_tso_one_inside :
  forall (V L R : Type) (code : L -> @taction V L R) (holds : L -> bool),
    tdisciplined code holds ->
    forall (lr : bool) (g0 g : @tst V L R) t u, tinitial holds g0 -> tstar code lr g0 g ->
      holds (tloc g t) = true -> holds (tloc g u) = true -> t = u.
Proof. exact @tso_one_inside. Qed.
Print Assumptions C09_tso_one_inside.

(** The discipline on loads and stores is the discipline of Sync/Serial.v for the program read over
    interleaving semantics. *)
Theorem C09_tso_discipline_transfers :
  forall (V L R : Type) (code : L -> @taction V L R) (holds : L -> bool),
    tdisciplined code holds -> disciplined (sc_code code) holds.
Proof. exact @sc_disciplined. Qed.
Print Assumptions C09_tso_discipline_transfers.
