(** Non-vacuity for Props/C09_tso.v: a disciplined program (increment of a shared cell under the
    mutex) and a TSO run on which store buffering is visible. *)
From Coq Require Import List Bool Arith.
From FF Require Import Sync.Serial Sync.SerialTso Sync.SerialTsoProofs.
Import ListNotations.

Definition LL : Type := (nat * nat)%type.     (* (program counter, register) *)

Definition inc_code (l : LL) : @taction nat LL unit :=
  match fst l with
  | 0 => TAcq (1, 0)
  | 1 => TLoad 0 (fun v => (2, v))
  | 2 => TStore 0 (snd l + 1) (3, 0)
  | 3 => TRel (4, 0)
  | 4 => TDone tt (5, 0)
  | _ => TStop
  end.

Definition inc_holds (l : LL) : bool := match fst l with 1 | 2 | 3 => true | _ => false end.

Example C09_tso_discipline_nonvacuous : tdisciplined inc_code inc_holds.
Proof.
  constructor; intros [pc r]; unfold inc_code, inc_holds; cbn [fst snd];
    destruct pc as [|[|[|[|[|pc]]]]]; intros; try discriminate;
    repeat match goal with H : _ = _ |- _ => injection H as H end; subst; cbn; auto.
Qed.

Definition g_init : @tst nat LL unit :=
  {| tmem := fun _ => 0; tlock := None; tloc := fun _ => (0, 0); tbuf := fun _ => []; thist := [] |}.

Example C09_tso_initial_nonvacuous : tinitial inc_holds g_init.
Proof. repeat split. Qed.

(** task 0: Acquire, load, store, plain Release - the incremented value and the releasing store are
    still in its buffer, memory is unchanged and the mutex word is still taken *)
Example C09_tso_buffered_run_nonvacuous :
  exists g, tstar inc_code false g_init g /\
            tmem g 0 = 0 /\ tbuf g 0 = [BW 0 1; BUnlock] /\ tlock g = Some 0 /\ tloc g 0 = (4, 0).
Proof.
  eexists. split.
  - eapply tstar_step. eapply tstar_step. eapply tstar_step. eapply tstar_step. apply tstar_refl.
    + apply (TSAcq inc_code false g_init 0 (1, 0)); reflexivity.
    + eapply (TSLoad inc_code false _ 0 0 (fun v => (2, v))). reflexivity.
    + eapply (TSStore inc_code false _ 0 0 1 (3, 0)). reflexivity.
    + eapply (TSRelPlain inc_code false _ 0 (4, 0)); reflexivity.
  - cbn. auto.
Qed.
