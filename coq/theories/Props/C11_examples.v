(** Non-vacuity for C11. *)
From Coq Require Import NArith List Lia.
From FF Require Import Lib.Word Gen.Consts_device_acpi_aml Aml.Stream Aml.Lex Aml.LexProofs Aml.Grammar Aml.LexRoundtrip Aml.WfProgram Aml.C11Witness.
Import ListNotations.
Local Open Scope N_scope.

(** the opcode values used by the grammar are the ones of the current parser_opcode_table.go *)
Example C11_opcodes_match :
  [OP_BYTE; OP_WORD; OP_DWORD; OP_QWORD; OP_STRING; OP_SCOPE; OP_BUFFER; OP_PACKAGE; OP_METHOD; OP_NAME; OP_IF; OP_ELSE; OP_WHILE; OP_NOOP;
   OP_MUTEX; OP_EVENT; OP_OPREGION; OP_FIELD; OP_DEVICE; OP_PROCESSOR; OP_POWERRES; OP_THERMAL; OP_INDEXFIELD; OP_BANKFIELD;
   OP_SCOPEBLOCK; OP_BYTELIST; OP_CONNECTION; OP_NAMEDFIELD] =
  [aml_pOpBytePrefix; aml_pOpWordPrefix; aml_pOpDwordPrefix; aml_pOpQwordPrefix; aml_pOpStringPrefix; aml_pOpScope; aml_pOpBuffer; aml_pOpPackage;
   aml_pOpMethod; aml_pOpName; aml_pOpIf; aml_pOpElse; aml_pOpWhile; aml_pOpNoop;
   aml_pOpMutex; aml_pOpEvent; aml_pOpOpRegion; aml_pOpField; aml_pOpDevice; aml_pOpProcessor; aml_pOpPowerRes; aml_pOpThermalZone; aml_pOpIndexField; aml_pOpBankField;
   aml_pOpIntScopeBlock; aml_pOpIntByteList; aml_pOpIntConnection; aml_pOpIntNamedField].
Proof. reflexivity. Qed.

(** a reader in front of a token *)
Definition ex_tok : list N := enc_pkglen 3 0x12345.
Definition ex_r : reader := setOffset (init_reader ([0x10] ++ ex_tok ++ [0x5c; 0x00]) 0) 1.

Example C11_at_token_nonvacuous : at_token ex_r [0x10] ex_tok [0x5c; 0x00] /\ pkglen_admissible 3 0x12345.
Proof.
  split.
  - constructor; try reflexivity.
    + vm_compute. discriminate.
    + unfold reader_wf. vm_compute. repeat split; try discriminate. repeat constructor.
  - right; right; left. split; [reflexivity|]. vm_compute. reflexivity.
Qed.

Example C11_pkglen_example : parsePkgLength ex_r = Ok (0x12345, true, set_offset_raw ex_r 4).
Proof. vm_compute. reflexivity. Qed.

Example C11_wf_name_nonvacuous :
  wf_name (mkName true 2 false [seg4 0x5f 0x53 0x42 0x5f; seg4 0x50 0x43 0x49 0x30; seg4 0x49 0x53 0x41 0x5f]) /\
  wf_name (mkName false 0 false [seg4 0x5f 0x41 0x44 0x52]) /\ valid_opcode aml_pOpDevice /\ valid_opcode aml_pOpAdd.
Proof.
  split; [|split; [|split]].
  - split; [vm_compute; reflexivity|exact I].
  - split; [vm_compute; reflexivity|]. right. right. reflexivity.
  - split; [vm_compute; discriminate|]. eexists. split; [reflexivity|discriminate].
  - split; [vm_compute; discriminate|]. eexists. split; [reflexivity|discriminate].
Qed.

(** the statement of C11 holds on a program with scopes, a device, a forward call with an operator argument, a region
    with fields, a package and a buffer *)
Example C11_parse_encode_example : wf_program good_program = true /\ parse_encode_statement good_program.
Proof. exact good_program_ok. Qed.

(** the null target has ONE spelling.  In a Target / SuperName / SimpleName position the byte 00 is the NullName ([ANull]): the
    parser creates no argument for it and [ns] does not count it.  [AConst Zero] in such a position encodes to the very
    same bytes; [ns] would count it as an argument and the view (which drops it) would disagree - not a parser defect but
    a second spelling of the same table, so [wf_program] rejects it ([targets_ok] in Aml/WfProgram.v).  In a TermArg position
    Zero is an ordinary constant. *)
Definition null_target_spelled_null : list (list ast) :=
  [[AMethod 1 (mkName false 0 false [seg4 0x4d 0x54 0x48 0x30]) 0 [AOp aml_pOpAdd [AConst OP_BYTE 5; AConst aml_pOpZero 0; ANull]]]].
Definition null_target_spelled_zero : list (list ast) :=
  [[AMethod 1 (mkName false 0 false [seg4 0x4d 0x54 0x48 0x30]) 0 [AOp aml_pOpAdd [AConst OP_BYTE 5; AConst aml_pOpZero 0; AConst aml_pOpZero 0]]]].
Example C11_null_target_one_spelling :
  map encode_table null_target_spelled_null = map encode_table null_target_spelled_zero /\
  wf_program null_target_spelled_null = true /\ parse_encode_statement null_target_spelled_null /\
  wf_program null_target_spelled_zero = false /\ ns null_target_spelled_zero <> ns null_target_spelled_null /\
  wf_program [[AMethod 1 (mkName false 0 false [seg4 0x4d 0x54 0x48 0x30]) 0 [AOp aml_pOpStore [AConst OP_BYTE 5; AConst aml_pOpZero 0]]]] = false /\
  wf_program [[AMethod 1 (mkName false 0 false [seg4 0x4d 0x54 0x48 0x30]) 0 [AOp aml_pOpStore [AConst aml_pOpZero 0; AOp aml_pOpLocal0 []]]]] = true.
Proof. vm_compute. repeat split; try reflexivity. discriminate. Qed.
