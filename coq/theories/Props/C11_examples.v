(** Non-vacuity for C11. *)
From Coq Require Import NArith List Lia.
From FF Require Import Lib.Word Gen.Consts_device_acpi_aml Aml.Stream Aml.Lex Aml.LexProofs Aml.Grammar Aml.LexRoundtrip Aml.WfProgram Aml.C11Witness.
Import ListNotations.
Local Open Scope N_scope.

(** the opcode values used by the grammar are the ones of the current parser_opcode_table.go *)
Example C11_opcodes_match :
  [OP_BYTE; OP_WORD; OP_DWORD; OP_QWORD; OP_STRING; OP_SCOPE; OP_BUFFER; OP_PACKAGE; OP_METHOD; OP_NAME; OP_IF; OP_ELSE; OP_WHILE; OP_NOOP;
   OP_MUTEX; OP_EVENT; OP_OPREGION; OP_FIELD; OP_DEVICE; OP_PROCESSOR; OP_POWERRES; OP_THERMAL; OP_INDEXFIELD; OP_BANKFIELD;
   OP_SCOPEBLOCK; OP_BYTELIST; OP_CONNECTION; OP_NAMEDFIELD] =
  [aml_pOpBytePrefix; aml_pOpWordPrefix; aml_pOpDwordPrefix; aml_pOpQwordPrefix; aml_pOpStringPrefix; aml_pOpScope; aml_pOpBuffer; aml_pOpPackage;
   aml_pOpMethod; aml_pOpName; aml_pOpIf; aml_pOpElse; aml_pOpWhile; aml_pOpNoop;
   aml_pOpMutex; aml_pOpEvent; aml_pOpOpRegion; aml_pOpField; aml_pOpDevice; aml_pOpProcessor; aml_pOpPowerRes; aml_pOpThermalZone; aml_pOpIndexField; aml_pOpBankField;
   aml_pOpIntScopeBlock; aml_pOpIntByteList; aml_pOpIntConnection; aml_pOpIntNamedField].
Proof. reflexivity. Qed.

(** a reader in front of a token *)
Definition ex_tok : list N := enc_pkglen 3 0x12345.
Definition ex_r : reader := setOffset (init_reader ([0x10] ++ ex_tok ++ [0x5c; 0x00]) 0) 1.

Example C11_at_token_nonvacuous : at_token ex_r [0x10] ex_tok [0x5c; 0x00] /\ pkglen_admissible 3 0x12345.
Proof.
  split.
  - constructor; try reflexivity.
    + vm_compute. discriminate.
    + unfold reader_wf. vm_compute. repeat split; try discriminate. repeat constructor.
  - right; right; left. split; [reflexivity|]. vm_compute. reflexivity.
Qed.

Example C11_pkglen_example : parsePkgLength ex_r = Ok (0x12345, true, set_offset_raw ex_r 4).
Proof. vm_compute. reflexivity. Qed.

Example C11_wf_name_nonvacuous :
  wf_name (mkName true 2 false [seg4 0x5f 0x53 0x42 0x5f; seg4 0x50 0x43 0x49 0x30; seg4 0x49 0x53 0x41 0x5f]) /\
  wf_name (mkName false 0 false [seg4 0x5f 0x41 0x44 0x52]) /\ valid_opcode aml_pOpDevice /\ valid_opcode aml_pOpAdd.
Proof.
  split; [|split; [|split]].
  - split; [vm_compute; reflexivity|exact I].
  - split; [vm_compute; reflexivity|]. right. right. reflexivity.
  - split; [vm_compute; discriminate|]. eexists. split; [reflexivity|discriminate].
  - split; [vm_compute; discriminate|]. eexists. split; [reflexivity|discriminate].
Qed.

(** the statement of C11 holds on a program with scopes, a device, a forward call with an operator argument, a region
    with fields, a package and a buffer *)
Example C11_parse_encode_example : wf_program good_program = true /\ parse_encode_statement good_program.
Proof. exact good_program_ok. Qed.

(** the null target has ONE spelling.  In a Target / SuperName / SimpleName position the byte 00 is the NullName ([ANull]): the
    parser creates no argument for it and [ns] does not count it.  [AConst Zero] in such a position encodes to the very
    same bytes; [ns] would count it as an argument and the view (which drops it) would disagree - not a parser defect but
    a second spelling of the same table, so [wf_program] rejects it ([targets_ok] in Aml/WfProgram.v).  In a TermArg position
    Zero is an ordinary constant. *)
Definition null_target_spelled_null : list (list ast) :=
  [[AMethod 1 (mkName false 0 false [seg4 0x4d 0x54 0x48 0x30]) 0 [AOp aml_pOpAdd [AConst OP_BYTE 5; AConst aml_pOpZero 0; ANull]]]].
Definition null_target_spelled_zero : list (list ast) :=
  [[AMethod 1 (mkName false 0 false [seg4 0x4d 0x54 0x48 0x30]) 0 [AOp aml_pOpAdd [AConst OP_BYTE 5; AConst aml_pOpZero 0; AConst aml_pOpZero 0]]]].
Example C11_null_target_one_spelling :
  map encode_table null_target_spelled_null = map encode_table null_target_spelled_zero /\
  wf_program null_target_spelled_null = true /\ parse_encode_statement null_target_spelled_null /\
  wf_program null_target_spelled_zero = false /\ ns null_target_spelled_zero <> ns null_target_spelled_null /\
  wf_program [[AMethod 1 (mkName false 0 false [seg4 0x4d 0x54 0x48 0x30]) 0 [AOp aml_pOpStore [AConst OP_BYTE 5; AConst aml_pOpZero 0]]]] = false /\
  wf_program [[AMethod 1 (mkName false 0 false [seg4 0x4d 0x54 0x48 0x30]) 0 [AOp aml_pOpStore [AConst aml_pOpZero 0; AOp aml_pOpLocal0 []]]]] = true.
Proof. vm_compute. repeat split; try reflexivity. discriminate. Qed.

(** ... and conversely [ANull] is the NullName, not an expression: as the operand of Return (a TermArg) or as the value of a
    Name the byte 00 is the constant Zero (the parser builds a Zero object, the view lists it; [ns] would drop an [ANull] or
    render it as "not an expression"), so [wf_program] accepts it only in the Target / SuperName / SimpleName positions of an
    operator. *)
Example C11_null_only_in_target_positions :
  wf_program [[AMethod 1 (mkName false 0 false [seg4 0x4d 0x54 0x48 0x30]) 0 [AOp aml_pOpReturn [ANull]]]] = false /\
  wf_program [[AName (mkName false 0 false [seg4 0x41 0x42 0x43 0x44]) ANull]] = false /\
  wf_program [[AName (mkName false 0 false [seg4 0x41 0x42 0x43 0x44]) (APackage 1 1 [ANull])]] = false /\
  wf_program [[AMethod 1 (mkName false 0 false [seg4 0x4d 0x54 0x48 0x30]) 0 [AOp aml_pOpReturn [AConst aml_pOpZero 0]]]] = true /\
  wf_program [[AMethod 1 (mkName false 0 false [seg4 0x4d 0x54 0x48 0x30]) 0 [AOp 0x78 [AConst OP_BYTE 5; AConst aml_pOpOne 0; ANull; AOp aml_pOpLocal0 []]]]] = true.
Proof. vm_compute. repeat split. Qed.

(** the statement of C11 on the statement shapes that are NOT yet inside a proved fragment (candidates for a fragment F10):
    Local / Arg objects as operands, operators with a Target that is null or a Local, operators whose first argument is a
    SuperName (parsed by parseTarget already in the first pass), nested operator expressions - the faithful model builds the
    specification's namespace on each of them (by computation; no known finding is touched) *)
Definition f10_M (argc : N) (body : list ast) : list (list ast) := [[AMethod 1 (mkName false 0 false [seg4 0x4d 0x54 0x48 0x30]) argc body]].
Definition f10_shapes : list (list (list ast)) :=
  let L n := AOp (0x60 + n) [] in let A n := AOp (0x68 + n) [] in let c5 := AConst OP_BYTE 5 in
  [ f10_M 0 [AOp aml_pOpReturn [L 0]];
    f10_M 2 [AOp 0x93 [A 0; c5]];
    f10_M 0 [AOp aml_pOpStore [c5; L 0]];
    f10_M 1 [AOp aml_pOpStore [A 0; L 7]];
    f10_M 0 [AOp aml_pOpAdd [AConst aml_pOpOne 0; AConst OP_BYTE 2; L 1]];
    f10_M 0 [AOp aml_pOpAdd [AConst aml_pOpOne 0; AConst OP_BYTE 2; ANull]];
    f10_M 0 [AOp 0x75 [L 0]];
    f10_M 0 [AOp 0x76 [L 3]];
    f10_M 0 [AOp 0x80 [c5; ANull]];
    f10_M 0 [AOp 0x78 [c5; AConst aml_pOpOne 0; ANull; L 2]];
    f10_M 0 [AOp aml_pOpStore [c5; L 0]; AOp 0x75 [L 0]; AOp aml_pOpReturn [L 0]];
    f10_M 0 [AOp aml_pOpReturn [AOp aml_pOpAdd [L 0; c5; ANull]]];
    f10_M 0 [AOp aml_pOpStore [AOp aml_pOpAdd [c5; c5; ANull]; L 0]];
    f10_M 0 [AOp 0x86 [L 0; c5]];
    f10_M 0 [AOp 0x9d [c5; L 0]];
    [[ADevice 1 (mkName false 0 false [seg4 0x44 0x45 0x56 0x30]) [AOp aml_pOpStore [c5; L 0]]]] ].
Example C11_parse_encode_F10_shapes : forallb wf_program f10_shapes = true /\ Forall parse_encode_statement f10_shapes.
Proof. split; [vm_compute; reflexivity|]. repeat (constructor; [vm_compute; reflexivity|]). constructor. Qed.
