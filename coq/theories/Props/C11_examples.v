From Coq Require Import NArith List.
From FF Require Import Lib.Word Gen.Consts_device_acpi_aml Aml.Stream Aml.Lex Aml.Grammar.
Import ListNotations.
Local Open Scope N_scope.

(** the opcode values used by the grammar are the ones of the current parser_opcode_table.go *)
Example C11_opcodes_match :
  [OP_BYTE; OP_WORD; OP_DWORD; OP_QWORD; OP_STRING; OP_SCOPE; OP_BUFFER; OP_PACKAGE; OP_METHOD; OP_NAME; OP_IF; OP_ELSE; OP_WHILE; OP_NOOP;
   OP_MUTEX; OP_EVENT; OP_OPREGION; OP_FIELD; OP_DEVICE; OP_PROCESSOR; OP_POWERRES; OP_THERMAL; OP_INDEXFIELD; OP_BANKFIELD;
   OP_SCOPEBLOCK; OP_BYTELIST; OP_CONNECTION; OP_NAMEDFIELD] =
  [aml_pOpBytePrefix; aml_pOpWordPrefix; aml_pOpDwordPrefix; aml_pOpQwordPrefix; aml_pOpStringPrefix; aml_pOpScope; aml_pOpBuffer; aml_pOpPackage;
   aml_pOpMethod; aml_pOpName; aml_pOpIf; aml_pOpElse; aml_pOpWhile; aml_pOpNoop;
   aml_pOpMutex; aml_pOpEvent; aml_pOpOpRegion; aml_pOpField; aml_pOpDevice; aml_pOpProcessor; aml_pOpPowerRes; aml_pOpThermalZone; aml_pOpIndexField; aml_pOpBankField;
   aml_pOpIntScopeBlock; aml_pOpIntByteList; aml_pOpIntConnection; aml_pOpIntNamedField].
Proof. reflexivity. Qed.
