(** C16 — device bring-up: ordered probing, first console/TTY win, no boot log lost.
    Statements only; proofs are in Kfmt/RingProofs.v and Hal/HalProofs.v.
    Models: Kfmt/Ring.v (ringBuffer.Write/Read, the io.Copy drain of SetOutputSink), Kfmt/Prefix.v
    (PrefixWriter.Write), Hal/Model.v (DetectHardware/probe/onDriverInit/onConsoleInit/
    linkTTYToConsole, Printf, SetOutputSink) on top of Kfmt/Fmt.v; Hal/Spec.v is the sink-agnostic
    description of what is logged and who becomes active. *)
From Coq Require Import NArith ZArith List Permutation Sorted.
From FF Require Import Lib.Word Gen.Consts_kfmt Gen.Hal_strings Kfmt.Fmt Kfmt.Ring Kfmt.RingProofs Kfmt.Prefix Kfmt.PrefixProofs Hal.Model Hal.Spec Hal.HalProofs.
Import ListNotations.
Local Open Scope N_scope.

(** The early buffer is a FIFO that overwrites its oldest bytes: starting from any consistent ring
    (indices below ringBufferSize) holding [contents rb], after any sequence of Write calls the
    io.Copy drain of SetOutputSink delivers exactly the newest [capacity = ringBufferSize-1] bytes of
    (what it held ++ everything written), in order; no step panics or runs out of fuel; afterwards the
    ring is empty and a second drain delivers nothing (each byte is handed over exactly once). *)
Theorem C16_ring_fifo :
  forall (rb : ring) (writes : list (list N)), valid rb ->
    exists rb1 cs rb2,
      ring_writes rb writes = Ok rb1 /\
      drain drain_fuel rb1 = Ok (cs, rb2) /\
      concat cs = lastn capacity (contents rb ++ concat writes) /\
      valid rb2 /\ contents rb2 = [] /\ drain drain_fuel rb2 = Ok ([], rb2).
Proof. exact ring_fifo_any. Qed.
Print Assumptions C16_ring_fifo.

(** the kernel's buffer starts empty and consistent, and its capacity is ringBufferSize-1 *)
Theorem C16_ring_boot : valid empty_ring /\ contents empty_ring = [] /\ capacity = N.to_nat (kfmt_ringBufferSize - 1).
Proof. exact ring_boot. Qed.
Print Assumptions C16_ring_boot.

(** Probing follows the sorted list: whatever the registration order, if [sorted_list] is what
    sort.Sort leaves — a permutation of the registered drivers in non-decreasing detection order
    (both hypotheses are checked by the harness on every observed run) — then every registered driver
    is probed exactly once, in non-decreasing detection order, DriverInit is called exactly for the
    drivers whose probe found hardware, in that order, and bring-up returns normally. *)
Theorem C16_probe_order :
  forall (logo_off : bool) (registered sorted_list : list driver) (pre post : list logop),
    Permutation registered sorted_list ->
    Sorted (fun a b => (d_order a <= d_order b)%Z) sorted_list ->
    exists st probed,
      scenario pre sorted_list post (set_logo_off init_hal logo_off) = Ok st /\
      probes (h_trace st) = map d_id probed /\
      Permutation registered probed /\
      Sorted (fun a b => (d_order a <= d_order b)%Z) probed /\
      inits (h_trace st) = map d_id (filter (fun d => is_some (d_probe d)) probed).
Proof. exact probe_order. Qed.
Print Assumptions C16_probe_order.

(** Bring-up, for every amount and chunking of log output before and after, every driver list (consoles
    with or without font / logo support) and either setting of consoleLogo on the boot command line:
    the run returns normally (no panic, in particular linkTTYToConsole never meets a nil device) and
    - the active console / terminal are the first console / first terminal (in probe order) whose
      initialisation succeeded; activeDrivers are exactly the drivers that initialised successfully;
    - if both exist: the terminal was attached to that console (once), set active (once), is the
      output sink, the early buffer is empty, no other terminal received anything, and the bytes it
      received are  newest-[capacity](everything logged before the pair was complete) ++ everything
      logged afterwards  — each early byte exactly once, in order, ahead of later output;
    - otherwise no terminal was touched, the sink is still the early buffer and it holds the newest
      [capacity] bytes of everything logged.
    "Everything logged" ([a_early]/[a_later] of Hal/Spec.v) is the output of the Printf calls and, per
    detected driver, its init output and the "initialized" / "init failed: <message>" line, each line
    prefixed by the PrefixWriter model. *)
Theorem C16_bringup :
  forall (logo_off : bool) (pre : list logop) (sorted_list : list driver) (post : list logop),
    exists st a,
      scenario pre sorted_list post (set_logo_off init_hal logo_off) = Ok st /\
      abs_scenario pre sorted_list post init_abs = Ok a /\
      h_console st = first_id is_console sorted_list /\
      h_tty st = first_id is_tty sorted_list /\
      h_active st = map d_id (filter init_ok sorted_list) /\
      match h_console st, h_tty st with
      | Some c, Some t =>
          h_sink st = STTY t /\ contents (h_ring st) = [] /\
          tty_bytes t (h_trace st) = lastn capacity (a_early a) ++ a_later a /\
          other_tty_bytes (Some t) (h_trace st) = [] /\
          attaches (h_trace st) = [(t, c)] /\ states (h_trace st) = [(t, 1)]
      | _, _ =>
          h_sink st = SRing /\ contents (h_ring st) = lastn capacity (a_early a) /\ a_later a = [] /\
          other_tty_bytes None (h_trace st) = [] /\ attaches (h_trace st) = [] /\ states (h_trace st) = []
      end.
Proof. exact bringup_full. Qed.
Print Assumptions C16_bringup.

(** A driver whose probe finds nothing or whose initialisation fails never becomes active: it is not
    in activeDrivers and is neither the active console nor the active terminal. *)
Theorem C16_failed_never_active :
  forall (logo_off : bool) (pre : list logop) (sorted_list : list driver) (post : list logop) (st : hal) (d : driver),
    NoDup (map d_id sorted_list) -> In d sorted_list -> init_ok d = false ->
    scenario pre sorted_list post (set_logo_off init_hal logo_off) = Ok st ->
    ~ In (d_id d) (h_active st) /\ h_console st <> Some (d_id d) /\ h_tty st <> Some (d_id d).
Proof. exact failed_never_active_full. Qed.
Print Assumptions C16_failed_never_active.

(** The PrefixWriter: whatever sequence of Write calls carries a text (any chunking, empty writes,
    chunks ending in the middle of a line, the bytesAfterPrefix state carried from earlier calls),
    the sink receives the text with the prefix in front of the first byte of every line, and the
    writer ends "at the beginning of a line" exactly when the text ended with a newline. *)
Theorem C16_prefix_stream :
  forall (prefix : list N) (writes : list (list N)) (bap : N),
    concat (fst (prefix_writes prefix bap writes)) = inject prefix (bap =? 0) (concat writes) /\
    (snd (prefix_writes prefix bap writes) =? 0) = ends_line (bap =? 0) (concat writes).
Proof. exact prefix_writes_spec. Qed.
Print Assumptions C16_prefix_stream.

(** A driver whose initialisation fails is reported on the log: what its processing adds to the log is,
    prefixed per line with Fprintf("[hal] %s(%d.%d.%d): ", name, version), its own init output followed
    by Fprintf(<the failure format of probe()>, message); it is added to the early or the later part of
    the log and nothing else changes (the format strings are regenerated from hal.go; with today's
    strings the line reads "[hal] x(1.2.3): init failed: boom", see C16_examples). *)
Theorem C16_failed_reported :
  forall (d : driver) (p : probed) (msg : list N) (a : abs) (bap : N),
    d_probe d = Some p -> p_init_err p = Some msg -> length (a_numbuf a) = N.to_nat kfmt_numFmtBufLen ->
    exists prefix status nb nb1 bap',
      written (fprintf hal_prefixFmt [AStr (p_name p); AInt U16 (p_major p); AInt U16 (p_minor p); AInt U16 (p_patch p)] (a_numbuf a)) = Ok prefix /\
      written (fprintf hal_failFmt [AStr msg] nb1) = Ok status /\
      abs_probe_one d a bap =
        Ok (abs_log (abs_numbuf a nb) (inject prefix (bap =? 0) (concat (p_log p) ++ status)), bap').
Proof. exact failed_reported. Qed.
Print Assumptions C16_failed_reported.
