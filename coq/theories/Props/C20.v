(** C20 — the kernel build finds every runtime redirect, exactly once, reproducibly.
    Statements only; every proof is [exact <lemma from Kbuild/Proofs.v>].
    The model (Kbuild/Model.v) is the repaired FindRedirects: a function of the source tree (list of
    files in walk order, each with its parsed declarations), so the same tree always gives the same
    table; what the theorems add is WHICH table. *)
From Coq Require Import NArith List Sorted Permutation.
From FF Require Import Gen.Consts_kbuild Kbuild.Model Kbuild.Proofs Kbuild.Baseline Kbuild.BaselineProofs.
Import ListNotations.
Local Open Scope N_scope.

(** complete + sound: an entry (src, dst) is in the table iff some non-test .go file has a FUNCTION
    declaration one of whose doc-comment lines starts with the directive; src is the rest of that
    line with surrounding white space removed, dst is <prefix>/<dir>.<Name>. *)
Theorem C20_complete_sound :
  forall (t : tree) (e : redirect),
    In e (find_redirects t) <->
    exists f d line,
      In f t /\ is_source (f_name f) = true /\ In d (f_decls f) /\ d_kind d = KFunc /\
      In line (d_doc d) /\ has_prefix kbuild_redirectComment line = true /\
      fst e = trim_space (skipn (length kbuild_redirectComment) line) /\
      snd e = pkg_path (f_dir f) ++ dot :: d_name d.
Proof. exact table_sound_complete. Qed.
Print Assumptions C20_complete_sound.

(** exactly once: the table positions are in bijection with the annotation sites
    (file index, declaration index, doc-line index): every site contributes one entry, no site two
    (several annotations on one function are several sites and give several entries). *)
Theorem C20_exactly_once :
  forall t : tree,
    exists ss : list (site * redirect),
      map snd ss = find_redirects t /\
      NoDup (map fst ss) /\
      (forall s e, In (s, e) ss <-> is_site t s e).
Proof. exact table_exactly_once. Qed.
Print Assumptions C20_exactly_once.

(** ordered: moreover the entries appear in (file, declaration, line) order — the order is a
    function of the tree alone. *)
Theorem C20_ordered :
  forall t : tree,
    exists ss : list (site * redirect),
      map snd ss = find_redirects t /\
      StronglySorted lex_lt (map fst ss) /\
      (forall s e, In (s, e) ss <-> is_site t s e).
Proof. exact table_ordered. Qed.
Print Assumptions C20_ordered.

(** the number of entries is the number of annotation lines on functions of source files *)
Theorem C20_table_length :
  forall t : tree, length (find_redirects t) = count_tree t.
Proof. exact table_length. Qed.
Print Assumptions C20_table_length.

(** a function with n annotation lines gives n entries, in line order, all naming that function *)
Theorem C20_several_annotations :
  forall pkg d, d_kind d = KFunc ->
    redirects_of_decl pkg d =
      map (fun line => (trim_space (skipn (length kbuild_redirectComment) line), pkg ++ dot :: d_name d))
          (filter (has_prefix kbuild_redirectComment) (d_doc d)).
Proof. exact decl_entries. Qed.
Print Assumptions C20_several_annotations.

(** nothing else: deleting every test / non-.go file, every non-function declaration, every doc line
    that is not an annotation, every other comment (bodies, detached, on specs) and the layout leaves
    the table unchanged. *)
Theorem C20_nothing_else :
  forall t : tree, find_redirects (strip_tree t) = find_redirects t.
Proof. exact table_ignores_the_rest. Qed.
Print Assumptions C20_nothing_else.

(** the file filter: exactly the names ending in ".go" but not in "_test.go" *)
Theorem C20_source_files :
  forall name, is_source name = true <-> (exists r, name = r ++ ext_go) /\ ~ (exists r, name = r ++ suffix_test).
Proof. exact is_source_spec. Qed.
Print Assumptions C20_source_files.

(** the text functions mean what their names say *)
Theorem C20_has_prefix : forall p s, has_prefix p s = true <-> exists r, s = p ++ r.
Proof. exact has_prefix_spec. Qed.
Print Assumptions C20_has_prefix.

Theorem C20_trim_space :
  forall s, exists a b, s = a ++ trim_space s ++ b /\ all_space a /\ all_space b /\
    (match trim_space s with [] => True | c :: _ => is_space c = false end) /\
    (match rev (trim_space s) with [] => True | c :: _ => is_space c = false end).
Proof. exact trim_space_spec. Qed.
Print Assumptions C20_trim_space.

(** ---- the code before the repair (5ad9c86), for the record ----
    It visited a file's declarations in Go-map order, modelled as an arbitrary permutation [sigma] of
    the declarations chosen anew on every run (Kbuild/Baseline.v).  The content of its table was
    right for every sigma ... *)
Theorem C20_baseline_content :
  forall (sigma : list decl -> list decl) (t : tree),
    (forall ds, Permutation (sigma ds) ds) ->
    Permutation (find_redirects_baseline sigma t) (find_redirects t).
Proof. exact baseline_content. Qed.
Print Assumptions C20_baseline_content.

(** ... but two runs (two sigmas) could give different tables: "same table in the same order" was false;
    the repaired code is [find_redirects_baseline] with sigma = identity, i.e. [find_redirects]. *)
Theorem C20_baseline_order_refuted :
  exists (t : tree) (s1 s2 : list decl -> list decl),
    (forall ds, Permutation (s1 ds) ds) /\ (forall ds, Permutation (s2 ds) ds) /\
    find_redirects_baseline s1 t <> find_redirects_baseline s2 t.
Proof. exact baseline_order_refuted. Qed.
Print Assumptions C20_baseline_order_refuted.
