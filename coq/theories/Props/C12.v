(** C12 — malformed AML is rejected with an error, never a crash, hang or stray pointer.
    Statements only. *)
From Coq Require Import NArith List.
From FF Require Import Lib.Word Gen.Consts_device_acpi_aml Aml.Stream Aml.Lex.
Import ListNotations.
Local Open Scope N_scope.

Theorem C12_placeholder_readByte_window :
  forall r b r', readByte r = Ok (Some b, r') -> r_offset r < r_pkgEnd r.
Proof.
  intros r b r'. unfold readByte, eof. destruct (r_pkgEnd r <=? r_offset r) eqn:E; [discriminate|].
  intros _. apply N.leb_gt in E. exact E.
Qed.
Print Assumptions C12_placeholder_readByte_window.
