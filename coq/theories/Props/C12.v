(** C12 — malformed AML is rejected with an error, never a crash, hang or stray pointer.
    Statements only; every proof is [exact <lemma>] (Aml/LexProofs.v). *)
From Coq Require Import NArith List.
From FF Require Import Lib.Word Gen.Consts_device_acpi_aml Aml.Stream Aml.Lex Aml.LexProofs.
Import ListNotations.
Local Open Scope N_scope.

(** [reader_safe] (layers 1-2, full).  For every reader that satisfies the invariant [reader_wf] (cached length =
    length of the table, pkgEnd <= length < 2^32, elements are bytes) and every second reader [r'] that has the same
    length, offset and pkgEnd and the same bytes BELOW pkgEnd ([sim]): each lexer function returns on both (no Go
    panic, no exhausted fuel), with equal values and equal resulting offsets, and leaves data, length and pkgEnd
    untouched ([same_window]).  So no byte at an index >= pkgEnd (<= length) influences any result: every byte read
    by the lexer lies below pkgEnd. *)
Theorem C12_reader_safe :
  safe2 parsePkgLength /\ (forall k, safe2 (parseNumConstant k)) /\ safe2 parseString /\ safe2 parseNameString /\
  safe2 nextOpcode /\ safe2 peekNextOpcode.
Proof. exact reader_safe. Qed.
Print Assumptions C12_reader_safe.

(** the primitive: a byte is only ever delivered from an index below pkgEnd *)
Theorem C12_readByte_window : forall r, reader_wf r ->
  (eof r = true /\ readByte r = Ok (None, r)) \/
  (eof r = false /\ exists b, byte_at (r_data r) (r_offset r) = Some b /\
                              readByte r = Ok (Some b, set_offset_raw r (r_offset r + 1)) /\ r_offset r < r_pkgEnd r).
Proof. exact readByte_total. Qed.
Print Assumptions C12_readByte_window.

(** [lex_slices_inside] (full): every []byte returned by parseString / parseNameString - also when the function
    reports failure - starts at the offset the function was called at and ends inside the current package, hence inside
    the table.  ([no_wrap]: tables within 1 KiB of 4 GiB are excluded, there the parser's uint32 end-offset computation
    can wrap.) *)
Theorem C12_lex_slices_inside : forall r s ok r1, reader_wf r -> no_wrap r ->
  parseString r = Ok (s, ok, r1) \/ parseNameString r = Ok (s, ok, r1) ->
  slice_inside (r_len r) s /\ slice_inside (r_pkgEnd r) s /\ (forall p, s_ptr s = Some p -> p = r_offset r).
Proof. exact lex_slices_inside. Qed.
Print Assumptions C12_lex_slices_inside.
