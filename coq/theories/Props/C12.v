(** C12 — malformed AML is rejected with an error, never a crash, hang or stray pointer.
    Statements only; every proof is [exact <lemma>] (Aml/LexProofs.v). *)
From Coq Require Import NArith List.
From FF Require Import Lib.Word Gen.Consts_device_acpi_aml Aml.Stream Aml.Lex Aml.LexProofs Aml.Tree Aml.TreeSpec Aml.Parser Aml.ParserProofs Aml.ParserProofsTop Aml.ParserTotalFirst Aml.ParserTotalConn Aml.ParserTotalTop Aml.ParserTotalNonNamed Aml.ParserTotalCalls Aml.ParserTotalReloc Aml.ParserTotalMerge Aml.ParserTotalResolve Aml.ParserTotalBase Aml.ParserTotalLex Aml.ParserTotalTree Aml.ParserTotalDefer Aml.ParserTotalDeferW Aml.ParserTotalDeferV Aml.ParserTotalTyped Aml.ParserTotalShape Aml.ParserTotalChain Aml.ParserTotalConn2 Aml.ParserTotalPass2 Aml.ParserTotalBenign Aml.ParserTotalFirst2 Aml.ParserTotalNameLex Aml.ParserTotalGoodPath Aml.ParserTotalPass1 Aml.ParserTotalHandle Aml.ParserTotalLoad Aml.ParserTotalMeth Aml.ParserTotalFuel.
Import ListNotations.
Local Open Scope N_scope.

(** [reader_safe] (layers 1-2, full).  For every reader that satisfies the invariant [reader_wf] (cached length =
    length of the table, pkgEnd <= length < 2^32, elements are bytes) and every second reader [r'] that has the same
    length, offset and pkgEnd and the same bytes BELOW pkgEnd ([sim]): each lexer function returns on both (no Go
    panic, no exhausted fuel), with equal values and equal resulting offsets, and leaves data, length and pkgEnd
    untouched ([same_window]).  So no byte at an index >= pkgEnd (<= length) influences any result: every byte read
    by the lexer lies below pkgEnd. *)
Theorem C12_reader_safe :
  safe2 parsePkgLength /\ (forall k, safe2 (parseNumConstant k)) /\ safe2 parseString /\ safe2 parseNameString /\
  safe2 nextOpcode /\ safe2 peekNextOpcode.
Proof. exact reader_safe. Qed.
Print Assumptions C12_reader_safe.

(** the primitive: a byte is only ever delivered from an index below pkgEnd *)
Theorem C12_readByte_window : forall r, reader_wf r ->
  (eof r = true /\ readByte r = Ok (None, r)) \/
  (eof r = false /\ exists b, byte_at (r_data r) (r_offset r) = Some b /\
                              readByte r = Ok (Some b, set_offset_raw r (r_offset r + 1)) /\ r_offset r < r_pkgEnd r).
Proof. exact readByte_total. Qed.
Print Assumptions C12_readByte_window.

(** [lex_slices_inside] (full): every []byte returned by parseString / parseNameString - also when the function
    reports failure - starts at the offset the function was called at and ends inside the current package, hence inside
    the table.  ([no_wrap]: tables within 1 KiB of 4 GiB are excluded, there the parser's uint32 end-offset computation
    can wrap.) *)
Theorem C12_lex_slices_inside : forall r s ok r1, reader_wf r -> no_wrap r ->
  parseString r = Ok (s, ok, r1) \/ parseNameString r = Ok (s, ok, r1) ->
  slice_inside (r_len r) s /\ slice_inside (r_pkgEnd r) s /\ (forall p, s_ptr s = Some p -> p = r_offset r).
Proof. exact lex_slices_inside. Qed.
Print Assumptions C12_lex_slices_inside.

(** ---- the whole parser (Aml/Parser.v: every pass of ParseAML) ---- *)

(** [parse_total], the FULL statement of C12 over the model.  [load payloads] creates the default scopes and
    runs ParseAML on the images (36-byte header + payload) one after the other with fuel [parse_fuel] = 64 + 8 * (length of
    the table + number of pool slots), linear in the input so far (the later passes walk the whole tree, including the
    objects of the tables loaded before); class 0 = success, 1 = errParsingAML, 2 = Go panic, 3 = fuel exhausted.
    For every sequence of byte strings: the outcome is success or the parse error, every []byte the pool refers to
    lies inside the image it aliases, and the pool is a well-formed tree (C13's relation [R] for some forest). *)
Definition C12_full_parse_total : Prop :=
  forall payloads, Forall payload_ok payloads ->
    let '(class, t, imgs) := load payloads in
    (class = 0 \/ class = 1) /\ pool_ok imgs t /\ exists g, R t g.

(** [parse_total_partial] (1): the stray-pointer conjunct, for ALL passes and every input.  Whenever the parser
    returns - success or parse error - every []byte stored in the object pool (strings, names, buffers, byte lists,
    relocated name tails) lies inside the image of the table it aliases.  Missing w.r.t. the full statement: that the
    outcome is never a panic / fuel exhaustion, and the tree relation R (both are covered by the model-vs-implementation
    agreement with explicit Panic / OutOfFuel outcomes and by the independent link checker of the harness). *)
Theorem C12_parse_total_partial_slices : forall payloads class t imgs,
  Forall payload_ok payloads ->
  load payloads = (class, t, imgs) -> class = 0 \/ class = 1 -> pool_ok imgs t.
Proof. exact parse_slices_inside. Qed.
Print Assumptions C12_parse_total_partial_slices.

(** [parse_total_partial] (2): one ParseAML call from any pool whose slices are inside the earlier images: the slices
    stay inside, the reader still satisfies its invariant (pkgEnd <= length of the table) and still reads the same
    table - with [C12_reader_safe]: no pass reads a byte outside the table. *)
Theorem C12_parse_total_partial_reader : forall tree earlier handle data b s,
  image_ok data -> pool_ok earlier tree -> parseAML tree earlier handle data = Ok (b, s) ->
  pool_ok (earlier ++ [data]) (p_tree s) /\ reader_wf (p_r s) /\ r_data (p_r s) = data.
Proof. exact parseAML_inv. Qed.
Print Assumptions C12_parse_total_partial_reader.

(** the byte-list bounds check (commit 984f446) is what makes the stored list lie inside the current package *)
Theorem C12_bytelist_inside : forall tbls obj dataLen, hoare tbls (parseByteList obj dataLen) (fun _ => True).
Proof. exact hoare_parseByteList. Qed.
Print Assumptions C12_bytelist_inside.

(** ---- no panic, tree relation and fuel for the FIRST PASS ---- *)

(** [parse_total_partial] (3), passes covered: the first pass only, i.e. everything ParseAML runs before
    connectNamedObjArgs: scopeEnter(0) and parseObjectList with parseNextObject, parseObjectArgs, parseArgs, parseArg,
    parseNamePathOrMethodCall, parseSimpleArg, parseTarget, parseFieldElements, parseByteList and the scope / pkgEnd
    stacks, in parseModeSkipAmbiguousBlocks (the mode of the first pass).
    From the initial parser state of ANY table image [data] (bytes, at least 256 MiB + 1 KiB below 4 GiB) over ANY pool
    [tree] that represents a forest [g] (C13's relation [R]) in which slot 0 (the root scope) is live, whose live
    objects carry opcode-table indexes inside pOpcodeTable, and that leaves room for 4 objects per byte of the table
    below the uint32 object-index sentinel: the first pass NEVER PANICS, for every fuel - no nil dereference
    (ObjectAt / scopeCurrent / parent lookups), no failed type assertion (.value.(uint64) of the field flags), no index
    outside the pool, pOpcodeTable, the opcode maps or the scope stack, no pop of an empty stack.
    Not covered: connectNamedObjArgs and all later passes (they rely on the same invariant, which
    [C12_parse_total_partial_R_first_pass] shows the first pass re-establishes). *)
Theorem C12_parse_total_partial_nopanic_first_pass :
  forall (tree : ObjectTree value) (g : ghost) (earlier : list (list N)) (handle : N) (data : list N) (fuel : nat),
    R tree g ->
    (forall i o, TreeSpec.get tree i = Some o -> o_opcode o <> opFreed -> opInfo (o_infoIndex o) <> None) ->
    glive g 0 ->
    Forall (fun b => b < 256) data -> N.of_nat (length data) + 0x10000400 <= two32 ->
    N.of_nat (length (t_pool tree)) + 4 * N.of_nat (length data) + 4 <= InvalidIndex ->
    (scopeEnter 0 ;;; parseObjectList fuel) (init_state tree earlier handle data) <> Panic.
Proof. exact first_pass_nopanic. Qed.
Print Assumptions C12_parse_total_partial_nopanic_first_pass.

(** [parse_total_partial] (4), tree relation: under the same hypotheses, whenever the first pass returns (object list
    parsed or parse error) the pool again represents a forest - C13's [R] for some [g'], obtained edit by edit from
    C13's append_R / appendAfter_R / newObject_R - and every live object still has its opcode-table index inside
    pOpcodeTable.  (The forest only grows during the first pass: objects stay live, an existing object never gets a new
    parent, child lists only get longer; that is how the legality of every append - the new child is a root and not
    an ancestor of its new parent - is discharged.) *)
Theorem C12_parse_total_partial_R_first_pass :
  forall (tree : ObjectTree value) (g : ghost) (earlier : list (list N)) (handle : N) (data : list N) (fuel : nat) res s',
    R tree g ->
    (forall i o, TreeSpec.get tree i = Some o -> o_opcode o <> opFreed -> opInfo (o_infoIndex o) <> None) ->
    glive g 0 ->
    Forall (fun b => b < 256) data -> N.of_nat (length data) + 0x10000400 <= two32 ->
    N.of_nat (length (t_pool tree)) + 4 * N.of_nat (length data) + 4 <= InvalidIndex ->
    (scopeEnter 0 ;;; parseObjectList fuel) (init_state tree earlier handle data) = Ok (res, s') ->
    exists g', R (p_tree s') g' /\
      (forall i o, TreeSpec.get (p_tree s') i = Some o -> o_opcode o <> opFreed -> opInfo (o_infoIndex o) <> None).
Proof. exact first_pass_R. Qed.
Print Assumptions C12_parse_total_partial_R_first_pass.

(** [parse_total_partial] (5), termination of the first pass: under the same hypotheses the first pass RETURNS - neither
    a panic nor exhausted fuel - as soon as the fuel is 8 units per byte of the table plus 5 (so in particular with the
    fuel ParseAML gives it, [parse_fuel] = 64 + 8 * (length of the table + pool slots)), and the pool it returns satisfies
    [R].  Every level of recursion and every loop iteration below parseObjectList is paid for by a consumed byte, and the
    outer loop of parseObjectList pops one package end per iteration: the scope stack is never deeper than the pkgEnd
    stack (in the opcode-table row of every opcode that nextOpcode accepts a TermList argument is preceded by a PkgLen
    argument - checked by computation over the table dumped from /repo - so a scope is only entered after its package
    end was pushed), and every push is paid for by a consumed byte.  (This is the loop that spins forever when the two
    stacks get out of step.)  The lexer functions, layer 2, need no fuel argument at all: [C12_reader_safe]. *)
Theorem C12_parse_total_partial_fuel_first_pass :
  forall (tree : ObjectTree value) (g : ghost) (earlier : list (list N)) (handle : N) (data : list N) (fuel : nat),
    R tree g ->
    (forall i o, TreeSpec.get tree i = Some o -> o_opcode o <> opFreed -> opInfo (o_infoIndex o) <> None) ->
    glive g 0 ->
    Forall (fun b => b < 256) data -> N.of_nat (length data) + 0x10000400 <= two32 ->
    N.of_nat (length (t_pool tree)) + 4 * N.of_nat (length data) + 4 <= InvalidIndex ->
    8 * N.of_nat (length data) + 5 <= N.of_nat fuel ->
    exists res s' g',
      (scopeEnter 0 ;;; parseObjectList fuel) (init_state tree earlier handle data) = Ok (res, s') /\ R (p_tree s') g'.
Proof. exact first_pass_terminates. Qed.
Print Assumptions C12_parse_total_partial_fuel_first_pass.

(** the same below the outer loop, from ANY state that satisfies the invariant of the first pass (spelled out: [R],
    opcode-table indexes valid, reader invariant, table below 4 GiB - 256 MiB - 1 KiB, offset inside the table, skip
    mode, live non-empty scope stack, room for the objects): parsing one object (parseNextObject with everything below
    it) and the inner loop of parseObjectList return as soon as the fuel is 8 units per byte left in the table plus 3. *)
Theorem C12_parse_total_partial_fuel_object :
  forall (fuel : nat) (s : pstate) (g : ghost),
    R (p_tree s) g ->
    (forall i o, TreeSpec.get (p_tree s) i = Some o -> o_opcode o <> opFreed -> opInfo (o_infoIndex o) <> None) ->
    reader_wf (p_r s) -> r_len (p_r s) + 0x10000400 <= two32 -> r_offset (p_r s) <= r_len (p_r s) ->
    p_allBlocks s = false -> Forall (glive g) (p_scopeStack s) -> p_scopeStack s <> [] ->
    N.of_nat (length (t_pool (p_tree s))) + 4 * (r_len (p_r s) - r_offset (p_r s)) + 4 <= InvalidIndex ->
    8 * (r_len (p_r s) - r_offset (p_r s)) + 3 <= N.of_nat fuel ->
    (exists res s' g', parseNextObject fuel s = Ok (res, s') /\ R (p_tree s') g') /\
    (exists ok s' g', objectList_inner fuel s = Ok (ok, s') /\ R (p_tree s') g').
Proof. exact first_pass_fuel. Qed.
Print Assumptions C12_parse_total_partial_fuel_object.

(** ---- connectNamedObjArgs ---- *)

(** [parse_total_partial] (6), passes covered: connectNamedObjArgs with connectNamed's inner loop, setNameFrom and
    attachSiblingsAsArgs (detach + append of following siblings below a named object).  From ANY parser state whose pool
    satisfies C13's [R], whose live objects carry opcode-table indexes inside pOpcodeTable and whose []byte values lie
    inside their tables ([pool_ok], the invariant of [C12_parse_total_partial_slices]), and for any live start object:
    the pass never panics - no nil dereference (ObjectAt of child / first-arg / sibling / parent links), no index
    outside pOpcodeTable, no read outside the table in copying the name (bytesOf), no short name (.name[:] of a path
    shorter than 4 bytes), no illegal detach / append - and when it returns the pool again satisfies [R] and both
    other invariants.  The forest is rearranged only inside the subtree of the start object: a sibling that is moved
    below the named object is never an ancestor of it (siblings are not descendants of each other).  Fuel exhaustion
    is not excluded here. *)
Theorem C12_parse_total_partial_nopanic_connectNamedObjArgs :
  forall (fuel : nat) (x : N) (s : pstate) (g : ghost),
    R (p_tree s) g ->
    (forall i o, TreeSpec.get (p_tree s) i = Some o -> o_opcode o <> opFreed -> opInfo (o_infoIndex o) <> None) ->
    pool_ok (p_tables s) (p_tree s) -> glive g x ->
    match connectNamedObjArgs fuel x s with
    | Ok (_, s') => exists g', R (p_tree s') g' /\
        (forall i o, TreeSpec.get (p_tree s') i = Some o -> o_opcode o <> opFreed -> opInfo (o_infoIndex o) <> None) /\
        pool_ok (p_tables s') (p_tree s')
    | Panic => False
    | OutOfFuel => True
    end.
Proof. exact connectNamedObjArgs_never_panics. Qed.
Print Assumptions C12_parse_total_partial_nopanic_connectNamedObjArgs.

(** [parse_total_partial] (7), passes covered: the first pass AND connectNamedObjArgs as ParseAML chains them (the prefix
    of parseAML_body up to and including connectNamedObjArgs(0)), from the initial state of any table image over any
    pool satisfying the invariants: never a panic; the returned pool satisfies [R], has valid opcode-table indexes and
    all its []byte values inside the tables loaded so far.  Not covered: mergeScopeDirectives / relocateNamedObjects,
    parseDeferredBlocks, resolveMethodCalls, connectNonNamedObjArgs. *)
Theorem C12_parse_total_partial_nopanic_first_pass_connectNamedObjArgs :
  forall (tree : ObjectTree value) (g : ghost) (earlier : list (list N)) (handle : N) (data : list N) (fuel : nat),
    R tree g ->
    (forall i o, TreeSpec.get tree i = Some o -> o_opcode o <> opFreed -> opInfo (o_infoIndex o) <> None) ->
    glive g 0 -> pool_ok earlier tree ->
    Forall (fun b => b < 256) data -> N.of_nat (length data) + 0x10000400 <= two32 ->
    N.of_nat (length (t_pool tree)) + 4 * N.of_nat (length data) + 4 <= InvalidIndex ->
    match (scopeEnter 0 ;;;
           mlet r1 <~ parseObjectList fuel ;;
           if pres_eqb r1 RFailed then ret RFailed else connectNamedObjArgs fuel 0) (init_state tree earlier handle data) with
    | Ok (_, s') => exists g', R (p_tree s') g' /\
        (forall i o, TreeSpec.get (p_tree s') i = Some o -> o_opcode o <> opFreed -> opInfo (o_infoIndex o) <> None) /\
        pool_ok (earlier ++ [data]) (p_tree s')
    | Panic => False
    | OutOfFuel => True
    end.
Proof. exact passes12_never_panic. Qed.
Print Assumptions C12_parse_total_partial_nopanic_first_pass_connectNamedObjArgs.

(** ---- resolveMethodCalls and connectNonNamedObjArgs ---- *)

(** [parse_total_partial] (8), passes covered: connectNonNamedObjArgs (the last pass) with connectNonNamedObjArg and
    attachSiblingsAsArgs(useParent = true): an object that lacks arguments takes the siblings that follow it and, when
    those are used up, the siblings that follow its parent.  From ANY state whose pool satisfies [R], valid opcode-table
    indexes and [pool_ok], started at a live root object: never a panic (no nil parent in detach - an object with a next
    sibling has a parent; no illegal append - a sibling of the parent is not an ancestor: depth argument), and [R] and
    both invariants hold again.  Fuel exhaustion is not excluded. *)
Theorem C12_parse_total_partial_nopanic_connectNonNamedObjArgs :
  forall (fuel : nat) (x : N) (s : pstate) (g : ghost),
    R (p_tree s) g ->
    (forall i o, TreeSpec.get (p_tree s) i = Some o -> o_opcode o <> opFreed -> opInfo (o_infoIndex o) <> None) ->
    pool_ok (p_tables s) (p_tree s) -> glive g x -> groot g x ->
    match connectNonNamedObjArgs fuel x s with
    | Ok (_, s') => exists g', R (p_tree s') g' /\
        (forall i o, TreeSpec.get (p_tree s') i = Some o -> o_opcode o <> opFreed -> opInfo (o_infoIndex o) <> None) /\
        pool_ok (p_tables s') (p_tree s')
    | Panic => False
    | OutOfFuel => True
    end.
Proof. exact connectNonNamedObjArgs_never_panics. Qed.
Print Assumptions C12_parse_total_partial_nopanic_connectNonNamedObjArgs.

(** [parse_total_partial] (9), passes covered: resolveMethodCalls (with the Find lookup of C13, the rewriting of
    name-path objects into method calls / resolved references / plain name paths, ArgAt of the method's flags,
    attachSiblingsAsArgs and connectNonNamedObjArg).  From ANY state whose pool satisfies [R], valid opcode-table indexes,
    [pool_ok], has a live root at slot 0, and in which every live pOpIntNamePathOrMethodCall object carries a []byte
    value (what parseNamePathOrMethodCall stores; the pass type-asserts it: argObj.value.([]byte)): never a panic, and all
    of these hold again when it returns.  That typing hypothesis is NOT yet shown to be established by the earlier
    passes; fuel exhaustion is not excluded. *)
Theorem C12_parse_total_partial_nopanic_resolveMethodCalls :
  forall (fuel : nat) (s : pstate) (g : ghost),
    R (p_tree s) g ->
    (forall i o, TreeSpec.get (p_tree s) i = Some o -> o_opcode o <> opFreed -> opInfo (o_infoIndex o) <> None) ->
    pool_ok (p_tables s) (p_tree s) ->
    (forall i o, TreeSpec.get (p_tree s) i = Some o -> o_opcode o <> opFreed -> o_opcode o = aml_pOpIntNamePathOrMethodCall ->
                 exists tbl sl, o_value o = Some (VBytes tbl sl)) ->
    glive g 0 -> groot g 0 ->
    match resolveMethodCalls fuel 0 s with
    | Ok (_, s') => exists g', R (p_tree s') g' /\
        (forall i o, TreeSpec.get (p_tree s') i = Some o -> o_opcode o <> opFreed -> opInfo (o_infoIndex o) <> None) /\
        pool_ok (p_tables s') (p_tree s') /\
        (forall i o, TreeSpec.get (p_tree s') i = Some o -> o_opcode o <> opFreed -> o_opcode o = aml_pOpIntNamePathOrMethodCall ->
                     exists tbl sl, o_value o = Some (VBytes tbl sl))
    | Panic => False
    | OutOfFuel => True
    end.
Proof. exact resolveMethodCalls_never_panics. Qed.
Print Assumptions C12_parse_total_partial_nopanic_resolveMethodCalls.

(** ---- relocateNamedObjects ---- *)

(** [parse_total_partial] (10), passes covered: relocateNamedObjects (the second half of each resolve pass; with
    ClosestNamedAncestor and Find of C13, scopeOf / nestedScope, the insideSelf check of commit 648a1d7, detach + append of
    the named object below the scope its path prefix names, and the rewrite of its name path to the last segment).  From ANY
    state whose pool satisfies [R], valid opcode-table indexes and [pool_ok], with a live root at slot 0 whose opcode is
    pOpIntScopeBlock: never a panic - in particular `detach(ObjectAt(obj.parentIndex), obj)` never sees a nil parent (an
    object that is relocated is not a root: the only root the walk meets is the ScopeBlock at slot 0), and the append is
    legal because insideSelf has just checked that the target scope is not the object or one of its descendants - and
    [R], both invariants and the live root hold again.  Fuel exhaustion is not excluded. *)
Theorem C12_parse_total_partial_nopanic_relocateNamedObjects :
  forall (fuel : nat) (s : pstate) (g : ghost),
    R (p_tree s) g ->
    (forall i o, TreeSpec.get (p_tree s) i = Some o -> o_opcode o <> opFreed -> opInfo (o_infoIndex o) <> None) ->
    pool_ok (p_tables s) (p_tree s) -> glive g 0 ->
    (exists o, TreeSpec.get (p_tree s) 0 = Some o /\ o_opcode o = aml_pOpIntScopeBlock) ->
    match relocateNamedObjects fuel 0 s with
    | Ok (_, s') => exists g', R (p_tree s') g' /\
        (forall i o, TreeSpec.get (p_tree s') i = Some o -> o_opcode o <> opFreed -> opInfo (o_infoIndex o) <> None) /\
        pool_ok (p_tables s') (p_tree s') /\ glive g' 0
    | Panic => False
    | OutOfFuel => True
    end.
Proof. exact relocateNamedObjects_never_panics. Qed.
Print Assumptions C12_parse_total_partial_nopanic_relocateNamedObjects.

(** ---- mergeScopeDirectives ---- *)

(** [parse_total_partial] (11), passes covered: mergeScopeDirectives (the first half of each resolve pass; with Find of
    C13, scopeOf / nestedScope, moveContents = detach + append of every child of the directive's block to the end of the
    target scope, the three frees of the name, the block and the directive, and the walk that continues over the moved
    objects).  From ANY state whose pool satisfies [R], valid opcode-table indexes and [pool_ok], with a live root at slot 0
    that has no parent and whose opcode is pOpIntScopeBlock, and in which every Scope directive of the table being loaded
    has the shape the first pass gives it - a name that is not a name segment, an opcode-table row without the Named flag, exactly two children: a childless object
    that carries the target path as a []byte value (a four byte path starts with a name character, \ or ^) and a
    pOpIntScopeBlock - from ANY live object [x]: never a panic.  In particular `nameObj.value.([]byte)` is a []byte, the
    target that Find returns lies outside the directive's subtree (a name lookup that starts at the directive's parent
    never descends into an object whose name is not a name segment), so each append is legal and no cycle is created, and
    the three freed objects have no children when they are freed.  [R], the invariants, the root and the shape of the
    remaining directives hold again; no object outside the subtree of [x] is freed.  Fuel exhaustion is not excluded. *)
Theorem C12_parse_total_partial_nopanic_mergeScopeDirectives :
  forall (fuel : nat) (x : N) (s : pstate) (g : ghost),
    R (p_tree s) g ->
    (forall i o, TreeSpec.get (p_tree s) i = Some o -> o_opcode o <> opFreed -> opInfo (o_infoIndex o) <> None) ->
    pool_ok (p_tables s) (p_tree s) ->
    glive g 0 -> groot g 0 ->
    (exists o, TreeSpec.get (p_tree s) 0 = Some o /\ o_opcode o = aml_pOpIntScopeBlock) ->
    (forall d dobj, TreeSpec.get (p_tree s) d = Some dobj -> o_opcode dobj = aml_pOpScope -> o_tableHandle dobj = p_handle s ->
       name_lead (o_name dobj) = false /\
       (forall op fl af, opInfo (o_infoIndex dobj) = Some (op, fl, af) -> hasFlag fl aml_pOpFlagNamed = false) /\
       exists n c no co tbl sl,
         kids g d = [n; c] /\ kids g n = [] /\
         TreeSpec.get (p_tree s) n = Some no /\ o_opcode no <> aml_pOpIntScopeBlock /\ o_opcode no <> aml_pOpScope /\
         o_value no = Some (VBytes tbl sl) /\
         (forall s0 bytes, p_tables s0 = p_tables s -> slice_bytes s0 tbl sl = Ok bytes -> good_path bytes) /\
         TreeSpec.get (p_tree s) c = Some co /\ o_opcode co = aml_pOpIntScopeBlock) ->
    glive g x ->
    match mergeScopeDirectives fuel x s with
    | Ok (_, s') => exists g', R (p_tree s') g' /\
        (forall i o, TreeSpec.get (p_tree s') i = Some o -> o_opcode o <> opFreed -> opInfo (o_infoIndex o) <> None) /\
        pool_ok (p_tables s') (p_tree s') /\
        glive g' 0 /\ groot g' 0 /\
        (exists o, TreeSpec.get (p_tree s') 0 = Some o /\ o_opcode o = aml_pOpIntScopeBlock) /\
        (forall d dobj, TreeSpec.get (p_tree s') d = Some dobj -> o_opcode dobj = aml_pOpScope -> o_tableHandle dobj = p_handle s' ->
           name_lead (o_name dobj) = false /\
           (forall op fl af, opInfo (o_infoIndex dobj) = Some (op, fl, af) -> hasFlag fl aml_pOpFlagNamed = false) /\
           exists n c no co tbl sl,
             kids g' d = [n; c] /\ kids g' n = [] /\
             TreeSpec.get (p_tree s') n = Some no /\ o_opcode no <> aml_pOpIntScopeBlock /\ o_opcode no <> aml_pOpScope /\
             o_value no = Some (VBytes tbl sl) /\
             (forall s0 bytes, p_tables s0 = p_tables s' -> slice_bytes s0 tbl sl = Ok bytes -> good_path bytes) /\
             TreeSpec.get (p_tree s') c = Some co /\ o_opcode co = aml_pOpIntScopeBlock) /\
        (forall y, glive g' y -> glive g y) /\ (forall y, glive g y -> ~ desc g x y -> glive g' y)
    | Panic => False
    | OutOfFuel => True
    end.
Proof. exact mergeScopeDirectives_never_panics. Qed.
Print Assumptions C12_parse_total_partial_nopanic_mergeScopeDirectives.

(** ---- the resolve passes chained ---- *)

(** [parse_total_partial] (12), passes covered: resolve_loop = mergeScopeDirectives(0) and relocateNamedObjects(0) alternating
    until both report nothing left to do (or one fails, or the pass counter runs out), as ParseAML runs them.  From ANY state
    that satisfies the hypotheses of (11): never a panic, and all of them hold again - a relocation keeps the shape of the
    Scope directives (the relocated object has the Named flag, a directive has not; neither a directive nor its path object
    is the old parent or the target ScopeBlock; the rewritten name path belongs to the relocated object).  Fuel exhaustion is
    not excluded. *)
Theorem C12_parse_total_partial_nopanic_resolve_loop :
  forall (fuel walkFuel : nat) (s : pstate) (g : ghost),
    R (p_tree s) g ->
    (forall i o, TreeSpec.get (p_tree s) i = Some o -> o_opcode o <> opFreed -> opInfo (o_infoIndex o) <> None) ->
    pool_ok (p_tables s) (p_tree s) ->
    glive g 0 -> groot g 0 ->
    (exists o, TreeSpec.get (p_tree s) 0 = Some o /\ o_opcode o = aml_pOpIntScopeBlock) ->
    (forall d dobj, TreeSpec.get (p_tree s) d = Some dobj -> o_opcode dobj = aml_pOpScope -> o_tableHandle dobj = p_handle s ->
       name_lead (o_name dobj) = false /\
       (forall op fl af, opInfo (o_infoIndex dobj) = Some (op, fl, af) -> hasFlag fl aml_pOpFlagNamed = false) /\
       exists n c no co tbl sl,
         kids g d = [n; c] /\ kids g n = [] /\
         TreeSpec.get (p_tree s) n = Some no /\ o_opcode no <> aml_pOpIntScopeBlock /\ o_opcode no <> aml_pOpScope /\
         o_value no = Some (VBytes tbl sl) /\
         (forall s0 bytes, p_tables s0 = p_tables s -> slice_bytes s0 tbl sl = Ok bytes -> good_path bytes) /\
         TreeSpec.get (p_tree s) c = Some co /\ o_opcode co = aml_pOpIntScopeBlock) ->
    match resolve_loop fuel walkFuel s with
    | Ok (_, s') => exists g', R (p_tree s') g' /\
        (forall i o, TreeSpec.get (p_tree s') i = Some o -> o_opcode o <> opFreed -> opInfo (o_infoIndex o) <> None) /\
        pool_ok (p_tables s') (p_tree s') /\
        glive g' 0 /\ groot g' 0 /\
        (exists o, TreeSpec.get (p_tree s') 0 = Some o /\ o_opcode o = aml_pOpIntScopeBlock) /\
        (forall d dobj, TreeSpec.get (p_tree s') d = Some dobj -> o_opcode dobj = aml_pOpScope -> o_tableHandle dobj = p_handle s' ->
           name_lead (o_name dobj) = false /\
           (forall op fl af, opInfo (o_infoIndex dobj) = Some (op, fl, af) -> hasFlag fl aml_pOpFlagNamed = false) /\
           exists n c no co tbl sl,
             kids g' d = [n; c] /\ kids g' n = [] /\
             TreeSpec.get (p_tree s') n = Some no /\ o_opcode no <> aml_pOpIntScopeBlock /\ o_opcode no <> aml_pOpScope /\
             o_value no = Some (VBytes tbl sl) /\
             (forall s0 bytes, p_tables s0 = p_tables s' -> slice_bytes s0 tbl sl = Ok bytes -> good_path bytes) /\
             TreeSpec.get (p_tree s') c = Some co /\ o_opcode co = aml_pOpIntScopeBlock)
    | Panic => False
    | OutOfFuel => True
    end.
Proof. exact resolve_loop_never_panics. Qed.
Print Assumptions C12_parse_total_partial_nopanic_resolve_loop.

(** ---- parseDeferredBlocks: one deferred block ---- *)

(** [parse_total_partial] (13), passes covered: the work parseDeferredBlocks does on ONE object whose arguments were skipped
    by the first pass (opcode-table row with pOpFlagDeferParsing: Buffer, While, BankField): mode := parseModeAllBlocks,
    SetPkgEnd / SetOffset to the object's first argument, parseObjectArgs - i.e. the nine mutually recursive functions
    parseNextObject / parseObjectArgs / parseArgs / parseArg / termList / parseNamePathOrMethodCall (names are resolved
    with Find while parsing; a resolved Method makes the parser read `ArgAt(target, 1).value.(uint64)` and parse that many
    call arguments) / parseStrictTermArg (attach to the parent while the arguments are parsed, detach afterwards; popPkgEnd
    at the end of a package) / parseTarget, all of them in the mode of the deferred pass - and the final popping of the pkgEnd
    stack.  From ANY state in which the pool satisfies [R] with valid opcode-table indexes, the reader and the whole-parser
    invariant [Inv] (table link, slices inside) hold, the scope stack holds live objects, the root is live, the pool has room
    for 8 objects per byte of the table, and every Method object is typed ([TM NoX]: its first two children exist, neither
    has a deferred or field-list row, the first is a CHILDLESS pOpIntNamePath object with the name-path row, the second a
    pOpBytePrefix object with its row that carries a number): NEVER a panic - no empty scope stack, no nil
    dereference after Find or ArgAt, no failed `.([]byte)` / `.(uint64)` assertion, every append / detach legal - and
    [R], valid indexes, the reader invariant, live scopes and (after success) the typing of all Methods, including those the
    block declares, hold again; the pool grows by at most 8 objects per table byte + 3.  Fuel exhaustion is not excluded.
    Not covered here: the walk of parseDeferredBlocks over all objects (next theorem); [TM NoX] follows from the earlier passes by
    TM3_TM (end-to-end theorems below). *)
Theorem C12_parse_total_partial_nopanic_deferred_block :
  forall (tbls : list (list N)) (fuel parseFuel : nat) (obj : N) (oo : Obj) (op fl af : N) (s : pstate) (g : ghost),
    R (p_tree s) g ->
    (forall i o, TreeSpec.get (p_tree s) i = Some o -> o_opcode o <> opFreed -> opInfo (o_infoIndex o) <> None) ->
    rok (p_r s) -> Forall (glive g) (p_scopeStack s) -> Inv tbls s ->
    glive g 0 -> glive g obj ->
    TreeSpec.get (p_tree s) obj = Some oo -> opInfo (o_infoIndex oo) = Some (op, fl, af) ->
    hasFlag fl aml_pOpFlagDeferParsing = true -> o_tableHandle oo = p_handle s ->
    (has_fl af -> has_parent g obj) -> TM NoX s g ->
    lp s + 8 * r_len (p_r s) + 7 <= InvalidIndex ->
    match parseDeferredBlocks (S fuel) parseFuel obj s with
    | Ok (res, s') => exists g', R (p_tree s') g' /\
        (forall i o, TreeSpec.get (p_tree s') i = Some o -> o_opcode o <> opFreed -> opInfo (o_infoIndex o) <> None) /\
        rok (p_r s') /\ Forall (glive g') (p_scopeStack s') /\
        gext g g' /\ glive g' 0 /\ lp s' <= lp s + 8 * r_len (p_r s) + 3 /\ (res = ROk -> TM NoX s' g')
    | Panic => False
    | OutOfFuel => True
    end.
Proof. exact deferred_block_never_panics. Qed.
Print Assumptions C12_parse_total_partial_nopanic_deferred_block.

(** [parse_total_partial] (13), passes covered: the whole of parseDeferredBlocks - the depth-first walk from any live object
    [x] (ParseAML starts it at the root) that parses every pending deferred object it meets (row with pOpFlagDeferParsing and
    the handle of the table being parsed: Buffer, While, BankField; the walk does not descend below such an object) as in the
    previous theorem and otherwise follows the first / next links, re-reading `next` after each child.  [dcnt s g x n]
    describes what the walk will meet: [n] pending deferred objects (one with a field list - a BankField - has a parent;
    none has the internal opcode pOpIntNamePathOrMethodCall).
    With room in the pool for [n] blocks (8 objects per table byte + 3 each) and the hypotheses of the previous theorem:
    NEVER a panic, and [R], valid indexes, the reader invariant, live scopes and (after success) the typing of the Methods
    hold again.  The proof shows that a block changes no payload field other than values, that the child list of an object
    that is not itself pending changes only when it holds a pending BankField, whose parse inserts its NamedFields right
    behind it into the list the walk is iterating - objects that are new, childless and carry the NamedField row, so the
    walk steps over them at no cost - and (partial correctness, ParserTotalDeferH) that no parser function changes the
    table handle, so the count of what is still to be visited is stable.  The typing hypothesis of resolveMethodCalls
    (every pOpIntNamePathOrMethodCall object carries a []byte) is preserved: in the mode of the deferred pass no parser
    function creates such an object (nextOpcode never accepts that opcode; ParserTotalDeferM) and only pending objects
    get a new value.
    Fuel exhaustion is not excluded.  Not covered: the derivation of [TM NoX] and [dcnt] from the earlier passes. *)
Theorem C12_parse_total_partial_nopanic_deferred_walk :
  forall (tbls : list (list N)) (fuel parseFuel : nat) (x n : N) (s : pstate) (g : ghost),
    R (p_tree s) g ->
    (forall i o, TreeSpec.get (p_tree s) i = Some o -> o_opcode o <> opFreed -> opInfo (o_infoIndex o) <> None) ->
    rok (p_r s) -> Forall (glive g) (p_scopeStack s) -> Inv tbls s ->
    glive g 0 -> TM NoX s g -> dcnt s g x n ->
    lp s + n * (8 * r_len (p_r s) + 3) + 4 <= InvalidIndex ->
    match parseDeferredBlocks fuel parseFuel x s with
    | Ok (res, s') => exists g', R (p_tree s') g' /\
        (forall i o, TreeSpec.get (p_tree s') i = Some o -> o_opcode o <> opFreed -> opInfo (o_infoIndex o) <> None) /\
        rok (p_r s') /\ Forall (glive g') (p_scopeStack s') /\
        gext g g' /\ glive g' 0 /\ lp s' <= lp s + n * (8 * r_len (p_r s) + 3) /\ (res = ROk -> TM NoX s' g') /\
        ((forall i o, TreeSpec.get (p_tree s) i = Some o -> o_opcode o <> opFreed -> o_opcode o = aml_pOpIntNamePathOrMethodCall ->
                      exists tbl sl, o_value o = Some (VBytes tbl sl)) ->
         (forall i o, TreeSpec.get (p_tree s') i = Some o -> o_opcode o <> opFreed -> o_opcode o = aml_pOpIntNamePathOrMethodCall ->
                      exists tbl sl, o_value o = Some (VBytes tbl sl)))
    | Panic => False
    | OutOfFuel => True
    end.
Proof. exact deferred_walk_never_panics. Qed.
Print Assumptions C12_parse_total_partial_nopanic_deferred_walk.

(** [parse_total_partial] (13), passes chained: everything ParseAML does after the resolve loop ([parse_tail], the last three
    passes exactly as in parseAML_body - lemma parseAML_body_tail): parseDeferredBlocks(0), resolveMethodCalls(0),
    connectNonNamedObjArgs(0), each entered only if the previous one succeeded.  From any state with the hypotheses of the
    walk theorem for the root, a parentless root and the typing hypothesis of resolveMethodCalls: NEVER a panic, and when the
    tail returns (true or false) the pool satisfies [R], valid opcode-table indexes and slices-inside.  Fuel exhaustion is
    not excluded; the hypotheses are not derived from passes 1-3. *)
Theorem C12_parse_total_partial_nopanic_tail :
  forall (tbls : list (list N)) (f4 pf f5 f6 : nat) (n : N) (s : pstate) (g : ghost),
    R (p_tree s) g ->
    (forall i o, TreeSpec.get (p_tree s) i = Some o -> o_opcode o <> opFreed -> opInfo (o_infoIndex o) <> None) ->
    rok (p_r s) -> Forall (glive g) (p_scopeStack s) -> Inv tbls s ->
    glive g 0 -> groot g 0 -> TM NoX s g ->
    (forall i o, TreeSpec.get (p_tree s) i = Some o -> o_opcode o <> opFreed -> o_opcode o = aml_pOpIntNamePathOrMethodCall ->
                 exists tbl sl, o_value o = Some (VBytes tbl sl)) ->
    dcnt s g 0 n ->
    lp s + n * (8 * r_len (p_r s) + 3) + 4 <= InvalidIndex ->
    match parse_tail f4 pf f5 f6 s with
    | Ok (_, s') => exists g', R (p_tree s') g' /\
        (forall i o, TreeSpec.get (p_tree s') i = Some o -> o_opcode o <> opFreed -> opInfo (o_infoIndex o) <> None) /\
        pool_ok (p_tables s') (p_tree s')
    | Panic => False
    | OutOfFuel => True
    end.
Proof. exact deferred_tail_never_panics. Qed.
Print Assumptions C12_parse_total_partial_nopanic_tail.

(** [parse_total_partial] (14), a hypothesis of the later passes DERIVED: the typing hypothesis of resolveMethodCalls - every
    pOpIntNamePathOrMethodCall object carries a []byte, so that `argObj.value.([]byte)` cannot fail - is preserved by the
    first four passes run as in parseAML_body ([parse_head]: scopeEnter(0), parseObjectList, connectNamedObjArgs(0), the
    resolve loop) and by parseDeferredBlocks, from ANY state (partial correctness: whenever they return).  The first pass
    creates such objects together with their []byte; every other write of a value that is not a []byte hits an object
    created just before with a different opcode, or an object whose opcode was read just before (parseObjectArgs);
    nextOpcode never yields that opcode; free only turns objects into free slots.  So the hypothesis of
    C12_parse_total_partial_nopanic_resolveMethodCalls / _tail holds whenever it holds of the pool ParseAML starts with. *)
Theorem C12_parse_total_partial_typed_head :
  forall (fuel : nat) (s : pstate) (b : bool) (s' : pstate),
    parse_head fuel s = Ok (b, s') ->
    (forall i o, TreeSpec.get (p_tree s) i = Some o -> o_opcode o <> opFreed -> o_opcode o = aml_pOpIntNamePathOrMethodCall ->
                 exists tbl sl, o_value o = Some (VBytes tbl sl)) ->
    (forall i o, TreeSpec.get (p_tree s') i = Some o -> o_opcode o <> opFreed -> o_opcode o = aml_pOpIntNamePathOrMethodCall ->
                 exists tbl sl, o_value o = Some (VBytes tbl sl)).
Proof. exact parse_head_typed. Qed.
Print Assumptions C12_parse_total_partial_typed_head.

Theorem C12_parse_total_partial_typed_deferred :
  forall (fuel parseFuel : nat) (x : N) (s : pstate) (r : pres) (s' : pstate),
    parseDeferredBlocks fuel parseFuel x s = Ok (r, s') ->
    (forall i o, TreeSpec.get (p_tree s) i = Some o -> o_opcode o <> opFreed -> o_opcode o = aml_pOpIntNamePathOrMethodCall ->
                 exists tbl sl, o_value o = Some (VBytes tbl sl)) ->
    (forall i o, TreeSpec.get (p_tree s') i = Some o -> o_opcode o <> opFreed -> o_opcode o = aml_pOpIntNamePathOrMethodCall ->
                 exists tbl sl, o_value o = Some (VBytes tbl sl)).
Proof. exact parseDeferredBlocks_typed. Qed.
Print Assumptions C12_parse_total_partial_typed_deferred.

(** [parse_total_partial] (15), passes chained: EVERYTHING ParseAML does after connectNamedObjArgs ([parse_rest]: the resolve
    loop and, if it succeeds, the tail of the previous theorem - exactly as in parseAML_body, lemma parseAML_body_rest) never
    panics from any state with: [R], valid opcode-table indexes, the reader and whole-parser invariants, an empty scope stack
    (what parseObjectList leaves), a live parentless ScopeBlock root, the Scope-directive shape of
    C12_parse_total_partial_nopanic_mergeScopeDirectives, [TM2] (every Method has two leading plain children - no deferred /
    field-list / named row, not a Scope directive or ScopeBlock - the second carrying a number), [PEND] (every pending deferred
    object of the current table has a parent and is not a name-path-or-call object), the []byte typing of the name-path-or-call
    objects, and room in the pool for one block per pool slot (lp + lp * (8 * len + 3) + 4 <= 2^32 - 1: a memory bound, quadratic
    and generous).  New here: the resolve loop PRESERVES TM2 and PEND (merge moves objects between ScopeBlocks only and frees
    childless objects that are a Scope directive or a child of one; a relocated object has a named row, so it is none of a
    Method's two leading children, and only the value of its own first child is rewritten), it leaves reader, stacks and pool
    size alone, and the count [dcnt] the walk theorem needs EXISTS for every live object and is bounded by the pool size
    (induction over the forest by depth; the subtrees of two siblings are disjoint).  When [parse_rest] returns, [R], valid
    indexes and slices-inside hold.  Fuel exhaustion is not excluded.  NOT derived here: that passes 1-2 establish the directive
    shape, the Method typing and PEND (see the end-to-end theorem).  The Method typing hypothesis is the CONCRETE one, [TM3] (first
    child a childless pOpIntNamePath object with its row, second a pOpBytePrefix object with its row and a number; it implies TM2):
    the typing the deferred pass works with carries these facts, so that the flags argument of a Method is never moved away. *)
Theorem C12_parse_total_partial_nopanic_rest :
  forall (tbls : list (list N)) (fuel : nat) (s : pstate) (g : ghost),
    R (p_tree s) g ->
    (forall i o, TreeSpec.get (p_tree s) i = Some o -> o_opcode o <> opFreed -> opInfo (o_infoIndex o) <> None) ->
    rok (p_r s) -> p_scopeStack s = [] -> Inv tbls s ->
    glive g 0 -> groot g 0 -> is_sb s 0 ->
    tyS NoX (p_tables s) (p_handle s) (p_tree s) g ->
    TM3 (p_tree s) g -> PEND s g ->
    (forall i o, TreeSpec.get (p_tree s) i = Some o -> o_opcode o <> opFreed -> o_opcode o = aml_pOpIntNamePathOrMethodCall ->
                 exists tbl sl, o_value o = Some (VBytes tbl sl)) ->
    lp s + lp s * (8 * r_len (p_r s) + 3) + 4 <= InvalidIndex ->
    match parse_rest fuel s with
    | Ok (_, s') => exists g', R (p_tree s') g' /\
        (forall i o, TreeSpec.get (p_tree s') i = Some o -> o_opcode o <> opFreed -> opInfo (o_infoIndex o) <> None) /\
        pool_ok (p_tables s') (p_tree s')
    | Panic => False
    | OutOfFuel => True
    end.
Proof. exact rest_never_panics. Qed.
Print Assumptions C12_parse_total_partial_nopanic_rest.

(** the resolve loop alone keeps the typing facts of the later passes (and all its own invariants) *)
Theorem C12_parse_total_partial_resolve_loop_keeps :
  forall (fuel walkFuel : nat) (s : pstate) (g : ghost),
    R (p_tree s) g ->
    (forall i o, TreeSpec.get (p_tree s) i = Some o -> o_opcode o <> opFreed -> opInfo (o_infoIndex o) <> None) ->
    pool_ok (p_tables s) (p_tree s) ->
    glive g 0 -> groot g 0 -> is_sb s 0 ->
    tyS NoX (p_tables s) (p_handle s) (p_tree s) g ->
    TM2 (p_tree s) g -> PEND s g ->
    (forall i o, TreeSpec.get (p_tree s) i = Some o -> o_opcode o <> opFreed -> o_opcode o = aml_pOpIntNamePathOrMethodCall ->
                 exists tbl sl, o_value o = Some (VBytes tbl sl)) ->
    match resolve_loop fuel walkFuel s with
    | Ok (_, s') => exists g', R (p_tree s') g' /\
        (forall i o, TreeSpec.get (p_tree s') i = Some o -> o_opcode o <> opFreed -> opInfo (o_infoIndex o) <> None) /\
        pool_ok (p_tables s') (p_tree s') /\
        glive g' 0 /\ groot g' 0 /\ is_sb s' 0 /\ tyS NoX (p_tables s') (p_handle s') (p_tree s') g' /\
        TM2 (p_tree s') g' /\ PEND s' g' /\
        (forall i o, TreeSpec.get (p_tree s') i = Some o -> o_opcode o <> opFreed -> o_opcode o = aml_pOpIntNamePathOrMethodCall ->
                     exists tbl sl, o_value o = Some (VBytes tbl sl)) /\
        p_r s' = p_r s /\ p_scopeStack s' = p_scopeStack s /\ lp s' = lp s
    | Panic => False
    | OutOfFuel => True
    end.
Proof. exact resolve_loop_keeps_shape. Qed.
Print Assumptions C12_parse_total_partial_resolve_loop_keeps.

(** the tail with [PEND] in place of the inductive count: the count exists and is at most the pool size *)
Theorem C12_parse_total_partial_nopanic_tail_pend :
  forall (tbls : list (list N)) (f4 pf f5 f6 : nat) (s : pstate) (g : ghost),
    R (p_tree s) g ->
    (forall i o, TreeSpec.get (p_tree s) i = Some o -> o_opcode o <> opFreed -> opInfo (o_infoIndex o) <> None) ->
    rok (p_r s) -> Forall (glive g) (p_scopeStack s) -> Inv tbls s ->
    glive g 0 -> groot g 0 -> TM NoX s g ->
    (forall i o, TreeSpec.get (p_tree s) i = Some o -> o_opcode o <> opFreed -> o_opcode o = aml_pOpIntNamePathOrMethodCall ->
                 exists tbl sl, o_value o = Some (VBytes tbl sl)) ->
    PEND s g ->
    lp s + lp s * (8 * r_len (p_r s) + 3) + 4 <= InvalidIndex ->
    match parse_tail f4 pf f5 f6 s with
    | Ok (_, s') => exists g', R (p_tree s') g' /\
        (forall i o, TreeSpec.get (p_tree s') i = Some o -> o_opcode o <> opFreed -> opInfo (o_infoIndex o) <> None) /\
        pool_ok (p_tables s') (p_tree s')
    | Panic => False
    | OutOfFuel => True
    end.
Proof. exact tail_never_panics_pend. Qed.
Print Assumptions C12_parse_total_partial_nopanic_tail_pend.

(** [parse_total_partial] (16), passes chained: EVERYTHING ParseAML does after the FIRST pass ([parse_rest2]:
    connectNamedObjArgs(0), the counter reset, then parse_rest - exactly as in parseAML_body, lemma parseAML_body_rest2) never
    panics from any state with [R], valid indexes, the reader and whole-parser invariants, an empty scope stack, the []byte
    typing, the memory bound, and [SH]: live parentless ScopeBlock root, Scope-directive shape, TM2 and PEND.  New here:
    connectNamedObjArgs PRESERVES SH (proof with an abstract invariant threaded through the pass, ParserTotalConn2.v: the pass
    only writes names of named objects that have children, and moves the sibling that follows such an object to the end of its
    child list - a named object with children is neither a Scope directive, nor its childless name path, nor its ScopeBlock,
    nor one of the two plain leading children of a Method).  So the only part of ParseAML not covered by a chained no-panic
    theorem is the step "the first pass establishes SH". *)
Theorem C12_parse_total_partial_nopanic_rest2 :
  forall (tbls : list (list N)) (fuel : nat) (s : pstate) (g : ghost),
    R (p_tree s) g ->
    (forall i o, TreeSpec.get (p_tree s) i = Some o -> o_opcode o <> opFreed -> opInfo (o_infoIndex o) <> None) ->
    rok (p_r s) -> p_scopeStack s = [] -> Inv tbls s ->
    SH3 s g ->
    (forall i o, TreeSpec.get (p_tree s) i = Some o -> o_opcode o <> opFreed -> o_opcode o = aml_pOpIntNamePathOrMethodCall ->
                 exists tbl sl, o_value o = Some (VBytes tbl sl)) ->
    lp s + lp s * (8 * r_len (p_r s) + 3) + 4 <= InvalidIndex ->
    match parse_rest2 fuel s with
    | Ok (_, s') => exists g', R (p_tree s') g' /\
        (forall i o, TreeSpec.get (p_tree s') i = Some o -> o_opcode o <> opFreed -> opInfo (o_infoIndex o) <> None) /\
        pool_ok (p_tables s') (p_tree s')
    | Panic => False
    | OutOfFuel => True
    end.
Proof. exact rest2_never_panics. Qed.
Print Assumptions C12_parse_total_partial_nopanic_rest2.

(** [parse_total_partial] (17), hypotheses of the later passes DERIVED from the first pass: from the initial state of ANY table over
    ANY pool that satisfies [R] with valid indexes, a live parentless ScopeBlock root, typed Methods (TM2) and no object that
    already carries the handle of the new table, the first pass never panics and, when it succeeds, leaves an empty scope stack
    and [LI]: the root facts again, ScopeBlocks on the (now empty) scope stack, TM2 for ALL Methods including the new ones, PEND
    (every pending deferred object has a parent and is no name-path-or-call object), and the structure of every Scope directive
    of the new table (tySw: row without the named flag, exactly two children - a childless name-path object carrying a []byte
    and a ScopeBlock).  Proof: a frame version of the first pass (ParserTotalFirst2.v; what one parseNextObject leaves alone, the
    shape of the object it finishes read off its opcode-table row), the judgement [bn] (ParserTotalBenign.v: below parseNextObject
    no Method / Scope object and no object with a deferred row appears), and the invariant step LI_next_holds. *)
Theorem C12_parse_total_partial_first_pass_shape :
  forall (tree : T) (g : ghost) (earlier : list (list N)) (handle : N) (data : list N) (fuel : nat),
    R tree g ->
    (forall i o, TreeSpec.get tree i = Some o -> o_opcode o <> opFreed -> opInfo (o_infoIndex o) <> None) ->
    glive g 0 -> groot g 0 ->
    (exists o, TreeSpec.get tree 0 = Some o /\ o_opcode o = aml_pOpIntScopeBlock) ->
    TM2 tree g ->
    (forall i o, TreeSpec.get tree i = Some o -> o_tableHandle o <> handle) ->
    image_small data ->
    N.of_nat (length (t_pool tree)) + 4 * N.of_nat (length data) + 4 <= InvalidIndex ->
    match first_pass fuel (init_state tree earlier handle data) with
    | Ok (res, s') => exists g', R (p_tree s') g' /\
        (forall i o, TreeSpec.get (p_tree s') i = Some o -> o_opcode o <> opFreed -> opInfo (o_infoIndex o) <> None) /\
        rok (p_r s') /\ (res = ROk \/ res = RFailed) /\
        (res = ROk -> LI (glive g) s' g' /\ p_scopeStack s' = [])
    | Panic => False
    | OutOfFuel => True
    end.
Proof. exact first_pass_establishes. Qed.
Print Assumptions C12_parse_total_partial_first_pass_shape.

(** A lexer fact used below: the []byte parseNameString returns, when it is four bytes long, starts at a byte of the table that
    is a lead name character, the root character or a parent prefix. *)
Theorem C12_parse_total_namestring_good :
  forall (r : reader) (s : slice) (ok : bool) (r1 : reader),
    rok r -> parseNameString r = Ok (s, ok, r1) ->
    s_len s = 4 -> exists p b0, s_ptr s = Some p /\ byte_at (r_data r) p = Some b0 /\ (is_lead b0 = true \/ b0 = 0x5c \/ b0 = 0x5e).
Proof. exact parseNameString_good. Qed.
Print Assumptions C12_parse_total_namestring_good.

(** [parse_total] END TO END: ParseAML (parseAML_body with ANY fuel, all six passes) from the initial state of any table over any
    pool NEVER panics, and when it returns the pool satisfies [R], valid indexes and slices-inside.  The hypotheses speak only about
    the pool BEFORE the call and about sizes - nothing about the run:
      - [R], valid opcode-table indexes, a live parentless ScopeBlock root in slot 0;
      - the Methods already in the pool are typed (TM3: first child a childless pOpIntNamePath object with the name-path row, second a
        pOpBytePrefix object with its row and a number - what CreateDefaultScopes (no Method) and every successful ParseAML leave);
      - (nothing about free slots: newObject clears the name of a reused slot since /repo d18acb2, so a Scope directive created
        in a reused slot carries the zero name and a lookup never returns the directive itself);
      - every name-path-or-call object carries a []byte, the slices of the pool lie inside the earlier tables;
      - no object carries the handle of the new table; the image is a table image of at most 2^28 bytes;
      - an explicit (generous, quadratic) memory bound: pool slots + 4 * image bytes, times (8 * image bytes + 3), below 2^32 - 1.
    Everything else - the typing of new Methods, the Scope-directive structure and its names, the good paths the lexer produces,
    parents of pending objects, the []byte typing, existence and bound of the walk count, reader / stack / pool-size facts - is
    derived and chained through all passes.  Fuel exhaustion is not excluded. *)
Theorem C12_parse_total_never_panics :
  forall (tree : T) (g : ghost) (earlier : list (list N)) (handle : N) (data : list N) (fuel : nat),
    R tree g ->
    (forall i o, TreeSpec.get tree i = Some o -> o_opcode o <> opFreed -> opInfo (o_infoIndex o) <> None) ->
    glive g 0 -> groot g 0 ->
    (exists o, TreeSpec.get tree 0 = Some o /\ o_opcode o = aml_pOpIntScopeBlock) ->
    TM3 tree g ->
    (forall i o, TreeSpec.get tree i = Some o -> o_opcode o <> opFreed -> o_opcode o = aml_pOpIntNamePathOrMethodCall ->
                 exists tbl sl, o_value o = Some (VBytes tbl sl)) ->
    pool_ok earlier tree ->
    (forall i o, TreeSpec.get tree i = Some o -> o_tableHandle o <> handle) ->
    image_small data ->
    (let L := N.of_nat (length (t_pool tree)) + 4 * N.of_nat (length data) + 2 in
     L + L * (8 * N.of_nat (length data) + 3) + 4 <= InvalidIndex) ->
    match parseAML_body fuel (init_state tree earlier handle data) with
    | Ok (_, s') => exists g', R (p_tree s') g' /\
        (forall i o, TreeSpec.get (p_tree s') i = Some o -> o_opcode o <> opFreed -> opInfo (o_infoIndex o) <> None) /\
        pool_ok (p_tables s') (p_tree s')
    | Panic => False
    | OutOfFuel => True
    end.
Proof. exact parseAML_body_never_panics. Qed.
Print Assumptions C12_parse_total_never_panics.

(** the same for [parseAML] itself (the model's entry point, with the fuel it passes) *)
Theorem C12_parse_total_parseAML_never_panics :
  forall (tree : T) (g : ghost) (earlier : list (list N)) (handle : N) (data : list N),
    R tree g ->
    (forall i o, TreeSpec.get tree i = Some o -> o_opcode o <> opFreed -> opInfo (o_infoIndex o) <> None) ->
    glive g 0 -> groot g 0 ->
    (exists o, TreeSpec.get tree 0 = Some o /\ o_opcode o = aml_pOpIntScopeBlock) ->
    TM3 tree g ->
    (forall i o, TreeSpec.get tree i = Some o -> o_opcode o <> opFreed -> o_opcode o = aml_pOpIntNamePathOrMethodCall ->
                 exists tbl sl, o_value o = Some (VBytes tbl sl)) ->
    pool_ok earlier tree ->
    (forall i o, TreeSpec.get tree i = Some o -> o_tableHandle o <> handle) ->
    image_small data ->
    (let L := N.of_nat (length (t_pool tree)) + 4 * N.of_nat (length data) + 2 in
     L + L * (8 * N.of_nat (length data) + 3) + 4 <= InvalidIndex) ->
    match parseAML tree earlier handle data with
    | Ok (_, s') => exists g', R (p_tree s') g' /\
        (forall i o, TreeSpec.get (p_tree s') i = Some o -> o_opcode o <> opFreed -> opInfo (o_infoIndex o) <> None) /\
        pool_ok (p_tables s') (p_tree s')
    | Panic => False
    | OutOfFuel => True
    end.
Proof. exact parseAML_never_panics. Qed.
Print Assumptions C12_parse_total_parseAML_never_panics.


(** THE FIRST TABLE, no abstract hypothesis left: over the pool CreateDefaultScopes builds from the empty tree ([ds_tree], the six
    default scopes), ParseAML of the image of ANY payload of bytes of at most 10000 bytes (handle 1) never panics and leaves a pool
    with [R], valid indexes and slices inside the table.  (The size bound is what the generous quadratic memory hypothesis of
    C12_parse_total_never_panics allows for a pool of six objects.)  Fuel exhaustion is not excluded. *)
Theorem C12_parse_total_first_table_never_panics :
  forall payload : list N,
    Forall (fun b => b < 256) payload -> N.of_nat (length payload) <= 10000 ->
    CreateDefaultScopes (@NewObjectTree value) 0 = Ok ds_tree /\
    match parseAML ds_tree [] 1 (table_image payload) with
    | Ok (_, s') => exists g', R (p_tree s') g' /\
        (forall i o, TreeSpec.get (p_tree s') i = Some o -> o_opcode o <> opFreed -> opInfo (o_infoIndex o) <> None) /\
        pool_ok (p_tables s') (p_tree s')
    | Panic => False
    | OutOfFuel => True
    end.
Proof. intros payload Hb Hl. split; [exact ds_create|exact (first_table_never_panics payload Hb Hl)]. Qed.
Print Assumptions C12_parse_total_first_table_never_panics.

(** the same about the model's entry point [load] (the function the correspondence harness runs against the Go parser): the
    outcome class of loading one table is never 2 (= panic) *)
Theorem C12_parse_total_load_first_table_never_panics :
  forall payload : list N,
    Forall (fun b => b < 256) payload -> N.of_nat (length payload) <= 10000 ->
    fst (fst (load [payload])) <> 2.
Proof. exact load_first_table_never_panics. Qed.
Print Assumptions C12_parse_total_load_first_table_never_panics.

(** WHAT A SUCCESSFUL ParseAML RETURNS: under the hypotheses of C12_parse_total_never_panics, when parseAML_body returns (any fuel) the
    pool satisfies [R], valid indexes and slices-inside, and when it returns SUCCESS ([b = true]) in addition: slot 0 is again a live
    parentless ScopeBlock, every name-path-or-call object carries a []byte, and the Methods are typed ([TM3]) - i.e. every hypothesis
    about the pool is RE-ESTABLISHED.  Proof: an abstract tree invariant is threaded through all passes (sections Inv of
    ParserTotalNonNamed.v / ParserTotalCalls.v with hypotheses Kmove / Kupd; deferred_tail_post, rest_post, rest2_post,
    parseAML_body_post), instantiated with "slot 0 holds a ScopeBlock and TM3": first pass LI3, connectNamedObjArgs SH3, resolve loop
    KS3, parseDeferredBlocks by the typing of the walk itself (the block proof now carries the concrete typing of Method objects
    together with "the object whose arguments are parsed / on top of the scope stack does not carry the name-path row", so the name path
    of a Method stays childless), last two passes TM3_move / TM3_upd. *)
Theorem C12_parse_total_post :
  forall (tree : T) (g : ghost) (earlier : list (list N)) (handle : N) (data : list N) (fuel : nat),
    R tree g ->
    (forall i o, TreeSpec.get tree i = Some o -> o_opcode o <> opFreed -> opInfo (o_infoIndex o) <> None) ->
    glive g 0 -> groot g 0 ->
    (exists o, TreeSpec.get tree 0 = Some o /\ o_opcode o = aml_pOpIntScopeBlock) ->
    TM3 tree g ->
    (forall i o, TreeSpec.get tree i = Some o -> o_opcode o <> opFreed -> o_opcode o = aml_pOpIntNamePathOrMethodCall ->
                 exists tbl sl, o_value o = Some (VBytes tbl sl)) ->
    pool_ok earlier tree ->
    (forall i o, TreeSpec.get tree i = Some o -> o_tableHandle o <> handle) ->
    image_small data ->
    (let L := N.of_nat (length (t_pool tree)) + 4 * N.of_nat (length data) + 2 in
     L + L * (8 * N.of_nat (length data) + 3) + 4 <= InvalidIndex) ->
    match parseAML_body fuel (init_state tree earlier handle data) with
    | Ok (b, s') => exists g', R (p_tree s') g' /\
        (forall i o, TreeSpec.get (p_tree s') i = Some o -> o_opcode o <> opFreed -> opInfo (o_infoIndex o) <> None) /\
        pool_ok (p_tables s') (p_tree s') /\
        (b = true -> glive g' 0 /\ groot g' 0 /\
           (forall i o, TreeSpec.get (p_tree s') i = Some o -> o_opcode o <> opFreed -> o_opcode o = aml_pOpIntNamePathOrMethodCall ->
                        exists tbl sl, o_value o = Some (VBytes tbl sl)) /\
           (exists o, TreeSpec.get (p_tree s') 0 = Some o /\ o_opcode o = aml_pOpIntScopeBlock) /\ TM3 (p_tree s') g')
    | Panic => False
    | OutOfFuel => True
    end.
Proof. exact parseAML_body_post3. Qed.
Print Assumptions C12_parse_total_post.

(** HANDLES: ParseAML never changes the handle of an existing slot and creates objects with the handle of the table being parsed only
    (partial-correctness judgement [hb] over every function of all six passes, ParserTotalHandle.v). *)
Theorem C12_parse_total_handles :
  forall (tree : T) (earlier : list (list N)) (h : N) (data : list N) (b : bool) (s' : pstate),
    (forall i o, TreeSpec.get tree i = Some o -> o_tableHandle o <= h) ->
    parseAML tree earlier h data = Ok (b, s') ->
    forall i o, TreeSpec.get (p_tree s') i = Some o -> o_tableHandle o <= h.
Proof. exact parseAML_handles. Qed.
Print Assumptions C12_parse_total_handles.

(** The concrete Method typing implies the abstract one, and each of the last two passes taken alone preserves it (from any state
    with [R], valid indexes, slices inside, []byte typing and a live parentless root). *)
Theorem C12_parse_total_methods_TM3_TM2 : forall (t : T) (g : ghost), TM3 t g -> TM2 t g.
Proof. exact TM3_TM2. Qed.
Print Assumptions C12_parse_total_methods_TM3_TM2.

Theorem C12_parse_total_partial_resolveMethodCalls_keeps_methods :
  forall (fuel : nat) (s : pstate) (g : ghost),
    R (p_tree s) g ->
    (forall i o, TreeSpec.get (p_tree s) i = Some o -> o_opcode o <> opFreed -> opInfo (o_infoIndex o) <> None) ->
    pool_ok (p_tables s) (p_tree s) ->
    (forall i o, TreeSpec.get (p_tree s) i = Some o -> o_opcode o <> opFreed -> o_opcode o = aml_pOpIntNamePathOrMethodCall ->
                 exists tbl sl, o_value o = Some (VBytes tbl sl)) ->
    glive g 0 -> groot g 0 -> TM3 (p_tree s) g ->
    match resolveMethodCalls fuel 0 s with
    | Ok (_, s') => exists g', R (p_tree s') g' /\
        (forall i o, TreeSpec.get (p_tree s') i = Some o -> o_opcode o <> opFreed -> opInfo (o_infoIndex o) <> None) /\
        pool_ok (p_tables s') (p_tree s') /\
        (forall i o, TreeSpec.get (p_tree s') i = Some o -> o_opcode o <> opFreed -> o_opcode o = aml_pOpIntNamePathOrMethodCall ->
                     exists tbl sl, o_value o = Some (VBytes tbl sl)) /\
        glive g' 0 /\ groot g' 0 /\ TM3 (p_tree s') g'
    | Panic => False
    | OutOfFuel => True
    end.
Proof. exact resolveMethodCalls_keeps_TM3. Qed.
Print Assumptions C12_parse_total_partial_resolveMethodCalls_keeps_methods.

Theorem C12_parse_total_partial_connectNonNamedObjArgs_keeps_methods :
  forall (fuel : nat) (s : pstate) (g : ghost),
    R (p_tree s) g ->
    (forall i o, TreeSpec.get (p_tree s) i = Some o -> o_opcode o <> opFreed -> opInfo (o_infoIndex o) <> None) ->
    pool_ok (p_tables s) (p_tree s) ->
    (forall i o, TreeSpec.get (p_tree s) i = Some o -> o_opcode o <> opFreed -> o_opcode o = aml_pOpIntNamePathOrMethodCall ->
                 exists tbl sl, o_value o = Some (VBytes tbl sl)) ->
    glive g 0 -> groot g 0 -> TM3 (p_tree s) g ->
    match connectNonNamedObjArgs fuel 0 s with
    | Ok (_, s') => exists g', R (p_tree s') g' /\
        (forall i o, TreeSpec.get (p_tree s') i = Some o -> o_opcode o <> opFreed -> opInfo (o_infoIndex o) <> None) /\
        pool_ok (p_tables s') (p_tree s') /\
        (forall i o, TreeSpec.get (p_tree s') i = Some o -> o_opcode o <> opFreed -> o_opcode o = aml_pOpIntNamePathOrMethodCall ->
                     exists tbl sl, o_value o = Some (VBytes tbl sl)) /\
        glive g' 0 /\ groot g' 0 /\ TM3 (p_tree s') g'
    | Panic => False
    | OutOfFuel => True
    end.
Proof. exact connectNonNamedObjArgs_keeps_TM3. Qed.
Print Assumptions C12_parse_total_partial_connectNonNamedObjArgs_keeps_methods.

(** A SEQUENCE OF TABLES, UNCONDITIONAL.  [INV] is the invariant of the load loop: the hypotheses of C12_parse_total_never_panics about
    the pool (R, valid indexes, live parentless ScopeBlock root, Method typing TM3, []byte typing, slices inside the tables loaded so
    far) and "every handle in the pool is below the next handle".  It holds for the pool of CreateDefaultScopes with handle 1 (ds_INV),
    and a SUCCESSFUL ParseAML re-establishes it for the next handle (C12_parse_total_parseAML_keeps_invariant).  [fits] is the size
    hypothesis of one table: image_small (bytes below 256, image of at most 2^28 bytes) and the quadratic memory bound over the pool at
    that moment; [SEQ] asks [fits] for each table in turn, over the pool the previous successful loads left - NOTHING else.
    C12_parse_total_load_sequence_never_panics: from any pool with INV, loading ANY NUMBER of tables (handles h, h+1, ...; the loop
    stops at the first table that fails to parse) never panics.  C12_parse_total_load_never_panics: the model's entry point [load] (the
    function the correspondence harness runs against the Go parser: CreateDefaultScopes, then the tables with handles 1, 2, ...) never
    has outcome class 2 (= panic).  Fuel exhaustion (class 3) is not excluded.
    (Audit note on the size of [fits]: it is L + L * (8 * len + 3) + 4 <= 0xffffffff with L = pool slots + 4 * len + 2, i.e. about
    32 * len^2 <= 2^32 for a small pool: over the six default scopes an image (header included) may have at most about 11.5 KB - the
    8648-byte DSDT.aml of /repo's tabletest fits (C12_load_never_panics_real_size), NO image of 12000 bytes does
    (C12_fits_excludes_12000_bytes), and every table loaded before makes the bound tighter.  Larger tables are outside these three
    theorems.  The handle [h] is an unbounded number here; in Go it is a uint8.) *)
Theorem C12_parse_total_parseAML_keeps_invariant :
  forall (tree : T) (g : ghost) (earlier : list (list N)) (h : N) (data : list N) (s : pstate),
    INV tree g earlier h -> fits tree data -> parseAML tree earlier h data = Ok (true, s) ->
    exists g', INV (p_tree s) g' (earlier ++ [data]) (h + 1).
Proof. exact parseAML_keeps_INV. Qed.
Print Assumptions C12_parse_total_parseAML_keeps_invariant.

Theorem C12_parse_total_load_sequence_never_panics :
  forall (payloads : list (list N)) (tree : T) (g : ghost) (earlier : list (list N)) (h : N),
    INV tree g earlier h -> SEQ tree earlier h payloads -> fst (fst (load_tables tree earlier h payloads)) <> 2.
Proof. exact load_tables_never_panics. Qed.
Print Assumptions C12_parse_total_load_sequence_never_panics.

Theorem C12_parse_total_load_never_panics :
  forall payloads : list (list N), SEQ ds_tree [] 1 payloads -> fst (fst (load payloads)) <> 2.
Proof. exact load_never_panics. Qed.
Print Assumptions C12_parse_total_load_never_panics.

(** NEVER A HANG, pass 2: connectNamedObjArgs run from any live object of any state with [R], valid indexes and slices inside, with
    at least TWICE AS MUCH FUEL AS THE POOL HAS SLOTS, RETURNS - neither Panic nor OutOfFuel - and re-establishes the three.  The
    measure: the walk from an object needs at most twice the size of its subtree; the loop over the first children of an object,
    the last ones done, twice the size of the subtrees still to visit plus the number of the children done plus one (that bounds
    the iterations of attachSiblingsAsArgs too: it stops when the siblings are used up).  The specifications of
    ParserTotalConn2.v now say "out of fuel only if the fuel is below the measure"; the size of a subtree is the length of a
    duplicate-free list of live descendants, hence at most the pool size (ParserTotalFuel.v).  ParseAML's own fuel for the pass,
    parse_fuel (table length + slots of the pool it started with) = 64 + 8 * that, is at least twice the pool size as long as the first
    pass has created at most 4 objects per byte + 2 (C12_parse_total_fuel_enough) - the bound the first-pass theorems give. *)
Theorem C12_parse_total_partial_fuel_connectNamedObjArgs :
  forall (fuel : nat) (x : N) (s : pstate) (g : ghost),
    R (p_tree s) g ->
    (forall i o, TreeSpec.get (p_tree s) i = Some o -> o_opcode o <> opFreed -> opInfo (o_infoIndex o) <> None) ->
    pool_ok (p_tables s) (p_tree s) -> glive g x ->
    (2 * length (t_pool (p_tree s)) <= fuel)%nat ->
    match connectNamedObjArgs fuel x s with
    | Ok (_, s') => exists g', R (p_tree s') g' /\
        (forall i o, TreeSpec.get (p_tree s') i = Some o -> o_opcode o <> opFreed -> opInfo (o_infoIndex o) <> None) /\
        pool_ok (p_tables s') (p_tree s')
    | Panic => False
    | OutOfFuel => False
    end.
Proof. exact connectNamedObjArgs_returns. Qed.
Print Assumptions C12_parse_total_partial_fuel_connectNamedObjArgs.

Theorem C12_parse_total_fuel_enough :
  forall len pool0 pool : nat, (pool <= pool0 + 4 * len + 2)%nat -> (2 * pool <= parse_fuel (len + pool0))%nat.
Proof. exact parse_fuel_enough. Qed.
Print Assumptions C12_parse_total_fuel_enough.

(** NEVER A HANG, passes 5 and 6: resolveMethodCalls and connectNonNamedObjArgs from the root - each alone, and chained as ParseAML
    chains them ([parse_tail2]) - with at least twice as much fuel as the pool has slots RETURN (neither Panic nor OutOfFuel) from any
    state with [R], valid indexes, slices inside, the []byte typing and a live parentless root.  Same measure as for pass 2, plus
    the siblings that FOLLOW the object (attachSiblingsAsArgs with useParent may take them: PO2 / PL2 of ParserTotalConn.v); to
    carry the sizes of the subtrees still to visit across a call, the specifications of ParserTotalNonNamed.v / ParserTotalCalls.v
    now also say which child lists a walk leaves alone (everything outside the subtree and its parent) and that the lists of
    following siblings only shrink.  The pool does not grow in these passes, so ParseAML's fuel (C12_parse_total_fuel_enough)
    suffices.  NOT covered: the resolve loop and parseDeferredBlocks (fuel of passes 3 and 4), hence no combined "ParseAML returns".
    (Audit note: "suffices" is proved for pass 2 only.  The fuel hypothesis below is about the pool these passes START with, i.e. the
    pool AFTER parseDeferredBlocks, which can grow the pool; C12_parse_total_fuel_enough needs pool <= pool0 + 4 * len + 2, the bound
    proved after the first pass, whereas the bound proved after pass 4 is the quadratic one of [fits].  That ParseAML's own fuel
    satisfies 2 * pool <= fuel when passes 5 and 6 start is therefore NOT proved (it does on every input tried, see notes/c12res.md 2b;
    C12_fuel_real_state_nonvacuous instantiates the theorems at a parser-produced pool with ParseAML's fuel).) *)
Theorem C12_parse_total_partial_fuel_resolveMethodCalls :
  forall (fuel : nat) (s : pstate) (g : ghost),
    R (p_tree s) g ->
    (forall i o, TreeSpec.get (p_tree s) i = Some o -> o_opcode o <> opFreed -> opInfo (o_infoIndex o) <> None) ->
    pool_ok (p_tables s) (p_tree s) ->
    (forall i o, TreeSpec.get (p_tree s) i = Some o -> o_opcode o <> opFreed -> o_opcode o = aml_pOpIntNamePathOrMethodCall ->
                 exists tbl sl, o_value o = Some (VBytes tbl sl)) ->
    glive g 0 -> groot g 0 -> (2 * length (t_pool (p_tree s)) <= fuel)%nat ->
    match resolveMethodCalls fuel 0 s with
    | Ok (_, s') => exists g', R (p_tree s') g' /\
        (forall i o, TreeSpec.get (p_tree s') i = Some o -> o_opcode o <> opFreed -> opInfo (o_infoIndex o) <> None) /\
        pool_ok (p_tables s') (p_tree s') /\
        (forall i o, TreeSpec.get (p_tree s') i = Some o -> o_opcode o <> opFreed -> o_opcode o = aml_pOpIntNamePathOrMethodCall ->
                     exists tbl sl, o_value o = Some (VBytes tbl sl)) /\
        glive g' 0 /\ groot g' 0 /\ length (t_pool (p_tree s')) = length (t_pool (p_tree s))
    | Panic => False
    | OutOfFuel => False
    end.
Proof. exact resolveMethodCalls_returns. Qed.
Print Assumptions C12_parse_total_partial_fuel_resolveMethodCalls.

Theorem C12_parse_total_partial_fuel_connectNonNamedObjArgs :
  forall (fuel : nat) (s : pstate) (g : ghost),
    R (p_tree s) g ->
    (forall i o, TreeSpec.get (p_tree s) i = Some o -> o_opcode o <> opFreed -> opInfo (o_infoIndex o) <> None) ->
    pool_ok (p_tables s) (p_tree s) ->
    glive g 0 -> groot g 0 -> (2 * length (t_pool (p_tree s)) <= fuel)%nat ->
    match connectNonNamedObjArgs fuel 0 s with
    | Ok (_, s') => exists g', R (p_tree s') g' /\
        (forall i o, TreeSpec.get (p_tree s') i = Some o -> o_opcode o <> opFreed -> opInfo (o_infoIndex o) <> None) /\
        pool_ok (p_tables s') (p_tree s')
    | Panic => False
    | OutOfFuel => False
    end.
Proof. exact connectNonNamedObjArgs_returns. Qed.
Print Assumptions C12_parse_total_partial_fuel_connectNonNamedObjArgs.

Theorem C12_parse_total_partial_fuel_tail2 :
  forall (f5 f6 : nat) (s : pstate) (g : ghost),
    R (p_tree s) g ->
    (forall i o, TreeSpec.get (p_tree s) i = Some o -> o_opcode o <> opFreed -> opInfo (o_infoIndex o) <> None) ->
    pool_ok (p_tables s) (p_tree s) ->
    (forall i o, TreeSpec.get (p_tree s) i = Some o -> o_opcode o <> opFreed -> o_opcode o = aml_pOpIntNamePathOrMethodCall ->
                 exists tbl sl, o_value o = Some (VBytes tbl sl)) ->
    glive g 0 -> groot g 0 ->
    (2 * length (t_pool (p_tree s)) <= f5)%nat -> (2 * length (t_pool (p_tree s)) <= f6)%nat ->
    match parse_tail2 f5 f6 s with
    | Ok (_, s') => exists g', R (p_tree s') g' /\
        (forall i o, TreeSpec.get (p_tree s') i = Some o -> o_opcode o <> opFreed -> opInfo (o_infoIndex o) <> None) /\
        pool_ok (p_tables s') (p_tree s')
    | Panic => False
    | OutOfFuel => False
    end.
Proof. exact tail2_returns. Qed.
Print Assumptions C12_parse_total_partial_fuel_tail2.

(** NEVER A HANG, the inner loops of the resolve passes (pass 3): they run on their OWN fuel, poolFuel = pool size + 2, and it
    suffices - insideSelf (relocateNamedObjects: the ancestors of the target, one unit per ancestor; the depth of a live object is below
    the pool size) and scopeOf (both passes: the children of the target up to its ScopeBlock, one unit per child) return without a
    state change from any state with [R], valid indexes and slices inside.  (For moveContents the existing lemma move_all of
    ParserTotalMerge.v already demands and gets "number of children < fuel".)  NOT covered: the walks mergeScopeDirectives /
    relocateNamedObjects themselves and the outer loop - a moved object can be visited a second time below its new scope, so the
    subtree-size measure of the other walks does not apply unchanged; see notes/c12res.md. *)
Theorem C12_parse_total_partial_fuel_insideSelf :
  forall (a obj : N) (s : pstate) (g : ghost),
    TI s g -> glive g a ->
    match (mlet pf <~ poolFuel ;; insideSelf_go pf (Some a) obj) s with
    | Ok (_, s') => s' = s
    | Panic => False
    | OutOfFuel => False
    end.
Proof. exact insideSelf_poolFuel. Qed.
Print Assumptions C12_parse_total_partial_fuel_insideSelf.

Theorem C12_parse_total_partial_fuel_scopeOf :
  forall (target : N) (s : pstate) (g : ghost),
    TI s g -> glive g target ->
    match scopeOf target s with
    | Ok (_, s') => s' = s
    | Panic => False
    | OutOfFuel => False
    end.
Proof. exact scopeOf_returns. Qed.
Print Assumptions C12_parse_total_partial_fuel_scopeOf.
