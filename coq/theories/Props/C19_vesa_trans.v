(** C19 - tie of the VESA framebuffer console model to the source BY TRANSLATION.
    Gen/Trans_console_vesa.v is regenerated on every run by gen/gotrans (extended mode) from
    kernel/device/video/console/vesa_fb.go: VesaFbConsole becomes a record (bpp, bytesPerPixel, fbPhysAddr, the
    []uint8 framebuffer as a list, width, height, offsetY, pitch, colorInfo / font as "is non-nil", widthInChars,
    heightInChars, the palette as the list of its color.RGBA entries, default colours, clear character); Dimensions,
    DefaultColors, fbOffset, packColor16/24, fill8/16/24, Fill, Scroll, write8/16/24 and Write become Gallina
    functions returning [gres] (value / GPanic = index out of range / GFuel = a loop ran out of fuel).  What the code
    reads through the two pointers - cons.font.{GlyphWidth, GlyphHeight, BytesPerRow, Data} and
    cons.colorInfo.{Red,Green,Blue}{MaskSize,Position} - are extra parameters of the translated functions.
    The hand-written model Console/Vesa.v ([fb_offset], [pack_color16/24], [vesa_write], [vesa_fill], [vesa_scroll];
    framebuffer as Console/Mem.v memory, loops on the binary fuel [fuel32] = 2^33), about which the C19 (and C18)
    theorems are proved, is shown equal to that translation for EVERY console [c], framebuffer [m] and arguments:
    whenever the model's run ends - [Ok m'] or [Panic] - the translation with fuel >= fuel32 returns
    [T.to_gs c phys m'] resp. GPanic; under C19's geometry [vesa_wf] the runs end with [Ok]
    ([C19_vesa_trans_no_panic]).  [T.to_gs c phys m]: the record with the model's fields, the table of [load m] over
    0..flen-1 as framebuffer, the palette entries (r, g, b, 255) and the generated constants; [T.fdata c] the table
    of the font's data, [T.fgw/fgh/fbpr c] its glyph width / height / bytes per row (0 / empty without a font).
    [T.bytes_ok c]: the palette components in range and the colour-info mask sizes are bytes (they are uint8 in Go).
    The 32-bit formats with a component in the 4th byte (known finding vesa:32bpp-high-byte-component-dropped) are
    inside these statements: model and code drop that byte alike.
    Statements only; proofs are in Console/VesaTrans.v and Console/VesaTransNoPanic.v. *)
From Coq Require Import NArith PArith String List.
From FF Require Import Lib.Word Lib.GoOps Gen.Consts_device_tty Gen.Consts_device_video_console Gen.Trans_console_vesa.
From FF Require Import Console.Mem Console.Loop Console.Vesa Console.VesaProofs.
From FF Require Console.VesaTrans Console.VesaTransNoPanic.
Module T := FF.Console.VesaTrans.
Local Open Scope N_scope.

Theorem C19_vesa_queries_are_translation :
  forall (c : vesa) (phys : N) (m : fbuf) (dim x y : N),
    go_console_VesaFbConsole_Dimensions (T.to_gs c phys m) dim =
      GOk (T.to_gs c phys m, if dim =? console_Characters then (wchars c, hchars c) else (pw c, ph c)) /\
    go_console_VesaFbConsole_DefaultColors (T.to_gs c phys m) = GOk (T.to_gs c phys m, (vesa_defaultFg, vesa_defaultBg)) /\
    go_console_VesaFbConsole_fbOffset (T.to_gs c phys m) x y = GOk (T.to_gs c phys m, fb_offset c x y).
Proof. exact T.queries_trans. Qed.
Print Assumptions C19_vesa_queries_are_translation.

Theorem C19_vesa_packColor_is_translation :
  forall (c : vesa) (phys : N) (m : fbuf) (idx : N),
    T.bytes_ok c ->
    go_console_VesaFbConsole_packColor16 (T.to_gs c phys m) idx (bsize (cinfo c)) (bpos (cinfo c)) (gsize (cinfo c)) (gpos (cinfo c))
      (rsize (cinfo c)) (rpos (cinfo c)) =
      (if idx <? pal_len c then GOk (T.to_gs c phys m, pack_color16 c idx) else GPanic) /\
    go_console_VesaFbConsole_packColor24 (T.to_gs c phys m) idx (bsize (cinfo c)) (bpos (cinfo c)) (gsize (cinfo c)) (gpos (cinfo c))
      (rsize (cinfo c)) (rpos (cinfo c)) =
      (if idx <? pal_len c then GOk (T.to_gs c phys m, pack_color24 c idx) else GPanic).
Proof. exact T.packColor_trans. Qed.
Print Assumptions C19_vesa_packColor_is_translation.

Theorem C19_vesa_write_is_translation :
  forall (c : vesa) (phys : N) (m : fbuf) (ch fg bg x y : N) (fuel : nat),
    ch < 256 -> T.bytes_ok c -> (Pos.to_nat fuel32 <= fuel)%nat ->
    match vesa_write c m ch fg bg x y with
    | Ok m' =>
        go_console_VesaFbConsole_Write fuel (T.to_gs c phys m) ch fg bg x y (bsize (cinfo c)) (bpos (cinfo c)) (gsize (cinfo c))
          (gpos (cinfo c)) (rsize (cinfo c)) (rpos (cinfo c)) (T.fbpr c) (T.fdata c) (T.fgh c) (T.fgw c) = GOk (T.to_gs c phys m', tt)
    | Panic _ =>
        go_console_VesaFbConsole_Write fuel (T.to_gs c phys m) ch fg bg x y (bsize (cinfo c)) (bpos (cinfo c)) (gsize (cinfo c))
          (gpos (cinfo c)) (rsize (cinfo c)) (rpos (cinfo c)) (T.fbpr c) (T.fdata c) (T.fgh c) (T.fgw c) = GPanic
    | OutOfFuel _ => True
    end.
Proof. exact T.write_is_translation_explicit. Qed.
Print Assumptions C19_vesa_write_is_translation.

Theorem C19_vesa_fill_is_translation :
  forall (c : vesa) (phys : N) (m : fbuf) (x y width height fg bg : N) (fuel : nat),
    T.bytes_ok c -> (Pos.to_nat fuel32 <= fuel)%nat ->
    match vesa_fill c m x y width height fg bg with
    | Ok m' =>
        go_console_VesaFbConsole_Fill fuel (T.to_gs c phys m) x y width height fg bg (bsize (cinfo c)) (bpos (cinfo c)) (gsize (cinfo c))
          (gpos (cinfo c)) (rsize (cinfo c)) (rpos (cinfo c)) (T.fgh c) (T.fgw c) = GOk (T.to_gs c phys m', tt)
    | Panic _ =>
        go_console_VesaFbConsole_Fill fuel (T.to_gs c phys m) x y width height fg bg (bsize (cinfo c)) (bpos (cinfo c)) (gsize (cinfo c))
          (gpos (cinfo c)) (rsize (cinfo c)) (rpos (cinfo c)) (T.fgh c) (T.fgw c) = GPanic
    | OutOfFuel _ => True
    end.
Proof. exact T.fill_is_translation_explicit. Qed.
Print Assumptions C19_vesa_fill_is_translation.

Theorem C19_vesa_scroll_is_translation :
  forall (c : vesa) (phys : N) (m : fbuf) (dir lines : N) (fuel : nat),
    (Pos.to_nat fuel32 <= fuel)%nat ->
    match vesa_scroll c m dir lines with
    | Ok m' => go_console_VesaFbConsole_Scroll fuel (T.to_gs c phys m) dir lines (T.fgh c) = GOk (T.to_gs c phys m', tt)
    | Panic _ => go_console_VesaFbConsole_Scroll fuel (T.to_gs c phys m) dir lines (T.fgh c) = GPanic
    | OutOfFuel _ => True
    end.
Proof. exact T.scroll_is_translation_explicit. Qed.
Print Assumptions C19_vesa_scroll_is_translation.

Theorem C19_vesa_trans_no_panic :
  forall (c : vesa) (f : font) (d : depth) (phys : N) (m : fbuf) (fuel : nat),
    vesa_wf c f d m -> T.bytes_ok c -> (Pos.to_nat fuel32 <= fuel)%nat ->
    (forall ch fg bg x y, ch < 256 -> fg < 256 -> bg < 256 -> x < two32 -> y < two32 ->
       exists m', vesa_write c m ch fg bg x y = Ok m' /\ vesa_wf c f d m' /\
         go_console_VesaFbConsole_Write fuel (T.to_gs c phys m) ch fg bg x y (bsize (cinfo c)) (bpos (cinfo c)) (gsize (cinfo c))
           (gpos (cinfo c)) (rsize (cinfo c)) (rpos (cinfo c)) (T.fbpr c) (T.fdata c) (T.fgh c) (T.fgw c) = GOk (T.to_gs c phys m', tt)) /\
    (forall x y width height fg bg, bg < 256 ->
       exists m', vesa_fill c m x y width height fg bg = Ok m' /\ vesa_wf c f d m' /\
         go_console_VesaFbConsole_Fill fuel (T.to_gs c phys m) x y width height fg bg (bsize (cinfo c)) (bpos (cinfo c)) (gsize (cinfo c))
           (gpos (cinfo c)) (rsize (cinfo c)) (rpos (cinfo c)) (T.fgh c) (T.fgw c) = GOk (T.to_gs c phys m', tt)) /\
    (forall dir lines, lines < two32 -> dir = console_ScrollDirUp \/ dir = console_ScrollDirDown ->
       exists m', vesa_scroll c m dir lines = Ok m' /\ vesa_wf c f d m' /\
         go_console_VesaFbConsole_Scroll fuel (T.to_gs c phys m) dir lines (T.fgh c) = GOk (T.to_gs c phys m', tt)).
Proof. exact FF.Console.VesaTransNoPanic.trans_no_panic. Qed.
Print Assumptions C19_vesa_trans_no_panic.
