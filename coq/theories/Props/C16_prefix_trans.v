(** C16 - tie of the per-line prefix writer to the source BY TRANSLATION.
    Gen/Trans_kfmt_prefix.v is regenerated on every run by gen/gotrans (extended mode) from
    kernel/kfmt/prefix_writer.go: the PrefixWriter struct becomes a record (Sink = "is non-nil", Prefix,
    bytesAfterPrefix, and the trace of the calls made on the sink, most recent first, as
    [GCall "Write" [GBytes b]]); Write becomes a Gallina function of the record, the argument slice and an
    ORACLE [o_Write] that gives what each Sink.Write returns as a function of the trace.
    The hand-written model Kfmt/Prefix.v ([prefix_write], about which C16's prefix theorems are proved)
    describes only sinks that accept every Write completely (n = len, err = nil) - the early ring buffer
    and a terminal - and has no error-return paths; accordingly the equality is stated for the oracle
    [accept_all] of such a sink: for every prefix, bytesAfterPrefix, trace and argument p (len(p) an int)
    and fuel > len(p) the translation returns (len(p), nil), has made exactly the model's Writes in the
    model's order, and leaves the model's bytesAfterPrefix.  (The translation itself covers failing and
    short-writing sinks: any oracle may be supplied; the model says nothing about them.)
    Statements only; proofs are in Kfmt/PrefixTrans.v. *)
From Coq Require Import NArith String List.
From FF Require Import Lib.GoOps Lib.GoOpsExt Gen.Trans_kfmt_prefix Kfmt.Fmt Kfmt.Prefix Kfmt.PrefixTrans.
Import ListNotations.
Local Open Scope N_scope.

Theorem C16_prefix_write_is_translation :
  forall (prefix : list N) (bap : N) (tr : list gcall) (p : list N) (fuel : nat),
    glen p < 2 ^ 63 -> (length p < fuel)%nat ->
    go_kfmt_PrefixWriter_Write fuel (mk_go_kfmt_PrefixWriter true prefix bap tr) p
      (fun t => match t with GCall _ (GBytes b :: _) :: _ => (glen b, None) | _ => (0, None) end) =
    let '(writes, bap') := prefix_write prefix bap p in
    GOk (mk_go_kfmt_PrefixWriter true prefix bap'
           (rev (map (fun c => GCall "Write" [GBytes c]) writes) ++ tr),
         (glen p, None)).
Proof. exact prefix_write_is_translation. Qed.
Print Assumptions C16_prefix_write_is_translation.

(** with a nil sink the first Write that reaches it panics (the model has no such state) *)
Theorem C16_prefix_write_nil_sink_panics :
  forall (prefix : list N) (tr : list gcall) (x : N) (p : list N) (fuel : nat) (o : list gcall -> N * option string),
    go_kfmt_PrefixWriter_Write fuel (mk_go_kfmt_PrefixWriter false prefix 0 tr) (x :: p) o = GPanic.
Proof. exact prefix_write_nil_sink. Qed.
Print Assumptions C16_prefix_write_nil_sink_panics.
