(** C10 + C05 - the two translation ties that meet at multiboot.VisitElfSections, composed.

    Props/C05_trans.v ties setupPDTForKernel (kernel/mm/vmm/pdt.go) to the model [setup_kernel] by translation; that
    function CONSUMES VisitElfSections: its section-visitor closure is translated as a visit over an extra parameter
    [sections] = "the (flags, address, size) triples the visitor function delivers", instantiated there with
    [K.nonempty secs] (the non-empty entries of the model's section table), and the tie says explicitly that what
    multiboot.VisitElfSections delivers is C10's subject.  Props/C10_trans.v ties VisitElfSections itself (it RECEIVES the
    visitor: each call is an event GCall "visitor" [GBytes name; GNum flags; GNum address; GNum size]).

    Here, for every well-formed information block: [TC5.block_secs mb] is the section table of the block's first ELF tag
    as the C05 model sees one (flags cut to the 32 bits of ElfSectionFlag, address, size; empty sections included), and
    [TC5.delivered tr] reads the (flags, address, size) triples off the visitor calls on a trace, in call order.  Then
    (1) the REGENERATED VisitElfSections runs without fault, leaves the memory alone and makes the visitor calls [tr];
    (2) what these calls deliver IS [K.nonempty (block_secs mb)] - the C05 tie's instantiation of [sections];
    (3) the REGENERATED setupPDTForKernel run over exactly what was delivered ends like the model [setup_kernel] over the
        block's section table: machine state, error, sequence of seam calls; a stray access of the model is a panic
        (for every kernel offset, machine state and allocator behaviour; hypotheses of C05_setup_kernel_is_translation,
        of which "addresses and sizes are 64-bit" now FOLLOWS from the block's well-formedness, and the
        fuel condition [K.fuel_ok] ranges over the MAPPED sections only (non-empty and at or above the kernel offset): for the all-zero null section that every ELF
        table starts with, the page count `size - 1` would wrap to 2^52 and no fuel would do).
    Still assumed, as in both ties: the two seam conventions (a closure run item by item / events) describe the same Go
    call; the closure ignores the section name; the visitor does not write the information block.
    Proofs in Multiboot/DecodeTransC05.v. *)
From Coq Require Import String NArith List Bool.
From FF Require Import Lib.Word Lib.GoOps Gen.Consts_multiboot Gen.Trans_multiboot Multiboot.Model Multiboot.Spec.
From FF Require Gen.Trans_vmm_kernel Vmm.Pt Vmm.KernelTrans Vmm.PdtTrans Vmm.MapTrans Multiboot.DecodeTrans Multiboot.DecodeTransC05.
Module T := FF.Multiboot.DecodeTrans.
Module TC5 := FF.Multiboot.DecodeTransC05.
Module VP := FF.Vmm.Pt.
Module K := FF.Vmm.KernelTrans.
Module PT := FF.Vmm.PdtTrans.
Module MT := FF.Vmm.MapTrans.
Import ListNotations.
Local Open Scope N_scope.

Theorem C10_C05_setupPDT_through_visitElfSections :
  forall (l : layout) (mb : mbinfo) (fuel : nat) (off : N) (s : VP.st) (tr0 : list gcall) (kfuel : nat),
    mbinfo_wf (l_saddr l) (l_strtab l) mb -> layout_wf l (encode mb) ->
    (find_fuel (mem_of l (encode mb)) <= fuel)%nat -> (S (total_len (mem_of l (encode mb))) <= fuel)%nat ->
    65536 <= N.of_nat fuel ->
    off < two64 -> VP.last s < two64 -> K.fuel_ok kfuel off (TC5.block_secs mb) s ->
    exists tr : list gcall,
      go_multiboot_VisitElfSections T.mld fuel (T.mkw [] (mem_of l (encode mb))) (l_info l) =
        GOk (T.mkw tr (mem_of l (encode mb)), tt) /\
      TC5.delivered tr = K.nonempty (TC5.block_secs mb) /\
      Trans_vmm_kernel.go_vmm_setupPDTForKernel kfuel (Trans_vmm_kernel.mk_go_vmm_world tr0 s) off
          K.o_kactivate K.o_kinit K.o_kmap MT.o_alloc K.o_translate (TC5.delivered tr) =
        match K.setup_kernel_tr off (TC5.block_secs mb) s tr0 with
        | None => GPanic
        | Some (s', e, tr') => GOk (Trans_vmm_kernel.mk_go_vmm_world tr' s', PT.err_of e)
        end /\
      match K.setup_kernel_tr off (TC5.block_secs mb) s tr0 with
      | None => VP.Stray
      | Some (s', e, _) => VP.Ok (s', e)
      end = VP.setup_kernel off (TC5.block_secs mb) s.
Proof. exact TC5.setupPDT_through_visitElfSections. Qed.
Print Assumptions C10_C05_setupPDT_through_visitElfSections.

(** the sections the C10 theorems report for a block, name dropped, are the non-empty entries of its section table *)
Theorem C10_C05_reported_sections_are_the_table :
  forall (strtab : list N) (mb : mbinfo),
    map TC5.sec3_of (expected_sections strtab mb) = K.nonempty (TC5.block_secs mb).
Proof. exact TC5.nonempty_block_secs. Qed.
Print Assumptions C10_C05_reported_sections_are_the_table.

(** addresses and sizes of a well-formed block's section table are 64-bit (a hypothesis of the C05 tie, discharged) *)
Theorem C10_C05_block_sections_ok :
  forall (sa : N) (st : list N) (mb : mbinfo), mbinfo_wf sa st mb -> Forall K.sec_ok (TC5.block_secs mb).
Proof. exact TC5.block_secs_ok. Qed.
Print Assumptions C10_C05_block_sections_ok.
