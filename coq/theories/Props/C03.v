(** C03 — frame accounting: all usable RAM allocatable, bad frees rejected, no crash.
    Statements only; every proof is [exact <lemma from Pmm/TopProofs.v>].
    Vocabulary as in Props/C01.v.  Go run-time panics (bitmap index out of range) are the explicit outcomes
    [InitPanic] / [FreePanic] of the model, a loop that cannot end is [InitHang], allocator state outside
    the reserved block is [InitStray]; AllocFrame has no panicking operation. *)
From Coq Require Import NArith List Sorted Bool.
From FF Require Import Lib.Word Gen.Consts_mm_pmm Pmm.Boot Pmm.BootProofs Pmm.Bitmap Pmm.BitmapProofs Pmm.HistoryProofs
  Pmm.InitProofs Pmm.TopProofs Props.C01_examples.
Import ListNotations.
Local Open Scope N_scope.

(** Init never crashes: for every well-formed map and kernel placement and every behaviour of the two seams
    the outcome is success or one of the three errors — never a panic, a hang or a stray write. *)
Theorem C03_init_total :
  forall (m : memmap) (kstart kend limit mapfail : N),
    WFmap m -> WFkernel m kstart kend -> small_map m ->
    match fst (pmm_init m kstart kend limit mapfail) with
    | InitOk _ _ | InitErrReserve | InitErrMap | InitErrOOM => True
    | InitPanic | InitHang | InitStray => False
    end.
Proof. exact init_total. Qed.
Print Assumptions C03_init_total.

(** With seams that do not fail, Init succeeds or reports out-of-memory. *)
Theorem C03_init_ok_or_oom :
  forall (m : memmap) (kstart kend : N),
    WFmap m -> WFkernel m kstart kend -> small_map m ->
    match fst (pmm_init m kstart kend two64 0) with
    | InitOk _ _ | InitErrOOM => True
    | _ => False
    end.
Proof. exact init_ok_or_oom. Qed.
Print Assumptions C03_init_ok_or_oom.

(** After success: totalPages is the number of whole frames of available RAM and
    totalPages - reservedPages is the number of usable frames (in a pool, not kernel, not early-boot). *)
Theorem C03_init_stats :
  forall (m : memmap) (kstart kend limit mapfail : N) (a0 : balloc) (b0 : bstate) (obs : init_obs),
    WFmap m -> WFkernel m kstart kend -> small_map m ->
    pmm_init m kstart kend limit mapfail = (InitOk a0 b0, obs) ->
    a_total a0 = total_frames m /\ a_reserved a0 <= a_total a0 /\
    a_total a0 - a_reserved a0 = usable_count m kstart kend (early_frames obs).
Proof.
  intros m kstart kend limit mapfail a0 b0 obs Hm Hk Hs Hi.
  exact (init_stats m kstart kend limit mapfail Hm Hk Hs a0 b0 obs Hi).
Qed.
Print Assumptions C03_init_stats.

(** Exactly the usable frames can be allocated, then out-of-memory is reported. *)
Theorem C03_drain_count :
  forall (m : memmap) (kstart kend limit mapfail : N) (a0 : balloc) (b0 : bstate) (obs : init_obs),
    WFmap m -> WFkernel m kstart kend -> small_map m ->
    pmm_init m kstart kend limit mapfail = (InitOk a0 b0, obs) ->
    exists fs, N.of_nat (length fs) = usable_count m kstart kend (early_frames obs) /\
      map fst (run a0 (repeat OpAlloc (length fs + 1))) = map (fun f => RAlloc (Some f)) fs ++ [RAlloc None].
Proof.
  intros m kstart kend limit mapfail a0 b0 obs Hm Hk Hs Hi.
  exact (drain_count m kstart kend limit mapfail Hm Hk Hs a0 b0 obs Hi).
Qed.
Print Assumptions C03_drain_count.

(** At every step of every history the reported totals agree with the usable frames:
    totalPages stays the number of available frames and
    (totalPages - reservedPages) + (frames currently held) = usable frames;
    a free succeeds only while a frame is held. *)
Theorem C03_history_stats :
  forall (m : memmap) (kstart kend limit mapfail : N) (a0 : balloc) (b0 : bstate) (obs : init_obs) (ops : list op),
    WFmap m -> WFkernel m kstart kend -> small_map m ->
    pmm_init m kstart kend limit mapfail = (InitOk a0 b0, obs) ->
    history_ok m kstart kend (early_frames obs) ops ->
    stats_ok (total_frames m) (usable_count m kstart kend (early_frames obs)) 0 (run a0 ops).
Proof.
  intros m kstart kend limit mapfail a0 b0 obs ops Hm Hk Hs Hi Ho.
  exact (history_stats m kstart kend limit mapfail Hm Hk Hs a0 b0 obs Hi ops Ho).
Qed.
Print Assumptions C03_history_stats.

(** The contract of every call in every history ([trace_ok], Pmm/HistoryProofs.v), with [H] the frames held
    before the call and R0 = kernel image or early-boot frame:
    - AllocFrame -> frame f: f is in a pool, not R0, not in H, and is the LOWEST such frame;
      totalPages unchanged, reservedPages + 1;
    - AllocFrame -> out-of-memory: state unchanged and every non-R0 pool frame is in H;
    - FreeFrame f -> ok: f was in H; reservedPages - 1; afterwards f is out of H, i.e. allocatable again
      (the next AllocFrame returns it iff it is the lowest free frame);
    - FreeFrame f -> not managed: state unchanged and f is in no pool;
    - FreeFrame f -> already free: state unchanged, f is in a pool, not R0 and not in H;
    - a panic is impossible. *)
Theorem C03_history_contract :
  forall (m : memmap) (kstart kend limit mapfail : N) (a0 : balloc) (b0 : bstate) (obs : init_obs) (ops : list op),
    WFmap m -> WFkernel m kstart kend -> small_map m ->
    pmm_init m kstart kend limit mapfail = (InitOk a0 b0, obs) ->
    history_ok m kstart kend (early_frames obs) ops ->
    trace_ok (pool_ranges m)
             (fun g => kernelb kstart kend g || memb g (early_frames obs))
             (total_frames m) (a_reserved a0) a0 [] (run a0 ops) ops.
Proof.
  intros m kstart kend limit mapfail a0 b0 obs ops Hm Hk Hs Hi Ho.
  exact (history_trace m kstart kend limit mapfail Hm Hk Hs a0 b0 obs Hi ops Ho).
Qed.
Print Assumptions C03_history_contract.

(** One FreeFrame call from any state satisfying the representation invariant. *)
Theorem C03_free_step :
  forall (R : N -> bool) (a : balloc) (f : N),
    Inv R a ->
    match bitmap_free a f with
    | (a', FreeOk) =>
        managed (a_pools a) f /\ R f = true /\ Inv (upd R f false) a' /\
        ranges (a_pools a') = ranges (a_pools a) /\
        a_total a' = a_total a /\ a_reserved a' + 1 = a_reserved a
    | (a', FreeNotManaged) => a' = a /\ ~ managed (a_pools a) f
    | (a', FreeDoubleFree) => a' = a /\ managed (a_pools a) f /\ R f = false
    | (a', FreePanic) => False
    end.
Proof. exact bitmap_free_spec. Qed.
Print Assumptions C03_free_step.

(** Without the restriction [history_ok] the contract is FALSE for the code as it is (known finding
    c03:free-of-init-reserved-frame-accepted): a frame reserved at initialisation for the kernel image or by
    the early-boot allocator was never handed to a caller, yet FreeFrame accepts it (the bitmap cannot tell
    it from an allocated frame). Witness: the example map, FreeFrame(1) of the early-boot frame succeeds. *)
Definition C03_full_history_contract : Prop :=
  forall (m : memmap) (kstart kend limit mapfail : N) (a0 : balloc) (b0 : bstate) (obs : init_obs) (ops : list op),
    WFmap m -> WFkernel m kstart kend -> small_map m ->
    pmm_init m kstart kend limit mapfail = (InitOk a0 b0, obs) ->
    trace_ok (pool_ranges m)
             (fun g => kernelb kstart kend g || memb g (early_frames obs))
             (total_frames m) (a_reserved a0) a0 [] (run a0 ops) ops.

Theorem C03_full_history_contract_refuted : ~ C03_full_history_contract.
Proof.
  intros H.
  specialize (H pm_map pm_kstart pm_kend two64 0 pm_a0 pm_b0 (snd pm_init_result) [OpFree 1]
                C01_map_nonvacuous C01_kernel_nonvacuous C01_small_nonvacuous (proj1 C01_init_nonvacuous)).
  vm_compute in H. destruct H as [[] _].
Qed.
Print Assumptions C03_full_history_contract_refuted.
