(** C03 placeholder *)
From FF Require Import Pmm.Bitmap.
