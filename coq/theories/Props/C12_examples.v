(** Non-vacuity for C12: readers satisfying the hypotheses, and concrete runs of the model. *)
From Coq Require Import NArith List Lia.
From FF Require Import Lib.Word Gen.Consts_device_acpi_aml Aml.Stream Aml.Lex Aml.LexProofs Aml.Tree Aml.TreeSpec Aml.Parser Aml.ParserProofs Aml.ParserProofsTop Aml.ParserTotalBase Aml.ParserTotalFirst Aml.ParserTotalConn Aml.ParserTotalTop Aml.ParserTotalNonNamed Aml.ParserTotalCalls Aml.ParserTotalReloc Aml.ParserTotalMerge Aml.ParserTotalResolve Aml.ParserTotalLex Aml.ParserTotalTree Aml.ParserTotalDefer Aml.ParserTotalDeferW Aml.ParserTotalDeferV Aml.ParserTotalTyped Aml.ParserTotalShape Aml.ParserTotalChain Aml.ParserTotalConn2 Aml.ParserTotalPass2 Aml.ParserTotalBenign Aml.ParserTotalFirst2 Aml.ParserTotalPass1 Aml.ParserTotalHandle Aml.ParserTotalLoad Aml.ParserTotalMeth Aml.ParserTotalFuel.
Import ListNotations.
Local Open Scope N_scope.

Definition ex_reader : reader := fst (setPkgEnd (init_reader [0x5c; 0x2e; 0x41; 0x42; 0x43; 0x44; 0x45; 0x46; 0x47; 0x48; 0xff; 0x99] 0) 10).

Example C12_reader_nonvacuous : reader_wf ex_reader /\ no_wrap ex_reader.
Proof.
  unfold reader_wf, no_wrap, ex_reader; cbn. repeat split; try (unfold two32; lia).
  repeat constructor.
Qed.

(** a second reader that differs beyond pkgEnd only *)
Definition ex_reader' : reader := fst (setPkgEnd (init_reader [0x5c; 0x2e; 0x41; 0x42; 0x43; 0x44; 0x45; 0x46; 0x47; 0x48; 0x00; 0x01] 0) 10).
Example C12_sim_nonvacuous : sim ex_reader ex_reader'.
Proof.
  constructor; try reflexivity. intros i Hi. cbn in Hi.
  unfold byte_at. cbn [r_data ex_reader ex_reader' init_reader setPkgEnd setOffset fst set_pkgEnd_raw set_offset_raw].
  assert (H : (N.to_nat i < 10)%nat) by lia.
  generalize dependent (N.to_nat i). intros k Hk.
  repeat (destruct k as [|k]; [reflexivity|]). lia.
Qed.

Example C12_name_example :
  parseNameString ex_reader = Ok (mkSlice (Some 0) 10, true, set_offset_raw ex_reader 10).
Proof. vm_compute. reflexivity. Qed.

(** the 12-byte table that made relocateNamedObjects recurse without bound (fixed in /repo 648a1d7) is now a parse
    error of the model, reached within the linear fuel; so is the byte list that extended past the table (984f446) *)
Example C12_selfreloc_rejected :
  fst (fst (load [[0x5b; 0x82; 0x0a; 0x2e; 0x41; 0x41; 0x41; 0x41; 0x41; 0x41; 0x41; 0x41]])) = 1.
Proof. vm_compute. reflexivity. Qed.

Example C12_bytelist_rejected :
  fst (fst (load [[0x5b; 0x81; 0x0f; 0x41; 0x41; 0x41; 0x41; 0x00; 0x02; 0x11; 0x07; 0x0c; 0xff; 0xff; 0xff; 0x7f; 0x00]])) = 1.
Proof. vm_compute. reflexivity. Qed.

(** a well-formed table parses (class 0) *)
Example C12_valid_parses :
  fst (fst (load [[0x14; 0x0b; 0x4d; 0x54; 0x48; 0x30; 0x02; 0xa4; 0x72; 0x68; 0x69; 0x00; 0x08; 0x58; 0x58; 0x58; 0x58; 0x4d; 0x54; 0x48; 0x30; 0x01; 0x0a; 0x02]])) = 0.
Proof. vm_compute. reflexivity. Qed.

(** hypotheses of the whole-parser theorems are satisfiable, and the conclusion is not vacuous: a loaded program
    stores non-trivial slices *)
Example C12_payload_nonvacuous :
  Forall payload_ok [[0x08; 0x41; 0x42; 0x43; 0x44; 0x0d; 0x61; 0x62; 0x00]].
Proof. repeat constructor; vm_compute; discriminate. Qed.

Example C12_pool_has_slices :
  let '(class, t, imgs) := load [[0x08; 0x41; 0x42; 0x43; 0x44; 0x0d; 0x61; 0x62; 0x00]] in
  class = 0 /\ existsb (fun o => match o_value o with Some (VBytes 0 (mkSlice (Some 42) 2)) => true | _ => false end) (t_pool t) = true.
Proof. vm_compute. split; reflexivity. Qed.

(** ---- first pass: no panic / tree relation / fuel ---- *)
Definition ex_image : list N := table_image [0x5b; 0x80; 0x52; 0x45; 0x47; 0x30; 0x01; 0x0b; 0x00; 0x30; 0x0a; 0x04;
                                             0x5b; 0x81; 0x12; 0x52; 0x45; 0x47; 0x30; 0x01; 0x46; 0x4c; 0x44; 0x30; 0x08; 0x00; 0x08; 0x46; 0x4c; 0x44; 0x31; 0x08;
                                             0x10; 0x0d; 0x5c; 0x5f; 0x53; 0x42; 0x5f; 0x08; 0x5f; 0x41; 0x44; 0x52; 0x0a; 0x05].

(** the hypotheses of C12_parse_total_partial_nopanic_first_pass / _R_first_pass are satisfiable (a pool with a root scope) *)
Example C12_first_pass_nonvacuous :
  exists (tree : ObjectTree value) (g : ghost),
    R tree g /\
    (forall i o, TreeSpec.get tree i = Some o -> o_opcode o <> opFreed -> opInfo (o_infoIndex o) <> None) /\
    glive g 0 /\
    Forall (fun b => b < 256) ex_image /\ N.of_nat (length ex_image) + 0x10000400 <= two32 /\
    N.of_nat (length (t_pool tree)) + 4 * N.of_nat (length ex_image) + 4 <= InvalidIndex.
Proof.
  destruct first_pass_hyps_example as (tree & g & HR & Hi & H0 & Hl). exists tree, g.
  split; [exact HR|]. split; [exact Hi|]. split; [exact H0|].
  split; [repeat constructor; vm_compute; reflexivity|]. split; [vm_compute; discriminate|].
  assert (E : N.of_nat (length ex_image) = 82) by reflexivity. rewrite E.
  assert (EI : InvalidIndex = 0xffffffff) by reflexivity. rewrite EI. lia.
Qed.

(** ... and so are those of the fuel theorem: the state in which ParseAML starts its first pass *)
Example C12_first_pass_fuel_nonvacuous :
  exists (tree : ObjectTree value) (g : ghost),
    let s := with_scopeStack (init_state tree [] 1 ex_image) [0] in
    R (p_tree s) g /\
    (forall i o, TreeSpec.get (p_tree s) i = Some o -> o_opcode o <> opFreed -> opInfo (o_infoIndex o) <> None) /\
    reader_wf (p_r s) /\ r_len (p_r s) + 0x10000400 <= two32 /\ r_offset (p_r s) <= r_len (p_r s) /\
    p_allBlocks s = false /\ Forall (glive g) (p_scopeStack s) /\ p_scopeStack s <> [] /\
    N.of_nat (length (t_pool (p_tree s))) + 4 * (r_len (p_r s) - r_offset (p_r s)) + 4 <= InvalidIndex.
Proof.
  destruct first_pass_hyps_example as (tree & g & HR & Hi & H0 & Hl). exists tree, g.
  assert (Him : image_small ex_image) by (split; [repeat constructor; vm_compute; reflexivity|vm_compute; discriminate]).
  assert (Hcap : N.of_nat (length (t_pool tree)) + 4 * N.of_nat (length ex_image) + 4 <= InvalidIndex).
  { assert (E : N.of_nat (length ex_image) = 82) by reflexivity. rewrite E.
    assert (EI : InvalidIndex = 0xffffffff) by reflexivity. rewrite EI. lia. }
  destruct (init_FI tree g [] 1 ex_image HR Hi H0 Him Hcap) as ([F1 F2 (F3 & F4 & F5) F6 F7] & Hroom & _).
  cbv zeta. repeat (split; [assumption|]). split; [discriminate|exact Hroom].
Qed.

(** concrete run: the first pass of the example table over the default scopes returns parseResultOk and leaves
    13 objects in the pool (5 default scopes + OpRegion with 4 args ... ) *)
Example C12_first_pass_runs :
  match CreateDefaultScopes (@NewObjectTree value) 0 with
  | Ok t0 => match (scopeEnter 0 ;;; parseObjectList 400) (init_state t0 [] 1 ex_image) with
             | Ok (ROk, s') => Nat.ltb 10 (length (t_pool (p_tree s'))) = true
             | _ => False
             end
  | _ => False
  end.
Proof. vm_compute. reflexivity. Qed.

(** ---- first pass + connectNamedObjArgs ---- *)
Example C12_passes12_nonvacuous :
  exists (tree : ObjectTree value) (g : ghost),
    R tree g /\
    (forall i o, TreeSpec.get tree i = Some o -> o_opcode o <> opFreed -> opInfo (o_infoIndex o) <> None) /\
    glive g 0 /\ pool_ok [] tree /\
    Forall (fun b => b < 256) ex_image /\ N.of_nat (length ex_image) + 0x10000400 <= two32 /\
    N.of_nat (length (t_pool tree)) + 4 * N.of_nat (length ex_image) + 4 <= InvalidIndex.
Proof.
  destruct passes12_hyps_example as (tree & g & HR & Hi & H0 & Hp & Hl). exists tree, g.
  split; [exact HR|]. split; [exact Hi|]. split; [exact H0|]. split; [exact Hp|].
  split; [repeat constructor; vm_compute; reflexivity|]. split; [vm_compute; discriminate|].
  assert (E : N.of_nat (length ex_image) = 82) by reflexivity. rewrite E.
  assert (EI : InvalidIndex = 0xffffffff) by reflexivity. rewrite EI. lia.
Qed.

(** concrete run of both passes over the default scopes: connectNamedObjArgs returns parseResultOk and has given the
    operation region its name (0x30474552 = "REG0" little-endian is not checked here, only the outcome) *)
Example C12_passes12_runs :
  match CreateDefaultScopes (@NewObjectTree value) 0 with
  | Ok t0 => match (scopeEnter 0 ;;;
                    mlet r1 <~ parseObjectList 400 ;;
                    if pres_eqb r1 RFailed then ret RFailed else connectNamedObjArgs 400 0) (init_state t0 [] 1 ex_image) with
             | Ok (ROk, _) => True
             | _ => False
             end
  | _ => False
  end.
Proof. vm_compute. exact I. Qed.

(** ---- the last two passes ---- *)
(** the hypotheses of the resolveMethodCalls / connectNonNamedObjArgs theorems are satisfiable (pool with a root scope:
    no name-path-or-method-call object at all), and a concrete run of the complete ParseAML on a table with a method,
    a forward call and an operator whose operands are attached by the last pass succeeds *)
Example C12_last_passes_nonvacuous :
  exists (s : pstate) (g : ghost),
    R (p_tree s) g /\
    (forall i o, TreeSpec.get (p_tree s) i = Some o -> o_opcode o <> opFreed -> opInfo (o_infoIndex o) <> None) /\
    pool_ok (p_tables s) (p_tree s) /\
    (forall i o, TreeSpec.get (p_tree s) i = Some o -> o_opcode o <> opFreed -> o_opcode o = aml_pOpIntNamePathOrMethodCall ->
                 exists tbl sl, o_value o = Some (VBytes tbl sl)) /\
    glive g 0 /\ groot g 0.
Proof.
  destruct last_passes_hyps_example as (s & g & H). exists s, g. exact H.
Qed.

Example C12_all_passes_run :
  fst (fst (load [[0x14; 0x0b; 0x4d; 0x54; 0x48; 0x30; 0x02; 0xa4; 0x72; 0x68; 0x69; 0x00;
                   0x08; 0x58; 0x58; 0x58; 0x58; 0x4d; 0x54; 0x48; 0x30; 0x01; 0x0a; 0x02]])) = 0.
Proof. vm_compute. reflexivity. Qed.

Example C12_relocate_nonvacuous :
  exists (s : pstate) (g : ghost),
    R (p_tree s) g /\
    (forall i o, TreeSpec.get (p_tree s) i = Some o -> o_opcode o <> opFreed -> opInfo (o_infoIndex o) <> None) /\
    pool_ok (p_tables s) (p_tree s) /\ glive g 0 /\
    (exists o, TreeSpec.get (p_tree s) 0 = Some o /\ o_opcode o = aml_pOpIntScopeBlock).
Proof. destruct reloc_hyps_example as (s & g & H). exists s, g. exact H. Qed.

(** a table whose device is declared with a two-segment path and relocated below \_SB_ parses (all passes) *)
Example C12_relocation_runs :
  fst (fst (load [[0x5b; 0x82; 0x0b; 0x5c; 0x2e; 0x5f; 0x53; 0x42; 0x5f; 0x44; 0x45; 0x56; 0x32]])) = 0.
Proof. vm_compute. reflexivity. Qed.

(** the hypotheses of C12_parse_total_partial_nopanic_mergeScopeDirectives are satisfiable by a state that contains a
    Scope directive of the current table (slot 2: Scope(_SB_) { Zero }, next to \_SB_ below the root), and on that state
    the pass merges the directive: result ok, mergedScopes = 1 *)
Example C12_merge_nonvacuous :
  exists (s : pstate) (g : ghost) (x : N),
    R (p_tree s) g /\
    (forall i o, TreeSpec.get (p_tree s) i = Some o -> o_opcode o <> opFreed -> opInfo (o_infoIndex o) <> None) /\
    pool_ok (p_tables s) (p_tree s) /\
    glive g 0 /\ groot g 0 /\
    (exists o, TreeSpec.get (p_tree s) 0 = Some o /\ o_opcode o = aml_pOpIntScopeBlock) /\
    (forall d dobj, TreeSpec.get (p_tree s) d = Some dobj -> o_opcode dobj = aml_pOpScope -> o_tableHandle dobj = p_handle s ->
       name_lead (o_name dobj) = false /\
       (forall op fl af, opInfo (o_infoIndex dobj) = Some (op, fl, af) -> hasFlag fl aml_pOpFlagNamed = false) /\
       exists n c no co tbl sl,
         kids g d = [n; c] /\ kids g n = [] /\
         TreeSpec.get (p_tree s) n = Some no /\ o_opcode no <> aml_pOpIntScopeBlock /\ o_opcode no <> aml_pOpScope /\
         o_value no = Some (VBytes tbl sl) /\
         (forall s0 bytes, p_tables s0 = p_tables s -> slice_bytes s0 tbl sl = Ok bytes -> good_path bytes) /\
         TreeSpec.get (p_tree s) c = Some co /\ o_opcode co = aml_pOpIntScopeBlock) /\
    glive g x /\
    (exists dobj, TreeSpec.get (p_tree s) 2 = Some dobj /\ o_opcode dobj = aml_pOpScope /\ o_tableHandle dobj = p_handle s) /\
    match mergeScopeDirectives 10 x s with Ok (r, s') => r = ROk /\ p_mergedScopes s' = 1 | _ => False end.
Proof. exact merge_hyps_example. Qed.

(** a table with Scope directives - absolute, relative, nested, one whose target does not exist yet - parses (all passes) *)
Example C12_merge_runs :
  fst (fst (load [[0x10; 0x0d; 0x5c; 0x5f; 0x53; 0x42; 0x5f; 0x08; 0x41; 0x42; 0x43; 0x44; 0x0a; 0x05;
                   0x10; 0x12; 0x5f; 0x53; 0x42; 0x5f; 0x10; 0x0c; 0x5e; 0x5f; 0x54; 0x5a; 0x5f; 0x08; 0x58; 0x58; 0x58; 0x58; 0x00]])) = 0.
Proof. vm_compute. reflexivity. Qed.

(** on the state of C12_merge_nonvacuous (which satisfies the hypotheses of C12_parse_total_partial_nopanic_resolve_loop too)
    the whole loop runs: the directive is merged, nothing is left to relocate *)
Example C12_resolve_loop_runs :
  match resolve_loop 5 10 mex_state with Ok (r, s') => r = ROk /\ p_mergedScopes s' = 1 | _ => False end.
Proof. vm_compute. split; reflexivity. Qed.

(** the hypotheses of C12_parse_total_partial_nopanic_deferred_block are satisfiable by the initial state of the table
    While (Zero) { } over a pool that holds the root and the While object the first pass left behind (no children yet), and on
    that state the block is parsed: result ok, the pool now holds four objects (root, While, the Zero predicate, the body) *)
Example C12_deferred_block_nonvacuous :
  exists (s : pstate) (g : ghost) (obj : N) (oo : Obj) (op fl af : N),
    R (p_tree s) g /\
    (forall i o, TreeSpec.get (p_tree s) i = Some o -> o_opcode o <> opFreed -> opInfo (o_infoIndex o) <> None) /\
    rok (p_r s) /\ Forall (glive g) (p_scopeStack s) /\ Inv (p_tables s) s /\
    glive g 0 /\ glive g obj /\
    TreeSpec.get (p_tree s) obj = Some oo /\ opInfo (o_infoIndex oo) = Some (op, fl, af) /\
    hasFlag fl aml_pOpFlagDeferParsing = true /\ o_tableHandle oo = p_handle s /\
    (has_fl af -> has_parent g obj) /\ TM NoX s g /\
    lp s + 8 * r_len (p_r s) + 7 <= InvalidIndex /\
    match parseDeferredBlocks 5 400 obj s with Ok (res, s') => res = ROk /\ lp s' = 4 | _ => False end.
Proof. exact deferred_hyps_example. Qed.

(** the hypotheses of C12_parse_total_partial_nopanic_deferred_walk are satisfiable by the same state, walking from the root:
    the walk meets one pending object (the While), parses it and returns ok with four objects in the pool *)
Example C12_deferred_walk_nonvacuous :
  exists (s : pstate) (g : ghost) (n : N),
    R (p_tree s) g /\
    (forall i o, TreeSpec.get (p_tree s) i = Some o -> o_opcode o <> opFreed -> opInfo (o_infoIndex o) <> None) /\
    rok (p_r s) /\ Forall (glive g) (p_scopeStack s) /\ Inv (p_tables s) s /\
    glive g 0 /\ TM NoX s g /\ dcnt s g 0 n /\
    lp s + n * (8 * r_len (p_r s) + 3) + 4 <= InvalidIndex /\
    match parseDeferredBlocks 6 400 0 s with Ok (res, s') => res = ROk /\ lp s' = 4 | _ => False end.
Proof. exact walk_hyps_example. Qed.

(** the hypotheses of C12_parse_total_partial_nopanic_tail are satisfiable by the same state; the three last passes return ok *)
Example C12_tail_nonvacuous :
  exists (s : pstate) (g : ghost) (n : N),
    R (p_tree s) g /\
    (forall i o, TreeSpec.get (p_tree s) i = Some o -> o_opcode o <> opFreed -> opInfo (o_infoIndex o) <> None) /\
    rok (p_r s) /\ Forall (glive g) (p_scopeStack s) /\ Inv (p_tables s) s /\
    glive g 0 /\ groot g 0 /\ TM NoX s g /\
    (forall i o, TreeSpec.get (p_tree s) i = Some o -> o_opcode o <> opFreed -> o_opcode o = aml_pOpIntNamePathOrMethodCall ->
                 exists tbl sl, o_value o = Some (VBytes tbl sl)) /\
    dcnt s g 0 n /\
    lp s + n * (8 * r_len (p_r s) + 3) + 4 <= InvalidIndex /\
    match parse_tail 6 400 10 10 s with Ok (b, s') => b = true /\ lp s' = 4 | _ => False end.
Proof. exact tail_hyps_example. Qed.

(** the same with a pending BankField (object x with a FieldList argument, pending, child of the root): on the table
    BankField (REG0, BNK0, Zero, 1) { FLD0, 8 } the block inserts the NamedField FLD0 behind the BankField into the list of the
    root, which the walk is iterating; all three passes return ok, seven objects in the pool *)
Example C12_tail_bankfield_nonvacuous :
  exists (s : pstate) (g : ghost) (n : N),
    R (p_tree s) g /\
    (forall i o, TreeSpec.get (p_tree s) i = Some o -> o_opcode o <> opFreed -> opInfo (o_infoIndex o) <> None) /\
    rok (p_r s) /\ Forall (glive g) (p_scopeStack s) /\ Inv (p_tables s) s /\
    glive g 0 /\ groot g 0 /\ TM NoX s g /\
    (forall i o, TreeSpec.get (p_tree s) i = Some o -> o_opcode o <> opFreed -> o_opcode o = aml_pOpIntNamePathOrMethodCall ->
                 exists tbl sl, o_value o = Some (VBytes tbl sl)) /\
    dcnt s g 0 n /\
    (exists x, hasfl s x /\ isflag s x = true /\ In x (kids g 0)) /\
    lp s + n * (8 * r_len (p_r s) + 3) + 4 <= InvalidIndex /\
    match parse_tail 6 400 10 10 s with Ok (b, s') => b = true /\ lp s' = 7 | _ => False end.
Proof. exact tail_bankfield_example. Qed.

(** a table with a While loop, a Buffer with a computed size, a BankField with its field list, a method and calls of it inside
    the deferred blocks parses (all passes) *)
Example C12_deferred_runs :
  fst (fst (load [[0x14; 0x08; 0x4d; 0x54; 0x48; 0x30; 0x01; 0xa4; 0x68;
                   0x08; 0x42; 0x55; 0x46; 0x30; 0x11; 0x05; 0x0a; 0x02; 0xaa; 0xbb;
                   0x14; 0x14; 0x4d; 0x54; 0x48; 0x31; 0x00; 0xa2; 0x0d; 0x4d; 0x54; 0x48; 0x30; 0x01; 0x70; 0x4d; 0x54; 0x48; 0x30; 0x00; 0x60]])) = 0.
Proof. vm_compute. reflexivity. Qed.

(** parse_head returns (so C12_parse_total_partial_typed_head is not vacuous): the first four passes on a table with a
    method, a call of it by name and a Scope directive, over the default scopes *)
Example C12_typed_head_runs :
  match CreateDefaultScopes (@NewObjectTree value) 0 with
  | Ok t => match parse_head 200 (init_state t [] 1 (table_image [0x14; 0x08; 0x4d; 0x54; 0x48; 0x30; 0x01; 0xa4; 0x68;
                                                            0x4d; 0x54; 0x48; 0x30; 0x01;
                                                            0x10; 0x05; 0x5f; 0x53; 0x42; 0x5f])) with
            | Ok (b, _) => b = true | _ => False end
  | _ => False
  end.
Proof. vm_compute. reflexivity. Qed.

(** the hypotheses of C12_parse_total_partial_nopanic_rest are satisfiable (the state of C12_deferred_walk_nonvacuous with the
    scope stack emptied) and on that state the resolve loop and the three last passes return ok *)
Example C12_rest_nonvacuous :
  exists (s : pstate) (g : ghost),
    R (p_tree s) g /\
    (forall i o, TreeSpec.get (p_tree s) i = Some o -> o_opcode o <> opFreed -> opInfo (o_infoIndex o) <> None) /\
    rok (p_r s) /\ p_scopeStack s = [] /\ Inv (p_tables s) s /\
    glive g 0 /\ groot g 0 /\ is_sb s 0 /\ tyS NoX (p_tables s) (p_handle s) (p_tree s) g /\
    TM3 (p_tree s) g /\ PEND s g /\
    (forall i o, TreeSpec.get (p_tree s) i = Some o -> o_opcode o <> opFreed -> o_opcode o = aml_pOpIntNamePathOrMethodCall ->
                 exists tbl sl, o_value o = Some (VBytes tbl sl)) /\
    lp s + lp s * (8 * r_len (p_r s) + 3) + 4 <= InvalidIndex /\
    match parse_rest 10 s with Ok (b, s') => b = true /\ lp s' = 4 | _ => False end.
Proof. exact rest_hyps_example. Qed.

(** the hypotheses of C12_parse_total_partial_nopanic_rest2 are satisfiable by the same state; passes 2-6 return ok *)
Example C12_rest2_nonvacuous :
  exists (s : pstate) (g : ghost),
    R (p_tree s) g /\
    (forall i o, TreeSpec.get (p_tree s) i = Some o -> o_opcode o <> opFreed -> opInfo (o_infoIndex o) <> None) /\
    rok (p_r s) /\ p_scopeStack s = [] /\ Inv (p_tables s) s /\ SH3 s g /\
    (forall i o, TreeSpec.get (p_tree s) i = Some o -> o_opcode o <> opFreed -> o_opcode o = aml_pOpIntNamePathOrMethodCall ->
                 exists tbl sl, o_value o = Some (VBytes tbl sl)) /\
    lp s + lp s * (8 * r_len (p_r s) + 3) + 4 <= InvalidIndex /\
    match parse_rest2 10 s with Ok (b, s') => b = true /\ lp s' = 4 | _ => False end.
Proof. exact rest2_hyps_example. Qed.

(** the hypotheses of C12_parse_total_never_panics (hence of C12_parse_total_partial_first_pass_shape) are satisfiable: the
    pool with just the root scope, the table While (Zero) { } with handle 1; ParseAML returns true with four objects *)
Example C12_never_panics_nonvacuous :
  exists (tree : T) (g : ghost) (data : list N),
    R tree g /\
    (forall i o, TreeSpec.get tree i = Some o -> o_opcode o <> opFreed -> opInfo (o_infoIndex o) <> None) /\
    glive g 0 /\ groot g 0 /\
    (exists o, TreeSpec.get tree 0 = Some o /\ o_opcode o = aml_pOpIntScopeBlock) /\
    TM3 tree g /\
    (forall i o, TreeSpec.get tree i = Some o -> o_opcode o <> opFreed -> o_opcode o = aml_pOpIntNamePathOrMethodCall ->
                 exists tbl sl, o_value o = Some (VBytes tbl sl)) /\
    pool_ok [] tree /\
    (forall i o, TreeSpec.get tree i = Some o -> o_tableHandle o <> 1) /\
    image_small data /\
    (let L := N.of_nat (length (t_pool tree)) + 4 * N.of_nat (length data) + 2 in
     L + L * (8 * N.of_nat (length data) + 3) + 4 <= InvalidIndex) /\
    match parseAML_body 200 (init_state tree [] 1 data) with Ok (b, s') => b = true /\ lp s' = 4 | _ => False end.
Proof. exact parseAML_hyps_example. Qed.

(** ---- the load sequence: the hypotheses of C12_parse_total_load_never_panics ([SEQ]: the sizes at each step) are satisfiable - two tables over the default scopes, Name(AAAA, One) and Scope(\_SB_) { Name(BBBB, Zero) }; both load
    (outcome class 0), the pools hold 9 and 15 objects ---- *)
Definition lx_p1 : list N := [0x08; 0x41; 0x41; 0x41; 0x41; 0x01].
Definition lx_p2 : list N := [0x10; 0x0c; 0x5c; 0x5f; 0x53; 0x42; 0x5f; 0x08; 0x42; 0x42; 0x42; 0x42; 0x00].
Definition lx_s1 : pstate := Eval vm_compute in
  match parseAML ds_tree [] 1 (table_image lx_p1) with Ok (_, s) => s | _ => init_state ds_tree [] 1 [] end.
Definition lx_s2 : pstate := Eval vm_compute in
  match parseAML (p_tree lx_s1) [table_image lx_p1] 2 (table_image lx_p2) with Ok (_, s) => s | _ => init_state ds_tree [] 1 [] end.
Lemma lx_e1 : parseAML ds_tree [] 1 (table_image lx_p1) = Ok (true, lx_s1).
Proof. vm_compute. reflexivity. Qed.
Lemma lx_e2 : parseAML (p_tree lx_s1) [table_image lx_p1] 2 (table_image lx_p2) = Ok (true, lx_s2).
Proof. vm_compute. reflexivity. Qed.

Ltac lx_fits := split; [split; [vm_compute; repeat constructor|vm_compute; discriminate]|vm_compute; discriminate].

Example C12_load_sequence_nonvacuous :
  INV ds_tree ds_ghost [] 1 /\ SEQ ds_tree [] 1 [lx_p1; lx_p2] /\ fst (fst (load [lx_p1; lx_p2])) = 0.
Proof.
  split; [exact ds_INV|]. split; [|vm_compute; reflexivity].
  cbn [SEQ]. cbv zeta. split; [lx_fits|].
  intros s E. rewrite lx_e1 in E. assert (Es : s = lx_s1) by congruence. subst s. clear E.
  split; [lx_fits|]. intros s _. exact I.
Qed.

(** the hypotheses of C12_parse_total_partial_resolveMethodCalls_keeps_methods / _connectNonNamedObjArgs_keeps_methods are satisfiable by a
    pool that DOES hold a Method (root scope, Method with its name path and flags byte); both passes return ok on it *)
Example C12_keeps_methods_nonvacuous :
  R (p_tree mx_state) mx_ghost /\
  (forall i o, TreeSpec.get (p_tree mx_state) i = Some o -> o_opcode o <> opFreed -> opInfo (o_infoIndex o) <> None) /\
  pool_ok (p_tables mx_state) (p_tree mx_state) /\
  (forall i o, TreeSpec.get (p_tree mx_state) i = Some o -> o_opcode o <> opFreed -> o_opcode o = aml_pOpIntNamePathOrMethodCall ->
               exists tbl sl, o_value o = Some (VBytes tbl sl)) /\
  glive mx_ghost 0 /\ groot mx_ghost 0 /\ TM3 (p_tree mx_state) mx_ghost /\
  (exists m mo, TreeSpec.get (p_tree mx_state) m = Some mo /\ o_opcode mo = aml_pOpMethod) /\
  match resolveMethodCalls 10 0 mx_state with Ok (r, _) => r = ROk | _ => False end /\
  match connectNonNamedObjArgs 10 0 mx_state with Ok (r, _) => r = ROk | _ => False end.
Proof. exact mx_hyps. Qed.

(** the fuel hypotheses of the C12_parse_total_partial_fuel_* theorems hold for the pool with a Method (4 slots, fuel 10 >= 8); the walks
    return ok *)
Example C12_fuel_nonvacuous :
  (2 * length (t_pool (p_tree mx_state)) <= 10)%nat /\ glive mx_ghost 0 /\ groot mx_ghost 0 /\ R (p_tree mx_state) mx_ghost /\
  match connectNamedObjArgs 10 0 mx_state with Ok (r, _) => r = ROk | _ => False end /\
  match parse_tail2 10 10 mx_state with Ok (b, _) => b = true | _ => False end.
Proof.
  destruct mx_hyps as (A & _ & _ & _ & B & C & _).
  split; [vm_compute; lia|]. split; [exact B|]. split; [exact C|]. split; [exact A|]. split; vm_compute; reflexivity.
Qed.

(** C12_parse_total_partial_fuel_insideSelf / _scopeOf: the hypotheses hold for the pool with a Method; from the name path (depth 2) the
    climb returns false, the Method has no ScopeBlock child *)
Example C12_fuel_inner_nonvacuous :
  TI mx_state mx_ghost /\ glive mx_ghost 2 /\
  match (mlet pf <~ poolFuel ;; insideSelf_go pf (Some 2) 3) mx_state with Ok (b, _) => b = false | _ => False end /\
  match scopeOf 1 mx_state with Ok (r, _) => r = None | _ => False end.
Proof.
  destruct mx_hyps as (A & B & C & _).
  split; [constructor; assumption|]. split; [split; [vm_compute; reflexivity|vm_compute; intuition discriminate]|].
  split; vm_compute; reflexivity.
Qed.

(** ---- audit additions ---- *)
(** the size hypothesis [fits] / [SEQ] of C12_parse_total_load_never_panics at a REAL size: any payload of 8612 bytes (the DSDT.aml of
    /repo's tabletest directory is 8648 bytes = 36-byte header + 8612) over the default scopes satisfies it, so loading it never
    panics ... *)
Example C12_load_never_panics_real_size :
  forall payload : list N, Forall (fun b => b < 256) payload -> N.of_nat (length payload) = 8612 ->
    SEQ ds_tree [] 1 [payload] /\ fst (fst (load [payload])) <> 2.
Proof.
  intros payload Hb Hl.
  assert (HS : SEQ ds_tree [] 1 [payload]).
  { cbn [SEQ]. cbv zeta. split; [|intros s _; exact I]. split.
    - split; [apply table_image_small; exact Hb|]. rewrite table_image_length, Nat2N.inj_add, Hl. vm_compute. discriminate.
    - cbv zeta. rewrite table_image_length, Nat2N.inj_add, Hl. vm_compute. discriminate. }
  split; [exact HS|exact (load_never_panics [payload] HS)].
Qed.

(** ... but [fits] is a QUADRATIC bound (about 32 * len^2 <= 2^32 for a small pool): over the default scopes no image of 12000 bytes
    satisfies it, whatever its contents - tables above about 11.5 KB are outside the load theorems *)
Example C12_fits_excludes_12000_bytes : forall data : list N, N.of_nat (length data) = 12000 -> ~ fits ds_tree data.
Proof. intros data Hl (_ & H). cbv zeta in H. rewrite Hl in H. vm_compute in H. apply H. reflexivity. Qed.

(** all three hypotheses of C12_parse_total_parseAML_keeps_invariant TOGETHER (INV of the default scopes, fits, a successful parse of the
    table Name(AAAA, One)), and its conclusion *)
Example C12_parseAML_keeps_invariant_nonvacuous :
  INV ds_tree ds_ghost [] 1 /\ fits ds_tree (table_image lx_p1) /\ parseAML ds_tree [] 1 (table_image lx_p1) = Ok (true, lx_s1) /\
  exists g', INV (p_tree lx_s1) g' ([] ++ [table_image lx_p1]) (1 + 1).
Proof.
  assert (F : fits ds_tree (table_image lx_p1)) by lx_fits.
  split; [exact ds_INV|]. split; [exact F|]. split; [exact lx_e1|].
  exact (parseAML_keeps_INV ds_tree ds_ghost [] 1 (table_image lx_p1) lx_s1 ds_INV F lx_e1).
Qed.

(** the C12_parse_total_partial_fuel_* theorems at a state the PARSER produced (the pool after loading Name(AAAA, One): 9 slots) and with
    the fuel ParseAML itself uses for that table, parse_fuel (42 + 6) = 448: the invariants come from the theorem above, the fuel
    hypothesis 2 * 9 <= 448 holds, and the theorems give that the walks return *)
Example C12_fuel_real_state_nonvacuous :
  let F := parse_fuel (length (table_image lx_p1) + length (t_pool ds_tree)) in
  (2 * length (t_pool (p_tree lx_s1)) <= F)%nat /\
  (exists g, TI lx_s1 g /\ typed (p_tree lx_s1) /\ glive g 0 /\ groot g 0) /\
  (exists r s', connectNamedObjArgs F 0 lx_s1 = Ok (r, s')) /\
  (exists r s', resolveMethodCalls F 0 lx_s1 = Ok (r, s')) /\
  (exists r s', connectNonNamedObjArgs F 0 lx_s1 = Ok (r, s')) /\
  (exists r s', parse_tail2 F F lx_s1 = Ok (r, s')).
Proof.
  intros F.
  assert (HF : (2 * length (t_pool (p_tree lx_s1)) <= F)%nat) by (vm_compute; lia).
  assert (Ft : fits ds_tree (table_image lx_p1)) by lx_fits.
  destruct (parseAML_keeps_INV ds_tree ds_ghost [] 1 (table_image lx_p1) lx_s1 ds_INV Ft lx_e1)
    as (g & HR & Hi & H0 & Hr0 & _ & _ & Hty & Hpool & _).
  assert (Hp : pool_ok (p_tables lx_s1) (p_tree lx_s1)) by exact Hpool.
  split; [exact HF|]. split; [exists g; split; [constructor; assumption|]; split; [exact Hty|split; [exact H0|exact Hr0]]|].
  split.
  { pose proof (connectNamedObjArgs_returns F 0 lx_s1 g HR Hi Hp H0 HF) as W.
    destruct (connectNamedObjArgs F 0 lx_s1) as [[r s']| |]; [eauto|contradiction..]. }
  split.
  { pose proof (resolveMethodCalls_returns F lx_s1 g HR Hi Hp Hty H0 Hr0 HF) as W.
    destruct (resolveMethodCalls F 0 lx_s1) as [[r s']| |]; [eauto|contradiction..]. }
  split.
  { pose proof (connectNonNamedObjArgs_returns F lx_s1 g HR Hi Hp H0 Hr0 HF) as W.
    destruct (connectNonNamedObjArgs F 0 lx_s1) as [[r s']| |]; [eauto|contradiction..]. }
  { pose proof (tail2_returns F F lx_s1 g HR Hi Hp Hty H0 Hr0 HF HF) as W.
    destruct (parse_tail2 F F lx_s1) as [[r s']| |]; [eauto|contradiction..]. }
Qed.
