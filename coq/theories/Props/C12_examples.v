(** Non-vacuity for C12: readers satisfying the hypotheses, and concrete runs of the model. *)
From Coq Require Import NArith List Lia.
From FF Require Import Lib.Word Gen.Consts_device_acpi_aml Aml.Stream Aml.Lex Aml.LexProofs Aml.Tree Aml.Parser Aml.ParserProofs Aml.ParserProofsTop.
Import ListNotations.
Local Open Scope N_scope.

Definition ex_reader : reader := fst (setPkgEnd (init_reader [0x5c; 0x2e; 0x41; 0x42; 0x43; 0x44; 0x45; 0x46; 0x47; 0x48; 0xff; 0x99] 0) 10).

Example C12_reader_nonvacuous : reader_wf ex_reader /\ no_wrap ex_reader.
Proof.
  unfold reader_wf, no_wrap, ex_reader; cbn. repeat split; try (unfold two32; lia).
  repeat constructor.
Qed.

(** a second reader that differs beyond pkgEnd only *)
Definition ex_reader' : reader := fst (setPkgEnd (init_reader [0x5c; 0x2e; 0x41; 0x42; 0x43; 0x44; 0x45; 0x46; 0x47; 0x48; 0x00; 0x01] 0) 10).
Example C12_sim_nonvacuous : sim ex_reader ex_reader'.
Proof.
  constructor; try reflexivity. intros i Hi. cbn in Hi.
  unfold byte_at. cbn [r_data ex_reader ex_reader' init_reader setPkgEnd setOffset fst set_pkgEnd_raw set_offset_raw].
  assert (H : (N.to_nat i < 10)%nat) by lia.
  generalize dependent (N.to_nat i). intros k Hk.
  repeat (destruct k as [|k]; [reflexivity|]). lia.
Qed.

Example C12_name_example :
  parseNameString ex_reader = Ok (mkSlice (Some 0) 10, true, set_offset_raw ex_reader 10).
Proof. vm_compute. reflexivity. Qed.

(** the 12-byte table that made relocateNamedObjects recurse without bound (fixed in /repo 648a1d7) is now a parse
    error of the model, reached within the linear fuel; so is the byte list that extended past the table (984f446) *)
Example C12_selfreloc_rejected :
  fst (fst (load [[0x5b; 0x82; 0x0a; 0x2e; 0x41; 0x41; 0x41; 0x41; 0x41; 0x41; 0x41; 0x41]])) = 1.
Proof. vm_compute. reflexivity. Qed.

Example C12_bytelist_rejected :
  fst (fst (load [[0x5b; 0x81; 0x0f; 0x41; 0x41; 0x41; 0x41; 0x00; 0x02; 0x11; 0x07; 0x0c; 0xff; 0xff; 0xff; 0x7f; 0x00]])) = 1.
Proof. vm_compute. reflexivity. Qed.

(** a well-formed table parses (class 0) *)
Example C12_valid_parses :
  fst (fst (load [[0x14; 0x0b; 0x4d; 0x54; 0x48; 0x30; 0x02; 0xa4; 0x72; 0x68; 0x69; 0x00; 0x08; 0x58; 0x58; 0x58; 0x58; 0x4d; 0x54; 0x48; 0x30; 0x01; 0x0a; 0x02]])) = 0.
Proof. vm_compute. reflexivity. Qed.

(** hypotheses of the whole-parser theorems are satisfiable, and the conclusion is not vacuous: a loaded program
    stores non-trivial slices *)
Example C12_payload_nonvacuous :
  Forall payload_ok [[0x08; 0x41; 0x42; 0x43; 0x44; 0x0d; 0x61; 0x62; 0x00]].
Proof. repeat constructor; vm_compute; discriminate. Qed.

Example C12_pool_has_slices :
  let '(class, t, imgs) := load [[0x08; 0x41; 0x42; 0x43; 0x44; 0x0d; 0x61; 0x62; 0x00]] in
  class = 0 /\ existsb (fun o => match o_value o with Some (VBytes 0 (mkSlice (Some 42) 2)) => true | _ => false end) (t_pool t) = true.
Proof. vm_compute. split; reflexivity. Qed.
