From Coq Require Import NArith List.
From FF Require Import Lib.Word Gen.Consts_device_acpi_aml Aml.Stream Aml.Lex.
Import ListNotations.
Local Open Scope N_scope.

Example C12_pkglen_example : parsePkgLength (init_reader [0x4f; 0x01] 0) = Ok (0x1f, true, mkReader [0x4f; 0x01] 2 2 2).
Proof. vm_compute. reflexivity. Qed.
