(** Concrete runs for Props/C03_trans4.v: the regenerated fragments of setupPoolBitmaps are run by vm_compute and compared
    with the model's pass 1 / required bytes / pass 2 on a map with an unaligned 65-frame region, a reserved region, a
    sub-page region and a 128-frame region. *)
From Coq Require Import NArith String List Lia.
From FF Require Import Lib.Word Lib.GoOps Lib.GoVisit Gen.Consts_mm_pmm Gen.Trans_pmm_bitmap Pmm.Boot Pmm.Bitmap Pmm.BitmapTrans Pmm.BitmapTrans3.
From FF Require Import Props.C03_trans4.
Import ListNotations.
Local Open Scope N_scope.

Definition ex4_map : memmap :=
  [ mkRegion 0x100800 0x41800 1; mkRegion 0x150000 0x10000 2; mkRegion 0x170000 0x800 1; mkRegion 0x200000 0x80000 1 ].

Definition ga0 : go_pmm_BitmapAllocator := to_ga true empty_alloc [].

(** both passes as the visitor would run them: gvisit of the translated closure bodies over the entries *)
Definition go_pass1 (gs : list go_multiboot_MemoryMapEntry) :=
  gvisit (fun g (st : go_pmm_BitmapAllocator * N * N * N) =>
            let '(ga, len, cap, req) := st in go_pmm_BitmapAllocator_setupPoolBitmaps_pass1 ga pmask len cap req g)
         gs (ga0, 0, 0, 0).

(** pass 1: 2 pools (65 and 128 frames), 193 pages, 16 + 16 bitmap bytes; = the model's [pass1] *)
Example C03_trans4_pass1_run :
  go_pass1 (map to_gr ex4_map) = GOk (to_ga true (mkBA 193 0 []) [], 2, 2, 32) /\
  pass1 ex4_map 0 = (2, 193, 32).
Proof. vm_compute. split; reflexivity. Qed.

(** required bytes: 2 * 72 + 32 = 176 -> one page *)
Example C03_trans4_required_run :
  go_pmm_BitmapAllocator_setupPoolBitmaps_required ga0 pmask pmm_sizeofFramePool 2 32 = GOk (ga0, 4096, 1) /\
  required_bytes 2 32 = 4096.
Proof. vm_compute. split; reflexivity. Qed.

(** exactly one page of state when the requirement is a whole page (no extra page from the round-up): 56 pools and 64
    bitmap bytes = 4096 *)
Example C03_trans4_required_exact_page :
  go_pmm_BitmapAllocator_setupPoolBitmaps_required ga0 pmask pmm_sizeofFramePool 56 64 = GOk (ga0, 4096, 1).
Proof. vm_compute. reflexivity. Qed.

Example C03_trans4_layout_run :
  go_pmm_BitmapAllocator_setupPoolBitmaps_layout ga0 pmm_sizeofFramePool 2 0xffff800000000000 = GOk (ga0, 0xffff800000000090).
Proof. vm_compute. reflexivity. Qed.

(** pass 2 on the first region: frames 0x101..0x141 (65 frames: two bitmap words), bitmap at the current address *)
Example C03_trans4_pass2_run :
  go_pmm_BitmapAllocator_setupPoolBitmaps_pass2 ga0 pmask 0x9000 0 0 0 0 0 0 0 (to_gr (mkRegion 0x100800 0x41800 1)) =
  GOk ((ga0, 0x9010, 1, 0x101, 0x141, 65, 2, 2, 0x9000), true) /\
  pool_of_region (mkRegion 0x100800 0x41800 1) = mkPool 0x101 0x141 65 [0; 0].
Proof. vm_compute. split; reflexivity. Qed.

(** a 64-frame region needs ONE word, a 65-frame region two (the +63 round-up); reserved and sub-page regions give no pool *)
Example C03_trans4_pass2_corners :
  go_pmm_BitmapAllocator_setupPoolBitmaps_pass2 ga0 pmask 0x9000 3 0 0 0 0 0 0 (to_gr (mkRegion 0x200000 0x40000 1)) =
  GOk ((ga0, 0x9008, 4, 0x200, 0x23f, 64, 1, 1, 0x9000), true) /\
  go_pmm_BitmapAllocator_setupPoolBitmaps_pass2 ga0 pmask 0x9000 3 7 7 7 7 7 7 (to_gr (mkRegion 0x150000 0x10000 2)) =
  GOk ((ga0, 0x9000, 3, 7, 7, 7, 7, 7, 7), true) /\
  go_pmm_BitmapAllocator_setupPoolBitmaps_pass2 ga0 pmask 0x9000 3 7 7 7 7 7 7 (to_gr (mkRegion 0x170000 0x800 1)) =
  GOk ((ga0, 0x9000, 3, 7, 7, 7, 7, 7, 7), true).
Proof. vm_compute. repeat split; reflexivity. Qed.

(** the hypothesis of the pass-1 theorem is satisfiable, and the theorem at a value *)
Example C03_setupPoolBitmaps_sizes_is_translation_nonvacuous :
  go_pmm_BitmapAllocator_setupPoolBitmaps_pass1 (to_ga true (mkBA 65 0 []) []) pmask 1 1 16 (to_gr (mkRegion 0x200000 0x80000 1)) =
  GOk ((to_ga true (mkBA 193 0 []) [], 2, 2, 32), true).
Proof.
  rewrite (C03_setupPoolBitmaps_sizes_is_translation true (mkBA 65 0 []) [] 1 1 16 (mkRegion 0x200000 0x80000 1)) by (vm_compute; reflexivity).
  vm_compute. reflexivity.
Qed.
