(** Non-vacuity of the theorems of Props/C04_pdt_trans.v and concrete runs of the regenerated translation
    (Gen/Trans_vmm_pdt.v) by [vm_compute] at reachable states: the boot state of a case (arena of 64 frames from
    0x100, root 0x100 with its recursive entry, allocator handing out 0x101..), an inactive table initialised in
    frame 0x120, a mapping in it, its removal, activation; the panic of a stray access; and the one input class on
    which the hand-written [pdt_init] and the Go code differ (Init of a live page table). *)
From Coq Require Import NArith String List Bool.
From FF Require Import Lib.Word Lib.GoOps Gen.Consts_mm_vmm Gen.Trans_vmm_pdt Vmm.Pt Vmm.PtMem.
From FF Require Vmm.PdtTrans.
Module T := FF.Vmm.PdtTrans.
Import ListNotations.
Local Open Scope N_scope.

Definition boot : st := init_state 0x100 64 0 [0x101; 0x102; 0x103; 0x104; 0x105; 0x106; 0x107; 0x108].
Definition F : N := 0x120.          (* frame of the new, inactive table; kept in slot 0 *)
Definition PG : N := 0x7f0000123.   (* a page in the low canonical half *)
Definition LEA : N := 0x100ff8.     (* physical address of entry 511 of the active root 0x100 *)

(** what the examples observe of a result: error, trace, digest of the whole memory, entry 511 of the boot root *)
Definition obs {A} (r : gres (go_vmm_world * A)) : option (A * list gcall * N * N) :=
  match r with
  | GOk (w, a) => Some (a, f_world_trace w, digest (f_world_mem w), rd (mem (f_world_mem w)) 0x100 511)
  | _ => None
  end.
Definition mobs (r : R (st * N)) : option (N * N * N) :=
  match r with Ok (s', e) => Some (e, digest s', rd (mem s') 0x100 511) | Stray => None end.
Definition st_of (r : R (st * N)) : st := match r with Ok (s', _) => s' | Stray => boot end.

(** ---- Init ---- *)
Example C04_pdt_init_is_translation_nonvacuous : F < two64 /\ T.init_stable F (set_pdt boot 0 F).
Proof.
  split; [reflexivity|].
  intros s1 pf Emt Erp.
  vm_compute in Emt. injection Emt as <-.
  vm_compute in Erp. injection Erp as <-.
  vm_compute. reflexivity.
Qed.

Example init_run :
  obs (go_vmm_PageDirectoryTable_Init (mk_go_vmm_world [] (set_pdt boot 0 F)) 0 F T.o_active T.o_memset T.o_maptemp T.o_unmap)
  = Some ((None, F),
          [T.ev_unmap temp_page; T.ev_memset (frame_addr temp_page); T.ev_maptemp F; T.ev_active],
          digest (st_of (pdt_init 0 F boot)), 0x100003)
  /\ mobs (pdt_init 0 F boot) = Some (0, digest (st_of (pdt_init 0 F boot)), 0x100003).
Proof. vm_compute. split; reflexivity. Qed.

(** Init of the active root: only the receiver is written *)
Example init_active_run :
  obs (go_vmm_PageDirectoryTable_Init (mk_go_vmm_world [] (set_pdt boot 1 0x100)) 0 0x100 T.o_active T.o_memset T.o_maptemp T.o_unmap)
  = Some ((None, 0x100), [T.ev_active], digest boot, 0x100003).
Proof. vm_compute. reflexivity. Qed.

(** ---- Map / Unmap on the inactive table ---- *)
Definition s1 : st := st_of (pdt_init 0 F boot).

Example C04_pdt_map_is_translation_nonvacuous :
  T.mem_w64 s1 /\ cr3 s1 < two64 /\ pdts s1 0 < two64 /\ (3 : N) < two64 /\ pdts s1 0 = F /\ cr3 s1 = 0x100000.
Proof.
  split; [|vm_compute; repeat split; reflexivity].
  unfold s1. destruct (pdt_init 0 F boot) as [[s' e]|] eqn:E; cbn [st_of].
  - apply (T.pdt_init_keeps _ _ _ _ _ E). apply T.init_state_w64. reflexivity.
  - apply T.init_state_w64. reflexivity.
Qed.

(** the inactive Map: slot 511 of the active root is borrowed (flush), mapFn runs, the slot is handed back (flush);
    entry 511 of the active root is what it was, and the result is the model's *)
Example map_inactive_run :
  obs (go_vmm_PageDirectoryTable_Map (mk_go_vmm_world [] s1) F PG 0x4242 3 T.o_active T.o_flush T.o_map)
  = Some (None, [T.ev_flush LEA; T.ev_map PG 0x4242 3; T.ev_flush LEA; T.ev_active],
          digest (st_of (pdt_map 0 PG 0x4242 3 s1)), 0x100003)
  /\ mobs (pdt_map 0 PG 0x4242 3 s1) = Some (0, digest (st_of (pdt_map 0 PG 0x4242 3 s1)), 0x100003)
  /\ digest (st_of (pdt_map 0 PG 0x4242 3 s1)) <> digest s1.
Proof. vm_compute. repeat split; try reflexivity. discriminate. Qed.

Definition s2 : st := st_of (pdt_map 0 PG 0x4242 3 s1).

Example C04_pdt_unmap_is_translation_nonvacuous : T.mem_w64 s2 /\ cr3 s2 < two64 /\ pdts s2 0 < two64.
Proof.
  split; [|vm_compute; split; reflexivity].
  assert (H1 : T.mem_w64 s1) by apply C04_pdt_map_is_translation_nonvacuous.
  unfold s2. destruct (pdt_map 0 PG 0x4242 3 s1) as [[s' e]|] eqn:E; cbn [st_of].
  - refine (proj2 (proj2 (T.pdt_map_keeps 0 PG 0x4242 3 s1 s' e _ E)) H1). reflexivity.
  - apply T.init_state_w64. reflexivity.
Qed.

Example unmap_inactive_run :
  obs (go_vmm_PageDirectoryTable_Unmap (mk_go_vmm_world [] s2) F PG T.o_active T.o_flush T.o_unmap)
  = Some (None, [T.ev_flush LEA; T.ev_unmap PG; T.ev_flush LEA; T.ev_active],
          digest (st_of (pdt_unmap 0 PG s2)), 0x100003)
  /\ mobs (pdt_unmap 0 PG s2) = Some (0, digest (st_of (pdt_unmap 0 PG s2)), 0x100003).
Proof. vm_compute. split; reflexivity. Qed.

(** Unmap of a page whose upper tables do not exist: ErrInvalidMapping comes back, the slot is still handed back *)
Example unmap_unmapped_run :
  obs (go_vmm_PageDirectoryTable_Unmap (mk_go_vmm_world [] s1) F PG T.o_active T.o_flush T.o_unmap)
  = Some (Some "ErrInvalidMapping"%string, [T.ev_flush LEA; T.ev_unmap PG; T.ev_flush LEA; T.ev_active], digest s1, 0x100003).
Proof. vm_compute. reflexivity. Qed.

(** Map on the ACTIVE table (receiver = the active root): no borrowing, no extra flush *)
Example map_active_run :
  obs (go_vmm_PageDirectoryTable_Map (mk_go_vmm_world [] s1) 0x100 PG 0x4242 3 T.o_active T.o_flush T.o_map)
  = Some (None, [T.ev_map PG 0x4242 3; T.ev_active], digest (st_of (map_page PG 0x4242 3 s1)), 0x100003).
Proof. vm_compute. reflexivity. Qed.

(** allocator exhausted inside mapFn: the error is returned AFTER the slot has been handed back *)
Example map_inactive_alloc_failure_run :
  obs (go_vmm_PageDirectoryTable_Map (mk_go_vmm_world [] (set_orc s1 [])) F PG 0x4242 3 T.o_active T.o_flush T.o_map)
  = Some (Some "errAllocFrame"%string, [T.ev_flush LEA; T.ev_map PG 0x4242 3; T.ev_flush LEA; T.ev_active],
          digest s1, 0x100003).
Proof. vm_compute. reflexivity. Qed.

(** a stray access: cr3 names a frame outside the backed arena, so the raw-pointer store into its slot 511 cannot be
    resolved: the translation panics where the model reports Stray *)
Example map_stray_run :
  go_vmm_PageDirectoryTable_Map (mk_go_vmm_world [] (set_cr3 s1 0x5000000)) F PG 0x4242 3 T.o_active T.o_flush T.o_map = GPanic
  /\ pdt_map 0 PG 0x4242 3 (set_cr3 s1 0x5000000) = Stray.
Proof. vm_compute. split; reflexivity. Qed.

(** ---- Activate ---- *)
Example C04_pdt_activate_is_translation_nonvacuous : pdts s1 0 < two64.
Proof. vm_compute. reflexivity. Qed.

Example activate_run :
  match go_vmm_PageDirectoryTable_Activate (mk_go_vmm_world [] s1) F T.o_switch with
  | GOk (w, _) => Some (f_world_trace w, cr3 (f_world_mem w), slog (f_world_mem w))
  | _ => None
  end = Some ([T.ev_switch 0x120000], 0x120000, [0x120000]).
Proof. vm_compute. reflexivity. Qed.

(** ---- where the hand-written model and the Go code differ ----
    In [s3] the temporary page has been mapped once, so its page table (level 3) lives in frame 0x103.  Init of THAT
    frame maps the temporary page onto its own page table; kernel.Memset then clears the table, and the next
    dereference of the pointer (the store of 0) cannot be resolved: the translation - like the hardware - faults, while
    [pdt_init], which resolved the address once before the Memset, reports success.  [init_stable] excludes it. *)
Definition s3 : st := match map_temporary 0x130 boot with Ok (s', _, _) => s' | Stray => boot end.

Example init_live_table_differs :
  go_vmm_PageDirectoryTable_Init (mk_go_vmm_world [] (set_pdt s3 0 0x103)) 0 0x103 T.o_active T.o_memset T.o_maptemp T.o_unmap = GPanic
  /\ (match pdt_init 0 0x103 s3 with Ok (_, e) => Some e | Stray => None end) = Some 0
  /\ ~ T.init_stable 0x103 (set_pdt s3 0 0x103).
Proof.
  split; [vm_compute; reflexivity|]. split; [vm_compute; reflexivity|].
  intros H.
  assert (E : exists s', map_temporary 0x103 (set_pdt s3 0 0x103) = Ok (s', 0, temp_page) /\
                         resolve_page s' (frame_addr temp_page) = Some 0x103 /\
                         T.path_avoids s' (frame_addr temp_page) 0x103 = false).
  { eexists. split; [vm_compute; reflexivity|]. split; vm_compute; reflexivity. }
  destruct E as (s' & E1 & E2 & E3). rewrite (H s' _ E1 E2) in E3. discriminate.
Qed.

(** ---- the general corollary: its hypotheses hold for the boot state and frame F ---- *)
From FF Require Vmm.PtInit Vmm.PtMap.
Lemma boot_inv : PtMap.Inv boot 0x100 0x100 (PtInit.own_root 0x100).
Proof.
  apply PtInit.Inv_init; [reflexivity | vm_compute; discriminate | |].
  - vm_compute. repeat constructor; cbn; intuition discriminate.
  - intros f Hin Hz. cbn in Hin. repeat (destruct Hin as [<-|Hin]; [vm_compute; split; reflexivity|]). destruct Hin.
Qed.

Example C04_pdt_init_is_translation_inv_nonvacuous :
  PtMap.Inv boot 0x100 0x100 (PtInit.own_root 0x100) /\ (prot boot && (F =? zf boot)) = false /\ backed boot F = true /\
  PtInit.own_root 0x100 F = None /\ ~ In F (orc boot).
Proof.
  split; [exact boot_inv|]. repeat split; try reflexivity.
  cbn. intuition discriminate.
Qed.

(** audit B: C04_pdt_trans_keeps_w64 - its hypothesis holds at the boot state and the premises of both conjuncts are met
    by real runs (a mapping from the boot state, its removal), so the conclusion is used, not vacuously true *)
Example C04_pdt_trans_keeps_w64_nonvacuous :
  T.mem_w64 boot /\ (3 : N) < two64 /\
  (exists s' e, map_page PG 0x4242 3 boot = Ok (s', e) /\ e = 0 /\ T.mem_w64 s' /\
     exists s'' e', unmap_page PG s' = Ok (s'', e') /\ e' = 0 /\ T.mem_w64 s'').
Proof.
  assert (Hb : T.mem_w64 boot) by (apply T.init_state_w64; reflexivity).
  split; [exact Hb|]. split; [reflexivity|].
  destruct (map_page PG 0x4242 3 boot) as [[s' e]|] eqn:E; [|vm_compute in E; discriminate].
  assert (He : e = 0) by (vm_compute in E; injection E as _ <-; reflexivity).
  assert (Hw : T.mem_w64 s') by (exact (proj1 (T.trans_keeps_w64 boot s' e Hb) PG 0x4242 3 eq_refl E)).
  exists s', e. split; [reflexivity|]. split; [exact He|]. split; [exact Hw|].
  destruct (unmap_page PG s') as [[s'' e']|] eqn:E2.
  - exists s'', e'. split; [reflexivity|]. split.
    + vm_compute in E. injection E as <- _. vm_compute in E2. injection E2 as _ <-. reflexivity.
    + exact (proj2 (T.trans_keeps_w64 s' s'' e' Hw) PG E2).
  - exfalso. vm_compute in E. injection E as <- _. vm_compute in E2. discriminate.
Qed.
