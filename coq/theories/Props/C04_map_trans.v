(** C04 - tie of walk, Map, Unmap, pteForAddress / Translate and MapTemporary (kernel/mm/vmm/pdt.go, map.go) to the
    source BY TRANSLATION.

    Gen/Trans_vmm_map.v is regenerated on every run by gen/gotrans in its "memory as state" mode
    (gen/gotrans/ext_mem.go, config gen/gotrans/vmm_map.json); see Props/C04_pdt_trans.v for the mode.  Here every raw
    pointer access is VIRTUAL ([PtAccess.vload] / [vstore]: resolved by the model of the 4-level MMU from cr3 in the
    state at the time of the access); the seams are ptePtrFn / nextAddrFn (identity, as in the kernel), flushTLBEntryFn,
    mm.AllocFrame (the model's allocator oracle), kernel.Memset (the model's page-zeroing step) and, in [walk], the
    function parameter walkFn itself.

    walk.  [C04_walk_is_translation]: for EVERY closure (any stateful [clo : level -> entry address -> st -> option
    (st * bool)]) the translation of walk calls ptePtrFn and then the closure on exactly the items of
    [PtAccess.walk_items virtAddr] - the level and the virtual address of that level's entry in the recursive window,
    the 64-bit arithmetic of the model's walks - in order, stops after the first [false], and panics iff the closure
    does.  This is the contract under which the closures of Map / Unmap / pteForAddress are translated as the body of
    [gvisit .. (walk_items ..)] (Lib/GoVisit.v).  Side condition: at least 5 units of loop fuel (four levels and the
    exit test; with 4 the translation reports GFuel).  The step from this theorem to the [gvisit] form inside Map / Unmap /
    pteForAddress is the translator's (no Coq lemma composes the two).

    Map, Unmap, Translate, MapTemporary.  The regenerated function returns the model's machine state and error
    (model code [e] as [T.err_of e]) resp. physical address, and panics exactly where the model reports [Stray]
    ([M.wmem] forgets the trace of seam calls, which the model does not describe; flushes and allocations are part of
    the state).  Unmap and Translate: for every state with 64-bit memory words.  Map: flags < 2^64 (no bound on page
    or frame).  Map and MapTemporary: in addition
    under [M.map_stable]: the model resolves the entry address of a level ONCE and writes the new entry in one store,
    while the Go code dereferences the pointer again after each of its stores (the store of 0, SetFrame, SetFlags); the
    two agree when the entry is still found at its address after having been overwritten ([M.entry_stable]) - always so
    when the hardware walk that resolves the entry address does not read the entry itself ([M.map_stable_b], decidable,
    [C04_map_stable_decidable]), i.e. for pages outside the recursive slot 511 of a tree-shaped table hierarchy, the
    domain of C04's theorems.  Outside it (e.g. mapping a page of slot 511, see the examples) the Go code saws off the
    branch it sits on: the next dereference faults, where the hand-written model carries on.
    [C04_map_is_translation_inv] / [C04_map_temporary_is_translation_inv] discharge the side condition IN GENERAL on the
    domain of C04's theorems: for every state satisfying the invariant [Inv] (tree-shaped hierarchy with the recursive
    slot, fresh allocator frames) and every page outside the recursive window ([hw_idx page 0 <> 511]) the regenerated
    Map equals the model's [map_page] - no per-state check.  OUTSIDE that domain the Go code re-resolves the entry
    pointer after each store while the model resolves it once; the examples keep the differing case (the page of
    pdtVirtualAddr itself).
    Statements only; proofs are in Vmm/MapTrans.v and Vmm/StableInv.v. *)
From Coq Require Import NArith String List Bool.
From FF Require Import Lib.Word Lib.GoOps Gen.Consts_mm_vmm Gen.Trans_vmm_map Vmm.Pt Vmm.PtAccess.
From FF Require Vmm.MapTrans Vmm.PdtTrans Vmm.StableInv.
From FF Require Import Vmm.PtMap.
Module M := FF.Vmm.MapTrans.
Module T := FF.Vmm.PdtTrans.
Import ListNotations.
Local Open Scope N_scope.

Theorem C04_walk_is_translation :
  forall (clo : N -> N -> st -> option (st * bool)) (va : N) (s : st) (tr0 : list gcall) (fuel : nat),
    (5 <= fuel)%nat ->
    go_vmm_walk fuel (mk_go_vmm_world tr0 s) va M.o_id (M.o_clo clo) = M.walk_model clo (walk_items va) tr0 s.
Proof. exact M.walk_is_translation. Qed.
Print Assumptions C04_walk_is_translation.

Theorem C04_map_is_translation :
  forall (page frame flags : N) (s : st) (tr0 : list gcall),
    flags < two64 -> T.mem_w64 s ->
    M.map_stable go_levels 0 vmm_pdtVirtualAddr (frame_addr page) s ->
    M.wmem (go_vmm_Map (mk_go_vmm_world tr0 s) page frame flags T.o_flush T.o_memset M.o_alloc M.o_id) =
    match map_page page frame flags s with
    | Stray => GPanic
    | Ok (s', e) => GOk (s', T.err_of e)
    end.
Proof. exact M.map_is_translation. Qed.
Print Assumptions C04_map_is_translation.

Theorem C04_unmap_is_translation :
  forall (page : N) (s : st) (tr0 : list gcall),
    T.mem_w64 s ->
    M.wmem (go_vmm_Unmap (mk_go_vmm_world tr0 s) page T.o_flush) =
    match unmap_page page s with
    | Stray => GPanic
    | Ok (s', e) => GOk (s', T.err_of e)
    end.
Proof. exact M.unmap_is_translation. Qed.
Print Assumptions C04_unmap_is_translation.

Theorem C04_translate_is_translation :
  forall (va : N) (s : st) (tr0 : list gcall),
    T.mem_w64 s ->
    go_vmm_Translate (mk_go_vmm_world tr0 s) va =
    match translate va s with
    | Stray => GPanic
    | Ok (e, pa) => GOk (mk_go_vmm_world tr0 s, (pa, T.err_of e))
    end.
Proof. exact M.translate_is_translation. Qed.
Print Assumptions C04_translate_is_translation.

Theorem C04_map_temporary_is_translation :
  forall (frame : N) (s : st) (tr0 : list gcall),
    T.mem_w64 s ->
    M.map_stable go_levels 0 vmm_pdtVirtualAddr (frame_addr temp_page) s ->
    M.wmem (go_vmm_MapTemporary (mk_go_vmm_world tr0 s) frame T.o_flush T.o_memset M.o_alloc M.o_id) =
    match map_temporary frame s with
    | Stray => GPanic
    | Ok (s', e, p) => GOk (s', (p, T.err_of e))
    end.
Proof. exact M.map_temporary_is_translation. Qed.
Print Assumptions C04_map_temporary_is_translation.

(** the zero-frame guard at the top of Map, on its own: once armed, a writable mapping of the zero frame is refused by
    the regenerated function with errAttemptToRWMapReservedFrame, nothing is touched and no seam is called - for every
    state, with no side condition (the C06 clause, now about the translated source) *)
Theorem C04_map_guard_is_translation :
  forall (page flags : N) (s : st) (tr0 : list gcall) o1 o2 o3 o4,
    prot s = true -> N.land flags vmm_FlagRW <> 0 ->
    go_vmm_Map (mk_go_vmm_world tr0 s) page (zf s) flags o1 o2 o3 o4 =
    GOk (mk_go_vmm_world tr0 s, Some "errAttemptToRWMapReservedFrame"%string).
Proof. exact M.map_guard_is_translation. Qed.
Print Assumptions C04_map_guard_is_translation.

Theorem C04_map_stable_decidable :
  forall (page : N) (s : st),
    M.map_stable_b go_levels 0 vmm_pdtVirtualAddr (frame_addr page) s = true ->
    M.map_stable go_levels 0 vmm_pdtVirtualAddr (frame_addr page) s.
Proof. intros page s. apply M.map_stable_b_ok. Qed.
Print Assumptions C04_map_stable_decidable.

(** the same on the whole domain of C04_map_ok: the invariant and a page outside the recursive window *)
Theorem C04_map_is_translation_inv :
  forall (s : st) (A T : N) (own : PtTree.ownmap) (page frame flags : N) (tr0 : list gcall),
    Inv s A T own -> hw_idx page 0 <> 511 -> flags < two64 -> T.mem_w64 s ->
    M.wmem (go_vmm_Map (mk_go_vmm_world tr0 s) page frame flags T.o_flush T.o_memset M.o_alloc M.o_id) =
    match map_page page frame flags s with
    | Stray => GPanic
    | Ok (s', e) => GOk (s', T.err_of e)
    end.
Proof. exact StableInv.map_is_translation_inv. Qed.
Print Assumptions C04_map_is_translation_inv.

Theorem C04_map_temporary_is_translation_inv :
  forall (s : st) (A T : N) (own : PtTree.ownmap) (frame : N) (tr0 : list gcall),
    Inv s A T own -> T.mem_w64 s ->
    M.wmem (go_vmm_MapTemporary (mk_go_vmm_world tr0 s) frame T.o_flush T.o_memset M.o_alloc M.o_id) =
    match map_temporary frame s with
    | Stray => GPanic
    | Ok (s', e, p) => GOk (s', (p, T.err_of e))
    end.
Proof. exact StableInv.map_temporary_is_translation_inv. Qed.
Print Assumptions C04_map_temporary_is_translation_inv.

Theorem C04_map_stable_inv :
  forall (s : st) (A T : N) (own : PtTree.ownmap) (page : N),
    Inv s A T own -> hw_idx page 0 <> 511 ->
    M.map_stable go_levels 0 vmm_pdtVirtualAddr (frame_addr page) s.
Proof. intros s A T own page. apply StableInv.map_stable_inv. Qed.
Print Assumptions C04_map_stable_inv.

(** ---- with the exact sequence of seam calls (added after the audit) ----
    [M.map_page_tr] is [map_page] with the seam calls written next to it - mm.AllocFrame, nextAddrFn, kernel.Memset for
    every table created (in that order), flushTLBEntryFn of the page at the leaf - and [C04_map_tr_is_model] says that
    forgetting them gives [map_page] exactly.  The regenerated Map / Unmap make exactly these calls, in this order. *)
Theorem C04_map_is_translation_calls :
  forall (page frame flags : N) (s : st) (tr0 : list gcall),
    flags < two64 -> T.mem_w64 s ->
    M.map_stable go_levels 0 vmm_pdtVirtualAddr (frame_addr page) s ->
    go_vmm_Map (mk_go_vmm_world tr0 s) page frame flags T.o_flush T.o_memset M.o_alloc M.o_id =
    match M.map_page_tr page frame flags s tr0 with
    | None => GPanic
    | Some (s', e, tr') => GOk (mk_go_vmm_world tr' s', T.err_of e)
    end.
Proof. exact M.map_is_translation_calls. Qed.
Print Assumptions C04_map_is_translation_calls.

Theorem C04_map_tr_is_model :
  forall (page frame flags : N) (s : st) (tr0 : list gcall),
    match M.map_page_tr page frame flags s tr0 with
    | None => Stray
    | Some (s', e, _) => Ok (s', e)
    end = map_page page frame flags s.
Proof. exact M.map_page_tr_model. Qed.
Print Assumptions C04_map_tr_is_model.

Theorem C04_map_is_translation_calls_inv :
  forall (s : st) (A T : N) (own : PtTree.ownmap) (page frame flags : N) (tr0 : list gcall),
    Inv s A T own -> hw_idx page 0 <> 511 -> flags < two64 -> T.mem_w64 s ->
    go_vmm_Map (mk_go_vmm_world tr0 s) page frame flags T.o_flush T.o_memset M.o_alloc M.o_id =
    match M.map_page_tr page frame flags s tr0 with
    | None => GPanic
    | Some (s', e, tr') => GOk (mk_go_vmm_world tr' s', T.err_of e)
    end.
Proof.
  intros s A T own page frame flags tr0 HI H511 Hfl Hw.
  apply M.map_is_translation_calls; try assumption. eapply StableInv.map_stable_inv; eassumption.
Qed.
Print Assumptions C04_map_is_translation_calls_inv.

(** Unmap: one flushTLBEntryFn of the page, exactly when it succeeds *)
Theorem C04_unmap_is_translation_calls :
  forall (page : N) (s : st) (tr0 : list gcall),
    T.mem_w64 s ->
    go_vmm_Unmap (mk_go_vmm_world tr0 s) page T.o_flush =
    match unmap_page page s with
    | Stray => GPanic
    | Ok (s', e) => GOk (mk_go_vmm_world (if e =? 0 then T.ev_flush (frame_addr page) :: tr0 else tr0) s', T.err_of e)
    end.
Proof. exact M.unmap_is_translation_calls. Qed.
Print Assumptions C04_unmap_is_translation_calls.
