(** Non-vacuity for C08: reachable states with contention exist, and concrete schedules. *)
From Coq Require Import NArith List.
From FF Require Import Lib.Word Sync.Instr Gen.SpinAsm Sync.Machine Sync.MachineProofs.
Import ListNotations.
Local Open Scope N_scope.

(** three tasks: task 0 takes the lock with TryToAcquire, task 1 enters Acquire and spins (its exchange
    reads 1), task 2 fails TryToAcquire; task 0 increments the counter and releases; task 1, after a
    plain read that returns a stale 1 and one that returns 0, takes the lock. *)
Definition sched : list label :=
  [(0, CTry); (1, CStartAcq); (1, CInstr 0); (1, CInstr 0); (1, CInstr 0); (1, CInstr 0); (1, CInstr 0); (1, CInstr 0);
   (2, CTry); (0, CCsRead); (0, CCsWrite); (1, CInstr 0); (1, CInstr 1); (1, CInstr 0); (1, CInstr 0); (1, CInstr 0); (1, CInstr 0);
   (0, CRelease); (1, CInstr 0); (1, CInstr 0); (1, CInstr 0); (1, CInstr 0); (1, CInstr 0); (1, CInstr 0); (1, CInstr 0); (1, CInstr 0); (1, CInstr 0);
   (1, CInstr 0); (1, CInstr 0); (1, CInstr 0); (1, CInstr 0); (1, CInstr 0); (1, CInstr 0); (1, CInstr 0)]%nat.

Example C08_reachable_nonvacuous :
  exists s, run gen_cfg true (init 3) sched = Some s /\ lock s = 1 /\ counter s = 1 /\
            nth_error (threads s) 1 = Some (Holding None) /\ nth_error (threads s) 0 = Some Idle.
Proof. eexists. split; [vm_compute; reflexivity|]. vm_compute. auto. Qed.

Example C08_contended_state_nonvacuous :
  exists s, Reachable 3 true s /\ lock s = 1 /\ nth_error (threads s) 2 = Some Idle.
Proof.
  eexists. split; [exists (firstn 9 sched); vm_compute; reflexivity|]. vm_compute. auto.
Qed.

(** the bounded search finds nothing on the regenerated program (a test, not a proof) *)
Example C08_search_finds_nothing : run_case [2; 2; 60; 1] = [0].
Proof. vm_compute. reflexivity. Qed.
