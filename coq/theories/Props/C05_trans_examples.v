(** Non-vacuity of C05_setup_kernel_is_translation and concrete runs of the regenerated setupPDTForKernel
    (Gen/Trans_vmm_kernel.v) by [vm_compute] on the boot state of a case (arena of 64 frames from 0x100, active root
    0x100) with a four-entry section table: an executable section of three pages (unaligned start), an empty section
    (never delivered by the visitor), a writable section of one page, and a section below the kernel offset (skipped):
    the complete run, the same run with the allocator failing inside the first section, and a reserved range whose page
    is not mapped in the old space. *)
From Coq Require Import NArith String List Bool Lia.
From FF Require Import Lib.Word Lib.GoOps Gen.Consts_mm_vmm Gen.Trans_vmm_kernel Vmm.Pt Vmm.PtMem.
From FF Require Vmm.KernelTrans Vmm.PdtTrans Vmm.MapTrans.
Module K := FF.Vmm.KernelTrans.
Module T := FF.Vmm.PdtTrans.
Module M := FF.Vmm.MapTrans.
Import ListNotations.
Local Open Scope N_scope.

Definition OFF : N := 0xffff800000000000.
Definition secs : list section :=
  [(0x6, OFF + 0x100800, 0x2800); (0x2, OFF + 0x180000, 0); (0x3, OFF + 0x200000, 0x1000); (0x2, 0x1000, 0x5000)].
Definition full : list N := [0x101; 0x102; 0x103; 0x104; 0x105; 0x106; 0x107; 0x108; 0x109; 0x10a].
Definition boot (last0 : N) (oracle : list N) : st := init_state 0x100 64 last0 oracle.
Definition PG0 : N := 0xffff800000100.   (* the page of OFF + 0x100000 *)
Definition NX_RW_P : N := 0x8000000000000003.

Definition run (s : st) :=
  go_vmm_setupPDTForKernel 8 (mk_go_vmm_world [] s) OFF K.o_kactivate K.o_kinit K.o_kmap M.o_alloc K.o_translate (K.nonempty secs).
Definition obs (r : gres (go_vmm_world * option string)) :=
  match r with GOk (w, e) => Some (e, f_world_trace w, cr3 (f_world_mem w), digest (f_world_mem w)) | _ => None end.
Definition mobs (r : R (st * N)) := match r with Ok (s', e) => Some (e, cr3 s', digest s') | Stray => None end.

Example C05_setup_kernel_is_translation_nonvacuous :
  OFF < two64 /\ last (boot 0 full) < two64 /\ Forall K.sec_ok secs /\ K.fuel_ok 8 OFF secs (boot 0 full).
Proof.
  split; [reflexivity|]. split; [reflexivity|]. split.
  - repeat constructor; reflexivity.
  - split; [vm_compute; repeat constructor; vm_compute; lia | vm_compute; lia].
Qed.

(** a table that STARTS WITH the null section of every ELF section table (flags 0, address 0, size 0): the hypotheses hold
    with fuel 8 - the null entry is never visited and needs none (its page count `size - 1` would be 2^52) *)
Definition null_secs : list section := (0, 0, 0) :: secs.
Example C05_null_section_table_nonvacuous :
  OFF < two64 /\ last (boot 0 full) < two64 /\ Forall K.sec_ok null_secs /\ K.fuel_ok 8 OFF null_secs (boot 0 full)
  /\ K.sec_n 0 0 = 2 ^ 52
  /\ (match go_vmm_setupPDTForKernel 8 (mk_go_vmm_world [] (boot 0 full)) OFF K.o_kactivate K.o_kinit K.o_kmap M.o_alloc K.o_translate (K.nonempty null_secs)
      with GOk (w, e) => Some (e, length (f_world_trace w)) | _ => None end) = Some (None, 7%nat).
Proof.
  split; [reflexivity|]. split; [reflexivity|]. split; [repeat constructor; reflexivity|].
  split; [split; [vm_compute; repeat constructor; vm_compute; lia | vm_compute; lia]|].
  split; vm_compute; reflexivity.
Qed.

Example C05_setup_kernel_is_translation_state_nonvacuous :
  K.nonempty secs = [(0x6, OFF + 0x100800, 0x2800); (0x3, OFF + 0x200000, 0x1000); (0x2, 0x1000, 0x5000)].
Proof. reflexivity. Qed.

(** the complete run: root 0x101 allocated and initialised, three pages of the executable section mapped Present only
    (executable, read-only), the writable section Present | RW | NX, the empty and the low section produce no call, the
    new root is active; state and error are the model's *)
Example setup_run :
  obs (run (boot 0 full))
  = Some (None,
          [K.ev_kactivate;
           K.ev_kmap (PG0 + 0x100) 0x200 NX_RW_P;
           K.ev_kmap (PG0 + 2) 0x102 1; K.ev_kmap (PG0 + 1) 0x101 1; K.ev_kmap PG0 0x100 1;
           K.ev_kinit 0x101; K.ev_alloc],
          0x101000, digest (match setup_kernel OFF secs (boot 0 full) with Ok (s', _) => s' | Stray => boot 0 [] end))
  /\ mobs (setup_kernel OFF secs (boot 0 full)) =
     Some (0, 0x101000, digest (match setup_kernel OFF secs (boot 0 full) with Ok (s', _) => s' | Stray => boot 0 [] end)).
Proof. vm_compute. split; reflexivity. Qed.

(** the allocator fails inside the first section (after the root, the three tables of the temporary mapping and two of
    the three tables the first page needs): the error comes back, nothing more is mapped, nothing is activated *)
Example setup_alloc_failure_run :
  let s := boot 0 [0x101; 0x102; 0x103; 0x104; 0x105; 0x106] in
  obs (run s) = Some (Some "errAllocFrame"%string, [K.ev_kmap PG0 0x100 1; K.ev_kinit 0x101; K.ev_alloc], 0x100000,
                      digest (match setup_kernel OFF secs s with Ok (s', _) => s' | Stray => s end))
  /\ (match setup_kernel OFF secs s with Ok (_, e) => Some e | Stray => None end) = Some E_ALLOC.
Proof. vm_compute. split; reflexivity. Qed.

(** no frame at all: the first call fails *)
Example setup_no_frame_run :
  obs (run (boot 0 [])) = Some (Some "errAllocFrame"%string, [K.ev_alloc], 0x100000, digest (boot 0 [])).
Proof. vm_compute. reflexivity. Qed.

(** one reserved page below the temporary mapping that the old space does not map: translateFn's error comes back
    after the sections have been mapped *)
Example setup_reserved_unmapped_run :
  let s := boot (vmm_tempMappingAddr - 0x1000) full in
  (match run s with GOk (w, e) => Some (e, hd K.ev_alloc (f_world_trace w), cr3 (f_world_mem w)) | _ => None end)
  = Some (Some "ErrInvalidMapping"%string, K.ev_translate (vmm_tempMappingAddr - 0x1000), 0x100000)
  /\ (match setup_kernel OFF secs s with Ok (_, e) => Some e | Stray => None end) = Some E_INVALID
  /\ K.fuel_ok 8 OFF secs s.
Proof.
  split; [vm_compute; reflexivity|]. split; [vm_compute; reflexivity|].
  split; [vm_compute; repeat constructor; vm_compute; lia | vm_compute; lia].
Qed.

(** too little fuel is reported as GFuel, not as a panic *)
Example setup_fuel_run : run (boot 0 full) <> GFuel /\
  go_vmm_setupPDTForKernel 3 (mk_go_vmm_world [] (boot 0 full)) OFF K.o_kactivate K.o_kinit K.o_kmap M.o_alloc K.o_translate (K.nonempty secs) = GFuel.
Proof. split; [vm_compute; discriminate | vm_compute; reflexivity]. Qed.

(** ---- [audit A, repaired] a table shaped like a real kernel's: hypotheses discharged together, with the SMALL fuel the
    function needs: [K.fuel_ok] no longer counts the non-alloc sections at address 0 (64 and 28 pages) that the closure
    skips; the mapped sections are exactly the two at or above the offset. ---- *)
(* shape of a real kernel ELF table: null entry, alloc sections at/above the offset, and NON-ALLOC sections
   (.symtab/.strtab/.debug: address 0, large size) that the closure skips at `secAddress < kernelPageOffset` *)
Definition real_secs : list section :=
  (0, 0, 0) :: secs ++ [(0, 0, 0x1c000); (0, 0, 0x40000); (0, 0, 0x11)].

Example C05_setup_kernel_is_translation_real_input :
  OFF < two64 /\ last (boot 0 full) < two64 /\ Forall K.sec_ok real_secs /\ K.fuel_ok 8 OFF real_secs (boot 0 full)
  /\ K.mapped OFF real_secs = [(0x6, OFF + 0x100800, 0x2800); (0x3, OFF + 0x200000, 0x1000)]
  /\ K.sec_n 0 0x40000 = 64
  /\ (match go_vmm_setupPDTForKernel 8 (mk_go_vmm_world [] (boot 0 full)) OFF K.o_kactivate K.o_kinit K.o_kmap M.o_alloc K.o_translate (K.nonempty real_secs)
      with GOk (w, e) => Some (e, length (f_world_trace w)) | _ => None end) = Some (None, 7%nat).
Proof.
  split; [reflexivity|]. split; [reflexivity|]. split; [repeat constructor; reflexivity|].
  split; [split; [vm_compute; repeat constructor; vm_compute; lia | vm_compute; lia]|].
  split; [vm_compute; reflexivity|]. split; vm_compute; reflexivity.
Qed.
