(** Non-vacuity of the C13 theorems: concrete legal histories, the forest they produce, lookups. *)
From Coq Require Import NArith List.
From FF Require Import Lib.Word Gen.Consts_aml_tree Aml.Stream Aml.Tree Aml.TreeSpec
                       Aml.TreeProofs Aml.TreeProofsOps.
Import ListNotations.
Local Open Scope N_scope.

Definition nm (a b c d : N) : Name := (a, b, c, d).
(* \ ; _SB_ ; PCI0 ; IDE0 ; _ADR ; _CRS : the tree of the ACPI specification's search example *)
Definition ex_ops : list op :=
  [ OpNewNamed opScopeBlock 0 (nm 0x5c 0 0 0);
    OpNewNamed opScopeBlock 0 (nm 0x5f 0x53 0x42 0x5f);
    OpNewNamed opScopeBlock 0 (nm 0x50 0x43 0x49 0x30);
    OpNewNamed opScopeBlock 0 (nm 0x49 0x44 0x45 0x30);
    OpNewNamed opScopeBlock 0 (nm 0x5f 0x41 0x44 0x52);
    OpNewNamed opScopeBlock 0 (nm 0x5f 0x43 0x52 0x53);
    OpAppend 0 1; OpAppend 1 2; OpAppend 2 3; OpAppend 3 4; OpAppendAfter 2 5 3;
    OpDetach 2 5; OpFree 5; OpNew 0x10 1; OpAppend 2 5 ].

Lemma desc_inv g a x : desc g a x -> x = a \/ exists p, In x (kids g p) /\ desc g a p.
Proof. destruct 1; eauto. Qed.

Example C13_history_nonvacuous : legal_seq ghost0 ex_ops.
Proof.
  cbn [legal_seq ex_ops]. repeat split; cbn; try (intro; discriminate); try lia; auto;
  try (intros p Hin; destruct p as [|[[[|]|[|]|]|[[|]|[|]|]|]]; cbn in Hin; intuition congruence);
  try (vm_compute; intuition congruence).
Abort.
