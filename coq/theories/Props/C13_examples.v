(** Non-vacuity of the C13 theorems: a concrete legal history (the tree of the ACPI specification's
    search-rule example, built, edited, an object freed and its slot reused), the forest it
    produces, and lookups on it evaluated with the model and with the reference resolver. *)
From Coq Require Import NArith ZArith Arith List Bool Lia.
From FF Require Import Lib.Word Gen.Consts_aml_tree Aml.Stream Aml.Tree Aml.TreeSpec
                       Aml.TreeProofs Aml.TreeProofsOps Aml.TreeProofsFind Aml.TreeProofsAnc.
Import ListNotations.
Local Open Scope N_scope.

Definition nm4 (a b c d : N) : Name := (a, b, c, d).
(* slots: 0 = \ ; 1 = _SB_ ; 2 = PCI0 ; 3 = IDE0 ; 4 = _ADR ; 5 = _CRS *)
Definition ex_ops : list op :=
  [ OpNewNamed opScopeBlock 0 (nm4 0x5c 0 0 0);
    OpNewNamed opScopeBlock 0 (nm4 0x5f 0x53 0x42 0x5f);
    OpNewNamed opScopeBlock 0 (nm4 0x50 0x43 0x49 0x30);
    OpNewNamed opScopeBlock 0 (nm4 0x49 0x44 0x45 0x30);
    OpNewNamed opScopeBlock 0 (nm4 0x5f 0x41 0x44 0x52);
    OpNewNamed opScopeBlock 0 (nm4 0x5f 0x43 0x52 0x53);
    OpAppend 3 4;              (* IDE0 <- _ADR, while IDE0 is still detached *)
    OpAppend 0 1; OpAppend 1 2;
    OpAppend 2 3;              (* a whole subtree is attached *)
    OpNew 0x10 7;              (* slot 6 *)
    OpAppend 2 6;
    OpAppendAfter 2 5 3;       (* PCI0: IDE0, _CRS, (6) *)
    OpDetach 2 6; OpFree 6;
    OpNewNamed opScopeBlock 0 (nm4 0x5f 0x48 0x49 0x44)   (* reuses slot 6 *) ].

(** decision helpers for the two non-computational side conditions of [legal] *)
Lemma groot_check g i :
  forallb (fun l => negb (existsb (N.eqb i) l)) (g_kids g) = true -> groot g i.
Proof.
  intros H p Hin. unfold kids in Hin.
  destruct (Nat.ltb_spec (N.to_nat p) (length (g_kids g))) as [Hlt|Hge].
  - rewrite forallb_forall in H. specialize (H _ (nth_In _ [] Hlt)).
    apply negb_true_iff in H. apply existsb_eqb_In in Hin. congruence.
  - rewrite nth_overflow in Hin by lia. contradiction.
Qed.

Lemma not_desc_check g a x (S : list N) :
  existsb (N.eqb a) S = true ->
  forallb (fun p => forallb (fun c => existsb (N.eqb c) S) (kids g p)) S = true ->
  existsb (N.eqb x) S = false -> ~ desc g a x.
Proof.
  intros Ha Hc Hx Hd. assert (Hin : In x S).
  { clear Hx. induction Hd as [|p c Hd IH Hk]; [apply existsb_eqb_In; exact Ha|].
    rewrite forallb_forall in Hc. specialize (Hc _ IH). rewrite forallb_forall in Hc.
    apply existsb_eqb_In. apply Hc. exact Hk. }
  apply existsb_eqb_In in Hin. congruence.
Qed.

Ltac glive_tac := split; [vm_compute; reflexivity | vm_compute; intuition discriminate].
Ltac new_tac := split; [vm_compute; discriminate | split; [right; vm_compute; reflexivity | intros _; vm_compute; reflexivity]].
Ltac append_tac S :=
  split; [glive_tac | split; [glive_tac | split; [apply groot_check; vm_compute; reflexivity |
     apply (not_desc_check _ _ _ S); vm_compute; reflexivity]]].

Example C13_history_nonvacuous : legal_seq ghost0 ex_ops.
Proof.
  unfold ex_ops. cbn [legal_seq].
  repeat match goal with |- _ /\ _ => split end; cbn [legal]; try exact I.
  - new_tac. - new_tac. - new_tac. - new_tac. - new_tac. - new_tac.
  - append_tac [4].
  - append_tac [1].
  - append_tac [2].
  - append_tac [3; 4].
  - split; [vm_compute; discriminate | split; [left; vm_compute; discriminate | intros _; vm_compute; reflexivity]].
  - append_tac [6].
  - split; [glive_tac | split; [glive_tac | split; [apply groot_check; vm_compute; reflexivity |
      split; [apply (not_desc_check _ _ _ [5]); vm_compute; reflexivity | vm_compute; tauto]]]].
  - vm_compute; tauto.
  - split; [glive_tac | vm_compute; reflexivity].
  - new_tac.
Qed.

(** the forest after the history: \ -> _SB_ -> PCI0 -> [IDE0 -> _ADR ; _CRS]; slot 6 live again *)
Example C13_history_forest :
  arun ghost0 ex_ops = mkGhost [[1]; [2]; [3; 5]; [4]; []; []; []] [].
Proof. vm_compute. reflexivity. Qed.

(** the theorems apply: the model runs the history without panic and ends in a state related to that forest *)
Example C13_history_R :
  exists t', run (@NewObjectTree N) ex_ops = Ok t' /\ R t' (mkGhost [[1]; [2]; [3; 5]; [4]; []; []; []] []).
Proof.
  rewrite <- C13_history_forest. apply run_R; [apply R_empty | apply C13_history_nonvacuous].
Qed.

Definition ex_tree : ObjectTree N :=
  match run (@NewObjectTree N) ex_ops with Ok t => t | _ => NewObjectTree end.

Example C13_example_links :
  map (fun o => (o_parent o, o_prev o, o_next o, o_first o, o_last o)) (t_pool ex_tree) =
  let i := InvalidIndex in
  [ (i, i, i, 1, 1); (0, i, i, 2, 2); (1, i, i, 3, 5); (2, i, 5, 4, 4); (3, i, i, i, i); (2, 3, i, i, i); (i, i, i, i, i) ].
Proof. vm_compute. reflexivity. Qed.

Definition bytes_IDE0_ADR : list N := [0x49; 0x44; 0x45; 0x30; 0x5f; 0x41; 0x44; 0x52].
Definition bytes_CRS : list N := [0x5f; 0x43; 0x52; 0x53].

(** lookups (the cases of the ACPI specification): the model and the reference resolver *)
Example C13_find_examples :
  Find ex_tree 2 bytes_IDE0_ADR = Ok 4 /\                       (* IDE0._ADR from PCI0: downward *)
  Find ex_tree 3 bytes_CRS = Ok 5 /\                            (* _CRS from IDE0: found in the enclosing scope PCI0 *)
  Find ex_tree 1 bytes_IDE0_ADR = Ok InvalidIndex /\            (* several segments: no upward search *)
  Find ex_tree 3 ([0x5e; 0x5e] ++ [0x50; 0x43; 0x49; 0x30] ++ bytes_IDE0_ADR) = Ok 4 /\   (* ^^PCI0.IDE0._ADR *)
  Find ex_tree 3 [0x5e; 0x5e; 0x5e; 0x5e; 0x5e] = Ok InvalidIndex /\                     (* above the root *)
  Find ex_tree 4 [0x5c] = Ok 0 /\
  Find ex_tree 4 ([0x5c; 0x2f; 0x03; 0x5f; 0x53; 0x42; 0x5f; 0x50; 0x43; 0x49; 0x30] ++ [0x49; 0x44; 0x45; 0x30]) = Ok 3 /\
  Find ex_tree 3 [0x46; 0x4f; 0x4f] = Ok InvalidIndex /\        (* too short *)
  Find ex_tree 3 [] = Ok InvalidIndex.
Proof. vm_compute. repeat split; reflexivity. Qed.

Example C13_resolve_examples :
  let g := arun ghost0 ex_ops in let nm := name_at ex_tree in
  resolve g nm 2 bytes_IDE0_ADR = Some 4 /\ resolve g nm 3 bytes_CRS = Some 5 /\
  resolve g nm 1 bytes_IDE0_ADR = None /\ resolve g nm 3 [0x5e; 0x5e; 0x5e; 0x5e; 0x5e] = None.
Proof. vm_compute. repeat split; reflexivity. Qed.

(** the hypotheses of C13_find_spec hold for this tree and every one of its live scopes *)
Example C13_find_spec_nonvacuous :
  exists g, R ex_tree g /\ live ex_tree 0 /\ live ex_tree 3 /\ live ex_tree 6.
Proof.
  destruct C13_history_R as (t' & Hrun & HR). exists (mkGhost [[1]; [2]; [3; 5]; [4]; []; []; []] []).
  unfold ex_tree. rewrite Hrun. split; [exact HR|].
  assert (Ht : t' = ex_tree) by (unfold ex_tree; rewrite Hrun; reflexivity).
  rewrite Ht. repeat split; eexists; (split; [vm_compute; reflexivity | vm_compute; discriminate]).
Qed.

(** reuse before grow: after [OpFree 6] the next creation returns slot 6 and the pool keeps 7 slots *)
Example C13_reuse_example :
  exists t6 t7, run (@NewObjectTree N) (firstn 15 ex_ops) = Ok t6 /\ t_free t6 = 6 /\
     newNamedObject t6 opScopeBlock 0 (nm4 0x5f 0x48 0x49 0x44) = Ok (t7, 6) /\
     length (t_pool t7) = 7%nat /\ t_free t7 = InvalidIndex.
Proof. eexists _, _. vm_compute. repeat split; reflexivity. Qed.

(** panics are explicit in the model: free of an object that still has children, and a lookup
    from a freed scope *)
Example C13_panic_examples :
  free ex_tree 2 = Panic /\
  (exists t', free ex_tree 6 = Ok t' /\ Find t' 6 [0x5e] = Panic).
Proof. split; [vm_compute; reflexivity|]. eexists. split; vm_compute; reflexivity. Qed.


(** ClosestNamedAncestor on the example tree: every object is a named ScopeBlock, so the closest
    named ancestor of _ADR (slot 4) is IDE0 (slot 3); the root has none *)
Example C13_closest_example :
  ClosestNamedAncestor ex_tree (Some 4) = Ok 3 /\ closest_ref ex_tree (arun ghost0 ex_ops) 4 = Some 3 /\
  ClosestNamedAncestor ex_tree (Some 0) = Ok InvalidIndex /\ ClosestNamedAncestor ex_tree None = Ok InvalidIndex.
Proof. vm_compute. repeat split; reflexivity. Qed.

Example C13_info_ok_nonvacuous : info_ok ex_tree.
Proof.
  assert (H : forallb (fun o => (N.to_nat (o_infoIndex o) <? length tree_opcodeTableFlags)%nat) (t_pool ex_tree) = true)
    by (vm_compute; reflexivity).
  intros i o Hg _. unfold get in Hg. apply nth_error_In in Hg.
  rewrite forallb_forall in H. apply Nat.ltb_lt. apply H. exact Hg.
Qed.

(** the history of the defect repaired by /repo d18acb2, on the model: a named object ABCD is created below the
    root, freed, its slot is reused by newObject and the new object appended below the root: looking ABCD up
    from the root finds nothing (before the repair: the reused slot) *)
Example C13_newobject_unnamed_example :
  let ops := [ OpNewNamed opScopeBlock 0 (nm4 0x5c 0 0 0);
               OpNewNamed opScopeBlock 1 (nm4 0x41 0x42 0x43 0x44);
               OpAppend 0 1; OpDetach 0 1; OpFree 1;
               OpNew 0x11 1; OpAppend 0 1 ] in
  exists t, run (@NewObjectTree N) ops = Ok t /\ length (t_pool t) = 2%nat /\
            Find t 0 [0x41; 0x42; 0x43; 0x44] = Ok InvalidIndex /\
            option_map (@o_name N) (get t 1) = Some name_zero.
Proof. eexists. vm_compute. repeat split; reflexivity. Qed.
