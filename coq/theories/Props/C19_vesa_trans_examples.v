(** Non-vacuity and concrete runs for Props/C19_vesa_trans.v: a 20x5 pixel, 16-bit (5/6/5), padded (pitch 43)
    framebuffer console with a synthetic 8x2 font - a 2x2 character grid - built as NewVesaFbConsole + SetFont build it. *)
From Coq Require Import NArith ZArith PArith String List Lia.
From Coq Require Import ZifyBool ZifyN ZifyNat.
From FF Require Import Lib.Word Lib.GoOps Gen.Consts_device_tty Gen.Consts_device_video_console Gen.Trans_console_vesa.
From FF Require Import Console.Mem Console.Loop Console.Vesa Console.VesaProofs Console.VesaTrans Props.C19_vesa_trans.
Import ListNotations.
Local Open Scope N_scope.
Ltac Zify.zify_post_hook ::= Z.div_mod_to_equations.

Definition pal3 (i : N) : N * N * N := (i, 255 - i, i / 2).
Definition fnt8x2 : font := mkFont 8 2 1 512 (fun i => i mod 256).
Definition sc : vesa := mkVesa 16 2 (mkColorInfo 11 5 5 6 0 5) 20 5 0 43 (Some fnt8x2) 2 2 256 pal3.
Definition sm : fbuf := fresh 215 (fun _ => 7).
Definition fb_of (r : gres (go_console_VesaFbConsole * unit)) : list N :=
  match r with GOk (g, _) => f_VesaFbConsole_fb g | _ => [] end.

(** the hypotheses of the theorems hold for this console *)
Example C19_vesa_trans_wf_nonvacuous :
  set_font (new_vesa 20 5 16 43 (mkColorInfo 11 5 5 6 0 5) 256 pal3) fnt8x2 = Some sc /\
  vesa_wf sc fnt8x2 D16 sm /\ bytes_ok sc /\ (Pos.to_nat fuel32 <= Pos.to_nat fuel32)%nat.
Proof.
  split; [reflexivity|]. split; [constructor; cbn; try reflexivity; unfold two32; try lia|]. split; [|apply le_n].
  split; [|cbn; lia]. intros i Hi. change (pal_len sc) with 256 in Hi. change (pal sc i) with (i, 255 - i, i / 2). repeat split; try lia.
Qed.

(** the record and the extra parameters of the translation for this console *)
Example C19_vesa_trans_record :
  f_VesaFbConsole_bpp (to_gs sc 0xe0000000 sm) = 16 /\ f_VesaFbConsole_bytesPerPixel (to_gs sc 0xe0000000 sm) = 2 /\
  f_VesaFbConsole_fbPhysAddr (to_gs sc 0xe0000000 sm) = 0xe0000000 /\
  length (f_VesaFbConsole_fb (to_gs sc 0 sm)) = 215%nat /\ length (f_VesaFbConsole_palette (to_gs sc 0 sm)) = 256%nat /\
  nth_error (f_VesaFbConsole_palette (to_gs sc 0 sm)) 3 = Some (mk_go_color_RGBA 3 252 1 255) /\
  f_VesaFbConsole_font (to_gs sc 0 sm) = true /\
  (fgw sc, fgh sc, fbpr sc, length (fdata sc)) = (8, 2, 1, 512%nat) /\ nth_error (fdata sc) 130 = Some 130.
Proof. vm_compute. repeat split. Qed.

(** colour 3 = (3, 252, 1) packed 5/6/5 = 0x07e0, low byte first; index 256 is outside the palette *)
Example C19_vesa_trans_run_packColor :
  go_console_VesaFbConsole_packColor16 (to_gs sc 0 sm) 3 5 0 6 5 5 11 = GOk (to_gs sc 0 sm, [0xe0; 0x07]) /\
  pack_color16 sc 3 = [0xe0; 0x07] /\
  go_console_VesaFbConsole_packColor16 (to_gs sc 0 sm) 256 5 0 6 5 5 11 = GPanic.
Proof. vm_compute. repeat split. Qed.

(** Write('A' = glyph rows 0x82, 0x83; fg 3 = e0 07, bg 200 = ac c9) at column 2, line 1: pixel columns 8..15 of
    rows 0 and 1; the result is the model's *)
Example C19_vesa_trans_run_write :
  firstn 86 (fb_of (go_console_VesaFbConsole_Write 40 (to_gs sc 0 sm) 0x41 3 200 2 1 5 0 6 5 5 11 (fbpr sc) (fdata sc) (fgh sc) (fgw sc))) =
    [7; 7; 7; 7; 7; 7; 7; 7; 7; 7; 7; 7; 7; 7; 7; 7;
     224; 7; 172; 201; 172; 201; 172; 201; 172; 201; 172; 201; 224; 7; 172; 201; 7; 7; 7; 7; 7; 7; 7; 7; 7; 7; 7;
     7; 7; 7; 7; 7; 7; 7; 7; 7; 7; 7; 7; 7; 7; 7; 7;
     224; 7; 172; 201; 172; 201; 172; 201; 172; 201; 172; 201; 224; 7; 224; 7; 7; 7; 7; 7; 7; 7; 7; 7; 7; 7; 7] /\
  (match vesa_write sc sm 0x41 3 200 2 1 with
   | Ok m' => go_console_VesaFbConsole_Write 40 (to_gs sc 0 sm) 0x41 3 200 2 1 5 0 6 5 5 11 (fbpr sc) (fdata sc) (fgh sc) (fgw sc)
                = GOk (to_gs sc 0 m', tt)
   | _ => False
   end) /\
  go_console_VesaFbConsole_Write 40 (to_gs sc 0 sm) 0x41 3 200 3 1 5 0 6 5 5 11 (fbpr sc) (fdata sc) (fgh sc) (fgw sc) = GOk (to_gs sc 0 sm, tt) /\
  go_console_VesaFbConsole_Write 5 (to_gs sc 0 sm) 0x41 3 200 2 1 5 0 6 5 5 11 (fbpr sc) (fdata sc) (fgh sc) (fgw sc) = GFuel.
Proof. vm_compute. repeat split. Qed.

(** Fill(2, 1, 2^32-1, 2^32-1, bg 3): clipped to column 2, lines 1..2 = pixel columns 8..15 of rows 0..3 *)
Example C19_vesa_trans_run_fill :
  firstn 86 (fb_of (go_console_VesaFbConsole_Fill 100 (to_gs sc 0 sm) 2 1 0xffffffff 0xffffffff 0 3 5 0 6 5 5 11 (fgh sc) (fgw sc))) =
    [7; 7; 7; 7; 7; 7; 7; 7; 7; 7; 7; 7; 7; 7; 7; 7;
     224; 7; 224; 7; 224; 7; 224; 7; 224; 7; 224; 7; 224; 7; 224; 7; 7; 7; 7; 7; 7; 7; 7; 7; 7; 7; 7;
     7; 7; 7; 7; 7; 7; 7; 7; 7; 7; 7; 7; 7; 7; 7; 7;
     224; 7; 224; 7; 224; 7; 224; 7; 224; 7; 224; 7; 224; 7; 224; 7; 7; 7; 7; 7; 7; 7; 7; 7; 7; 7; 7] /\
  (match vesa_fill sc sm 2 1 0xffffffff 0xffffffff 0 3 with
   | Ok m' => go_console_VesaFbConsole_Fill 100 (to_gs sc 0 sm) 2 1 0xffffffff 0xffffffff 0 3 5 0 6 5 5 11 (fgh sc) (fgw sc)
                = GOk (to_gs sc 0 m', tt)
   | _ => False
   end).
Proof. vm_compute. repeat split. Qed.

(** Scroll up by one line (= 2 pixel rows): rows 2, 3 move to rows 0, 1 (40 row bytes each; the 3 padding bytes stay) *)
Example C19_vesa_trans_run_scroll :
  firstn 46 (fb_of (go_console_VesaFbConsole_Scroll 100 (to_gs sc 0 (fresh 215 (fun i => i))) console_ScrollDirUp 1 (fgh sc))) =
    [86; 87; 88; 89; 90; 91; 92; 93; 94; 95; 96; 97; 98; 99; 100; 101; 102; 103; 104; 105; 106; 107; 108; 109; 110; 111; 112;
     113; 114; 115; 116; 117; 118; 119; 120; 121; 122; 123; 124; 125; 40; 41; 42; 129; 130; 131] /\
  (match vesa_scroll sc (fresh 215 (fun i => i)) console_ScrollDirUp 1 with
   | Ok m' => go_console_VesaFbConsole_Scroll 100 (to_gs sc 0 (fresh 215 (fun i => i))) console_ScrollDirUp 1 (fgh sc) = GOk (to_gs sc 0 m', tt)
   | _ => False
   end) /\
  go_console_VesaFbConsole_Scroll 40 (to_gs sc 0 (fresh 215 (fun i => i))) console_ScrollDirUp 1 (fgh sc) = GFuel.
Proof. vm_compute. repeat split. Qed.

(** a framebuffer shorter than height*pitch (not a state DriverInit produces) and a colour index outside the
    palette: GPanic, as the model's Panic *)
Example C19_vesa_trans_run_panic :
  go_console_VesaFbConsole_Write 40 (to_gs sc 0 (fresh 100 (fun _ => 7))) 0x41 3 200 2 2 5 0 6 5 5 11 (fbpr sc) (fdata sc) (fgh sc) (fgw sc) = GPanic /\
  (match vesa_write sc (fresh 100 (fun _ => 7)) 0x41 3 200 2 2 with Panic _ => True | _ => False end) /\
  go_console_VesaFbConsole_Write 40 (to_gs sc 0 sm) 0x41 3 256 2 2 5 0 6 5 5 11 (fbpr sc) (fdata sc) (fgh sc) (fgw sc) = GPanic /\
  (match vesa_write sc sm 0x41 3 256 2 2 with Panic _ => True | _ => False end).
Proof. vm_compute. repeat split. Qed.
