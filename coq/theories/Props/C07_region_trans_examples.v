(** Non-vacuity and concrete runs for Props/C07_region_trans.v. *)
From Coq Require Import NArith String List Lia.
From FF Require Import Lib.Word Lib.GoOps Gen.Consts_mm_vmm Gen.Trans_mm_vmm2 Vmm.Region Vmm.RegionTrans2 Props.C07_region_trans.
Import ListNotations.
Local Open Scope N_scope.

(** the hypotheses: 64-bit arguments, fuel above the page count (3 pages here) *)
Example C07_region_trans_hypotheses_nonvacuous :
  vmm_earlyReserveInitial < two64 /\ 0x1234 < two64 /\ 0x2001 < two64 /\ 3 < two64 /\
  (N.to_nat (N.shiftr (round_up 0x2001) PageShift) < 4)%nat.
Proof. repeat split; vm_compute; try reflexivity; lia. Qed.

(** MapRegion(frame 0x1234, 0x2001 bytes = 3 pages): reservation, three mapFn calls with page+i / frame+i *)
Example C07_region_trans_run_map :
  go_vmm_MapRegion 4 (mk_go_vmm_world []) 0x1234 0x2001 3 (o_reserve vmm_earlyReserveInitial) (o_map None 1) =
  let start := vmm_earlyReserveInitial - 0x3000 in
  let p := N.shiftr start 12 in
  GOk (mk_go_vmm_world [GCall "mapFn" [GNum (p + 2); GNum 0x1236; GNum 3]; GCall "mapFn" [GNum (p + 1); GNum 0x1235; GNum 3];
                        GCall "mapFn" [GNum p; GNum 0x1234; GNum 3]; GCall "earlyReserveRegionFn" [GNum 0x3000]],
       (p, None)).
Proof. vm_compute. reflexivity. Qed.

(** the second mapFn call fails: two calls, (0, error); one unit of fuel too few: GFuel *)
Example C07_region_trans_run_map_fail :
  (match go_vmm_MapRegion 4 (mk_go_vmm_world []) 0x1234 0x2001 3 (o_reserve vmm_earlyReserveInitial) (o_map (Some 1) 1) with
   | GOk (w, r) => length (f_world_trace w) = 3%nat /\ r = (0, Some "errMap"%string)
   | _ => False
   end) /\
  go_vmm_MapRegion 3 (mk_go_vmm_world []) 0x1234 0x2001 3 (o_reserve vmm_earlyReserveInitial) (o_map None 1) = GFuel.
Proof. split; vm_compute; [split|]; reflexivity. Qed.

(** a size whose round-up wraps: nothing is called *)
Example C07_region_trans_run_wrap :
  go_vmm_MapRegion 4 (mk_go_vmm_world []) 1 (two64 - 1) 3 (o_reserve vmm_earlyReserveInitial) (o_map None 1) =
  GOk (mk_go_vmm_world [], (0, Some "errEarlyReserveNoSpace"%string)).
Proof. vm_compute. reflexivity. Qed.

(** IdentityMapRegion(frame 7, 2 pages): pages 7 and 8 mapped onto themselves; at the top of the address space
    (start + count wraps to 1) nothing is mapped, as in the model *)
Example C07_region_trans_run_identity :
  go_vmm_IdentityMapRegion 3 (mk_go_vmm_world []) 7 0x2000 3 (o_map None 0) =
    GOk (mk_go_vmm_world [GCall "mapFn" [GNum 8; GNum 8; GNum 3]; GCall "mapFn" [GNum 7; GNum 7; GNum 3]], (7, None)) /\
  go_vmm_IdentityMapRegion 3 (mk_go_vmm_world []) (two64 - 1) 0x2000 3 (o_map None 0) =
    GOk (mk_go_vmm_world [], (two64 - 1, None)) /\
  identity_map_region (two64 - 1) 0x2000 3 None = ([], Some (two64 - 1)).
Proof. repeat split; vm_compute; reflexivity. Qed.
