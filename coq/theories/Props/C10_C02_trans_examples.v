(** Non-vacuity of the composed C10 + C02 statement on the block of Props/C10_examples.v: a fresh boot allocator, kernel
    image in frames 0x100..0x1ff.  The closure finds frame 0 in the first region (available, 0x9fc00 bytes) and answers
    false: VisitMemRegions makes ONE visitor call; AllocFrame over that one entry = the model over all four regions. *)
From Coq Require Import String NArith List Bool.
From FF Require Import Lib.Word Lib.GoOps Gen.Consts_multiboot Gen.Trans_multiboot Multiboot.Model Multiboot.Spec Multiboot.AfterVisit
  Multiboot.DecodeTrans Props.C10_examples Props.C10_C02_trans.
Import ListNotations.
Local Open Scope N_scope.

Definition ex_cont := TC.cont_of (TC.alloc_visitor 0x100 0x1ff 0) (expected_regions ex_mb) 0.

Example C10_C02_calls_example :
  visited ex_cont 0 (expected_regions ex_mb) = [mkRegion 0 0x9fc00 1] /\
  PB.boot_alloc (map TC.br_of (expected_regions ex_mb)) 0x100 0x1ff PB.boot_reset = (PB.mkB 1 0, Some 0).
Proof. vm_compute. auto. Qed.

Example C10_C02_allocFrame_through_visitMemRegions_nonvacuous :
  go_multiboot_VisitMemRegions mld mst 100 (mkw [] (mem_of ex_layout (encode ex_mb))) (l_info ex_layout) (vis_oracle ex_cont 0) =
    GOk (mkw [GCall "visitor" [GNum 0; GNum 0x9fc00; GNum 1]] (mem_of ex_layout (encode (after_visit ex_cont ex_mb))), tt) /\
  Trans_pmm_boot.go_pmm_BootMemAllocator_AllocFrame (BT.to_ga 0x100000 0x1fffff 0x100 0x1ff PB.boot_reset)
      (map TC.gr_of (visited ex_cont 0 (expected_regions ex_mb))) =
    GOk (BT.to_ga 0x100000 0x1fffff 0x100 0x1ff (PB.mkB 1 0), (0, None)).
Proof.
  pose proof (C10_C02_allocFrame_through_visitMemRegions ex_layout ex_mb 0x100000 0x1fffff 0x100 0x1ff PB.boot_reset [] 100
                C10_mbinfo_wf_nonvacuous C10_layout_wf_nonvacuous) as H.
  cbv zeta in H. destruct H as [H1 H2].
  - vm_compute. repeat constructor.
  - vm_compute. repeat constructor.
  - split.
    + refine (eq_trans H1 _). vm_compute. reflexivity.
    + refine (eq_trans H2 _). vm_compute. reflexivity.
Qed.

(** the second allocation continues from the cursor: the closure skips nothing in region 1 either, so again one call *)
Example C10_C02_second_call_example :
  visited (TC.cont_of (TC.alloc_visitor 0x100 0x1ff 1) (expected_regions ex_mb) 0) 0 (expected_regions ex_mb) = [mkRegion 0 0x9fc00 1] /\
  (* an allocator whose cursor is at the end of the first region moves on: two calls, the second region is reserved (type 5 -> 2),
     the third too, the fourth is ACPI: all four are visited and the allocation fails *)
  length (visited (TC.cont_of (TC.alloc_visitor 0x100 0x1ff 0x9f) (expected_regions ex_mb) 0x9e) 0 (expected_regions ex_mb)) = 4%nat.
Proof. vm_compute. auto. Qed.
