(** C15 — kernel printf output is exact, bounded, never panics (allocation-freedom is measured by the
    harness, see checks/C15.py).  Statements only; proofs are in Kfmt/FmtProofs.v, Kfmt/FmtScanProofs.v.
    Model: Kfmt/Fmt.v (Fprintf's scanner over format indices, fmtInt over the bounds-checked
    numFmtBuf, fmtString, fmtBool, fmtRepeat).  Specification: Kfmt/FmtSpec.v ([render]). *)
From Coq Require Import NArith ZArith List.
From FF Require Import Lib.Word Gen.Consts_kfmt Kfmt.Fmt Kfmt.FmtSpec Kfmt.FmtProofs Kfmt.FmtScanProofs.
Import ListNotations.
Local Open Scope Z_scope.

(** For every well-formed format — a list of literal texts (any bytes but '%'), "%%" and
    "%<decimal digits><d|x|o|s|t>" with any width below 2^62 (the property asks for 0..10^6), written
    with or without leading zeros — and every argument list (too short, too long, mistyped; integers
    anywhere in the range of their type, strings and byte slices of any length Go can represent), and
    whatever numFmtBuf contained before the call: Fprintf returns normally and the bytes its writer
    received are exactly [render]: literal text unchanged, %% as one '%', integers in base 8/10/16
    with the digits of |v|, left-padded to min(width,31) (spaces and sign-in-the-last-space for
    decimal, zeros and a leading sign for octal/hex), strings/byte slices left-padded with spaces to
    the width, true/false, and the fixed markers for missing, wrongly-typed and surplus arguments. *)
Theorem C15_fprintf_exact :
  forall (ps : list piece) (args : list arg) (buf : list N),
    Forall piece_wf ps -> Forall arg_ok args -> length buf = N.to_nat kfmt_numFmtBufLen ->
    written (fprintf (encode ps) args buf) = Ok (render ps args).
Proof. exact fprintf_exact_written. Qed.
Print Assumptions C15_fprintf_exact.

(** The digit string fmtInt produces has the value |v| for every value of every built-in integer
    type (including the minimum of each signed type), in each base, uses only digits of that base,
    is not empty, and is preceded by '-' exactly for negative values. [render] is thereby tied to an
    independent reading of the digits ([value]), not only to its own digit generator. *)
Theorem C15_fmtint_digits :
  forall (buf : list N) (k : ikind) (x : Z) (base : Z),
    length buf = N.to_nat kfmt_numFmtBufLen -> in_range k x -> base = 8 \/ base = 10 \/ base = 16 ->
    exists s buf', fmt_int buf (AInt k x) base 0 = Ok ([s], buf') /\
      let ds := if x <? 0 then tl s else s in
      (x < 0 -> hd 0%N s = 45%N) /\ ds <> [] /\
      Forall (digit_ok (Z.to_N base)) ds /\ value (Z.to_N base) ds = Z.abs_N x.
Proof. exact fmtint_digits. Qed.
Print Assumptions C15_fmtint_digits.

(** The specification's digit generator read back with [value] gives the number (bases 2..16). *)
Theorem C15_digits_value :
  forall base n, (2 <= base)%N -> (base <= 16)%N -> value base (digits base n) = n.
Proof. exact value_digits. Qed.
Print Assumptions C15_digits_value.

(** For EVERY byte string used as format (unknown verb characters, a trailing '%', digit runs that
    wrap the 64-bit int, ...) and EVERY argument list (no range or type restriction at all), Fprintf
    returns normally: no index of the format string, of the argument slice or of the 33-byte
    numFmtBuf is ever out of range, no division by zero, and the fuel of the model's loops suffices. *)
Theorem C15_fprintf_never_panics :
  forall (fmt : list N) (args : list arg) (buf : list N),
    length buf = N.to_nat kfmt_numFmtBufLen -> exists r, fprintf fmt args buf = Ok r.
Proof. exact fprintf_never_panics. Qed.
Print Assumptions C15_fprintf_never_panics.

(** fmtInt on its own, for any value whatsoever of an integer argument and any requested padding
    (negative, or far beyond the buffer): it returns normally with exactly one Write, leaves the
    buffer length unchanged, and the output is the specification's rendering. *)
Theorem C15_fmtint_exact :
  forall (buf : list N) (k : ikind) (x : Z) (base pad : Z),
    length buf = N.to_nat kfmt_numFmtBufLen -> base = 8 \/ base = 10 \/ base = 16 -> in_range k x ->
    exists buf', length buf' = length buf /\
      fmt_int buf (AInt k x) base pad = Ok ([render_int (Z.to_N base) (Z.to_N pad) (x <? 0) (Z.abs_N x)], buf').
Proof. exact fmtint_exact_inrange. Qed.
Print Assumptions C15_fmtint_exact.
