(** C05 -- the kernel address space maps each loaded section exactly, with W^X permissions.
    Statements only; every proof is [exact <lemma from Vmm/PtKernel.v>].  Vocabulary as in Props/C04.v.
    [setup_kernel off secs s] models setupPDTForKernel(kernelPageOffset) with the section table the
    multiboot visitor delivers ((flags, address, size) triples; zero-size entries are dropped as
    VisitElfSections does); [last s] is earlyReserveLastUsed; [kspec] is the address space to be built. *)
From Coq Require Import NArith List Bool.
From FF Require Import Lib.Word Gen.Consts_mm_vmm Vmm.Pt Vmm.PtArith Vmm.PtTree Vmm.PtMap Vmm.PtTheorems Vmm.PtPdt Vmm.PtHist Vmm.PtKernel.
Import ListNotations.
Local Open Scope N_scope.

(** kernel_aspace.  From a boot address space A (invariant [Inv]) with the zero-frame guard not yet
    armed, an allocator that hands out fresh frames (kf is the first), section tables whose pages avoid
    the recursive window and whose frames stay below 2^40 ([sec_dom]), and a reserved range
    [last s, tempMappingAddr) that lies in top-level slot 510, is page aligned and mapped in A:

      - setupPDTForKernel never makes a stray access and returns nil or the allocator's error;
      - on success the new root kf is the active one (cr3, one switchPDT call), the old and new trees are
        disjoint and well formed, and EVERY page outside the recursive window translates in the new space
        exactly as [kspec] says (sections in table order, then the reservations);
      - on failure cr3 is unchanged;
      - with 4 + 3 * (number of section pages + reserved pages) usable frames it succeeds. *)
Theorem C05_kernel_aspace :
  forall s A ownA off secs kf r,
    Inv s A A ownA -> prot s = false -> orc s = kf :: r -> kf <> 0 ->
    Forall (sec_dom off) (live_secs secs) ->
    resv_lo <= last s -> last s <= vmm_tempMappingAddr -> last s mod 4096 = 0 ->
    (forall a, last s <= a -> a < vmm_tempMappingAddr -> a mod 4096 = 0 -> translation s A (N.shiftr a 12) <> None) ->
    exists s' err,
      setup_kernel off secs s = Ok (s', err) /\ (err = 0 \/ err = E_ALLOC) /\
      (err = 0 ->
         cr3 s' = frame_addr kf /\ slog s' = frame_addr kf :: slog s /\ pdts s' kernel_slot = kf /\
         (exists own' ownA', Inv2 s' kf A own' ownA') /\
         (forall q, hw_idx q 0 <> 511 -> translation s' kf q = kspec s A off secs (ixs q))) /\
      (err <> 0 -> cr3 s' = cr3 s /\ slog s' = slog s) /\
      ((4 + 3 * (secs_need off (live_secs secs) + N.to_nat (resv_count (last s))) <= length (orc s))%nat -> nz (orc s) -> err = 0).
Proof. exact kernel_aspace. Qed.
Print Assumptions C05_kernel_aspace.

(** [kspec] read page by page.  With sections that do not share a page with a later section or a
    reservation: the i-th page of a section at or above the kernel offset maps to frame
    (address - offset)/4096 + i with the section's flag word; a reserved page maps to the frame it had in
    the old space, present and writable; every other page -- in particular every page of a section below
    the offset -- is unmapped. *)
Theorem C05_kspec_pages :
  forall s A off secs,
    resv_lo <= last s -> last s <= vmm_tempMappingAddr -> last s mod 4096 = 0 ->
    (forall a, last s <= a -> a < vmm_tempMappingAddr -> a mod 4096 = 0 -> translation s A (N.shiftr a 12) <> None) ->
    (forall sflags addr size, In (sflags, addr, size) (live_secs secs) -> sec_n addr size <= 2 ^ 36) ->
    (forall l1 sflags addr size l2 q j,
       live_secs secs = l1 ++ (sflags, addr, size) :: l2 -> sec_page off (sflags, addr, size) q j ->
       (forall sec, In sec l2 -> ~ in_sec off sec q) -> (forall i, ~ resv_page s q i) ->
       kspec s A off secs (ixs q) = Some (sec_frame off addr + j, sec_flags sflags)) /\
    (forall q j f fl, resv_page s q j -> translation s A (N.shiftr (last s + 4096 * N.of_nat j) 12) = Some (f, fl) ->
       kspec s A off secs (ixs q) = Some (f, P_RW)) /\
    (forall q, (forall sec, In sec (live_secs secs) -> ~ in_sec off sec q) -> (forall i, ~ resv_page s q i) ->
       kspec s A off secs (ixs q) = None).
Proof. exact kspec_pages. Qed.
Print Assumptions C05_kspec_pages.

(** W^X: the flag word of a section is Present, plus NoExecute unless the section is executable, plus RW
    iff it is writable; never UserAccessible. *)
Theorem C05_section_flags :
  forall sflags,
    sec_flags sflags =
    N.lor (N.lor vmm_FlagPresent (if N.land sflags sec_executable =? 0 then vmm_FlagNoExecute else 0))
          (if N.land sflags sec_writable =? 0 then 0 else vmm_FlagRW) /\
    N.land (sec_flags sflags) vmm_FlagUserAccessible = 0.
Proof. exact sec_flags_val. Qed.
Print Assumptions C05_section_flags.

(** the quantities in [kspec]: for a section inside the 64-bit address space the first page is
    address/4096, the number of pages is what [address, address+size) touches, the first frame is
    (address - offset)/4096. *)
Theorem C05_section_geometry :
  forall off addr size, 0 < size -> addr + size <= two64 -> off <= addr ->
    sec_cur addr = addr / 4096 /\ sec_n addr size = (addr + size - 1) / 4096 - addr / 4096 + 1 /\
    sec_frame off addr = (addr - off) / 4096.
Proof. exact sec_geometry. Qed.
Print Assumptions C05_section_geometry.
