(** C19 — console drivers paint exactly the addressed cells, never outside the framebuffer.
    Statements only; every proof is [exact <lemma from Console/*Proofs.v>].

    Models: Console/Vga.v (VgaTextConsole) and Console/Vesa.v (VesaFbConsole): uint32/uint16/uint8
    arithmetic with explicit wrap-around; every framebuffer / font / palette access bounds-checked;
    an operation returns [Ok m'] (new memory), [Panic m'] (Go run-time panic) or [OutOfFuel m'].
    [load m i] is element [i] of the framebuffer, [flen m] its length.

    Geometry hypotheses: [vga_wf] (W,H >= 1, W*H < 2^32, buffer = W*H cells) and [vesa_wf]
    (grid w,h >= 1; pitch >= w*bytespp; h*pitch < 2^32; font 8..16 wide with 256 glyphs;
    offsetY <= h; depth 8/15/16/24/32; 256 palette entries) — see Console/VgaProofs.v,
    Console/VesaProofs.v.  Arguments: ANY natural number where no bound is stated (so in
    particular every 32-bit value).  The pixel-level reference painter ([write_ref], [fill_ref],
    [scroll_ref], [place_of], [cell_of], [glyph_bit]) is in Console/VesaSpec.v, the cell-level
    semantics ([in_grid], [in_fill], [g_write], [g_fill], [g_scroll]) in Console/Grid.v. *)
From Coq Require Import NArith List Bool.
From FF Require Import Lib.Word Gen.Consts_device_video_console.
From FF Require Import Console.Mem Console.Ops Console.Grid Console.Vga Console.VgaProofs.
From FF Require Import Console.Vesa Console.VesaSpec Console.VesaProofs.
From FF Require Import Console.VesaFillProofs Console.VesaScrollProofs Console.VesaWriteProofs Console.C19Lemmas Console.VesaGridProofs.
Import ListNotations.
Local Open Scope N_scope.

(** ======================= text-mode console ======================= *)

(** write_cell: Write(ch,fg,bg,x,y) never panics; for (x,y) in the grid exactly the element of that
    cell changes, to ((bg<<4|fg)<<8)|ch with colours above the palette replaced by the defaults;
    for (x,y) outside the grid nothing changes. *)
Theorem C19_vga_write_cell :
  forall c m ch fg bg x y, vga_wf c m -> x < two32 -> y < two32 ->
  exists m', vga_write c m ch fg bg x y = Ok m' /\ flen m' = flen m /\
    forall i, load m' i =
      if in_grid (vga_grid c m) x y && (i =? cell_idx c x y)
      then cell16 (text_colour vga_defaultBg bg) (text_colour vga_defaultFg fg) ch
      else load m i.
Proof. exact vga_write_spec. Qed.
Print Assumptions C19_vga_write_cell.

(** the cell value for the sixteen colours, and the treatment of larger values *)
Theorem C19_vga_cell_value :
  forall bg fg ch, bg <= 15 -> fg <= 15 -> ch <= 255 -> cell16 bg fg ch = (bg * 16 + fg) * 256 + ch.
Proof. exact cell16_value. Qed.
Print Assumptions C19_vga_cell_value.

Theorem C19_vga_colour_range :
  vga_maxColorIndex = vga_paletteLen - 1 /\
  (forall dflt v, v <= vga_maxColorIndex -> text_colour dflt v = v) /\
  (forall dflt v, vga_maxColorIndex < v -> text_colour dflt v = dflt).
Proof. exact (conj vga_max_colour (conj text_colour_in_range text_colour_default)). Qed.
Print Assumptions C19_vga_colour_range.

(** fill_clip: for EVERY x, y, width, height (no bound at all) Fill never panics and a cell of the
    grid changes iff it lies in the rectangle whose origin is clamped into the grid and whose
    extent is clipped at the right and bottom edges ([in_fill]); it then holds the attribute
    (bg<<4|fg) and the clear character; all other cells are unchanged. *)
Theorem C19_vga_fill_clip :
  forall c m x y width height fg bg, vga_wf c m ->
  exists m', vga_fill c m x y width height fg bg = Ok m' /\ flen m' = flen m /\
    forall cx cy, in_grid (vga_grid c m) cx cy = true ->
      load m' (cell_idx c cx cy) =
        if in_fill (vga_grid c m) x y width height cx cy
        then N.lor (attr16 bg fg) vga_clearChar
        else load m (cell_idx c cx cy).
Proof. exact vga_fill_spec. Qed.
Print Assumptions C19_vga_fill_clip.

(** the value Fill stores, for the sixteen colours: attribute (bg<<4|fg), clear character *)
Theorem C19_vga_fill_value :
  forall bg fg, bg <= 15 -> fg <= 15 ->
  N.lor (attr16 bg fg) vga_clearChar = (bg * 16 + fg) * 256 + vga_clearChar.
Proof. exact vga_fill_value. Qed.
Print Assumptions C19_vga_fill_value.

(** the cells are all there is: every element of the framebuffer is a cell of the grid *)
Theorem C19_vga_cells_cover :
  forall c m i, vga_wf c m -> i < flen m ->
  exists x y, 1 <= x <= vw c /\ 1 <= y <= vh c /\ i = cell_idx c x y.
Proof. exact cell_idx_surj. Qed.
Print Assumptions C19_vga_cells_cover.

(** scroll_lines: Scroll never panics; for 1 <= lines <= height every element receives the element
    [lines] rows below (up) / above (down), the vacated rows keep their content; any other line
    count (and any value that is not a scroll direction) changes nothing. *)
Theorem C19_vga_scroll_lines :
  forall c m dir lines, vga_wf c m -> lines < two32 ->
  exists m', vga_scroll c m dir lines = Ok m' /\ flen m' = flen m /\
    forall i, load m' i =
      match dir_of dir with
      | Some d => if scroll_ok (vga_grid c m) lines then vga_scrolled c m d lines i else load m i
      | None => load m i
      end.
Proof. exact vga_scroll_spec. Qed.
Print Assumptions C19_vga_scroll_lines.

(** the three operations refine the cell-level semantics of Console/Grid.v (used by C18) *)
Theorem C19_vga_refines_grid :
  forall c m, vga_wf c m ->
  (forall ch fg bg x y, x < two32 -> y < two32 ->
     exists m', vga_write c m ch fg bg x y = Ok m' /\ vga_wf c m' /\
       grid_eq (vga_grid c m')
               (g_write (vga_grid c m) x y (cell16 (text_colour vga_defaultBg bg) (text_colour vga_defaultFg fg) ch))) /\
  (forall x y width height fg bg,
     exists m', vga_fill c m x y width height fg bg = Ok m' /\ vga_wf c m' /\
       grid_eq (vga_grid c m') (g_fill (vga_grid c m) x y width height (N.lor (attr16 bg fg) vga_clearChar))) /\
  (forall dir d lines, lines < two32 -> dir_of dir = Some d ->
     exists m', vga_scroll c m dir lines = Ok m' /\ vga_wf c m' /\
       grid_eq (vga_grid c m') (g_scroll (vga_grid c m) d lines (gcell (vga_grid c m)))).
Proof.
  intros c m W. split; [|split].
  - intros. now apply vga_write_refines.
  - intros. now apply vga_fill_refines.
  - intros. now apply vga_scroll_refines.
Qed.
Print Assumptions C19_vga_refines_grid.

(** no_escape: no operation ever indexes outside the W*H cells (no Panic, no OutOfFuel), for every
    32-bit argument; the buffer keeps its length. *)
Theorem C19_vga_no_escape :
  forall c m, vga_wf c m ->
  (forall ch fg bg x y, x < two32 -> y < two32 ->
     exists m', vga_write c m ch fg bg x y = Ok m' /\ flen m' = flen m) /\
  (forall x y width height fg bg,
     exists m', vga_fill c m x y width height fg bg = Ok m' /\ flen m' = flen m) /\
  (forall dir lines, lines < two32 ->
     exists m', vga_scroll c m dir lines = Ok m' /\ flen m' = flen m).
Proof. exact vga_no_escape. Qed.
Print Assumptions C19_vga_no_escape.

(** ======================= framebuffer console ======================= *)

(** the hypotheses [wchars], [hchars], [bytespp], [offsetY] of [vesa_wf] are what NewVesaFbConsole,
    SetLogo and SetFont compute *)
Theorem C19_vesa_constructed :
  forall w0 h0 bpp0 pitch0 ci plen p lh f c,
  set_font (if lh =? 0 then new_vesa w0 h0 bpp0 pitch0 ci plen p
            else set_logo_height (new_vesa w0 h0 bpp0 pitch0 ci plen p) lh) f = Some c ->
  lh <= h0 -> h0 < two32 ->
  fnt c = Some f /\ bpp c = bpp0 /\ bytespp c = N.shiftr (w8 (bpp0 + 1)) 3 /\
  pw c = w0 /\ ph c = h0 /\ offsetY c = lh /\ pitch c = pitch0 /\
  wchars c = w0 / f_gw f /\ hchars c = (h0 - lh) / f_gh f /\ pal_len c = plen.
Proof. exact set_font_fields. Qed.
Print Assumptions C19_vesa_constructed.

(** write_cell: Write never panics; every byte of the framebuffer afterwards is what the reference
    painter says: for (x,y) in the grid the colour bytes of the pixels of that cell show the
    glyph (fg where the glyph bit is set, bg elsewhere, [pixel_bytes] = packColor of the palette
    entry), every other byte — other cells, margins, logo rows, padding, the 4th byte of a 32-bit
    pixel — is unchanged; for (x,y) outside the grid nothing changes. *)
Theorem C19_vesa_write_cell :
  forall c f d m ch fg bg x y,
  vesa_wf c f d m -> ch < 256 -> fg < 256 -> bg < 256 -> x < two32 -> y < two32 ->
  exists m' fgb bgb, pixel_bytes c d fg = Some fgb /\ pixel_bytes c d bg = Some bgb /\
    vesa_write c m ch fg bg x y = Ok m' /\ flen m' = flen m /\
    forall i, load m' i = if in_grid (vesa_dims c) x y then write_ref c f d m ch x y fgb bgb i else load m i.
Proof. exact vesa_write_spec. Qed.
Print Assumptions C19_vesa_write_cell.

(** fill_clip: for EVERY x, y, width, height (no bound at all) Fill never panics and every byte
    afterwards is what the reference painter says: the colour bytes of the pixels of the cells in
    the clamped and clipped rectangle ([in_fill]) hold bg, every other byte is unchanged. *)
Theorem C19_vesa_fill_clip :
  forall c f d m x y width height fg bg,
  vesa_wf c f d m -> bg < 256 ->
  exists m' bgb, pixel_bytes c d bg = Some bgb /\
    vesa_fill c m x y width height fg bg = Ok m' /\ flen m' = flen m /\
    forall i, load m' i = fill_ref c f d m x y width height bgb i.
Proof. exact vesa_fill_spec. Qed.
Print Assumptions C19_vesa_fill_clip.

(** scroll_lines: Scroll never panics; for 1 <= lines <= grid height every visible byte below the
    logo receives the byte [lines] text lines further down (up) / up (down) where such a row
    exists, logo rows and padding are unchanged; any other line count (and any value that is
    not a scroll direction) changes nothing. *)
Theorem C19_vesa_scroll_rows :
  forall c f d m dir lines, vesa_wf c f d m -> lines < two32 ->
  exists m', vesa_scroll c m dir lines = Ok m' /\ flen m' = flen m /\
    forall i, load m' i =
      match dir_of dir with
      | Some sd => if scroll_ok (vesa_dims c) lines then scroll_ref c f m sd lines i else load m i
      | None => load m i
      end.
Proof. exact vesa_scroll_spec. Qed.
Print Assumptions C19_vesa_scroll_rows.

(** ... in terms of text lines: line cy shows what line cy+lines (up) / cy-lines (down) showed *)
Theorem C19_vesa_scroll_lines :
  forall c f d m dir lines sd,
  vesa_wf c f d m -> lines < two32 -> dir_of dir = Some sd -> scroll_ok (vesa_dims c) lines = true ->
  exists m', vesa_scroll c m dir lines = Ok m' /\ flen m' = flen m /\
    forall cy r b, 1 <= cy <= hchars c -> r < f_gh f -> b < pw c * bytespp c ->
      match sd with
      | ScrollUp => cy + lines <= hchars c ->
          load m' (line_row c f cy r * pitch c + b) = load m (line_row c f (cy + lines) r * pitch c + b)
      | ScrollDown => lines < cy ->
          load m' (line_row c f cy r * pitch c + b) = load m (line_row c f (cy - lines) r * pitch c + b)
      end.
Proof. exact vesa_scroll_lines. Qed.
Print Assumptions C19_vesa_scroll_lines.

(** no_escape: no operation ever stores outside [0, h*pitch) (no Panic, no OutOfFuel; the buffer
    keeps its length), no padding byte between rows changes, and a scroll leaves the logo rows
    alone — for every argument. *)
Theorem C19_vesa_no_escape :
  forall c f d m, vesa_wf c f d m ->
  (forall ch fg bg x y, ch < 256 -> fg < 256 -> bg < 256 -> x < two32 -> y < two32 ->
     exists m', vesa_write c m ch fg bg x y = Ok m' /\ flen m' = flen m /\
       forall i, place_of c i = Padding -> load m' i = load m i) /\
  (forall x y width height fg bg, bg < 256 ->
     exists m', vesa_fill c m x y width height fg bg = Ok m' /\ flen m' = flen m /\
       forall i, place_of c i = Padding -> load m' i = load m i) /\
  (forall dir lines, lines < two32 ->
     exists m', vesa_scroll c m dir lines = Ok m' /\ flen m' = flen m /\
       forall i, place_of c i = Padding \/ i / pitch c < offsetY c -> load m' i = load m i).
Proof. exact vesa_no_escape. Qed.
Print Assumptions C19_vesa_no_escape.

(** the three operations refine the cell-level semantics of Console/Grid.v, a cell's content being
    the colour bytes of its pixels ([vesa_grid], [cell_rel]): Write paints the glyph picture, Fill
    paints solid background cells in the clamped/clipped rectangle, Scroll moves the lines (the
    vacated lines hold some content: the caller repaints them). *)
Theorem C19_vesa_refines_grid :
  forall c f d m, vesa_wf c f d m ->
  (forall ch fg bg x y, ch < 256 -> fg < 256 -> bg < 256 -> x < two32 -> y < two32 ->
     exists m' fgb bgb, pixel_bytes c d fg = Some fgb /\ pixel_bytes c d bg = Some bgb /\
       vesa_write c m ch fg bg x y = Ok m' /\ vesa_wf c f d m' /\
       grid_equiv (cell_rel f d) (vesa_grid c f m') (g_write (vesa_grid c f m) x y (glyph_cell f ch fgb bgb))) /\
  (forall x y width height fg bg, bg < 256 ->
     exists m' bgb, pixel_bytes c d bg = Some bgb /\
       vesa_fill c m x y width height fg bg = Ok m' /\ vesa_wf c f d m' /\
       grid_equiv (cell_rel f d) (vesa_grid c f m') (g_fill (vesa_grid c f m) x y width height (solid_cell bgb))) /\
  (forall dir sd lines, lines < two32 -> dir_of dir = Some sd ->
     exists m', vesa_scroll c m dir lines = Ok m' /\ vesa_wf c f d m' /\
       grid_equiv (cell_rel f d) (vesa_grid c f m')
                  (g_scroll (vesa_grid c f m) sd lines (gcell (vesa_grid c f m')))).
Proof.
  intros c f d m W. split; [|split].
  - intros. now apply vesa_write_refines.
  - intros. now apply vesa_fill_refines.
  - intros. now apply vesa_scroll_refines.
Qed.
Print Assumptions C19_vesa_refines_grid.

(** ---- the pixel format ("packed for the framebuffer's pixel format") ----
    [pixel_bytes] for 24/32 bpp are the low three bytes of [packed24].  Full statement: for every
    colour-mask layout that fits the pixel, nothing of the packed colour lies outside those bytes. *)
Definition C19_full_vesa_pixel_format : Prop :=
  forall ci r g b, r < 256 -> g < 256 -> b < 256 ->
    rsize ci <= 8 -> gsize ci <= 8 -> bsize ci <= 8 ->
    rpos ci + rsize ci <= 32 -> gpos ci + gsize ci <= 32 -> bpos ci + bsize ci <= 32 ->
    packed24 ci (r, g, b) < 2 ^ 24.

(** proved for the layouts inside the three bytes (all 24-bit formats, 32-bit formats whose 4th
    byte is unused); there the packed value is (r >> (8-size)) << pos | ... without any loss *)
Theorem C19_vesa_pixel_format_partial :
  forall ci r g b, r < 256 -> g < 256 -> b < 256 ->
    rsize ci <= 8 -> gsize ci <= 8 -> bsize ci <= 8 ->
    rpos ci + rsize ci <= 24 -> gpos ci + gsize ci <= 24 -> bpos ci + bsize ci <= 24 ->
    packed24 ci (r, g, b) < 2 ^ 24 /\
    packed24 ci (r, g, b) =
      N.lor (N.lor (N.shiftl (comp8 r (rsize ci)) (rpos ci)) (N.shiftl (comp8 g (gsize ci)) (gpos ci)))
            (N.shiftl (comp8 b (bsize ci)) (bpos ci)).
Proof. exact packed24_fits. Qed.
Print Assumptions C19_vesa_pixel_format_partial.

(** 15/16 bpp: layouts inside the two bytes lose nothing either *)
Theorem C19_vesa_pixel_format16 :
  forall ci r g b, r < 256 -> g < 256 -> b < 256 ->
    rsize ci <= 8 -> gsize ci <= 8 -> bsize ci <= 8 ->
    rpos ci + rsize ci <= 16 -> gpos ci + gsize ci <= 16 -> bpos ci + bsize ci <= 16 ->
    packed16 ci (r, g, b) < 2 ^ 16 /\
    packed16 ci (r, g, b) =
      N.lor (N.lor (N.shiftl (comp8 r (rsize ci)) (rpos ci)) (N.shiftl (comp8 g (gsize ci)) (gpos ci)))
            (N.shiftl (comp8 b (bsize ci)) (bpos ci)).
Proof. exact packed16_fits. Qed.
Print Assumptions C19_vesa_pixel_format16.

(** the full statement is false of the unchanged code: a 32-bit format with a component in the 4th
    byte (known finding vesa:32bpp-high-byte-component-dropped) *)
Theorem C19_vesa_pixel_format_refuted :
  exists ci rgb, rsize ci <= 8 /\ rpos ci + rsize ci <= 32 /\ 2 ^ 24 <= packed24 ci rgb.
Proof. exact packed24_high_byte_lost. Qed.
Print Assumptions C19_vesa_pixel_format_refuted.
