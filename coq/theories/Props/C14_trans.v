(** C14 - tie of the ACPI driver (kernel/device/acpi/acpi.go) to the hand-written model BY TRANSLATION.
    Gen/Trans_acpi_driver.v is regenerated on every run by gen/gotrans (config gen/gotrans/acpi_driver.json, feature
    "acpi" of gen/gotrans/ext_acpi.go) from the current source of [validTable] and [locateRSDT]:
    * raw memory is read through an oracle [ld : bytes -> address -> option value]; [T.ld_of m] is the oracle of the
      model's firmware memory [m] (little-endian read of consecutive bytes, None = a byte is missing: the translation
      reports GPanic where the model reports Fault / PStray);
    * [rsdp.Signature[i]], [rsdp.Revision], [rsdp.RSDTAddr], [rsdp2.XSDTAddr] are loads at the field offsets the Go
      compiler reports for table.RSDPDescriptor / table.ExtRSDPDescriptor (Gen/Consts_device_acpi.v), [unsafe.Sizeof] of the pointee of rsdp
      is the compiler's struct size, [extRSDPLength] the named constant of acpi.go;
    * rsdpLocationLow / rsdpLocationHi / rsdpAlignment are parameters (the harness points them at host memory);
    * mapFn / unmapFn are seams: calls are recorded on the trace of the record [world] (most recent first) as
      [GCall "mapFn" [GNum page; GNum frame; GNum flags]] / [GCall "unmapFn" [GNum page]]; what mapFn returns is the
      oracle [T.o_map pfail base]: the call number pfail (0-based, counted from a trace of length base) fails;
    * the deferred closure of locateRSDT runs after the body on every non-panicking path (ext_acpi.go splits the
      function into body / deferred / wrapper); `continue checkNextBlock` from the signature loop is a flag + break.

    [T.locate_result tr0 low (pr, nmap, nunmap)] is: GPanic for PStray, else GOk of the world whose trace is
    nunmap unmapFn calls (pages page_of low, +1, ..) on top of nmap mapFn calls (same pages, frame = page, FlagPresent)
    on top of tr0, with the results (root, useXSDT, nil) for PFound, (0, false, errMissingRSDP) for PMissing and
    (0, false, the mapFn error) for PMapErr.  Fuel: any number above [T.locate_fuel] = pages + slots + 8 + 20 + 36 + 2.
    Hypotheses of the second theorem: every byte of the image is < 256 (the model's memory is N-valued), low is a
    uintptr, and the scan does not wrap (0 < align, hi + align <= 2^64: the hypotheses of C14_rsdp_found; the
    kernel's values are 0xe0000, 0xfffff, 16).
    Statements only; proofs are in Acpi/DriverTrans.v. *)
From Coq Require Import NArith String List.
From FF Require Import Lib.Word Lib.GoOps Gen.Consts_device_acpi Gen.Trans_acpi_driver Acpi.Model Acpi.Spec.
From FF Require Acpi.DriverTrans.
Module T := FF.Acpi.DriverTrans.
Import ListNotations.
Local Open Scope N_scope.

(** validTable: for every memory, pointer, 32-bit length and trace, with fuel above the length, the regenerated function
    returns the model's verdict and leaves the trace alone; a missing byte is a panic. *)
Theorem C14_validTable_is_translation :
  forall (m : mem) (tr0 : list gcall) (ptr len : N) (fuel : nat),
    ptr < two64 -> len < two32 -> (N.to_nat len < fuel)%nat ->
    go_acpi_validTable fuel (mk_go_acpi_world tr0) ptr len (T.ld_of m) =
    match validTable m ptr len with
    | Got b => GOk (mk_go_acpi_world tr0, b)
    | Fault _ => GPanic
    end.
Proof. exact T.validTable_is_translation. Qed.
Print Assumptions C14_validTable_is_translation.

(** ... hence (with C14_valid_table) the regenerated validTable answers true iff the bytes are all there and sum to 0. *)
Theorem C14_validTable_trans_spec :
  forall (m : mem) (tr0 : list gcall) (ptr len : N) (fuel : nat),
    ptr < two64 -> len < two32 -> (N.to_nat len < fuel)%nat ->
    (go_acpi_validTable fuel (mk_go_acpi_world tr0) ptr len (T.ld_of m) = GOk (mk_go_acpi_world tr0, true)
       <-> sums_to_zero m ptr len) /\
    (go_acpi_validTable fuel (mk_go_acpi_world tr0) ptr len (T.ld_of m) = GOk (mk_go_acpi_world tr0, false)
       <-> sums_to_nonzero m ptr len).
Proof. exact T.validTable_trans_spec. Qed.
Print Assumptions C14_validTable_trans_spec.

(** locateRSDT: the regenerated function equals the model's probe - result, mapFn / unmapFn calls in order, panic on a
    stray read - for every memory image, search window, alignment, mapFn failure and initial trace. *)
Theorem C14_locateRSDT_is_translation :
  forall (m : mem) (low hi align : N) (pfail : option N) (tr0 : list gcall) (fuel : nat),
    bytes_ok m -> low < two64 -> 0 < align -> hi + align <= two64 ->
    (N.to_nat (T.locate_fuel low hi align) < fuel)%nat ->
    go_acpi_locateRSDT fuel (mk_go_acpi_world tr0) (T.ld_of m) align hi low (T.o_map pfail (length tr0)) =
    T.locate_result tr0 low (locateRSDT m low hi align pfail).
Proof. exact T.locateRSDT_is_translation. Qed.
Print Assumptions C14_locateRSDT_is_translation.

(** mapACPITable (same generated file): the two calls through the identityMapFn seam are recorded as
    [GCall "identityMapFn" [GNum frame; GNum size; GNum flags]]; [T.o_idmap fail] is the identityMapFn of the model's
    environment - it returns the page of the frame it is given (identity mapping, as the kernel's vmm.IdentityMapRegion and
    the harness stub do) and fails at the calls [fail] selects, numbered over the identityMapFn calls on the trace
    ([T.n_idmap]); the model's seam counter must agree with the trace ([sk s = T.n_idmap tr0]).
    [header.Length] is a 4-byte load at the compiler's offset of SDTHeader.Length from headerPage.Address() +
    vmm.PageOffset(tableAddr) (vmm.PageOffset is taken as a & mask with the regenerated mask, Acpi/TransEnv.v).
    [T.map_result tr0 s (s', r)]: GPanic for MStray, else the world with the model's new seam calls on top of tr0 and
    (header, sizeof(SDTHeader), nil / errTableChecksumMismatch) resp. (nil pointer, sizeof, the seam's error) for MErr.
    Fuel: at least 2^32 (the length field is 32 bits wide; the checksum loop runs over it). *)
Theorem C14_mapACPITable_is_translation :
  forall (m : mem) (fail : N -> bool) (s : seam) (tr0 : list gcall) (addr : N) (fuel : nat),
    bytes_ok m -> addr < two64 -> sk s = T.n_idmap tr0 -> (N.to_nat two32 <= fuel)%nat ->
    go_acpi_mapACPITable fuel (mk_go_acpi_world tr0) addr (T.ld_of m) (T.o_idmap fail) =
    T.map_result tr0 s (mapACPITable m fail s addr).
Proof. exact T.mapACPITable_is_translation. Qed.
Print Assumptions C14_mapACPITable_is_translation.

(** enumerateTables (same generated file).  The method runs over the world; its receiver fields rsdtAddr / useXSDT are
    parameters; [drv.tableMap = make(..)] and [drv.tableMap[sig] = header] are the events [GCall "tableMap.make" []] and
    [GCall "tableMap.set" [GNum sig; GNum header]] (a 4-byte signature is the little-endian number of its bytes), the
    "checksum mismatch; skipping" line is [GCall "Fprintf" [GBytes format; GNum sig; GNum header; GNum length]], the seam
    calls are as for mapACPITable; the local []uintptr is a list (make / indexed store / len / range as in Go).
    [T.abs tr] is the model state a trace stands for: reading the trace oldest call first, an identityMapFn call is counted
    and recorded in the seam, a Fprintf call logs [EvMismatch sig header length], tableMap.set registers, tableMap.make
    empties the table map.
    The theorem: for EVERY memory image with byte-valued cells, EVERY failure pattern [fail] of identityMapFn, root pointer and
    entry width, the regenerated enumerateTables started on the empty trace
    * panics exactly when the model reports a stray read,
    * and otherwise returns the model's result - nil / errTableChecksumMismatch (corrupt root table) / the seam's error
      (abort) - with a trace that stands for exactly the model's final state: the same identityMapFn calls in the same
      order, the same mismatch reports in order, the same registrations in order.
    So the function the theorems of Props/C14.v speak about - C14_registered_iff, C14_enumeration_order,
    C14_enumeration_continues, C14_map_error_aborts, C14_success_no_seam_failure, C14_reports_in_order - is the translation
    of the source.  Fuel: at least 2^32 (lengths are 32-bit).  The relative order BETWEEN the three kinds of events on the
    trace is in the translation but not in the model's state, hence not in this statement. *)
Theorem C14_enumerateTables_is_translation :
  forall (m : mem) (fail : N -> bool) (rsdt : N) (useXSDT : bool) (fuel : nat),
    bytes_ok m -> rsdt < two64 -> (N.to_nat two32 <= fuel)%nat ->
    match enumerateTables m fail rsdt useXSDT with
    | (_, IStray _) =>
        go_acpi_acpiDriver_enumerateTables fuel (mk_go_acpi_world []) rsdt useXSDT (T.ld_of m) (T.o_idmap fail) = GPanic
    | (s, r) =>
        exists tr, go_acpi_acpiDriver_enumerateTables fuel (mk_go_acpi_world []) rsdt useXSDT (T.ld_of m) (T.o_idmap fail) =
                   GOk (mk_go_acpi_world tr, T.err_of r) /\ T.abs tr = s
    end.
Proof. exact T.enumerateTables_is_translation. Qed.
Print Assumptions C14_enumerateTables_is_translation.

(** ---- the remaining control flow of acpi.go: probeForACPI and DriverInit ---- *)
(** probeForACPI returns a device.Driver: nil, or &acpiDriver{rsdtAddr, useXSDT}.  gen/gotrans (config "ctor", a syntax-tree
    rewrite) makes that the triple (false, 0, false) / (true, rsdtAddr, useXSDT).  [T.probe_result] is [T.locate_result] with
    that triple in place of locateRSDT's results: a driver exactly for PFound - carrying exactly the root pointer and the
    entry width the model's probe found -, no driver (nil) for errMissingRSDP and for a mapFn error, GPanic for a stray read;
    the trace (mapFn / unmapFn calls) is locateRSDT's.  Hypotheses: those of C14_locateRSDT_is_translation (= of C14_rsdp_found). *)
Theorem C14_probe_is_translation :
  forall (m : mem) (low hi align : N) (pfail : option N) (tr0 : list gcall) (fuel : nat),
    bytes_ok m -> low < two64 -> 0 < align -> hi + align <= two64 ->
    (N.to_nat (T.locate_fuel low hi align) < fuel)%nat ->
    go_acpi_probeForACPI fuel (mk_go_acpi_world tr0) (T.ld_of m) align hi low (T.o_map pfail (length tr0)) =
    T.probe_result tr0 low (locateRSDT m low hi align pfail).
Proof. exact T.probe_is_translation. Qed.
Print Assumptions C14_probe_is_translation.

(** DriverInit: enumerateTables; on an error return it; else printTableInfo and nil.  [drv.enumerateTables(w)] is the call of
    the translated method (the receiver's rsdtAddr / useXSDT handed on); printTableInfo is NOT translated (it ranges over a Go
    map and formats through kfmt): it is the seam event [T.ev_print] = GCall "printTableInfo" [].  Against the model's
    [driverInit] (the function C14_registered_iff, C14_map_error_aborts, C14_reports_in_order ... are stated about), for
    every image, failure pattern of identityMapFn, root pointer and entry width:
    * model IOk: the translation returns nil, its last call is printTableInfo, and the trace before it stands for the model's
      final state ([T.abs]);
    * model IErrChecksum / IErrMap: the error is returned, printTableInfo is NOT called, the trace stands for the model's state;
    * model IStray: either the translation panics (stray read during enumeration), or the stray read is one the model places
      inside printTableInfo ([info_lines]) - behind the seam -, and the translation is as in the IOk case. *)
Theorem C14_driverInit_is_translation :
  forall (m : mem) (fail : N -> bool) (rsdt : N) (useXSDT : bool) (fuel : nat),
    bytes_ok m -> rsdt < two64 -> (N.to_nat two32 <= fuel)%nat ->
    let res := go_acpi_acpiDriver_DriverInit fuel (mk_go_acpi_world []) rsdt useXSDT (T.ld_of m) (T.o_idmap fail) in
    match driverInit m fail rsdt useXSDT with
    | (s, IOk, _) => exists tr, res = GOk (mk_go_acpi_world (T.ev_print :: tr), None) /\ T.abs tr = s
    | (s, IStray _, _) => res = GPanic \/ exists tr, res = GOk (mk_go_acpi_world (T.ev_print :: tr), None) /\ T.abs tr = s
    | (s, r, _) => exists tr, res = GOk (mk_go_acpi_world tr, T.err_of r) /\ T.abs tr = s
    end.
Proof. exact T.driverInit_is_translation. Qed.
Print Assumptions C14_driverInit_is_translation.

(** The whole path from the BIOS-area scan to the registered table map, as device detection runs it: [T.probe_then_init] is
    the regenerated probeForACPI followed - when it returns a driver - by the regenerated DriverInit ON THE DRIVER IT
    RETURNED and on the trace it left (a two-line Coq composition of the two regenerated terms; hal's driver loop itself is
    C16's subject).  Its result is (driver returned?, DriverInit's error).  For every image, window, alignment, mapFn failure
    and identityMapFn failure pattern:
    * the model's probe finds (root, useXSDT): the outcome is DriverInit's, as above, for exactly that root and width, the final
      trace standing for the model's [driverInit m fail root useXSDT] state (the probe's mapFn / unmapFn calls do not count);
    * errMissingRSDP or a mapFn error: no driver, nothing enumerated (the trace stands for the initial state);
    * a stray read during the scan: panic. *)
Theorem C14_probe_then_init_is_translation :
  forall (m : mem) (low hi align : N) (pfail : option N) (fail : N -> bool) (fuel : nat),
    bytes_ok m -> low < two64 -> 0 < align -> hi + align <= two64 ->
    (N.to_nat (T.locate_fuel low hi align) < fuel)%nat -> (N.to_nat two32 <= fuel)%nat ->
    let res := T.probe_then_init fuel [] (T.ld_of m) align hi low (T.o_map pfail 0) (T.o_idmap fail) in
    match locateRSDT m low hi align pfail with
    | (PFound root x, _, _) =>
        match driverInit m fail root x with
        | (s, IOk, _) => exists tr, res = GOk (mk_go_acpi_world (T.ev_print :: tr), (true, None)) /\ T.abs tr = s
        | (s, IStray _, _) => res = GPanic \/ exists tr, res = GOk (mk_go_acpi_world (T.ev_print :: tr), (true, None)) /\ T.abs tr = s
        | (s, r, _) => exists tr, res = GOk (mk_go_acpi_world tr, (true, T.err_of r)) /\ T.abs tr = s
        end
    | (PMissing, _, _) | (PMapErr, _, _) => exists tr, res = GOk (mk_go_acpi_world tr, (false, None)) /\ T.abs tr = state0
    | (PStray _, _, _) => res = GPanic
    | (PFuel, _, _) => False
    end.
Proof. exact T.probe_then_init_is_translation. Qed.
Print Assumptions C14_probe_then_init_is_translation.
