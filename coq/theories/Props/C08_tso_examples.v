(** Non-vacuity for C08 under TSO: a schedule in which store buffering is visible. *)
From Coq Require Import NArith List.
From FF Require Import Lib.Word Sync.Instr Gen.SpinAsm Sync.Machine Sync.Tso Sync.TsoProofs.
Import ListNotations.
Local Open Scope N_scope.

(** Two tasks, plain-store release.  Task 0 takes the lock with TryToAcquire, increments the counter
    (the store stays in its buffer), releases (the store of 0 is buffered behind it).  Memory still
    says lock = 1, counter = 0: task 1's TryToAcquire fails.  Task 0's buffer drains (counter first,
    then the lock word); task 1's TryToAcquire succeeds and it reads counter = 1. *)
Definition tsched1 : list tlabel :=
  [(0, TOp CTry); (0, TOp CCsRead); (0, TOp CCsWrite); (0, TOp CRelease)]%nat.
Definition tsched2 : list tlabel :=
  tsched1 ++ [(1, TOp CTry); (0, TFlush); (1, TOp CTry); (0, TFlush); (1, TOp CTry); (1, TOp CCsRead)]%nat.

Example C08_tso_buffered_release_nonvacuous :
  exists s, trun gen_cfg true false (tinit 2) tsched1 = Some s /\
            m_lock s = 1 /\ m_counter s = 0 /\ t_ndone s = 1 /\
            nth_error (tthreads s) 0 = Some (Idle, [WCounter 1; WLock 0]).
Proof. eexists. split; [vm_compute; reflexivity|]. vm_compute. auto. Qed.

Example C08_tso_next_holder_sees_nonvacuous :
  exists s, TReachable 2 true false s /\
            nth_error (tthreads s) 1 = Some (Holding (Some 1), []) /\ m_counter s = 1 /\ m_lock s = 1 /\
            nth_error (tthreads s) 0 = Some (Idle, []).
Proof. eexists. split; [exists tsched2; vm_compute; reflexivity|]. vm_compute. auto. Qed.

(** the two failed TryToAcquire calls of task 1 returned false, the third true *)
Example C08_tso_try_results :
  let outs := (fix go (s : tso) (ls : list tlabel) : list (option bool) :=
                 match ls with
                 | [] => []
                 | l :: r => match tstep gen_cfg true false s l with
                             | Some (s', o) => o :: go s' r
                             | None => []
                             end
                 end) (tinit 2) tsched2 in
  outs = [Some true; None; None; None; Some false; None; Some false; None; Some true; None].
Proof. vm_compute. reflexivity. Qed.
