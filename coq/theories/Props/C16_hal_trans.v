(** C16 — the anchor kernel/hal/hal.go and device.DriverInfoList.Less tied to the hand-written model BY TRANSLATION
    (statements only; proofs: Hal/HalTrans.v).  gen/gotrans (config gen/gotrans/hal.json, extension
    gen/gotrans/ext_hal.go) regenerates Gen/Trans_hal.v from the sources on every run: [go_hal_linkTTYToConsole],
    [go_hal_onConsoleInit], [go_hal_onDriverInit] (the type switch; its terminal branch is "onTTYInit") and
    [go_device_DriverInfoList_Less].

    There a driver / console / terminal value is a REFERENCE (a number, 0 = nil; the model's device [d] is the
    reference [d + 1]); [devices.activeConsole] / [devices.activeTTY] are two fields of the world record ([to_w tr st]
    = the world with trace [tr] and the model state's active devices); every call on a reference (AttachTo, SetState,
    SetLogo, SetFont) and kfmt.SetOutputSink is an event pushed on the trace, a call on nil is GPanic; the dynamic type
    of a driver is the oracle [impl_of id p] built from the model's description [p] of the probed driver;
    [Dimensions]' results, logo.BestFit / font.BestFit are parameters; the two loops over the boot command line are
    SUMMARISED by the translator (it checks that they only assign locals): disableLogo is the parameter given the
    model's [h_logo_off], the font found by name is the parameter [selfont] (any value).

    The theorems: whenever the model's step returns [Ok st'] (C16_bringup proves it does on every reachable state),
    the regenerated function returns GOk, leaves exactly the model's active console / terminal, and the calls it
    pushed, [calls], are the model's: their control view ([ctl_calls]: method, device, argument - AttachTo, SetState,
    SetLogo, SetFont in order) equals the control events the model added ([ctl_events]), and the output sink the model
    ends with is the terminal of the last kfmt.SetOutputSink call, if any ([sink_after]).  What SetOutputSink itself
    does (drain the early buffer into the terminal) and the Writes are the model's (and C16_bringup's) business.
    (Audit note, side conditions: the step theorems speak only about the case "the model's step returns Ok" - the model's
    link fails only if the drain of the early ring buffer does; what the translation does when the model panics is stated
    for the nil terminal only (C16_link_nil_tty_panics).  [calls] is determined by the first conjunct (it is the prefix
    the translation pushed); the control view drops the ARGUMENT of SetLogo / SetFont (which logo / font: not modelled).
    C16_less_is_translation: the list is shorter than 2^63, i and j are inside it and both DetectOrder values are int8
    values (-128..127).) *)
From Coq Require Import NArith ZArith String List.
From FF Require Import Lib.Word Lib.GoOps Lib.GoOpsHal Gen.Consts_device_tty Gen.Trans_hal.
From FF Require Import Kfmt.Fmt Hal.Model Hal.HalTrans.
Import ListNotations.
Local Open Scope N_scope.

(** linkTTYToConsole, both devices present (the only way it is called): AttachTo(console), SetOutputSink, SetState(active) *)
Theorem C16_link_is_translation :
  forall tr st st' t c,
    h_tty st = Some t -> h_console st = Some c -> link st = Ok st' ->
    go_hal_linkTTYToConsole (to_w tr st) = GOk (to_w (link_calls t c ++ tr) st', tt) /\
    ctl_events (h_trace st') = ctl_calls (link_calls t c) ++ ctl_events (h_trace st) /\
    h_sink st' = sink_after st (link_calls t c).
Proof. exact link_is_translation. Qed.
Print Assumptions C16_link_is_translation.

(** without an active terminal the first call is on a nil interface: a run-time panic (the model: Panic NilDeref) *)
Theorem C16_link_nil_tty_panics :
  forall tr st, h_tty st = None -> go_hal_linkTTYToConsole (to_w tr st) = GPanic /\ link st = Panic NilDeref.
Proof. intros tr st H. split; [exact (link_nil_tty tr st H)|unfold link; rewrite H; reflexivity]. Qed.
Print Assumptions C16_link_nil_tty_panics.

(** onConsoleInit for EVERY state and every console (with or without logo / font support), either setting of
    consoleLogo, any font selection: a second console changes nothing; the first one becomes active, gets its logo
    (unless switched off) and font, and - the step the seeded early returns skipped - is linked when a terminal is
    already active *)
Theorem C16_onConsoleInit_is_translation :
  forall tr st st' id p d0 d1 ofb olb selfont,
    on_console_init id p st = Ok st' ->
    exists calls,
      go_hal_onConsoleInit (to_w tr st) (id + 1) d0 d1 ofb (impl_of id p) olb (h_logo_off st) selfont
        = GOk (to_w (calls ++ tr) st', tt) /\
      ctl_events (h_trace st') = ctl_calls calls ++ ctl_events (h_trace st) /\
      h_sink st' = sink_after st calls.
Proof. exact onConsoleInit_trans. Qed.
Print Assumptions C16_onConsoleInit_is_translation.

(** the terminal branch of onDriverInit: the first terminal becomes active and is linked when a console is active *)
Theorem C16_onTTYInit_is_translation :
  forall tr st st' id p info d0 d1 ofb olb selfont,
    p_kind p = KTTY -> on_tty_init id st = Ok st' ->
    exists calls,
      go_hal_onDriverInit (to_w tr st) info (id + 1) d0 d1 ofb (impl_of id p) olb (h_logo_off st) selfont
        = GOk (to_w (calls ++ tr) st', tt) /\
      ctl_events (h_trace st') = ctl_calls calls ++ ctl_events (h_trace st) /\
      h_sink st' = sink_after st calls.
Proof. exact onTTYInit_is_translation. Qed.
Print Assumptions C16_onTTYInit_is_translation.

(** onDriverInit as a whole = the model's [on_driver_init] (the function C16_bringup's probe loop calls), for every
    kind of driver *)
Theorem C16_onDriverInit_is_translation :
  forall tr st st' id p info d0 d1 ofb olb selfont,
    on_driver_init id p st = Ok st' ->
    exists calls,
      go_hal_onDriverInit (to_w tr st) info (id + 1) d0 d1 ofb (impl_of id p) olb (h_logo_off st) selfont
        = GOk (to_w (calls ++ tr) st', tt) /\
      ctl_events (h_trace st') = ctl_calls calls ++ ctl_events (h_trace st) /\
      h_sink st' = sink_after st calls.
Proof. exact onDriverInit_trans. Qed.
Print Assumptions C16_onDriverInit_is_translation.

(** the model's two branches ARE [on_driver_init] *)
Theorem C16_on_driver_init_cases :
  forall id p st,
    on_driver_init id p st =
    match p_kind p with KConsole => on_console_init id p st | KTTY => on_tty_init id st | KOther => Ok st end.
Proof. exact on_driver_init_cases. Qed.
Print Assumptions C16_on_driver_init_cases.

(** DriverInfoList.Less(i, j) is the strict order of the DetectOrder values (int8, signed) - the relation
    C16_probe_order's hypothesis "sorted w.r.t. d_order" (the contract of sort.Sort) is about *)
Theorem C16_less_is_translation :
  forall w (l : list driver) i j di dj,
    N.of_nat (length l) < 9223372036854775808 ->
    nth_error l i = Some di -> nth_error l j = Some dj ->
    (-128 <= d_order di <= 127)%Z -> (-128 <= d_order dj <= 127)%Z ->
    go_device_DriverInfoList_Less w (to_infos l) (N.of_nat i) (N.of_nat j) = GOk (w, (d_order di <? d_order dj)%Z).
Proof. exact less_trans. Qed.
Print Assumptions C16_less_is_translation.

Theorem C16_less_out_of_range_panics :
  forall w (l : list driver) i j,
    N.of_nat (length l) <= i -> go_device_DriverInfoList_Less w (to_infos l) i j = GPanic.
Proof. exact less_out_of_range. Qed.
Print Assumptions C16_less_out_of_range_panics.
