(** Concrete runs of the regenerated reserveZeroedFrame (Gen/Trans_vmm_zero.v) by [vm_compute] from the boot state: the
    successful run (frame 0x101 becomes the zero frame, is cleared, the guard is armed; three more frames become the
    tables of the temporary page), allocator exhausted at the first call (InvalidFrame recorded, guard not armed) and
    inside the temporary mapping. *)
From Coq Require Import NArith String List Bool.
From FF Require Import Lib.Word Lib.GoOps Gen.Consts_mm_vmm Gen.Trans_vmm_zero Vmm.Pt Vmm.PtMem.
From FF Require Vmm.ZeroTrans Vmm.PdtTrans.
Module Z := FF.Vmm.ZeroTrans.
Module T := FF.Vmm.PdtTrans.
Import ListNotations.
Local Open Scope N_scope.

Definition boot (oracle : list N) : st := init_state 0x100 64 0 oracle.
Definition run (s : st) := go_vmm_reserveZeroedFrame (mk_go_vmm_world [] s) T.o_memset T.o_maptemp Z.o_alloc_inv T.o_unmap.
Definition obs (r : gres (go_vmm_world * option string)) :=
  match r with
  | GOk (w, e) => Some (e, f_world_trace w, zf (f_world_mem w), prot (f_world_mem w), rd (mem (f_world_mem w)) 0x101 7, digest (f_world_mem w))
  | _ => None
  end.

Example reserve_zeroed_run :
  let s := boot [0x101; 0x102; 0x103; 0x104] in
  obs (run s) = Some (None, [T.ev_unmap temp_page; T.ev_memset (frame_addr temp_page); T.ev_maptemp 0x101; Z.ev_alloc],
                      0x101, true, 0, digest (match reserve_zeroed s with Ok (s', _) => s' | Stray => s end))
  /\ rd (mem s) 0x101 7 = POISON.
Proof. vm_compute. split; reflexivity. Qed.

Example reserve_zeroed_no_frame_run :
  obs (run (boot [])) = Some (Some "errAllocFrame"%string, [Z.ev_alloc], mm_InvalidFrame, false, POISON,
                              digest (match reserve_zeroed (boot []) with Ok (s', _) => s' | Stray => boot [] end)).
Proof. vm_compute. reflexivity. Qed.

Example reserve_zeroed_temp_failure_run :
  let s := boot [0x101; 0x102] in
  obs (run s) = Some (Some "errAllocFrame"%string, [T.ev_maptemp 0x101; Z.ev_alloc], 0x101, false, POISON,
                      digest (match reserve_zeroed s with Ok (s', _) => s' | Stray => s end)).
Proof. vm_compute. reflexivity. Qed.
