(** C05 - tie of setupPDTForKernel (kernel/mm/vmm/pdt.go) to the source BY TRANSLATION.

    Gen/Trans_vmm_kernel.v is regenerated on every run by gen/gotrans in its "memory as state" mode
    (gen/gotrans/ext_mem.go, config gen/gotrans/vmm_kernel.json; see Props/C04_pdt_trans.v for the mode).
      - The section visitor - a closure stored in the variable [visitor] and handed to visitElfSectionsFn through the
        noEscape cast - is translated as the body of [gvisit .. sections ..] (Lib/GoVisit.v): it runs once per item of
        [sections], the sequence of (flags, address, size) triples the visitor function delivers, in order; the closure
        has no result, so falling off its end and [return] both mean "next item"; the [return] inside its page loop
        leaves the loop and the closure.  [sections] is an extra parameter of the translated function.
        WHAT THE VISITOR FUNCTION DELIVERS IS NOT PART OF THIS TIE: that multiboot.VisitElfSections calls the closure
        once per ELF section of the boot information with non-zero size, in order, with the section's flags, address and
        size, is that function's contract and the subject of property C10.  The theorem instantiates [sections] with
        [K.nonempty secs], the list that contract yields for the section table [secs] of the model.
      - mm.AllocFrame, kernelPDT.Init, kernelPDT.Map, kernelPDT.Activate and translateFn are seams: each call is
        recorded as [GCall name [GNum arg ..]] and its effect and results come from a stateful oracle.  The oracles are
        the model's environment: the allocator oracle of the state, [pdt_init] / [pdt_map] / [pdt_activate] on the
        kernel's slot (tied to pdt.go by C04_pdt_*_is_translation) and [translate] (C04_translate_is_translation).
      - earlyReserveLastUsed is the field [last] of the state.
    [K.setup_kernel_tr] is the model [setup_kernel] of Vmm/Pt.v (the subject of C05_kernel_aspace) with the sequence
    of seam calls written next to it, on unary loop counts; [C05_setup_kernel_tr_is_model] says that forgetting that
    sequence gives [setup_kernel] exactly (state, error, Stray).
    [C05_setup_kernel_is_translation]: for every kernel offset, section table, state and allocator behaviour the
    regenerated function ends in the model's machine state with the model's error ([T.err_of]: nil iff 0), having made
    exactly the model's seam calls in the model's order; a stray access of the model is a panic.  Hypotheses: 64-bit
    offset, addresses, sizes and reservation cursor; fuel above the page count of every section that is MAPPED - non-empty
    and at or above the offset, [K.mapped off secs] - and of the reserved range ([K.fuel_ok]: fuel is an artefact of the translation
    of loops).  Empty entries, in particular the all-zero null section every ELF section table starts with (whose page
    count `size - 1` wraps to 2^52), are never delivered by the visitor and need no fuel, so the hypothesis is
    satisfiable for real tables with small fuel (example C05_null_section_table_nonvacuous).
    Repaired after audit A: [K.fuel_ok] ranges over the sections whose pages are actually MAPPED ([K.mapped off secs]:
    non-empty AND address >= kernel offset); the sections the closure skips at `secAddress < kernelPageOffset` (the large
    non-alloc .symtab / .debug sections of a real ELF table sit at address 0) need no fuel, so a real table satisfies the
    hypothesis with the small fuel the function actually needs (example C05_setup_kernel_is_translation_real_input).
    The seam oracles are FIXED to the model's pdt_init / pdt_map / pdt_activate / translate: the theorem does not range
    over arbitrary seam behaviours, only over allocator oracles carried in the state.
    Statements only; proofs are in Vmm/KernelTrans.v. *)
From Coq Require Import NArith String List Bool.
From FF Require Import Lib.Word Lib.GoOps Gen.Consts_mm_vmm Gen.Trans_vmm_kernel Vmm.Pt.
From FF Require Vmm.KernelTrans Vmm.PdtTrans Vmm.MapTrans.
Module K := FF.Vmm.KernelTrans.
Module T := FF.Vmm.PdtTrans.
Module M := FF.Vmm.MapTrans.
Import ListNotations.
Local Open Scope N_scope.

Theorem C05_setup_kernel_is_translation :
  forall (off : N) (secs : list section) (s : st) (tr0 : list gcall) (fuel : nat),
    off < two64 -> last s < two64 -> Forall K.sec_ok secs -> K.fuel_ok fuel off secs s ->
    go_vmm_setupPDTForKernel fuel (mk_go_vmm_world tr0 s) off
      K.o_kactivate K.o_kinit K.o_kmap M.o_alloc K.o_translate (K.nonempty secs) =
    match K.setup_kernel_tr off secs s tr0 with
    | None => GPanic
    | Some (s', e, tr') => GOk (mk_go_vmm_world tr' s', T.err_of e)
    end.
Proof. exact K.setup_kernel_is_translation. Qed.
Print Assumptions C05_setup_kernel_is_translation.

Theorem C05_setup_kernel_tr_is_model :
  forall (off : N) (secs : list section) (s : st) (tr0 : list gcall),
    match K.setup_kernel_tr off secs s tr0 with
    | None => Stray
    | Some (s', e, _) => Ok (s', e)
    end = setup_kernel off secs s.
Proof. exact K.setup_kernel_tr_model. Qed.
Print Assumptions C05_setup_kernel_tr_is_model.

(** the two together, without the trace: the regenerated function computes [setup_kernel] *)
Theorem C05_setup_kernel_is_translation_state :
  forall (off : N) (secs : list section) (s : st) (tr0 : list gcall) (fuel : nat),
    off < two64 -> last s < two64 -> Forall K.sec_ok secs -> K.fuel_ok fuel off secs s ->
    match go_vmm_setupPDTForKernel fuel (mk_go_vmm_world tr0 s) off
            K.o_kactivate K.o_kinit K.o_kmap M.o_alloc K.o_translate (K.nonempty secs) with
    | GOk (w, e) => GOk (f_world_mem w, e)
    | GPanic => GPanic
    | GFuel => GFuel
    end =
    match setup_kernel off secs s with
    | Stray => GPanic
    | Ok (s', e) => GOk (s', T.err_of e)
    end.
Proof. exact K.setup_kernel_is_translation_state. Qed.
Print Assumptions C05_setup_kernel_is_translation_state.
